(* Relay model, C10: the response grammar on the caller's connection for runs WITHOUT OVERLAP.

   For every fresh-id schedule in which
     - no two goroutines overlap on a call ([no_overlap], RelayCalmP),
     - the frames a destination sends for a message id form a prefix of an accepted word of
       Spec/WireOk.v ([dest_ok]), and it does not answer an id the relay has not yet allocated
       on that connection ([causal]),
   what the relay enqueues towards the caller for a request (k, id) is a prefix of an accepted
   word: at most one terminal frame, nothing after it. *)
From Coq Require Import ZArith List Bool Lia.
From Verif Require Import Base.Wrap Gen.GenConsts Gen.GenFrame Model.RelayItems Model.RelayCalm Spec.WireOk Proofs.WireOkP
  Proofs.RelayAssocP Proofs.RelayCoreP Proofs.RelayInv9P Proofs.RelayTimerP Proofs.RelayThmP Proofs.RelaySilentP
  Proofs.RelayWireP Proofs.RelayCalmP Proofs.RelayPerCallP Proofs.RelayPairP.
Import ListNotations.
Local Open Scope Z_scope.

(* ---------------------------------------------------------------- frames that arrived *)

Lemma wire_of_cons : forall d did d' f log,
  wire_of d did ((d', f) :: log) =
  wire_of d did log ++ (if (d' =? d) && (f_id f =? did) then match kind_of f with Some x => [x] | None => [] end else []).
Proof. reflexivity. Qed.

Lemma wire_of_arr_run : forall d did ls arr, exists s, wire_of d did (arr_run arr ls) = wire_of d did arr ++ s.
Proof.
  intros d did ls. induction ls as [|l r IH]; intro arr; cbn.
  - exists []. symmetry. apply app_nil_r.
  - destruct (IH (arr_step arr l)) as [s Hs]. unfold arr_run in Hs. rewrite Hs.
    destruct l; cbn [arr_step]; try (exists s; reflexivity).
    rewrite wire_of_cons, <- app_assoc. eexists. reflexivity.
Qed.

Definition qarr (arr : list (Z * frame)) (d did : Z) : option wstate := wire_run W0 (wire_of d did arr).
Definition arr_ok (arr : list (Z * frame)) : Prop := forall d did, exists q, qarr arr d did = Some q.

Lemma dest_ok_arr_ok : forall arr ls, (forall d did, wire_prefix_ok (wire_of d did (arr_run arr ls)) = true) -> arr_ok arr.
Proof.
  intros arr ls H d did. specialize (H d did). destruct (wire_of_arr_run d did ls arr) as [s Hs]. rewrite Hs in H.
  apply wire_prefix_ok_app_inv in H. apply wire_prefix_ok_run in H. exact H.
Qed.

Lemma kind_fin : forall f x, kind_of f = Some x -> fin_of f = terminal x.
Proof.
  intros f x H. unfold kind_of in H. unfold fin_of, finishesCall, hasMoreFragments in *.
  destruct (f_mt f =? c_messageTypeCallRes) eqn:E1.
  - inversion H. subst. apply Z.eqb_eq in E1. rewrite E1. cbn. destruct (Z.land (f_flags f) c_hasMoreFragmentsFlag =? 0); reflexivity.
  - destruct (f_mt f =? c_messageTypeCallResContinue) eqn:E2.
    + inversion H. subst. apply Z.eqb_eq in E2. rewrite E2. cbn. destruct (Z.land (f_flags f) c_hasMoreFragmentsFlag =? 0); reflexivity.
    + destruct (f_mt f =? c_messageTypeError) eqn:E3; [|discriminate]. inversion H. subst. apply Z.eqb_eq in E3. rewrite E3. reflexivity.
Qed.

Lemma kind_with_id : forall f i, kind_of (with_id f i) = kind_of f.
Proof. reflexivity. Qed.

Lemma kind_req_frame : forall i c m, kind_of (req_frame i c m) = None.
Proof. intros i c m. destruct c; reflexivity. Qed.

(* ---------------------------------------------------------------- counting blocked instructions *)

Section Fixed.
  Variables (k id : Z).

  Definition bl (j : instr) : Z := b2z (blocked k id j).
  Definition nb (st : state) : Z := tsum bl (threads st).

  Lemma bl_range : forall j, 0 <= bl j <= 1.
  Proof. intro j. unfold bl, b2z. destruct (blocked k id j); lia. Qed.

  Lemma csum_bl_nonneg : forall code, 0 <= csum bl code.
  Proof. intro code. apply csum_nonneg. intro j. apply bl_range. Qed.

  Lemma csum_in_le : forall code j, In j code -> bl j <= csum bl code.
  Proof.
    induction code as [|a r IH]; intros j Hj; [contradiction|]. cbn. destruct Hj as [->|Hj].
    - pose proof (csum_bl_nonneg r). lia.
    - specialize (IH _ Hj). pose proof (bl_range a). lia.
  Qed.

  Lemma csum_two : forall code j1 j2, In j1 code -> In j2 code -> j1 <> j2 -> bl j1 + bl j2 <= csum bl code.
  Proof.
    induction code as [|a r IH]; intros j1 j2 H1 H2 Hne; [contradiction|]. cbn.
    destruct H1 as [->|H1], H2 as [->|H2].
    - contradiction.
    - pose proof (csum_in_le _ _ H2). lia.
    - pose proof (csum_in_le _ _ H1). lia.
    - specialize (IH _ _ H1 H2 Hne). pose proof (bl_range a). lia.
  Qed.

  Lemma tsum_in_le : forall ths th code, In (th, code) ths -> csum bl code <= tsum bl ths.
  Proof.
    unfold tsum. induction ths as [|[th0 c0] r IH]; intros th code Hin; [contradiction|]. cbn.
    destruct Hin as [Hin|Hin].
    - inversion Hin. subst. pose proof (asum_nonneg (fun _ c => csum bl c) r (fun _ c => csum_bl_nonneg c)). lia.
    - specialize (IH _ _ Hin). pose proof (csum_bl_nonneg c0). lia.
  Qed.

  Lemma tsum_two : forall ths th1 c1 th2 c2, NoDup (map fst ths) -> In (th1, c1) ths -> In (th2, c2) ths -> th1 <> th2 ->
    csum bl c1 + csum bl c2 <= tsum bl ths.
  Proof.
    unfold tsum. induction ths as [|[th0 c0] r IH]; intros th1 c1 th2 c2 Hnd H1 H2 Hne; [contradiction|]. cbn.
    inversion Hnd as [|? ? Hnot Hnd']. subst.
    destruct H1 as [H1|H1], H2 as [H2|H2].
    - inversion H1. inversion H2. subst. contradiction.
    - inversion H1. subst. pose proof (tsum_in_le _ _ _ H2). unfold tsum in *. lia.
    - inversion H2. subst. pose proof (tsum_in_le _ _ _ H1). unfold tsum in *. lia.
    - specialize (IH _ _ _ _ Hnd' H1 H2 Hne). pose proof (csum_bl_nonneg c0). lia.
  Qed.

  Lemma csum_le1_unique : forall code j1 j2, csum bl code <= 1 -> In j1 code -> In j2 code -> bl j1 = 1 -> bl j2 = 1 -> j1 = j2.
  Proof.
    induction code as [|a r IH]; intros j1 j2 Hle H1 H2 E1 E2; [contradiction|]. cbn in Hle.
    destruct H1 as [->|H1], H2 as [->|H2].
    - reflexivity.
    - pose proof (csum_in_le _ _ H2). lia.
    - pose proof (csum_in_le _ _ H1). lia.
    - apply IH; try assumption. pose proof (bl_range a). lia.
  Qed.

  (* with at most one blocked instruction, two blocked instructions are the same one *)
  Lemma unique_blocked : forall st th1 c1 j1 th2 c2 j2, NoDup (map fst (threads st)) -> nb st <= 1 ->
    In (th1, c1) (threads st) -> In j1 c1 -> blocked k id j1 = true ->
    In (th2, c2) (threads st) -> In j2 c2 -> blocked k id j2 = true -> th1 = th2 /\ j1 = j2.
  Proof.
    intros st th1 c1 j1 th2 c2 j2 Hnd Hnb H1 Hj1 B1 H2 Hj2 B2. unfold nb in Hnb.
    assert (E1 : bl j1 = 1) by (unfold bl; rewrite B1; reflexivity).
    assert (E2 : bl j2 = 1) by (unfold bl; rewrite B2; reflexivity).
    destruct (eqb_dec tid_eqb tid_eqb_ok th1 th2) as [->|Hne].
    - split; [reflexivity|].
      pose proof (in_lookup tid_eqb tid_eqb_ok _ _ _ Hnd H1) as L1. pose proof (in_lookup tid_eqb tid_eqb_ok _ _ _ Hnd H2) as L2.
      rewrite L1 in L2. inversion L2. subst c2.
      pose proof (tsum_in_le _ _ _ H1). eapply csum_le1_unique; try eassumption. lia.
    - exfalso. pose proof (tsum_two _ _ _ _ _ Hnd H1 H2 Hne). pose proof (csum_in_le _ _ Hj1). pose proof (csum_in_le _ _ Hj2). lia.
  Qed.

  Lemma nb_zero_none : forall st th code j, nb st = 0 -> In (th, code) (threads st) -> In j code -> blocked k id j = false.
  Proof.
    intros st th code j H Hin Hj. pose proof (tsum_in_le _ _ _ Hin). pose proof (csum_in_le _ _ Hj). pose proof (csum_bl_nonneg code).
    unfold nb in H. unfold bl, b2z in *. destruct (blocked k id j); [lia|reflexivity].
  Qed.

  Lemma none_nb_zero : forall st, (forall th code j, In (th, code) (threads st) -> In j code -> blocked k id j = false) -> nb st = 0.
  Proof.
    intros st H. unfold nb. apply tsum_zero. intros th code j Hin Hj. unfold bl. rewrite (H _ _ _ Hin Hj). reflexivity.
  Qed.

  Lemma nb_pos : forall st th code j, In (th, code) (threads st) -> In j code -> blocked k id j = true -> 1 <= nb st.
  Proof.
    intros st th code j Hin Hj B. pose proof (tsum_in_le _ _ _ Hin). pose proof (csum_in_le _ _ Hj). unfold nb, bl in *. rewrite B in *. cbn in *. lia.
  Qed.
End Fixed.

(* ---------------------------------------------------------------- blocked instructions a step pushes *)

Section Pushes.
  Variables (k id : Z).
  Notation K0 := (k, 0, id).

  Lemma csum_bl_after_sent : forall r, csum (bl k id) (after_sent r) = 0.
  Proof.
    intro r. unfold after_sent. destruct (fin_of (r_f r)), (0 <? r_more r); reflexivity.
  Qed.

  Ltac blcount :=
    cbn [csum app]; unfold bl, b2z; cbn [blocked adm_kf];
    repeat match goal with |- context [if ?b then _ else _] => destruct b end; lia.

  Lemma pushed_bl_count : forall cf st i room st1 pushed, exec cf st i room = (st1, pushed) -> csum (bl k id) pushed <= 1.
  Proof.
    intros cf st i room st1 pushed H. destruct i; cbn [exec] in H.
    - destruct (e_start e =? 0); inversion H; subst; clear H; [blcount|].
      destruct ((e_start e =? 1) || (e_start e =? 3)), ((e_start e =? 1) || (e_start e =? 2)), (e_code e =? c_ErrCodeProtocol); blcount.
    - destruct (c_state (get_conn st k0) =? c_connectionActive); inversion H; subst; blcount.
    - destruct (klookup (k0, 0, f_id f) (items st)); [|destruct (e_dest e =? -1); [|destruct (e_dest e <? 0)]]; inversion H; subst; blcount.
    - destruct (c_state (get_conn st d) =? c_connectionActive); inversion H; subst; blcount.
    - unfold timer_new in H. cbn [fst snd] in H. inversion H; subst. blcount.
    - unfold timer_new in H. cbn [fst snd] in H. inversion H; subst. destruct (e_mode e <? 0); blcount.
    - inversion H; subst. cbn. lia.
    - inversion H; subst. cbn. lia.
    - match type of H with (if ?b then _ else _) = _ => destruct b end; inversion H; subst; cbn; lia.
    - destruct ((c_state (get_conn st k0) =? c_connectionClosed) || negb room); inversion H; subst; cbn; lia.
    - destruct (c_state (get_conn st k0) =? c_connectionActive); inversion H; subst; cbn; lia.
    - destruct (frameTypeFor (f_mt f)); [|inversion H; subst; cbn; lia].
      match type of H with context [items_get ?a ?b ?cc] => destruct (items_get a b cc) as [st' g] end.
      inversion H; subst. blcount.
    - destruct g as [[it stopped]|]; [|inversion H; subst; cbn; lia].
      destruct (it_tomb it || (fin_of f && negb stopped)); inversion H; subst; [cbn; lia|].
      destruct ((f_mt f =? c_messageTypeCallRes) && f_wf f); blcount.
    - match type of H with context [items_get ?a ?b ?cc] => destruct (items_get a b cc) as [st' g] end.
      inversion H; subst. cbn [csum]. pose proof (bl_range k id (IRcvChk r (r_d r, (if r_ft r =? c_requestFrame then 1 else 0), f_id (r_f r)) g)). lia.
    - destruct g as [[it stopped]|].
      + destruct (it_tomb it || (fin_of (r_f r) && negb stopped)); inversion H; subst; clear H.
        * rewrite csum_bl_after_sent. lia.
        * rewrite csum_app. cbn [csum]. pose proof (bl_range k id (IRcvEnq r rk (it_dest it, it_remap it))).
          assert (Hz : csum (bl k id) (if (r_ft r =? c_responseFrame) || (f_mt (r_f r) =? c_messageTypeCancel)
             then if dcsSucceeded (f_mt (r_f r)) (f_code (r_f r)) [reason_syscode (f_code (r_f r))] then [ICb (it_call it) CbSucc]
                  else if 0 <? zlen (dcsFailMsg (f_mt (r_f r)) (f_code (r_f r)) [reason_syscode (f_code (r_f r))])
                       then [ICb (it_call it) (CbFailed (reason_of_msg (dcsFailMsg (f_mt (r_f r)) (f_code (r_f r)) [reason_syscode (f_code (r_f r))])))] else []
             else []) = 0).
          { destruct ((r_ft r =? c_responseFrame) || (f_mt (r_f r) =? c_messageTypeCancel)); [|reflexivity].
            destruct (dcsSucceeded _ _ _); [reflexivity|]. destruct (0 <? zlen _); reflexivity. }
          rewrite Hz. lia.
      + inversion H; subst. cbn. lia.
    - destruct room; inversion H; subst; clear H.
      + rewrite csum_app, csum_bl_after_sent. destruct (fin_of (r_f r)); cbn; lia.
      + cbn. lia.
    - destruct (items_get st t true) as [st' g]. destruct g as [[it [|]]|]; inversion H; subst; cbn; lia.
    - destruct (items_entomb cf st t) as [st' g]. destruct g as [[it [|]]|]; inversion H; subst; try (cbn; lia).
      rewrite csum_app. cbn [csum]. unfold bl at 2. cbn [blocked adm_kf b2z].
      destruct (match s with FromFail _ => it_orig it | FromTimeout o => o end); [|cbn; lia].
      unfold orig_tail. destruct s; [destruct (reason =? reason_source_slow)|]; blcount.
    - destruct (items_delete_call st t lk) as [st' g]. destruct g as [[it [|]]|]; inversion H; subst; try (cbn; lia).
      destruct (it_orig it); cbn; lia.
    - destruct (zlookup tm (timers st)) as [x|]; [|inversion H; subst; cbn; lia].
      destruct (tm_released x); inversion H; subst; cbn; lia.
  Qed.

  (* where a blocked instruction comes from *)
  Lemma pushed_blocked : forall cf st th i rest room st1 pushed j, Inv st -> In (th, i :: rest) (threads st) ->
    exec cf st i room = (st1, pushed) -> In j pushed -> blocked k id j = true ->
    (blocked k id i = true /\ ((exists k' f, adm_kf i = Some (k', f)) \/ (exists r rk g lk, i = IRcvChk r rk g /\ j = IRcvEnq r rk lk))) \/
    (exists r it s, i = IRcvGet r /\ j = IRcvChk r (rcv_key r) (Some (it, s)) /\
        klookup (rcv_key r) (items st) = Some it /\ it_tomb it = false) \/
    (exists s it0 code, i = IEntomb K0 s /\ klookup K0 (items st) = Some it0 /\ it_tomb it0 = false /\ j = ISendErr k id code).
  Proof.
    intros cf st th i rest room st1 pushed j HI Hin0 H Hj Hb. destruct i; cbn [exec] in H.
    - left. destruct (e_start e =? 0); inversion H; subst; clear H.
      + destruct Hj as [<-|[]]. cbn in Hb. split; [exact Hb|left; eexists; eexists; reflexivity].
      + split; [|left; eexists; eexists; reflexivity]. in_cases Hj; try discriminate. cbn in Hb. exact Hb.
    - left. split; [|left; eexists; eexists; reflexivity].
      destruct (c_state (get_conn st k0) =? c_connectionActive); inversion H; subst; clear H; in_cases Hj; try discriminate; cbn in Hb; exact Hb.
    - left. split; [|left; eexists; eexists; reflexivity].
      destruct (klookup (k0, 0, f_id f) (items st)); [|destruct (e_dest e =? -1); [|destruct (e_dest e <? 0)]];
        inversion H; subst; clear H; in_cases Hj; try discriminate; cbn in Hb; exact Hb.
    - left. split; [|left; eexists; eexists; reflexivity].
      destruct (c_state (get_conn st d) =? c_connectionActive); inversion H; subst; clear H; in_cases Hj; try discriminate; cbn in Hb; exact Hb.
    - left. split; [|left; eexists; eexists; reflexivity].
      unfold timer_new in H. cbn [fst snd] in H. inversion H; subst. destruct Hj as [<-|[]]. cbn in Hb. exact Hb.
    - unfold timer_new in H. cbn [fst snd] in H. inversion H; subst; clear H. in_cases Hj; discriminate.
    - inversion H; subst. contradiction.
    - inversion H; subst. destruct Hj as [<-|[]]; first [discriminate | reflexivity].
    - match type of H with (if ?b then _ else _) = _ => destruct b end; inversion H; subst; contradiction.
    - destruct ((c_state (get_conn st k0) =? c_connectionClosed) || negb room); inversion H; subst; contradiction.
    - destruct (c_state (get_conn st k0) =? c_connectionActive); inversion H; subst; contradiction.
    - destruct (frameTypeFor (f_mt f)); [|inversion H; subst; contradiction].
      match type of H with context [items_get ?a ?b ?cc] => destruct (items_get a b cc) as [st' g] end.
      inversion H; subst. destruct Hj as [<-|[]]. discriminate.
    - destruct g as [[it stopped]|]; [|inversion H; subst; contradiction].
      destruct (it_tomb it || (fin_of f && negb stopped)); inversion H; subst; [contradiction|]. in_cases Hj; discriminate.
    - right. left. match type of H with context [items_get ?a ?b ?cc] => destruct (items_get a b cc) as [st' g] eqn:E end.
      inversion H; subst; clear H. destruct Hj as [<-|[]]. fold (rcv_key r) in *.
      apply items_get_spec in E. destruct E as [_ Em]. cbn in Hb.
      destruct g as [[it s]|]; [|discriminate].
      destruct (klookup (rcv_key r) (items st)) as [it0|] eqn:El; [|discriminate]. destruct Em as [b Hg]. inversion Hg. subst it0 s.
      exists r, it, b. split; [reflexivity|]. split; [reflexivity|]. split; [exact El|]. rewrite !andb_true_iff in Hb. destruct Hb as [[_ Hb] _]. apply negb_true_iff in Hb. exact Hb.
    - left. destruct g as [[it stopped]|].
      + destruct (it_tomb it || (fin_of (r_f r) && negb stopped)) eqn:Echk; inversion H; subst; clear H.
        * rewrite (after_sent_unblocked k id r j Hj) in Hb. discriminate.
        * apply orb_false_iff in Echk. destruct Echk as [Et Es].
          apply in_app_or in Hj. destruct Hj as [Hj|[<-|[]]]; [in_cases Hj; discriminate|].
          split; [|right; exists r, rk, (Some (it, stopped)), (it_dest it, it_remap it); split; reflexivity].
          cbn in Hb. cbn. rewrite Hb, Et. cbn. destruct (fin_of (r_f r)); [|reflexivity]. cbn in Es. apply negb_false_iff in Es. exact Es.
      + inversion H; subst. in_cases Hj. discriminate.
    - destruct room; inversion H; subst; clear H.
      + apply in_app_or in Hj. destruct Hj as [Hj|Hj]; [in_cases Hj; discriminate|].
        rewrite (after_sent_unblocked k id r j Hj) in Hb. discriminate.
      + in_cases Hj; discriminate.
    - destruct (items_get st t true) as [st' g]. destruct g as [[it [|]]|]; inversion H; subst; try contradiction.
      destruct Hj as [<-|[]]. discriminate.
    - right. right. destruct (items_entomb cf st t) as [st' g] eqn:E. apply items_entomb_spec in E. destruct E as (_&_&_&_&_&_&E).
      destruct g as [[it [|]]|]; inversion H; subst; try contradiction. clear H.
      destruct (klookup t (items st)) as [it0|] eqn:El; [|destruct E as [E _]; discriminate].
      pose proof (lookup_in key_eqb key_eqb_ok _ _ _ El) as Hin.
      assert (Hnt : it_tomb it0 = false /\ it_orig it = it_orig it0).
      { destruct E as [(Hg&_)|[(_&Hg&_)|(Ht&Hg&_)]]; inversion Hg; subst.
        - split; [destruct (it_tomb it0); [discriminate|reflexivity]|reflexivity].
        - split; [exact Ht|reflexivity]. }
      destruct Hnt as [Hnt Hor].
      apply in_app_or in Hj. destruct Hj as [Hj|[<-|[]]]; [|discriminate].
      destruct (match s with FromFail _ => it_orig it | FromTimeout o => o end) eqn:Eo; [|contradiction].
      assert (Hdir : key_dir t = 0).
      { pose proof (inv_orig _ HI _ _ Hin) as Ho. destruct s as [r0|o].
        - rewrite Hor, Ho in Eo. apply Z.eqb_eq in Eo. exact Eo.
        - destruct (inv_code _ HI _ _ Hin0) as [Hf _]. inversion Hf as [|? ? Hiok _]. unfold iok in Hiok. cbn in Hiok.
          rewrite Hiok in Eo. apply Z.eqb_eq in Eo. exact Eo. }
      assert (Hgoal : forall code, blocked k id (ISendErr (key_conn t) (key_id t) code) = true ->
                exists s0 it1 code0, IEntomb t s = IEntomb K0 s0 /\ klookup K0 (items st) = Some it1 /\ it_tomb it1 = false /\
                                     ISendErr (key_conn t) (key_id t) code = ISendErr k id code0).
      { intros code Hbb. cbn in Hbb. apply andb_true_iff in Hbb. destruct Hbb as [E1 E2]. apply Z.eqb_eq in E1. apply Z.eqb_eq in E2.
        destruct t as [[tc td] ti]. cbn in *. subst. exists s, it0, code. repeat split; assumption. }
      unfold orig_tail in Hj. destruct s; in_cases Hj; try discriminate; apply Hgoal; exact Hb.
    - destruct (items_delete_call st t lk) as [st' g]. destruct g as [[it [|]]|]; inversion H; subst; try contradiction.
      in_cases Hj; discriminate.
    - destruct (zlookup tm (timers st)) as [x|]; [|inversion H; subst; contradiction].
      destruct (tm_released x); inversion H; subst; try contradiction. destruct Hj as [<-|[]]. discriminate.
  Qed.
End Pushes.

(* ---------------------------------------------------------------- the caller-side wire of one request *)

Section Grammar.
  Variables (cf : config) (k id : Z).
  Notation K0 := (k, 0, id).

  Definition wout (st : state) : list kind := wire_of k id (sent st).
  Definition qout (st : state) : option wstate := wire_run W0 (wout st).

  (* a response frame of (d, did) the reader of d has read but not yet committed to forward *)
  Definition pre_kind (d did : Z) (j : instr) : option kind :=
    match j with
    | INcGet k1 f => if (k1 =? d) && (f_id f =? did) then kind_of f else None
    | INcChk k1 f _ _ (Some (it, _)) => if (k1 =? d) && (f_id f =? did) && negb (it_tomb it) then kind_of f else None
    | IRcvGet r => if key_eqb (r_own r) (d, 1, did) && (r_ft r =? c_responseFrame) then kind_of (r_f r) else None
    | _ => None
    end.

  Definition synced (st : state) (arr : list (Z * frame)) (q : wstate) (d did : Z) : Prop :=
    (forall th code j x, In (th, code) (threads st) -> In j code -> pre_kind d did j = Some x -> qarr arr d did = wire_step q x) /\
    ((forall th code j, In (th, code) (threads st) -> In j code -> pre_kind d did j = None) -> qarr arr d did = Some q).

  Definition dead (st : state) (d did : Z) : Prop := forall it1, klookup (d, 1, did) (items st) = Some it1 -> it_tomb it1 = true.

  Definition doomed (st : state) (h : held) (c0 : Z) : Prop :=
    exists th i R, lookup tid_eqb th (threads st) = Some (i :: R) /\ In (th, c0) h /\
      ((exists r, i = IFailGet K0 r) \/ (exists r, i = IEntomb K0 (FromFail r))).

  Definition committed (j : instr) : option rcv :=
    match j with IRcvChk r _ _ | IRcvEnq r _ _ => if blocked k id j then Some r else None | _ => None end.

  Definition k0_notlive (st : state) : Prop := forall it0, klookup K0 (items st) = Some it0 -> it_tomb it0 = true.

  Lemma quiet_pre : forall d did j, quiet j = true -> pre_kind d did j = None.
  Proof. intros d did j H. destruct j; cbn in *; try discriminate; reflexivity. Qed.

  (* pre-commit instructions are only pushed by pre-commit instructions of the same frame *)
  Lemma pushed_pre : forall d did st th i room st1 pushed j x, exec cf st i room = (st1, pushed) -> thr_ok th i -> In j pushed ->
    pre_kind d did j = Some x -> pre_kind d did i = Some x.
  Proof.
    intros d did st th i room st1 pushed j x H Hthr Hj Hp. destruct i; cbn [exec] in H.
    - destruct (e_start e =? 0); inversion H; subst; clear H; in_cases Hj; discriminate.
    - destruct (c_state (get_conn st k0) =? c_connectionActive); inversion H; subst; clear H; in_cases Hj; discriminate.
    - destruct (klookup (k0, 0, f_id f) (items st)); [|destruct (e_dest e =? -1); [|destruct (e_dest e <? 0)]];
        inversion H; subst; clear H; in_cases Hj; discriminate.
    - destruct (c_state (get_conn st d0) =? c_connectionActive); inversion H; subst; clear H; in_cases Hj; discriminate.
    - unfold timer_new in H. cbn [fst snd] in H. inversion H; subst; clear H. in_cases Hj; discriminate.
    - unfold timer_new in H. cbn [fst snd] in H. inversion H; subst; clear H. in_cases Hj; try discriminate.
      cbn in Hp. destruct (_ && _); discriminate.
    - inversion H; subst. contradiction.
    - inversion H; subst. destruct Hj as [<-|[]]; first [discriminate | reflexivity].
    - match type of H with (if ?b then _ else _) = _ => destruct b end; inversion H; subst; contradiction.
    - destruct ((c_state (get_conn st k0) =? c_connectionClosed) || negb room); inversion H; subst; contradiction.
    - destruct (c_state (get_conn st k0) =? c_connectionActive); inversion H; subst; contradiction.
    - destruct (frameTypeFor (f_mt f)); [|inversion H; subst; contradiction].
      match type of H with context [items_get ?a ?b ?cc] => destruct (items_get a b cc) as [st' g] end.
      inversion H; subst. destruct Hj as [<-|[]]. cbn in *. destruct g as [[it s]|]; [|discriminate].
      destruct ((k0 =? d) && (f_id f =? did)); [|discriminate]. cbn in Hp. destruct (negb (it_tomb it)); [exact Hp|discriminate].
    - destruct g as [[it stopped]|]; [|inversion H; subst; contradiction].
      destruct (it_tomb it || (fin_of f && negb stopped)) eqn:Echk; inversion H; subst; [contradiction|].
      apply orb_false_iff in Echk. destruct Echk as [Et _].
      in_cases Hj; try discriminate. cbn in Hp. cbn. rewrite Et. cbn [negb]. rewrite andb_true_r.
      cbn in Hthr. destruct Hthr as [_ ->].
      destruct ((ft =? c_responseFrame)) eqn:Eft; [|rewrite andb_false_r in Hp; discriminate].
      rewrite andb_true_r in Hp. cbn in Hp. rewrite !andb_true_r in Hp. exact Hp.
    - match type of H with context [items_get ?a ?b ?cc] => destruct (items_get a b cc) as [st' g] end.
      inversion H; subst. destruct Hj as [<-|[]]. discriminate.
    - destruct g as [[it stopped]|].
      + destruct (it_tomb it || (fin_of (r_f r) && negb stopped)); inversion H; subst; clear H.
        * unfold after_sent in Hj. apply in_app_or in Hj. destruct Hj as [Hj|Hj].
          -- destruct (fin_of (r_f r)); [|contradiction]. destruct Hj as [<-|[]]. discriminate.
          -- destruct (0 <? r_more r); [|contradiction]. destruct Hj as [<-|[<-|[]]]; [discriminate|].
             cbn [pre_kind r_f r_own r_ft] in Hp. rewrite kind_req_frame in Hp. destruct (_ && _); discriminate.
        * apply in_app_or in Hj. destruct Hj as [Hj|[<-|[]]]; [in_cases Hj; discriminate|discriminate].
      + inversion H; subst. in_cases Hj. discriminate.
    - destruct room; inversion H; subst; clear H.
      + apply in_app_or in Hj. destruct Hj as [Hj|Hj]; [in_cases Hj; discriminate|].
        unfold after_sent in Hj. apply in_app_or in Hj. destruct Hj as [Hj|Hj].
        * destruct (fin_of (r_f r)); [|contradiction]. destruct Hj as [<-|[]]. discriminate.
        * destruct (0 <? r_more r); [|contradiction]. destruct Hj as [<-|[<-|[]]]; [discriminate|].
          cbn [pre_kind r_f r_own r_ft] in Hp. rewrite kind_req_frame in Hp. destruct (_ && _); discriminate.
      + in_cases Hj; discriminate.
    - destruct (items_get st t true) as [st' g]. destruct g as [[it [|]]|]; inversion H; subst; try contradiction.
      destruct Hj as [<-|[]]. discriminate.
    - destruct (items_entomb cf st t) as [st' g]. destruct g as [[it [|]]|]; inversion H; subst; try contradiction.
      apply in_app_or in Hj. destruct Hj as [Hj|[<-|[]]]; [|discriminate].
      destruct (match s with FromFail _ => it_orig it | FromTimeout o => o end); [|contradiction].
      unfold orig_tail in Hj. destruct s; in_cases Hj; discriminate.
    - destruct (items_delete_call st t lk) as [st' g]. destruct g as [[it [|]]|]; inversion H; subst; try contradiction.
      in_cases Hj; discriminate.
    - destruct (zlookup tm (timers st)) as [x0|]; [|inversion H; subst; contradiction].
      destruct (tm_released x0); inversion H; subst; try contradiction. destruct Hj as [<-|[]]. discriminate.
  Qed.
End Grammar.

(* ---------------------------------------------------------------- the item table across one step *)

Definition same_item (it it0 : item) : Prop :=
  it_call it = it_call it0 /\ it_dest it = it_dest it0 /\ it_remap it = it_remap it0 /\ it_orig it = it_orig it0 /\
  it_tm it = it_tm it0 /\ (it_tomb it0 = true -> it_tomb it = true).

Lemma step_items : forall cf st l st' t it, step cf st l = Some st' -> In (t, it) (items st') ->
  (exists it0, In (t, it0) (items st) /\ same_item it it0) \/
  (exists th room rest k f e c d, l = LStep th room /\ lookup tid_eqb th (threads st) = Some (IAddDest k f e c d :: rest) /\
      t = (d, 1, c_nextid (get_conn st d)) /\ it_call it = c /\ it_dest it = k /\ it_remap it = f_id f /\ it_tomb it = false) \/
  (exists th room rest k f e c d did, l = LStep th room /\ lookup tid_eqb th (threads st) = Some (IAddOrig k f e c d did :: rest) /\
      t = (k, 0, f_id f) /\ it_call it = c /\ it_dest it = d /\ it_remap it = did /\ it_tomb it = false).
Proof.
  intros cf st l st' t it H Hin. unfold step in H. destruct (negb (panicked st =? 0)); [discriminate|].
  assert (Hself : In (t, it) (items st) -> exists it0, In (t, it0) (items st) /\ same_item it it0).
  { intro Hi. exists it. split; [exact Hi|]. unfold same_item. repeat split. tauto. }
  destruct l as [k f e|th room|tm|t0|k|k|k].
  - left. apply Hself. destruct (lookup tid_eqb (TR k) (threads st)); [discriminate|].
    destruct (relayRoute (f_mt f) (cf_cancel cf) =? 1); [|inversion H; subst; exact Hin].
    destruct (f_mt f =? c_messageTypeCallReq); inversion H; subst; exact Hin.
  - destruct (lookup tid_eqb th (threads st)) as [[|i rest]|] eqn:El; try discriminate.
    destruct (exec cf st i room) as [st1 pushed] eqn:E. inversion H. subst st'. cbn [set_thread set_threads items] in Hin.
    destruct (exec_items_fields _ _ _ _ _ _ _ _ E Hin) as [(it0&A&B)|[(k&f&e&c&d&A&B&C&D&F&_&G&_)|(k&f&e&c&d&did&A&B&C&D&F&_&G&_)]].
    + left. exists it0. split; [exact A|exact B].
    + right. left. subst i. exists th, room, rest, k, f, e, c, d. repeat split; try assumption; reflexivity.
    + right. right. subst i. exists th, room, rest, k, f, e, c, d, did. repeat split; try assumption; reflexivity.
  - left. apply Hself. destruct (zlookup tm (timers st)) as [x|]; [|discriminate].
    destruct (tm_armed x && match lookup tid_eqb (TT tm) (threads st) with None => true | Some _ => false end); [|discriminate].
    inversion H. subst. exact Hin.
  - left. apply Hself. destruct (mem_key t0 (gcs st)) eqn:Emem; [|discriminate]. inversion H. subst.
    destruct (items_delete_tomb_items (set_gcs st (remove_one t0 (gcs st))) t0) as [Hi|Hi]; rewrite Hi in Hin;
      cbn [set_gcs items] in Hin; [exact Hin|].
    apply (in_remove key_eqb key_eqb_ok) in Hin. tauto.
  - left. apply Hself. destruct (c_state (get_conn st k) =? c_connectionActive); [|discriminate]. inversion H. subst. exact Hin.
  - left. apply Hself. inversion H. subst. exact Hin.
  - left. apply Hself. match type of H with (if ?b then _ else _) = _ => destruct b end; [|discriminate]. inversion H. subst. exact Hin.
Qed.

Lemma step_items_keep : forall cf st l st' t it, Inv st -> step cf st l = Some st' -> klookup t (items st) = Some it -> it_tomb it = false ->
  klookup t (items st') = Some it \/
  (exists th room rest i, l = LStep th room /\ lookup tid_eqb th (threads st) = Some (i :: rest) /\ ((exists s, i = IEntomb t s) \/ exists lk, i = IDelete t lk)).
Proof.
  intros cf st l st' t it HI H Hl Hlive. unfold step in H. destruct (negb (panicked st =? 0)); [discriminate|].
  destruct l as [k f e|th room|tm|t0|k|k|k].
  - left. destruct (lookup tid_eqb (TR k) (threads st)); [discriminate|].
    destruct (relayRoute (f_mt f) (cf_cancel cf) =? 1); [|inversion H; subst; exact Hl].
    destruct (f_mt f =? c_messageTypeCallReq); inversion H; subst; exact Hl.
  - destruct (lookup tid_eqb th (threads st)) as [[|i rest]|] eqn:El; try discriminate.
    destruct (exec cf st i room) as [st1 pushed] eqn:E. inversion H. subst st'. cbn [set_thread set_threads items].
    pose proof (lookup_in tid_eqb tid_eqb_ok _ _ _ El) as Hin0.
    destruct (inv_code _ HI _ _ Hin0) as [Hfo _]. inversion Hfo as [|? ? Hiok _]. subst.
    destruct (exec_items_keep _ _ _ _ _ _ _ _ E Hl) as [Hk|[(s&Hi)|[(lk0&Hi)|[(k&f&e&c&d&Hi&Ht)|(k&f&e&c&d&did&Hi&Ht)]]]].
    + left. exact Hk.
    + right. exists th, room, rest, i. split; [reflexivity|]. split; [exact El|]. left. exists s. exact Hi.
    + right. exists th, room, rest, i. split; [reflexivity|]. split; [exact El|]. right. exists lk0. exact Hi.
    + exfalso. subst t. destruct (inv_keys _ HI (d, 1, c_nextid (get_conn st d))) as [[Hz _]|[_ Hlt]].
      * left. apply (lookup_in key_eqb key_eqb_ok) in Hl. apply (in_map fst) in Hl. exact Hl.
      * cbn in Hz. discriminate.
      * cbn in Hlt. rewrite get_conn_getc in Hlt. lia.
    + exfalso. subst i t. destruct (iok_adm _ _ _ _ (IAddOrig k f e c d did) k f eq_refl Hiok) as [_ (_&Hfree&_)]. congruence.
  - left. destruct (zlookup tm (timers st)) as [x|]; [|discriminate].
    destruct (tm_armed x && match lookup tid_eqb (TT tm) (threads st) with None => true | Some _ => false end); [|discriminate].
    inversion H. subst. exact Hl.
  - left. destruct (mem_key t0 (gcs st)) eqn:Emem; [|discriminate]. inversion H. subst.
    gc_delete HI.
    destruct (items_delete (set_gcs st (remove_one t0 (gcs st))) t0) as [st' g] eqn:E. cbn [fst].
    apply items_delete_spec in E. cbn [set_gcs items] in E. destruct E as (_&_&_&_&_&_&_&D).
    assert (Hne : t <> t0).
    { intro Heq. subst t0. unfold mem_key in Emem. apply existsb_exists in Emem. destruct Emem as (t'&Hin'&Heq). apply key_eqb_ok in Heq. subst t'.
      rewrite (inv_gcs _ HI _ _ Hin' Hl) in Hlive. discriminate. }
    destruct (klookup t0 (items st)); destruct D as [_ Hi]; rewrite Hi; [|exact Hl].
    rewrite (lookup_remove_neq key_eqb key_eqb_ok) by exact Hne. exact Hl.
  - left. destruct (c_state (get_conn st k) =? c_connectionActive); [|discriminate]. inversion H. subst. exact Hl.
  - left. inversion H. subst. exact Hl.
  - left. match type of H with (if ?b then _ else _) = _ => destruct b end; [|discriminate]. inversion H. subst. exact Hl.
Qed.

Lemma step_nextid_mono : forall cf st l st' d, step cf st l = Some st' -> c_nextid (getc (conns st) d) <= c_nextid (getc (conns st') d).
Proof.
  intros cf st l st' d H. unfold step in H. destruct (negb (panicked st =? 0)); [discriminate|].
  destruct l as [k f e|th room|tm|t0|k|k|k].
  - destruct (lookup tid_eqb (TR k) (threads st)); [discriminate|].
    destruct (relayRoute (f_mt f) (cf_cancel cf) =? 1); [|inversion H; subst; lia].
    destruct (f_mt f =? c_messageTypeCallReq); inversion H; subst; cbn; lia.
  - destruct (lookup tid_eqb th (threads st)) as [[|i rest]|] eqn:El; try discriminate.
    destruct (exec cf st i room) as [st1 pushed] eqn:E. inversion H. subst st'. cbn [set_thread set_threads conns].
    rewrite (exec_nextid _ _ _ _ _ _ E). destruct i; try lia. pose proof (b2z_nonneg (d =? d0)). lia.
  - destruct (zlookup tm (timers st)) as [x|]; [|discriminate].
    destruct (tm_armed x && match lookup tid_eqb (TT tm) (threads st) with None => true | Some _ => false end); [|discriminate].
    inversion H. subst. cbn. lia.
  - destruct (mem_key t0 (gcs st)) eqn:Emem; [|discriminate]. inversion H. subst.
    destruct (items_delete_tomb_spec (set_gcs st (remove_one t0 (gcs st))) t0) as (A&_). rewrite A. cbn [set_gcs conns]. lia.
  - destruct (c_state (get_conn st k) =? c_connectionActive); [|discriminate]. inversion H. subst.
    rewrite nextid_put_same by reflexivity. lia.
  - inversion H. subst. rewrite nextid_put_same by reflexivity. lia.
  - match type of H with (if ?b then _ else _) = _ => destruct b end; [|discriminate]. inversion H. subst.
    rewrite nextid_put_same by reflexivity. lia.
Qed.

(* ---------------------------------------------------------------- the code of all goroutines across one step *)

Lemma step_code : forall cf st l st' th' code' j, step cf st l = Some st' -> In (th', code') (threads st') -> In j code' ->
  (exists code0, In (th', code0) (threads st) /\ In j code0 /\
      (forall th room, l = LStep th room -> th' = th -> exists i rest, lookup tid_eqb th (threads st) = Some (i :: rest) /\ In j rest)) \/
  (exists th room i rest st1 pushed, l = LStep th room /\ th' = th /\ lookup tid_eqb th (threads st) = Some (i :: rest) /\
      exec cf st i room = (st1, pushed) /\ In j pushed) \/
  (exists k f e, l = LArrive k f e /\ th' = TR k /\ code' = [j] /\ lookup tid_eqb (TR k) (threads st) = None /\
      ((j = IStart k f e /\ (f_mt f =? c_messageTypeCallReq) = true) \/ (j = INcGet k f /\ (f_mt f =? c_messageTypeCallReq) = false /\ relayRoute (f_mt f) (cf_cancel cf) = 1))) \/
  (exists tm, l = LFire tm /\ th' = TT tm /\ j = ITimerRun tm).
Proof.
  intros cf st l st' th' code' j H Hin Hj. unfold step in H. destruct (negb (panicked st =? 0)); [discriminate|].
  assert (Hold : In (th', code') (threads st) -> (forall th room, l <> LStep th room) ->
            exists code0, In (th', code0) (threads st) /\ In j code0 /\
              (forall th room, l = LStep th room -> th' = th -> exists i rest, lookup tid_eqb th (threads st) = Some (i :: rest) /\ In j rest)).
  { intros Hi Hn. exists code'. split; [exact Hi|]. split; [exact Hj|]. intros th room Heq. exfalso. eapply Hn. exact Heq. }
  destruct l as [k f e|th room|tm|t0|k|k|k].
  - destruct (lookup tid_eqb (TR k) (threads st)) eqn:Eidle; [discriminate|].
    destruct (relayRoute (f_mt f) (cf_cancel cf) =? 1) eqn:Er; [|inversion H; subst; left; apply Hold; [exact Hin|intros; discriminate]].
    apply Z.eqb_eq in Er.
    destruct (f_mt f =? c_messageTypeCallReq) eqn:Emt; inversion H; subst; clear H; apply set_thread_in in Hin; destruct Hin as [[-> ->]|[_ Hin]].
    + right. right. left. destruct Hj as [<-|[]]. exists k, f, e. split; [reflexivity|]. split; [reflexivity|]. split; [reflexivity|]. split; [exact Eidle|]. left. split; [reflexivity|exact Emt].
    + left. apply Hold; [exact Hin|intros; discriminate].
    + right. right. left. destruct Hj as [<-|[]]. exists k, f, e. split; [reflexivity|]. split; [reflexivity|]. split; [reflexivity|]. split; [exact Eidle|]. right. split; [reflexivity|]. split; [exact Emt|exact Er].
    + left. apply Hold; [exact Hin|intros; discriminate].
  - destruct (lookup tid_eqb th (threads st)) as [[|i rest]|] eqn:El; try discriminate.
    destruct (exec cf st i room) as [st1 pushed] eqn:E. inversion H. subst st'. clear H.
    pose proof (exec_threads _ _ _ _ _ _ E) as Hth.
    apply set_thread_in in Hin. destruct Hin as [[-> ->]|[Hne Hin]].
    + apply in_app_or in Hj. destruct Hj as [Hj|Hj].
      * right. left. exists th, room, i, rest, st1, pushed. repeat split; assumption.
      * left. exists (i :: rest). split; [eapply (lookup_in tid_eqb tid_eqb_ok); exact El|]. split; [right; exact Hj|].
        intros th0 room0 Heq _. inversion Heq. subst. exists i, rest. split; [exact El|exact Hj].
    + left. rewrite Hth in Hin. exists code'. split; [exact Hin|]. split; [exact Hj|].
      intros th0 room0 Heq Heq2. inversion Heq. subst. contradiction.
  - destruct (zlookup tm (timers st)) as [x|]; [|discriminate].
    destruct (tm_armed x && match lookup tid_eqb (TT tm) (threads st) with None => true | Some _ => false end); [|discriminate].
    inversion H. subst. clear H. apply set_thread_in in Hin. destruct Hin as [[-> ->]|[_ Hin]].
    + right. right. right. destruct Hj as [<-|[]]. exists tm. repeat split.
    + left. apply Hold; [exact Hin|intros; discriminate].
  - destruct (mem_key t0 (gcs st)) eqn:Emem; [|discriminate]. inversion H. subst.
    destruct (items_delete_tomb_spec (set_gcs st (remove_one t0 (gcs st))) t0) as (_&_&A&_). rewrite A in Hin.
    cbn [set_gcs threads] in Hin. left. apply Hold; [exact Hin|intros; discriminate].
  - destruct (c_state (get_conn st k) =? c_connectionActive); [|discriminate]. inversion H. subst.
    left. apply Hold; [exact Hin|intros; discriminate].
  - inversion H. subst. left. apply Hold; [exact Hin|intros; discriminate].
  - match type of H with (if ?b then _ else _) = _ => destruct b end; [|discriminate]. inversion H. subst.
    left. apply Hold; [exact Hin|intros; discriminate].
Qed.

(* an instruction of the old state is still there unless it is the one that was executed *)
Lemma step_code_keep : forall cf st l st' th0 code0 j, Inv st -> step cf st l = Some st' -> In (th0, code0) (threads st) -> In j code0 ->
  (exists code', In (th0, code') (threads st') /\ In j code') \/
  (exists room rest, l = LStep th0 room /\ code0 = j :: rest).
Proof.
  intros cf st l st' th0 code0 j HI H Hin Hj. unfold step in H. destruct (negb (panicked st =? 0)); [discriminate|].
  destruct l as [k f e|th room|tm|t0|k|k|k].
  - left. destruct (lookup tid_eqb (TR k) (threads st)) eqn:Eidle; [discriminate|].
    assert (Hne : th0 <> TR k).
    { intro Heq. subst. apply (in_map fst) in Hin. apply (lookup_none_notin tid_eqb tid_eqb_ok) in Eidle. contradiction. }
    destruct (relayRoute (f_mt f) (cf_cancel cf) =? 1); [|inversion H; subst; exists code0; split; assumption].
    destruct (f_mt f =? c_messageTypeCallReq); inversion H; subst; exists code0; (split; [apply in_set_thread_other; assumption|exact Hj]).
  - destruct (lookup tid_eqb th (threads st)) as [[|i rest]|] eqn:El; try discriminate.
    destruct (exec cf st i room) as [st1 pushed] eqn:E. inversion H. subst st'. clear H.
    pose proof (exec_threads _ _ _ _ _ _ E) as Hth.
    destruct (eqb_dec tid_eqb tid_eqb_ok th0 th) as [->|Hne].
    + pose proof (in_lookup tid_eqb tid_eqb_ok _ _ _ (inv_threads_nd _ HI) Hin) as L. rewrite El in L. inversion L. subst code0.
      destruct Hj as [->|Hj]; [right; exists room, rest; split; reflexivity|].
      left. exists (pushed ++ rest). split; [|apply in_or_app; right; exact Hj].
      apply in_set_thread_self. intro Hnil. apply app_eq_nil in Hnil. destruct Hnil as [_ ->]. contradiction.
    + left. exists code0. split; [|exact Hj]. apply in_set_thread_other; [exact Hne|]. rewrite Hth. exact Hin.
  - left. destruct (zlookup tm (timers st)) as [x|]; [|discriminate].
    destruct (tm_armed x && match lookup tid_eqb (TT tm) (threads st) with None => true | Some _ => false end) eqn:Eb; [|discriminate].
    inversion H. subst. clear H. exists code0. split; [|exact Hj]. apply in_set_thread_other; [|exact Hin].
    intro Heq. subst. apply andb_true_iff in Eb. destruct Eb as [_ Eb].
    rewrite (in_lookup tid_eqb tid_eqb_ok _ _ _ (inv_threads_nd _ HI) Hin) in Eb. discriminate.
  - left. destruct (mem_key t0 (gcs st)) eqn:Emem; [|discriminate]. inversion H. subst.
    gc_delete HI.
    destruct (items_delete (set_gcs st (remove_one t0 (gcs st))) t0) as [st' g] eqn:E. cbn [fst].
    apply items_delete_spec in E. cbn [set_gcs threads] in E. destruct E as (_&_&A&_). rewrite A. exists code0. split; assumption.
  - left. destruct (c_state (get_conn st k) =? c_connectionActive); [|discriminate]. inversion H. subst. exists code0. split; assumption.
  - left. inversion H. subst. exists code0. split; assumption.
  - left. match type of H with (if ?b then _ else _) = _ => destruct b end; [|discriminate]. inversion H. subst. exists code0. split; assumption.
Qed.

(* ---------------------------------------------------------------- the destination's frames and the reader *)

Lemma pre_thr : forall d did j x th, pre_kind d did j = Some x -> thr_ok th j -> th = TR d.
Proof.
  intros d did j x th H Ht. destruct j; cbn in H; try discriminate.
  - destruct ((k =? d) && (f_id f =? did)) eqn:E; [|discriminate]. apply andb_true_iff in E. destruct E as [E _]. apply Z.eqb_eq in E. subst. exact Ht.
  - destruct g as [[it s]|]; [|discriminate]. destruct ((k =? d) && (f_id f =? did) && negb (it_tomb it)) eqn:E; [|discriminate].
    rewrite !andb_true_iff in E. destruct E as [[E _] _]. apply Z.eqb_eq in E. subst. apply Ht.
  - destruct (key_eqb (r_own r) (d, 1, did) && (r_ft r =? c_responseFrame)) eqn:E; [|discriminate].
    apply andb_true_iff in E. destruct E as [E1 E2]. apply key_eqb_ok in E1. apply Z.eqb_eq in E2. cbn in Ht. destruct (Ht E2) as [-> _].
    rewrite E1. reflexivity.
Qed.

Lemma kind_route : forall f x c, kind_of f = Some x -> relayRoute (f_mt f) c = 1 /\ (f_mt f =? c_messageTypeCallReq) = false.
Proof.
  intros f x c H. unfold kind_of in H. unfold relayRoute.
  destruct (f_mt f =? c_messageTypeCallRes) eqn:E1; [apply Z.eqb_eq in E1; rewrite E1; split; reflexivity|].
  destruct (f_mt f =? c_messageTypeCallResContinue) eqn:E2; [apply Z.eqb_eq in E2; rewrite E2; split; reflexivity|].
  destruct (f_mt f =? c_messageTypeError) eqn:E3; [apply Z.eqb_eq in E3; rewrite E3; split; reflexivity|discriminate].
Qed.

Lemma dead_mono : forall cf st h l st' d did, AllInv st h -> step cf st l = Some st' ->
  did < c_nextid (getc (conns st) d) -> dead st d did -> dead st' d did.
Proof.
  intros cf st h l st' d did HA Hs Hlt Hd it1 Hl. apply (lookup_in key_eqb key_eqb_ok) in Hl.
  destruct (step_items _ _ _ _ _ _ Hs Hl) as [(it0&Hi0&Hsame)|[(th&room&rest&k&f&e&c&d0&_&_&Ht&_)|(th&room&rest&k&f&e&c&d0&did0&_&_&Ht&_)]].
  - destruct Hsame as (_&_&_&_&_&Hm). apply Hm. apply Hd. apply (in_lookup key_eqb key_eqb_ok); [apply (inv_items_nd _ (a_inv _ _ HA))|exact Hi0].
  - inversion Ht. subst. rewrite get_conn_getc in Hlt. lia.
  - inversion Ht.
Qed.

Lemma step_synced : forall cf st h l st' arr q d did,
  AllInv st h -> step cf st l = Some st' ->
  did < c_nextid (getc (conns st) d) -> arr_ok (arr_step arr l) ->
  (forall th room r rest, l = LStep th room -> lookup tid_eqb th (threads st) = Some (IRcvGet r :: rest) -> pre_kind d did (IRcvGet r) = None) ->
  dead st d did \/ synced st arr q d did ->
  dead st' d did \/ synced st' (arr_step arr l) q d did.
Proof.
  intros cf st h l st' arr q d did HA Hs Hlt Hok Hnoc [Hdead|[Ha Hb]].
  { left. eapply dead_mono; eassumption. }
  pose proof (a_inv _ _ HA) as HI. pose proof (a_finv _ _ HA) as HF.
  assert (Hthr : forall th code j x, In (th, code) (threads st) -> In j code -> pre_kind d did j = Some x -> th = TR d).
  { intros th code j x Hin Hj Hp. eapply pre_thr; [exact Hp|]. eapply (f_thr _ _ HF); eassumption. }
  (* the generic "nothing popped that matters" argument *)
  assert (Hgen : arr_step arr l = arr ->
     (forall th' code' j x, In (th', code') (threads st') -> In j code' -> pre_kind d did j = Some x ->
        exists th0 code0 j0, In (th0, code0) (threads st) /\ In j0 code0 /\ pre_kind d did j0 = Some x) ->
     (forall th0 code0 j0 x, In (th0, code0) (threads st) -> In j0 code0 -> pre_kind d did j0 = Some x ->
        exists th' code' j, In (th', code') (threads st') /\ In j code' /\ pre_kind d did j <> None) ->
     synced st' (arr_step arr l) q d did).
  { intros Harr Hback Hfwd. rewrite Harr. split.
    - intros th' code' j x Hin Hj Hp. destruct (Hback _ _ _ _ Hin Hj Hp) as (th0&code0&j0&A&B&C). eapply Ha; eassumption.
    - intro Hnone. apply Hb. intros th0 code0 j0 Hin0 Hj0. destruct (pre_kind d did j0) as [x|] eqn:Ep; [|reflexivity]. exfalso.
      destruct (Hfwd _ _ _ _ Hin0 Hj0 Ep) as (th'&code'&j&A&B&C). apply C. eapply Hnone; eassumption. }
  destruct l as [k f e|th room|tm|t0|k|k|k].
  - (* LArrive *)
    right. pose proof Hs as Hs0. unfold step in Hs0. destruct (negb (panicked st =? 0)); [discriminate|].
    destruct (lookup tid_eqb (TR k) (threads st)) eqn:Eidle; [discriminate|].
    destruct ((k =? d) && (f_id f =? did)) eqn:Em; [destruct (kind_of f) as [x|] eqn:Ek|].
    + (* a response frame of (d, did) arrives: the reader of d was idle *)
      apply andb_true_iff in Em. destruct Em as [E1 E2]. apply Z.eqb_eq in E1. apply Z.eqb_eq in E2. subst k did.
      destruct (kind_route f x (cf_cancel cf) Ek) as [Hr Hnq]. rewrite Hr, Hnq in Hs0. cbn in Hs0. inversion Hs0. subst st'. clear Hs0.
      assert (Hnone : forall th code j, In (th, code) (threads st) -> In j code -> pre_kind d (f_id f) j = None).
      { intros th code j Hin Hj. destruct (pre_kind d (f_id f) j) as [y|] eqn:Ep; [|reflexivity]. exfalso.
        pose proof (Hthr _ _ _ _ Hin Hj Ep). subst th. apply (in_map fst) in Hin. apply (lookup_none_notin tid_eqb tid_eqb_ok) in Eidle. contradiction. }
      specialize (Hb Hnone).
      assert (Hq' : qarr (arr_step arr (LArrive d f e)) d (f_id f) = wire_step q x).
      { unfold qarr. cbn [arr_step]. rewrite wire_of_cons, !Z.eqb_refl, Ek. cbn [andb]. rewrite wire_run_snoc. unfold qarr in Hb. rewrite Hb. reflexivity. }
      split.
      * intros th' code' j y Hin Hj Hp. apply set_thread_in in Hin. destruct Hin as [[-> ->]|[_ Hin]].
        -- destruct Hj as [<-|[]]. cbn in Hp. rewrite !Z.eqb_refl in Hp. cbn in Hp. rewrite Ek in Hp. inversion Hp. subst y. exact Hq'.
        -- rewrite (Hnone _ _ _ Hin Hj) in Hp. discriminate.
      * intro Hall. exfalso.
        assert (Hp : pre_kind d (f_id f) (INcGet d f) = None).
        { eapply Hall; [apply in_set_thread_self; discriminate|left; reflexivity]. }
        cbn in Hp. rewrite !Z.eqb_refl in Hp. cbn in Hp. congruence.
    + (* not a response-direction frame *)
      assert (Hqs : qarr (arr_step arr (LArrive k f e)) d did = qarr arr d did).
      { unfold qarr. cbn [arr_step]. rewrite wire_of_cons, Em, Ek, app_nil_r. reflexivity. }
      split.
      * intros th' code' j y Hin Hj Hp. rewrite Hqs.
        destruct (step_code _ _ _ _ _ _ _ Hs Hin Hj) as [(code0&A&B&_)|[(th&room&i&rest&st1&pushed&Hl&_)|[(k1&f1&e1&Hl&_&_&_&Hj1)|(tm&Hl&_)]]]; try discriminate.
        -- eapply Ha; eassumption.
        -- inversion Hl. subst k1 f1 e1. destruct Hj1 as [[-> _]|[-> _]]; [discriminate|]. cbn in Hp. rewrite Em, Ek in Hp. discriminate.
      * intro Hall. rewrite Hqs. apply Hb. intros th0 code0 j0 Hin0 Hj0.
        destruct (step_code_keep _ _ _ _ _ _ _ HI Hs Hin0 Hj0) as [(code'&A&B)|(room&rest&Hl&_)]; [|discriminate]. eapply Hall; eassumption.
    + assert (Hqs : qarr (arr_step arr (LArrive k f e)) d did = qarr arr d did).
      { unfold qarr. cbn [arr_step]. rewrite wire_of_cons, Em, app_nil_r. reflexivity. }
      split.
      * intros th' code' j y Hin Hj Hp. rewrite Hqs.
        destruct (step_code _ _ _ _ _ _ _ Hs Hin Hj) as [(code0&A&B&_)|[(th&room&i&rest&st1&pushed&Hl&_)|[(k1&f1&e1&Hl&_&_&_&Hj1)|(tm&Hl&_)]]]; try discriminate.
        -- eapply Ha; eassumption.
        -- inversion Hl. subst k1 f1 e1. destruct Hj1 as [[-> _]|[-> _]]; [discriminate|]. cbn in Hp. rewrite Em in Hp. discriminate.
      * intro Hall. rewrite Hqs. apply Hb. intros th0 code0 j0 Hin0 Hj0.
        destruct (step_code_keep _ _ _ _ _ _ _ HI Hs Hin0 Hj0) as [(code'&A&B)|(room&rest&Hl&_)]; [|discriminate]. eapply Hall; eassumption.
  - (* LStep *)
    pose proof Hs as Hs0. unfold step in Hs0. destruct (negb (panicked st =? 0)); [discriminate|].
    destruct (lookup tid_eqb th (threads st)) as [[|i rest]|] eqn:El; try discriminate.
    destruct (exec cf st i room) as [st1 pushed] eqn:E. inversion Hs0. subst st'. clear Hs0.
    pose proof (lookup_in tid_eqb tid_eqb_ok _ _ _ El) as Hin0.
    pose proof (f_thr _ _ HF _ _ _ Hin0 (or_introl eq_refl)) as Hthi.
    assert (Hback : forall th' code' j x, In (th', code') (threads (set_thread st1 th (pushed ++ rest))) -> In j code' -> pre_kind d did j = Some x ->
              exists th0 code0 j0, In (th0, code0) (threads st) /\ In j0 code0 /\ pre_kind d did j0 = Some x).
    { intros th' code' j x Hin Hj Hp.
      destruct (step_code _ _ _ _ _ _ _ Hs Hin Hj) as [(code0&A&B&_)|[(th2&room2&i2&rest2&st2&pushed2&Hl&_&El2&E2&Hp2)|[(k1&f1&e1&Hl&_)|(tm&Hl&_)]]]; try discriminate.
      - exists th', code0, j. repeat split; assumption.
      - inversion Hl. subst th2 room2. rewrite El in El2. inversion El2. subst i2 rest2. rewrite E in E2. inversion E2. subst st2 pushed2.
        exists th, (i :: rest), i. split; [exact Hin0|]. split; [left; reflexivity|]. eapply pushed_pre; eassumption. }
    assert (Hsucc : forall j x, In j pushed -> pre_kind d did j = Some x ->
              exists th' code' j', In (th', code') (threads (set_thread st1 th (pushed ++ rest))) /\ In j' code' /\ pre_kind d did j' <> None).
    { intros j x Hj Hp. exists th, (pushed ++ rest), j. split; [|split; [apply in_or_app; left; exact Hj|congruence]].
      apply in_set_thread_self. intro Hnil. apply app_eq_nil in Hnil. destruct Hnil as [-> _]. contradiction. }
    assert (Hfwd_other : forall th0 code0 j0 x, In (th0, code0) (threads st) -> In j0 code0 -> pre_kind d did j0 = Some x ->
              (exists th' code' j, In (th', code') (threads (set_thread st1 th (pushed ++ rest))) /\ In j code' /\ pre_kind d did j <> None) \/
              (th0 = th /\ j0 = i)).
    { intros th0 code0 j0 x Hin1 Hj1 Hp.
      destruct (step_code_keep _ _ _ _ _ _ _ HI Hs Hin1 Hj1) as [(code'&A&B)|(room2&rest2&Hl&Hc)].
      - left. exists th0, code', j0. repeat split; try assumption. congruence.
      - right. inversion Hl. subst th0 room2. pose proof (in_lookup tid_eqb tid_eqb_ok _ _ _ (inv_threads_nd _ HI) Hin1) as L. rewrite El in L. inversion L. subst code0.
        inversion H0. split; reflexivity. }
    destruct (pre_kind d did i) as [x|] eqn:Epi.
    + (* the reader of d works on the frame *)
      destruct i as [? ? ?|? ? ? ?|? ? ? ?|? ? ? ? ?|? ? ? ? ?|? ? ? ? ? ?|? ?|?|?|? ? ?|?|k0 f0|k0 f0 ft own g|r|? ? ?|? ?|? ?|? ?|?|?]; cbn in Epi; try discriminate.
      * (* INcGet *)
        destruct ((k0 =? d) && (f_id f0 =? did)) eqn:Em; [|discriminate]. apply andb_true_iff in Em. destruct Em as [E1 E2].
        apply Z.eqb_eq in E1. apply Z.eqb_eq in E2. subst k0 did.
        pose proof E as E0. cbn [exec] in E0. rewrite (kind_of_response f0) in E0 by congruence. rewrite Z.eqb_refl in E0.
        destruct (items_get st (d, 1, f_id f0) (fin_of f0)) as [st2 g] eqn:Eg. inversion E0. subst st1 pushed. clear E0.
        destruct (items_get_spec _ _ _ _ _ Eg) as [(_&Hitems&_) Hm].
        destruct (klookup (d, 1, f_id f0) (items st)) as [it|] eqn:Hl.
        -- destruct Hm as [b ->]. destruct (it_tomb it) eqn:Et.
           ++ left. intros it1 Hl1. cbn [set_thread set_threads items] in Hl1. rewrite Hitems, Hl in Hl1. inversion Hl1. subst. exact Et.
           ++ right. apply Hgen; [reflexivity|exact Hback|].
              intros th0 code0 j0 y Hin1 Hj1 Hp. destruct (Hfwd_other _ _ _ _ Hin1 Hj1 Hp) as [Hok1|[-> ->]]; [exact Hok1|].
              eapply (Hsucc _ x); [left; reflexivity|]. cbn. rewrite !Z.eqb_refl, Et. cbn. exact Epi.
        -- subst g. left. intros it1 Hl1. cbn [set_thread set_threads items] in Hl1. rewrite Hitems, Hl in Hl1. discriminate.
      * (* INcChk with a live copy *)
        destruct g as [[it s]|]; [|discriminate].
        destruct ((k0 =? d) && (f_id f0 =? did) && negb (it_tomb it)) eqn:Em; [|discriminate].
        rewrite !andb_true_iff in Em. destruct Em as [[E1 E2] E3]. apply Z.eqb_eq in E1. apply Z.eqb_eq in E2. apply negb_true_iff in E3. subst k0 did.
        pose proof (f_commit _ _ HF _ _ _ Hin0 (or_introl eq_refl)) as Hcm. cbn in Hcm. specialize (Hcm E3).
        cbn in Hthi. destruct Hthi as [_ Hown].
        pose proof (w_code _ (a_winv _ _ HA) _ _ _ Hin0 (or_introl eq_refl)) as Hw. cbn in Hw. destruct Hw as [Hft _].
        rewrite (kind_of_response f0) in Hft by congruence. inversion Hft. subst ft. rewrite Z.eqb_refl in Hown.
        right. apply Hgen; [reflexivity|exact Hback|].
        intros th0 code0 j0 y Hin1 Hj1 Hp. destruct (Hfwd_other _ _ _ _ Hin1 Hj1 Hp) as [Hok1|[-> ->]]; [exact Hok1|].
        pose proof E as E0. cbn [exec] in E0. rewrite E3 in E0. cbn [orb] in E0.
        assert (Hns : (fin_of f0 && negb s) = false).
        { destruct (fin_of f0) eqn:Ef; [|reflexivity]. rewrite (Hcm eq_refl). reflexivity. }
        rewrite Hns in E0. inversion E0. subst st1 pushed. clear E0.
        eapply (Hsucc _ x).
        -- apply in_or_app. right. right. left. reflexivity.
        -- cbn. rewrite Hown. rewrite (proj2 (key_eqb_ok _ _) eq_refl). cbn. exact Epi.
      * (* IRcvGet: excluded *)
        pose proof (Hnoc _ _ _ _ eq_refl El) as Hn. cbn in Hn. congruence.
    + right. apply Hgen; [reflexivity|exact Hback|].
      intros th0 code0 j0 y Hin1 Hj1 Hp. destruct (Hfwd_other _ _ _ _ Hin1 Hj1 Hp) as [Hok1|[-> ->]]; [exact Hok1|]. congruence.
  - (* LFire *)
    right. apply Hgen; [reflexivity| |].
    + intros th' code' j x Hin Hj Hp.
      destruct (step_code _ _ _ _ _ _ _ Hs Hin Hj) as [(code0&A&B&_)|[(th2&room2&i2&rest2&st2&pushed2&Hl&_)|[(k1&f1&e1&Hl&_)|(tm1&_&_&->)]]]; try discriminate.
      exists th', code0, j. repeat split; assumption.
    + intros th0 code0 j0 x Hin1 Hj1 Hp. destruct (step_code_keep _ _ _ _ _ _ _ HI Hs Hin1 Hj1) as [(code'&A&B)|(room&rest&Hl&_)]; [|discriminate].
      exists th0, code', j0. repeat split; try assumption. congruence.
  - right. apply Hgen; [reflexivity| |].
    + intros th' code' j x Hin Hj Hp.
      destruct (step_code _ _ _ _ _ _ _ Hs Hin Hj) as [(code0&A&B&_)|[(th2&room2&i2&rest2&st2&pushed2&Hl&_)|[(k1&f1&e1&Hl&_)|(tm1&Hl&_)]]]; try discriminate.
      exists th', code0, j. repeat split; assumption.
    + intros th0 code0 j0 x Hin1 Hj1 Hp. destruct (step_code_keep _ _ _ _ _ _ _ HI Hs Hin1 Hj1) as [(code'&A&B)|(room&rest&Hl&_)]; [|discriminate].
      exists th0, code', j0. repeat split; try assumption. congruence.
  - right. apply Hgen; [reflexivity| |].
    + intros th' code' j x Hin Hj Hp.
      destruct (step_code _ _ _ _ _ _ _ Hs Hin Hj) as [(code0&A&B&_)|[(th2&room2&i2&rest2&st2&pushed2&Hl&_)|[(k1&f1&e1&Hl&_)|(tm1&Hl&_)]]]; try discriminate.
      exists th', code0, j. repeat split; assumption.
    + intros th0 code0 j0 x Hin1 Hj1 Hp. destruct (step_code_keep _ _ _ _ _ _ _ HI Hs Hin1 Hj1) as [(code'&A&B)|(room&rest&Hl&_)]; [|discriminate].
      exists th0, code', j0. repeat split; try assumption. congruence.
  - right. apply Hgen; [reflexivity| |].
    + intros th' code' j x Hin Hj Hp.
      destruct (step_code _ _ _ _ _ _ _ Hs Hin Hj) as [(code0&A&B&_)|[(th2&room2&i2&rest2&st2&pushed2&Hl&_)|[(k1&f1&e1&Hl&_)|(tm1&Hl&_)]]]; try discriminate.
      exists th', code0, j. repeat split; assumption.
    + intros th0 code0 j0 x Hin1 Hj1 Hp. destruct (step_code_keep _ _ _ _ _ _ _ HI Hs Hin1 Hj1) as [(code'&A&B)|(room&rest&Hl&_)]; [|discriminate].
      exists th0, code', j0. repeat split; try assumption. congruence.
  - right. apply Hgen; [reflexivity| |].
    + intros th' code' j x Hin Hj Hp.
      destruct (step_code _ _ _ _ _ _ _ Hs Hin Hj) as [(code0&A&B&_)|[(th2&room2&i2&rest2&st2&pushed2&Hl&_)|[(k1&f1&e1&Hl&_)|(tm1&Hl&_)]]]; try discriminate.
      exists th', code0, j. repeat split; assumption.
    + intros th0 code0 j0 x Hin1 Hj1 Hp. destruct (step_code_keep _ _ _ _ _ _ _ HI Hs Hin1 Hj1) as [(code'&A&B)|(room&rest&Hl&_)]; [|discriminate].
      exists th0, code', j0. repeat split; try assumption. congruence.
Qed.

(* ---------------------------------------------------------------- frame lemmas for one request *)

Section Frame.
  Variables (cf : config) (k id : Z).
  Notation K0 := (k, 0, id).

  Lemma unseen_wout : forall st, WInv st -> ~ In (k, id) (seen st) -> wout k id st = [].
  Proof.
    intros st HW Hns. unfold wout.
    assert (G : forall log, (forall k0 f, In (k0, f) log -> kind_of f <> None -> In (k0, f_id f) (seen st)) -> wire_of k id log = []).
    { induction log as [|[k0 f] r IH]; intro Hall; cbn; [reflexivity|].
      rewrite IH by (intros k1 f1 Hin; apply Hall; right; exact Hin). cbn.
      destruct ((k0 =? k) && (f_id f =? id)) eqn:E; [|reflexivity].
      apply andb_true_iff in E. destruct E as [E1 E2]. apply Z.eqb_eq in E1. apply Z.eqb_eq in E2. subst.
      destruct (kind_of f) eqn:Ek; [|reflexivity]. exfalso. apply Hns. apply (Hall k f (or_introl eq_refl)). congruence. }
    apply G. apply (w_sent _ HW).
  Qed.

  Lemma unseen_unblocked : forall st th code j, Inv st -> WInv st -> ~ In (k, id) (seen st) ->
    In (th, code) (threads st) -> In j code -> blocked k id j = false.
  Proof.
    intros st th code j HI HW Hns Hin Hj. destruct (blocked k id j) eqn:Eb; [|reflexivity]. exfalso. apply Hns.
    pose proof (w_code _ HW _ _ _ Hin Hj) as Hw.
    destruct (inv_code _ HI _ _ Hin) as [Hf _]. rewrite Forall_forall in Hf. pose proof (Hf _ Hj) as Hiok.
    assert (Hadm : forall k' f, adm_kf j = Some (k', f) -> (k' =? k) && (f_id f =? id) = true -> In (k, id) (seen st)).
    { intros k' f Ha Hb. destruct (iok_adm _ _ _ _ _ _ _ Ha Hiok) as [_ (Hs&_)]. apply andb_true_iff in Hb. destruct Hb as [E1 E2].
      apply Z.eqb_eq in E1. apply Z.eqb_eq in E2. subst. exact Hs. }
    destruct j; cbn in Eb; try discriminate; try (eapply Hadm; [reflexivity|exact Eb]).
    - apply andb_true_iff in Eb. destruct Eb as [E1 E2]. apply Z.eqb_eq in E1. apply Z.eqb_eq in E2. subst. exact Hw.
    - destruct g as [[it s]|]; [|discriminate]. rewrite !andb_true_iff in Eb. destruct Eb as [[[[E1 E2] E3] _] _].
      apply Z.eqb_eq in E1. apply Z.eqb_eq in E2. subst. cbn in Hw. destruct Hw as (A&B&_). apply B.
      unfold is_wire in E3. destruct (kind_of (r_f r)) eqn:Ek; [|discriminate].
      rewrite (kind_of_response (r_f r)) in A by congruence. inversion A. reflexivity.
    - rewrite !andb_true_iff in Eb. destruct Eb as [[E1 E2] E3].
      apply Z.eqb_eq in E1. apply Z.eqb_eq in E2. subst. cbn in Hw. destruct Hw as (A&B&_). apply B.
      unfold is_wire in E3. destruct (kind_of (r_f r)) eqn:Ek; [|discriminate].
      rewrite (kind_of_response (r_f r)) in A by congruence. inversion A. reflexivity.
  Qed.

  (* the log of (k, id) changes only when a blocked instruction of (k, id) is executed *)
  Lemma step_wout : forall st l st', step cf st l = Some st' ->
    wout k id st' = wout k id st \/
    (exists th room i rest, l = LStep th room /\ lookup tid_eqb th (threads st) = Some (i :: rest) /\ blocked k id i = true /\
       ((exists ec, i = ISendErr k id ec /\ wout k id st' = wout k id st ++ [Err]) \/
        (exists r rk lk x, i = IRcvEnq r rk lk /\ room = true /\ kind_of (r_f r) = Some x /\ wout k id st' = wout k id st ++ [x]))).
  Proof.
    intros st l st' H. unfold step in H. destruct (negb (panicked st =? 0)); [discriminate|].
    destruct l as [k0 f e|th room|tm|t0|k0|k0|k0].
    - left. destruct (lookup tid_eqb (TR k0) (threads st)); [discriminate|].
      destruct (relayRoute (f_mt f) (cf_cancel cf) =? 1); [|inversion H; subst; reflexivity].
      destruct (f_mt f =? c_messageTypeCallReq); inversion H; subst; reflexivity.
    - destruct (lookup tid_eqb th (threads st)) as [[|i rest]|] eqn:El; try discriminate.
      destruct (exec cf st i room) as [st1 pushed] eqn:E. inversion H. subst st'. clear H.
      unfold wout. cbn [set_thread set_threads sent].
      destruct (exec_sent_w _ _ _ _ _ _ E) as [_ [Hs|[(k1&id1&code1&Hi&Hs)|(r&rk&lk&Hi&Hs)]]]; rewrite Hs.
      + left. reflexivity.
      + subst i. destruct ((k1 =? k) && (id1 =? id)) eqn:Eb.
        * right. apply andb_true_iff in Eb. destruct Eb as [E1 E2]. apply Z.eqb_eq in E1. apply Z.eqb_eq in E2. subst k1 id1.
          exists th, room, (ISendErr k id code1), rest. split; [reflexivity|]. split; [exact El|]. split; [cbn; rewrite !Z.eqb_refl; reflexivity|].
          left. exists code1. split; [reflexivity|]. rewrite wire_of_cons. cbn [f_id]. rewrite !Z.eqb_refl. reflexivity.
        * left. apply wire_of_cons_other. cbn [f_id]. rewrite Eb. reflexivity.
      + subst i. destruct ((r_d r =? k) && (f_id (r_f r) =? id) && is_wire (r_f r)) eqn:Eb.
        * right. exists th, room, (IRcvEnq r rk lk), rest. split; [reflexivity|]. split; [exact El|]. split; [exact Eb|]. right.
          apply andb_true_iff in Eb. destruct Eb as [Eb Ew]. unfold is_wire in Ew. destruct (kind_of (r_f r)) as [x|] eqn:Ek; [|discriminate].
          exists r, rk, lk, x. split; [reflexivity|]. split.
          { cbn [exec] in E. destruct room; [reflexivity|]. inversion E. subst. exfalso.
            apply (f_equal (@length _)) in Hs. cbn in Hs. lia. }
          split; [exact Ek|]. rewrite wire_of_cons, Eb, Ek. reflexivity.
        * left. apply wire_of_cons_other. exact Eb.
    - left. destruct (zlookup tm (timers st)) as [x|]; [|discriminate].
      destruct (tm_armed x && match lookup tid_eqb (TT tm) (threads st) with None => true | Some _ => false end); [|discriminate].
      inversion H. subst. reflexivity.
    - left. destruct (mem_key t0 (gcs st)) eqn:Emem; [|discriminate]. inversion H. subst.
      pose proof (items_delete_tomb_spec (set_gcs st (remove_one t0 (gcs st))) t0) as E.
      cbn [set_gcs sent] in E. destruct E as (_&_&_&_&A&_). unfold wout. rewrite A. reflexivity.
    - left. destruct (c_state (get_conn st k0) =? c_connectionActive); [|discriminate]. inversion H. subst. reflexivity.
    - left. inversion H. subst. reflexivity.
    - left. match type of H with (if ?b then _ else _) = _ => destruct b end; [|discriminate]. inversion H. subst. reflexivity.
  Qed.
End Frame.

Section Phases.
  Variables (cf : config) (k id : Z).
  Notation K0 := (k, 0, id).

  Lemma nb_LStep : forall st th i rest room st1 pushed, Inv st -> lookup tid_eqb th (threads st) = Some (i :: rest) ->
    exec cf st i room = (st1, pushed) ->
    nb k id (set_thread st1 th (pushed ++ rest)) = nb k id st - bl k id i + csum (bl k id) pushed.
  Proof.
    intros st th i rest room st1 pushed HI El E. unfold nb. pose proof (exec_threads _ _ _ _ _ _ E) as Hth.
    rewrite tsum_set_thread by (rewrite Hth; apply (inv_threads_nd _ HI)). rewrite Hth, El, csum_app. cbn [csum]. lia.
  Qed.

  Lemma nb_other : forall st l st', Inv st -> step cf st l = Some st' -> (forall th room, l <> LStep th room) ->
    nb k id st' = nb k id st +
      match l with
      | LArrive k0 f e => if (relayRoute (f_mt f) (cf_cancel cf) =? 1) && (f_mt f =? c_messageTypeCallReq) then bl k id (IStart k0 f e) else 0
      | _ => 0
      end.
  Proof.
    intros st l st' HI H Hn. unfold step in H. destruct (negb (panicked st =? 0)); [discriminate|].
    destruct l as [k0 f e|th room|tm|t0|k0|k0|k0].
    - destruct (lookup tid_eqb (TR k0) (threads st)) eqn:Eidle; [discriminate|].
      destruct (relayRoute (f_mt f) (cf_cancel cf) =? 1); [|inversion H; subst; cbn; lia].
      destruct (f_mt f =? c_messageTypeCallReq); inversion H; subst; clear H; unfold nb; cbn [andb];
        rewrite tsum_set_thread by apply (inv_threads_nd _ HI); cbn [set_seen threads]; rewrite Eidle; cbn [csum]; [lia|]; unfold bl; cbn; lia.
    - exfalso. eapply Hn. reflexivity.
    - destruct (zlookup tm (timers st)) as [x|]; [|discriminate].
      destruct (tm_armed x && match lookup tid_eqb (TT tm) (threads st) with None => true | Some _ => false end) eqn:Eb; [|discriminate].
      inversion H. subst. clear H. unfold nb. rewrite tsum_set_thread by apply (inv_threads_nd _ HI). cbn [set_timers threads].
      apply andb_true_iff in Eb. destruct Eb as [_ Eb]. destruct (lookup tid_eqb (TT tm) (threads st)); [discriminate|]. cbn. lia.
    - destruct (mem_key t0 (gcs st)) eqn:Emem; [|discriminate]. inversion H. subst.
      pose proof (items_delete_tomb_spec (set_gcs st (remove_one t0 (gcs st))) t0) as E.
      cbn [set_gcs threads] in E. destruct E as (_&_&A&_). unfold nb. rewrite A. lia.
    - destruct (c_state (get_conn st k0) =? c_connectionActive); [|discriminate]. inversion H. subst. unfold nb. cbn [put_conn set_conns threads]. lia.
    - inversion H. subst. unfold nb. cbn [put_conn set_conns threads]. lia.
    - match type of H with (if ?b then _ else _) = _ => destruct b end; [|discriminate]. inversion H. subst. unfold nb. cbn [put_conn set_conns threads]. lia.
  Qed.

  Inductive phase (st : state) (h : held) (arr : list (Z * frame)) : Prop :=
  | PhUnseen : ~ In (k, id) (seen st) -> phase st h arr
  | PhSettled : settled st k id -> (exists q, qout k id st = Some q) -> phase st h arr
  | PhAdm : forall th code i f, In (th, code) (threads st) -> In i code -> adm_kf i = Some (k, f) -> f_id f = id ->
      nb k id st = 1 -> wout k id st = [] ->
      (forall e c d did, i = IAddOrig k f e c d did -> dead st d did \/ synced st arr W0 d did) -> phase st h arr
  | PhErr : forall th code ec q, In (th, code) (threads st) -> In (ISendErr k id ec) code -> nb k id st = 1 ->
      k0_notlive k id st -> qout k id st = Some q -> q <> WEnd -> phase st h arr
  | PhLive : forall it0 q, klookup K0 (items st) = Some it0 -> it_tomb it0 = false -> nb k id st = 0 ->
      qout k id st = Some q -> q <> WEnd ->
      (dead st (it_dest it0) (it_remap it0) \/ doomed k id st h (it_call it0) \/ synced st arr q (it_dest it0) (it_remap it0)) -> phase st h arr
  | PhFwd : forall th code j r it0 q x q', In (th, code) (threads st) -> In j code -> committed k id j = Some r -> nb k id st = 1 ->
      klookup K0 (items st) = Some it0 -> it_tomb it0 = false -> In (th, it_call it0) h ->
      r_own r = (it_dest it0, 1, it_remap it0) -> qout k id st = Some q -> kind_of (r_f r) = Some x -> wire_step q x = Some q' ->
      qarr arr (it_dest it0) (it_remap it0) = Some q' -> phase st h arr
  | PhWindow : forall it0 th lk R, klookup K0 (items st) = Some it0 -> it_tomb it0 = false -> qout k id st = Some WEnd -> nb k id st = 0 ->
      lookup tid_eqb th (threads st) = Some (IDelete K0 lk :: R) -> In (th, it_call it0) h -> phase st h arr.

  Lemma phase_q : forall st h arr, WInv st -> phase st h arr -> exists q, qout k id st = Some q.
  Proof.
    intros st h arr HW [Hu|_ Hq|th code i f _ _ _ _ _ Hw _|th code ec q _ _ _ _ Hq _|it0 q _ _ _ Hq _ _|th code j r it0 q x q' _ _ _ _ _ _ _ _ Hq _ _ _|it0 th lk R _ _ Hq _ _ _].
    - exists W0. unfold qout. rewrite (unseen_wout k id st HW Hu). reflexivity.
    - exact Hq.
    - exists W0. unfold qout. rewrite Hw. reflexivity.
    - exists q. exact Hq.
    - exists q. exact Hq.
    - exists q. exact Hq.
    - exists WEnd. exact Hq.
  Qed.
End Phases.

(* ---------------------------------------------------------------- helpers for the phase transitions *)

Section Helpers.
  Variables (cf : config) (k id : Z).
  Notation K0 := (k, 0, id).

  Lemma csum_pos_in : forall l, 0 < csum (bl k id) l -> exists j, In j l /\ blocked k id j = true.
  Proof.
    induction l as [|a r IH]; cbn; intro H; [lia|]. destruct (blocked k id a) eqn:Eb.
    - exists a. split; [left; reflexivity|exact Eb].
    - unfold bl at 1 in H. rewrite Eb in H. cbn in H. destruct (IH H) as (j&Hj&Hb). exists j. split; [right; exact Hj|exact Hb].
  Qed.

  Lemma csum_zero_none : forall l, (forall j, In j l -> blocked k id j = false) -> csum (bl k id) l = 0.
  Proof.
    induction l as [|a r IH]; intro H; cbn; [reflexivity|]. unfold bl at 1. rewrite (H a (or_introl eq_refl)). cbn.
    apply IH. intros j Hj. apply H. right. exact Hj.
  Qed.

  Lemma adm_pushes : forall st i room st1 pushed f j, adm_kf i = Some (k, f) -> exec cf st i room = (st1, pushed) ->
    In j pushed -> blocked k id j = true -> adm_kf j = Some (k, f) \/ exists ec, j = ISendErr k (f_id f) ec.
  Proof.
    intros st i room st1 pushed f j Ha H Hj Hb. destruct i; cbn in Ha; try discriminate; inversion Ha; subst; cbn [exec] in H.
    - destruct (e_start e =? 0); inversion H; subst; clear H; in_cases Hj; try discriminate; try (left; reflexivity); right; eexists; reflexivity.
    - destruct (c_state (get_conn st k) =? c_connectionActive); inversion H; subst; clear H; in_cases Hj; try discriminate; try (left; reflexivity); right; eexists; reflexivity.
    - destruct (klookup (k, 0, f_id f) (items st)); [|destruct (e_dest e =? -1); [|destruct (e_dest e <? 0)]];
        inversion H; subst; clear H; in_cases Hj; try discriminate; try (left; reflexivity); right; eexists; reflexivity.
    - destruct (c_state (get_conn st d) =? c_connectionActive); inversion H; subst; clear H; in_cases Hj; try discriminate; try (left; reflexivity); right; eexists; reflexivity.
    - unfold timer_new in H. cbn [fst snd] in H. inversion H; subst. destruct Hj as [<-|[]]. left. reflexivity.
    - unfold timer_new in H. cbn [fst snd] in H. inversion H; subst; clear H. in_cases Hj; discriminate.
  Qed.

  Lemma step_seen : forall st l st', step cf st l = Some st' ->
    seen st' = seen st \/ (exists k0 f e, l = LArrive k0 f e /\ seen st' = (k0, f_id f) :: seen st /\ (f_mt f =? c_messageTypeCallReq) = true).
  Proof.
    intros st l st' H. unfold step in H. destruct (negb (panicked st =? 0)); [discriminate|].
    destruct l as [k0 f e|th room|tm|t0|k0|k0|k0].
    - destruct (lookup tid_eqb (TR k0) (threads st)); [discriminate|].
      destruct (relayRoute (f_mt f) (cf_cancel cf) =? 1); [|inversion H; subst; left; reflexivity].
      destruct (f_mt f =? c_messageTypeCallReq) eqn:Emt; inversion H; subst; [|left; reflexivity].
      right. exists k0, f, e. repeat split. exact Emt.
    - left. destruct (lookup tid_eqb th (threads st)) as [[|i rest]|]; try discriminate.
      destruct (exec cf st i room) as [st1 pushed] eqn:E. inversion H. subst. destruct (exec_sent_w _ _ _ _ _ _ E) as [A _]. exact A.
    - left. destruct (zlookup tm (timers st)) as [x|]; [|discriminate].
      destruct (tm_armed x && match lookup tid_eqb (TT tm) (threads st) with None => true | Some _ => false end); [|discriminate].
      inversion H. subst. reflexivity.
    - left. destruct (mem_key t0 (gcs st)) eqn:Emem; [|discriminate]. inversion H. subst.
      pose proof (items_delete_tomb_spec (set_gcs st (remove_one t0 (gcs st))) t0) as E.
      cbn [set_gcs seen] in E. destruct E as (_&_&_&_&_&A&_). exact A.
    - left. destruct (c_state (get_conn st k0) =? c_connectionActive); [|discriminate]. inversion H. subst. reflexivity.
    - left. inversion H. subst. reflexivity.
    - left. match type of H with (if ?b then _ else _) = _ => destruct b end; [|discriminate]. inversion H. subst. reflexivity.
  Qed.

  Lemma step_lookup_other : forall st l st' th2 c, step cf st l = Some st' -> (forall room, l <> LStep th2 room) ->
    lookup tid_eqb th2 (threads st) = Some c -> lookup tid_eqb th2 (threads st') = Some c.
  Proof.
    intros st l st' th2 c H Hn Hl. unfold step in H. destruct (negb (panicked st =? 0)); [discriminate|].
    destruct l as [k0 f e|th room|tm|t0|k0|k0|k0].
    - destruct (lookup tid_eqb (TR k0) (threads st)) eqn:Eidle; [discriminate|].
      assert (Hne : th2 <> TR k0) by (intro; subst; congruence).
      destruct (relayRoute (f_mt f) (cf_cancel cf) =? 1); [|inversion H; subst; exact Hl].
      destruct (f_mt f =? c_messageTypeCallReq); inversion H; subst; rewrite tlookup_set_thread_other by exact Hne; exact Hl.
    - destruct (lookup tid_eqb th (threads st)) as [[|i rest]|]; try discriminate.
      destruct (exec cf st i room) as [st1 pushed] eqn:E. inversion H. subst.
      assert (Hne : th2 <> th) by (intro; subst; eapply Hn; reflexivity).
      rewrite tlookup_set_thread_other by exact Hne. rewrite (exec_threads _ _ _ _ _ _ E). exact Hl.
    - destruct (zlookup tm (timers st)) as [x|]; [|discriminate].
      destruct (tm_armed x && match lookup tid_eqb (TT tm) (threads st) with None => true | Some _ => false end) eqn:Eb; [|discriminate].
      inversion H. subst. assert (Hne : th2 <> TT tm).
      { intro. subst. apply andb_true_iff in Eb. destruct Eb as [_ Eb]. rewrite Hl in Eb. discriminate. }
      rewrite tlookup_set_thread_other by exact Hne. exact Hl.
    - destruct (mem_key t0 (gcs st)) eqn:Emem; [|discriminate]. inversion H. subst.
      pose proof (items_delete_tomb_spec (set_gcs st (remove_one t0 (gcs st))) t0) as E.
      cbn [set_gcs threads] in E. destruct E as (_&_&A&_). rewrite A. exact Hl.
    - destruct (c_state (get_conn st k0) =? c_connectionActive); [|discriminate]. inversion H. subst. exact Hl.
    - inversion H. subst. exact Hl.
    - match type of H with (if ?b then _ else _) = _ => destruct b end; [|discriminate]. inversion H. subst. exact Hl.
  Qed.

  Lemma get_wins2 : forall st h th i rest t st2 it, Inv st -> TInv st -> HInv st h -> FInv st h ->
    lookup tid_eqb th (threads st) = Some (i :: rest) -> is_trun i = false -> is_tent i = false ->
    (forall c, In c (live_call st t) -> others_hold h th c = false) ->
    items_get st t true = (st2, Some (it, false)) -> it_tomb it = false -> False.
  Proof.
    intros st h th i rest t st2 it HI HT HH HF El Hg1 Hg2 Hto E Hlive.
    destruct (items_get_tspec _ _ _ _ _ HT E) as (_&_&_&Hm).
    destruct (klookup t (items st)) as [it0|] eqn:Hl; [|destruct Hm as [Hm _]; discriminate].
    destruct Hm as (x&Hx&Hk&[(Hs&_)|[(_&Hgg&_)|[(_&Hgg&_)|(_&Hgg&Hns&Hna&_)]]]); try discriminate.
    inversion Hgg. subst it0.
    pose proof (lookup_in key_eqb key_eqb_ok _ _ _ Hl) as Hin.
    destruct (t_oblig _ HT _ _ Hin Hlive) as (y&Hy&[A|[(code&Hc&Hp)|(S&_)]]); rewrite Hx in Hy; inversion Hy; subst y.
    - congruence.
    - pose proof (f_fired _ _ HF _ _ _ Hc Hp Hin Hlive) as Hh.
      assert (Hth : TT (it_tm it) = th).
      { eapply others_hold_false; [|exact Hh]. apply Hto. apply live_call_in; assumption. }
      subst th. pose proof (in_lookup tid_eqb tid_eqb_ok _ _ _ (inv_threads_nd _ HI) Hc) as Hl2. rewrite El in Hl2. inversion Hl2. subst code.
      destruct Hp as [Hp|(o&r'&Hp)]; inversion Hp; subst i; discriminate.
    - congruence.
  Qed.

  Lemma settled_of : forall st, In (k, id) (seen st) -> k0_notlive k id st -> nb k id st = 0 -> settled st k id.
  Proof.
    intros st Hs Hn Hz. split; [exact Hs|]. split; [exact Hn|]. intros th code j Hin Hj. eapply nb_zero_none; eassumption.
  Qed.

  (* acting on a call another goroutine holds is excluded *)
  Lemma touch_excl : forall st h th2 room i2 rest c th, HInv st h -> no_overlap_step st h (LStep th2 room) = true ->
    lookup tid_eqb th2 (threads st) = Some (i2 :: rest) -> In c (touches_i st i2) -> In (th, c) h -> th = th2.
  Proof.
    intros st h th2 room i2 rest c th HH Hno El Hc Hh.
    assert (Hhead : head_of st th2 = Some i2) by (unfold head_of; rewrite El; reflexivity).
    unfold no_overlap_step in Hno. cbn [actor touches] in Hno. rewrite Hhead in Hno. rewrite forallb_forall in Hno.
    specialize (Hno _ Hc). apply negb_true_iff in Hno. eapply others_hold_false; eassumption.
  Qed.

  Lemma lstep_or_not : forall l : label, (exists th room, l = LStep th room) \/ (forall th room, l <> LStep th room).
  Proof. intro l. destruct l; try (right; intros; discriminate). left. eexists. eexists. reflexivity. Qed.

  Lemma arrive_delta_zero : forall st l, fresh_label st l = true -> In (k, id) (seen st) ->
    match l with
    | LArrive k0 f e => if (relayRoute (f_mt f) (cf_cancel cf) =? 1) && (f_mt f =? c_messageTypeCallReq) then bl k id (IStart k0 f e) else 0
    | _ => 0
    end = 0.
  Proof.
    intros st l Hfresh Hseen. destruct l as [k0 f e| | | | | |]; try reflexivity.
    destruct ((relayRoute (f_mt f) (cf_cancel cf) =? 1) && (f_mt f =? c_messageTypeCallReq)) eqn:Eb; [|reflexivity].
    apply andb_true_iff in Eb. destruct Eb as [_ Emt]. unfold bl. cbn.
    destruct ((k0 =? k) && (f_id f =? id)) eqn:Ek; [|reflexivity]. exfalso.
    apply andb_true_iff in Ek. destruct Ek as [E1 E2]. apply Z.eqb_eq in E1. apply Z.eqb_eq in E2. subst k0.
    cbn [fresh_label] in Hfresh. rewrite Emt in Hfresh. cbn [andb] in Hfresh. apply negb_true_iff in Hfresh.
    assert (Hex : existsb (fun p => (fst p =? k) && (snd p =? f_id f)) (seen st) = true).
    { apply existsb_exists. exists (k, id). split; [exact Hseen|]. cbn. rewrite E2, !Z.eqb_refl. reflexivity. }
    congruence.
  Qed.

  Lemma qout_snoc : forall st st' q x, qout k id st = Some q -> wout k id st' = wout k id st ++ [x] -> qout k id st' = wire_step q x.
  Proof. intros st st' q x Hq Hw. unfold qout in *. rewrite Hw, wire_run_snoc, Hq. reflexivity. Qed.

  Lemma qout_same : forall st st', wout k id st' = wout k id st -> qout k id st' = qout k id st.
  Proof. intros st st' Hw. unfold qout. rewrite Hw. reflexivity. Qed.
End Helpers.

(* ---------------------------------------------------------------- one step of one request *)

Section Trans.
  Variables (cf : config) (k id : Z).
  Notation K0 := (k, 0, id).
  Variables (st st' : state) (h : held) (arr : list (Z * frame)) (l : label).
  Hypothesis HA : AllInv st h.
  Hypothesis Hfresh : fresh_label st l = true.
  Hypothesis Hno : no_overlap_step st h l = true.
  Hypothesis Hcau : causal_step st l = true.
  Hypothesis Hs : step cf st l = Some st'.
  Hypothesis Hok : arr_ok (arr_step arr l).
  Hypothesis Harr : forall d f, In (d, f) arr -> kind_of f <> None -> f_id f < c_nextid (getc (conns st) d).

  Let h' := held_next st l st' h.
  Let arr' := arr_step arr l.

  Lemma HA' : AllInv st' h'.
  Proof. eapply step_all; eassumption. Qed.

  Let HI := a_inv _ _ HA.
  Let HW := a_winv _ _ HA.
  Let HH := a_hinv _ _ HA.
  Let HF := a_finv _ _ HA.
  Let HP := a_tpair _ _ HA.
  Let HT := a_tinv _ _ HA.
  Let HS := a_shape _ _ HA.

  (* the executed instruction, when the label is a goroutine step *)
  Lemma lstep_inv : forall th room, l = LStep th room ->
    exists i rest st1 pushed, lookup tid_eqb th (threads st) = Some (i :: rest) /\ exec cf st i room = (st1, pushed) /\
      st' = set_thread st1 th (pushed ++ rest).
  Proof.
    intros th room ->. pose proof Hs as H0. unfold step in H0. destruct (negb (panicked st =? 0)); [discriminate|].
    destruct (lookup tid_eqb th (threads st)) as [[|i rest]|]; try discriminate.
    destruct (exec cf st i room) as [st1 pushed] eqn:E. inversion H0. exists i, rest, st1, pushed.
    split; [reflexivity|]. split; [exact E|reflexivity].
  Qed.

  (* a blocked instruction pushed by an instruction that is not blocked: the step acts on the live K0 *)
  Lemma new_blocked_touch : forall th room i rest st1 pushed j, l = LStep th room ->
    lookup tid_eqb th (threads st) = Some (i :: rest) -> exec cf st i room = (st1, pushed) ->
    blocked k id i = false -> In j pushed -> blocked k id j = true ->
    exists it0, klookup K0 (items st) = Some it0 /\ it_tomb it0 = false /\ In (it_call it0) (touches_i st i) /\
      ((exists r s, i = IRcvGet r /\ rcv_key r = K0 /\ j = IRcvChk r K0 (Some (it0, s))) \/ (exists s ec, i = IEntomb K0 s /\ j = ISendErr k id ec)).
  Proof.
    intros th room i rest st1 pushed j Hl El E Hbi Hj Hbj.
    pose proof (lookup_in tid_eqb tid_eqb_ok _ _ _ El) as Hin0.
    destruct (pushed_blocked k id cf st th i rest room st1 pushed j HI Hin0 E Hj Hbj) as [[Hb _]|[(r&it&s&Hi&Hjj&Hlk&Hlive)|(s&it0&ec&Hi&Hlk&Hlive&Hjj)]].
    - congruence.
    - subst i j. cbn in Hbj. rewrite !andb_true_iff in Hbj. destruct Hbj as [[[[E1 E2] E3] _] _].
      apply Z.eqb_eq in E1. apply Z.eqb_eq in E2.
      pose proof (w_code _ HW _ _ _ Hin0 (or_introl eq_refl)) as Hw. cbn in Hw. destruct Hw as (A&_&_).
      unfold is_wire in E3. destruct (kind_of (r_f r)) eqn:Ek; [|discriminate].
      rewrite (kind_of_response (r_f r)) in A by congruence. inversion A as [Hft].
      assert (Hrk : rcv_key r = K0). { unfold rcv_key. rewrite <- Hft, E1, E2. reflexivity. }
      rewrite Hrk in *. exists it. split; [exact Hlk|]. split; [exact Hlive|]. split.
      + cbn [touches_i gets_i]. rewrite Hrk. apply live_call_in; assumption.
      + left. exists r, s. repeat split. exact Hrk.
    - subst i j. exists it0. split; [exact Hlk|]. split; [exact Hlive|]. split.
      + cbn [touches_i]. apply live_call_in; assumption.
      + right. exists s, ec. split; reflexivity.
  Qed.


  (* a step that neither executes nor creates a blocked instruction of (k, id) *)
  Lemma quiet_other : In (k, id) (seen st) ->
    (forall th room i rest, l = LStep th room -> lookup tid_eqb th (threads st) = Some (i :: rest) ->
       blocked k id i = false /\ (forall st1 pushed j, exec cf st i room = (st1, pushed) -> In j pushed -> blocked k id j = false)) ->
    nb k id st' = nb k id st /\ wout k id st' = wout k id st.
  Proof.
    intros Hseen Hq. split.
    - destruct (lstep_or_not l) as [(th&room&Hl)|Hn].
      + destruct (lstep_inv th room Hl) as (i&rest&st1&pushed&Elk&E&Hst'). destruct (Hq _ _ _ _ Hl Elk) as [Hbi Hp].
        rewrite Hst', (nb_LStep cf k id _ _ _ _ _ _ _ HI Elk E). unfold bl at 1. rewrite Hbi. cbn.
        rewrite (csum_zero_none k id pushed) by (intros j Hj; eapply Hp; [exact E|exact Hj]). lia.
      + rewrite (nb_other cf k id _ _ _ HI Hs Hn). rewrite (arrive_delta_zero cf k id st l Hfresh Hseen). lia.
    - destruct (step_wout cf k id _ _ _ Hs) as [Hw|(th&room&i&rest&Hl&Elk&Hb&_)]; [exact Hw|].
      destruct (Hq _ _ _ _ Hl Elk) as [Hbi _]. congruence.
  Qed.

  (* the table entry of K0, when it is not live, stays not live (no admission of (k, id) is pending) *)
  Lemma notlive_mono : k0_notlive k id st ->
    (forall th code i f, In (th, code) (threads st) -> In i code -> adm_kf i = Some (k, f) -> f_id f <> id) ->
    k0_notlive k id st'.
  Proof.
    intros Hn Hnoadm it Hl. apply (lookup_in key_eqb key_eqb_ok) in Hl.
    destruct (step_items _ _ _ _ _ _ Hs Hl) as [(it0&Hi0&Hsame)|[(th&room&rest&k1&f&e&c&d&_&_&Ht&_)|(th&room&rest&k1&f&e&c&d&did&_&Elk&Ht&_)]].
    - destruct Hsame as (_&_&_&_&_&Hm). apply Hm. apply Hn. apply (in_lookup key_eqb key_eqb_ok); [apply (inv_items_nd _ HI)|exact Hi0].
    - inversion Ht.
    - exfalso. inversion Ht. subst k1. eapply (Hnoadm th _ (IAddOrig k f e c d did) f); [eapply (lookup_in tid_eqb tid_eqb_ok); exact Elk|left; reflexivity|reflexivity|symmetry; assumption].
  Qed.

  (* held calls survive the step for goroutines that still have code *)
  Lemma held_keep : forall th c code, In (th, c) h -> lookup tid_eqb th (threads st') = Some code -> In (th, c) h'.
  Proof.
    intros th c code Hh Hl. unfold h'. destruct (actor l) as [a|] eqn:Ea.
    - destruct (eqb_dec tid_eqb tid_eqb_ok th a) as [->|Hne].
      + eapply held_next_self; [exact Ea|exact Hl|left; exact Hh].
      + apply held_next_other; [exact Hh|congruence].
    - apply held_next_other; [exact Hh|congruence].
  Qed.


  Lemma k0_seen : forall it0, klookup K0 (items st) = Some it0 -> In (k, id) (seen st).
  Proof.
    intros it0 Hl. destruct (inv_keys _ HI K0) as [[_ Hsn]|[Hd _]].
    - left. apply (lookup_in key_eqb key_eqb_ok) in Hl. apply (in_map fst) in Hl. exact Hl.
    - exact Hsn.
    - cbn in Hd. discriminate.
  Qed.

  Lemma seen_mono : In (k, id) (seen st) -> In (k, id) (seen st').
  Proof.
    intro H. destruct (step_seen cf _ _ _ Hs) as [Heq|(k0&f&e&_&Heq&_)]; rewrite Heq; [exact H|right; exact H].
  Qed.

  (* while a goroutine th holds the call of the live K0, no other goroutine creates a blocked
     instruction of (k, id) or changes K0 *)
  Lemma other_quiet : forall it0 th th2 room i2 rest, klookup K0 (items st) = Some it0 -> it_tomb it0 = false -> In (th, it_call it0) h ->
    l = LStep th2 room -> th2 <> th -> lookup tid_eqb th2 (threads st) = Some (i2 :: rest) -> blocked k id i2 = false ->
    (forall st1 pushed j, exec cf st i2 room = (st1, pushed) -> In j pushed -> blocked k id j = false) /\
    klookup K0 (items st') = Some it0.
  Proof.
    intros it0 th th2 room i2 rest Hl0 Hlive Hh Hl Hne Elk Hbi. split.
    - intros st1 pushed j E Hj. destruct (blocked k id j) eqn:Hbj; [|reflexivity]. exfalso.
      destruct (new_blocked_touch _ _ _ _ _ _ _ Hl Elk E Hbi Hj Hbj) as (it1&Hl1&_&Ht&_).
      rewrite Hl0 in Hl1. inversion Hl1. subst it1. rewrite Hl in Hno.
      apply Hne. symmetry. eapply touch_excl; eassumption.
    - destruct (step_items_keep _ _ _ _ _ _ HI Hs Hl0 Hlive) as [Hk|(th3&room3&rest3&i3&Hl3&Elk3&Hi3)]; [exact Hk|]. exfalso.
      rewrite Hl in Hl3. inversion Hl3. subst th3 room3. rewrite Elk in Elk3. inversion Elk3. subst i3 rest3.
      rewrite Hl in Hno. apply Hne. symmetry. eapply (touch_excl st h th2 room i2 rest (it_call it0)); try eassumption.
      destruct Hi3 as [[s Hi3]|[lk3 Hi3]]; rewrite Hi3; cbn [touches_i]; apply live_call_in; assumption.
  Qed.


  Lemma wire_of_nil : forall d did log, (forall f, In (d, f) log -> kind_of f <> None -> f_id f <> did) -> wire_of d did log = [].
  Proof.
    intros d did log. induction log as [|[d0 f0] r IH]; intro H; [reflexivity|]. rewrite wire_of_cons.
    rewrite IH by (intros f Hin; apply H; right; exact Hin). cbn [app].
    destruct ((d0 =? d) && (f_id f0 =? did)) eqn:E; [|reflexivity]. apply andb_true_iff in E. destruct E as [E1 E2].
    apply Z.eqb_eq in E1. apply Z.eqb_eq in E2. subst d0. destruct (kind_of f0) eqn:Ek; [|reflexivity].
    exfalso. eapply (H f0); [left; reflexivity|congruence|exact E2].
  Qed.

  (* a response frame of (d, did) is only in flight for an id the relay has allocated on d *)
  Lemma pre_alloc : forall d did th0 code0 j x, In (th0, code0) (threads st) -> In j code0 -> pre_kind d did j = Some x ->
    did < c_nextid (getc (conns st) d).
  Proof.
    intros d did th0 code0 j x Hin Hj Hp.
    assert (Hfl : forall own tk ti c, flight j = Some (own, tk, ti, c) -> own = (d, 1, did) -> did < c_nextid (getc (conns st) d)).
    { intros own tk ti c Hfl Ho. destruct (f_own _ _ HF _ _ _ _ _ _ _ Hin Hj Hfl) as (it1&Hl1&_). subst own.
      destruct (inv_keys _ HI (d, 1, did)) as [[Hz _]|[_ Hlt]].
      - left. apply (lookup_in key_eqb key_eqb_ok) in Hl1. apply (in_map fst) in Hl1. exact Hl1.
      - cbn in Hz. discriminate.
      - exact Hlt. }
    pose proof (f_thr _ _ HF _ _ _ Hin Hj) as Hthr. pose proof (w_code _ HW _ _ _ Hin Hj) as Hw.
    destruct j; cbn in Hp; try discriminate.
    - destruct ((k0 =? d) && (f_id f =? did)) eqn:E; [|discriminate]. apply andb_true_iff in E. destruct E as [E1 E2].
      apply Z.eqb_eq in E1. apply Z.eqb_eq in E2. subst k0 did. eapply (f_ncget _ _ HF); [exact Hin|exact Hj|congruence].
    - destruct g as [[it s]|]; [|discriminate]. destruct ((k0 =? d) && (f_id f =? did) && negb (it_tomb it)) eqn:E; [|discriminate].
      rewrite !andb_true_iff in E. destruct E as [[E1 E2] E3]. apply Z.eqb_eq in E1. apply Z.eqb_eq in E2. subst k0 did.
      cbn in Hw. destruct Hw as [Hft _]. rewrite (kind_of_response f) in Hft by congruence. inversion Hft. subst ft.
      cbn in Hthr. destruct Hthr as [_ Hown].
      eapply (Hfl own); [|exact Hown]. cbn. rewrite E3. reflexivity.
    - destruct (key_eqb (r_own r) (d, 1, did) && (r_ft r =? c_responseFrame)) eqn:E; [|discriminate].
      apply andb_true_iff in E. destruct E as [E1 E2]. apply key_eqb_ok in E1.
      eapply (Hfl (r_own r)); [|exact E1]. cbn. rewrite E2. reflexivity.
  Qed.

  (* --- window: the terminal frame is out, the reader is about to delete K0 *)
  Lemma trans_window : forall it0 th lk R, klookup K0 (items st) = Some it0 -> it_tomb it0 = false -> qout k id st = Some WEnd ->
    nb k id st = 0 -> lookup tid_eqb th (threads st) = Some (IDelete K0 lk :: R) -> In (th, it_call it0) h -> phase k id st' h' arr'.
  Proof.
    intros it0 th lk R Hl0 Hlive Hq Hnb Elkw Hh.
    pose proof (k0_seen _ Hl0) as Hseen.
    destruct (lstep_or_not l) as [(th2&room&Hl)|Hn].
    - destruct (lstep_inv th2 room Hl) as (i2&rest&st1&pushed&Elk&E&Hst').
      assert (Hbi : blocked k id i2 = false).
      { eapply (nb_zero_none k id st); [exact Hnb|eapply (lookup_in tid_eqb tid_eqb_ok); exact Elk|left; reflexivity]. }
      destruct (eqb_dec tid_eqb tid_eqb_ok th2 th) as [->|Hne].
      + (* the reader deletes K0 *)
        rewrite Elkw in Elk. inversion Elk. subst i2 rest.
        pose proof E as E0. cbn [exec] in E0. rewrite (LInv_delete_is_delete st th K0 lk R (a_linv _ _ HA) Elkw) in E0.
        destruct (items_delete st K0) as [st2 g] eqn:Ed.
        destruct (items_delete_spec _ _ _ _ Ed) as (_&_&_&_&_&_&_&Hd). rewrite Hl0 in Hd. destruct Hd as [Hg Hit]. subst g. rewrite Hlive in E0. cbn [negb] in E0.
        inversion E0. subst st1 pushed. clear E0.
        assert (Hnl : k0_notlive k id st').
        { intros it Hl1. rewrite Hst' in Hl1. cbn [set_thread set_threads items] in Hl1. rewrite Hit, (lookup_remove_eq key_eqb key_eqb_ok) in Hl1. discriminate. }
        assert (Hnb' : nb k id st' = 0).
        { rewrite Hst', (nb_LStep cf k id _ _ _ _ _ _ _ HI Elkw E). unfold bl at 1. rewrite Hbi. destruct (it_orig it0); cbn; lia. }
        apply PhSettled; [apply settled_of; [apply seen_mono; exact Hseen|exact Hnl|exact Hnb']|].
        exists WEnd. rewrite <- Hq. apply qout_same.
        destruct (step_wout cf k id _ _ _ Hs) as [Hw|(th3&room3&i3&rest3&Hl3&Elk3&Hb3&_)]; [exact Hw|].
        rewrite Hl in Hl3. inversion Hl3. subst th3 room3. rewrite Elkw in Elk3. inversion Elk3. subst i3. discriminate.
      + destruct (other_quiet it0 th th2 room i2 rest Hl0 Hlive Hh Hl Hne Elk Hbi) as [Hpq Hk0].
        destruct (quiet_other Hseen) as [Hnb' Hw].
        { intros th3 room3 i3 rest3 Hl3 Elk3. rewrite Hl in Hl3. inversion Hl3. subst th3 room3. rewrite Elk in Elk3. inversion Elk3. subst i3 rest3.
          split; [exact Hbi|exact Hpq]. }
        assert (Elkw' : lookup tid_eqb th (threads st') = Some (IDelete K0 lk :: R)).
        { eapply step_lookup_other; [exact Hs| |exact Elkw]. intros room3 Heq. rewrite Hl in Heq. inversion Heq. congruence. }
        eapply (PhWindow k id st' h' arr' it0 th lk R); try assumption.
        * rewrite (qout_same k id _ _ Hw). exact Hq.
        * lia.
        * eapply held_keep; eassumption.
    - destruct (quiet_other Hseen) as [Hnb' Hw].
      { intros th3 room3 i3 rest3 Hl3. exfalso. eapply Hn. exact Hl3. }
      assert (Hk0 : klookup K0 (items st') = Some it0).
      { destruct (step_items_keep _ _ _ _ _ _ HI Hs Hl0 Hlive) as [Hk|(th3&room3&rest3&i3&Hl3&_)]; [exact Hk|]. exfalso. eapply Hn. exact Hl3. }
      assert (Elkw' : lookup tid_eqb th (threads st') = Some (IDelete K0 lk :: R)).
      { eapply step_lookup_other; [exact Hs| |exact Elkw]. intros room3 Heq. eapply Hn. exact Heq. }
      eapply (PhWindow k id st' h' arr' it0 th lk R); try assumption.
      * rewrite (qout_same k id _ _ Hw). exact Hq.
      * lia.
      * eapply held_keep; eassumption.
  Qed.


  (* --- an error frame for (k, id) is waiting to be enqueued *)
  Lemma trans_err : forall th code ec q, In (th, code) (threads st) -> In (ISendErr k id ec) code -> nb k id st = 1 ->
    k0_notlive k id st -> qout k id st = Some q -> q <> WEnd -> phase k id st' h' arr'.
  Proof.
    intros th code ec q Hin Hj Hnb Hnl Hq Hqe.
    assert (Hbj : blocked k id (ISendErr k id ec) = true) by (cbn; rewrite !Z.eqb_refl; reflexivity).
    pose proof (w_code _ HW _ _ _ Hin Hj) as Hseen. cbn in Hseen.
    assert (Hnb1 : nb k id st <= 1) by lia.
    assert (Hnoadm : forall th0 code0 i f, In (th0, code0) (threads st) -> In i code0 -> adm_kf i = Some (k, f) -> f_id f <> id).
    { intros th0 code0 i f Hin0 Hi Ha Hid.
      assert (Hbi : blocked k id i = true).
      { destruct i; cbn in Ha; try discriminate; inversion Ha; subst; cbn; rewrite !Z.eqb_refl; reflexivity. }
      destruct (unique_blocked k id st _ _ _ _ _ _ (inv_threads_nd _ HI) Hnb1 Hin0 Hi Hbi Hin Hj Hbj) as [_ Heq]. subst i. discriminate. }
    pose proof (notlive_mono Hnl Hnoadm) as Hnl'.
    assert (Hnotouch : forall th2 room i2 rest st1 pushed j, l = LStep th2 room -> lookup tid_eqb th2 (threads st) = Some (i2 :: rest) ->
              exec cf st i2 room = (st1, pushed) -> blocked k id i2 = false -> In j pushed -> blocked k id j = false).
    { intros th2 room i2 rest st1 pushed j Hl Elk E Hbi Hjp. destruct (blocked k id j) eqn:Hb; [|reflexivity]. exfalso.
      destruct (new_blocked_touch _ _ _ _ _ _ _ Hl Elk E Hbi Hjp Hb) as (it1&Hl1&Hlive1&_). rewrite (Hnl _ Hl1) in Hlive1. discriminate. }
    assert (Hstay : (forall th2 room i2 rest, l = LStep th2 room -> lookup tid_eqb th2 (threads st) = Some (i2 :: rest) -> blocked k id i2 = false) ->
              phase k id st' h' arr').
    { intro Hq2. destruct (quiet_other Hseen) as [Hnb' Hw].
      { intros th2 room i2 rest Hl Elk. split; [eapply Hq2; eassumption|]. intros st1 pushed j E Hjp. eapply Hnotouch; try eassumption. eapply Hq2; eassumption. }
      destruct (step_code_keep _ _ _ _ _ _ _ HI Hs Hin Hj) as [(code'&Hin'&Hj')|(room&rest&Hl&Hc)].
      - eapply (PhErr k id st' h' arr' th code' ec q); try eassumption; [lia|]. rewrite (qout_same k id _ _ Hw). exact Hq.
      - exfalso. subst code. pose proof (in_lookup tid_eqb tid_eqb_ok _ _ _ (inv_threads_nd _ HI) Hin) as Elk.
        rewrite (Hq2 _ _ _ _ Hl Elk) in Hbj. discriminate. }
    destruct (lstep_or_not l) as [(th2&room&Hl)|Hn]; [|apply Hstay; intros th2 room i2 rest Hl; exfalso; eapply Hn; exact Hl].
    destruct (lstep_inv th2 room Hl) as (i2&rest&st1&pushed&Elk&E&Hst').
    destruct (blocked k id i2) eqn:Hbi.
    - (* the error frame is handed to the connection (or dropped: connection closed / buffer full) *)
      pose proof (lookup_in tid_eqb tid_eqb_ok _ _ _ Elk) as Hin2.
      destruct (unique_blocked k id st _ _ _ _ _ _ (inv_threads_nd _ HI) Hnb1 Hin2 (or_introl eq_refl) Hbi Hin Hj Hbj) as [Hth Hi]. subst th2 i2.
      assert (Hp : pushed = []).
      { cbn [exec] in E. destruct ((c_state (get_conn st k) =? c_connectionClosed) || negb room); inversion E; reflexivity. }
      assert (Hnb' : nb k id st' = 0).
      { rewrite Hst', (nb_LStep cf k id _ _ _ _ _ _ _ HI Elk E), Hp. unfold bl. rewrite Hbj. cbn. lia. }
      apply PhSettled; [apply settled_of; [apply seen_mono; exact Hseen|exact Hnl'|exact Hnb']|].
      destruct (step_wout cf k id _ _ _ Hs) as [Hw|(th3&room3&i3&rest3&Hl3&Elk3&Hb3&[(ec3&Hi3&Hw)|(r&rk&lk3&x&Hi3&_)])].
      + exists q. rewrite (qout_same k id _ _ Hw). exact Hq.
      + exists WEnd. rewrite (qout_snoc k id _ _ _ _ Hq Hw). destruct q; try reflexivity. contradiction.
      + exfalso. rewrite Hl in Hl3. inversion Hl3. subst th3. rewrite Elk in Elk3. inversion Elk3. subst i3. discriminate.
    - apply Hstay. intros th3 room3 i3 rest3 Hl3 Elk3. rewrite Hl in Hl3. inversion Hl3. subst th3 room3. rewrite Elk in Elk3. inversion Elk3. subst i3. exact Hbi.
  Qed.


  Lemma arr'_lstep : forall th room, l = LStep th room -> arr' = arr.
  Proof. intros th room Hl. unfold arr'. rewrite Hl. reflexivity. Qed.

  (* --- the request is being admitted *)
  Lemma trans_adm : forall th code i f, In (th, code) (threads st) -> In i code -> adm_kf i = Some (k, f) -> f_id f = id ->
    nb k id st = 1 -> wout k id st = [] ->
    (forall e c d did, i = IAddOrig k f e c d did -> dead st d did \/ synced st arr W0 d did) -> phase k id st' h' arr'.
  Proof.
    intros th code i f Hin Hi Ha Hid Hnb Hw0 Hps.
    destruct (inv_code _ HI _ _ Hin) as [Hfo Hsing]. rewrite Forall_forall in Hfo.
    destruct (iok_adm _ _ _ _ _ _ _ Ha (Hfo _ Hi)) as [Hthk (Hseen&Hfree&_)]. rewrite Hid in Hseen, Hfree.
    assert (Hcode : code = [i]) by (apply Hsing; [exact Hi|unfold is_adm; rewrite Ha; reflexivity]). subst code.
    assert (Hbi : blocked k id i = true).
    { destruct i; cbn in Ha; try discriminate; inversion Ha; subst; cbn; rewrite !Z.eqb_refl; reflexivity. }
    assert (Hnb1 : nb k id st <= 1) by lia.
    pose proof (in_lookup tid_eqb tid_eqb_ok _ _ _ (inv_threads_nd _ HI) Hin) as Elki.
    assert (Hq0 : qout k id st = Some W0) by (unfold qout; rewrite Hw0; reflexivity).
    assert (Hnotouch : forall th2 room i2 rest st1 pushed j, l = LStep th2 room -> lookup tid_eqb th2 (threads st) = Some (i2 :: rest) ->
              exec cf st i2 room = (st1, pushed) -> blocked k id i2 = false -> In j pushed -> blocked k id j = false).
    { intros th2 room i2 rest st1 pushed j Hl Elk E Hb2 Hjp. destruct (blocked k id j) eqn:Hb; [|reflexivity]. exfalso.
      destruct (new_blocked_touch _ _ _ _ _ _ _ Hl Elk E Hb2 Hjp Hb) as (it1&Hl1&_). congruence. }
    (* the synchronisation with the destination's frames survives any step that is not the admission itself *)
    assert (Hsync : forall e c d did, i = IAddOrig k f e c d did ->
              (forall th2 room r rest, l = LStep th2 room -> lookup tid_eqb th2 (threads st) = Some (IRcvGet r :: rest) -> pre_kind d did (IRcvGet r) = None) /\
              did < c_nextid (getc (conns st) d)).
    { intros e c d did Hieq. subst i. destruct (tp_addorig _ HP _ _ _ _ _ _ _ _ Hin (or_introl eq_refl)) as [Hlt Hao]. split; [|exact Hlt].
      intros th2 room r rest Hl Elk. destruct (pre_kind d did (IRcvGet r)) as [x|] eqn:Ep; [|reflexivity]. exfalso.
      cbn in Ep. destruct (key_eqb (r_own r) (d, 1, did) && (r_ft r =? c_responseFrame)) eqn:Eb; [|discriminate].
      apply andb_true_iff in Eb. destruct Eb as [E1 E2]. apply key_eqb_ok in E1.
      pose proof (lookup_in tid_eqb tid_eqb_ok _ _ _ Elk) as Hin2.
      assert (Hfl : flight (IRcvGet r) = Some (r_own r, r_d r, f_id (r_f r), r_call r)) by (cbn; rewrite E2; reflexivity).
      destruct (f_own _ _ HF _ _ _ _ _ _ _ Hin2 (or_introl eq_refl) Hfl) as (it1&Hl1&_&_&Hd1&Hr1).
      rewrite E1 in Hl1. destruct (Hao _ Hl1) as (A&B&_).
      eapply (f_noadm _ _ HF _ _ _ _ _ _ _ Hin2 (or_introl eq_refl) Hfl th [IAddOrig k f e c d did] (IAddOrig k f e c d did) f); [exact Hin|left; reflexivity| |congruence].
      cbn. rewrite <- Hd1, A. reflexivity. }
    assert (Hstay : (forall th2 room i2 rest, l = LStep th2 room -> lookup tid_eqb th2 (threads st) = Some (i2 :: rest) -> blocked k id i2 = false) ->
              phase k id st' h' arr').
    { intro Hq2. destruct (quiet_other Hseen) as [Hnb' Hw].
      { intros th2 room i2 rest Hl Elk. split; [eapply Hq2; eassumption|]. intros st1 pushed j E Hjp. eapply Hnotouch; try eassumption. eapply Hq2; eassumption. }
      destruct (step_code_keep _ _ _ _ _ _ _ HI Hs Hin Hi) as [(code'&Hin'&Hi')|(room&rest&Hl&Hc)].
      - eapply (PhAdm k id st' h' arr' th code' i f); try eassumption; [lia|rewrite Hw; exact Hw0|].
        intros e c d did Hieq. destruct (Hsync _ _ _ _ Hieq) as [Hnoc Hlt].
        eapply step_synced; try eassumption. eapply Hps. exact Hieq.
      - exfalso. rewrite (Hq2 _ _ _ _ Hl Elki) in Hbi. discriminate. }
    destruct (lstep_or_not l) as [(th2&room&Hl)|Hn]; [|apply Hstay; intros th2 room i2 rest Hl; exfalso; eapply Hn; exact Hl].
    destruct (lstep_inv th2 room Hl) as (i2&rest&st1&pushed&Elk&E&Hst').
    destruct (blocked k id i2) eqn:Hb2; [|apply Hstay; intros th3 room3 i3 rest3 Hl3 Elk3; rewrite Hl in Hl3; inversion Hl3; subst th3 room3; rewrite Elk in Elk3; inversion Elk3; subst i3; exact Hb2].
    (* the admission goroutine steps *)
    pose proof (lookup_in tid_eqb tid_eqb_ok _ _ _ Elk) as Hin2.
    destruct (unique_blocked k id st _ _ _ _ _ _ (inv_threads_nd _ HI) Hnb1 Hin2 (or_introl eq_refl) Hb2 Hin (or_introl eq_refl) Hbi) as [Hth Hi2]. subst th2 i2.
    rewrite Elki in Elk. inversion Elk. subst rest.
    assert (Hw : wout k id st' = wout k id st).
    { destruct (step_wout cf k id _ _ _ Hs) as [Hw|(th3&room3&i3&rest3&Hl3&Elk3&_&[(ec3&Hi3&_)|(r&rk&lk3&x&Hi3&_)])]; [exact Hw| |];
        rewrite Hl in Hl3; inversion Hl3; subst th3; rewrite Elki in Elk3; inversion Elk3; subst i3; subst i; discriminate. }
    assert (Hnb' : nb k id st' = csum (bl k id) pushed).
    { rewrite Hst', (nb_LStep cf k id _ _ _ _ _ _ _ HI Elki E). unfold bl at 1. rewrite Hbi. cbn. lia. }
    assert (Hth' : In (th, pushed ++ []) (threads st') \/ pushed = []).
    { destruct pushed as [|a p]; [right; reflexivity|left]. rewrite Hst'. apply in_set_thread_self. discriminate. }
    pose proof (pushed_bl_count k id _ _ _ _ _ _ E) as Hle.
    destruct (Z_lt_le_dec 0 (csum (bl k id) pushed)) as [Hpos|Hzero].
    - destruct (csum_pos_in k id _ Hpos) as (j&Hj&Hbj).
      destruct Hth' as [Hth'|Hnil]; [|subst pushed; contradiction].
      destruct (adm_pushes cf k id _ _ _ _ _ _ _ Ha E Hj Hbj) as [Haj|(ec&Hjeq)].
      + eapply (PhAdm k id st' h' arr' th (pushed ++ []) j f); try eassumption; [apply in_or_app; left; exact Hj|lia|rewrite Hw; exact Hw0|].
        intros e c d did Hjeq. destruct (pushed_adm _ _ _ _ _ _ _ _ _ E Hj Haj) as (_&Hao&_). destruct (Hao _ _ _ _ _ _ Hjeq) as [Hieq Hdid].
        right. rewrite (arr'_lstep _ _ Hl). rewrite get_conn_getc in Hdid.
        assert (Hnone : forall th0 code0 j0, In (th0, code0) (threads st') -> In j0 code0 -> pre_kind d did j0 = None).
        { intros th0 code0 j0 Hin0 Hj0. destruct (pre_kind d did j0) as [x|] eqn:Ep; [|reflexivity]. exfalso.
          destruct (step_code _ _ _ _ _ _ _ Hs Hin0 Hj0) as [(code1&A&B&_)|[(th3&room3&i3&rest3&st3&pushed3&Hl3&_&Elk3&E3&Hp3)|[(k1&f1&e1&Hl3&_)|(tm&Hl3&_)]]];
            try (rewrite Hl in Hl3; discriminate).
          - pose proof (pre_alloc _ _ _ _ _ _ A B Ep). lia.
          - rewrite Hl in Hl3. inversion Hl3. subst th3 room3. rewrite Elki in Elk3. inversion Elk3. subst i3 rest3.
            pose proof (pushed_pre cf d did _ _ _ _ _ _ _ _ E3 (f_thr _ _ HF _ _ _ Hin (or_introl eq_refl)) Hp3 Ep) as Hpi.
            subst i. discriminate. }
        split; [intros th0 code0 j0 x Hin0 Hj0 Hp; rewrite (Hnone _ _ _ Hin0 Hj0) in Hp; discriminate|].
        intros _. unfold qarr. rewrite wire_of_nil; [reflexivity|]. intros f0 Hf0 Hk0 Heq. pose proof (Harr _ _ Hf0 Hk0). lia.
      + subst j. rewrite Hid in Hj.
        assert (Hnl' : k0_notlive k id st').
        { intros it Hl1. apply (lookup_in key_eqb key_eqb_ok) in Hl1.
          destruct (step_items _ _ _ _ _ _ Hs Hl1) as [(it0&Hi0&_)|[(th3&room3&rest3&k1&f1&e1&c1&d1&_&_&Ht&_)|(th3&room3&rest3&k1&f1&e1&c1&d1&did1&Hl3&Elk3&_)]].
          - apply (in_lookup key_eqb key_eqb_ok) in Hi0; [congruence|apply (inv_items_nd _ HI)].
          - inversion Ht.
          - exfalso. rewrite Hl in Hl3. inversion Hl3. subst th3. rewrite Elki in Elk3. inversion Elk3. subst i.
            cbn [exec] in E. unfold timer_new in E. cbn [fst snd] in E. inversion E. subst pushed.
            destruct (e_mode e1 <? 0); in_cases Hj; discriminate. }
        eapply (PhErr k id st' h' arr' th (pushed ++ []) ec W0); try eassumption; [apply in_or_app; left; exact Hj|lia|rewrite (qout_same k id _ _ Hw); exact Hq0|discriminate].
    - assert (Hnb0 : nb k id st' = 0) by (pose proof (csum_bl_nonneg k id pushed); lia).
      destruct (klookup K0 (items st')) as [it0|] eqn:Hl0'.
      + (* addRelayItem of the originating item *)
        pose proof (lookup_in key_eqb key_eqb_ok _ _ _ Hl0') as Hin0'.
        destruct (step_items _ _ _ _ _ _ Hs Hin0') as [(it1&Hi1&_)|[(th3&room3&rest3&k1&f1&e1&c1&d1&_&_&Ht&_)|(th3&room3&rest3&k1&f1&e1&c1&d1&did1&Hl3&Elk3&Ht&Hc1&Hd1&Hr1&Hlive1)]].
        * apply (in_lookup key_eqb key_eqb_ok) in Hi1; [congruence|apply (inv_items_nd _ HI)].
        * inversion Ht.
        * rewrite Hl in Hl3. inversion Hl3. subst th3 room3. rewrite Elki in Elk3. inversion Elk3. subst i.
          cbn in Ha. inversion Ha. subst k1 f1.
          destruct (Hsync _ _ _ _ eq_refl) as [Hnoc Hlt].
          eapply (PhLive k id st' h' arr' it0 W0); try assumption; [rewrite (qout_same k id _ _ Hw); exact Hq0|discriminate|].
          rewrite Hd1, Hr1.
          destruct (step_synced cf st h l st' arr W0 d1 did1 HA Hs Hlt Hok Hnoc (Hps _ _ _ _ eq_refl)) as [Hd|Hsy]; [left; exact Hd|right; right; exact Hsy].
      + apply PhSettled; [apply settled_of; [apply seen_mono; exact Hseen|intros it Hx; rewrite Hl0' in Hx; discriminate|exact Hnb0]|].
        exists W0. rewrite (qout_same k id _ _ Hw). exact Hq0.
  Qed.


  (* while the reader of d is busy nothing arrives on d *)
  Lemma qarr_busy : forall d did code, In (TR d, code) (threads st) -> qarr arr' d did = qarr arr d did.
  Proof.
    intros d did code Hin. unfold arr', qarr. pose proof Hs as H0. unfold step in H0.
    destruct (negb (panicked st =? 0)); [discriminate|].
    destruct l as [d' f e| | | | | |]; try reflexivity. cbn [arr_step].
    destruct (lookup tid_eqb (TR d') (threads st)) eqn:Eidle; [discriminate|].
    rewrite wire_of_cons. destruct (d' =? d) eqn:E; [|cbn; apply f_equal; apply app_nil_r].
    apply Z.eqb_eq in E. subst d'. exfalso. apply (in_map fst) in Hin. apply (lookup_none_notin tid_eqb tid_eqb_ok) in Eidle. contradiction.
  Qed.

  Lemma committed_inv : forall j r, committed k id j = Some r ->
    blocked k id j = true /\ ((exists rk g, j = IRcvChk r rk g) \/ (exists rk lk, j = IRcvEnq r rk lk)).
  Proof.
    intros j r H. destruct j; cbn [committed] in H; try discriminate.
    - destruct (blocked k id (IRcvChk r0 rk g)) eqn:Eb; [|discriminate]. inversion H. subst. split; [first [exact Eb|reflexivity]|left; eexists; eexists; reflexivity].
    - destruct (blocked k id (IRcvEnq r0 rk lk)) eqn:Eb; [|discriminate]. inversion H. subst. split; [first [exact Eb|reflexivity]|right; eexists; eexists; reflexivity].
  Qed.

  (* data of a blocked forward: it is a response frame of the reader of its own connection, aimed at K0 *)
  Lemma fwd_data : forall th code j r, In (th, code) (threads st) -> In j code -> committed k id j = Some r ->
    r_ft r = c_responseFrame /\ rcv_key r = K0 /\ th = TR (key_conn (r_own r)) /\ key_dir (r_own r) = 1 /\ is_wire (r_f r) = true /\
    (forall rk g, j = IRcvChk r rk g -> rk = K0) /\ (forall rk lk, j = IRcvEnq r rk lk -> rk = K0).
  Proof.
    intros th code j r Hin Hj Hc. destruct (committed_inv _ _ Hc) as [Hb Hform].
    pose proof (w_code _ HW _ _ _ Hin Hj) as Hw. pose proof (f_thr _ _ HF _ _ _ Hin Hj) as Hthr.
    assert (G : rcv_ok (seen st) r -> (r_d r =? k) && (f_id (r_f r) =? id) && is_wire (r_f r) = true ->
              r_ft r = c_responseFrame /\ rcv_key r = K0 /\ is_wire (r_f r) = true).
    { intros (A&_&_) Hbb. rewrite !andb_true_iff in Hbb. destruct Hbb as [[E1 E2] E3]. apply Z.eqb_eq in E1. apply Z.eqb_eq in E2.
      unfold is_wire in E3. destruct (kind_of (r_f r)) eqn:Ek; [|discriminate].
      rewrite (kind_of_response (r_f r)) in A by congruence.
      assert (Hft : r_ft r = c_responseFrame) by congruence.
      split; [exact Hft|]. split; [unfold rcv_key; rewrite Hft, E1, E2; reflexivity|]. unfold is_wire. rewrite Ek. reflexivity. }
    destruct Hform as [(rk&g&->)|(rk&lk&->)].
    - cbn in Hb. destruct g as [[it s]|]; [|discriminate]. cbn in Hw, Hthr. destruct Hthr as [Hrk Hth].
      rewrite !andb_true_iff in Hb. destruct Hb as [[Hb _] _]. rewrite <- !andb_true_iff in Hb.
      destruct (G Hw Hb) as (A&B&C). destruct (Hth A) as [D F]. repeat split; try assumption.
      + intros rk0 g0 Heq. inversion Heq. subst. congruence.
      + intros rk0 lk0 Heq. discriminate.
    - cbn in Hb. cbn in Hw, Hthr. destruct Hthr as [Hrk Hth].
      destruct (G Hw Hb) as (A&B&C). destruct (Hth A) as [D F]. repeat split; try assumption.
      + intros rk0 g0 Heq. discriminate.
      + intros rk0 lk0 Heq. inversion Heq. subst. congruence.
  Qed.


  Lemma lookup_of_in' : forall th code, In (th, code) (threads st') -> lookup tid_eqb th (threads st') = Some code.
  Proof. intros th code Hin. apply (in_lookup tid_eqb tid_eqb_ok); [apply (inv_threads_nd _ (a_inv _ _ HA'))|exact Hin]. Qed.

  (* --- a response frame is committed to be forwarded to (k, id) *)
  Lemma trans_fwd : forall th code j r it0 q x q', In (th, code) (threads st) -> In j code -> committed k id j = Some r -> nb k id st = 1 ->
    klookup K0 (items st) = Some it0 -> it_tomb it0 = false -> In (th, it_call it0) h ->
    r_own r = (it_dest it0, 1, it_remap it0) -> qout k id st = Some q -> kind_of (r_f r) = Some x -> wire_step q x = Some q' ->
    qarr arr (it_dest it0) (it_remap it0) = Some q' -> phase k id st' h' arr'.
  Proof.
    intros th code j r it0 q x q' Hin Hj Hcm Hnb Hl0 Hlive Hh Hown Hq Hk Hst Hqa.
    destruct (committed_inv _ _ Hcm) as [Hbj Hform].
    destruct (fwd_data _ _ _ _ Hin Hj Hcm) as (Hft&Hrk&Hth&Hdir&Hwire&HrkC&HrkE).
    pose proof (k0_seen _ Hl0) as Hseen.
    assert (Hnb1 : nb k id st <= 1) by lia.
    pose proof (in_lookup tid_eqb tid_eqb_ok _ _ _ (inv_threads_nd _ HI) Hin) as Elkth.
    assert (Hthd : th = TR (it_dest it0)) by (rewrite Hth, Hown; reflexivity).
    assert (Hqa' : qarr arr' (it_dest it0) (it_remap it0) = Some q').
    { rewrite (qarr_busy (it_dest it0) (it_remap it0) code); [exact Hqa|]. rewrite <- Hthd. exact Hin. }
    (* steps that do not execute j *)
    assert (Hstay : (forall th2 room i2 rest, l = LStep th2 room -> lookup tid_eqb th2 (threads st) = Some (i2 :: rest) ->
                       blocked k id i2 = false /\ (th2 = th -> In j rest)) -> phase k id st' h' arr').
    { intro Hq2.
      assert (Hquiet : forall th2 room i2 rest, l = LStep th2 room -> lookup tid_eqb th2 (threads st) = Some (i2 :: rest) ->
                (forall st1 pushed j0, exec cf st i2 room = (st1, pushed) -> In j0 pushed -> blocked k id j0 = false) /\
                klookup K0 (items st') = Some it0).
      { intros th2 room i2 rest Hl Elk. destruct (Hq2 _ _ _ _ Hl Elk) as [Hb2 Hrest].
        destruct (eqb_dec tid_eqb tid_eqb_ok th2 th) as [Heq|Hne]; [|eapply other_quiet; eassumption].
        subst th2. specialize (Hrest eq_refl). pose proof (lookup_in tid_eqb tid_eqb_ok _ _ _ Elk) as Hin2.
        assert (Hnq : quiet j = false) by (destruct Hform as [(rk&g&->)|(rk&lk&->)]; reflexivity).
        assert (Hnop : opener i2 = false).
        { destruct (opener i2) eqn:Eo; [|reflexivity]. destruct (shape_head _ _ (HS _ _ Hin2)) as (_&_&Hqq). specialize (Hqq Eo).
          rewrite forallb_forall in Hqq. rewrite (Hqq _ Hrest) in Hnq. discriminate. }
        split.
        - intros st1 pushed j0 E Hj0. destruct (shape_head _ _ (HS _ _ Hin2)) as (Hg&_&_).
          destruct (exec_shape _ _ _ _ _ _ E Hg) as [_ Hnil]. destruct (Hnil Hnop _ Hj0) as [kk ->]. reflexivity.
        - destruct (step_items_keep _ _ _ _ _ _ HI Hs Hl0 Hlive) as [Hk0|(th3&room3&rest3&i3&Hl3&Elk3&Hi3)]; [exact Hk0|]. exfalso.
          rewrite Hl in Hl3. inversion Hl3. subst th3 room3. rewrite Elk in Elk3. inversion Elk3. subst i3.
          destruct Hi3 as [[s Hi3]|[lk3 Hi3]]; subst i2; discriminate. }
      destruct (quiet_other Hseen) as [Hnb' Hw].
      { intros th2 room i2 rest Hl Elk. split; [apply (Hq2 _ _ _ _ Hl Elk)|apply (Hquiet _ _ _ _ Hl Elk)]. }
      assert (Hk0 : klookup K0 (items st') = Some it0).
      { destruct (lstep_or_not l) as [(th2&room&Hl)|Hn].
        - destruct (lstep_inv th2 room Hl) as (i2&rest&st1&pushed&Elk&_). apply (Hquiet _ _ _ _ Hl Elk).
        - destruct (step_items_keep _ _ _ _ _ _ HI Hs Hl0 Hlive) as [Hk0|(th3&room3&rest3&i3&Hl3&_)]; [exact Hk0|]. exfalso. eapply Hn. exact Hl3. }
      destruct (step_code_keep _ _ _ _ _ _ _ HI Hs Hin Hj) as [(code'&Hin'&Hj')|(room&rest&Hl&Hc)].
      - eapply (PhFwd k id st' h' arr' th code' j r it0 q x q'); try eassumption; [lia| |rewrite (qout_same k id _ _ Hw); exact Hq].
        eapply held_keep; [exact Hh|apply lookup_of_in'; exact Hin'].
      - exfalso. subst code. destruct (Hq2 _ _ _ _ Hl Elkth) as [Hb2 _]. congruence. }
    destruct (lstep_or_not l) as [(th2&room&Hl)|Hn]; [|apply Hstay; intros th2 room i2 rest Hl; exfalso; eapply Hn; exact Hl].
    destruct (lstep_inv th2 room Hl) as (i2&rest&st1&pushed&Elk&E&Hst').
    pose proof (lookup_in tid_eqb tid_eqb_ok _ _ _ Elk) as Hin2.
    destruct (blocked k id i2) eqn:Hb2.
    2:{ apply Hstay. intros th3 room3 i3 rest3 Hl3 Elk3. rewrite Hl in Hl3. inversion Hl3. subst th3 room3. rewrite Elk in Elk3. inversion Elk3. subst i3 rest3.
        split; [exact Hb2|]. intro Heq. subst th2. rewrite Elkth in Elk. inversion Elk. subst code.
        destruct Hj as [Hj|Hj]; [subst i2; congruence|exact Hj]. }
    (* the committed instruction itself is executed *)
    destruct (unique_blocked k id st _ _ _ _ _ _ (inv_threads_nd _ HI) Hnb1 Hin2 (or_introl eq_refl) Hb2 Hin Hj Hbj) as [Heq Hi2]. subst th2 i2.
    assert (Hitems : items st' = items st).
    { rewrite Hst'. cbn [set_thread set_threads items]. destruct Hform as [(rk&g&->)|(rk&lk&->)]; cbn [exec] in E.
      - destruct g as [[it s]|]; [|inversion E; reflexivity]. destruct (it_tomb it || (fin_of (r_f r) && negb s)); inversion E; reflexivity.
      - destruct room; inversion E; reflexivity. }
    assert (Hk0 : klookup K0 (items st') = Some it0) by (rewrite Hitems; exact Hl0).
    assert (Hself : forall code', lookup tid_eqb th (threads st') = Some code' -> In (th, it_call it0) h').
    { intros code' Hl'. eapply held_keep; eassumption. }
    assert (Hlk' : pushed ++ rest <> [] -> lookup tid_eqb th (threads st') = Some (pushed ++ rest)).
    { intro Hne. rewrite Hst', lookup_set_thread_self. destruct (pushed ++ rest); [contradiction|reflexivity]. }
    destruct Hform as [(rk&g&Hjeq)|(rk&lk&Hjeq)]; subst j.
    - (* IRcvChk -> IRcvEnq *)
      pose proof (HrkC _ _ eq_refl) as Hrk0. subst rk.
      cbn in Hbj. destruct g as [[it s]|]; [|discriminate]. apply andb_true_iff in Hbj. destruct Hbj as [Hbj Hb4].
      apply andb_true_iff in Hbj. destruct Hbj as [Hb1 Hb3]. apply negb_true_iff in Hb3.
      assert (Hchk : it_tomb it || (fin_of (r_f r) && negb s) = false).
      { rewrite Hb3. cbn. destruct (fin_of (r_f r)); [|reflexivity]. cbn in Hb4. rewrite Hb4. reflexivity. }
      pose proof E as E0. cbn [exec] in E0. rewrite Hchk in E0.
      match type of E0 with (_, ?cbs ++ [IRcvEnq r K0 ?lkk]) = _ => set (CBS := cbs) in *; set (LK := lkk) in * end.
      inversion E0. subst st1. clear E0.
      assert (Hbe : blocked k id (IRcvEnq r K0 LK) = true) by (cbn; exact Hb1).
      assert (Hin' : In (th, pushed ++ rest) (threads st')).
      { rewrite Hst'. apply in_set_thread_self. rewrite <- H1. destruct CBS; discriminate. }
      assert (Hje : In (IRcvEnq r K0 LK) (pushed ++ rest)) by (rewrite <- H1; apply in_or_app; left; apply in_or_app; right; left; reflexivity).
      assert (Hnb' : nb k id st' = 1).
      { rewrite Hst', (nb_LStep cf k id _ _ _ _ _ _ _ HI Elk E). pose proof (pushed_bl_count k id _ _ _ _ _ _ E).
        assert (In (IRcvEnq r K0 LK) pushed) by (rewrite <- H1; apply in_or_app; right; left; reflexivity).
        pose proof (csum_in_le k id _ _ H0). unfold bl in *. cbn [blocked] in *. rewrite Hb1 in *. cbn [b2z] in *.
        rewrite Hb3 in *. cbn [negb andb] in *. rewrite Hb4 in *. cbn [b2z] in *. lia. }
      assert (Hw : wout k id st' = wout k id st).
      { destruct (step_wout cf k id _ _ _ Hs) as [Hw|(th3&room3&i3&rest3&Hl3&Elk3&_&[(ec3&Hi3&_)|(r3&rk3&lk3&x3&Hi3&_)])]; [exact Hw| |];
          rewrite Hl in Hl3; inversion Hl3; subst th3; rewrite Elk in Elk3; inversion Elk3; subst i3; discriminate. }
      eapply (PhFwd k id st' h' arr' th (pushed ++ rest) (IRcvEnq r K0 LK) r it0 q x q'); try eassumption.
      + cbn [committed]. rewrite Hbe. reflexivity.
      + apply (Hself (pushed ++ rest)). apply lookup_of_in'. exact Hin'.
      + rewrite (qout_same k id _ _ Hw). exact Hq.
    - (* IRcvEnq: the frame is handed to the caller's connection, or the buffer is full *)
      pose proof (HrkE _ _ eq_refl) as Hrk0. subst rk.
      assert (Hmore : (0 <? r_more r) = false).
      { destruct (0 <? r_more r) eqn:Em; [|reflexivity]. apply Z.ltb_lt in Em.
        pose proof (w_code _ HW _ _ _ Hin Hj) as Hw. cbn in Hw. destruct Hw as (_&_&C). rewrite (C Em) in Hft. discriminate. }
      pose proof (kind_fin _ _ Hk) as Hfin.
      assert (Hqne : q <> WEnd) by (intro; subst q; rewrite wire_step_end in Hst; discriminate).
      destruct (shape_head _ _ (HS _ _ Hin2)) as (_&_&Hqrest). specialize (Hqrest eq_refl). rewrite forallb_forall in Hqrest.
      destruct room.
      + pose proof E as E0. cbn [exec] in E0. inversion E0. subst st1. clear E0.
        assert (Hw : wout k id st' = wout k id st ++ [x]).
        { destruct (step_wout cf k id _ _ _ Hs) as [Hw|(th3&room3&i3&rest3&Hl3&Elk3&_&[(ec3&Hi3&_)|(r3&rk3&lk3&x3&Hi3&_&Hk3&Hw)])].
          - exfalso. unfold wout in Hw. rewrite Hst' in Hw. cbn [set_thread set_threads sent set_sent] in Hw. rewrite wire_of_cons in Hw.
            cbn in Hbj. rewrite !andb_true_iff in Hbj. destruct Hbj as [[E1 E2] _]. rewrite E1, E2, Hk in Hw. cbn in Hw.
            apply (f_equal (@length _)) in Hw. rewrite app_length in Hw. cbn in Hw. lia.
          - rewrite Hl in Hl3. inversion Hl3. subst th3. rewrite Elk in Elk3. inversion Elk3. subst i3. discriminate.
          - rewrite Hl in Hl3. inversion Hl3. subst th3. rewrite Elk in Elk3. inversion Elk3. subst i3. congruence. }
        assert (Hq' : qout k id st' = Some q') by (rewrite (qout_snoc k id _ _ _ _ Hq Hw); exact Hst).
        assert (Hnb' : nb k id st' = 0).
        { rewrite Hst', (nb_LStep cf k id _ _ _ _ _ _ _ HI Elk E). unfold bl at 1. rewrite Hbj. rewrite <- H1, csum_app, csum_bl_after_sent.
          destruct (fin_of (r_f r)); cbn; lia. }
        unfold after_sent in H1. rewrite Hmore in H1. rewrite app_nil_r in H1.
        destruct (fin_of (r_f r)) eqn:Ef.
        * (* the terminal frame *)
          assert (q' = WEnd) by (apply (wire_step_terminal _ _ _ Hst); congruence). subst q'.
          cbn [app] in H1.
          assert (Hlk'' : lookup tid_eqb th (threads st') = Some (IDelete K0 lk :: IDelete (r_own r) (r_d r, f_id (r_f r)) :: rest)).
          { rewrite Hlk' by (rewrite <- H1; discriminate). rewrite <- H1. reflexivity. }
          eapply (PhWindow k id st' h' arr' it0 th lk (IDelete (r_own r) (r_d r, f_id (r_f r)) :: rest)); try eassumption. apply (Hself _ Hlk'').
        * (* a non-final frame: everything the destination sent so far has been forwarded *)
          assert (Hq'ne : q' <> WEnd).
          { intro Heq. subst q'. pose proof (proj2 (wire_step_terminal _ _ _ Hst) eq_refl). congruence. }
          cbn [app] in H1. subst pushed. cbn [app] in Hst'.
          eapply (PhLive k id st' h' arr' it0 q'); try eassumption. right. right. split.
          -- intros th0 code0 j0 y Hin0 Hj0 Hp. exfalso.
             pose proof (pre_thr _ _ _ _ _ Hp (f_thr _ _ (a_finv _ _ HA') _ _ _ Hin0 Hj0)) as Hth0. rewrite <- Hthd in Hth0. subst th0.
             rewrite Hst' in Hin0. apply set_thread_in in Hin0. destruct Hin0 as [[_ ->]|[Hne _]]; [|apply Hne; reflexivity].
             rewrite (quiet_pre _ _ _ (Hqrest _ Hj0)) in Hp. discriminate.
          -- intros _. exact Hqa'.
      + (* full buffer: the reader goes on to fail the item *)
        pose proof E as E0. cbn [exec] in E0. inversion E0. subst st1. clear E0.
        assert (Hw : wout k id st' = wout k id st).
        { destruct (step_wout cf k id _ _ _ Hs) as [Hw|(th3&room3&i3&rest3&Hl3&Elk3&_&[(ec3&Hi3&_)|(r3&rk3&lk3&x3&Hi3&Hroom&_)])]; [exact Hw| |].
          - rewrite Hl in Hl3. inversion Hl3. subst th3. rewrite Elk in Elk3. inversion Elk3. subst i3. discriminate.
          - rewrite Hl in Hl3. inversion Hl3. subst room3. discriminate. }
        assert (Hnb' : nb k id st' = 0).
        { rewrite Hst', (nb_LStep cf k id _ _ _ _ _ _ _ HI Elk E). unfold bl at 1. rewrite Hbj. rewrite <- H1. cbn. lia. }
        assert (Hlk'' : lookup tid_eqb th (threads st') = Some (pushed ++ rest)) by (apply Hlk'; rewrite <- H1; discriminate).
        eapply (PhLive k id st' h' arr' it0 q); try eassumption; [rewrite (qout_same k id _ _ Hw); exact Hq|].
        right. left. rewrite <- H1 in Hlk''. cbn [app after_unsent] in Hlk''.
        eexists th, _, _. split; [exact Hlk''|]. split; [eapply Hself; exact Hlk''|]. left. eexists. reflexivity.
  Qed.


  (* --- the originating item is live, nothing is committed *)
  Lemma trans_live : forall it0 q, klookup K0 (items st) = Some it0 -> it_tomb it0 = false -> nb k id st = 0 ->
    qout k id st = Some q -> q <> WEnd ->
    (dead st (it_dest it0) (it_remap it0) \/ doomed k id st h (it_call it0) \/ synced st arr q (it_dest it0) (it_remap it0)) ->
    phase k id st' h' arr'.
  Proof.
    intros it0 q Hl0 Hlive Hnb Hq Hqe Hsy.
    pose proof (k0_seen _ Hl0) as Hseen.
    pose proof (lookup_in key_eqb key_eqb_ok _ _ _ Hl0) as Hin0.
    pose proof (tp_alloc _ HP _ _ Hin0 eq_refl) as Hlt.
    set (d := it_dest it0) in *. set (did := it_remap it0) in *. set (c0 := it_call it0) in *.
    assert (Hnbl : forall th code j, In (th, code) (threads st) -> In j code -> blocked k id j = false).
    { intros. eapply (nb_zero_none k id st); eassumption. }
    (* the disjunction dead / doomed / synced after a step that changes neither K0 nor the log *)
    assert (Hsync' : klookup K0 (items st') = Some it0 ->
       (forall th2 room r rest, l = LStep th2 room -> lookup tid_eqb th2 (threads st) = Some (IRcvGet r :: rest) -> pre_kind d did (IRcvGet r) = None) ->
       (forall th2 room rest r0, l = LStep th2 room -> lookup tid_eqb th2 (threads st) = Some (IFailGet K0 r0 :: rest) -> In (th2, c0) h ->
          lookup tid_eqb th2 (threads st') = Some (IEntomb K0 (FromFail r0) :: rest)) ->
       dead st' d did \/ doomed k id st' h' c0 \/ synced st' arr' q d did).
    { intros Hk0 Hnoc Hfail. destruct Hsy as [Hd|[(th3&i3&R3&Elk3&Hh3&Hi3)|Hsyn]].
      - left. eapply dead_mono; eassumption.
      - right. left.
        destruct (lstep_or_not l) as [(th2&room&Hl)|Hn].
        + destruct (eqb_dec tid_eqb tid_eqb_ok th3 th2) as [->|Hne].
          * destruct Hi3 as [(r0&->)|(r0&->)].
            -- exists th2, (IEntomb K0 (FromFail r0)), R3. pose proof (Hfail _ _ _ _ Hl Elk3 Hh3) as Hl'.
               split; [exact Hl'|]. split; [eapply held_keep; eassumption|]. right. exists r0. reflexivity.
            -- exfalso. (* Entomb of the live K0 changes it *)
               destruct (lstep_inv th2 room Hl) as (i2&rest&st1&pushed&Elk&E&Hst'). rewrite Elk3 in Elk. inversion Elk. subst i2 rest.
               cbn [exec] in E. destruct (items_entomb cf st K0) as [st2 g] eqn:Ee.
               destruct (items_entomb_spec _ _ _ _ _ Ee) as (_&_&_&_&_&_&Hsp). rewrite Hl0 in Hsp.
               assert (Hit2 : items st1 = items st2) by (destruct g as [[it [|]]|]; inversion E; reflexivity).
               rewrite Hst' in Hk0. cbn [set_thread set_threads items] in Hk0. rewrite Hit2 in Hk0.
               destruct Hsp as [(_&Hi&_)|[(Ht&_)|(_&_&Hi&_)]].
               ++ rewrite Hi, (lookup_remove_eq key_eqb key_eqb_ok) in Hk0. discriminate.
               ++ congruence.
               ++ rewrite Hi, (lookup_insert_eq key_eqb key_eqb_ok) in Hk0. inversion Hk0 as [Heq]. apply (f_equal it_tomb) in Heq. cbn in Heq. congruence.
          * assert (Hl' : lookup tid_eqb th3 (threads st') = Some (i3 :: R3)).
            { eapply step_lookup_other; [exact Hs| |exact Elk3]. intros room3 Heq. rewrite Hl in Heq. inversion Heq. congruence. }
            exists th3, i3, R3. split; [exact Hl'|]. split; [eapply held_keep; eassumption|exact Hi3].
        + assert (Hl' : lookup tid_eqb th3 (threads st') = Some (i3 :: R3)).
          { eapply step_lookup_other; [exact Hs| |exact Elk3]. intros room3 Heq. eapply Hn. exact Heq. }
          exists th3, i3, R3. split; [exact Hl'|]. split; [eapply held_keep; eassumption|exact Hi3].
      - destruct (step_synced cf st h l st' arr q d did HA Hs Hlt Hok Hnoc (or_intror Hsyn)) as [Hd|Hsy']; [left; exact Hd|right; right; exact Hsy']. }
    destruct (lstep_or_not l) as [(th2&room&Hl)|Hn].
    2:{ destruct (quiet_other Hseen) as [Hnb' Hw]. { intros th2 room i2 rest Hl. exfalso. eapply Hn. exact Hl. }
        assert (Hk0 : klookup K0 (items st') = Some it0).
        { destruct (step_items_keep _ _ _ _ _ _ HI Hs Hl0 Hlive) as [Hk|(th3&room3&rest3&i3&Hl3&_)]; [exact Hk|]. exfalso. eapply Hn. exact Hl3. }
        eapply (PhLive k id st' h' arr' it0 q); try assumption; [lia|rewrite (qout_same k id _ _ Hw); exact Hq|].
        apply Hsync'; [exact Hk0| |]; intros th2 room; intros; exfalso; eapply Hn; eassumption. }
    destruct (lstep_inv th2 room Hl) as (i2&rest&st1&pushed&Elk&E&Hst').
    pose proof (lookup_in tid_eqb tid_eqb_ok _ _ _ Elk) as Hin2.
    pose proof (Hnbl _ _ _ Hin2 (or_introl eq_refl)) as Hb2.
    assert (Hw : wout k id st' = wout k id st).
    { destruct (step_wout cf k id _ _ _ Hs) as [Hw|(th3&room3&i3&rest3&Hl3&Elk3&Hb3&_)]; [exact Hw|].
      rewrite Hl in Hl3. inversion Hl3. subst th3. rewrite Elk in Elk3. inversion Elk3. subst i3. congruence. }
    assert (Hq' : qout k id st' = Some q) by (rewrite (qout_same k id _ _ Hw); exact Hq).
    assert (Hnb' : nb k id st' = csum (bl k id) pushed).
    { rewrite Hst', (nb_LStep cf k id _ _ _ _ _ _ _ HI Elk E). unfold bl at 1. rewrite Hb2. cbn. lia. }
    pose proof (pushed_bl_count k id _ _ _ _ _ _ E) as Hle.
    assert (Hlk' : pushed ++ rest <> [] -> lookup tid_eqb th2 (threads st') = Some (pushed ++ rest)).
    { intro Hne. rewrite Hst', lookup_set_thread_self. destruct (pushed ++ rest); [contradiction|reflexivity]. }
    assert (Htouch : forall c, In c (touches_i st i2) -> others_hold h th2 c = false).
    { intros c Hc. assert (Hhead : head_of st th2 = Some i2) by (unfold head_of; rewrite Elk; reflexivity).
      pose proof Hno as Hno2. rewrite Hl in Hno2. unfold no_overlap_step in Hno2. cbn [actor touches] in Hno2. rewrite Hhead in Hno2.
      rewrite forallb_forall in Hno2. apply negb_true_iff. apply Hno2. exact Hc. }
    destruct (step_items_keep _ _ _ _ _ _ HI Hs Hl0 Hlive) as [Hk0|(th3&room3&rest3&i3&Hl3&Elk3&Hi3)].
    - (* K0 is unchanged *)
      destruct (Z_lt_le_dec 0 (csum (bl k id) pushed)) as [Hpos|Hzero].
      + (* Receive looked K0 up: the frame is committed *)
        destruct (csum_pos_in k id _ Hpos) as (j&Hj&Hbj).
        destruct (new_blocked_touch _ _ _ _ _ _ _ Hl Elk E Hb2 Hj Hbj) as (it1&Hl1&_&Ht&[(r&s&Hi2&Hrk&Hjeq)|(s&ec&Hi2&_)]).
        2:{ exfalso. subst i2. cbn [exec] in E. destruct (items_entomb cf st K0) as [st2 g] eqn:Ee.
            destruct (items_entomb_spec _ _ _ _ _ Ee) as (_&_&_&_&_&_&Hsp). rewrite Hl0 in Hsp.
            assert (Hit2 : items st1 = items st2) by (destruct g as [[it [|]]|]; inversion E; reflexivity).
            rewrite Hst' in Hk0. cbn [set_thread set_threads items] in Hk0. rewrite Hit2 in Hk0.
            destruct Hsp as [(_&Hi&_)|[(Htt&_)|(_&_&Hi&_)]].
            - rewrite Hi, (lookup_remove_eq key_eqb key_eqb_ok) in Hk0. discriminate.
            - congruence.
            - rewrite Hi, (lookup_insert_eq key_eqb key_eqb_ok) in Hk0. inversion Hk0 as [Heq]. apply (f_equal it_tomb) in Heq. cbn in Heq. congruence. }
        rewrite Hl0 in Hl1. inversion Hl1. subst it1 i2 j.
        assert (Hcm : committed k id (IRcvChk r K0 (Some (it0, s))) = Some r) by (cbn [committed]; rewrite Hbj; reflexivity).
        cbn in Hbj. apply andb_true_iff in Hbj. destruct Hbj as [Hbj Hb4]. apply andb_true_iff in Hbj. destruct Hbj as [Hb1 _].
        apply andb_true_iff in Hb1. destruct Hb1 as [Hb1 Hwire]. unfold is_wire in Hwire. destruct (kind_of (r_f r)) as [x|] eqn:Hk; [|discriminate].
        pose proof (w_code _ HW _ _ _ Hin2 (or_introl eq_refl)) as Hwk. cbn in Hwk. destruct Hwk as (A&_&_).
        rewrite (kind_of_response (r_f r)) in A by congruence. assert (Hft : r_ft r = c_responseFrame) by congruence.
        assert (Hfl : flight (IRcvGet r) = Some (r_own r, r_d r, f_id (r_f r), r_call r)) by (cbn; rewrite Hft; reflexivity).
        destruct (f_own _ _ HF _ _ _ _ _ _ _ Hin2 (or_introl eq_refl) Hfl) as (it1&Hlo&Hlo_live&_&Hd1&Hr1).
        pose proof (f_thr _ _ HF _ _ _ Hin2 (or_introl eq_refl)) as Hthr. cbn in Hthr. destruct (Hthr Hft) as [Hth2 Hdir].
        apply andb_true_iff in Hb1. destruct Hb1 as [E1 E2]. apply Z.eqb_eq in E1. apply Z.eqb_eq in E2.
        pose proof (lookup_in key_eqb key_eqb_ok _ _ _ Hlo) as Hino.
        destruct (tp2 _ HP _ _ it0 Hino Hdir) as [Hd0 Hr0]. { rewrite Hd1, Hr1, E1, E2. exact Hl0. }
        assert (Hown : r_own r = (d, 1, did)). { rewrite (key_eta (r_own r)), Hdir. unfold d, did. rewrite Hd0, Hr0. reflexivity. }
        assert (Hh2 : In (th2, c0) h').
        { apply (held_next_self _ _ _ _ _ _ (pushed ++ rest)); [rewrite Hl; reflexivity|apply Hlk'; intro Hnil; apply app_eq_nil in Hnil; destruct Hnil as [-> _]; contradiction|].
          right. unfold acquires, touches. rewrite Hl. unfold head_of. rewrite Elk. apply in_or_app. left. exact Ht. }
        (* legality from the synchronisation *)
        assert (Hleg : qarr arr d did = wire_step q x).
        { destruct Hsy as [Hd|[(th3&i3&R3&Elk3&Hh3&Hi3)|[Hsa _]]].
          - exfalso. rewrite Hown in Hlo. rewrite (Hd _ Hlo) in Hlo_live. discriminate.
          - exfalso. assert (th3 = th2) by (eapply others_hold_false; [apply Htouch; exact Ht|exact Hh3]). subst th3.
            rewrite Elk in Elk3. inversion Elk3. subst i3. destruct Hi3 as [(r0&Hx)|(r0&Hx)]; discriminate.
          - eapply (Hsa th2 _ (IRcvGet r) x Hin2 (or_introl eq_refl)). cbn. rewrite Hown, (proj2 (key_eqb_ok _ _) eq_refl), Hft. cbn. exact Hk. }
        assert (Harr'eq : arr' = arr) by (eapply arr'_lstep; exact Hl).
        destruct (Hok d did) as [q' Hq'a]. fold arr' in Hq'a. rewrite Harr'eq in Hq'a.
        eapply (PhFwd k id st' h' arr' th2 (pushed ++ rest) (IRcvChk r K0 (Some (it0, s))) r it0 q x q'); try eassumption.
        * rewrite Hst'. apply in_set_thread_self. intro Hnil. apply app_eq_nil in Hnil. destruct Hnil as [-> _]. contradiction.
        * apply in_or_app. left. exact Hj.
        * lia.
        * congruence.
        * rewrite Harr'eq. exact Hq'a.
      + (* nothing committed: still live *)
        assert (Hnb0 : nb k id st' = 0) by (pose proof (csum_bl_nonneg k id pushed); lia).
        eapply (PhLive k id st' h' arr' it0 q); try assumption.
        apply Hsync'; [exact Hk0| |].
        * intros th3 room3 r rest3 Hl3 Elk3. rewrite Hl in Hl3. inversion Hl3. subst th3 room3. rewrite Elk in Elk3. inversion Elk3. subst i2 rest3.
          destruct (pre_kind d did (IRcvGet r)) as [x|] eqn:Ep; [|reflexivity]. exfalso.
          cbn in Ep. destruct (key_eqb (r_own r) (d, 1, did) && (r_ft r =? c_responseFrame)) eqn:Eb; [|discriminate].
          apply andb_true_iff in Eb. destruct Eb as [Eo Eft]. apply key_eqb_ok in Eo. apply Z.eqb_eq in Eft.
          assert (Hfl : flight (IRcvGet r) = Some (r_own r, r_d r, f_id (r_f r), r_call r)) by (cbn; rewrite Eft; reflexivity).
          destruct (f_own _ _ HF _ _ _ _ _ _ _ Hin2 (or_introl eq_refl) Hfl) as (it1&Hlo&Hlo_live&_&Hd1&Hr1).
          rewrite Eo in Hlo. destruct (tp3 _ HP _ _ it1 Hin0 eq_refl Hlo) as [Hdk Hrk].
          cbn [key_conn key_id fst snd] in Hdk, Hrk.
          assert (Hrkey : rcv_key r = K0). { unfold rcv_key. rewrite Eft, <- Hd1, <- Hr1, Hdk, Hrk. reflexivity. }
          (* the Get returns the live K0 and the frame is committed *)
          cbn [exec] in E. fold (rcv_key r) in E. rewrite Hrkey in E.
          destruct (items_get st K0 (fin_of (r_f r))) as [st2 g] eqn:Eg. inversion E. subst st1 pushed. clear E.
          destruct (items_get_spec _ _ _ _ _ Eg) as [_ Hm]. rewrite Hl0 in Hm. destruct Hm as [b ->].
          assert (Hcommit : negb (fin_of (r_f r)) || b = true).
          { destruct (fin_of (r_f r)) eqn:Ef; [|reflexivity]. cbn. destruct b; [reflexivity|]. exfalso.
            eapply (get_wins st h th2 (IRcvGet r) rest K0); try eassumption; [reflexivity|].
            intros c Hc. apply Htouch. cbn [touches_i gets_i]. rewrite Hrkey. exact Hc. }
          cbn [csum] in Hzero. unfold bl in Hzero. cbn [blocked] in Hzero.
          rewrite <- Hd1, Hdk, <- Hr1, Hrk, !Z.eqb_refl, Hlive, Hcommit in Hzero. unfold is_wire in Hzero. rewrite Ep in Hzero. cbn in Hzero. lia.
        * intros th3 room3 rest3 r0 Hl3 Elk3 Hh3. rewrite Hl in Hl3. inversion Hl3. subst th3 room3. rewrite Elk in Elk3. inversion Elk3. subst i2 rest3.
          cbn [exec] in E. destruct (items_get st K0 true) as [st2 g] eqn:Eg.
          destruct (items_get_spec _ _ _ _ _ Eg) as [_ Hm]. rewrite Hl0 in Hm. destruct Hm as [b ->].
          destruct b.
          -- inversion E. subst st1 pushed. rewrite Hlk' by discriminate. reflexivity.
          -- exfalso. eapply (get_wins2 st h th2 (IFailGet K0 r0) rest K0); try eassumption; reflexivity.
    - (* K0 is entombed or deleted by this step *)
      rewrite Hl in Hl3. inversion Hl3. subst th3 room3. rewrite Elk in Elk3. inversion Elk3. subst i3 rest3.
      assert (Hnl' : k0_notlive k id st').
      { intros it Hx. rewrite Hst' in Hx. cbn [set_thread set_threads items] in Hx.
        destruct Hi3 as [[s Hi3]|[lk3 Hi3]]; subst i2; cbn [exec] in E.
        - destruct (items_entomb cf st K0) as [st2 g] eqn:Ee.
          destruct (items_entomb_spec _ _ _ _ _ Ee) as (_&_&_&_&_&_&Hsp). rewrite Hl0 in Hsp.
          assert (Hit2 : items st1 = items st2) by (destruct g as [[it1 [|]]|]; inversion E; reflexivity). rewrite Hit2 in Hx.
          destruct Hsp as [(_&Hi&_)|[(Htt&_)|(_&_&Hi&_)]].
          + rewrite Hi, (lookup_remove_eq key_eqb key_eqb_ok) in Hx. discriminate.
          + congruence.
          + rewrite Hi, (lookup_insert_eq key_eqb key_eqb_ok) in Hx. inversion Hx. reflexivity.
        - rewrite (LInv_delete_is_delete st th2 K0 lk3 rest (a_linv _ _ HA) Elk) in E.
          destruct (items_delete st K0) as [st2 g] eqn:Ed.
          destruct (items_delete_spec _ _ _ _ Ed) as (_&_&_&_&_&_&_&Hsp). rewrite Hl0 in Hsp. destruct Hsp as [_ Hi].
          assert (Hit2 : items st1 = items st2) by (destruct g as [[it1 [|]]|]; inversion E; reflexivity). rewrite Hit2 in Hx.
          rewrite Hi, (lookup_remove_eq key_eqb key_eqb_ok) in Hx. discriminate. }
      destruct (Z_lt_le_dec 0 (csum (bl k id) pushed)) as [Hpos|Hzero].
      + destruct (csum_pos_in k id _ Hpos) as (j&Hj&Hbj).
        destruct (new_blocked_touch _ _ _ _ _ _ _ Hl Elk E Hb2 Hj Hbj) as (it1&_&_&_&[(r&s&Hi2&_)|(s&ec&Hi2&Hjeq)]).
        * exfalso. destruct Hi3 as [[s3 Hi3]|[lk4 Hi3]]; congruence.
        * subst j. eapply (PhErr k id st' h' arr' th2 (pushed ++ rest) ec q); try eassumption; [|apply in_or_app; left; exact Hj|lia].
          rewrite Hst'. apply in_set_thread_self. intro Hnil. apply app_eq_nil in Hnil. destruct Hnil as [-> _]. contradiction.
      + assert (Hnb0 : nb k id st' = 0) by (pose proof (csum_bl_nonneg k id pushed); lia).
        apply PhSettled; [apply settled_of; [apply seen_mono; exact Hseen|exact Hnl'|exact Hnb0]|]. exists q. exact Hq'.
  Qed.

  (* --- unseen *)
  Lemma trans_unseen : ~ In (k, id) (seen st) -> phase k id st' h' arr'.
  Proof.
    intro Hu. destruct (step_seen cf _ _ _ Hs) as [Hsame|(k0&f&e&Hl&Hsn&Hmt)].
    - apply PhUnseen. rewrite Hsame. exact Hu.
    - destruct (Z.eq_dec k0 k) as [->|Hnk]; [destruct (Z.eq_dec (f_id f) id) as [Hid|Hnid]|].
      + (* the request is read *)
        pose proof Hs as H0. rewrite Hl in H0. unfold step in H0. destruct (negb (panicked st =? 0)); [discriminate|].
        destruct (lookup tid_eqb (TR k) (threads st)) eqn:Eidle; [discriminate|].
        destruct (relayRoute (f_mt f) (cf_cancel cf) =? 1) eqn:Er; [|inversion H0; subst st'; rewrite Hsn in Hu; exfalso; apply (f_equal (@length _)) in Hsn; cbn in Hsn; lia].
        rewrite Hmt in H0.
        assert (Hst' : st' = set_thread (set_seen st ((k, f_id f) :: seen st)) (TR k) [IStart k f e]) by (inversion H0; reflexivity). clear H0.
        apply (PhAdm k id st' h' arr' (TR k) [IStart k f e] (IStart k f e) f).
        * rewrite Hst'. apply in_set_thread_self. discriminate.
        * left. reflexivity.
        * reflexivity.
        * exact Hid.
        * rewrite (nb_other cf k id _ _ _ HI Hs) by (intros; subst l; discriminate). rewrite Hl, Er, Hmt. cbn [andb].
          rewrite (none_nb_zero k id st) by (intros; eapply unseen_unblocked; eassumption).
          unfold bl. cbn. rewrite Z.eqb_refl, Hid, Z.eqb_refl. reflexivity.
        * destruct (step_wout cf k id _ _ _ Hs) as [Hw|(th&room&_&_&Hl2&_)]; [|rewrite Hl in Hl2; discriminate].
          rewrite Hw. apply unseen_wout; assumption.
        * intros; discriminate.
      + apply PhUnseen. rewrite Hsn. intros [Hx|Hx]; [inversion Hx; contradiction|contradiction].
      + apply PhUnseen. rewrite Hsn. intros [Hx|Hx]; [inversion Hx; contradiction|contradiction].
  Qed.

  (* --- settled *)
  Lemma trans_settled : settled st k id -> (exists q, qout k id st = Some q) -> phase k id st' h' arr'.
  Proof.
    intros Hset [q Hq]. destruct (step_settled _ _ _ _ _ _ HI HW Hfresh Hset Hs) as [Hset' Hw].
    apply PhSettled; [exact Hset'|]. exists q. unfold qout, wout in *. rewrite Hw. exact Hq.
  Qed.
  Theorem phase_step : phase k id st h arr -> phase k id st' h' arr'.
  Proof.
    intros [Hu|Hset Hq|th code i f H1 H2 H3 H4 H5 H6 H7|th code ec q H1 H2 H3 H4 H5 H6|it0 q H1 H2 H3 H4 H5 H6|th code j r it0 q x q' H1 H2 H3 H4 H5 H6 H7 H8 H9 H10 H11 H12|it0 th R H1 H2 H3 H4 H5 H6].
    - apply trans_unseen. exact Hu.
    - apply trans_settled; assumption.
    - eapply trans_adm; eassumption.
    - eapply trans_err; eassumption.
    - eapply trans_live; eassumption.
    - eapply trans_fwd; eassumption.
    - eapply trans_window; eassumption.
  Qed.

  Lemma arr_inv_step : forall d f, In (d, f) arr' -> kind_of f <> None -> f_id f < c_nextid (getc (conns st') d).
  Proof.
    intros d f Hin Hk. pose proof (step_nextid_mono cf _ _ _ d Hs) as Hm.
    assert (Hold : In (d, f) arr -> f_id f < c_nextid (getc (conns st') d)) by (intro Hi; pose proof (Harr _ _ Hi Hk); lia).
    unfold arr' in Hin. pose proof Hcau as Hc. destruct l as [d0 f0 e0| | | | | |]; cbn [arr_step] in Hin; try (apply Hold; exact Hin).
    destruct Hin as [Heq|Hin]; [|apply Hold; exact Hin]. inversion Heq. subst d0 f0. cbn [causal_step] in Hc.
    destruct (kind_of f); [|contradiction Hk; reflexivity]. apply Z.ltb_lt in Hc. rewrite get_conn_getc in Hc. lia.
  Qed.
End Trans.

(* ---------------------------------------------------------------- the theorem *)

Theorem relay_grammar_calm_q : forall cf ls st k id, run_fresh cf init ls = Some st ->
  no_overlap cf ls -> causal cf ls -> dest_ok ls -> exists q, wire_run W0 (wire_of k id (sent st)) = Some q.
Proof.
  intros cf ls st k id Hrun Hno Hca Hde. unfold no_overlap in Hno. unfold causal in Hca. unfold dest_ok in Hde.
  assert (G : forall ls st0 h arr, AllInv st0 h -> phase k id st0 h arr ->
            (forall d f, In (d, f) arr -> kind_of f <> None -> f_id f < c_nextid (getc (conns st0) d)) ->
            run_fresh cf st0 ls = Some st -> sched cf no_overlap_step st0 h ls = true -> causal_run cf st0 ls = true ->
            (forall d did, wire_prefix_ok (wire_of d did (arr_run arr ls)) = true) -> exists q, qout k id st = Some q).
  { clear. induction ls as [|l r IH]; intros st0 h arr HA Hph Harr Hrun Hno Hca Hde; cbn in Hrun.
    - inversion Hrun. subst. eapply phase_q; [apply (a_winv _ _ HA)|exact Hph].
    - destruct (fresh_label st0 l) eqn:Ef; [|discriminate]. destruct (step cf st0 l) as [st1|] eqn:Es; [|discriminate].
      cbn in Hno, Hca. rewrite Es in Hno, Hca. apply andb_true_iff in Hno. destruct Hno as [Hno1 Hno2]. apply andb_true_iff in Hca. destruct Hca as [Hca1 Hca2].
      assert (Hok : arr_ok (arr_step arr l)) by (eapply dest_ok_arr_ok; exact Hde).
      eapply (IH st1 (held_next st0 l st1 h) (arr_step arr l)).
      + eapply step_all; eassumption.
      + eapply phase_step; eassumption.
      + eapply arr_inv_step; eassumption.
      + exact Hrun.
      + exact Hno2.
      + exact Hca2.
      + exact Hde. }
  eapply (G ls init [] []); try eassumption.
  - apply AllInv_init.
  - apply PhUnseen. intros [].
  - intros d f [].
Qed.

(* C10 for the relay: for every fresh-id schedule without overlap, with destinations that send a
   prefix of an accepted word per message id and do not answer ids the relay has not allocated,
   the frames enqueued towards the caller for a request are a prefix of an accepted word, with
   at most one terminal frame and nothing after it *)
Theorem relay_grammar_calm : forall cf ls st k id, run_fresh cf init ls = Some st ->
  no_overlap cf ls -> causal cf ls -> dest_ok ls ->
  wire_prefix_ok (wire_of k id (sent st)) = true /\
  (forall l1 x l2, wire_of k id (sent st) = l1 ++ x :: l2 -> terminal x = true -> l2 = []) /\
  (length (filter terminal (wire_of k id (sent st))) <= 1)%nat.
Proof.
  intros cf ls st k id Hrun Hno Hca Hde.
  assert (Hp : wire_prefix_ok (wire_of k id (sent st)) = true).
  { apply wire_prefix_ok_run. eapply relay_grammar_calm_q; eassumption. }
  split; [exact Hp|]. split.
  - intros l1 x l2 Heq Ht. rewrite Heq in Hp. eapply prefix_ok_terminal_last; eassumption.
  - apply prefix_ok_one_terminal. exact Hp.
Qed.

(* non-vacuity: the complete relayed call of RelaySilentP satisfies all three hypotheses; the
   run refuting the grammar (response frame after the timeout error frame) has an overlap *)
Example calm_example_hyps : no_overlap wit_cf calm_example /\ causal wit_cf calm_example /\ dest_ok calm_example.
Proof.
  split; [vm_compute; reflexivity|]. split; [vm_compute; reflexivity|].
  intros d did. set (a := arr_run [] calm_example). vm_compute in a. subst a.
  rewrite !wire_of_cons. cbn [wire_of app f_id].
  destruct ((1 =? d) && (1 =? did)); destruct ((0 =? d) && (7 =? did)); reflexivity.
Qed.

Example wit_wire_overlap : sched wit_cf no_overlap_step init [] wit_wire = false.
Proof. vm_compute. reflexivity. Qed.
