(* C19: one iteration of the health-check loop and of the idle sweep's closing loop, as go2v
   regenerates them from health.go / idle_sweep.go on every run (Gen/GenHealthLoop.v), are the
   ones of the hand models (Model/Health.v health_iter, Model/IdleSweepFine.v fstep).

   healthIterBody has the logging configuration as a PARAMETER (debugEnabled =
   c.log.Enabled(LogLevelDebug)): the tie is proved for both values, so a statement of the
   decision that moves under a logging guard breaks it for the value the guard excludes.
   sweepLoopBody evaluates its three tests at the instants of the schedule points that precede
   them: the tie is with the model's poller taking its actions on the states of those instants,
   in the model's order, so reordering, dropping or moving a test breaks it. *)
From Coq Require Import ZArith List Bool Lia ZifyBool.
From Verif Require Import Base.Wrap Base.Wire Gen.GenConsts Gen.GenRetry Gen.GenHealthIdle Gen.GenHealthLoop
  Spec.IdleHealthSpec Model.Health Model.Idle Model.IdleHealthSys Model.IdleSweepFine Proofs.HealthP.
Import ListNotations.
Local Open Scope Z_scope.

(* ---- the health-check loop ------------------------------------------------------------------ *)

(* what the generated iteration (counter', how it ends, value added to the history) means for the
   loop state of Model/Health.v: how = 0 the loop goes on, 1 return, 2 close + return *)
Definition iter_of_gen (l : hloop) (r : Z * Z * bool) : hloop * bool :=
  let '(cf, how, added) := r in
  ({| hl_fails := cf; hl_hist := hh_add (hl_hist l) added; hl_running := (how =? 0) |}, how =? 2).

Lemma gen_health_iter : forall F err inv dbg l,
  - 2 ^ 63 <= hl_fails l + 1 < 2 ^ 63 ->
  iter_of_gen l (healthIterBody (hl_fails l) err inv F dbg) = health_iter F (classify err inv) l.
Proof.
  intros F err inv dbg l Hr.
  unfold healthIterBody, classify, health_iter, iter_of_gen.
  rewrite (wrapS_id 64 (hl_fails l + 1)) by (try exact Hr; lia).
  destruct (e_nil err).
  - destruct dbg; reflexivity.
  - destruct ((GetSystemErrorCode err =? c_ErrCodeCancelled) || inv).
    + reflexivity.
    + destruct (hl_fails l + 1 >=? F); reflexivity.
Qed.

(* the statement's three clauses read off the generated iteration, for EVERY logging
   configuration: a success resets the count and goes on; a failure adds one; the connection is
   closed iff the outcome is a failure and the new count has reached FailuresToClose *)
Lemma gen_health_decision : forall F err inv dbg cf,
  - 2 ^ 63 <= cf + 1 < 2 ^ 63 ->
  let '(cf', how, added) := healthIterBody cf err inv F dbg in
  added = e_nil err /\
  (classify err inv = POk -> cf' = 0 /\ how = 0) /\
  (classify err inv = PStop -> cf' = cf /\ how = 1) /\
  (classify err inv = PFail -> cf' = cf + 1 /\ how = (if cf + 1 >=? F then 2 else 0)) /\
  (how = 2 <-> classify err inv = PFail /\ cf + 1 >= F).
Proof.
  intros F err inv dbg cf Hr.
  unfold healthIterBody, classify.
  rewrite (wrapS_id 64 (cf + 1)) by (try exact Hr; lia).
  destruct (e_nil err).
  - destruct dbg; cbv beta iota zeta; (split; [reflexivity|]); (split; [intros _; split; reflexivity|]);
      (split; [discriminate|]); (split; [discriminate|]); (split; [discriminate|intros [H _]; discriminate]).
  - destruct ((GetSystemErrorCode err =? c_ErrCodeCancelled) || inv); cbv beta iota zeta.
    + split; [reflexivity|]. split; [discriminate|]. split; [intros _; split; reflexivity|].
      split; [discriminate|]. split; [discriminate|intros [H _]; discriminate].
    + destruct (cf + 1 >=? F) eqn:E; cbv beta iota zeta;
        (split; [reflexivity|]); (split; [discriminate|]); (split; [discriminate|]).
      * split; [intros _; split; reflexivity|]. split; [intros _; split; [reflexivity|lia]|reflexivity].
      * split; [intros _; split; reflexivity|]. split; [discriminate|intros [_ H]; lia].
Qed.

(* the configuration is irrelevant *)
Lemma gen_health_config_independent : forall F err inv cf d1 d2,
  healthIterBody cf err inv F d1 = healthIterBody cf err inv F d2.
Proof.
  intros F err inv cf d1 d2. unfold healthIterBody.
  destruct (e_nil err); [destruct d1, d2; reflexivity|reflexivity].
Qed.

(* the loop of Model/Health.v with the generated iteration in place of the hand-written one *)
Fixpoint gen_health_loop (F : Z) (dbg : nat -> bool) (errs : list (goerr * bool)) (i : nat) (l : hloop) : hloop * option nat :=
  match errs with
  | [] => (l, None)
  | (err, inv) :: r =>
      if hl_running l then
        let '(l', closed) := iter_of_gen l (healthIterBody (hl_fails l) err inv F (dbg i)) in
        if closed then (l', Some i) else gen_health_loop F dbg r (S i) l'
      else (l, None)
  end.

Lemma health_iter_fails_bound F o l : 0 <= hl_fails l -> 0 <= hl_fails (fst (health_iter F o l)) <= hl_fails l + 1.
Proof. intros H. unfold health_iter. destruct o; cbn [fst hl_fails]; try lia. destruct (hl_fails l + 1 >=? F); cbn [fst hl_fails]; lia. Qed.

Lemma gen_health_loop_eq F dbg : forall errs i l,
  0 <= hl_fails l -> hl_fails l + Z.of_nat (length errs) < 2 ^ 63 ->
  gen_health_loop F dbg errs i l = health_loop F (map (fun ei => classify (fst ei) (snd ei)) errs) i l.
Proof.
  induction errs as [|[err inv] r IH]; intros i l H0 Hb; [reflexivity|].
  cbn [gen_health_loop health_loop map fst snd length] in *.
  destruct (hl_running l); [|reflexivity].
  rewrite gen_health_iter by lia.
  pose proof (health_iter_fails_bound F (classify err inv) l H0) as Hf.
  destruct (health_iter F (classify err inv) l) as [l' closed]. cbn [fst] in Hf.
  destruct closed; [reflexivity|]. apply IH; lia.
Qed.

(* C19_health for the loop that iterates the GENERATED body, under every logging configuration
   (dbg i = what c.log.Enabled(LogLevelDebug) returns in iteration i) *)
Definition outcomes_of (errs : list (goerr * bool)) : list outcome :=
  map (fun ei => classify (fst ei) (snd ei)) errs.

Theorem gen_health_loop_closes_iff : forall F dbg errs i,
  1 <= F -> Z.of_nat (length errs) < 2 ^ 63 ->
  snd (gen_health_loop F dbg errs 0 hl_init) = Some i <-> health_closes_at (Z.to_nat F) (outcomes_of errs) i.
Proof.
  intros F dbg errs i HF Hlen. unfold outcomes_of.
  rewrite gen_health_loop_eq by (cbn [hl_init hl_fails]; lia).
  apply health_loop_closes_iff. exact HF.
Qed.

(* ---- the closing loop of the idle sweep ------------------------------------------------------- *)

(* one action of the poller on channel state s while it is busy with a connection (program
   counters SInb .. SRecheck); any other program counter stays *)
Definition poller_test (cf : config) (s : chan) (p : spc) : spc :=
  match p with
  | SInb _ _ _ | SOutb _ _ _ | SRelay _ _ _ | SRecheck _ _ _ =>
      match fstep true cf {| f_ch := s; f_pc := p |} FStep with Some st => f_pc st | None => p end
  | _ => p
  end.

(* the poller's program counter after the tests of the closing loop on the head candidate:
   IsActive on s1, the three counter reads of hasPendingCalls on s2, the re-check on s3 *)
Definition poller_after_tests (cf : config) (now id : Z) (rest : list Z) (s1 s2 s3 : chan) : spc :=
  let p1 := match fstep true cf {| f_ch := s1; f_pc := SLoop2 now (id :: rest) |} FStep with
            | Some st => f_pc st | None => SIdle end in
  let p4 := poller_test cf s2 (poller_test cf s2 (poller_test cf s2 p1)) in
  poller_test cf s3 p4.

Definition conn_at_instant (c1 c2 c3 : conn) (t : Z) : conn :=
  if t =? 1 then c1 else if t =? 2 then c2 else c3.

Lemma gen_sweep_loop : forall cf now id rest s1 s2 s3 c1 c2 c3,
  lookup id (ch_conns s1) = Some c1 -> lookup id (ch_conns s2) = Some c2 -> lookup id (ch_conns s3) = Some c3 ->
  let at_ := conn_at_instant c1 c2 c3 in
  let body := sweepLoopBody
    (fun t => connIsActive (k_state (at_ t)))
    (fun t => hasPendingCalls (k_inb (at_ t)) (k_outb (at_ t)) (relayCanClose (relay_is_nil (at_ t)) (relay_pending (at_ t))))
    (fun t => fine_idle now (cf_max_idle cf) (at_ t)) in
  let p := poller_after_tests cf now id rest s1 s2 s3 in
  (body = 4 /\ p = SClose now id rest) \/ (body = 0 /\ p = SLoop2 now rest).
Proof.
  intros cf now id rest s1 s2 s3 c1 c2 c3 L1 L2 L3.
  unfold sweepLoopBody, poller_after_tests, conn_at_instant, hasPendingCalls.
  cbn [fstep f_pc f_ch Z.eqb Pos.eqb Z.add Pos.add Pos.succ]. rewrite L1.
  destruct (connIsActive (k_state c1)), (k_inb c2 >? 0) eqn:E1, (k_outb c2 >? 0) eqn:E2,
    (relayCanClose (relay_is_nil c2) (relay_pending c2)) eqn:Er, (fine_idle now (cf_max_idle cf) c3) eqn:Ei;
    repeat (cbn [poller_test fstep f_pc f_ch negb orb andb]; rewrite ?L2, ?L3, ?E1, ?E2, ?Er, ?Ei);
    (left; split; reflexivity) || (right; split; reflexivity).
Qed.

(* closing means: Active at the instant of idle.sweep.check, no pending call at the instant of
   idle.sweep.pending, idle against the sweep's clock value at the instant of idle.sweep.recheck *)
Lemma gen_sweep_loop_closes : forall act pend idle,
  sweepLoopBody act pend idle <> 0 <->
  act 1 = true /\ pend 2 = false /\ idle 3 = true.
Proof.
  intros act pend idle. unfold sweepLoopBody. cbn [Z.add Pos.add Pos.succ].
  destruct (act 1), (pend 2), (idle 3); cbn [negb]; split; intros H; try (exfalso; apply H; reflexivity);
    try (destruct H as (H1 & H2 & H3); discriminate); try discriminate; auto.
Qed.

(* ---- the activity stamps ------------------------------------------------------------------------ *)
From Verif Require Import Gen.GenFrame.

(* updateLastActivityRead / Write as generated are the stamp updates of Model/Idle.v *)
Lemma gen_stamps : forall now mt c,
  k_lr (update_read now mt c) = stampOnRead mt (unix_nano now) (k_lr c) /\
  k_lw (update_read now mt c) = k_lw c /\
  k_lw (update_write now mt c) = stampOnWrite mt (unix_nano now) (k_lw c) /\
  k_lr (update_write now mt c) = k_lr c.
Proof.
  intros now mt c. unfold update_read, update_write, stampOnRead, stampOnWrite.
  destruct (isMessageTypeCall mt); cbn [set_stamps k_lr k_lw]; repeat split; reflexivity.
Qed.

(* ... and they are applied to EVERY frame: a frame taken off the send channel is stamped before
   it is written, whatever the logger answers and whether or not the write succeeds; a frame whose
   body was read is stamped before it is handed to a handler (and nothing is handled otherwise) *)
Lemma gen_stamp_sites : forall dbg ok,
  fst (writeFrameTaken dbg ok) = 1 /\ snd (writeFrameTaken dbg ok) = (if ok then 0 else 1) /\
  readFrameBody true = 1 /\ readFrameBody false = -1.
Proof. intros dbg ok. destruct dbg, ok; repeat split; reflexivity. Qed.
