(* Proofs about Model/Mex.v (property C04). *)
From Coq Require Import ZArith List Bool Lia ZifyBool Arith.
From Verif Require Import Base.Wrap Base.Wire Gen.GenConsts Gen.GenMex Spec.Demux Model.Mex.
Import ListNotations.
Local Open Scope Z_scope.

(* ------------------------------------------------------------------ prefix / subseq *)
Lemma prefix_refl {A} (l : list A) : prefix l l.
Proof. exists []. now rewrite app_nil_r. Qed.

Lemma prefix_trans {A} (a b c : list A) : prefix a b -> prefix b c -> prefix a c.
Proof. intros [r1 H1] [r2 H2]. exists (r1 ++ r2). subst. now rewrite app_assoc. Qed.

Lemma prefix_app_r {A} (a b x : list A) : prefix a b -> prefix a (b ++ x).
Proof. intros [r H]. exists (r ++ x). subst. now rewrite app_assoc. Qed.

Lemma subseq_refl {A} (l : list A) : subseq l l.
Proof. induction l as [|x l IH]; constructor; exact IH. Qed.

Lemma subseq_app_r {A} (a b x : list A) : subseq a b -> subseq a (b ++ x).
Proof. intros H; induction H; cbn; constructor; assumption. Qed.

Lemma prefix_subseq {A} (a b : list A) : prefix a b -> subseq a b.
Proof. intros [r H]. subst. induction a as [|x a IH]; cbn; constructor; exact IH. Qed.

Lemma prefix_length_eq {A} (a b : list A) : prefix a b -> length a = length b -> a = b.
Proof.
  intros [r H] Hl. subst. rewrite app_length in Hl.
  destruct r as [|x r]; [now rewrite app_nil_r|]. cbn in Hl. lia.
Qed.

(* ------------------------------------------------------------------ C04_shuffle *)
Definition has_id (i : Z) (f : frame) : bool := f_id f =? i.

Lemma filter_all_nil {A} (p : A -> bool) (ls : list (list A)) :
  Forall (fun l => l = []) ls -> Forall (fun l => filter p l = []) ls.
Proof. intros H. induction H as [|l ls Hl _ IH]; constructor; [subst; reflexivity|exact IH]. Qed.

(* per-sequence view: every frame of the k-th sequence carries the k-th id *)
Definition tagged (ids : list Z) (seqs : list (list frame)) : Prop :=
  Forall2 (fun i s => Forall (fun f => f_id f = i) s) ids seqs.

Lemma F2_length {A B} (R : A -> B -> Prop) l1 l2 : Forall2 R l1 l2 -> length l1 = length l2.
Proof. intros H; induction H; cbn; congruence. Qed.

Lemma app_eq_len {A} (a a' b b' : list A) : length a = length a' -> a ++ b = a' ++ b' -> a = a' /\ b = b'.
Proof.
  revert a'. induction a as [|x a IH]; intros [|y a'] Hl H; cbn in *; try discriminate; [auto|].
  inversion H; subst. destruct (IH a') as [-> ->]; [lia|assumption|auto].
Qed.

Lemma tagged_app_inv ids ls1 l ls2 :
  tagged ids (ls1 ++ l :: ls2) ->
  exists ids1 i ids2, ids = ids1 ++ i :: ids2 /\ length ids1 = length ls1 /\
    tagged ids1 ls1 /\ Forall (fun f => f_id f = i) l /\ tagged ids2 ls2.
Proof.
  intros H. apply Forall2_app_inv_r in H as (ids1 & idr & H1 & H2 & ->).
  inversion H2 as [|i s idr' ls2' Hi Hr]; subst.
  exists ids1, i, idr'. split; [reflexivity|]. split; [exact (F2_length _ _ _ H1)|]. auto.
Qed.

Lemma shuffle_gen : forall (seqs : list (list frame)) (w : list frame),
  interleaving seqs w -> forall ids, NoDup ids -> tagged ids seqs ->
  Forall2 (fun i s => filter (has_id i) w = s) ids seqs.
Proof.
  intros seqs w H. induction H as [ls Hnil | ls1 x l ls2 w H IH]; intros ids Hnd Ht.
  - revert ids Ht Hnd. induction Hnil as [|s ls Hs _ IHl]; intros ids Ht Hnd; inversion Ht; subst; constructor.
    + reflexivity.
    + apply IHl; [assumption|]. now inversion Hnd.
  - destruct (tagged_app_inv _ _ _ _ Ht) as (ids1 & i & ids2 & -> & Hlen & H1 & Hx & H2).
    inversion Hx as [|x' l' Hxi Hl]; subst.
    assert (Ht' : tagged (ids1 ++ f_id x :: ids2) (ls1 ++ l :: ls2)).
    { apply Forall2_app; [exact H1|]. constructor; assumption. }
    specialize (IH _ Hnd Ht').
    apply Forall2_app_inv_l in IH as (s1 & sr & IH1 & IH2 & Heq).
    inversion IH2 as [|i0 s0 idr sr' Hi0 IHr]; subst.
    assert (Hl1 : length s1 = length ls1) by (rewrite <- (F2_length _ _ _ IH1); exact Hlen).
    apply app_eq_len in Heq; [|symmetry; exact Hl1]. destruct Heq as [<- Heq]. inversion Heq; subst.
    apply NoDup_remove_2 in Hnd.
    apply Forall2_app.
    + clear - IH1 Hnd. induction IH1 as [|j s js ss Hj _ IHs]; constructor.
      * cbn. unfold has_id at 1. destruct (f_id x =? j) eqn:E.
        { exfalso. apply Hnd. apply in_or_app. left. left. lia. }
        exact Hj.
      * apply IHs. intros Hin. apply Hnd. apply in_app_or in Hin as [Hin|Hin]; apply in_or_app; [left; now right|now right].
    + constructor.
      * cbn. unfold has_id at 1. rewrite Z.eqb_refl. reflexivity.
      * clear - IHr Hnd. induction IHr as [|j s js ss Hj _ IHs]; constructor.
        { cbn. unfold has_id at 1. destruct (f_id x =? j) eqn:E.
          { exfalso. apply Hnd. apply in_or_app. right. left. lia. }
          exact Hj. }
        apply IHs. intros Hin. apply Hnd. apply in_app_or in Hin as [Hin|Hin]; apply in_or_app; [now left|right; now right].
Qed.

(* ------------------------------------------------------------------ C04_ids: NextMessageID *)
Lemma NoDup_map_in {A B} (f : A -> B) (l : list A) :
  (forall x y, In x l -> In y l -> f x = f y -> x = y) -> NoDup l -> NoDup (map f l).
Proof.
  intros Hinj Hnd. induction Hnd as [|x l Hx Hnd IH]; cbn; constructor.
  - intros Hin. apply in_map_iff in Hin as (y & Hy & Hin).
    assert (y = x) by (apply Hinj; [now right|now left|exact Hy]). subst. contradiction.
  - apply IH. intros a b Ha Hb. apply Hinj; now right.
Qed.

Lemma alloc_ids_spec : forall n s,
  alloc_ids n s = map (fun k => wrapU 32 (s + Z.of_nat k)) (seq 1 n).
Proof.
  induction n as [|n IH]; intros s; [reflexivity|].
  cbn [alloc_ids]. rewrite IH. change (seq 1 (S n)) with (1%nat :: seq 2 n). cbn [map].
  assert (E : forall a b (x y : list Z), a = b -> x = y -> a :: x = b :: y) by (intros; subst; reflexivity).
  apply E.
  - unfold next_id. f_equal.
  - rewrite <- (seq_shift n 1), map_map. apply map_ext. intros k.
    unfold next_id, wrapU. rewrite Zplus_mod_idemp_l. f_equal. lia.
Qed.

Lemma wrapU32_inj : forall s i j, 0 <= i < 2 ^ 32 -> 0 <= j < 2 ^ 32 ->
  wrapU 32 (s + i) = wrapU 32 (s + j) -> i = j.
Proof.
  intros s i j Hi Hj H. unfold wrapU in H.
  assert (E : (i - j) mod 2 ^ 32 = 0).
  { replace (i - j) with ((s + i) - (s + j)) by lia. rewrite Zminus_mod, H, Z.sub_diag. reflexivity. }
  apply Z.mod_divide in E; [|lia]. destruct E as [q Hq].
  assert (- 2 ^ 32 < i - j < 2 ^ 32) by lia. nia.
Qed.

Lemma alloc_ids_distinct : forall n s, Z.of_nat n <= 2 ^ 32 -> NoDup (alloc_ids n s).
Proof.
  intros n s Hn. rewrite alloc_ids_spec. apply NoDup_map_in; [|apply seq_NoDup].
  intros x y Hx Hy H. apply in_seq in Hx, Hy.
  assert (E : Z.of_nat x - 1 = Z.of_nat y - 1).
  { apply (wrapU32_inj (s + 1)); [lia|lia|].
    replace (s + 1 + (Z.of_nat x - 1)) with (s + Z.of_nat x) by lia.
    replace (s + 1 + (Z.of_nat y - 1)) with (s + Z.of_nat y) by lia. exact H. }
  lia.
Qed.

Lemma alloc_ids_range : forall n s, Forall (fun i => 0 <= i < 2 ^ 32) (alloc_ids n s).
Proof.
  intros n s. rewrite alloc_ids_spec. apply Forall_forall. intros x Hx.
  apply in_map_iff in Hx as (k & <- & _). apply wrapU_range. lia.
Qed.

(* ------------------------------------------------------------------ upd / lookup *)
Lemma upd_length {A} n (f : A -> A) l : length (upd n f l) = length l.
Proof. revert n; induction l as [|x l IH]; intros [|n]; cbn; auto. Qed.

Lemma nth_upd_same {A} n (f : A -> A) l e : nth_error l n = Some e -> nth_error (upd n f l) n = Some (f e).
Proof. revert n; induction l as [|x l IH]; intros [|n] H; cbn in *; try discriminate; [congruence|auto]. Qed.

Lemma nth_upd_other {A} n n' (f : A -> A) l : n <> n' -> nth_error (upd n f l) n' = nth_error l n'.
Proof.
  revert n n'; induction l as [|x l IH]; intros [|n] [|n'] H; cbn; auto; try congruence.
Qed.

Lemma nth_upd_inv {A} n n' (f : A -> A) l e' :
  nth_error (upd n f l) n' = Some e' ->
  exists e, nth_error l n' = Some e /\ ((n' = n /\ e' = f e) \/ (n' <> n /\ e' = e)).
Proof.
  intros H. destruct (Nat.eq_dec n n') as [->|Hne].
  - destruct (nth_error l n') as [e|] eqn:E.
    + rewrite (nth_upd_same _ _ _ _ E) in H. inversion H; subst. exists e. auto.
    + exfalso. apply nth_error_None in E. rewrite <- (upd_length n' f) in E.
      apply nth_error_None in E. congruence.
  - rewrite nth_upd_other in H by exact Hne. exists e'. auto.
Qed.

Lemma lookup_in m id r : lookup id m = Some r -> In (id, r) m.
Proof.
  induction m as [|[k v] m IH]; cbn; [discriminate|].
  destruct (k =? id) eqn:E; intros H.
  - inversion H; subst. left. f_equal. lia.
  - right. auto.
Qed.

Lemma in_lookup m id r : NoDup (map fst m) -> In (id, r) m -> lookup id m = Some r.
Proof.
  induction m as [|[k v] m IH]; cbn; intros Hnd Hin; [contradiction|].
  inversion Hnd as [|? ? Hk Hnd']; subst.
  destruct Hin as [Heq|Hin].
  - inversion Heq; subst. now rewrite Z.eqb_refl.
  - destruct (k =? id) eqn:E; [|auto].
    exfalso. apply Hk. apply in_map_iff. exists (id, r). split; [cbn; lia|exact Hin].
Qed.

Lemma lookup_none m id r : lookup id m = None -> ~ In (id, r) m.
Proof.
  induction m as [|[k v] m IH]; cbn; intros H Hin; [contradiction|].
  destruct (k =? id) eqn:E; [discriminate|].
  destruct Hin as [Heq|Hin]; [inversion Heq; lia|]. exact (IH H Hin).
Qed.

Lemma in_remove_key m id id' r : In (id', r) (remove_key id m) <-> In (id', r) m /\ id' <> id.
Proof.
  unfold remove_key. rewrite filter_In. cbn. split; intros [H1 H2]; split; auto; lia.
Qed.

Lemma NoDup_remove_key m id : NoDup (map fst m) -> NoDup (map fst (remove_key id m)).
Proof.
  induction m as [|[k v] m IH]; cbn; intros H; [constructor|].
  inversion H as [|? ? Hk Hnd]; subst.
  destruct (negb (k =? id)); cbn; [|auto].
  constructor; [|auto]. intros Hin. apply Hk.
  apply in_map_iff in Hin as ([k' v'] & Hk' & Hin). cbn in Hk'. subst.
  apply in_remove_key in Hin as [Hin _]. apply in_map_iff. exists (k, v'). auto.
Qed.

(* ------------------------------------------------------------------ invariants *)
(* the exchanges map is functional, maps each id to a live exchange carrying that id, and
   an exchange is in the map exactly as long as its ghost interval is open *)
Definition MapWf (s : st) : Prop :=
  NoDup (map fst (s_exch s)) /\
  (forall id r, In (id, r) (s_exch s) ->
     exists e, nth_error (s_mexes s) r = Some e /\ m_id e = id /\ g_to (m_g e) = None) /\
  (forall r e, nth_error (s_mexes s) r = Some e -> g_to (m_g e) = None -> In (m_id e, r) (s_exch s)).

(* fields the map invariant looks at *)
Definition same_map (e e' : mex) : Prop := m_id e' = m_id e /\ g_to (m_g e') = g_to (m_g e).

Lemma MapWf_upd s s' r f :
  s_exch s' = s_exch s -> s_mexes s' = upd r f (s_mexes s) ->
  (forall e, nth_error (s_mexes s) r = Some e -> same_map e (f e)) ->
  MapWf s -> MapWf s'.
Proof.
  intros Hx Hm Hf (Hnd & H2 & H3). unfold MapWf. rewrite Hx, Hm. split; [exact Hnd|]. split.
  - intros id r0 Hin. destruct (H2 _ _ Hin) as (e & He & Hid & Hto).
    destruct (Nat.eq_dec r r0) as [->|Hne].
    + exists (f e). rewrite (nth_upd_same _ _ _ _ He). destruct (Hf e He) as [E1 E2]. split; [reflexivity|]. split; congruence.
    + exists e. rewrite nth_upd_other by exact Hne. auto.
  - intros r0 e' He' Hto. apply nth_upd_inv in He' as (e & He & [[-> ->]|[Hne ->]]).
    + destruct (Hf e He) as [E1 E2]. rewrite E1. apply H3; [exact He|congruence].
    + apply H3; assumption.
Qed.

Lemma MapWf_same s s' : s_exch s' = s_exch s -> s_mexes s' = s_mexes s -> MapWf s -> MapWf s'.
Proof. intros Hx Hm H. unfold MapWf. rewrite Hx, Hm. exact H. Qed.

(* deleting id from the map (deleteExchange's first branch) *)
Lemma MapWf_delete s s' id r n :
  lookup id (s_exch s) = Some r ->
  s_exch s' = remove_key id (s_exch s) -> s_mexes s' = upd r (g_close n) (s_mexes s) ->
  MapWf s -> MapWf s'.
Proof.
  intros Hl Hx Hm (Hnd & H2 & H3). unfold MapWf. rewrite Hx, Hm.
  pose proof (lookup_in _ _ _ Hl) as Hin0.
  split; [apply NoDup_remove_key; exact Hnd|]. split.
  - intros id' r' Hin. apply in_remove_key in Hin as [Hin Hne].
    destruct (H2 _ _ Hin) as (e & He & Hid & Hto).
    assert (r' <> r).
    { intros ->. destruct (H2 _ _ Hin0) as (e0 & He0 & Hid0 & _). congruence. }
    exists e. rewrite nth_upd_other by auto. auto.
  - intros r' e' He' Hto. apply nth_upd_inv in He' as (e & He & [[-> ->]|[Hne ->]]).
    + exfalso. unfold g_close, set_g in Hto. cbn in Hto. destruct (g_to (m_g e)); discriminate.
    + apply in_remove_key. split; [apply H3; assumption|].
      intros Heq. apply Hne. specialize (H3 _ _ He Hto). rewrite Heq in H3.
      pose proof (in_lookup _ _ _ Hnd H3). congruence.
Qed.

(* ------------------------------------------------------------------ what a step can change *)
(* updates that touch none of the fields the invariants read, except that a context may
   become done and the error latch may become set *)
Definition neutral_at (e e' : mex) : Prop :=
  m_id e' = m_id e /\ m_cap e' = m_cap e /\ m_queue e' = m_queue e /\ m_dropped e' = m_dropped e /\
  m_g e' = m_g e /\ (m_ctx e' = m_ctx e \/ m_ctx e = 0) /\ (m_err e <> 0 -> m_err e' <> 0).

Definition same_core (s s' : st) : Prop :=
  s_exch s' = s_exch s /\ s_reader s' = s_reader s /\ s_wire s' = s_wire s.

Inductive change : st -> st -> Prop :=
| ch_eq s s' : same_core s s' -> s_mexes s' = s_mexes s -> change s s'
| ch_trans s1 s2 s3 : change s1 s2 -> change s2 s3 -> change s1 s3
| ch_upd s s' r f : same_core s s' -> s_mexes s' = upd r f (s_mexes s) ->
    (forall e, nth_error (s_mexes s) r = Some e -> neutral_at e (f e)) -> change s s'
| ch_new s s' id cap : 1 <= cap -> lookup id (s_exch s) = None ->
    s_exch s' = (id, length (s_mexes s)) :: s_exch s ->
    s_mexes s' = s_mexes s ++ [new_mex id cap (length (s_wire s))] ->
    s_reader s' = s_reader s -> s_wire s' = s_wire s -> change s s'
| ch_delete s s' id r : lookup id (s_exch s) = Some r ->
    s_exch s' = remove_key id (s_exch s) ->
    s_mexes s' = upd r (g_close (length (s_wire s))) (s_mexes s) ->
    s_reader s' = s_reader s -> s_wire s' = s_wire s -> change s s'
| ch_lookup s s' f : s_reader s = RIdle ->
    s_reader s' = RLooked f (lookup (f_id f) (s_exch s)) ->
    s_wire s' = s_wire s ++ [f] -> s_exch s' = s_exch s ->
    s_mexes s' = match lookup (f_id f) (s_exch s) with
                 | Some r => upd r (g_arrive f) (s_mexes s) | None => s_mexes s end ->
    change s s'
| ch_fwdnil s s' f : s_reader s = RLooked f None -> s_reader s' = RIdle ->
    s_exch s' = s_exch s -> s_wire s' = s_wire s -> s_mexes s' = s_mexes s -> change s s'
| ch_refuse_looked s s' f r e : s_reader s = RLooked f (Some r) -> nth_error (s_mexes s) r = Some e ->
    (m_ctx e <> 0 \/ m_dropped e = true) -> s_reader s' = RIdle ->
    s_exch s' = s_exch s -> s_wire s' = s_wire s -> s_mexes s' = s_mexes s -> change s s'
| ch_select s s' f r e : s_reader s = RLooked f (Some r) -> nth_error (s_mexes s) r = Some e ->
    m_ctx e = 0 -> m_dropped e = false -> s_reader s' = RSelect f r ->
    s_exch s' = s_exch s -> s_wire s' = s_wire s -> s_mexes s' = s_mexes s -> change s s'
| ch_deliver s s' f r e : s_reader s = RSelect f r -> nth_error (s_mexes s) r = Some e ->
    zlen (m_queue e) < m_cap e -> s_reader s' = RIdle ->
    s_exch s' = s_exch s -> s_wire s' = s_wire s -> s_mexes s' = upd r (enqueue f) (s_mexes s) -> change s s'
| ch_refuse_ctx s s' f r e : s_reader s = RSelect f r -> nth_error (s_mexes s) r = Some e ->
    m_ctx e <> 0 -> s_reader s' = RIdle ->
    s_exch s' = s_exch s -> s_wire s' = s_wire s -> s_mexes s' = s_mexes s -> change s s'
| ch_drop s s' f r e : s_reader s = RSelect f r -> nth_error (s_mexes s) r = Some e ->
    m_err e <> 0 -> s_reader s' = RIdle ->
    s_exch s' = s_exch s -> s_wire s' = s_wire s -> s_mexes s' = upd r (set_dropped true) (s_mexes s) -> change s s'
| ch_recv s s' r e f q : nth_error (s_mexes s) r = Some e -> m_queue e = f :: q ->
    mexCheckFrame (f_id f) (m_id e) = 0 -> same_core s s' ->
    s_mexes s' = upd r (fun e => g_receive f (set_cpc false (set_queue q e))) (s_mexes s) -> change s s'
| ch_recv_bad s s' r e f q : nth_error (s_mexes s) r = Some e -> m_queue e = f :: q ->
    mexCheckFrame (f_id f) (m_id e) <> 0 -> same_core s s' ->
    s_mexes s' = upd r (fun e => set_cpc false (set_queue q e)) (s_mexes s) -> change s s'.

Lemma same_core_refl s : same_core s s.
Proof. repeat split. Qed.

Lemma delete_change id s s' b1 b2 : delete_exchange id s = (s', b1, b2) -> change s s'.
Proof.
  unfold delete_exchange. destruct (lookup id (s_exch s)) as [r|] eqn:El.
  - intros H. inversion H; subst. eapply ch_delete; [exact El| | | |]; reflexivity.
  - destruct (existsb (Z.eqb id) (s_expired s)); intros H; inversion H; subst;
      apply ch_eq; [repeat split|reflexivity|repeat split|reflexivity].
Qed.

Lemma remove_change id s : change s (remove_exchange id s).
Proof.
  unfold remove_exchange. destruct (delete_exchange id s) as [[s' b1] b2] eqn:E.
  apply delete_change in E. destruct (b1 || b2); [|exact E].
  eapply ch_trans; [exact E|]. apply ch_eq; [repeat split|reflexivity].
Qed.

Lemma expire_change id s : change s (expire_exchange id s).
Proof.
  unfold expire_exchange. destruct (delete_exchange id s) as [[s' b1] b2] eqn:E.
  apply delete_change in E. eapply ch_trans; [exact E|].
  destruct (b1 || b2); apply ch_eq; try (repeat split); reflexivity.
Qed.

Lemma neutral_refl e : neutral_at e e.
Proof. unfold neutral_at. repeat split; auto. Qed.

Lemma neutral_notify err e : neutral_at e (notify err e).
Proof.
  unfold notify. destruct (m_notified e); [apply neutral_refl|].
  unfold neutral_at; cbn. repeat split; auto. destruct (m_err e =? 0) eqn:E; lia.
Qed.

Ltac sc_tac := unfold same_core; cbn; repeat split.
Ltac neutral_tac := intros; unfold neutral_at; cbn; repeat split; auto.

Lemma step_change s l s' : step s l = Some s' -> change s s'.
Proof.
  unfold step. destruct (step_obs true s l) as [[s1 o]|] eqn:E; cbn; [|discriminate].
  intros H; inversion H; subst s1; clear H.
  destruct l; cbn in E.
  - (* LNew *)
    destruct (cap <? 1) eqn:Ec; [discriminate|].
    destruct (s_shutdown s); [inversion E; subst; apply ch_eq; [sc_tac|reflexivity]|].
    destruct (lookup id (s_exch s)) eqn:El; inversion E; subst; [apply ch_eq; [sc_tac|reflexivity]|].
    apply (ch_new _ _ id cap); [lia|exact El| | | |]; reflexivity.
  - (* LLookup *)
    destruct (s_reader s) eqn:Er; try discriminate. inversion E; subst; clear E.
    apply (ch_lookup _ _ f); [exact Er|reflexivity| | |]; cbn; destruct (lookup (f_id f) (s_exch s)); reflexivity.
  - (* LFwdNil *)
    destruct (s_reader s) as [|f [r|]|] eqn:Er; try discriminate. inversion E; subst.
    eapply ch_fwdnil; [exact Er| | | |]; reflexivity.
  - (* LFwdCheck *)
    destruct (s_reader s) as [|f [r|]|] eqn:Er; try discriminate.
    destruct (nth_error (s_mexes s) r) as [e|] eqn:Ee; [|discriminate].
    destruct (negb (m_ctx e =? 0)) eqn:Ec.
    { inversion E; subst. eapply ch_refuse_looked; [exact Er|exact Ee|left; lia| | | |]; reflexivity. }
    destruct (m_dropped e) eqn:Ed; inversion E; subst.
    { eapply ch_refuse_looked; [exact Er|exact Ee|right; exact Ed| | | |]; reflexivity. }
    eapply ch_select; [exact Er|exact Ee|lia|exact Ed| | | |]; reflexivity.
  - (* LFwdSend *)
    destruct (s_reader s) as [| |f r] eqn:Er; try discriminate.
    destruct (nth_error (s_mexes s) r) as [e|] eqn:Ee; [|discriminate].
    destruct (zlen (m_queue e) <? m_cap e) eqn:Eq; inversion E; subst.
    eapply ch_deliver; [exact Er|exact Ee|lia| | | |]; reflexivity.
  - (* LFwdCtxDone *)
    destruct (s_reader s) as [| |f r] eqn:Er; try discriminate.
    destruct (nth_error (s_mexes s) r) as [e|] eqn:Ee; [|discriminate].
    destruct (negb (m_ctx e =? 0)) eqn:Ec; inversion E; subst.
    eapply ch_refuse_ctx; [exact Er|exact Ee|lia| | | |]; reflexivity.
  - (* LFwdErr *)
    destruct (s_reader s) as [| |f r] eqn:Er; try discriminate.
    destruct (nth_error (s_mexes s) r) as [e|] eqn:Ee; [|discriminate].
    destruct (m_err e =? 0) eqn:Eerr; [discriminate|].
    destruct (zlen (m_queue e) <? m_cap e) eqn:Eq; inversion E; subst.
    + eapply ch_deliver; [exact Er|exact Ee|lia| | | |]; reflexivity.
    + eapply ch_drop; [exact Er|exact Ee|lia| | | |]; reflexivity.
  - (* LRecvCheck *)
    destruct (nth_error (s_mexes s) r) as [e|] eqn:Ee; [|discriminate].
    destruct (m_cpc e); [discriminate|].
    destruct (negb (m_ctx e =? 0)); inversion E; subst; [apply ch_eq; [sc_tac|reflexivity]|].
    eapply ch_upd; [sc_tac|reflexivity|]. neutral_tac.
  - (* LRecvFrame *)
    destruct (nth_error (s_mexes s) r) as [e|] eqn:Ee; [|discriminate].
    destruct (m_cpc e); [|discriminate].
    destruct (m_queue e) as [|f q] eqn:Eq; [discriminate|].
    destruct (mexCheckFrame (f_id f) (m_id e) =? 0) eqn:Ec; inversion E; subst.
    + eapply ch_recv; [exact Ee|exact Eq|lia|sc_tac|reflexivity].
    + eapply ch_recv_bad; [exact Ee|exact Eq|lia|sc_tac|reflexivity].
  - (* LRecvCtxDone *)
    destruct (nth_error (s_mexes s) r) as [e|] eqn:Ee; [|discriminate].
    destruct (m_cpc e && negb (m_ctx e =? 0)); inversion E; subst.
    eapply ch_upd; [sc_tac|reflexivity|]. neutral_tac.
  - (* LRecvErr *)
    destruct (nth_error (s_mexes s) r) as [e|] eqn:Ee; [|discriminate].
    destruct (m_cpc e && negb (m_err e =? 0)); [|discriminate].
    destruct (m_queue e) as [|f q] eqn:Eq.
    { inversion E; subst. eapply ch_upd; [sc_tac|reflexivity|]. neutral_tac. }
    destruct (mexCheckFrame (f_id f) (m_id e) =? 0) eqn:Ec; inversion E; subst.
    + eapply ch_recv; [exact Ee|exact Eq|lia|sc_tac|reflexivity].
    + eapply ch_recv_bad; [exact Ee|exact Eq|lia|sc_tac|reflexivity].
  - (* LCtx *)
    destruct (nth_error (s_mexes s) r) as [e|] eqn:Ee; [|discriminate].
    destruct ((k =? 1) || (k =? 2)); [|discriminate].
    destruct (m_ctx e =? 0) eqn:Ec; inversion E; subst; [|apply ch_eq; [sc_tac|reflexivity]].
    eapply ch_upd; [sc_tac|reflexivity|].
    intros e0 He0. assert (e0 = e) by congruence. subst. unfold neutral_at; cbn. repeat split; auto. right. lia.
  - (* LShutCAS *)
    destruct (nth_error (s_mexes s) r) as [e|] eqn:Ee; [|discriminate].
    destruct (m_shut e); inversion E; subst; [apply ch_eq; [sc_tac|reflexivity]|].
    eapply ch_upd; [sc_tac|reflexivity|]. neutral_tac.
  - (* LShutNotify *)
    destruct (nth_error (s_mexes s) r) as [e|] eqn:Ee; [|discriminate].
    destruct (m_spc e =? 1); inversion E; subst.
    eapply ch_upd; [sc_tac|reflexivity|].
    intros e0 _. pose proof (neutral_notify E_MEXSHUTDOWN e0) as Hn. unfold neutral_at in *; cbn. exact Hn.
  - (* LShutRemove *)
    destruct (nth_error (s_mexes s) r) as [e|] eqn:Ee; [|discriminate].
    destruct (m_spc e =? 2); inversion E; subst.
    eapply ch_trans; [|apply remove_change].
    eapply ch_upd; [sc_tac|reflexivity|]. neutral_tac.
  - (* LExpire *)
    destruct (nth_error (s_mexes s) r) as [e|] eqn:Ee; [|discriminate].
    inversion E; subst. apply expire_change.
  - (* LRemoveId *)
    inversion E; subst. apply remove_change.
  - (* LStopCopy *)
    destruct (err =? 0); [discriminate|].
    destruct (s_shutdown s); inversion E; subst; apply ch_eq; try sc_tac; try reflexivity.
  - (* LStopNotify *)
    destruct (nth_error (s_stop s) k) as [[r err]|] eqn:Ek; [|discriminate].
    inversion E; subst.
    eapply ch_upd; [repeat split|reflexivity|]. intros e0 _. apply neutral_notify.
Qed.

Lemma MapWf_change s s' : change s s' -> MapWf s -> MapWf s'.
Proof.
  intros H. induction H as
    [s s' (Hx & _ & _) Hm | s1 s2 s3 _ IH1 _ IH2 | s s' r f (Hx & _ & _) Hm Hn
    | s s' id cap Hc Hl Hx Hm _ _ | s s' id r Hl Hx Hm _ _ | s s' f _ _ _ Hx Hm
    | s s' f _ _ Hx _ Hm | s s' f r e _ _ _ _ Hx _ Hm | s s' f r e _ _ _ _ _ Hx _ Hm
    | s s' f r e _ _ _ _ Hx _ Hm | s s' f r e _ _ _ _ Hx _ Hm | s s' f r e _ _ _ _ Hx _ Hm
    | s s' r e f q _ _ _ (Hx & _ & _) Hm | s s' r e f q _ _ _ (Hx & _ & _) Hm]; intros Hw.
  - exact (MapWf_same _ _ Hx Hm Hw).
  - auto.
  - apply (MapWf_upd _ _ _ _ Hx Hm); [|exact Hw]. intros e He. destruct (Hn e He) as (H1 & _ & _ & _ & H5 & _).
    split; [exact H1|now rewrite H5].
  - destruct Hw as (Hnd & H2 & H3). unfold MapWf. rewrite Hx, Hm. split; [|split].
    + cbn. constructor; [|exact Hnd]. intros Hin. apply in_map_iff in Hin as ([k v] & Hk & Hin). cbn in Hk; subst.
      exact (lookup_none _ _ _ Hl Hin).
    + intros id' r' [Heq|Hin].
      * inversion Heq; subst. exists (new_mex id' cap (length (s_wire s))).
        rewrite nth_error_app2 by lia. rewrite Nat.sub_diag. cbn. auto.
      * destruct (H2 _ _ Hin) as (e & He & Hid & Hto). exists e. rewrite nth_error_app1; [auto|].
        apply nth_error_Some. congruence.
    + intros r' e' He' Hto. destruct (Nat.lt_ge_cases r' (length (s_mexes s))) as [Hlt|Hge].
      * rewrite nth_error_app1 in He' by exact Hlt. right. apply H3; assumption.
      * rewrite nth_error_app2 in He' by exact Hge.
        destruct (r' - length (s_mexes s))%nat as [|k] eqn:Ek; cbn in He'; [|destruct k; discriminate].
        inversion He'; subst. cbn. left. f_equal. lia.
  - exact (MapWf_delete _ _ _ _ _ Hl Hx Hm Hw).
  - destruct (lookup (f_id f) (s_exch s)) as [r|].
    + apply (MapWf_upd _ _ _ _ Hx Hm); [|exact Hw]. intros e _. split; reflexivity.
    + exact (MapWf_same _ _ Hx Hm Hw).
  - exact (MapWf_same _ _ Hx Hm Hw).
  - exact (MapWf_same _ _ Hx Hm Hw).
  - exact (MapWf_same _ _ Hx Hm Hw).
  - apply (MapWf_upd _ _ _ _ Hx Hm); [|exact Hw]. intros e0 _. split; reflexivity.
  - exact (MapWf_same _ _ Hx Hm Hw).
  - apply (MapWf_upd _ _ _ _ Hx Hm); [|exact Hw]. intros e0 _. split; reflexivity.
  - apply (MapWf_upd _ _ _ _ Hx Hm); [|exact Hw]. intros e0 _. split; reflexivity.
  - apply (MapWf_upd _ _ _ _ Hx Hm); [|exact Hw]. intros e0 _. split; reflexivity.
Qed.

(* ------------------------------------------------------------------ order invariant *)
Definition holds_not (rd : rpc) (r : nat) : Prop :=
  forall f, rd <> RLooked f (Some r) /\ rd <> RSelect f r.

Definition ord_ok (rd : rpc) (r : nat) (e : mex) : Prop :=
  g_delivered (m_g e) = g_received (m_g e) ++ m_queue e /\
  Forall (fun f => f_id f = m_id e) (g_arrived (m_g e)) /\
  prefix (g_delivered (m_g e)) (g_arrived (m_g e)) /\
  (forall f, rd = RSelect f r -> g_arrived (m_g e) = g_delivered (m_g e) ++ [f] /\ m_dropped e = false) /\
  (m_dropped e = false -> m_ctx e = 0 ->
     (forall f, rd = RLooked f (Some r) -> g_arrived (m_g e) = g_delivered (m_g e) ++ [f]) /\
     (holds_not rd r -> g_arrived (m_g e) = g_delivered (m_g e))) /\
  (m_dropped e = true -> m_err e <> 0) /\
  zlen (m_queue e) <= m_cap e /\ 1 <= m_cap e.

Definition rd_ok (rd : rpc) (mexes : list mex) : Prop :=
  match rd with
  | RIdle | RLooked _ None => True
  | RLooked f (Some r) | RSelect f r => exists e, nth_error mexes r = Some e /\ f_id f = m_id e
  end.

Definition Ord (s : st) : Prop :=
  rd_ok (s_reader s) (s_mexes s) /\
  forall r e, nth_error (s_mexes s) r = Some e -> ord_ok (s_reader s) r e.

Lemma holds_not_idle r : holds_not RIdle r.
Proof. intros f; split; discriminate. Qed.
Lemma holds_not_looked_none f0 r : holds_not (RLooked f0 None) r.
Proof. intros f; split; discriminate. Qed.
Lemma holds_not_looked_other f0 r0 r : r <> r0 -> holds_not (RLooked f0 (Some r0)) r.
Proof. intros H f; split; [intros E; inversion E; congruence|discriminate]. Qed.
Lemma holds_not_select_other f0 r0 r : r <> r0 -> holds_not (RSelect f0 r0) r.
Proof. intros H f; split; [discriminate|intros E; inversion E; congruence]. Qed.

Ltac osplit := unfold ord_ok; split; [|split; [|split; [|split; [|split; [|split; [|split]]]]]].

Lemma ord_neutral rd r e e' : neutral_at e e' -> ord_ok rd r e -> ord_ok rd r e'.
Proof.
  intros (Hid & Hcap & Hq & Hd & Hg & Hctx & Herr) (O1 & O2 & O3 & O4 & O5 & O6 & O7 & O8).
  unfold ord_ok. rewrite Hid, Hcap, Hq, Hd, Hg. osplit; auto.
  intros Hd0 Hc0. apply O5; [exact Hd0|destruct Hctx; congruence].
Qed.

Lemma ord_g_close rd r n e : ord_ok rd r e -> ord_ok rd r (g_close n e).
Proof. intros H. exact H. Qed.

(* reader moved, this exchange was and is not the one it holds *)
Lemma ord_unheld rd rd' r e : holds_not rd r -> holds_not rd' r -> ord_ok rd r e -> ord_ok rd' r e.
Proof.
  intros Hh Hh' (O1 & O2 & O3 & O4 & O5 & O6 & O7 & O8). osplit; auto.
  - intros f Hf. exfalso. destruct (Hh' f) as [_ Hn]. contradiction.
  - intros Hd Hc. split.
    + intros f Hf. exfalso. destruct (Hh' f) as [Hn _]. contradiction.
    + intros _. apply O5; auto.
Qed.

(* the exchange refuses everything from now on; the reader is not selecting on it *)
Lemma ord_stuck rd rd' r e : (m_dropped e = true \/ m_ctx e <> 0) -> (forall f, rd' <> RSelect f r) ->
  ord_ok rd r e -> ord_ok rd' r e.
Proof.
  intros Hs Hn (O1 & O2 & O3 & O4 & O5 & O6 & O7 & O8). osplit; auto.
  - intros f Hf. exfalso. exact (Hn f Hf).
  - intros Hd Hc. exfalso. destruct Hs; congruence.
Qed.

Lemma ord_lookup_hit r e f : f_id f = m_id e -> ord_ok RIdle r e -> ord_ok (RLooked f (Some r)) r (g_arrive f e).
Proof.
  intros Hid (O1 & O2 & O3 & O4 & O5 & O6 & O7 & O8).
  osplit; cbn; auto.
  - apply Forall_app. split; [exact O2|]. constructor; [exact Hid|constructor].
  - apply prefix_app_r. exact O3.
  - intros f' Hf'. discriminate.
  - intros Hd Hc. split.
    + intros f' Hf'. inversion Hf'; subst. f_equal. apply O5; auto. apply holds_not_idle.
    + intros Hh. exfalso. destruct (Hh f) as [Hn _]. congruence.
Qed.

Lemma ord_select r e f : m_ctx e = 0 -> m_dropped e = false ->
  ord_ok (RLooked f (Some r)) r e -> ord_ok (RSelect f r) r e.
Proof.
  intros Hc Hd (O1 & O2 & O3 & O4 & O5 & O6 & O7 & O8). osplit; auto.
  - intros f' Hf'. inversion Hf'; subst. split; [|exact Hd]. apply O5; auto.
  - intros _ _. split.
    + intros f' Hf'. discriminate.
    + intros Hh. exfalso. destruct (Hh f) as [_ Hn]. congruence.
Qed.

Lemma ord_deliver r e f : zlen (m_queue e) < m_cap e ->
  ord_ok (RSelect f r) r e -> ord_ok RIdle r (enqueue f e).
Proof.
  intros Hq (O1 & O2 & O3 & O4 & O5 & O6 & O7 & O8).
  destruct (O4 f eq_refl) as [Ha Hd].
  osplit; cbn; auto.
  - rewrite O1, app_assoc. reflexivity.
  - rewrite Ha. apply prefix_refl.
  - intros f' Hf'. discriminate.
  - intros _ _. split; [intros f' Hf'; discriminate|]. intros _. exact Ha.
  - unfold zlen in *. rewrite app_length. cbn. lia.
Qed.

Lemma ord_drop r e f : m_err e <> 0 ->
  ord_ok (RSelect f r) r e -> ord_ok RIdle r (set_dropped true e).
Proof.
  intros He (O1 & O2 & O3 & O4 & O5 & O6 & O7 & O8).
  osplit; cbn; auto.
  - intros f' Hf'. discriminate.
  - intros Hd. discriminate.
Qed.

Lemma ord_recv rd r e f q : m_queue e = f :: q ->
  ord_ok rd r e -> ord_ok rd r (g_receive f (set_cpc false (set_queue q e))).
Proof.
  intros Hq (O1 & O2 & O3 & O4 & O5 & O6 & O7 & O8). rewrite Hq in *.
  osplit; cbn; auto.
  - rewrite O1, <- app_assoc. reflexivity.
  - unfold zlen in *. cbn in O7. lia.
Qed.

Lemma ord_recv_bad rd r e f q : m_queue e = f :: q -> mexCheckFrame (f_id f) (m_id e) <> 0 ->
  ord_ok rd r e -> False.
Proof.
  intros Hq Hc (O1 & O2 & O3 & _). destruct O3 as [rest Hr].
  assert (Hin : In f (g_arrived (m_g e))).
  { rewrite Hr, O1, Hq. apply in_or_app. left. apply in_or_app. right. now left. }
  rewrite Forall_forall in O2. specialize (O2 _ Hin).
  unfold mexCheckFrame in Hc. rewrite O2, Z.eqb_refl in Hc. cbn in Hc. congruence.
Qed.

Lemma rd_ok_upd rd r f l : (forall e, nth_error l r = Some e -> m_id (f e) = m_id e) -> rd_ok rd l -> rd_ok rd (upd r f l).
Proof.
  intros Hf H. destruct rd as [|f0 [r0|]|f0 r0]; cbn in *; auto.
  - destruct H as (e & He & Hid). destruct (Nat.eq_dec r r0) as [->|Hne].
    + exists (f e). rewrite (nth_upd_same _ _ _ _ He). rewrite Hf; auto.
    + exists e. rewrite nth_upd_other; auto.
  - destruct H as (e & He & Hid). destruct (Nat.eq_dec r r0) as [->|Hne].
    + exists (f e). rewrite (nth_upd_same _ _ _ _ He). rewrite Hf; auto.
    + exists e. rewrite nth_upd_other; auto.
Qed.

Lemma Ord_intro_upd s s' r f :
  s_mexes s' = upd r f (s_mexes s) -> rd_ok (s_reader s') (s_mexes s') ->
  (forall e, nth_error (s_mexes s) r = Some e -> ord_ok (s_reader s) r e -> ord_ok (s_reader s') r (f e)) ->
  (forall r' e, r' <> r -> nth_error (s_mexes s) r' = Some e -> ord_ok (s_reader s) r' e -> ord_ok (s_reader s') r' e) ->
  Ord s -> Ord s'.
Proof.
  intros Hm Hrd H1 H2 [_ Ho]. split; [exact Hrd|].
  intros r' e' He'. rewrite Hm in He'. apply nth_upd_inv in He' as (e & He & [[-> ->]|[Hne ->]]); auto.
Qed.

Lemma Ord_intro_same s s' :
  s_mexes s' = s_mexes s -> rd_ok (s_reader s') (s_mexes s) ->
  (forall r e, nth_error (s_mexes s) r = Some e -> ord_ok (s_reader s) r e -> ord_ok (s_reader s') r e) ->
  Ord s -> Ord s'.
Proof.
  intros Hm Hrd H1 [_ Ho]. split; rewrite Hm; [exact Hrd|]. auto.
Qed.

Lemma Ord_change s s' : change s s' -> MapWf s -> Ord s -> Ord s'.
Proof.
  intros H. induction H as
    [s s' (Hx & Hr & Hw) Hm | s1 s2 s3 H12 IH1 _ IH2 | s s' r f (Hx & Hr & Hw) Hm Hn
    | s s' id cap Hc Hl Hx Hm Hr Hw | s s' id r Hl Hx Hm Hr Hw | s s' f Hr0 Hr Hw Hx Hm
    | s s' f Hr0 Hr Hx Hw Hm | s s' f r e Hr0 He Hs Hr Hx Hw Hm | s s' f r e Hr0 He Hc Hd Hr Hx Hw Hm
    | s s' f r e Hr0 He Hq Hr Hx Hw Hm | s s' f r e Hr0 He Hc Hr Hx Hw Hm | s s' f r e Hr0 He Herr Hr Hx Hw Hm
    | s s' r e f q He Hq Hck (Hx & Hr & Hw) Hm | s s' r e f q He Hq Hck (Hx & Hr & Hw) Hm]; intros HW HO.
  - (* eq *) destruct HO as [H1 H2]. split; rewrite Hr, Hm; assumption.
  - (* trans *) apply IH2; [exact (MapWf_change _ _ H12 HW)|]. apply IH1; assumption.
  - (* neutral upd *)
    apply (Ord_intro_upd _ _ _ _ Hm); [| | |exact HO].
    + rewrite Hr, Hm. apply rd_ok_upd; [|exact (proj1 HO)]. intros e He. exact (proj1 (Hn e He)).
    + intros e He Ho. rewrite Hr. exact (ord_neutral _ _ _ _ (Hn e He) Ho).
    + intros r' e _ _ Ho. rewrite Hr. exact Ho.
  - (* new *)
    destruct HO as [Hrd Ho]. split.
    + rewrite Hr, Hm. destruct (s_reader s) as [|f0 [r0|]|f0 r0]; cbn in *; auto;
        destruct Hrd as (e & He & Hid); exists e; (rewrite nth_error_app1; [auto|apply nth_error_Some; congruence]).
    + intros r e He. rewrite Hr. rewrite Hm in He.
      destruct (Nat.lt_ge_cases r (length (s_mexes s))) as [Hlt|Hge].
      * rewrite nth_error_app1 in He by exact Hlt. auto.
      * rewrite nth_error_app2 in He by exact Hge.
        destruct (r - length (s_mexes s))%nat as [|k] eqn:Ek; cbn in He; [|destruct k; discriminate].
        inversion He; subst e.
        assert (Hnone : nth_error (s_mexes s) r = None) by (apply nth_error_None; exact Hge).
        assert (Hh : holds_not (s_reader s) r).
        { intros f0. split; intros E; rewrite E in Hrd; cbn in Hrd; destruct Hrd as (e0 & He0 & _); congruence. }
        osplit; cbn; auto.
        { apply prefix_refl. }
        { intros f0 Hf0. exfalso. exact (proj2 (Hh f0) Hf0). }
        { intros _ _. split; [|reflexivity]. intros f0 Hf0. exfalso. exact (proj1 (Hh f0) Hf0). }
        { discriminate. }
        { unfold zlen. cbn. lia. }
  - (* delete *)
    apply (Ord_intro_upd _ _ _ _ Hm); [| | |exact HO].
    + rewrite Hr, Hm. apply rd_ok_upd; [|exact (proj1 HO)]. intros e He. reflexivity.
    + intros e He Ho. rewrite Hr. exact Ho.
    + intros r' e _ _ Ho. rewrite Hr. exact Ho.
  - (* lookup *)
    destruct HW as (Hnd & HW2 & HW3).
    destruct (lookup (f_id f) (s_exch s)) as [r0|] eqn:El.
    + apply lookup_in in El. destruct (HW2 _ _ El) as (e0 & He0 & Hid0 & _).
      apply (Ord_intro_upd _ _ _ _ Hm); [| | |exact HO].
      * rewrite Hr, Hm. cbn. exists (g_arrive f e0). rewrite (nth_upd_same _ _ _ _ He0). split; [reflexivity|]. cbn. congruence.
      * intros e He Ho. rewrite Hr. rewrite Hr0 in Ho. apply ord_lookup_hit; [congruence|exact Ho].
      * intros r' e Hne _ Ho. rewrite Hr. rewrite Hr0 in Ho.
        eapply ord_unheld; [apply holds_not_idle|apply holds_not_looked_other; exact Hne|exact Ho].
    + apply (Ord_intro_same _ _ Hm); [rewrite Hr; exact I| |exact HO].
      intros r e _ Ho. rewrite Hr. rewrite Hr0 in Ho.
      eapply ord_unheld; [apply holds_not_idle|apply holds_not_looked_none|exact Ho].
  - (* fwdnil *)
    apply (Ord_intro_same _ _ Hm); [rewrite Hr; exact I| |exact HO].
    intros r e _ Ho. rewrite Hr. rewrite Hr0 in Ho.
    eapply ord_unheld; [apply holds_not_looked_none|apply holds_not_idle|exact Ho].
  - (* refused at the check *)
    apply (Ord_intro_same _ _ Hm); [rewrite Hr; exact I| |exact HO].
    intros r' e' He' Ho. rewrite Hr. rewrite Hr0 in Ho.
    destruct (Nat.eq_dec r' r) as [->|Hne].
    + assert (e' = e) by congruence. subst. eapply ord_stuck; [|discriminate|exact Ho]. tauto.
    + eapply ord_unheld; [apply holds_not_looked_other; exact Hne|apply holds_not_idle|exact Ho].
  - (* enters the select *)
    apply (Ord_intro_same _ _ Hm); [| |exact HO].
    + rewrite Hr. destruct HO as [Hrd _]. rewrite Hr0 in Hrd. exact Hrd.
    + intros r' e' He' Ho. rewrite Hr. rewrite Hr0 in Ho.
      destruct (Nat.eq_dec r' r) as [->|Hne].
      * assert (e' = e) by congruence. subst. apply ord_select; assumption.
      * eapply ord_unheld; [apply holds_not_looked_other; exact Hne|apply holds_not_select_other; exact Hne|exact Ho].
  - (* deliver *)
    apply (Ord_intro_upd _ _ _ _ Hm); [rewrite Hr; exact I| | |exact HO].
    + intros e0 He0 Ho. assert (e0 = e) by congruence. subst. rewrite Hr. rewrite Hr0 in Ho. apply ord_deliver; assumption.
    + intros r' e' Hne _ Ho. rewrite Hr. rewrite Hr0 in Ho.
      eapply ord_unheld; [apply holds_not_select_other; exact Hne|apply holds_not_idle|exact Ho].
  - (* refused in the select: context *)
    apply (Ord_intro_same _ _ Hm); [rewrite Hr; exact I| |exact HO].
    intros r' e' He' Ho. rewrite Hr. rewrite Hr0 in Ho.
    destruct (Nat.eq_dec r' r) as [->|Hne].
    + assert (e' = e) by congruence. subst. eapply ord_stuck; [right; exact Hc|discriminate|exact Ho].
    + eapply ord_unheld; [apply holds_not_select_other; exact Hne|apply holds_not_idle|exact Ho].
  - (* dropped *)
    apply (Ord_intro_upd _ _ _ _ Hm); [rewrite Hr; exact I| | |exact HO].
    + intros e0 He0 Ho. assert (e0 = e) by congruence. subst. rewrite Hr. rewrite Hr0 in Ho. apply (ord_drop _ _ f); assumption.
    + intros r' e' Hne _ Ho. rewrite Hr. rewrite Hr0 in Ho.
      eapply ord_unheld; [apply holds_not_select_other; exact Hne|apply holds_not_idle|exact Ho].
  - (* recv *)
    apply (Ord_intro_upd _ _ _ _ Hm); [| | |exact HO].
    + rewrite Hr, Hm. apply rd_ok_upd; [|exact (proj1 HO)]. intros e0 _. reflexivity.
    + intros e0 He0 Ho. assert (e0 = e) by congruence. subst. rewrite Hr. apply ord_recv; assumption.
    + intros r' e' _ _ Ho. rewrite Hr. exact Ho.
  - (* recv with a foreign frame: impossible *)
    exfalso. destruct HO as [_ Ho]. exact (ord_recv_bad _ _ _ _ _ Hq Hck (Ho _ _ He)).
Qed.

(* ------------------------------------------------------------------ window invariant *)
(* the part of the wire between positions [from] and [to] (or its end) *)
Definition seg (w : list frame) (from : nat) (to : option nat) : list frame :=
  match to with
  | None => skipn from w
  | Some t => firstn (t - from) (skipn from w)
  end.

(* the frames carrying the exchange's id that the reader took off the wire while the
   exchange was in the exchanges map *)
Definition window (e : mex) (w : list frame) : list frame :=
  filter (has_id (m_id e)) (seg w (g_from (m_g e)) (g_to (m_g e))).

Definition win_ok (w : list frame) (e : mex) : Prop :=
  g_arrived (m_g e) = window e w /\
  (g_from (m_g e) <= length w)%nat /\
  (forall t, g_to (m_g e) = Some t -> (g_from (m_g e) <= t <= length w)%nat).

Definition Win (s : st) : Prop := forall r e, nth_error (s_mexes s) r = Some e -> win_ok (s_wire s) e.

Definition same_win (e e' : mex) : Prop :=
  m_id e' = m_id e /\ g_from (m_g e') = g_from (m_g e) /\ g_to (m_g e') = g_to (m_g e) /\
  g_arrived (m_g e') = g_arrived (m_g e).

Lemma win_same w e e' : same_win e e' -> win_ok w e -> win_ok w e'.
Proof.
  intros (H1 & H2 & H3 & H4) (W1 & W2 & W3). unfold win_ok, window. rewrite H1, H2, H3, H4. auto.
Qed.

Lemma Win_upd s s' r f : s_wire s' = s_wire s -> s_mexes s' = upd r f (s_mexes s) ->
  (forall e, nth_error (s_mexes s) r = Some e -> same_win e (f e)) -> Win s -> Win s'.
Proof.
  intros Hw Hm Hf HW r' e' He'. rewrite Hw. rewrite Hm in He'.
  apply nth_upd_inv in He' as (e & He & [[-> ->]|[Hne ->]]).
  - apply (win_same _ e); [apply Hf; exact He|exact (HW _ _ He)].
  - apply (HW _ _ He).
Qed.

Lemma skipn_app_le {A} n (a b : list A) : (n <= length a)%nat -> skipn n (a ++ b) = skipn n a ++ b.
Proof. intros H. rewrite skipn_app. replace (n - length a)%nat with O by lia. reflexivity. Qed.

Lemma firstn_app_le {A} n (a b : list A) : (n <= length a)%nat -> firstn n (a ++ b) = firstn n a.
Proof. intros H. rewrite firstn_app. replace (n - length a)%nat with O by lia. cbn. apply app_nil_r. Qed.

Lemma Win_change s s' : change s s' -> MapWf s -> Win s -> Win s'.
Proof.
  intros H. induction H as
    [s s' (Hx & Hr & Hw) Hm | s1 s2 s3 H12 IH1 _ IH2 | s s' r f (Hx & Hr & Hw) Hm Hn
    | s s' id cap Hc Hl Hx Hm Hr Hw | s s' id r Hl Hx Hm Hr Hw | s s' f Hr0 Hr Hw Hx Hm
    | s s' f Hr0 Hr Hx Hw Hm | s s' f r e Hr0 He Hs Hr Hx Hw Hm | s s' f r e Hr0 He Hc Hd Hr Hx Hw Hm
    | s s' f r e Hr0 He Hq Hr Hx Hw Hm | s s' f r e Hr0 He Hc Hr Hx Hw Hm | s s' f r e Hr0 He Herr Hr Hx Hw Hm
    | s s' r e f q He Hq Hck (Hx & Hr & Hw) Hm | s s' r e f q He Hq Hck (Hx & Hr & Hw) Hm]; intros HM HW.
  - intros r e He. rewrite Hw. rewrite Hm in He. exact (HW _ _ He).
  - apply IH2; [exact (MapWf_change _ _ H12 HM)|]. apply IH1; assumption.
  - apply (Win_upd _ _ _ _ Hw Hm); [|exact HW]. intros e He.
    destruct (Hn e He) as (H1 & _ & _ & _ & H5 & _). unfold same_win. rewrite H5. auto.
  - (* new *)
    intros r e He. rewrite Hw. rewrite Hm in He.
    destruct (Nat.lt_ge_cases r (length (s_mexes s))) as [Hlt|Hge].
    + rewrite nth_error_app1 in He by exact Hlt. exact (HW _ _ He).
    + rewrite nth_error_app2 in He by exact Hge.
      destruct (r - length (s_mexes s))%nat as [|k] eqn:Ek; cbn in He; [|destruct k; discriminate].
      inversion He; subst e. unfold win_ok, window, seg. cbn. rewrite skipn_all. cbn.
      split; [reflexivity|]. split; [lia|discriminate].
  - (* delete *)
    intros r' e' He'. rewrite Hw. rewrite Hm in He'.
    apply nth_upd_inv in He' as (e & He & [[-> ->]|[Hne ->]]); [|exact (HW _ _ He)].
    destruct (HW _ _ He) as (W1 & W2 & W3).
    unfold win_ok, window, seg, g_close. cbn.
    destruct (g_to (m_g e)) as [t|] eqn:Et.
    + unfold window, seg in W1. rewrite Et in W1. split; [exact W1|]. split; [exact W2|]. intros t' Ht'. inversion Ht'; subst. auto.
    + unfold window, seg in W1. rewrite Et in W1. split.
      * rewrite W1. f_equal. symmetry. apply firstn_all2. rewrite skipn_length. lia.
      * split; [exact W2|]. intros t' Ht'. inversion Ht'; subst. lia.
  - (* lookup *)
    destruct HM as (Hnd & HM2 & HM3).
    intros r' e' He'. rewrite Hw.
    assert (Hcase : exists e, nth_error (s_mexes s) r' = Some e /\
              ((lookup (f_id f) (s_exch s) = Some r' /\ e' = g_arrive f e) \/
               (lookup (f_id f) (s_exch s) <> Some r' /\ e' = e))).
    { rewrite Hm in He'. destruct (lookup (f_id f) (s_exch s)) as [r0|] eqn:El.
      - apply nth_upd_inv in He' as (e & He & [[-> ->]|[Hne ->]]); exists e; split; auto.
        right. split; [congruence|reflexivity].
      - exists e'. split; [exact He'|]. right. split; [discriminate|reflexivity]. }
    destruct Hcase as (e & He & [[El ->]|[El ->]]); destruct (HW _ _ He) as (W1 & W2 & W3).
    + (* the exchange found by the lookup *)
      apply lookup_in in El. destruct (HM2 _ _ El) as (e0 & He0 & Hid0 & Hto0).
      assert (e0 = e) by congruence. subst e0.
      unfold win_ok, window, seg, g_arrive. cbn. rewrite Hto0.
      unfold window, seg in W1. rewrite Hto0 in W1.
      split; [|split; [rewrite app_length; lia|intros t Ht; discriminate]].
      rewrite skipn_app_le by exact W2. rewrite filter_app, <- W1. cbn.
      unfold has_id. rewrite Hid0, Z.eqb_refl. reflexivity.
    + (* any other exchange *)
      unfold win_ok, window, seg. unfold window, seg in W1.
      destruct (g_to (m_g e)) as [t|] eqn:Et.
      * destruct (W3 t eq_refl) as [Wa Wb].
        split; [|split; [rewrite app_length; lia|intros t' Ht'; inversion Ht'; subst; rewrite app_length; lia]].
        rewrite skipn_app_le by exact W2. rewrite firstn_app_le; [exact W1|]. rewrite skipn_length. lia.
      * split; [|split; [rewrite app_length; lia|intros t' Ht'; discriminate]].
        rewrite skipn_app_le by exact W2. rewrite filter_app, <- W1. cbn.
        unfold has_id. destruct (f_id f =? m_id e) eqn:Eid; [|now rewrite app_nil_r].
        exfalso. apply El. specialize (HM3 _ _ He Et).
        replace (f_id f) with (m_id e) by lia. apply in_lookup; assumption.
  - intros r0 e0 He0. rewrite Hw. rewrite Hm in He0. exact (HW _ _ He0).
  - intros r0 e0 He0. rewrite Hw. rewrite Hm in He0. exact (HW _ _ He0).
  - intros r0 e0 He0. rewrite Hw. rewrite Hm in He0. exact (HW _ _ He0).
  - apply (Win_upd _ _ _ _ Hw Hm); [|exact HW]. intros e0 _. repeat split.
  - intros r0 e0 He0. rewrite Hw. rewrite Hm in He0. exact (HW _ _ He0).
  - apply (Win_upd _ _ _ _ Hw Hm); [|exact HW]. intros e0 _. repeat split.
  - apply (Win_upd _ _ _ _ Hw Hm); [|exact HW]. intros e0 _. repeat split.
  - apply (Win_upd _ _ _ _ Hw Hm); [|exact HW]. intros e0 _. repeat split.
Qed.

(* ------------------------------------------------------------------ reachable states *)
Definition Inv (s : st) : Prop := MapWf s /\ Ord s /\ Win s.

Lemma Inv_init : Inv init.
Proof.
  split; [|split].
  - split; [constructor|]. split; [intros id r []|]. intros [|r] e H; discriminate.
  - split; [exact I|]. intros [|r] e H; discriminate.
  - intros [|r] e H; discriminate.
Qed.

Lemma Inv_step s l s' : Inv s -> step s l = Some s' -> Inv s'.
Proof.
  intros (HM & HO & HW) H. apply step_change in H.
  split; [exact (MapWf_change _ _ H HM)|]. split; [exact (Ord_change _ _ H HM HO)|exact (Win_change _ _ H HM HW)].
Qed.

Lemma Inv_run_from ls : forall s s', Inv s -> run_from step s ls = Some s' -> Inv s'.
Proof.
  induction ls as [|l ls IH]; intros s s' Hi H; cbn in H.
  - inversion H; subst. exact Hi.
  - destruct (step s l) as [s1|] eqn:E; [|discriminate]. exact (IH _ _ (Inv_step _ _ _ Hi E) H).
Qed.

Lemma Inv_run ls s : run ls = Some s -> Inv s.
Proof. exact (Inv_run_from ls init s Inv_init). Qed.

(* ------------------------------------------------------------------ C04_demux / C04_no_gap *)
Theorem demux : forall ls s r e,
  run ls = Some s -> nth_error (s_mexes s) r = Some e ->
  let g := m_g e in
  (* what was put on the exchange's queue is an initial segment, in arrival order, of the
     frames carrying its id that arrived while it was registered: nothing foreign, nothing
     reordered, nothing skipped *)
  prefix (g_delivered g) (window e (s_wire s)) /\
  subseq (g_delivered g) (window e (s_wire s)) /\
  Forall (fun f => f_id f = m_id e) (g_delivered g) /\
  (* the consumer has received a prefix of it, the rest is still queued, the queue is bounded *)
  g_delivered g = g_received g ++ m_queue e /\
  zlen (m_queue e) <= m_cap e.
Proof.
  intros ls s r e Hrun He g. destruct (Inv_run _ _ Hrun) as (HM & [_ HO] & HW).
  destruct (HO _ _ He) as (O1 & O2 & O3 & _ & _ & _ & O7 & _). destruct (HW _ _ He) as (W1 & _).
  fold g in O1, O2, O3, W1. rewrite <- W1.
  split; [exact O3|]. split; [exact (prefix_subseq _ _ O3)|]. split; [|split; [exact O1|exact O7]].
  destruct O3 as [rest Hr]. rewrite Hr in O2. apply Forall_app in O2. exact (proj1 O2).
Qed.

Theorem no_gap : forall ls s r e,
  run ls = Some s -> nth_error (s_mexes s) r = Some e ->
  prefix (g_received (m_g e)) (window e (s_wire s)) /\
  (length (g_received (m_g e)) = length (window e (s_wire s)) -> g_received (m_g e) = window e (s_wire s)).
Proof.
  intros ls s r e Hrun He. destruct (demux _ _ _ _ Hrun He) as (P & _ & _ & D & _).
  assert (Hp : prefix (g_received (m_g e)) (window e (s_wire s))).
  { eapply prefix_trans; [|exact P]. exists (m_queue e). exact D. }
  split; [exact Hp|]. intros Hl. exact (prefix_length_eq _ _ Hp Hl).
Qed.

(* the ghost interval is the registration interval: an exchange is in the exchanges map
   exactly while its interval is open, under its own id, and ids in the map are distinct *)
Theorem registered_iff : forall ls s,
  run ls = Some s ->
  NoDup (map fst (s_exch s)) /\
  (forall id r, In (id, r) (s_exch s) <->
     exists e, nth_error (s_mexes s) r = Some e /\ m_id e = id /\ g_to (m_g e) = None).
Proof.
  intros ls s Hrun. destruct (Inv_run _ _ Hrun) as ((Hnd & H2 & H3) & _ & _).
  split; [exact Hnd|]. intros id r. split; [apply H2|].
  intros (e & He & <- & Hto). exact (H3 _ _ He Hto).
Qed.

(* a frame is refused only because the exchange's context is done or its error latch is set *)
Definition is_fwd (l : label) : bool :=
  match l with LFwdNil | LFwdCheck | LFwdSend | LFwdCtxDone | LFwdErr => true | _ => false end.

Theorem refusal_cause : forall ls s l s' code,
  run ls = Some s -> is_fwd l = true -> step_obs true s l = Some (s', [code]) -> code <> 0 ->
  exists f r e, (s_reader s = RLooked f (Some r) \/ s_reader s = RSelect f r) /\
    nth_error (s_mexes s) r = Some e /\
    ((m_ctx e <> 0 /\ code = ctx_err (m_ctx e)) \/ (m_err e <> 0 /\ code = m_err e)).
Proof.
  intros ls s l s' code Hrun Hl Hs Hc. destruct (Inv_run _ _ Hrun) as (_ & [_ HO] & _).
  destruct l; try discriminate; cbn in Hs.
  - destruct (s_reader s) as [|f [r|]|]; try discriminate. inversion Hs; subst. congruence.
  - destruct (s_reader s) as [|f [r|]|] eqn:Er; try discriminate.
    destruct (nth_error (s_mexes s) r) as [e|] eqn:Ee; [|discriminate].
    exists f, r, e. split; [left; reflexivity|]. split; [exact Ee|].
    destruct (negb (m_ctx e =? 0)) eqn:Ec.
    { inversion Hs; subst. left. split; [lia|reflexivity]. }
    destruct (m_dropped e) eqn:Ed; inversion Hs; subst.
    right. split; [|reflexivity]. destruct (HO _ _ Ee) as (_ & _ & _ & _ & _ & O6 & _). exact (O6 Ed).
  - destruct (s_reader s) as [| |f r]; try discriminate.
    destruct (nth_error (s_mexes s) r) as [e|]; [|discriminate].
    destruct (zlen (m_queue e) <? m_cap e); inversion Hs; subst. congruence.
  - destruct (s_reader s) as [| |f r] eqn:Er; try discriminate.
    destruct (nth_error (s_mexes s) r) as [e|] eqn:Ee; [|discriminate].
    destruct (negb (m_ctx e =? 0)) eqn:Ec; inversion Hs; subst.
    exists f, r, e. split; [right; reflexivity|]. split; [exact Ee|]. left. split; [lia|reflexivity].
  - destruct (s_reader s) as [| |f r] eqn:Er; try discriminate.
    destruct (nth_error (s_mexes s) r) as [e|] eqn:Ee; [|discriminate].
    destruct (m_err e =? 0) eqn:Eerr; [discriminate|].
    destruct (zlen (m_queue e) <? m_cap e); inversion Hs; subst; [congruence|].
    exists f, r, e. split; [right; reflexivity|]. split; [exact Ee|]. right. split; [lia|reflexivity].
Qed.

(* a duplicate live id is rejected and changes nothing; a fresh id on a live set is registered *)
Theorem new_duplicate_rejected : forall s id cap r,
  1 <= cap -> s_shutdown s = false -> lookup id (s_exch s) = Some r ->
  step_obs true s (LNew id cap) = Some (s, [E_DUPLICATE]).
Proof.
  intros s id cap r Hc Hs Hl. cbn. destruct (cap <? 1) eqn:E; [lia|]. rewrite Hs, Hl. reflexivity.
Qed.

Theorem new_fresh_registered : forall s id cap,
  1 <= cap -> s_shutdown s = false -> lookup id (s_exch s) = None ->
  exists s', step_obs true s (LNew id cap) = Some (s', [0; Z.of_nat (length (s_mexes s))]) /\
             lookup id (s_exch s') = Some (length (s_mexes s)).
Proof.
  intros s id cap Hc Hs Hl. cbn. destruct (cap <? 1) eqn:E; [lia|]. rewrite Hs, Hl.
  eexists. split; [reflexivity|]. cbn. now rewrite Z.eqb_refl.
Qed.

(* ------------------------------------------------------------------ the pinned code has the gap *)
Definition gap_trace : list label :=
  [LNew 7 2;
   LLookup (mkF 7 1); LFwdCheck; LFwdSend; LLookup (mkF 7 2); LFwdCheck; LFwdSend;
   LStopCopy 10; LStopNotify 0;
   LLookup (mkF 7 3); LFwdCheck; LFwdErr;            (* queue full, latch set: frame 3 dropped *)
   LRecvCheck 0; LRecvFrame 0;                       (* consumer takes frame 1 *)
   LLookup (mkF 7 4); LFwdCheck; LFwdSend;           (* frame 4 is delivered behind the hole *)
   LRecvCheck 0; LRecvFrame 0; LRecvCheck 0; LRecvFrame 0].

Lemma not_prefix_124 : ~ prefix [mkF 7 1; mkF 7 2; mkF 7 4] [mkF 7 1; mkF 7 2; mkF 7 3; mkF 7 4].
Proof. intros [r H]. cbn in H. inversion H. Qed.

Theorem no_gap_pinned_refuted : exists ls s e,
  run_pinned ls = Some s /\ nth_error (s_mexes s) 0 = Some e /\
  ~ prefix (g_received (m_g e)) (window e (s_wire s)).
Proof.
  exists gap_trace.
  destruct (run_pinned gap_trace) as [s|] eqn:E; [|vm_compute in E; discriminate].
  destruct (nth_error (s_mexes s) 0) as [e|] eqn:Ee.
  2:{ exfalso. vm_compute in E. inversion E; subst. discriminate. }
  exists s, e. split; [reflexivity|]. split; [exact Ee|].
  vm_compute in E. inversion E; subst. cbn in Ee. inversion Ee; subst. exact not_prefix_124.
Qed.

(* the same schedule on the repaired code: frame 4 is refused too *)
Example gap_trace_repaired :
  exists s e, run_from step init (firstn 16 gap_trace) = Some s /\ nth_error (s_mexes s) 0 = Some e /\
    step_obs true s LFwdSend = None /\ s_reader s = RIdle /\
    map f_tag (g_delivered (m_g e)) = [1; 2] /\ m_dropped e = true.
Proof. vm_compute. eexists. eexists. repeat split. Qed.

(* ------------------------------------------------------------------ who can unregister an exchange *)
Definition is_deleting (l : label) : bool :=
  match l with LShutRemove _ | LExpire _ | LRemoveId _ => true | _ => false end.

(* the labels through which exchange r (carrying id) removes ITSELF from the set *)
Definition own_label (l : label) (r : nat) (id : Z) : Prop :=
  l = LShutRemove r \/ l = LExpire r \/ l = LRemoveId id.

Lemma exch_mono s l s' : step s l = Some s' -> is_deleting l = false -> incl (s_exch s) (s_exch s').
Proof.
  unfold step. destruct (step_obs true s l) as [[s1 o]|] eqn:E; cbn; [|discriminate].
  intros H Hd; inversion H; subst s1; clear H.
  destruct l; try discriminate Hd; cbn in E;
    repeat match type of E with
           | context [match ?x with _ => _ end] => destruct x eqn:?; try discriminate E
           end;
    inversion E; subst; cbn; try apply incl_refl; try (apply incl_tl, incl_refl).
Qed.

Lemma delete_closes id s s' b1 b2 r e e' :
  delete_exchange id s = (s', b1, b2) ->
  nth_error (s_mexes s) r = Some e -> g_to (m_g e) = None ->
  nth_error (s_mexes s') r = Some e' -> g_to (m_g e') <> None ->
  lookup id (s_exch s) = Some r.
Proof.
  unfold delete_exchange. destruct (lookup id (s_exch s)) as [r0|] eqn:El.
  - intros H He Hto He' Hto'. inversion H; subst; clear H. cbn in He'.
    apply nth_upd_inv in He' as (e0 & He0 & [[-> ->]|[Hne ->]]); [reflexivity|].
    exfalso. assert (e0 = e) by congruence. subst. contradiction.
  - destruct (existsb (Z.eqb id) (s_expired s)); intros H He Hto He' Hto'; inversion H; subst; cbn in He';
      exfalso; assert (e' = e) by congruence; subst; contradiction.
Qed.

Lemma remove_closes id s r e e' :
  nth_error (s_mexes s) r = Some e -> g_to (m_g e) = None ->
  nth_error (s_mexes (remove_exchange id s)) r = Some e' -> g_to (m_g e') <> None ->
  lookup id (s_exch s) = Some r.
Proof.
  unfold remove_exchange. destruct (delete_exchange id s) as [[s' b1] b2] eqn:E.
  intros He Hto He' Hto'. apply (delete_closes _ _ _ _ _ _ _ e' E He Hto); [|exact Hto'].
  destruct (b1 || b2); exact He'.
Qed.

Lemma expire_closes id s r e e' :
  nth_error (s_mexes s) r = Some e -> g_to (m_g e) = None ->
  nth_error (s_mexes (expire_exchange id s)) r = Some e' -> g_to (m_g e') <> None ->
  lookup id (s_exch s) = Some r.
Proof.
  unfold expire_exchange. destruct (delete_exchange id s) as [[s' b1] b2] eqn:E.
  intros He Hto He' Hto'. apply (delete_closes _ _ _ _ _ _ _ e' E He Hto); [|exact Hto'].
  destruct (b1 || b2); exact He'.
Qed.

Lemma NoDup_map_nth {A B} (f : A -> B) l i j a b :
  NoDup (map f l) -> nth_error l i = Some a -> nth_error l j = Some b -> f a = f b -> i = j.
Proof.
  intros Hnd Hi Hj Hf.
  assert (Hi' : nth_error (map f l) i = Some (f a)) by (rewrite nth_error_map, Hi; reflexivity).
  assert (Hj' : nth_error (map f l) j = Some (f b)) by (rewrite nth_error_map, Hj; reflexivity).
  rewrite <- Hf in Hj'.
  apply (proj1 (NoDup_nth_error (map f l)) Hnd).
  - apply nth_error_Some. congruence.
  - congruence.
Qed.

(* PARTIAL (hypothesis: no message id has been re-used on this connection): the step that
   takes an exchange out of the set is one of that exchange's own removal steps *)
Theorem own_removal_partial : forall ls s l s' r e e',
  run ls = Some s -> step s l = Some s' ->
  NoDup (map m_id (s_mexes s)) ->
  nth_error (s_mexes s) r = Some e -> g_to (m_g e) = None ->
  nth_error (s_mexes s') r = Some e' -> g_to (m_g e') <> None ->
  own_label l r (m_id e).
Proof.
  intros ls s l s' r e e' Hrun Hstep Hnd He Hto He' Hto'.
  pose proof (Inv_run _ _ Hrun) as Hinv. pose proof (Inv_step _ _ _ Hinv Hstep) as Hinv'.
  destruct Hinv as ((HM1 & HM2 & HM3) & _ & _). destruct Hinv' as ((_ & HM2' & _) & _ & _).
  destruct (is_deleting l) eqn:Hd.
  - unfold step in Hstep. destruct (step_obs true s l) as [[s1 o]|] eqn:E; cbn in Hstep; [|discriminate].
    inversion Hstep; subst s1; clear Hstep.
    destruct l; try discriminate Hd; cbn in E.
    + (* LShutRemove r0 *)
      destruct (nth_error (s_mexes s) r0) as [e0|] eqn:E0; [|discriminate].
      destruct (m_spc e0 =? 2); [|discriminate]. inversion E; subst; clear E.
      assert (He1 : nth_error (s_mexes (upd_mex r0 (set_spc 3) s)) r = Some (if Nat.eqb r r0 then set_spc 3 e else e)).
      { cbn. destruct (Nat.eqb_spec r r0) as [->|Hne].
        - apply nth_upd_same. exact He.
        - rewrite nth_upd_other by auto. exact He. }
      assert (Hl : lookup (m_id e0) (s_exch s) = Some r).
      { apply (remove_closes _ _ _ _ e' He1); [destruct (Nat.eqb r r0); exact Hto|exact He'|exact Hto']. }
      apply lookup_in in Hl. destruct (HM2 _ _ Hl) as (e1 & He1' & Hid & _).
      assert (e1 = e) by congruence. subst e1.
      left. f_equal. symmetry. apply (NoDup_map_nth m_id _ _ _ _ _ Hnd He E0). exact Hid.
    + (* LExpire r0 *)
      destruct (nth_error (s_mexes s) r0) as [e0|] eqn:E0; [|discriminate]. inversion E; subst; clear E.
      pose proof (expire_closes _ _ _ _ e' He Hto He' Hto') as Hl.
      apply lookup_in in Hl. destruct (HM2 _ _ Hl) as (e1 & He1' & Hid & _).
      assert (e1 = e) by congruence. subst e1.
      right. left. f_equal. symmetry. apply (NoDup_map_nth m_id _ _ _ _ _ Hnd He E0). exact Hid.
    + (* LRemoveId id *)
      inversion E; subst; clear E.
      pose proof (remove_closes _ _ _ _ e' He Hto He' Hto') as Hl.
      apply lookup_in in Hl. destruct (HM2 _ _ Hl) as (e1 & He1' & Hid & _).
      assert (e1 = e) by congruence. subst e1. right. right. f_equal. symmetry. exact Hid.
  - exfalso. pose proof (exch_mono _ _ _ Hstep Hd) as Hincl.
    specialize (HM3 _ _ He Hto). apply Hincl in HM3.
    destruct (HM2' _ _ HM3) as (e1 & He1 & _ & Hto1). assert (e1 = e') by congruence. subst. contradiction.
Qed.

(* REFUTED without that hypothesis: removal is keyed by message id, so a stale
   inboundExpired()/shutdown() of an OLDER exchange removes a newer one registered under the
   re-used id (known finding c04:stale-removal-by-id) *)
Theorem own_removal_refuted : exists ls s l s' r e e',
  run ls = Some s /\ step s l = Some s' /\
  nth_error (s_mexes s) r = Some e /\ g_to (m_g e) = None /\
  nth_error (s_mexes s') r = Some e' /\ g_to (m_g e') <> None /\
  ~ own_label l r (m_id e).
Proof.
  exists [LNew 5 2; LExpire 0; LNew 5 2].
  eexists. exists (LExpire 0). eexists. exists 1%nat. eexists. eexists.
  split; [vm_compute; reflexivity|]. split; [vm_compute; reflexivity|].
  split; [vm_compute; reflexivity|]. split; [reflexivity|].
  split; [vm_compute; reflexivity|]. split; [cbn; discriminate|].
  intros [H|[H|H]]; discriminate H.
Qed.

(* ------------------------------------------------------------------ a refused frame is final *)
(* exchange r refuses every frame from now on and the reader is not about to deliver to it:
   its delivery log stays D for ever *)
Definition frozen (r : nat) (D : list frame) (s : st) : Prop :=
  (forall f, s_reader s <> RSelect f r) /\
  exists e, nth_error (s_mexes s) r = Some e /\ (m_dropped e = true \/ m_ctx e <> 0) /\ g_delivered (m_g e) = D.

Lemma frozen_upd r D s s' r0 f :
  s_mexes s' = upd r0 f (s_mexes s) -> (forall g, s_reader s' <> RSelect g r) ->
  (forall e, nth_error (s_mexes s) r0 = Some e -> r0 = r ->
     (m_dropped e = true \/ m_ctx e <> 0) ->
     (m_dropped (f e) = true \/ m_ctx (f e) <> 0) /\ g_delivered (m_g (f e)) = g_delivered (m_g e)) ->
  frozen r D s -> frozen r D s'.
Proof.
  intros Hm Hrd Hf [_ (e & He & Hs & HD)]. split; [exact Hrd|]. rewrite Hm.
  destruct (Nat.eq_dec r0 r) as [->|Hne].
  - exists (f e). rewrite (nth_upd_same _ _ _ _ He). destruct (Hf e He eq_refl Hs) as [H1 H2].
    split; [reflexivity|]. split; [exact H1|congruence].
  - exists e. rewrite nth_upd_other by exact Hne. auto.
Qed.

Lemma frozen_same r D s s' :
  s_mexes s' = s_mexes s -> (forall g, s_reader s' <> RSelect g r) -> frozen r D s -> frozen r D s'.
Proof. intros Hm Hrd [_ H]. split; [exact Hrd|]. rewrite Hm. exact H. Qed.

Lemma frozen_change r D s s' : change s s' -> frozen r D s -> frozen r D s'.
Proof.
  intros H. induction H as
    [s s' (Hx & Hr & Hw) Hm | s1 s2 s3 H12 IH1 _ IH2 | s s' r0 f (Hx & Hr & Hw) Hm Hn
    | s s' id cap Hc Hl Hx Hm Hr Hw | s s' id r0 Hl Hx Hm Hr Hw | s s' f Hr0 Hr Hw Hx Hm
    | s s' f Hr0 Hr Hx Hw Hm | s s' f r0 e0 Hr0 He Hs Hr Hx Hw Hm | s s' f r0 e0 Hr0 He Hc Hd Hr Hx Hw Hm
    | s s' f r0 e0 Hr0 He Hq Hr Hx Hw Hm | s s' f r0 e0 Hr0 He Hc Hr Hx Hw Hm | s s' f r0 e0 Hr0 He Herr Hr Hx Hw Hm
    | s s' r0 e0 f q He Hq Hck (Hx & Hr & Hw) Hm | s s' r0 e0 f q He Hq Hck (Hx & Hr & Hw) Hm]; intros HF.
  - apply (frozen_same _ _ _ _ Hm); [rewrite Hr; exact (proj1 HF)|exact HF].
  - auto.
  - apply (frozen_upd _ _ _ _ _ _ Hm); [rewrite Hr; exact (proj1 HF)| |exact HF].
    intros e He _ Hs. destruct (Hn e He) as (_ & _ & _ & Hd & Hg & Hctx & _). rewrite Hg. split; [|reflexivity].
    destruct Hs as [Hs|Hs]; [left; congruence|right]. destruct Hctx as [Hc|Hc]; congruence.
  - destruct HF as [Hrd (e & He & Hs & HD)]. split; [rewrite Hr; exact Hrd|]. rewrite Hm.
    exists e. rewrite nth_error_app1; [auto|]. apply nth_error_Some. congruence.
  - apply (frozen_upd _ _ _ _ _ _ Hm); [rewrite Hr; exact (proj1 HF)| |exact HF]. intros e _ _ Hs. auto.
  - destruct (lookup (f_id f) (s_exch s)) as [r0|].
    + apply (frozen_upd _ _ _ _ _ _ Hm); [rewrite Hr; discriminate| |exact HF]. intros e _ _ Hs. auto.
    + apply (frozen_same _ _ _ _ Hm); [rewrite Hr; discriminate|exact HF].
  - apply (frozen_same _ _ _ _ Hm); [rewrite Hr; discriminate|exact HF].
  - apply (frozen_same _ _ _ _ Hm); [rewrite Hr; discriminate|exact HF].
  - apply (frozen_same _ _ _ _ Hm); [|exact HF]. rewrite Hr. intros g Hg. inversion Hg; subst.
    destruct HF as [_ (e & He' & Hs & _)]. assert (e = e0) by congruence. subst. destruct Hs; congruence.
  - assert (Hne : r0 <> r). { intros ->. exact (proj1 HF f Hr0). }
    apply (frozen_upd _ _ _ _ _ _ Hm); [rewrite Hr; discriminate| |exact HF]. intros e _ Heq. contradiction.
  - apply (frozen_same _ _ _ _ Hm); [rewrite Hr; discriminate|exact HF].
  - assert (Hne : r0 <> r). { intros ->. exact (proj1 HF f Hr0). }
    apply (frozen_upd _ _ _ _ _ _ Hm); [rewrite Hr; discriminate| |exact HF]. intros e _ Heq. contradiction.
  - apply (frozen_upd _ _ _ _ _ _ Hm); [rewrite Hr; exact (proj1 HF)| |exact HF]. intros e _ _ Hs. auto.
  - apply (frozen_upd _ _ _ _ _ _ Hm); [rewrite Hr; exact (proj1 HF)| |exact HF]. intros e _ _ Hs. auto.
Qed.

Lemma frozen_run r D ls : forall s s', frozen r D s -> run_from step s ls = Some s' -> frozen r D s'.
Proof.
  induction ls as [|l ls IH]; intros s s' HF H; cbn in H.
  - inversion H; subst. exact HF.
  - destruct (step s l) as [s1|] eqn:E; [|discriminate].
    exact (IH _ _ (frozen_change _ _ _ _ (step_change _ _ _ E) HF) H).
Qed.

Lemma run_from_app stp ls1 : forall ls2 s s1 s2,
  run_from stp s ls1 = Some s1 -> run_from stp s1 ls2 = Some s2 -> run_from stp s (ls1 ++ ls2) = Some s2.
Proof.
  induction ls1 as [|l ls1 IH]; intros ls2 s s1 s2 H1 H2; cbn in *.
  - inversion H1; subst. exact H2.
  - destruct (stp s l) as [s0|]; [|discriminate]. exact (IH _ _ _ _ H1 H2).
Qed.

(* once a frame that arrived for an exchange has not been delivered (and the reader is not
   holding a frame for it), nothing is ever delivered to it again: its consumer can receive at
   most what was delivered before the refusal, in every continuation of the schedule *)
Theorem refused_final : forall ls s r e,
  run ls = Some s -> nth_error (s_mexes s) r = Some e ->
  (forall f, s_reader s <> RLooked f (Some r) /\ s_reader s <> RSelect f r) ->
  g_delivered (m_g e) <> window e (s_wire s) ->
  forall ls' s' e', run_from step s ls' = Some s' -> nth_error (s_mexes s') r = Some e' ->
  g_delivered (m_g e') = g_delivered (m_g e) /\ prefix (g_received (m_g e')) (g_delivered (m_g e)).
Proof.
  intros ls s r e Hrun He Hh Hneq ls' s' e' Hrun' He'.
  destruct (Inv_run _ _ Hrun) as (_ & [_ HO] & HW).
  destruct (HO _ _ He) as (_ & _ & _ & _ & O5 & _). destruct (HW _ _ He) as (W1 & _).
  assert (Hs : m_dropped e = true \/ m_ctx e <> 0).
  { destruct (m_dropped e) eqn:Ed; [left; reflexivity|]. destruct (Z.eq_dec (m_ctx e) 0) as [Ec|Ec]; [|right; exact Ec].
    exfalso. apply Hneq. rewrite <- W1. symmetry. apply (proj2 (O5 eq_refl Ec)). exact Hh. }
  assert (HF : frozen r (g_delivered (m_g e)) s).
  { split; [intros f; exact (proj2 (Hh f))|]. exists e. auto. }
  pose proof (frozen_run _ _ _ _ _ HF Hrun') as [_ (e1 & He1 & _ & HD)].
  assert (e1 = e') by congruence. subst e1.
  pose proof (run_from_app _ _ _ _ _ _ Hrun Hrun') as Hrun2.
  destruct (demux _ _ _ _ Hrun2 He') as (P & _ & _ & D & _).
  split; [exact HD|]. rewrite <- HD. exists (m_queue e'). exact D.
Qed.

(* ------------------------------------------------------------------ final forms used by Props/C04.v *)
Lemma shuffle : forall (ids : list Z) (seqs : list (list frame)) (w : list frame),
  NoDup ids -> Forall2 (fun i s => Forall (fun f => f_id f = i) s) ids seqs -> interleaving seqs w ->
  Forall2 (fun i s => filter (fun f => f_id f =? i) w = s) ids seqs.
Proof. intros ids seqs w Hnd Ht Hi. exact (shuffle_gen seqs w Hi ids Hnd Ht). Qed.

Lemma shuffle_foreign : forall (ids : list Z) (seqs : list (list frame)) (w : list frame) j,
  Forall2 (fun i s => Forall (fun f => f_id f = i) s) ids seqs -> interleaving seqs w -> ~ In j ids ->
  filter (fun f => f_id f =? j) w = [].
Proof.
  intros ids seqs w j Ht Hi. revert ids Ht. induction Hi as [ls Hnil | ls1 x l ls2 w H IH]; intros ids Ht Hj.
  - reflexivity.
  - destruct (tagged_app_inv _ _ _ _ Ht) as (ids1 & i & ids2 & -> & Hlen & H1 & Hx & H2).
    inversion Hx as [|x' l' Hxi Hl]; subst. cbn.
    destruct (f_id x =? j) eqn:E.
    + exfalso. apply Hj. apply in_or_app. right. left. lia.
    + apply (IH (ids1 ++ f_id x :: ids2)); [|exact Hj]. apply Forall2_app; [exact H1|]. constructor; assumption.
Qed.

Lemma ids_distinct : forall n start, Z.of_nat n <= 2 ^ 32 ->
  NoDup (alloc_ids n start) /\ Forall (fun i => 0 <= i < 2 ^ 32) (alloc_ids n start) /\
  (forall k, (k < n)%nat -> nth_error (alloc_ids n start) k = Some ((start + 1 + Z.of_nat k) mod 2 ^ 32)).
Proof.
  intros n start Hn. split; [exact (alloc_ids_distinct n start Hn)|]. split; [exact (alloc_ids_range n start)|].
  intros k Hk. rewrite alloc_ids_spec, nth_error_map.
  rewrite (nth_error_nth' (seq 1 n) O) by (rewrite seq_length; exact Hk).
  rewrite seq_nth by exact Hk. cbn [option_map]. unfold wrapU. f_equal. f_equal. lia.
Qed.
