(* Proofs about Model/RelayHold.v: with the frame paths as threads whose exits are those of the
   code, the relay item map drains: once no timer is armed and every callback, collection and
   frame path has returned, there are no items, no tombstones and no pending calls.
   Invariant: the item registered under an id is, if it is a tombstone, awaited by a pending
   collection; otherwise its timer is armed, or its timer callback is running, or a THREAD that
   stopped the timer is still on its way to finishRelayItem / failRelayItem. *)
From Coq Require Import ZArith List Bool Lia ZifyBool.
From Verif Require Import Base.Wire Model.MexDrain Model.RelayDrain Model.RelayHold
  Proofs.RelayDrainP Proofs.CallDrainP.
Import ListNotations.
Local Open Scope Z_scope.

(* ---- the exits of the frame paths ------------------------------------------------------ *)

(* A frame path that stopped the timer of a live item (the frame finishes the call, the lookup
   found a live item and Stop() succeeded) ends in finishRelayItem or in failRelayItem,
   whatever the frame looks like and whatever the destination does. *)
Lemma nc_exit_discharges mt parse_ok mutated dest_sent :
  let c := nc_exit true false true true mt parse_ok mutated dest_sent in
  e_fail c || e_finish c = true.
Proof. destruct dest_sent; reflexivity. Qed.

Lemma rc_exit_discharges a b c d queue_ok :
  let e := rc_exit true false true true a b c d queue_ok in
  e_fail e || e_finish e = true.
Proof. destruct queue_ok; reflexivity. Qed.

Lemma tail_discharges x i : holding0 x = true -> e_fail (tail_code x i) || e_finish (tail_code x i) = true.
Proof.
  unfold holding0. intros H. apply andb_true_iff in H as [H Ht]. apply andb_true_iff in H as [Hf Hs].
  destruct i as [mt p m d|a b c d q]; cbn [tail_code]; rewrite Hf, Hs;
    destruct (ht_tomb x); try discriminate.
  - apply nc_exit_discharges.
  - apply rc_exit_discharges.
Qed.

(* ---- holders ----------------------------------------------------------------------------- *)

Definition holder (thr : list hthread) (id : Z) : Prop :=
  exists x, In x thr /\ ht_id x = id /\ holding x = true.

Lemma holder_app thr l id : holder thr id -> holder (thr ++ l) id.
Proof. intros (x & Hin & H). exists x. split; [apply in_or_app; left; exact Hin|exact H]. Qed.

Lemma holder_app_new thr x : holding x = true -> holder (thr ++ [x]) (ht_id x).
Proof. intros H. exists x. split; [apply in_or_app; right; left; reflexivity|]. split; [reflexivity|exact H]. Qed.

Lemma In_upd_nth {A} n (x x' y : A) l :
  nth_error l n = Some x -> In y l -> In y (upd_nth n x' l) \/ y = x.
Proof.
  revert n. induction l as [|z r IH]; intros n Hn Hin; [destruct Hin|].
  destruct n; cbn [nth_error upd_nth] in *.
  - injection Hn as ->. destruct Hin as [->|Hin]; [right; reflexivity|left; right; exact Hin].
  - destruct Hin as [->|Hin]; [left; left; reflexivity|].
    destruct (IH _ Hn Hin) as [H|H]; [left; right; exact H|right; exact H].
Qed.

Lemma In_upd_nth_new {A} n (x x' : A) l : nth_error l n = Some x -> In x' (upd_nth n x' l).
Proof.
  intros Hn. apply (nth_error_In _ n). apply nth_upd_nth_same. apply nth_error_Some. rewrite Hn. discriminate.
Qed.

(* the thread at index n changes; it stays a holder if it was one *)
Lemma holder_upd_keep thr n x x' id :
  nth_error thr n = Some x -> ht_id x' = ht_id x -> (holding x = true -> holding x' = true) ->
  holder thr id -> holder (upd_nth n x' thr) id.
Proof.
  intros Hn Hid Hk (y & Hin & Hy & Hh).
  destruct (In_upd_nth n x x' y thr Hn Hin) as [H| ->].
  - exists y. auto.
  - exists x'. split; [eapply In_upd_nth_new; eauto|]. split; [congruence|auto].
Qed.

(* the thread at index n changes arbitrarily: holders of OTHER ids are not affected *)
Lemma holder_upd_other thr n x x' id :
  nth_error thr n = Some x -> ht_id x' = ht_id x -> id <> ht_id x ->
  holder thr id -> holder (upd_nth n x' thr) id.
Proof.
  intros Hn Hid Hne (y & Hin & Hy & Hh).
  destruct (In_upd_nth n x x' y thr Hn Hin) as [H| ->]; [|congruence].
  exists y. auto.
Qed.

(* a thread that held nothing changes: nobody loses a holder *)
Lemma holder_upd_drop thr n x x' id :
  nth_error thr n = Some x -> holding x = false -> holder thr id -> holder (upd_nth n x' thr) id.
Proof.
  intros Hn Hf (y & Hin & Hy & Hh).
  destruct (In_upd_nth n x x' y thr Hn Hin) as [H| ->]; [|congruence].
  exists y. auto.
Qed.

Lemma holder_upd_same thr n x x' :
  nth_error thr n = Some x -> holding x' = true -> holder (upd_nth n x' thr) (ht_id x').
Proof. intros Hn Hh. exists x'. split; [eapply In_upd_nth_new; eauto|auto]. Qed.

Lemma holding_into_fail x : ht_pc x = 0 -> holding x = true -> holding (at_pc x 1) = true.
Proof.
  intros Hp. unfold holding, holding0. cbn [at_pc ht_pc ht_fin ht_stopped ht_tomb]. rewrite Hp.
  destruct (ht_fin x && ht_stopped x && negb (ht_tomb x)); cbn; auto.
Qed.

Lemma get_ht_nth s t x : get_ht s t = Some x -> nth_error (hs_thr s) (Z.to_nat t) = Some x.
Proof. unfold get_ht. destruct (t <? 0); [discriminate|auto]. Qed.

(* ---- the invariant ------------------------------------------------------------------------ *)

Definition HKItem (r : rstate) (thr : list hthread) (id : Z) (it : ritem) : Prop :=
  if ri_tomb it then In id (rs_gc r)
  else (ri_timer it = 0 \/ holder thr id \/ In id (rs_firing r)).

(* a live item whose timer is neither armed nor stopped has its callback running *)
Definition HFItem (r : rstate) (id : Z) (it : ritem) : Prop :=
  ri_tomb it = false -> ri_timer it <> 0 -> ri_timer it <> 1 -> In id (rs_firing r).

Definition HInv (s : hstate) : Prop :=
  forall id it, get_item id (rs_items (hs_r s)) = Some it ->
    HKItem (hs_r s) (hs_thr s) id it /\ HFItem (hs_r s) id it.

Lemma HInv_frame id0 s s' :
  HInv s ->
  (forall id, id <> id0 -> get_item id (rs_items (hs_r s')) = get_item id (rs_items (hs_r s))) ->
  (forall id, id <> id0 -> In id (rs_gc (hs_r s)) -> In id (rs_gc (hs_r s'))) ->
  (forall id, id <> id0 -> In id (rs_firing (hs_r s)) -> In id (rs_firing (hs_r s'))) ->
  (forall id, id <> id0 -> holder (hs_thr s) id -> holder (hs_thr s') id) ->
  (forall it', get_item id0 (rs_items (hs_r s')) = Some it' ->
     HKItem (hs_r s') (hs_thr s') id0 it' /\ HFItem (hs_r s') id0 it') ->
  HInv s'.
Proof.
  intros HI Hit Hgc Hfi Hho H0 id it Hget.
  destruct (Z.eq_dec id id0) as [->|Hne]; [apply H0; exact Hget|].
  rewrite (Hit id Hne) in Hget. destruct (HI id it Hget) as [HK HF].
  unfold HKItem, HFItem in *. split.
  - destruct (ri_tomb it); [apply Hgc; assumption|].
    destruct HK as [Hz|[Hh|Hf]]; [left; exact Hz|right; left; apply Hho; assumption|right; right; apply Hfi; assumption].
  - intros Ht H1 H2. apply Hfi; [assumption|]. apply HF; assumption.
Qed.

Lemma HInv_init mt : HInv (hs_init mt).
Proof. intros id it H. cbn in H. discriminate. Qed.

(* ---- what the map primitives do to one entry ---------------------------------------------- *)

Lemma r_stop_get id id' r :
  get_item id' (rs_items (r_stop id r)) =
  if id' =? id
  then match get_item id (rs_items r) with
       | Some it => Some {| ri_tomb := ri_tomb it; ri_timer := fst (timer_stop (ri_timer it)) |}
       | None => None
       end
  else get_item id' (rs_items r).
Proof.
  unfold r_stop. destruct (get_item id (rs_items r)) as [it|] eqn:Hg.
  - cbn [with_items rs_items]. rewrite get_set, Hg. reflexivity.
  - destruct (id' =? id) eqn:E; [|reflexivity]. assert (id' = id) by lia. subst. exact Hg.
Qed.

Lemma r_stop_gc id r : rs_gc (r_stop id r) = rs_gc r.
Proof. unfold r_stop. destruct (get_item id (rs_items r)); reflexivity. Qed.
Lemma r_stop_firing id r : rs_firing (r_stop id r) = rs_firing r.
Proof. unfold r_stop. destruct (get_item id (rs_items r)); reflexivity. Qed.

Lemma r_delete_get id id' r :
  get_item id' (rs_items (snd (r_delete id r))) = if id' =? id then None else get_item id' (rs_items r).
Proof.
  unfold r_delete. destruct (get_item id (rs_items r)) as [it|] eqn:Hg; cbn [snd rs_items].
  - apply get_del.
  - destruct (id' =? id) eqn:E; [|reflexivity]. assert (id' = id) by lia. subst. exact Hg.
Qed.

Lemma r_delete_gc id r : rs_gc (snd (r_delete id r)) = rs_gc r.
Proof. unfold r_delete. destruct (get_item id (rs_items r)); reflexivity. Qed.
Lemma r_delete_firing id r : rs_firing (snd (r_delete id r)) = rs_firing r.
Proof. unfold r_delete. destruct (get_item id (rs_items r)); reflexivity. Qed.

Lemma finish_with_items p : rs_items (finish_with p) = rs_items (snd p).
Proof. destruct p as [[] r]; reflexivity. Qed.
Lemma finish_with_gc p : rs_gc (finish_with p) = rs_gc (snd p).
Proof. destruct p as [[] r]; reflexivity. Qed.
Lemma finish_with_firing p : rs_firing (finish_with p) = rs_firing (snd p).
Proof. destruct p as [[] r]; reflexivity. Qed.

Lemma r_entomb_get_other id id' r :
  id' <> id -> get_item id' (rs_items (snd (r_entomb id r))) = get_item id' (rs_items r).
Proof.
  intros Hne. unfold r_entomb. destruct (rs_maxtombs r <? rs_tombs r).
  - rewrite r_delete_get. assert (id' =? id = false) as -> by lia. reflexivity.
  - destruct (get_item id (rs_items r)) as [it|]; [|reflexivity].
    destruct (ri_tomb it); cbn [snd rs_items]; [reflexivity|].
    rewrite get_set. assert (id' =? id = false) as -> by lia. reflexivity.
Qed.

Lemma r_entomb_gc_mono id r x : In x (rs_gc r) -> In x (rs_gc (snd (r_entomb id r))).
Proof.
  intros H. unfold r_entomb. destruct (rs_maxtombs r <? rs_tombs r); [rewrite r_delete_gc; exact H|].
  destruct (get_item id (rs_items r)) as [it|]; [|exact H].
  destruct (ri_tomb it); cbn [snd rs_gc]; [exact H|right; exact H].
Qed.

Lemma r_entomb_firing id r : rs_firing (snd (r_entomb id r)) = rs_firing r.
Proof.
  unfold r_entomb. destruct (rs_maxtombs r <? rs_tombs r); [apply r_delete_firing|].
  destruct (get_item id (rs_items r)) as [it|]; [|reflexivity]. destruct (ri_tomb it); reflexivity.
Qed.

(* after Entomb(id) the entry of id, if any, is a tombstone awaited by a collection *)
Lemma r_entomb_get_same id r it' :
  (forall it, get_item id (rs_items r) = Some it -> ri_tomb it = true -> In id (rs_gc r)) ->
  get_item id (rs_items (snd (r_entomb id r))) = Some it' ->
  ri_tomb it' = true /\ In id (rs_gc (snd (r_entomb id r))).
Proof.
  intros Hpre. unfold r_entomb. destruct (rs_maxtombs r <? rs_tombs r).
  - rewrite r_delete_get, Z.eqb_refl. discriminate.
  - destruct (get_item id (rs_items r)) as [it|] eqn:Hg; cbn [snd].
    + destruct (ri_tomb it) eqn:Ht; cbn [snd rs_items rs_gc].
      * rewrite Hg. intros H. injection H as <-. split; [exact Ht|]. exact (Hpre it eq_refl Ht).
      * rewrite get_set, Z.eqb_refl, Hg. intros H. injection H as <-. split; [reflexivity|left; reflexivity].
    + rewrite Hg. discriminate.
Qed.

(* ---- the invariant is preserved ------------------------------------------------------------ *)

Lemma HInv_step s l s' : HInv s -> hstep s l = Some s' -> HInv s'.
Proof.
  intros HI Hs. destruct l as [id0|id0|id0|id0|id0 fin|t i|id0|t|t]; cbn [hstep] in Hs.
  - (* HAdd *)
    unfold lift_r in Hs. cbn [rstep] in Hs.
    destruct (get_item id0 (rs_items (hs_r s))) eqn:Hg; [discriminate|]. injection Hs as <-.
    apply (HInv_frame id0 s); cbn [hs_r hs_thr rs_items rs_gc rs_firing]; auto.
    + intros id Hne. cbn [get_item]. assert (id0 =? id = false) as -> by lia. reflexivity.
    + intros it'. cbn [get_item]. rewrite Z.eqb_refl. intros H. injection H as <-.
      split; [left; reflexivity|]. intros _ H0. cbn in H0. congruence.
  - (* HFireStart *)
    unfold lift_r in Hs. cbn [rstep] in Hs.
    destruct (get_item id0 (rs_items (hs_r s))) as [it0|] eqn:Hg; [|discriminate].
    destruct (ri_timer it0 =? 0); [|discriminate]. injection Hs as <-.
    apply (HInv_frame id0 s); cbn [hs_r hs_thr rs_items rs_gc rs_firing]; auto.
    + intros id Hne. rewrite get_set. assert (id =? id0 = false) as -> by lia. reflexivity.
    + intros id _ H. right. exact H.
    + intros it'. rewrite get_set, Z.eqb_refl, Hg. intros H. injection H as <-.
      destruct (HI id0 it0 Hg) as [HK _]. unfold HKItem, HFItem in *. cbn [ri_tomb ri_timer rs_gc rs_firing].
      split; [|intros; left; reflexivity].
      destruct (ri_tomb it0); [exact HK|]. right. right. left. reflexivity.
  - (* HFireEntomb *)
    unfold lift_r in Hs. cbn [rstep] in Hs.
    destruct (has id0 (rs_firing (hs_r s))); [|discriminate]. injection Hs as <-.
    apply (HInv_frame id0 s); cbn [hs_r hs_thr]; auto.
    + intros id Hne. rewrite finish_with_items, (r_entomb_get_other _ _ _ Hne). reflexivity.
    + intros id _ H. rewrite finish_with_gc. apply r_entomb_gc_mono. exact H.
    + intros id Hne H. rewrite finish_with_firing, r_entomb_firing. cbn [drop_firing rs_firing].
      apply in_remove1_other; assumption.
    + intros it' Hget. rewrite finish_with_items in Hget.
      assert (Hpre : forall it, get_item id0 (rs_items (drop_firing id0 (hs_r s))) = Some it -> ri_tomb it = true ->
                                In id0 (rs_gc (drop_firing id0 (hs_r s)))).
      { cbn [drop_firing rs_items rs_gc]. intros it Hg Ht. destruct (HI id0 it Hg) as [HK _].
        unfold HKItem in HK. rewrite Ht in HK. exact HK. }
      destruct (r_entomb_get_same _ _ _ Hpre Hget) as [Ht Hin].
      unfold HKItem, HFItem. rewrite Ht, finish_with_gc. split; [exact Hin|discriminate].
  - (* HGc *)
    destruct (has id0 (rs_gc (hs_r s))); [|discriminate]. injection Hs as <-.
    assert (Hitems : forall id, get_item id (rs_items (r_delete_tomb id0 (drop_gc id0 (hs_r s)))) =
              match get_item id0 (rs_items (hs_r s)) with
              | Some it => if ri_tomb it then (if id =? id0 then None else get_item id (rs_items (hs_r s)))
                           else get_item id (rs_items (hs_r s))
              | None => get_item id (rs_items (hs_r s))
              end).
    { intros id. unfold r_delete_tomb. cbn [drop_gc rs_items].
      destruct (get_item id0 (rs_items (hs_r s))) as [it|]; [|reflexivity].
      destruct (ri_tomb it); [|reflexivity]. rewrite r_delete_get. reflexivity. }
    assert (Hgc : rs_gc (r_delete_tomb id0 (drop_gc id0 (hs_r s))) = remove1 id0 (rs_gc (hs_r s))).
    { unfold r_delete_tomb. cbn [drop_gc rs_items].
      destruct (get_item id0 (rs_items (hs_r s))) as [it|]; [|reflexivity].
      destruct (ri_tomb it); [|reflexivity]. rewrite r_delete_gc. reflexivity. }
    assert (Hfi : rs_firing (r_delete_tomb id0 (drop_gc id0 (hs_r s))) = rs_firing (hs_r s)).
    { unfold r_delete_tomb. cbn [drop_gc rs_items].
      destruct (get_item id0 (rs_items (hs_r s))) as [it|]; [|reflexivity].
      destruct (ri_tomb it); [|reflexivity]. rewrite r_delete_firing. reflexivity. }
    apply (HInv_frame id0 s); cbn [hs_r hs_thr]; auto.
    + intros id Hne. rewrite Hitems. assert (id =? id0 = false) as -> by lia.
      destruct (get_item id0 (rs_items (hs_r s))) as [it|]; [destruct (ri_tomb it)|]; reflexivity.
    + intros id Hne H. rewrite Hgc. apply in_remove1_other; assumption.
    + intros id _ H. rewrite Hfi. exact H.
    + intros it'. rewrite Hitems, Z.eqb_refl.
      destruct (get_item id0 (rs_items (hs_r s))) as [it|] eqn:Hg; [|discriminate].
      destruct (ri_tomb it) eqn:Ht; [discriminate|]. intros H. injection H as <-.
      destruct (HI id0 it Hg) as [HK HF]. unfold HKItem, HFItem in *. rewrite Ht in *. rewrite Hfi. split; assumption.
  - (* HFrame *)
    destruct (get_item id0 (rs_items (hs_r s))) as [it|] eqn:Hg; injection Hs as <-; [|exact HI].
    destruct (HI id0 it Hg) as [HK HF].
    destruct fin; cbn [andb].
    + apply (HInv_frame id0 s); cbn [hs_r hs_thr]; auto.
      * intros id Hne. rewrite r_stop_get. assert (id =? id0 = false) as -> by lia. reflexivity.
      * intros id _ H. rewrite r_stop_gc. exact H.
      * intros id _ H. rewrite r_stop_firing. exact H.
      * intros id _ H. apply holder_app. exact H.
      * intros it'. rewrite r_stop_get, Z.eqb_refl, Hg. intros H. injection H as <-.
        unfold HKItem, HFItem in *. rewrite r_stop_gc, r_stop_firing. cbn [ri_tomb ri_timer].
        destruct (ri_tomb it) eqn:Ht; [split; [exact HK|discriminate]|].
        unfold timer_stop. destruct (ri_timer it =? 1) eqn:E1; cbn [fst snd].
        { split; [|intros; lia]. right. left.
          apply (holder_app_new _ {| ht_id := id0; ht_fin := true; ht_tomb := false; ht_stopped := true; ht_pc := 0 |}). reflexivity. }
        destruct (ri_timer it =? 0) eqn:E0; cbn [fst snd].
        { split; [|intros; lia]. right. left.
          apply (holder_app_new _ {| ht_id := id0; ht_fin := true; ht_tomb := false; ht_stopped := true; ht_pc := 0 |}). reflexivity. }
        split; [|exact HF].
        destruct HK as [Hz|[Hh|Hf]]; [lia|right; left; apply holder_app; exact Hh|right; right; exact Hf].
    + apply (HInv_frame id0 s); cbn [hs_r hs_thr]; auto.
      * intros id _ H. apply holder_app. exact H.
      * intros it'. rewrite Hg. intros H. injection H as <-. split; [|exact HF].
        unfold HKItem in *. destruct (ri_tomb it); [exact HK|].
        destruct HK as [Hz|[Hh|Hf]]; [left; exact Hz|right; left; apply holder_app; exact Hh|right; right; exact Hf].
  - (* HTail *)
    destruct (get_ht s t) as [x|] eqn:Hg; [|discriminate].
    destruct (ht_pc x =? 0) eqn:Hpc; [|discriminate].
    pose proof (get_ht_nth _ _ _ Hg) as Hn.
    assert (Hh01 : holding x = holding0 x).
    { unfold holding. rewrite Hpc. assert (ht_pc x =? 2 = false) as -> by lia. cbn [orb andb]. apply orb_false_r. }
    destruct (e_fail (tail_code x i)) eqn:Hf.
    + (* into failRelayItem: the hold goes along *)
      injection Hs as <-. apply (HInv_frame (ht_id x) s); cbn [set_ht hs_r hs_thr]; auto.
      * intros id _ H. eapply holder_upd_keep; eauto. apply holding_into_fail. lia.
      * intros it' Hget. destruct (HI _ _ Hget) as [HK HF]. split; [|exact HF].
        unfold HKItem in *. destruct (ri_tomb it'); [exact HK|].
        destruct HK as [Hz|[Hh|Hfi]]; [left; exact Hz| |right; right; exact Hfi].
        right. left. eapply holder_upd_keep; eauto. apply holding_into_fail. lia.
    + destruct (e_finish (tail_code x i)) eqn:Hfin; injection Hs as <-.
      * (* finishRelayItem *)
        apply (HInv_frame (ht_id x) s); cbn [set_ht hs_r hs_thr]; auto.
        -- intros id Hne. rewrite finish_with_items, r_delete_get. assert (id =? ht_id x = false) as -> by lia. reflexivity.
        -- intros id _ H. rewrite finish_with_gc, r_delete_gc. exact H.
        -- intros id _ H. rewrite finish_with_firing, r_delete_firing. exact H.
        -- intros id Hne H. eapply holder_upd_other; eauto.
        -- intros it'. rewrite finish_with_items, r_delete_get, Z.eqb_refl. discriminate.
      * (* the path returns without touching the item: it held nothing *)
        assert (Hnh : holding x = false).
        { rewrite Hh01. destruct (holding0 x) eqn:H0; [|reflexivity].
          pose proof (tail_discharges x i H0) as H. rewrite Hf, Hfin in H. discriminate. }
        apply (HInv_frame (ht_id x) s); cbn [set_ht hs_r hs_thr]; auto.
        -- intros id _ H. eapply holder_upd_drop; eauto.
        -- intros it' Hget. destruct (HI _ _ Hget) as [HK HF]. split; [|exact HF].
           unfold HKItem in *. destruct (ri_tomb it'); [exact HK|].
           destruct HK as [Hz|[Hh|Hfi]]; [left; exact Hz| |right; right; exact Hfi].
           right. left. eapply holder_upd_drop; eauto.
  - (* HFail *)
    injection Hs as <-. apply (HInv_frame id0 s); cbn [hs_r hs_thr]; auto.
    + intros id _ H. apply holder_app. exact H.
    + intros it' Hget. destruct (HI _ _ Hget) as [HK HF]. split; [|exact HF].
      unfold HKItem in *. destruct (ri_tomb it'); [exact HK|].
      destruct HK as [Hz|[Hh|Hfi]]; [left; exact Hz|right; left; apply holder_app; exact Hh|right; right; exact Hfi].
  - (* HFailGet *)
    destruct (get_ht s t) as [x|] eqn:Hg; [|discriminate].
    destruct (ht_pc x =? 1) eqn:Hpc; [|discriminate].
    pose proof (get_ht_nth _ _ _ Hg) as Hn.
    destruct (get_item (ht_id x) (rs_items (hs_r s))) as [it|] eqn:Hgi.
    + destruct (HI _ _ Hgi) as [HK HF].
      destruct (snd (timer_stop (ri_timer it))) eqn:Hst; injection Hs as <-.
      * (* stopped: on to Entomb, as a holder *)
        apply (HInv_frame (ht_id x) s); cbn [set_ht hs_r hs_thr]; auto.
        -- intros id Hne. rewrite r_stop_get. assert (id =? ht_id x = false) as -> by lia. reflexivity.
        -- intros id _ H. rewrite r_stop_gc. exact H.
        -- intros id _ H. rewrite r_stop_firing. exact H.
        -- intros id Hne H. eapply holder_upd_other; eauto.
        -- intros it'. rewrite r_stop_get, Z.eqb_refl, Hgi. intros H. injection H as <-.
           unfold HKItem, HFItem in *. rewrite r_stop_gc, r_stop_firing. cbn [ri_tomb ri_timer].
           destruct (ri_tomb it); [split; [exact HK|discriminate]|].
           split.
           ++ right. left. apply (holder_upd_same _ _ x (at_pc x 2) Hn). reflexivity.
           ++ intros _ H0 H1. exfalso. unfold timer_stop in *.
              destruct (ri_timer it =? 1); cbn [fst snd] in *; [lia|].
              destruct (ri_timer it =? 0); cbn [fst snd] in *; [lia|discriminate].
      * (* not stopped: the timer callback owns the item *)
        assert (Htm : fst (timer_stop (ri_timer it)) = ri_timer it /\ ri_timer it <> 0 /\ ri_timer it <> 1).
        { unfold timer_stop in *. destruct (ri_timer it =? 1) eqn:E1; cbn [fst snd] in *; [discriminate|].
          destruct (ri_timer it =? 0) eqn:E0; cbn [fst snd] in *; [discriminate|]. lia. }
        destruct Htm as (Htm & Hn0 & Hn1).
        apply (HInv_frame (ht_id x) s); cbn [set_ht hs_r hs_thr]; auto.
        -- intros id Hne. rewrite r_stop_get. assert (id =? ht_id x = false) as -> by lia. reflexivity.
        -- intros id _ H. rewrite r_stop_gc. exact H.
        -- intros id _ H. rewrite r_stop_firing. exact H.
        -- intros id Hne H. eapply holder_upd_other; eauto.
        -- intros it'. rewrite r_stop_get, Z.eqb_refl, Hgi. intros H. injection H as <-.
           unfold HKItem, HFItem in *. rewrite r_stop_gc, r_stop_firing. cbn [ri_tomb ri_timer]. rewrite Htm.
           destruct (ri_tomb it); [split; [exact HK|discriminate]|].
           split; [|exact HF]. right. right. apply HF; auto.
    + injection Hs as <-. apply (HInv_frame (ht_id x) s); cbn [set_ht hs_r hs_thr]; auto.
      * intros id Hne H. eapply holder_upd_other; eauto.
      * intros it'. rewrite Hgi. discriminate.
  - (* HFailEntomb *)
    destruct (get_ht s t) as [x|] eqn:Hg; [|discriminate].
    destruct (ht_pc x =? 2) eqn:Hpc; [|discriminate]. injection Hs as <-.
    pose proof (get_ht_nth _ _ _ Hg) as Hn.
    apply (HInv_frame (ht_id x) s); cbn [set_ht hs_r hs_thr]; auto.
    + intros id Hne. rewrite finish_with_items. apply r_entomb_get_other. exact Hne.
    + intros id _ H. rewrite finish_with_gc. apply r_entomb_gc_mono. exact H.
    + intros id _ H. rewrite finish_with_firing, r_entomb_firing. exact H.
    + intros id Hne H. eapply holder_upd_other; eauto.
    + intros it' Hget. rewrite finish_with_items in Hget.
      assert (Hpre : forall it, get_item (ht_id x) (rs_items (hs_r s)) = Some it -> ri_tomb it = true -> In (ht_id x) (rs_gc (hs_r s))).
      { intros it Hgi Ht. destruct (HI _ _ Hgi) as [HK _]. unfold HKItem in HK. rewrite Ht in HK. exact HK. }
      destruct (r_entomb_get_same _ _ _ Hpre Hget) as [Ht Hin].
      unfold HKItem, HFItem. rewrite Ht, finish_with_gc. split; [exact Hin|discriminate].
Qed.

Lemma HInv_run ls : forall s s', HInv s -> hrun s ls = Some s' -> HInv s'.
Proof.
  induction ls as [|l r IH]; intros s s' HI Hr; cbn [hrun] in Hr.
  - injection Hr as <-. exact HI.
  - destruct (hstep s l) as [s1|] eqn:Hs; [|discriminate]. eapply IH; [|exact Hr]. eapply HInv_step; eauto.
Qed.

(* ---- counters: tombs, and pending = number of live items ---------------------------------- *)

Definition PInv (r : rstate) : Prop :=
  TInv r /\ rs_pending r + rs_tombs r = Z.of_nat (length (rs_items r)).

Lemma del_item_length id l it :
  NoDup (map fst l) -> get_item id l = Some it ->
  Z.of_nat (length (del_item id l)) = Z.of_nat (length l) - 1.
Proof.
  induction l as [|[k v] r IH]; cbn [get_item map fst]; [discriminate|].
  intros Hnd Hg. inversion Hnd as [|? ? Hnotin Hnd']; subst.
  unfold del_item. cbn [filter fst]. destruct (k =? id) eqn:E; cbn [negb].
  - assert (k = id) by lia. subst k. fold (del_item id r). rewrite (del_item_notin _ _ Hnotin). cbn [length]. lia.
  - fold (del_item id r). cbn [length]. rewrite Nat2Z.inj_succ, (IH Hnd' Hg). cbn [length]. lia.
Qed.

Lemma set_item_length id v l : length (set_item id v l) = length l.
Proof.
  induction l as [|[k x] r IH]; cbn [set_item length]; [reflexivity|].
  destruct (k =? id); cbn [length]; [reflexivity|]. rewrite IH. reflexivity.
Qed.

Lemma finish_delete_P id r : PInv r -> PInv (finish_with (r_delete id r)).
Proof.
  intros [HT Hsum]. split; [apply finish_with_T, r_delete_T; exact HT|].
  unfold r_delete. destruct (get_item id (rs_items r)) as [it|] eqn:Hg; [|exact Hsum].
  destruct HT as [Hnd _]. pose proof (del_item_length _ _ _ Hnd Hg) as Hl.
  destruct (ri_tomb it); cbn [negb finish_with dec_pending rout rs_pending rs_tombs rs_items]; lia.
Qed.

Lemma finish_entomb_P id r : PInv r -> PInv (finish_with (r_entomb id r)).
Proof.
  intros HP. pose proof (r_entomb_T id r (proj1 HP)) as HT'.
  split; [apply finish_with_T; exact HT'|]. clear HT'.
  unfold r_entomb. destruct (rs_maxtombs r <? rs_tombs r).
  - exact (proj2 (finish_delete_P id r HP)).
  - destruct HP as [HT Hsum]. destruct (get_item id (rs_items r)) as [it|] eqn:Hg; [|exact Hsum].
    destruct (ri_tomb it); [exact Hsum|].
    cbn [finish_with dec_pending rout rs_pending rs_tombs rs_items]. rewrite set_item_length. lia.
Qed.

Lemma r_stop_P id r : PInv r -> PInv (r_stop id r).
Proof.
  intros [[Hnd Hc] Hsum]. unfold r_stop. destruct (get_item id (rs_items r)) as [it|] eqn:Hg; [|repeat split; assumption].
  split; [split|]; cbn [with_items rs_items rs_tombs rs_pending].
  - rewrite set_item_fst. exact Hnd.
  - rewrite (set_item_ntombs _ _ _ _ Hg). cbn [ri_tomb]. lia.
  - rewrite set_item_length. exact Hsum.
Qed.

Lemma r_delete_tomb_P id r : PInv r -> PInv (r_delete_tomb id r).
Proof.
  intros HP. unfold r_delete_tomb. destruct (get_item id (rs_items r)) as [it|] eqn:Hg; [|exact HP].
  destruct (ri_tomb it) eqn:Ht; [|exact HP]. destruct HP as [HT Hsum].
  split; [apply r_delete_T; exact HT|].
  unfold r_delete. rewrite Hg, Ht. destruct HT as [Hnd _]. pose proof (del_item_length _ _ _ Hnd Hg) as Hl.
  cbn [snd rs_pending rs_tombs rs_items]. lia.
Qed.

Lemma PInv_step s l s' : PInv (hs_r s) -> hstep s l = Some s' -> PInv (hs_r s').
Proof.
  intros HP Hs. destruct l as [id0|id0|id0|id0|id0 fin|t i|id0|t|t]; cbn [hstep] in Hs.
  - unfold lift_r in Hs. cbn [rstep] in Hs.
    destruct (get_item id0 (rs_items (hs_r s))) eqn:Hg; [discriminate|]. injection Hs as <-. cbn [hs_r].
    destruct HP as [[Hnd Hc] Hsum]. split; [split|]; cbn [rs_items rs_tombs rs_pending map fst ntombs ri_tomb zb length].
    + constructor; [apply get_none_notin; exact Hg|exact Hnd].
    + lia.
    + lia.
  - unfold lift_r in Hs. cbn [rstep] in Hs.
    destruct (get_item id0 (rs_items (hs_r s))) as [it0|] eqn:Hg; [|discriminate].
    destruct (ri_timer it0 =? 0); [|discriminate]. injection Hs as <-. cbn [hs_r].
    destruct HP as [[Hnd Hc] Hsum]. split; [split|]; cbn [rs_items rs_tombs rs_pending].
    + rewrite set_item_fst. exact Hnd.
    + rewrite (set_item_ntombs _ _ _ _ Hg). cbn [ri_tomb]. lia.
    + rewrite set_item_length. exact Hsum.
  - unfold lift_r in Hs. cbn [rstep] in Hs.
    destruct (has id0 (rs_firing (hs_r s))); [|discriminate]. injection Hs as <-. cbn [hs_r].
    apply finish_entomb_P. exact HP.
  - destruct (has id0 (rs_gc (hs_r s))); [|discriminate]. injection Hs as <-. cbn [hs_r].
    apply r_delete_tomb_P. exact HP.
  - destruct (get_item id0 (rs_items (hs_r s))); injection Hs as <-; [|exact HP]. cbn [hs_r].
    destruct fin; [apply r_stop_P|]; exact HP.
  - destruct (get_ht s t) as [x|]; [|discriminate]. destruct (ht_pc x =? 0); [|discriminate].
    destruct (e_fail (tail_code x i)); [injection Hs as <-; exact HP|].
    destruct (e_finish (tail_code x i)); injection Hs as <-; cbn [set_ht hs_r]; [apply finish_delete_P|]; exact HP.
  - injection Hs as <-. exact HP.
  - destruct (get_ht s t) as [x|]; [|discriminate]. destruct (ht_pc x =? 1); [|discriminate].
    destruct (get_item (ht_id x) (rs_items (hs_r s))) as [it|]; [|injection Hs as <-; exact HP].
    destruct (snd (timer_stop (ri_timer it))); injection Hs as <-; cbn [set_ht hs_r]; apply r_stop_P; exact HP.
  - destruct (get_ht s t) as [x|]; [|discriminate]. destruct (ht_pc x =? 2); [|discriminate].
    injection Hs as <-. cbn [set_ht hs_r]. apply finish_entomb_P. exact HP.
Qed.

Lemma PInv_run ls : forall s s', PInv (hs_r s) -> hrun s ls = Some s' -> PInv (hs_r s').
Proof.
  induction ls as [|l r IH]; intros s s' HI Hr; cbn [hrun] in Hr.
  - injection Hr as <-. exact HI.
  - destruct (hstep s l) as [s1|] eqn:Hs; [|discriminate]. eapply IH; [|exact Hr]. eapply PInv_step; eauto.
Qed.

Lemma PInv_init mt : PInv (rs_init mt).
Proof. split; [split; [constructor|reflexivity]|reflexivity]. Qed.

(* Main theorem: for every maxTombs and every history of a relay item map -- calls admitted,
   timers firing, collections running, frames of any kind arriving on either frame path in any
   interleaving, each path doing after its lookup what the code does (finish, fail, forward or
   swallow, as decided by nc_exit / rc_exit), failRelayItem called from anywhere -- once no timer
   is armed and every callback, collection and frame path has returned, the map holds no item
   and no tombstone, the tombstone counter is 0 and so is the pending counter. *)
Theorem relay_paths_drained : forall mt ls s,
  hrun (hs_init mt) ls = Some s -> hold_quiet s = true ->
  rs_items (hs_r s) = [] /\ rs_tombs (hs_r s) = 0 /\ rs_pending (hs_r s) = 0.
Proof.
  intros mt ls s Hr Hq.
  pose proof (HInv_run ls _ _ (HInv_init mt) Hr) as HI.
  pose proof (PInv_run ls (hs_init mt) _ (PInv_init mt) Hr) as [[_ Hc] Hsum].
  unfold hold_quiet in Hq. apply andb_true_iff in Hq as [Hq Hth]. apply andb_true_iff in Hq as [Hq Hfi].
  apply andb_true_iff in Hq as [Hti Hgc].
  assert (Hitems : rs_items (hs_r s) = []).
  { destruct (rs_items (hs_r s)) as [|[k v] r] eqn:Hit; [reflexivity|exfalso].
    assert (Hget : get_item k (rs_items (hs_r s)) = Some v) by (rewrite Hit; cbn [get_item]; rewrite Z.eqb_refl; reflexivity).
    destruct (HI k v Hget) as [HK _]. unfold HKItem in HK.
    destruct (rs_gc (hs_r s)); [|discriminate]. destruct (rs_firing (hs_r s)); [|discriminate].
    cbn [forallb snd] in Hti. apply andb_true_iff in Hti as [Hv _].
    destruct (ri_tomb v); [exact HK|]. destruct HK as [Hz|[(x & Hin & _ & Hh)|[]]]; [lia|].
    rewrite forallb_forall in Hth. specialize (Hth x Hin).
    unfold holding in Hh. assert (ht_pc x = 3) by lia.
    replace (ht_pc x =? 0) with false in Hh by lia. replace (ht_pc x =? 1) with false in Hh by lia.
    replace (ht_pc x =? 2) with false in Hh by lia. discriminate. }
  rewrite Hitems in *. cbn [ntombs length] in *. repeat split; lia.
Qed.
