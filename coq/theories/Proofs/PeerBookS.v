(* Invariants of the bookkeeping model on runs in which every root-list deletion is SAFE
   (run_safe): peers with content or under acquisition stay in the root list, list membership
   is exact.  Built on the unconditional invariants of PeerBookP.v. *)
From Coq Require Import ZArith List Bool Lia Permutation.
From Verif Require Import Base.Wrap Gen.GenConsts Model.PeerBook Spec.PeerBookSpec Proofs.PeerBookL Proofs.PeerBookP.
Import ListNotations.
Local Open Scope Z_scope.

Definition plist (P : peer) : list Z := p_in P ++ p_out P.

(* the connection an activating goroutine works for *)
Definition act_of (p : pc) : option Z :=
  match p with
  | PAct1 c | PGet c _ | PChk c _ _ | PApp c _ _ => Some c
  | _ => None
  end.

(* host:ports the activating goroutine has still to list the connection under *)
Definition act_rem (s : st) (p : pc) : list Z :=
  match p with
  | PAct1 c => act_todo (s_conn s c)
  | PGet _ todo => todo
  | PChk _ pid todo | PApp _ pid todo => p_hp (s_peer s pid) :: todo
  | _ => []
  end.

(* S1: connections are well formed *)
Definition inv_conn (s : st) : Prop :=
  forall c, k_st (s_conn s c) <> 0 ->
    k_rhp (s_conn s c) <> 0 /\
    ((k_dir (s_conn s c) = c_inbound /\ k_ohp (s_conn s c) = 0) \/
     (k_dir (s_conn s c) = c_outbound /\ k_ohp (s_conn s c) <> 0)).

(* S2: an activating goroutine works for an existing connection, on a suffix of act_todo *)
Definition inv_pcs (s : st) : Prop :=
  forall t p c, s_thr s t = Some p -> act_of p = Some c ->
    k_st (s_conn s c) <> 0 /\ exists pre, act_todo (s_conn s c) = pre ++ act_rem s p.

(* S3: one activating goroutine per connection *)
Definition inv_uniq (s : st) : Prop :=
  forall t t' p p' c, s_thr s t = Some p -> s_thr s t' = Some p' ->
    act_of p = Some c -> act_of p' = Some c -> t = t'.

(* S4: a peer under acquisition is the root's peer for its host:port *)
Definition inv_held (s : st) : Prop :=
  (forall t p pid, s_thr s t = Some p -> acquiring (Some p) pid = true ->
     s_root s (p_hp (s_peer s pid)) = Some pid) /\
  (forall t lid hp pid, s_thr s t = Some (PAdd2 lid hp pid) -> p_hp (s_peer s pid) = hp).

(* S5: a peer with connections or references is the root's peer for its host:port;
   S6: list entries name the peer's host:port *)
Definition has_content (s : st) (pid : Z) : Prop :=
  plist (s_peer s pid) <> [] \/ exists lid hp, In (lid, hp, pid) (s_lists s).
Definition inv_rooted (s : st) : Prop :=
  (forall pid, has_content s pid -> s_root s (p_hp (s_peer s pid)) = Some pid) /\
  (forall lid hp pid, In (lid, hp, pid) (s_lists s) -> p_hp (s_peer s pid) = hp).

(* a close-state callback of connection c that will still look at Peer object pid *)
Definition cb_cov (s : st) (p : pc) (c pid : Z) : Prop :=
  let hp := p_hp (s_peer s pid) in
  match p with
  | PCb1 c' => c' = c
  | PCbGet c' todo => c' = c /\ In hp todo
  | PCbRem c' q todo => c' = c /\ (q = pid \/ In hp todo)
  | PCol1 c' _ todo | PCol2 c' _ _ todo | PCol3 c' _ todo => c' = c /\ In hp todo
  | _ => False
  end.

(* S7: what is listed *)
Definition inv_listed (s : st) : Prop :=
  forall pid,
    let P := s_peer s pid in
    NoDup (plist P) /\
    forall c, In c (plist P) ->
      k_st (s_conn s c) <> 0 /\
      (In c (p_in P) -> k_dir (s_conn s c) = c_inbound) /\
      (In c (p_out P) -> k_dir (s_conn s c) <> c_inbound) /\
      In (p_hp P) (act_todo (s_conn s c)) /\
      (k_st (s_conn s c) = c_connectionActive \/
       exists t p, s_thr s t = Some p /\ cb_cov s p c pid).

(* S8: a connection is not yet listed under a host:port its activation has still to visit *)
Definition inv_notyet (s : st) : Prop :=
  forall t p c pid, s_thr s t = Some p -> act_of p = Some c ->
    In (p_hp (s_peer s pid)) (act_rem s p) -> ~ In c (plist (s_peer s pid)).

(* S9: an active connection is listed, or its activation will still do it *)
Definition dirlist (k : conn) (P : peer) : list Z :=
  if k_dir k =? c_inbound then p_in P else p_out P.
Definition inv_active (s : st) : Prop :=
  forall c hp, k_st (s_conn s c) = c_connectionActive -> In hp (act_todo (s_conn s c)) ->
    (exists t p, s_thr s t = Some p /\ act_of p = Some c /\ In hp (act_rem s p)) \/
    (exists pid, s_root s hp = Some pid /\ In c (dirlist (s_conn s c) (s_peer s pid))).

Record InvS (s : st) : Prop := {
  j_conn : inv_conn s; j_pcs : inv_pcs s; j_uniq : inv_uniq s; j_held : inv_held s;
  j_rooted : inv_rooted s; j_listed : inv_listed s; j_notyet : inv_notyet s; j_active : inv_active s }.

Lemma act_todo_with_st k s' : act_todo (with_st k s') = act_todo k.
Proof. reflexivity. Qed.
Lemma act_todo_with_acc k : act_todo (with_acc k) = act_todo k.
Proof. reflexivity. Qed.

Ltac fresh_facts s Hf :=
  let Hpos := fresh "Hpos" in let Hthr := fresh "Hthr" in let Hnew := fresh "Hnew" in
  let Hroot := fresh "Hroot" in let Hpc := fresh "Hpc" in let Hls := fresh "Hls" in
  destruct Hf as (Hpos & Hthr & Hnew & Hroot & Hpc & Hls);
  assert (Hthr' : forall x p, s_thr s x = Some p -> 0 <= x < s_next s)
    by (intros x_ p_ Hx_; apply Hthr; congruence).

Lemma step_conn s l s' : inv_fresh s -> inv_conn s -> step s l = Some s' -> inv_conn s'.
Proof.
  intros Hf Hc H. fresh_facts s Hf.
  step_cases H; try assumption; unfold inv_conn in *; simp_st; try assumption.
  all: intros c_; specialize (Hc c_); upd_all;
       cbn [k_st k_dir k_rhp k_ohp with_st with_acc]; try assumption.
  - intros _. apply andb_true_iff in E as [E1 E2]. apply negb_true_iff, Z.eqb_neq in E1.
    split; [assumption|]. apply orb_true_iff in E2 as [E2|E2]; apply andb_true_iff in E2 as [E2 E3];
      apply Z.eqb_eq in E2; [left|right]; split; auto.
    + now apply Z.eqb_eq in E3.
    + now apply negb_true_iff, Z.eqb_neq in E3.
  - intros _. apply Hc. apply andb_true_iff in E as [E _]. apply andb_true_iff in E as [E _].
    now apply negb_true_iff, Z.eqb_neq in E.
  - intros _. apply Hc. unfold is_active in E1. apply Z.eqb_eq in E1. rewrite E1. discriminate.
Qed.

Lemma act_todo_cons k : exists r, act_todo k = k_rhp k :: r.
Proof. unfold act_todo. eauto. Qed.

Lemma act_rem_transport s s' p :
  (forall c, k_st (s_conn s c) <> 0 -> k_st (s_conn s' c) <> 0 /\ act_todo (s_conn s' c) = act_todo (s_conn s c)) ->
  (forall pid, pid < s_next s -> p_hp (s_peer s' pid) = p_hp (s_peer s pid)) ->
  (forall q, pc_pid p = Some q -> q < s_next s) ->
  (forall c, act_of p = Some c -> k_st (s_conn s c) <> 0) ->
  act_rem s' p = act_rem s p.
Proof.
  intros HA HB Hq Hc. destruct p; cbn [act_rem]; try reflexivity.
  - apply HA, Hc. reflexivity.
  - rewrite HB; [reflexivity|]. apply Hq. reflexivity.
  - rewrite HB; [reflexivity|]. apply Hq. reflexivity.
Qed.

Lemma pcs_frame s s' :
  (forall c, k_st (s_conn s c) <> 0 -> k_st (s_conn s' c) <> 0 /\ act_todo (s_conn s' c) = act_todo (s_conn s c)) ->
  (forall pid, pid < s_next s -> p_hp (s_peer s' pid) = p_hp (s_peer s pid)) ->
  (forall t p c, s_thr s' t = Some p -> act_of p = Some c ->
       s_thr s t = Some p \/
       (k_st (s_conn s' c) <> 0 /\ exists pre, act_todo (s_conn s' c) = pre ++ act_rem s' p)) ->
  inv_fresh s -> inv_pcs s -> inv_pcs s'.
Proof.
  intros HA HB HT Hf Hc t p c Ht Ha. destruct (HT _ _ _ Ht Ha) as [Hold|Hnew]; [|exact Hnew].
  destruct (Hc _ _ _ Hold Ha) as [Hk [pre Hpre]].
  destruct Hf as (_ & _ & _ & _ & Hpc & _).
  destruct (HA _ Hk) as [Hk' Htodo]. split; [assumption|]. exists pre.
  rewrite Htodo, (act_rem_transport s s' p); auto.
  - intros q Hq. eapply Hpc; eauto.
  - intros c0 Hc0. rewrite Ha in Hc0. inversion Hc0; subst. assumption.
Qed.

(* premises (A) and (B) of the frame lemmas, for any concrete step *)
Ltac frame_AB Hnew :=
  let c_ := fresh "c_" in let Hk_ := fresh "Hk_" in let q_ := fresh "q_" in let Hq_ := fresh "Hq_" in
  first
  [ (* (A) connection attributes *)
    intros c_ Hk_; upd_all; cbn [k_st with_st with_acc act_todo_with_st]; rewrite ?act_todo_with_st, ?act_todo_with_acc;
    first [ split; [assumption|reflexivity]
          | split; [unfold c_connectionStartClose; discriminate|reflexivity]
          | exfalso; destruct (Hnew (s_next _) ltac:(lia)) as [Hk0_ _]; rewrite Hk0_ in Hk_; now apply Hk_ ]
  | (* (B) host:port of existing Peer objects *)
    intros q_ Hq_; upd_all; cbn [p_hp p_with_in p_with_out p_with_sc]; first [reflexivity | lia] ].

(* who is the goroutine of a program counter found in the new state *)
Ltac thr_cases Ht_ :=
  unfold upd in Ht_;
  repeat match type of Ht_ with
  | (if ?a =? ?b then _ else _) = _ => destruct (Z.eqb_spec a b); [try subst|]
  end.

Lemma step_pcs s l s' : Inv0 s -> inv_pcs s -> step s l = Some s' -> inv_pcs s'.
Proof.
  intros [Hf Hrt Hch _ _ _] Hc H. pose proof Hf as Hf0. fresh_facts s Hf.
  destruct Hch as (_ & _ & _ & _ & _ & Hrange).
  step_cases H; try assumption.
  all: apply pcs_frame with s; try assumption; simp_st.
  all: try solve [frame_AB Hnew].
  all: try solve [intros t_ p_ c_ Ht_ Ha_; thr_cases Ht_;
                  first [ left; assumption | discriminate Ht_
                        | inversion Ht_; subst p_; cbn [act_of] in Ha_; discriminate Ha_ ]].
  (* the moving goroutine t: derive the new suffix from the old one *)
  all: try (intros t_ p_ c_ Ht_ Ha_; thr_cases Ht_;
            [ inversion Ht_; subst p_; cbn [act_of] in Ha_; inversion Ha_; subst c_; right;
              destruct (Hc _ _ _ E eq_refl) as [Hk [pre Hpre]]; cbn [act_rem act_of] in *; simp_st
            | first [ left; assumption | discriminate Ht_
                    | inversion Ht_; subst p_; cbn [act_of] in Ha_; discriminate Ha_ ] .. ]).
  - (* LNew (A) *)
    intros c_ Hk_. destruct (Z.eq_dec c_ (s_next s)) as [->|Hne]; upd_tac; [|split; auto].
    exfalso. destruct (Hnew (s_next s) ltac:(lia)) as [Hk0 _]. rewrite Hk0 in Hk_. now apply Hk_.
  - (* LNew thread *)
    intros t_ p_ c_ Ht_ Ha_. thr_cases Ht_; [|left; assumption].
    inversion Ht_; subst p_. cbn [act_of] in Ha_. inversion Ha_; subst c_. right.
    rewrite upd_same. cbn [k_st]. split; [unfold c_connectionActive; discriminate|].
    exists []. cbn [act_rem app]. simp_st. now rewrite upd_same.
  - (* LChange (A) *)
    intros c_ Hk_. apply andb_true_iff in E as [E E3]. apply andb_true_iff in E as [E1 E2].
    apply Z.ltb_lt in E2. pose proof (Hrange c).
    destruct (Z.eq_dec c_ c) as [->|Hne]; upd_tac; [|split; auto].
    cbn [k_st with_st]. rewrite act_todo_with_st. split; [lia|reflexivity].
  - rewrite upd_same. cbn [k_st with_acc]. rewrite act_todo_with_acc. split; [assumption|]. now exists [].
  - rewrite upd_same. cbn [k_st with_st]. rewrite act_todo_with_st.
    split; [unfold c_connectionStartClose; discriminate|]. exists [k_rhp (s_conn s c)]. reflexivity.
  - split; [assumption|]. exists [k_rhp (s_conn s c)]. reflexivity.
  - split; [assumption|]. exists pre. now rewrite (Hrt _ _ H).
  - split; [assumption|]. exists pre. now rewrite upd_same.
  - split; [assumption|]. now exists pre.
  - split; [assumption|]. exists (pre ++ [p_hp (s_peer s pid)]). now rewrite <- app_assoc.
  - split; [assumption|]. exists (pre ++ [p_hp (s_peer s pid)]). now rewrite <- app_assoc.
  - split; [assumption|]. exists (pre ++ [p_hp (s_peer s pid)]). now rewrite <- app_assoc.
  - split; [assumption|]. exists (pre ++ [p_hp (s_peer s pid)]). now rewrite <- app_assoc.
Qed.

Lemma uniq_frame s s' :
  (forall t p c, s_thr s' t = Some p -> act_of p = Some c -> exists p0, s_thr s t = Some p0 /\ act_of p0 = Some c) ->
  inv_uniq s -> inv_uniq s'.
Proof.
  intros HT Hu t t' p p' c H1 H2 A1 A2.
  destruct (HT _ _ _ H1 A1) as (p0 & P0 & B0). destruct (HT _ _ _ H2 A2) as (p1 & P1 & B1).
  eapply Hu; eauto.
Qed.

Lemma step_uniq s l s' : Inv0 s -> inv_pcs s -> inv_uniq s -> step s l = Some s' -> inv_uniq s'.
Proof.
  intros [Hf _ _ _ _ _] Hp Hc H. fresh_facts s Hf.
  step_cases H; try assumption.
  all: try solve [apply uniq_frame with s; try assumption; simp_st;
    intros t_ p_ c_ Ht_ Ha_; thr_cases Ht_;
    first [ solve [eauto]
          | discriminate Ht_
          | inversion Ht_; try subst p_; cbn [act_of] in Ha_;
            first [ discriminate Ha_ | inversion Ha_; try subst c_; eexists; split; [exact E|reflexivity] ] ]].
  (* LNew: the new goroutine works for a fresh connection *)
  unfold inv_uniq; simp_st. intros t1 t2 p1 p2 c0 H1 H2 A1 A2.
  assert (Hfr : forall t0 p0, s_thr s t0 = Some p0 -> act_of p0 = Some (s_next s) -> False).
  { intros t0 p0 Ht0 Ha0. destruct (Hp _ _ _ Ht0 Ha0) as [Hk _].
    destruct (Hnew (s_next s) ltac:(lia)) as [Hk0 _]. rewrite Hk0 in Hk. now apply Hk. }
  thr_cases H1; thr_cases H2; try reflexivity.
  - inversion H1; subst p1. cbn [act_of] in A1. inversion A1; subst c0. exfalso; eauto.
  - inversion H2; subst p2. cbn [act_of] in A2. inversion A2; subst c0. exfalso; eauto.
  - eapply Hc; eauto.
Qed.

Lemma acquiring_pid p pid : acquiring (Some p) pid = true -> pc_pid p = Some pid.
Proof.
  destruct p; cbn [acquiring pc_pid]; try discriminate; intros H; apply Z.eqb_eq in H; congruence.
Qed.

Lemma held_frame s s' :
  (forall pid, pid < s_next s -> p_hp (s_peer s' pid) = p_hp (s_peer s pid)) ->
  (forall hp pid, s_root s hp = Some pid -> s_root s' hp = Some pid) ->
  (forall t p, s_thr s' t = Some p ->
     s_thr s t = Some p \/
     ((forall pid, acquiring (Some p) pid = true -> s_root s' (p_hp (s_peer s' pid)) = Some pid) /\
      (forall lid hp pid, p = PAdd2 lid hp pid -> p_hp (s_peer s' pid) = hp))) ->
  inv_fresh s -> inv_held s -> inv_held s'.
Proof.
  intros HB HR HT Hf [Ha Hb]. destruct Hf as (_ & _ & _ & _ & Hpc & _). split.
  - intros t p pid Ht Hq. destruct (HT _ _ Ht) as [Hold|[Hn _]]; [|now apply Hn].
    pose proof (Hpc _ _ _ Hold (acquiring_pid _ _ Hq)) as Hlt.
    rewrite HB by assumption. apply HR. eapply Ha; eauto.
  - intros t lid hp pid Ht. destruct (HT _ _ Ht) as [Hold|[_ Hn]]; [|now eapply Hn].
    pose proof (Hpc _ _ _ Hold eq_refl) as Hlt. rewrite HB by assumption. eapply Hb; eauto.
Qed.

Ltac frame_B := let q_ := fresh "q_" in let Hq_ := fresh "Hq_" in
  intros q_ Hq_; upd_all; cbn [p_hp p_with_in p_with_out p_with_sc]; first [reflexivity | lia].
Ltac frame_R Hroot := let h_ := fresh "h_" in let q_ := fresh "q_" in let Hq_ := fresh "Hq_" in
  intros h_ q_ Hq_; upd_all; first [assumption | congruence | (apply Hroot in Hq_; lia)].

Lemma step_held s l s' : Inv0 s -> inv_held s -> safe_label s l = true -> step s l = Some s' -> inv_held s'.
Proof.
  intros [Hf Hrt _ _ _ _] Hc Hsafe H. pose proof Hf as Hf0. fresh_facts s Hf.
  step_cases H; try assumption.
  all: try solve [apply held_frame with s; try assumption; simp_st;
         [ frame_B | frame_R Hroot
         | intros t_ p_ Ht_; thr_cases Ht_;
           first [ left; assumption | discriminate Ht_
                 | inversion Ht_; try subst p_; right; split;
                   [ intros q_ Hq_; cbn [acquiring] in Hq_; first [discriminate Hq_ | idtac]
                   | intros l_ h_ q_ Hq_; first [discriminate Hq_ | idtac] ] ] ]].
  - (* LListAdd, peer exists *)
    apply held_frame with s; try assumption; simp_st; [frame_B|frame_R Hroot|].
    intros t_ p_ Ht_; thr_cases Ht_; [|left; assumption]. inversion Ht_; subst p_. right. split.
    + intros q_ Hq_. cbn [acquiring] in Hq_. apply Z.eqb_eq in Hq_. subst q_. simp_st.
      now rewrite (Hrt _ _ H).
    + intros l_ h_ q_ Hq_. inversion Hq_; subst. simp_st. now apply Hrt.
  - (* LListAdd, peer created *)
    apply held_frame with s; try assumption; simp_st; [frame_B|frame_R Hroot|].
    intros t_ p_ Ht_; thr_cases Ht_; [|left; assumption]. inversion Ht_; subst p_. right. split.
    + intros q_ Hq_. cbn [acquiring] in Hq_. apply Z.eqb_eq in Hq_. subst q_. simp_st.
      rewrite (upd_same (s_peer s)). cbn [p_hp]. apply upd_same.
    + intros l_ h_ q_ Hq_. inversion Hq_; subst. simp_st. now rewrite upd_same.
  - (* PGet, peer exists *)
    apply held_frame with s; try assumption; simp_st; [frame_B|frame_R Hroot|].
    intros t_ p_ Ht_; thr_cases Ht_; [|left; assumption]. inversion Ht_; subst p_. right. split.
    + intros q_ Hq_. cbn [acquiring] in Hq_. apply Z.eqb_eq in Hq_. subst q_. simp_st.
      now rewrite (Hrt _ _ H).
    + intros l_ h_ q_ Hq_. discriminate Hq_.
  - (* PGet, peer created *)
    apply held_frame with s; try assumption; simp_st; [frame_B|frame_R Hroot|].
    intros t_ p_ Ht_; thr_cases Ht_; [|left; assumption]. inversion Ht_; subst p_. right. split.
    + intros q_ Hq_. cbn [acquiring] in Hq_. apply Z.eqb_eq in Hq_. subst q_. simp_st.
      rewrite (upd_same (s_peer s)). cbn [p_hp]. apply upd_same.
    + intros l_ h_ q_ Hq_. discriminate Hq_.
  - (* PChk -> PApp *)
    apply held_frame with s; try assumption; simp_st; [frame_B|frame_R Hroot|].
    intros t_ p_ Ht_; thr_cases Ht_; [|left; assumption]. inversion Ht_; subst p_. right. split.
    + intros q_ Hq_. cbn [acquiring] in Hq_. apply Z.eqb_eq in Hq_. subst q_. simp_st.
      destruct Hc as [Ha _]. apply (Ha _ _ pid E). cbn [acquiring]. apply Z.eqb_refl.
    + intros l_ h_ q_ Hq_. discriminate Hq_.
  - (* PCol3: a safe deletion *)
    cbn [safe_label] in Hsafe. rewrite E in Hsafe. unfold delete_safe in Hsafe.
    destruct Hc as [Ha Hb]. split; simp_st.
    + intros t_ p_ q_ Ht_ Hq_. thr_cases Ht_; [inversion Ht_; subst p_; discriminate Hq_|].
      pose proof (Ha _ _ _ Ht_ Hq_) as Hr.
      destruct (Z.eq_dec (p_hp (s_peer s q_)) hp) as [Heq|Hne]; [|now rewrite upd_other].
      exfalso. rewrite Heq in Hr. rewrite Hr in Hsafe. apply andb_true_iff in Hsafe as [_ Hs].
      apply negb_true_iff in Hs.
      pose proof (any_thread_false _ _ _ Hs t_) as Hn.
      rewrite Ht_, Hq_ in Hn. specialize (Hthr' _ _ Ht_).
      assert (0 <= t_ < Z.of_nat (Z.to_nat (s_next s))) by lia. specialize (Hn H). discriminate Hn.
    + intros t_ l_ h_ q_ Ht_. thr_cases Ht_; [discriminate Ht_|]. eapply Hb; eauto.
Qed.

Lemma content_lt s pid : inv_fresh s -> has_content s pid -> pid < s_next s.
Proof.
  intros (_ & _ & Hnew & _ & _ & Hls) [H|(lid & hp & H)]; [|eauto].
  destruct (Z_lt_le_dec pid (s_next s)) as [|Hge]; [assumption|].
  destruct (Hnew _ Hge) as [_ Hp]. rewrite Hp in H. now contradiction H.
Qed.

Lemma rooted_frame s s' :
  (forall pid, pid < s_next s -> p_hp (s_peer s' pid) = p_hp (s_peer s pid)) ->
  (forall hp pid, s_root s hp = Some pid -> s_root s' hp = Some pid) ->
  (forall pid, has_content s' pid -> has_content s pid \/ s_root s' (p_hp (s_peer s' pid)) = Some pid) ->
  (forall lid hp pid, In (lid, hp, pid) (s_lists s') ->
     In (lid, hp, pid) (s_lists s) \/ p_hp (s_peer s' pid) = hp) ->
  inv_fresh s -> inv_rooted s -> inv_rooted s'.
Proof.
  intros HB HR HC HL Hf [Ha Hb]. split.
  - intros pid Hc. destruct (HC _ Hc) as [Hold|Hn]; [|exact Hn].
    rewrite HB by (eapply content_lt; eauto). apply HR, Ha, Hold.
  - intros lid hp pid Hi. destruct (HL _ _ _ Hi) as [Hold|Hn]; [|exact Hn].
    destruct Hf as (_ & _ & _ & _ & _ & Hls). rewrite HB by eauto. eapply Hb; eauto.
Qed.

(* has_content is unchanged when the lists and the connection lists are *)
Ltac frame_C :=
  let q_ := fresh "q_" in let Hq_ := fresh "Hq_" in
  intros q_ Hq_; left; unfold has_content, plist in *; simp_st; revert Hq_; upd_all;
  cbn [p_in p_out p_with_sc]; intros Hq_;
  first [ exact Hq_
        | destruct Hq_ as [Hq_|Hq_]; [now contradiction Hq_ | right; exact Hq_] ].
Ltac frame_L := let l_ := fresh in let h_ := fresh in let q_ := fresh in let Hq_ := fresh in
  intros l_ h_ q_ Hq_; left; exact Hq_.

Lemma step_rooted s l s' :
  Inv0 s -> inv_held s -> inv_rooted s -> safe_label s l = true -> step s l = Some s' -> inv_rooted s'.
Proof.
  intros [Hf Hrt _ _ Hrefs _] Hh Hc Hsafe H. pose proof Hf as Hf0. fresh_facts s Hf.
  step_cases H; try assumption.
  all: try solve [apply rooted_frame with s; try assumption; simp_st; [frame_B|frame_R Hroot|frame_C|frame_L]].
  - (* LListRemove *)
    apply rooted_frame with s; try assumption; simp_st; [frame_B|frame_R Hroot| |].
    + intros q_ Hq_. left. unfold has_content, plist in *. simp_st. revert Hq_. upd_all; cbn [p_in p_out p_with_sc];
        intros [Hq_|(l_ & h_ & Hq_)]; auto; right; exists l_, h_; eapply list_del_in; eauto.
    + intros l_ h_ q_ Hq_. left. eapply list_del_in; eauto.
  - (* PApp, inbound list *)
    apply rooted_frame with s; try assumption; simp_st; [frame_B|frame_R Hroot| |frame_L].
    intros q_ Hq_. destruct (Z.eq_dec q_ pid) as [->|Hne].
    + right. rewrite upd_same. cbn [p_hp p_with_in]. destruct Hh as [Ha _]. apply (Ha _ _ pid E). cbn. apply Z.eqb_refl.
    + left. unfold has_content, plist in *. simp_st. now rewrite upd_other in Hq_.
  - (* PApp, outbound list *)
    apply rooted_frame with s; try assumption; simp_st; [frame_B|frame_R Hroot| |frame_L].
    intros q_ Hq_. destruct (Z.eq_dec q_ pid) as [->|Hne].
    + right. rewrite upd_same. cbn [p_hp p_with_out]. destruct Hh as [Ha _]. apply (Ha _ _ pid E). cbn. apply Z.eqb_refl.
    + left. unfold has_content, plist in *. simp_st. now rewrite upd_other in Hq_.
  - (* PCbRem, inbound list *)
    apply rooted_frame with s; try assumption; simp_st; [frame_B|frame_R Hroot| |frame_L].
    intros q_ Hq_. left. unfold has_content, plist in *. simp_st. destruct (Z.eq_dec q_ pid) as [->|Hne].
    + rewrite upd_same in Hq_. cbn [p_in p_out p_with_in] in Hq_. destruct Hq_ as [_|Hq_]; [|now right].
      left. apply swap_remove_is_in in E0. destruct (p_in (s_peer s pid)); [destruct E0|discriminate].
    + now rewrite upd_other in Hq_.
  - (* PCbRem, outbound list *)
    apply rooted_frame with s; try assumption; simp_st; [frame_B|frame_R Hroot| |frame_L].
    intros q_ Hq_. left. unfold has_content, plist in *. simp_st. destruct (Z.eq_dec q_ pid) as [->|Hne].
    + rewrite upd_same in Hq_. cbn [p_in p_out p_with_out] in Hq_. destruct Hq_ as [_|Hq_]; [|now right].
      left. apply swap_remove_is_in in E1. intros Hn. apply app_eq_nil in Hn as [_ Hn]. rewrite Hn in E1. destruct E1.
    + now rewrite upd_other in Hq_.
  - (* PCol3: a safe deletion *)
    cbn [safe_label] in Hsafe. rewrite E in Hsafe. unfold delete_safe in Hsafe.
    destruct Hc as [Ha Hb]. split; simp_st; [|exact Hb].
    intros q_ Hq_. assert (Hq0 : has_content s q_) by exact Hq_. pose proof (Ha _ Hq0) as Hr.
    destruct (Z.eq_dec (p_hp (s_peer s q_)) hp) as [Heq|Hne]; [|now rewrite upd_other].
    exfalso. rewrite Heq in Hr. rewrite Hr in Hsafe. apply andb_true_iff in Hsafe as [Hs _].
    unfold can_remove in Hs. apply Z.eqb_eq in Hs. rewrite (Hrefs q_) in Hs.
    unfold zlen in Hs.
    destruct Hq0 as [Hq0|(l_ & h_ & Hq0)].
    + unfold plist in Hq0. destruct (p_in (s_peer s q_)) eqn:Ei; destruct (p_out (s_peer s q_)) eqn:Eo;
        cbn [length app] in *; try lia. now apply Hq0.
    + assert (Hin : In (l_, h_, q_) (filter (ent_pid q_) (s_lists s))).
      { apply filter_In. split; [assumption|]. unfold ent_pid. cbn [snd]. apply Z.eqb_refl. }
      destruct (filter (ent_pid q_) (s_lists s)); [destruct Hin|]. cbn [length] in Hs. lia.
  - (* PAdd2 *)
    apply rooted_frame with s; try assumption; simp_st; [frame_B|frame_R Hroot| |].
    + intros q_ Hq_. destruct (Z.eq_dec q_ pid) as [->|Hne].
      * right. rewrite upd_same. cbn [p_hp p_with_sc]. destruct Hh as [Ha _]. apply (Ha _ _ pid E). cbn. apply Z.eqb_refl.
      * left. unfold has_content, plist in *. simp_st. rewrite upd_other in Hq_ by assumption.
        destruct Hq_ as [Hq_|(l_ & h_ & [Hq_|Hq_])]; auto; [inversion Hq_; congruence|right; eauto].
    + intros l_ h_ q_ [Hq_|Hq_]; [|now left]. inversion Hq_; subst. right. rewrite upd_same. cbn [p_hp p_with_sc].
      destruct Hh as [_ Hb]. eapply Hb; eauto.
Qed.

Lemma notyet_frame s s' :
  (forall c, k_st (s_conn s c) <> 0 -> k_st (s_conn s' c) <> 0 /\ act_todo (s_conn s' c) = act_todo (s_conn s c)) ->
  (forall pid, pid < s_next s -> p_hp (s_peer s' pid) = p_hp (s_peer s pid)) ->
  (forall pid c, In c (plist (s_peer s' pid)) -> In c (plist (s_peer s pid))) ->
  (forall t p c, s_thr s' t = Some p -> act_of p = Some c ->
     s_thr s t = Some p \/
     exists p0, s_thr s t = Some p0 /\ act_of p0 = Some c /\
                forall pid, pid < s_next s -> In (p_hp (s_peer s pid)) (act_rem s' p) -> In (p_hp (s_peer s pid)) (act_rem s p0)) ->
  inv_fresh s -> inv_pcs s -> inv_notyet s -> inv_notyet s'.
Proof.
  intros HA HB HP HT Hf Hpcs Hn t p c pid Ht Ha Hin Hc.
  apply HP in Hc.
  assert (Hlt : pid < s_next s).
  { destruct (Z_lt_le_dec pid (s_next s)) as [|Hge]; [assumption|].
    destruct Hf as (_ & _ & Hnew & _). destruct (Hnew _ Hge) as [_ Hp]. rewrite Hp in Hc. destruct Hc. }
  rewrite HB in Hin by assumption.
  destruct (HT _ _ _ Ht Ha) as [Hold|(p0 & Hold & Ha0 & Hincl)].
  - rewrite (act_rem_transport s s' p) in Hin; auto.
    + eapply Hn; eauto.
    + destruct Hf as (_ & _ & _ & _ & Hpc & _). intros q Hq. eapply Hpc; eauto.
    + intros c0 Hc0. rewrite Ha in Hc0. inversion Hc0; subst. now destruct (Hpcs _ _ _ Hold Ha).
  - eapply Hn; eauto.
Qed.

Ltac frame_P :=
  let q_ := fresh "q_" in let c_ := fresh "c_" in let Hq_ := fresh "Hq_" in
  intros q_ c_ Hq_; unfold plist in *; revert Hq_; upd_all; cbn [p_in p_out p_with_sc]; intros Hq_;
  first [ exact Hq_ | (cbn in Hq_; now destruct Hq_) ].

Lemma step_notyet s l s' :
  Inv0 s -> inv_pcs s -> inv_uniq s -> inv_listed s -> inv_notyet s -> step s l = Some s' -> inv_notyet s'.
Proof.
  intros [Hf Hrt Hch _ _ _] Hpcs Hu Hl Hc H. pose proof Hf as Hf0. fresh_facts s Hf.
  destruct Hch as (_ & _ & _ & _ & _ & Hrange).
  step_cases H; try assumption.
  all: try solve [apply notyet_frame with s; try assumption; simp_st;
         [ frame_AB Hnew | frame_B | frame_P
         | intros t_ p_ c_ Ht_ Ha_; thr_cases Ht_;
           first [ left; assumption | discriminate Ht_
                 | inversion Ht_; try subst p_; cbn [act_of] in Ha_; discriminate Ha_ ] ]].
  (* the moving activation goroutine: what remains only shrinks *)
  all: try solve [apply notyet_frame with s; try assumption; simp_st;
         [ frame_AB Hnew | frame_B | frame_P
         | intros t_ p_ c_ Ht_ Ha_; thr_cases Ht_;
           [ inversion Ht_; try subst p_; cbn [act_of] in Ha_; inversion Ha_; try subst c_; right;
             eexists; split; [exact E|split; [reflexivity|]];
             intros q_ Hlt_ Hq_; cbn [act_rem] in *; simp_st;
             first [ exact Hq_
                   | right; exact Hq_
                   | (* tl (act_todo k) *) unfold act_todo in *; cbn [tl] in Hq_; right; exact Hq_
                   | (* PGet found: p_hp pid = z *) rewrite (Hrt _ _ H) in Hq_; exact Hq_
                   | (* PGet created *) rewrite upd_same in Hq_; cbn [p_hp] in Hq_; exact Hq_ ]
           | first [ left; assumption | discriminate Ht_
                   | inversion Ht_; try subst p_; cbn [act_of] in Ha_; discriminate Ha_ ] .. ] ]].
  - (* LNew: the fresh connection is in no list *)
    unfold inv_notyet; simp_st. intros t1 p1 c1 q Ht1 Ha1 Hin Hcl.
    destruct (Hnew (s_next s) ltac:(lia)) as [Hk0 _].
    thr_cases Ht1.
    + inversion Ht1; subst p1. cbn [act_of] in Ha1. inversion Ha1; subst c1.
      destruct (Hl q) as [_ Hlq]. destruct (Hlq _ Hcl) as [Hk _]. rewrite Hk0 in Hk. now apply Hk.
    + revert Hin. destruct (Hpcs _ _ _ Ht1 Ha1) as [Hk1 _].
      assert (c1 <> s_next s) by (intros ->; rewrite Hk0 in Hk1; now apply Hk1).
      destruct p1; cbn [act_rem act_of] in *; simp_st; try discriminate; inversion Ha1; subst;
        upd_tac; intros Hin; eapply (Hc _ _ _ q Ht1); eauto.
  - (* LChange *)
    apply notyet_frame with s; try assumption; simp_st; [|frame_B|frame_P|].
    + intros c_ Hk_. apply andb_true_iff in E as [E E3]. apply andb_true_iff in E as [E1 E2].
      apply Z.ltb_lt in E2. pose proof (Hrange c).
      destruct (Z.eq_dec c_ c) as [->|Hne]; upd_tac; [|split; auto].
      cbn [k_st with_st]. rewrite act_todo_with_st. split; [lia|reflexivity].
    + intros t_ p_ c_ Ht_ Ha_; thr_cases Ht_; [|left; assumption].
      inversion Ht_; subst p_. discriminate Ha_.
  - (* PApp, inbound list *)
    destruct (Hpcs _ _ _ E eq_refl) as [Hk [pre Hpre]]. cbn [act_rem] in Hpre.
    pose proof (act_todo_nodup (s_conn s c)) as Hnd. rewrite Hpre in Hnd.
    apply nodup_app_r in Hnd. inversion Hnd as [|? ? Hnotin _]; subst.
    unfold inv_notyet; simp_st. intros t1 p1 c1 q Ht1 Ha1 Hin Hcl.
    assert (Hhp : forall x, p_hp (upd (s_peer s) pid (p_with_in (s_peer s pid) (p_in (s_peer s pid) ++ [c]) 1) x) = p_hp (s_peer s x)).
    { intros x. upd_all; reflexivity. }
    rewrite Hhp in Hin.
    thr_cases Ht1.
    + inversion Ht1; subst p1. cbn [act_of] in Ha1. inversion Ha1; subst c1. cbn [act_rem] in Hin.
      destruct (Z.eq_dec q pid) as [->|Hne]; [contradiction|]. rewrite upd_other in Hcl by assumption.
      eapply (Hc _ _ _ q E); [reflexivity| |exact Hcl]. cbn [act_rem]. now right.
    + assert (Hrem : act_rem (set_thr (add_log (add_gain (set_peer s pid (p_with_in (s_peer s pid) (p_in (s_peer s pid) ++ [c]) 1))
                        (p_hp (s_peer s pid), pid, c)) (p_hp (s_peer s pid))) t (Some (PGet c todo))) p1 = act_rem s p1).
      { destruct p1; cbn [act_rem]; simp_st; try reflexivity; now rewrite Hhp. }
      rewrite Hrem in Hin.
      assert (Hold : ~ In c1 (plist (s_peer s q))) by (eapply Hc; eauto).
      apply Hold. destruct (Z.eq_dec q pid) as [->|Hne]; [|now rewrite upd_other in Hcl].
      rewrite upd_same in Hcl. unfold plist in *. cbn [p_in p_out p_with_in] in Hcl.
      rewrite <- app_assoc in Hcl. apply in_app_or in Hcl as [Hcl|Hcl]; [apply in_or_app; now left|].
      destruct Hcl as [Hcl|Hcl]; [|apply in_or_app; now right].
      subst c1. exfalso. assert (t1 = t) by (eapply Hu; eauto; reflexivity). contradiction.
  - (* PApp, outbound list *)
    destruct (Hpcs _ _ _ E eq_refl) as [Hk [pre Hpre]]. cbn [act_rem] in Hpre.
    pose proof (act_todo_nodup (s_conn s c)) as Hnd. rewrite Hpre in Hnd.
    apply nodup_app_r in Hnd. inversion Hnd as [|? ? Hnotin _]; subst.
    unfold inv_notyet; simp_st. intros t1 p1 c1 q Ht1 Ha1 Hin Hcl.
    assert (Hhp : forall x, p_hp (upd (s_peer s) pid (p_with_out (s_peer s pid) (p_out (s_peer s pid) ++ [c]) 1) x) = p_hp (s_peer s x)).
    { intros x. upd_all; reflexivity. }
    rewrite Hhp in Hin.
    thr_cases Ht1.
    + inversion Ht1; subst p1. cbn [act_of] in Ha1. inversion Ha1; subst c1. cbn [act_rem] in Hin.
      destruct (Z.eq_dec q pid) as [->|Hne]; [contradiction|]. rewrite upd_other in Hcl by assumption.
      eapply (Hc _ _ _ q E); [reflexivity| |exact Hcl]. cbn [act_rem]. now right.
    + assert (Hrem : act_rem (set_thr (add_log (add_gain (set_peer s pid (p_with_out (s_peer s pid) (p_out (s_peer s pid) ++ [c]) 1))
                        (p_hp (s_peer s pid), pid, c)) (p_hp (s_peer s pid))) t (Some (PGet c todo))) p1 = act_rem s p1).
      { destruct p1; cbn [act_rem]; simp_st; try reflexivity; now rewrite Hhp. }
      rewrite Hrem in Hin.
      assert (Hold : ~ In c1 (plist (s_peer s q))) by (eapply Hc; eauto).
      apply Hold. destruct (Z.eq_dec q pid) as [->|Hne]; [|now rewrite upd_other in Hcl].
      rewrite upd_same in Hcl. unfold plist in *. cbn [p_in p_out p_with_out] in Hcl.
      rewrite app_assoc in Hcl. apply in_app_or in Hcl as [Hcl|Hcl]; [exact Hcl|].
      destruct Hcl as [Hcl|[]].
      subst c1. exfalso. assert (t1 = t) by (eapply Hu; eauto; reflexivity). contradiction.
  - (* PCbRem, inbound list *)
    apply notyet_frame with s; try assumption; simp_st; [frame_AB Hnew|frame_B| |].
    + intros q_ c_ Hq_. unfold plist in *. revert Hq_. upd_all; cbn [p_in p_out p_with_in]; auto.
      intros Hq_. apply in_app_or in Hq_ as [Hq_|Hq_]; apply in_or_app; [left|now right].
      eapply swap_remove_in; eauto.
    + intros t_ p_ c_ Ht_ Ha_; thr_cases Ht_; [|left; assumption].
      inversion Ht_; subst p_. discriminate Ha_.
  - (* PCbRem, outbound list *)
    apply notyet_frame with s; try assumption; simp_st; [frame_AB Hnew|frame_B| |].
    + intros q_ c_ Hq_. unfold plist in *. revert Hq_. upd_all; cbn [p_in p_out p_with_out]; auto.
      intros Hq_. apply in_app_or in Hq_ as [Hq_|Hq_]; apply in_or_app; [now left|right].
      eapply swap_remove_in; eauto.
    + intros t_ p_ c_ Ht_ Ha_; thr_cases Ht_; [|left; assumption].
      inversion Ht_; subst p_. discriminate Ha_.
Qed.

Lemma plist_lt s pid c : inv_fresh s -> In c (plist (s_peer s pid)) -> pid < s_next s.
Proof.
  intros (_ & _ & Hnew & _) H. destruct (Z_lt_le_dec pid (s_next s)) as [|Hge]; [assumption|].
  destruct (Hnew _ Hge) as [_ Hp]. rewrite Hp in H. destruct H.
Qed.

Lemma listed_frame s s' :
  (forall c, k_st (s_conn s c) <> 0 ->
     k_st (s_conn s' c) <> 0 /\ k_dir (s_conn s' c) = k_dir (s_conn s c) /\
     act_todo (s_conn s' c) = act_todo (s_conn s c)) ->
  (forall c, k_st (s_conn s c) = c_connectionActive ->
     k_st (s_conn s' c) = c_connectionActive \/ exists t, s_thr s' t = Some (PCb1 c)) ->
  (forall pid, pid < s_next s -> p_hp (s_peer s' pid) = p_hp (s_peer s pid)) ->
  (forall pid, p_in (s_peer s' pid) = p_in (s_peer s pid) /\ p_out (s_peer s' pid) = p_out (s_peer s pid)) ->
  (forall t p c pid, pid < s_next s -> s_thr s t = Some p -> cb_cov s p c pid ->
     In c (plist (s_peer s pid)) -> k_st (s_conn s' c) <> c_connectionActive ->
     exists t' p', s_thr s' t' = Some p' /\ cb_cov s' p' c pid) ->
  inv_fresh s -> inv_listed s -> inv_listed s'.
Proof.
  intros HA HAct HB HP HW Hf Hl pid. destruct (HP pid) as [Ei Eo]. destruct (Hl pid) as [Hnd Hall].
  unfold plist in *. cbn zeta. rewrite Ei, Eo. split; [exact Hnd|].
  intros c Hc. destruct (Hall c Hc) as (Hk & Hin & Hout & Hhp & Hcov).
  assert (Hlt : pid < s_next s) by (eapply plist_lt; eauto).
  destruct (HA _ Hk) as (Hk' & Hd & Ht). rewrite Hd, Ht, HB by assumption.
  repeat split; auto.
  destruct (Z.eq_dec (k_st (s_conn s' c)) c_connectionActive) as [Hact|Hna]; [now left|right].
  destruct Hcov as [Hact|(t & p & Hthr & Hcv)].
  - destruct (HAct _ Hact) as [Hact'|[t Ht']]; [contradiction|]. exists t, (PCb1 c). split; [assumption|reflexivity].
  - eapply HW; eauto.
Qed.

Lemma cb_cov_transport s s' p c pid :
  p_hp (s_peer s' pid) = p_hp (s_peer s pid) -> cb_cov s p c pid -> cb_cov s' p c pid.
Proof. intros H. unfold cb_cov. now rewrite H. Qed.

Ltac frame_A3 s Hnew :=
  let c_ := fresh "c_" in let Hk_ := fresh "Hk_" in
  intros c_ Hk_; upd_all; cbn [k_st k_dir with_st with_acc]; rewrite ?act_todo_with_st, ?act_todo_with_acc;
  first [ repeat split; first [assumption|reflexivity]
        | repeat split; first [unfold c_connectionStartClose; discriminate|reflexivity]
        | exfalso; destruct (Hnew (s_next s) ltac:(lia)) as [Hk0_ _]; rewrite Hk0_ in Hk_; now apply Hk_ ].

Ltac frame_Act s Hnew :=
  let c_ := fresh "c_" in let Hk_ := fresh "Hk_" in
  intros c_ Hk_; upd_all; cbn [k_st with_acc];
  first [ left; assumption
        | exfalso; destruct (Hnew (s_next s) ltac:(lia)) as [Hk0_ _]; rewrite Hk0_ in Hk_; discriminate Hk_ ].

Ltac frame_P2 s Hnew :=
  let q_ := fresh "q_" in
  intros q_; upd_all; cbn [p_in p_out p_with_sc]; try (split; reflexivity);
  destruct (Hnew (s_next s) ltac:(lia)) as [_ Hq0_]; rewrite Hq0_; split; reflexivity.

Lemma act_in_cb k hp :
  (k_dir k = c_inbound /\ k_ohp k = 0) \/ (k_dir k = c_outbound /\ k_ohp k <> 0) ->
  In hp (act_todo k) -> In hp (cb_todo k).
Proof.
  intros Hv. unfold act_todo, cb_todo. intros [H|H]; [now left|right].
  destruct Hv as [[Hd Ho]|[Hd Ho]].
  - rewrite Hd in H. cbn in H. destruct H.
  - rewrite Hd, Z.eqb_refl in H. cbn [andb] in H.
    destruct (Z.eqb_spec (k_ohp k) 0); [contradiction|]. cbn [negb andb]. exact H.
Qed.

(* a callback witness that is not the moving goroutine stays a witness *)
Ltac keep_cov HB :=
  match goal with
  | Hw_ : s_thr ?s ?t_ = Some ?p_, Hc_ : cb_cov ?s ?p_ ?c_ ?q_ |- exists t' p', _ =>
      exists t_, p_; split;
      [ upd_tac; assumption
      | apply (cb_cov_transport s); [apply HB; assumption | exact Hc_] ]
  end.

(* the first four premises of listed_frame *)
Ltac lf s Hnew := apply listed_frame with s; try assumption; simp_st;
  [ frame_A3 s Hnew | frame_Act s Hnew | frame_B | frame_P2 s Hnew | ].

(* premise (W): split on whether the witness is the moving goroutine *)
Ltac lf_w s t E Hthr' :=
  let t_ := fresh "t_" in let p_ := fresh "p_" in let c_ := fresh "c_" in let q_ := fresh "q_" in
  intros t_ p_ c_ q_ Hlt_ Hw_ Hc_ Hin_ Hna_; pose proof (Hthr' _ _ Hw_);
  destruct (Z.eq_dec t_ t) as [->|?];
  [ rewrite E in Hw_; inversion Hw_; subst p_; cbn [cb_cov] in Hc_
  | exists t_, p_; split;
    [ upd_tac; assumption
    | apply (cb_cov_transport s); [|exact Hc_]; simp_st; upd_all; cbn [p_hp p_with_sc]; first [reflexivity|lia] ] ].

Lemma step_listed s l s' :
  Inv0 s -> inv_conn s -> inv_pcs s -> inv_rooted s -> inv_notyet s -> inv_listed s ->
  step s l = Some s' -> inv_listed s'.
Proof.
  intros [Hf Hrt Hch _ _ _] Hcn Hpcs Hro Hny Hc H. pose proof Hf as Hf0. fresh_facts s Hf.
  destruct Hch as (_ & _ & _ & _ & _ & Hrange).
  step_cases H; try assumption.
  (* steps of goroutines that are not callbacks, without list changes *)
  all: try solve [lf s Hnew; lf_w s t E Hthr'; contradiction].
  (* steps without a moving goroutine *)
  all: try solve [lf s Hnew;
         intros t_ p_ c_ q_ Hlt_ Hw_ Hc_ Hin_ Hna_; pose proof (Hthr' _ _ Hw_); exists t_, p_; split;
         [ upd_tac; assumption
         | apply (cb_cov_transport s); [|exact Hc_]; simp_st; upd_all; cbn [p_hp p_with_sc]; first [reflexivity|lia] ]].
  (* callback goroutine moving on with the same todo *)
  all: try solve [lf s Hnew; lf_w s t E Hthr'; destruct Hc_ as [-> Hc_];
                  eexists t, _; (split; [apply upd_same|]); cbn [cb_cov]; simp_st; split; [reflexivity|assumption]].
  (* PCbRem on a connection that is (still) active: nothing to preserve for it *)
  all: try solve [lf s Hnew; lf_w s t E Hthr'; destruct Hc_ as [-> _]; exfalso;
                  match goal with Ea : is_active _ = true |- _ =>
                    unfold is_active in Ea; apply Z.eqb_eq in Ea; contradiction end].
  - (* LChange *)
    apply listed_frame with s; try assumption; simp_st; [| |frame_B|frame_P2 s Hnew|].
    + intros c_ Hk_. apply andb_true_iff in E as [E E3]. apply andb_true_iff in E as [E1 E2].
      apply Z.ltb_lt in E2. pose proof (Hrange c).
      destruct (Z.eq_dec c_ c) as [->|Hne]; upd_tac; [|repeat split; auto].
      cbn [k_st k_dir with_st]. rewrite act_todo_with_st. repeat split; lia.
    + intros c_ Hk_. destruct (Z.eq_dec c_ c) as [->|Hne]; upd_tac; [|now left].
      right. exists (s_next s). apply upd_same.
    + intros t_ p_ c_ q_ Hlt_ Hw_ Hc_ Hin_ Hna_; pose proof (Hthr' _ _ Hw_); exists t_, p_; split;
        [ upd_tac; assumption | apply (cb_cov_transport s); [reflexivity|exact Hc_] ].
  - (* PAct1 refused while active: c.close() *)
    apply listed_frame with s; try assumption; simp_st; [frame_A3 s Hnew| |frame_B|frame_P2 s Hnew|].
    + intros c_ Hk_. destruct (Z.eq_dec c_ c) as [->|Hne]; upd_tac; [|now left].
      right. exists (s_next s). specialize (Hthr' _ _ E). rewrite upd_other by lia. apply upd_same.
    + lf_w s t E Hthr'. contradiction.
  - (* PApp, inbound list *)
    assert (Hact : k_st (s_conn s c) = c_connectionActive).
    { destruct (is_active (s_conn s c)) eqn:Ea; [|discriminate E0]. unfold is_active in Ea. now apply Z.eqb_eq in Ea. }
    destruct (Hpcs _ _ _ E eq_refl) as [Hk [pre Hpre]]. cbn [act_rem] in Hpre.
    assert (Hnot : ~ In c (plist (s_peer s pid))).
    { eapply (Hny _ _ _ pid E); [reflexivity|]. cbn [act_rem]. now left. }
    unfold inv_listed; simp_st. intros q.
    assert (Hkeep : forall d, (k_st (s_conn s d) = c_connectionActive \/ exists t0 p0, s_thr s t0 = Some p0 /\ cb_cov s p0 d q) ->
              k_st (s_conn s d) = c_connectionActive \/
              exists t0 p0, upd (s_thr s) t (Some (PGet c todo)) t0 = Some p0 /\
                cb_cov (set_thr (add_log (add_gain (set_peer s pid (p_with_in (s_peer s pid) (p_in (s_peer s pid) ++ [c]) 1)) (p_hp (s_peer s pid), pid, c)) (p_hp (s_peer s pid))) t (Some (PGet c todo))) p0 d q).
    { intros d [Hd|(t0 & p0 & Ht0 & Hc0)]; [now left|right].
      destruct (Z.eq_dec t0 t) as [->|Hne]; [rewrite E in Ht0; inversion Ht0; subst p0; destruct Hc0|].
      exists t0, p0. split; [now rewrite upd_other|]. apply (cb_cov_transport s); [|exact Hc0].
      simp_st. upd_all; reflexivity. }
    destruct (Z.eq_dec q pid) as [->|Hq].
    + rewrite upd_same. destruct (Hc pid) as [Hnd Hall]. unfold plist in *. cbn [p_in p_out p_hp p_with_in].
      assert (Hperm : Permutation ((p_in (s_peer s pid) ++ [c]) ++ p_out (s_peer s pid)) (c :: p_in (s_peer s pid) ++ p_out (s_peer s pid))).
      { rewrite <- app_assoc. cbn [app]. apply Permutation_sym, Permutation_middle. }
      split; [eapply Permutation_NoDup; [apply Permutation_sym, Hperm|constructor; assumption]|].
      intros d Hd. eapply Permutation_in in Hd; [|exact Hperm]. destruct Hd as [<-|Hd].
      * split; [assumption|]. split; [intros _; now apply Z.eqb_eq in E1|]. split; [intros Ho; exfalso; apply Hnot, in_or_app; now right|].
        split; [rewrite Hpre; apply in_or_app; right; now left|now left].
      * destruct (Hall d Hd) as (H1 & H2 & H3 & H4 & H5).
        assert (d <> c) by (intros ->; contradiction).
        split; [assumption|]. split; [intros Hi; apply H2; apply in_app_or in Hi as [Hi|[Hi|[]]]; [assumption|congruence]|]. split; [assumption|]. split; [assumption|]. now apply Hkeep.
    + rewrite upd_other by assumption. destruct (Hc q) as [Hnd Hall]. split; [assumption|].
      intros d Hd. destruct (Hall d Hd) as (H1 & H2 & H3 & H4 & H5). repeat split; auto.
  - (* PApp, outbound list *)
    assert (Hact : k_st (s_conn s c) = c_connectionActive).
    { destruct (is_active (s_conn s c)) eqn:Ea; [|discriminate E0]. unfold is_active in Ea. now apply Z.eqb_eq in Ea. }
    destruct (Hpcs _ _ _ E eq_refl) as [Hk [pre Hpre]]. cbn [act_rem] in Hpre.
    assert (Hnot : ~ In c (plist (s_peer s pid))).
    { eapply (Hny _ _ _ pid E); [reflexivity|]. cbn [act_rem]. now left. }
    unfold inv_listed; simp_st. intros q.
    assert (Hkeep : forall d, (k_st (s_conn s d) = c_connectionActive \/ exists t0 p0, s_thr s t0 = Some p0 /\ cb_cov s p0 d q) ->
              k_st (s_conn s d) = c_connectionActive \/
              exists t0 p0, upd (s_thr s) t (Some (PGet c todo)) t0 = Some p0 /\
                cb_cov (set_thr (add_log (add_gain (set_peer s pid (p_with_out (s_peer s pid) (p_out (s_peer s pid) ++ [c]) 1)) (p_hp (s_peer s pid), pid, c)) (p_hp (s_peer s pid))) t (Some (PGet c todo))) p0 d q).
    { intros d [Hd|(t0 & p0 & Ht0 & Hc0)]; [now left|right].
      destruct (Z.eq_dec t0 t) as [->|Hne]; [rewrite E in Ht0; inversion Ht0; subst p0; destruct Hc0|].
      exists t0, p0. split; [now rewrite upd_other|]. apply (cb_cov_transport s); [|exact Hc0].
      simp_st. upd_all; reflexivity. }
    destruct (Z.eq_dec q pid) as [->|Hq].
    + rewrite upd_same. destruct (Hc pid) as [Hnd Hall]. unfold plist in *. cbn [p_in p_out p_hp p_with_out].
      assert (Hperm : Permutation (p_in (s_peer s pid) ++ p_out (s_peer s pid) ++ [c]) (c :: p_in (s_peer s pid) ++ p_out (s_peer s pid))).
      { rewrite app_assoc. apply Permutation_sym, Permutation_cons_append. }
      split; [eapply Permutation_NoDup; [apply Permutation_sym, Hperm|constructor; assumption]|].
      intros d Hd. eapply Permutation_in in Hd; [|exact Hperm]. destruct Hd as [<-|Hd].
      * split; [assumption|]. split; [intros Hi; exfalso; apply Hnot, in_or_app; now left|]. split; [intros _; now apply Z.eqb_neq in E1|].
        split; [rewrite Hpre; apply in_or_app; right; now left|now left].
      * destruct (Hall d Hd) as (H1 & H2 & H3 & H4 & H5).
        assert (d <> c) by (intros ->; contradiction).
        split; [assumption|]. split; [assumption|]. split; [intros Ho; apply H3; apply in_app_or in Ho as [Ho|[Ho|[]]]; [assumption|congruence]|]. split; [assumption|]. now apply Hkeep.
    + rewrite upd_other by assumption. destruct (Hc q) as [Hnd Hall]. split; [assumption|].
      intros d Hd. destruct (Hall d Hd) as (H1 & H2 & H3 & H4 & H5). repeat split; auto.
  - (* PCb1, closed *)
    lf s Hnew. lf_w s t E Hthr'. subst c_. exists t, (PCbGet c (cb_todo (s_conn s c))). split; [apply upd_same|].
    cbn [cb_cov]. simp_st. split; [reflexivity|].
    destruct (Hc q_) as [_ Hall]. destruct (Hall _ Hin_) as (H1 & _ & _ & H4 & _).
    apply act_in_cb; [apply Hcn; assumption|assumption].
  - (* PCb1, not closed *)
    lf s Hnew. lf_w s t E Hthr'. subst c_. exists t, (PCbGet c (cb_todo (s_conn s c))). split; [apply upd_same|].
    cbn [cb_cov]. simp_st. split; [reflexivity|].
    destruct (Hc q_) as [_ Hall]. destruct (Hall _ Hin_) as (H1 & _ & _ & H4 & _).
    apply act_in_cb; [apply Hcn; assumption|assumption].
  - (* PCbGet, nothing left *)
    lf s Hnew. lf_w s t E Hthr'. destruct Hc_ as [_ []].
  - (* PCbGet, peer found *)
    lf s Hnew. lf_w s t E Hthr'. destruct Hc_ as [-> [Hz|Hin]].
    + assert (Hcont : has_content s q_).
      { left. intros Hn. rewrite Hn in Hin_. destruct Hin_. }
      destruct Hro as [Hro _]. specialize (Hro _ Hcont). rewrite <- Hz in Hro. rewrite Hro in E0.
      inversion E0; subst z0. exists t, (PCbRem c_ q_ todo). split; [apply upd_same|]. cbn [cb_cov]. auto.
    + exists t, (PCbRem c_ z0 todo). split; [apply upd_same|]. cbn [cb_cov]. simp_st. auto.
  - (* PCbGet, no peer *)
    lf s Hnew. lf_w s t E Hthr'. destruct Hc_ as [-> [Hz|Hin]].
    + assert (Hcont : has_content s q_).
      { left. intros Hn. rewrite Hn in Hin_. destruct Hin_. }
      destruct Hro as [Hro _]. specialize (Hro _ Hcont). rewrite <- Hz in Hro. congruence.
    + exists t, (PCbGet c_ todo). split; [apply upd_same|]. cbn [cb_cov]. simp_st. auto.
  - (* PCbRem removes from the inbound list *)
    assert (Hna : k_st (s_conn s c) <> c_connectionActive).
    { unfold is_active in E1. now apply Z.eqb_neq in E1. }
    unfold inv_listed; simp_st. intros q.
    assert (Hkeep : forall d, d <> c \/ q <> pid ->
              (k_st (s_conn s d) = c_connectionActive \/ exists t0 p0, s_thr s t0 = Some p0 /\ cb_cov s p0 d q) ->
              k_st (s_conn s d) = c_connectionActive \/
              exists t0 p0, upd (s_thr s) t (Some (PCol1 c (p_hp (s_peer s pid)) todo)) t0 = Some p0 /\
                cb_cov (set_thr (add_log (add_loss (set_peer s pid (p_with_in (s_peer s pid) l 2)) (p_hp (s_peer s pid), pid, c)) (p_hp (s_peer s pid))) t
                          (Some (PCol1 c (p_hp (s_peer s pid)) todo))) p0 d q).
    { intros d Hdq [Hd|(t0 & p0 & Ht0 & Hc0)]; [now left|right].
      assert (Hhp : p_hp (s_peer (set_thr (add_log (add_loss (set_peer s pid (p_with_in (s_peer s pid) l 2)) (p_hp (s_peer s pid), pid, c)) (p_hp (s_peer s pid))) t
                          (Some (PCol1 c (p_hp (s_peer s pid)) todo))) q) = p_hp (s_peer s q)).
      { simp_st. upd_all; reflexivity. }
      destruct (Z.eq_dec t0 t) as [->|Hne].
      - rewrite E in Ht0; inversion Ht0; subst p0. cbn [cb_cov] in Hc0. destruct Hc0 as [<- [->|Hin]].
        + destruct Hdq as [Hdq|Hdq]; now contradiction Hdq.
        + exists t, (PCol1 c (p_hp (s_peer s pid)) todo). split; [apply upd_same|]. cbn [cb_cov]. rewrite Hhp. auto.
      - exists t0, p0. split; [now rewrite upd_other|]. apply (cb_cov_transport s); [exact Hhp|exact Hc0]. }
    destruct (Z.eq_dec q pid) as [->|Hq].
    + rewrite upd_same. destruct (Hc pid) as [Hnd Hall]. unfold plist in *. cbn [p_in p_out p_hp p_with_in].
      assert (Hperm : Permutation (p_in (s_peer s pid) ++ p_out (s_peer s pid)) (c :: l ++ p_out (s_peer s pid))).
      { apply swap_remove_some in E0. change (c :: l ++ p_out (s_peer s pid)) with ((c :: l) ++ p_out (s_peer s pid)). now apply Permutation_app_tail. }
      assert (Hnd2 : NoDup (c :: l ++ p_out (s_peer s pid))) by (eapply Permutation_NoDup; eauto).
      inversion Hnd2 as [|? ? Hcnot Hnd3]; subst.
      split; [assumption|].
      intros d Hd. assert (Hdc : d <> c) by (intros ->; contradiction).
      assert (Hd0 : In d (p_in (s_peer s pid) ++ p_out (s_peer s pid))).
      { eapply Permutation_in; [apply Permutation_sym, Hperm|]. now right. }
      destruct (Hall d Hd0) as (H1 & H2 & H3 & H4 & H5).
      split; [assumption|]. split; [intros Hi; apply H2; eapply swap_remove_in; eauto|]. split; [assumption|]. split; [assumption|]. apply Hkeep; auto.
    + rewrite upd_other by assumption. destruct (Hc q) as [Hnd Hall]. split; [assumption|].
      intros d Hd. destruct (Hall d Hd) as (H1 & H2 & H3 & H4 & H5). repeat split; auto.
  - (* PCbRem removes from the outbound list *)
    assert (Hna : k_st (s_conn s c) <> c_connectionActive).
    { unfold is_active in E2. now apply Z.eqb_neq in E2. }
    unfold inv_listed; simp_st. intros q.
    assert (Hkeep : forall d, d <> c \/ q <> pid ->
              (k_st (s_conn s d) = c_connectionActive \/ exists t0 p0, s_thr s t0 = Some p0 /\ cb_cov s p0 d q) ->
              k_st (s_conn s d) = c_connectionActive \/
              exists t0 p0, upd (s_thr s) t (Some (PCol1 c (p_hp (s_peer s pid)) todo)) t0 = Some p0 /\
                cb_cov (set_thr (add_log (add_loss (set_peer s pid (p_with_out (s_peer s pid) l 2)) (p_hp (s_peer s pid), pid, c)) (p_hp (s_peer s pid))) t
                          (Some (PCol1 c (p_hp (s_peer s pid)) todo))) p0 d q).
    { intros d Hdq [Hd|(t0 & p0 & Ht0 & Hc0)]; [now left|right].
      assert (Hhp : p_hp (s_peer (set_thr (add_log (add_loss (set_peer s pid (p_with_out (s_peer s pid) l 2)) (p_hp (s_peer s pid), pid, c)) (p_hp (s_peer s pid))) t
                          (Some (PCol1 c (p_hp (s_peer s pid)) todo))) q) = p_hp (s_peer s q)).
      { simp_st. upd_all; reflexivity. }
      destruct (Z.eq_dec t0 t) as [->|Hne].
      - rewrite E in Ht0; inversion Ht0; subst p0. cbn [cb_cov] in Hc0. destruct Hc0 as [<- [->|Hin]].
        + destruct Hdq as [Hdq|Hdq]; now contradiction Hdq.
        + exists t, (PCol1 c (p_hp (s_peer s pid)) todo). split; [apply upd_same|]. cbn [cb_cov]. rewrite Hhp. auto.
      - exists t0, p0. split; [now rewrite upd_other|]. apply (cb_cov_transport s); [exact Hhp|exact Hc0]. }
    destruct (Z.eq_dec q pid) as [->|Hq].
    + rewrite upd_same. destruct (Hc pid) as [Hnd Hall]. unfold plist in *. cbn [p_in p_out p_hp p_with_out].
      assert (Hperm : Permutation (p_in (s_peer s pid) ++ p_out (s_peer s pid)) (c :: p_in (s_peer s pid) ++ l)).
      { apply swap_remove_some in E1. eapply perm_trans; [apply Permutation_app_head; exact E1|]. apply Permutation_sym, Permutation_middle. }
      assert (Hnd2 : NoDup (c :: p_in (s_peer s pid) ++ l)) by (eapply Permutation_NoDup; eauto).
      inversion Hnd2 as [|? ? Hcnot Hnd3]; subst.
      split; [assumption|].
      intros d Hd. assert (Hdc : d <> c) by (intros ->; contradiction).
      assert (Hd0 : In d (p_in (s_peer s pid) ++ p_out (s_peer s pid))).
      { eapply Permutation_in; [apply Permutation_sym, Hperm|]. now right. }
      destruct (Hall d Hd0) as (H1 & H2 & H3 & H4 & H5).
      split; [assumption|]. split; [assumption|]. split; [intros Ho; apply H3; eapply swap_remove_in; eauto|]. split; [assumption|]. apply Hkeep; auto.
    + rewrite upd_other by assumption. destruct (Hc q) as [Hnd Hall]. split; [assumption|].
      intros d Hd. destruct (Hall d Hd) as (H1 & H2 & H3 & H4 & H5). repeat split; auto.
  - (* PCbRem, not found *)
    lf s Hnew. lf_w s t E Hthr'. destruct Hc_ as [-> [->|Hin]].
    + exfalso. unfold plist in Hin_. apply in_app_or in Hin_ as [Hi|Hi];
        [eapply swap_remove_none in E0|eapply swap_remove_none in E1]; eauto.
    + exists t, (PCbGet c_ todo). split; [apply upd_same|]. cbn [cb_cov]. simp_st. auto.
Qed.

Lemma active_frame s s' :
  (forall c, k_st (s_conn s c) <> 0 ->
     k_dir (s_conn s' c) = k_dir (s_conn s c) /\ act_todo (s_conn s' c) = act_todo (s_conn s c)) ->
  (forall c, k_st (s_conn s' c) = c_connectionActive -> k_st (s_conn s c) = c_connectionActive) ->
  (forall t p c hp, s_thr s t = Some p -> act_of p = Some c -> In hp (act_rem s p) ->
     k_st (s_conn s' c) = c_connectionActive ->
     (exists t' p', s_thr s' t' = Some p' /\ act_of p' = Some c /\ In hp (act_rem s' p')) \/
     (exists pid, s_root s' hp = Some pid /\ In c (dirlist (s_conn s c) (s_peer s' pid)))) ->
  (forall c hp pid, k_st (s_conn s' c) = c_connectionActive -> s_root s hp = Some pid ->
     In c (dirlist (s_conn s c) (s_peer s pid)) ->
     exists pid', s_root s' hp = Some pid' /\ In c (dirlist (s_conn s c) (s_peer s' pid'))) ->
  inv_active s -> inv_active s'.
Proof.
  intros HA HN HT HL Ha c hp Hact Hin.
  pose proof (HN _ Hact) as Hact0.
  assert (Hk : k_st (s_conn s c) <> 0) by (rewrite Hact0; discriminate).
  destruct (HA _ Hk) as [Hd Htd]. rewrite Htd in Hin.
  assert (Hdl : forall P, dirlist (s_conn s' c) P = dirlist (s_conn s c) P) by (intros P; unfold dirlist; now rewrite Hd).
  destruct (Ha c hp Hact0 Hin) as [(t & p & Ht & Hao & Hr)|(pid & Hr & Hl)].
  - destruct (HT _ _ _ _ Ht Hao Hr Hact) as [H|(pid & H1 & H2)]; [now left|right].
    exists pid. rewrite Hdl. auto.
  - right. destruct (HL _ _ _ Hact Hr Hl) as (pid' & H1 & H2). exists pid'. rewrite Hdl. auto.
Qed.

Ltac frame_A2 s Hnew :=
  let c_ := fresh "c_" in let Hk_ := fresh "Hk_" in
  intros c_ Hk_; upd_all; cbn [k_st k_dir with_st with_acc]; rewrite ?act_todo_with_st, ?act_todo_with_acc;
  first [ split; reflexivity
        | exfalso; destruct (Hnew (s_next s) ltac:(lia)) as [Hk0_ _]; rewrite Hk0_ in Hk_; now apply Hk_ ].

Ltac frame_N :=
  let c_ := fresh "c_" in let Hk_ := fresh "Hk_" in
  intros c_ Hk_; revert Hk_; upd_all; cbn [k_st with_st with_acc];
  first [ intros Hk_; exact Hk_ | discriminate ].

(* an activating goroutine other than the moving one keeps its remaining work *)
Ltac keep_act s Hnew Hpc Hpcs :=
  match goal with
  | Hw_ : s_thr s ?t_ = Some ?p_, Ha_ : act_of ?p_ = Some ?c_, Hr_ : In ?hp_ (act_rem s ?p_) |- _ =>
      left; exists t_, p_; split; [upd_tac; assumption|split; [assumption|]];
      rewrite (act_rem_transport s _ p_);
      [ exact Hr_
      | simp_st; frame_AB Hnew
      | simp_st; frame_B
      | intros qq_ Hqq_; eapply Hpc; eauto
      | intros cc_ Hcc_; rewrite Ha_ in Hcc_; inversion Hcc_; subst cc_; now destruct (Hpcs _ _ _ Hw_ Ha_) ]
  end.

Ltac frame_Lk Hroot :=
  let c_ := fresh "c_" in let h_ := fresh "h_" in let q_ := fresh "q_" in
  let Ha_ := fresh "Ha_" in let Hr_ := fresh "Hr_" in let Hl_ := fresh "Hl_" in
  intros c_ h_ q_ Ha_ Hr_ Hl_; exists q_; split;
  [ upd_all; first [assumption | congruence | (apply Hroot in Hr_; lia)]
  | unfold dirlist in *; revert Hl_; upd_all; cbn [p_in p_out p_with_sc p_with_in p_with_out];
    first [ (intros Hl_; exact Hl_) | (apply Hroot in Hr_; lia)
          | (destruct (k_dir _ =? c_inbound); intros Hl_; first [exact Hl_ | apply in_or_app; now left]) ] ].

Lemma step_active s l s' :
  Inv0 s -> inv_pcs s -> inv_held s -> inv_active s -> safe_label s l = true -> step s l = Some s' -> inv_active s'.
Proof.
  intros [Hf Hrt Hch _ Hrefs _] Hpcs Hh Hc Hsafe H. pose proof Hf as Hf0. fresh_facts s Hf.
  destruct Hch as (_ & _ & _ & _ & _ & Hrange).
  step_cases H; try assumption.
  (* no moving goroutine *)
  all: try solve [apply active_frame with s; try assumption; simp_st;
         [ frame_A2 s Hnew | frame_N
         | intros t_ p_ c_ h_ Hw_ Ha_ Hr_ Hact_; pose proof (Hthr' _ _ Hw_); keep_act s Hnew Hpc Hpcs
         | frame_Lk Hroot ]].
  (* a moving goroutine that is not an activation *)
  all: try solve [apply active_frame with s; try assumption; simp_st;
         [ frame_A2 s Hnew | frame_N
         | intros t_ p_ c_ h_ Hw_ Ha_ Hr_ Hact_; pose proof (Hthr' _ _ Hw_);
           destruct (Z.eq_dec t_ t) as [->|?];
           [ rewrite E in Hw_; inversion Hw_; subst p_; discriminate Ha_
           | keep_act s Hnew Hpc Hpcs ]
         | frame_Lk Hroot ]].
  (* the moving goroutine is the activation of c *)
  all: try (apply active_frame with s; try assumption; simp_st;
         [ frame_A2 s Hnew | frame_N
         | intros t_ p_ c_ h_ Hw_ Ha_ Hr_ Hact_; pose proof (Hthr' _ _ Hw_);
           destruct (Z.eq_dec t_ t) as [->|?];
           [ rewrite E in Hw_; inversion Hw_; subst p_; cbn [act_of] in Ha_; inversion Ha_; subst c_; cbn [act_rem] in Hr_
           | keep_act s Hnew Hpc Hpcs ]
         | frame_Lk Hroot ]).
  - (* LNew *)
    unfold inv_active; simp_st. intros c_ h_ Hact_ Hin_.
    destruct (Hnew (s_next s) ltac:(lia)) as [Hk0 _].
    destruct (Z.eq_dec c_ (s_next s)) as [->|Hne].
    + left. exists (s_next s + 1), (PAct1 (s_next s)). split; [apply upd_same|]. split; [reflexivity|].
      cbn [act_rem]. simp_st. exact Hin_.
    + rewrite upd_other in Hact_, Hin_ by assumption.
      destruct (Hc _ _ Hact_ Hin_) as [(t0 & p0 & Ht0 & Ha0 & Hr0)|(pid & Hr & Hl)].
      * left. exists t0, p0. specialize (Hthr' _ _ Ht0). split; [rewrite upd_other by lia; assumption|]. split; [assumption|].
        destruct p0; cbn [act_rem act_of] in *; simp_st; try discriminate; inversion Ha0; subst; upd_tac; assumption.
      * right. exists pid. rewrite upd_other by assumption. auto.
  - (* LChange *)
    apply active_frame with s; try assumption; simp_st; [frame_A2 s Hnew| | |frame_Lk Hroot].
    + intros c_ Hk_. apply andb_true_iff in E as [E E3]. apply andb_true_iff in E as [E1 E2].
      apply Z.ltb_lt in E2. apply negb_true_iff, Z.eqb_neq in E1. pose proof (Hrange c).
      destruct (Z.eq_dec c_ c) as [->|Hne]; upd_tac; [|assumption].
      cbn [k_st with_st] in Hk_. unfold c_connectionActive in *. lia.
    + intros t_ p_ c_ h_ Hw_ Ha_ Hr_ Hact_; pose proof (Hthr' _ _ Hw_).
      left. exists t_, p_. split; [upd_tac; assumption|]. split; [assumption|].
      destruct p_; cbn [act_rem act_of] in *; simp_st; try discriminate; try assumption.
      inversion Ha_; subst. upd_all; cbn [with_st]; rewrite ?act_todo_with_st; assumption.
  - (* PAct1 accepted *)
    left; eexists t, _; (split; [apply upd_same|]); (split; [reflexivity|]); cbn [act_rem]; simp_st. assumption.
  - (* PAct1 refused, was active: no longer active *)
    exfalso. rewrite upd_same in Hact_. cbn [k_st with_st] in Hact_. discriminate Hact_.
  - (* PAct1 refused, was not active *)
    exfalso. unfold is_active in E1. apply Z.eqb_neq in E1. contradiction.
  - destruct Hr_.
  - (* PGet, peer found *)
    left; eexists t, _; (split; [apply upd_same|]); (split; [reflexivity|]); cbn [act_rem]; simp_st. now rewrite (Hrt _ _ H).
  - (* PGet, peer created *)
    left; eexists t, _; (split; [apply upd_same|]); (split; [reflexivity|]); cbn [act_rem]; simp_st. rewrite upd_same. exact Hr_.
  - (* PChk passed *)
    left; eexists t, _; (split; [apply upd_same|]); (split; [reflexivity|]); cbn [act_rem]; simp_st. exact Hr_.
  - (* PChk failed *)
    exfalso. unfold is_active in E0. apply Z.eqb_neq in E0. contradiction.
  - (* PApp re-check failed *)
    exfalso. cbn [andb] in E0. apply negb_true_iff in E0. unfold is_active in E0. apply Z.eqb_neq in E0. contradiction.
  - (* PApp, inbound list *)
    destruct Hr_ as [<-|Hr_].
    + right. exists pid. split.
      * destruct Hh as [Hh _]. apply (Hh _ _ pid E). cbn. apply Z.eqb_refl.
      * rewrite upd_same. unfold dirlist. rewrite E1. cbn [p_in p_with_in]. apply in_or_app. right. now left.
    + left; eexists t, _; (split; [apply upd_same|]); (split; [reflexivity|]); cbn [act_rem]; simp_st. exact Hr_.
  - (* PApp, outbound list *)
    destruct Hr_ as [<-|Hr_].
    + right. exists pid. split.
      * destruct Hh as [Hh _]. apply (Hh _ _ pid E). cbn. apply Z.eqb_refl.
      * rewrite upd_same. unfold dirlist. rewrite E1. cbn [p_out p_with_out]. apply in_or_app. right. now left.
    + left; eexists t, _; (split; [apply upd_same|]); (split; [reflexivity|]); cbn [act_rem]; simp_st. exact Hr_.
  - (* PCbRem, inbound list: an active connection is never the one removed *)
    assert (Hna : k_st (s_conn s c) <> c_connectionActive).
    { unfold is_active in E1. now apply Z.eqb_neq in E1. }
    apply active_frame with s; try assumption; simp_st; [frame_A2 s Hnew|frame_N| |].
    + intros t_ p_ c_ h_ Hw_ Ha_ Hr_ Hact_; pose proof (Hthr' _ _ Hw_).
      destruct (Z.eq_dec t_ t) as [->|?]; [rewrite E in Hw_; inversion Hw_; subst p_; discriminate Ha_|].
      keep_act s Hnew Hpc Hpcs.
    + intros c_ h_ q_ Hact_ Hr_ Hl_. exists q_. split; [assumption|].
      destruct (Z.eq_dec q_ pid) as [->|Hq]; [|now rewrite upd_other].
      rewrite upd_same. unfold dirlist in *. destruct (k_dir (s_conn s c_) =? c_inbound); cbn [p_in p_out p_with_in]; [|assumption].
      destruct (swap_remove_in_inv _ _ _ _ E0 Hl_) as [->|Hl2]; [contradiction|assumption].
  - (* PCbRem, outbound list: an active connection is never the one removed *)
    assert (Hna : k_st (s_conn s c) <> c_connectionActive).
    { unfold is_active in E2. now apply Z.eqb_neq in E2. }
    apply active_frame with s; try assumption; simp_st; [frame_A2 s Hnew|frame_N| |].
    + intros t_ p_ c_ h_ Hw_ Ha_ Hr_ Hact_; pose proof (Hthr' _ _ Hw_).
      destruct (Z.eq_dec t_ t) as [->|?]; [rewrite E in Hw_; inversion Hw_; subst p_; discriminate Ha_|].
      keep_act s Hnew Hpc Hpcs.
    + intros c_ h_ q_ Hact_ Hr_ Hl_. exists q_. split; [assumption|].
      destruct (Z.eq_dec q_ pid) as [->|Hq]; [|now rewrite upd_other].
      rewrite upd_same. unfold dirlist in *. destruct (k_dir (s_conn s c_) =? c_inbound); cbn [p_in p_out p_with_out]; [assumption|].
      destruct (swap_remove_in_inv _ _ _ _ E1 Hl_) as [->|Hl2]; [contradiction|assumption].
  - (* PCol3: a safe deletion removes an empty peer *)
    cbn [safe_label] in Hsafe. rewrite E in Hsafe. unfold delete_safe in Hsafe.
    apply active_frame with s; try assumption; simp_st; [frame_A2 s Hnew|frame_N| |].
    + intros t_ p_ c_ h_ Hw_ Ha_ Hr_ Hact_; pose proof (Hthr' _ _ Hw_).
      destruct (Z.eq_dec t_ t) as [->|?]; [rewrite E in Hw_; inversion Hw_; subst p_; discriminate Ha_|].
      keep_act s Hnew Hpc Hpcs.
    + intros c_ h_ q_ Hact_ Hr_ Hl_. exists q_. split; [|assumption].
      destruct (Z.eq_dec h_ hp) as [->|Hh']; [|now rewrite upd_other].
      exfalso. rewrite Hr_ in Hsafe. apply andb_true_iff in Hsafe as [Hs _].
      unfold can_remove in Hs. apply Z.eqb_eq in Hs. rewrite (Hrefs q_) in Hs. unfold zlen in Hs.
      unfold dirlist in Hl_.
      destruct (p_in (s_peer s q_)) eqn:Ei; destruct (p_out (s_peer s q_)) eqn:Eo; cbn [length] in Hs; try lia.
      destruct (k_dir (s_conn s c_) =? c_inbound); destruct Hl_.
Qed.

(* ---- assembly ---- *)
Lemma invS_init : InvS init.
Proof.
  split.
  - intros c H. now contradiction H.
  - intros t p c H. discriminate H.
  - intros t t' p p' c H. discriminate H.
  - split; [intros t p pid H|intros t lid hp pid H]; discriminate H.
  - split.
    + intros pid [H|(lid & hp & H)]; [now contradiction H|destruct H].
    + intros lid hp pid H. destruct H.
  - intros pid. cbn. split; [constructor|intros c []].
  - intros t p c pid H. discriminate H.
  - intros c hp H. discriminate H.
Qed.

Lemma invS_step s l s' :
  Inv0 s -> InvS s -> safe_label s l = true -> step s l = Some s' -> InvS s'.
Proof.
  intros H0 [H1 H2 H3 H4 H5 H6 H7 H8] Hsafe H. pose proof H0 as [Hf _ _ _ _ _]. split.
  - eapply step_conn; eauto.
  - eapply step_pcs; eauto.
  - eapply step_uniq; eauto.
  - eapply step_held; eauto.
  - eapply step_rooted; eauto.
  - eapply step_listed; eauto.
  - eapply step_notyet; eauto.
  - eapply step_active; eauto.
Qed.

Lemma invS_run ls : forall s s', Inv0 s -> InvS s -> run_safe s ls = Some s' -> Inv0 s' /\ InvS s'.
Proof.
  induction ls as [|l r IH]; intros s s' H0 HS H; cbn [run_safe] in H.
  - inversion H; subst; auto.
  - destruct (safe_label s l) eqn:Es; [|discriminate].
    destruct (step s l) as [s1|] eqn:E; [|discriminate].
    eapply IH; [| |exact H]; [eapply inv0_step|eapply invS_step]; eauto.
Qed.

Lemma run_safe_is_run ls : forall s s', run_safe s ls = Some s' -> run_gen true s ls = Some s'.
Proof.
  induction ls as [|l r IH]; intros s s' H; cbn [run_safe run_gen] in *; [assumption|].
  destruct (safe_label s l); [|discriminate]. unfold step in H.
  destruct (step_gen true s l); [|discriminate]. auto.
Qed.

Lemma in_out_ne : c_inbound <> c_outbound. Proof. discriminate. Qed.

Lemma act_todo_inbound k : k_dir k = c_inbound -> act_todo k = [k_rhp k].
Proof. intros H. unfold act_todo. rewrite H. reflexivity. Qed.

Lemma act_todo_outbound_in k hp :
  k_dir k = c_outbound -> (In hp (act_todo k) <-> hp = k_rhp k \/ hp = k_ohp k).
Proof.
  intros H. unfold act_todo. rewrite H, Z.eqb_refl. cbn [andb].
  destruct (Z.eqb_spec (k_ohp k) (k_rhp k)) as [Heq|Hne]; cbn [negb In]; split.
  - intros [ <- | [] ]. now left.
  - intros [ -> | -> ]; left; congruence.
  - intros [ <- | [ <- | [] ] ]; auto.
  - intros [ -> | -> ]; auto.
Qed.

Theorem lists_exact_safe ls s :
  run_safe init ls = Some s -> quiescent s -> lists_exact s /\ all_listed s /\ refs_rooted s.
Proof.
  intros Hr Hq. destruct (invS_run _ _ _ inv0_init invS_init Hr) as [H0 HS].
  destruct H0 as [_ Hroot _ _ _ _]. destruct HS as [Hcn _ _ _ Hro Hl _ Ha].
  assert (Hnothr : forall c pid, ~ exists t p, s_thr s t = Some p /\ cb_cov s p c pid).
  { intros c pid (t & p & Ht & _). rewrite Hq in Ht. discriminate. }
  assert (Hlisted : forall c hp, active s c -> In hp (act_todo (s_conn s c)) ->
            exists pid, s_root s hp = Some pid /\ In c (dirlist (s_conn s c) (s_peer s pid))).
  { intros c hp Hact Hin. destruct (Ha c hp Hact Hin) as [(t & p & Ht & _)|H]; [|exact H].
    rewrite Hq in Ht. discriminate. }
  split; [|split].
  - intros hp pid Hr0. cbn zeta. destruct (Hl pid) as [Hnd Hall]. fold (plist (s_peer s pid)).
    split; [exact Hnd|]. pose proof (Hroot _ _ Hr0) as Hhp.
    split; intros c; split.
    + intros Hin. assert (Hp : In c (plist (s_peer s pid))) by (apply in_or_app; now left).
      destruct (Hall c Hp) as (Hk & Hi & _ & Hh & Hact). specialize (Hi Hin).
      split; [destruct Hact as [Hact|Hw]; [exact Hact|exfalso; eapply Hnothr; eauto]|]. split; [assumption|].
      rewrite (act_todo_inbound _ Hi), Hhp in Hh. destruct Hh as [Hh|[]]. exact Hh.
    + intros (Hact & Hd & Hrhp).
      destruct (Hlisted c hp Hact) as (pid' & Hr' & Hin').
      { rewrite (act_todo_inbound _ Hd). left. exact Hrhp. }
      rewrite Hr0 in Hr'. inversion Hr'; subst pid'. unfold dirlist in Hin'. rewrite Hd, Z.eqb_refl in Hin'. exact Hin'.
    + intros Hin. assert (Hp : In c (plist (s_peer s pid))) by (apply in_or_app; now right).
      destruct (Hall c Hp) as (Hk & _ & Ho & Hh & Hact). specialize (Ho Hin).
      destruct (Hcn c Hk) as (_ & [[Hd _]|[Hd _]]); [contradiction|].
      split; [destruct Hact as [Hact|Hw]; [exact Hact|exfalso; eapply Hnothr; eauto]|]. split; [assumption|].
      rewrite Hhp in Hh. apply (act_todo_outbound_in _ _ Hd) in Hh. destruct Hh; auto.
    + intros (Hact & Hd & Hhp').
      destruct (Hlisted c hp Hact) as (pid' & Hr' & Hin').
      { apply (act_todo_outbound_in _ _ Hd). destruct Hhp'; auto. }
      rewrite Hr0 in Hr'. inversion Hr'; subst pid'. unfold dirlist in Hin'. rewrite Hd in Hin'.
      change (c_outbound =? c_inbound) with false in Hin'. exact Hin'.
  - intros c Hact. split.
    + destruct (Hlisted c (k_rhp (s_conn s c)) Hact) as (pid & Hr0 & _); [unfold act_todo; now left|]. congruence.
    + intros Hd. destruct (Hlisted c (k_ohp (s_conn s c)) Hact) as (pid & Hr0 & _); [|congruence].
      apply (act_todo_outbound_in _ _ Hd). now right.
  - intros lid hp pid Hin. destruct Hro as [Hra Hrb]. rewrite <- (Hrb _ _ _ Hin). apply Hra. right. eauto.
Qed.
