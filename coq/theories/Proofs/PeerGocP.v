(* Invariants of the get-or-create model Model/PeerGoc.v, for every interleaving (label list):
   no private objects, every caller gets the stored object, list entries and reference counts
   refer to the stored object, list keys are unique (write-lock exclusion). *)
From Coq Require Import ZArith List Bool Lia.
From Verif Require Import Base.Wrap Base.GoMap Model.PeerBook Model.PeerGoc Proofs.PeerBookL.
Import ListNotations.
Local Open Scope Z_scope.

(* the (list, host:port) a goroutine holds the list write lock for *)
Definition g_holds (p : option gpc) : option (Z * Z) :=
  match p with
  | Some (GLAdd3 lid hp) | Some (GLAdd4 lid hp) | Some (GLAdd5 lid hp _) => Some (lid, hp)
  | _ => None
  end.

Definition gkey (e : Z * Z * Z) : Z * Z := fst e.
Definition gkeys_nodup (l : list (Z * Z * Z)) : Prop := NoDup (map gkey l).
Definition gents (q : Z) (l : list (Z * Z * Z)) : Z := Z.of_nat (length (filter (ent_pid q) l)).

Record ginv (s : gst) : Prop := mkGinv {
  gi_next : 0 < g_next s;
  gi_root : forall hp q, g_root s hp = Some q -> 0 < q < g_next s /\ g_hp s q = hp;
  gi_alloc : forall q, 0 < q < g_next s -> g_root s (g_hp s q) = Some q;
  gi_lists : forall lid hp q, In (lid, hp, q) (g_lists s) -> g_root s hp = Some q;
  gi_hold5 : forall t lid hp q, g_thr s t = Some (GLAdd5 lid hp q) -> g_root s hp = Some q;
  gi_ret : forall t hp c q, In (t, hp, c, q) (g_ret s) -> q <> 0 -> g_root s hp = Some q;
  gi_sc : forall q, g_sc s q = gents q (g_lists s);
  gi_lock : forall t lid hp, g_holds (g_thr s t) = Some (lid, hp) ->
            g_lk s lid = true /\ list_find (g_lists s) lid hp = None;
  gi_excl : forall t1 t2 lid hp1 hp2, g_holds (g_thr s t1) = Some (lid, hp1) ->
            g_holds (g_thr s t2) = Some (lid, hp2) -> t1 = t2;
  gi_nodup : gkeys_nodup (g_lists s)
}.

(* ---- list lemmas ---- *)
Lemma list_find_none_key l lid hp : list_find l lid hp = None -> ~ In (lid, hp) (map gkey l).
Proof.
  induction l as [|[[a b] q] r IH]; cbn [list_find map]; intros H; [intros []|].
  destruct ((a =? lid) && (b =? hp)) eqn:E; [discriminate|].
  intros [Hk|Hk]; [|now apply IH].
  unfold gkey in Hk. cbn in Hk. inversion Hk; subst. rewrite !Z.eqb_refl in E. discriminate.
Qed.

Lemma list_del_keys l lid hp k : In k (map gkey (list_del l lid hp)) -> In k (map gkey l).
Proof.
  induction l as [|[[a b] q] r IH]; cbn [list_del map]; intros H; [destruct H|].
  destruct ((a =? lid) && (b =? hp)); [now right|].
  destruct H as [H|H]; [now left|right; now apply IH].
Qed.

Lemma list_del_nodup l lid hp : gkeys_nodup l -> gkeys_nodup (list_del l lid hp).
Proof.
  unfold gkeys_nodup. induction l as [|[[a b] q] r IH]; cbn [list_del map]; intros H; [constructor|].
  inversion H as [|? ? Hn Hr]; subst.
  destruct ((a =? lid) && (b =? hp)); [exact Hr|].
  cbn [map]. constructor; [|now apply IH].
  intros Hin. apply Hn. eapply list_del_keys; eauto.
Qed.

Lemma list_del_find_other l lid hp lid' hp' :
  lid' <> lid \/ hp' <> hp ->
  list_find (list_del l lid hp) lid' hp' = list_find l lid' hp'.
Proof.
  intros Hne. induction l as [|[[a b] q] r IH]; cbn [list_del list_find]; [reflexivity|].
  destruct ((a =? lid) && (b =? hp)) eqn:E.
  - apply andb_true_iff in E as [E1 E2]. apply Z.eqb_eq in E1, E2. subst a b.
    destruct ((lid =? lid') && (hp =? hp')) eqn:E'; [|reflexivity].
    apply andb_true_iff in E' as [E1 E2]. apply Z.eqb_eq in E1, E2. subst. destruct Hne; congruence.
  - cbn [list_find]. rewrite IH. reflexivity.
Qed.

Lemma list_del_find_same l lid hp :
  gkeys_nodup l -> list_find (list_del l lid hp) lid hp = None.
Proof.
  unfold gkeys_nodup. induction l as [|[[a b] q] r IH]; cbn [list_del map]; intros H; [reflexivity|].
  inversion H as [|? ? Hn Hr]; subst.
  destruct ((a =? lid) && (b =? hp)) eqn:E.
  - apply andb_true_iff in E as [E1 E2]. apply Z.eqb_eq in E1, E2. subst a b.
    destruct (list_find r lid hp) eqn:F; [|reflexivity].
    exfalso. apply Hn. apply list_find_in in F.
    change (lid, hp) with (gkey (lid, hp, z)). now apply in_map.
  - cbn [list_find]. rewrite E. now apply IH.
Qed.

Lemma gents_cons q a b p l : gents q ((a, b, p) :: l) = (if p =? q then 1 else 0) + gents q l.
Proof.
  unfold gents. cbn [filter]. replace (ent_pid q (a, b, p)) with (p =? q) by reflexivity.
  destruct (p =? q); cbn [length]; lia.
Qed.

Lemma gents_del l lid hp p q :
  list_find l lid hp = Some p ->
  gents q (list_del l lid hp) = gents q l - (if p =? q then 1 else 0).
Proof.
  intros H. unfold gents. rewrite (list_del_count l lid hp p q H).
  rewrite (Z.eqb_sym p q). destruct (q =? p); lia.
Qed.

(* ---- region 2 of RootPeerList.Add ---- *)
Lemma g_root_insert_spec s hp s1 q :
  ginv s -> g_root_insert s hp = (s1, q) ->
  g_root s1 hp = Some q /\
  (forall h x, g_root s h = Some x -> g_root s1 h = Some x) /\
  g_lists s1 = g_lists s /\ g_lk s1 = g_lk s /\ g_sc s1 = g_sc s /\ g_thr s1 = g_thr s /\
  g_ret s1 = g_ret s /\
  0 < g_next s1 /\
  (forall h x, g_root s1 h = Some x -> 0 < x < g_next s1 /\ g_hp s1 x = h) /\
  (forall x, 0 < x < g_next s1 -> g_root s1 (g_hp s1 x) = Some x).
Proof.
  intros I H. unfold g_root_insert in H. destruct (g_root s hp) as [q0|] eqn:E.
  - inversion H; subst s1 q.
    split; [exact E|]. split; [auto|]. do 5 (split; [reflexivity|]).
    split; [apply I|]. split; [apply (gi_root s I)|apply (gi_alloc s I)].
  - inversion H; subst s1 q. cbn [g_root g_lists g_lk g_sc g_thr g_ret g_next g_hp].
    pose proof (gi_next s I) as Hn.
    repeat split; auto; try lia.
    + unfold gmap_set. now rewrite Z.eqb_refl.
    + intros h x Hx. unfold gmap_set. destruct (Z.eqb_spec h hp) as [->|]; [congruence|exact Hx].
    + unfold gmap_set in H0. destruct (Z.eqb_spec h hp) as [->|Hne].
      * inversion H0; subst. lia.
      * apply (gi_root s I) in H0. lia.
    + unfold gmap_set in H0. destruct (Z.eqb_spec h hp) as [->|Hne].
      * inversion H0; subst. lia.
      * apply (gi_root s I) in H0. lia.
    + unfold gmap_set in H0. destruct (Z.eqb_spec h hp) as [->|Hne].
      * inversion H0; subst. apply upd_same.
      * apply (gi_root s I) in H0. destruct H0 as [Hr Hh]. rewrite upd_other by lia. exact Hh.
    + intros x Hx. destruct (Z.eq_dec x (g_next s)) as [->|Hne].
      * rewrite upd_same. unfold gmap_set. now rewrite Z.eqb_refl.
      * rewrite upd_other by exact Hne.
        assert (Hold : g_root s (g_hp s x) = Some x) by (apply (gi_alloc s I); lia).
        unfold gmap_set. destruct (Z.eqb_spec (g_hp s x) hp) as [Heq|]; [|exact Hold].
        rewrite Heq in Hold. congruence.
Qed.

(* ---- a goroutine's call ends: g_done preserves the invariant when the object is the stored one ---- *)
Lemma g_holds_upd thr t p t' lid hp :
  g_holds (upd thr t p t') = Some (lid, hp) ->
  (t' = t /\ g_holds p = Some (lid, hp)) \/ (t' <> t /\ g_holds (thr t') = Some (lid, hp)).
Proof.
  destruct (upd_cases thr t p t') as [[-> E]|[Hne E]]; rewrite E; intros H; [left|right]; auto.
Qed.

Lemma ginv_done s t hp c q :
  ginv s -> (q <> 0 -> g_root s hp = Some q) -> g_holds (g_thr s t) = None ->
  ginv (g_done s t hp c q).
Proof.
  intros I Hq Hh. constructor; cbn [g_done g_root g_lists g_lk g_sc g_hp g_next g_thr g_ret]; try apply I.
  - intros t' lid hp' q' H. destruct (upd_cases (g_thr s) t None t') as [[-> E]|[Hne E]]; rewrite E in H; [discriminate|].
    eapply gi_hold5; eauto.
  - intros t' hp' c' q' Hin Hnz. apply in_app_or in Hin as [Hin|[Hin|[]]].
    + eapply gi_ret; eauto.
    + inversion Hin; subst. auto.
  - intros t' lid hp' H. apply g_holds_upd in H as [[_ H]|[_ H]]; [discriminate|]. eapply gi_lock; eauto.
  - intros t1 t2 lid hp1 hp2 H1 H2.
    apply g_holds_upd in H1 as [[_ H1]|[_ H1]]; [discriminate|].
    apply g_holds_upd in H2 as [[_ H2]|[_ H2]]; [discriminate|].
    eapply gi_excl; eauto.
Qed.

(* a goroutine moves to a program point that holds no list lock and no object *)
Lemma ginv_move s t p :
  ginv s -> g_holds (g_thr s t) = None -> g_holds (Some p) = None ->
  ginv (gset_thr s t (Some p)).
Proof.
  intros I Hh Hp. constructor; cbn [gset_thr g_root g_lists g_lk g_sc g_hp g_next g_thr g_ret]; try apply I.
  - intros t' lid hp' q' H. destruct (upd_cases (g_thr s) t (Some p) t') as [[-> E]|[Hne E]]; rewrite E in H.
    + inversion H; subst p. discriminate.
    + eapply gi_hold5; eauto.
  - intros t' lid hp' H. apply g_holds_upd in H as [[_ H]|[_ H]]; [congruence|]. eapply gi_lock; eauto.
  - intros t1 t2 lid hp1 hp2 H1 H2.
    apply g_holds_upd in H1 as [[_ H1]|[_ H1]]; [congruence|].
    apply g_holds_upd in H2 as [[_ H2]|[_ H2]]; [congruence|].
    eapply gi_excl; eauto.
Qed.

(* a goroutine that holds the lock of (lid, hp) moves on, still holding it *)
Lemma ginv_keep s t p lid hp :
  ginv s -> g_holds (g_thr s t) = Some (lid, hp) -> g_holds (Some p) = Some (lid, hp) ->
  (forall q, p = GLAdd5 lid hp q -> g_root s hp = Some q) ->
  ginv (gset_thr s t (Some p)).
Proof.
  intros I Hh Hp H5. constructor; cbn [gset_thr g_root g_lists g_lk g_sc g_hp g_next g_thr g_ret]; try apply I.
  - intros t' lid' hp' q' H. destruct (upd_cases (g_thr s) t (Some p) t') as [[-> E]|[Hne E]]; rewrite E in H.
    + inversion H; subst p. cbn in Hp. inversion Hp; subst. now apply H5.
    + eapply gi_hold5; eauto.
  - intros t' lid' hp' H. apply g_holds_upd in H as [[-> H]|[_ H]].
    + rewrite Hp in H. inversion H; subst. eapply gi_lock; eauto.
    + eapply gi_lock; eauto.
  - intros t1 t2 lid' hp1 hp2 H1 H2.
    apply g_holds_upd in H1 as [[-> H1]|[N1 H1]]; apply g_holds_upd in H2 as [[-> H2]|[N2 H2]]; auto.
    + rewrite Hp in H1. inversion H1; subst. symmetry. eapply gi_excl; eauto.
    + rewrite Hp in H2. inversion H2; subst. eapply gi_excl; eauto.
    + eapply gi_excl; eauto.
Qed.

(* the state after region 2 of RootPeerList.Add satisfies the invariant *)
Lemma ginv_insert s hp s1 q :
  ginv s -> g_root_insert s hp = (s1, q) -> ginv s1.
Proof.
  intros I H. destruct (g_root_insert_spec s hp s1 q I H)
    as (Hq & Hmono & El & Ek & Es & Et & Er & Hn & Hroot & Halloc).
  constructor; rewrite ?El, ?Ek, ?Es, ?Et, ?Er; auto.
  - intros lid h x Hin. apply Hmono. eapply gi_lists; eauto.
  - intros t lid h x Ht. apply Hmono. eapply gi_hold5; eauto.
  - intros t h c x Hin Hnz. apply Hmono. eapply gi_ret; eauto.
  - apply I.
  - apply I.
  - apply I.
  - apply I.
Qed.

Lemma ginv_init : ginv ginit.
Proof.
  constructor; cbn; try lia; try discriminate; try contradiction; auto.
  constructor.
Qed.

Lemma ginv_step_thread s t p s' :
  ginv s -> g_thr s t = Some p -> g_step_thread s t p = Some s' -> ginv s'.
Proof.
  intros I Ht H.
  destruct p as [hp|hp|hp|hp|lid hp|lid hp|lid hp|lid hp|lid hp q|lid hp]; cbn [g_step_thread] in H.
  - (* GRGet *)
    inversion H; subst s'; clear H. destruct (g_root s hp) as [q|] eqn:E.
    + apply ginv_done; [exact I|intros _; exact E|now rewrite Ht].
    + apply ginv_done; [exact I|congruence|now rewrite Ht].
  - (* GRGoa *)
    inversion H; subst s'; clear H. destruct (g_root s hp) as [q|] eqn:E.
    + apply ginv_done; [exact I|intros _; exact E|now rewrite Ht].
    + apply ginv_move; [exact I|now rewrite Ht|reflexivity].
  - (* GRAdd1 *)
    inversion H; subst s'; clear H. destruct (g_root s hp) as [q|] eqn:E.
    + apply ginv_done; [exact I|intros _; exact E|now rewrite Ht].
    + apply ginv_move; [exact I|now rewrite Ht|reflexivity].
  - (* GRAdd2 *)
    destruct (g_root_insert s hp) as [s1 q] eqn:E. inversion H; subst s'; clear H.
    pose proof (ginv_insert s hp s1 q I E) as I1.
    destruct (g_root_insert_spec s hp s1 q I E) as (Hq & _ & _ & _ & _ & Et & _).
    apply ginv_done; [exact I1|intros _; exact Hq|now rewrite Et, Ht].
  - (* GLAdd1 *)
    destruct (g_lk s lid) eqn:Lk; [discriminate|]. inversion H; subst s'; clear H.
    destruct (list_find (g_lists s) lid hp) as [q|] eqn:E.
    + apply ginv_done; [exact I| |now rewrite Ht]. intros _. apply (gi_lists s I lid hp q). apply list_find_in. exact E.
    + apply ginv_move; [exact I|now rewrite Ht|reflexivity].
  - (* GLAdd2 *)
    destruct (g_lk s lid) eqn:Lk; [discriminate|]. inversion H; subst s'; clear H.
    destruct (list_find (g_lists s) lid hp) as [q|] eqn:E.
    + apply ginv_done; [exact I| |now rewrite Ht]. intros _. apply (gi_lists s I lid hp q). apply list_find_in. exact E.
    + (* takes the lock *)
      constructor; cbn [gset_thr gset_lk g_root g_lists g_lk g_sc g_hp g_next g_thr g_ret]; try apply I.
      * intros t' lid' hp' q' H. destruct (upd_cases (g_thr s) t (Some (GLAdd3 lid hp)) t') as [[-> E']|[Hne E']]; rewrite E' in H; [discriminate|].
        eapply gi_hold5; eauto.
      * intros t' lid' hp' H. apply g_holds_upd in H as [[-> H]|[Hne H]].
        -- cbn in H. inversion H; subst. split; [apply upd_same|exact E].
        -- destruct (gi_lock s I t' lid' hp' H) as [L F]. split; [|exact F].
           rewrite upd_other; [exact L|]. intros ->. congruence.
      * intros t1 t2 lid' hp1 hp2 H1 H2.
        apply g_holds_upd in H1 as [[-> H1]|[N1 H1]]; apply g_holds_upd in H2 as [[-> H2]|[N2 H2]]; auto.
        -- cbn in H1. inversion H1; subst. destruct (gi_lock s I t2 _ hp2 H2) as [L _]. congruence.
        -- cbn in H2. inversion H2; subst. destruct (gi_lock s I t1 _ hp1 H1) as [L _]. congruence.
        -- eapply gi_excl; eauto.
  - (* GLAdd3 *)
    inversion H; subst s'; clear H. destruct (g_root s hp) as [q|] eqn:E.
    + eapply ginv_keep with (lid := lid) (hp := hp); eauto; [now rewrite Ht|]. intros q' Hq'. inversion Hq'; subst. exact E.
    + eapply ginv_keep with (lid := lid) (hp := hp); eauto; [now rewrite Ht|]. intros q' Hq'. discriminate.
  - (* GLAdd4 *)
    destruct (g_root_insert s hp) as [s1 q] eqn:E. inversion H; subst s'; clear H.
    pose proof (ginv_insert s hp s1 q I E) as I1.
    destruct (g_root_insert_spec s hp s1 q I E) as (Hq & _ & _ & _ & _ & Et & _).
    eapply ginv_keep with (lid := lid) (hp := hp); eauto; [now rewrite Et, Ht|].
    intros q' Hq'. inversion Hq'; subst. exact Hq.
  - (* GLAdd5 *)
    inversion H; subst s'; clear H.
    assert (Hhold : g_holds (g_thr s t) = Some (lid, hp)) by now rewrite Ht.
    destruct (gi_lock s I t lid hp Hhold) as [Lk Fn].
    pose proof (gi_hold5 s I t lid hp q Ht) as Hr.
    constructor; cbn [g_done gset_thr gset_lk gset_lists gset_sc g_root g_lists g_lk g_sc g_hp g_next g_thr g_ret]; try apply I.
    + intros lid' hp' q' [Hin|Hin]; [inversion Hin; subst; exact Hr|eapply gi_lists; eauto].
    + intros t' lid' hp' q' H. destruct (upd_cases (g_thr s) t None t') as [[-> E']|[Hne E']]; rewrite E' in H; [discriminate|].
      eapply gi_hold5; eauto.
    + intros t' hp' c' q' Hin Hnz. apply in_app_or in Hin as [Hin|[Hin|[]]].
      * eapply gi_ret; eauto.
      * inversion Hin; subst. exact Hr.
    + intros q'. rewrite gents_cons. unfold sc_add. rewrite (gi_sc s I q').
      rewrite (Z.eqb_sym q' q). destruct (q =? q'); lia.
    + intros t' lid' hp' H. apply g_holds_upd in H as [[_ H]|[Hne H]]; [discriminate|].
      destruct (gi_lock s I t' lid' hp' H) as [L F].
      assert (Hl : lid' <> lid) by (intros ->; apply Hne; eapply gi_excl; eauto).
      split.
      * rewrite upd_other; auto.
      * cbn [list_find]. destruct (Z.eqb_spec lid lid') as [Heq|_]; [congruence|]. cbn [andb]. exact F.
    + intros t1 t2 lid' hp1 hp2 H1 H2.
      apply g_holds_upd in H1 as [[_ H1]|[_ H1]]; [discriminate|].
      apply g_holds_upd in H2 as [[_ H2]|[_ H2]]; [discriminate|].
      eapply gi_excl; eauto.
    + unfold gkeys_nodup. cbn [map]. constructor; [|apply I].
      change (gkey (lid, hp, q)) with (lid, hp). now apply list_find_none_key.
  - (* GLRem *)
    destruct (g_lk s lid) eqn:Lk; [discriminate|]. inversion H; subst s'; clear H.
    destruct (list_find (g_lists s) lid hp) as [q|] eqn:E.
    + pose proof (gi_lists s I lid hp q (list_find_in _ _ _ _ E)) as Hr.
      constructor; cbn [g_done gset_thr gset_lk gset_lists gset_sc g_root g_lists g_lk g_sc g_hp g_next g_thr g_ret]; try apply I.
      * intros lid' hp' q' Hin. apply list_del_in in Hin. eapply gi_lists; eauto.
      * intros t' lid' hp' q' H. destruct (upd_cases (g_thr s) t None t') as [[-> E']|[Hne E']]; rewrite E' in H; [discriminate|].
        eapply gi_hold5; eauto.
      * intros t' hp' c' q' Hin Hnz. apply in_app_or in Hin as [Hin|[Hin|[]]].
        -- eapply gi_ret; eauto.
        -- inversion Hin; subst. exact Hr.
      * intros q'. rewrite (gents_del _ _ _ q q' E). unfold sc_add. rewrite (gi_sc s I q').
        rewrite (Z.eqb_sym q' q). destruct (q =? q'); lia.
      * intros t' lid' hp' H. apply g_holds_upd in H as [[_ H]|[Hne H]]; [discriminate|].
        destruct (gi_lock s I t' lid' hp' H) as [L F]. split; [exact L|].
        rewrite list_del_find_other; [exact F|]. left. intros ->. congruence.
      * intros t1 t2 lid' hp1 hp2 H1 H2.
        apply g_holds_upd in H1 as [[_ H1]|[_ H1]]; [discriminate|].
        apply g_holds_upd in H2 as [[_ H2]|[_ H2]]; [discriminate|].
        eapply gi_excl; eauto.
      * apply list_del_nodup. apply I.
    + apply ginv_done; [exact I|congruence|now rewrite Ht].
Qed.

Lemma ginv_step s l s' : ginv s -> gstep s l = Some s' -> ginv s'.
Proof.
  intros I H. destruct l as [t p|t]; cbn [gstep] in H.
  - destruct (g_entry p) as [hp|] eqn:E; [|discriminate].
    destruct (g_thr s t) eqn:Et; [discriminate|].
    destruct (hp =? 0); [discriminate|]. inversion H; subst s'.
    apply ginv_move; auto; [now rewrite Et|].
    destruct p; cbn in E; try discriminate; reflexivity.
  - destruct (g_thr s t) as [p|] eqn:Et; [|discriminate].
    eapply ginv_step_thread; eauto.
Qed.

Lemma ginv_run ls : forall s s', ginv s -> grun s ls = Some s' -> ginv s'.
Proof.
  induction ls as [|l r IH]; cbn [grun]; intros s s' I H.
  - inversion H; subst. exact I.
  - destruct (gstep s l) as [s1|] eqn:E; [|discriminate].
    eapply IH; [|exact H]. eapply ginv_step; eauto.
Qed.

Theorem ginv_all ls s : grun ginit ls = Some s -> ginv s.
Proof. apply ginv_run, ginv_init. Qed.

(* ---- the statements ---- *)

(* every caller that asked for hp and got an object got THE SAME object, the one stored in the root map *)
Theorem goc_same_object ls s :
  grun ginit ls = Some s ->
  forall t1 t2 hp c1 c2 q1 q2,
    In (t1, hp, c1, q1) (g_ret s) -> In (t2, hp, c2, q2) (g_ret s) -> q1 <> 0 -> q2 <> 0 ->
    q1 = q2 /\ g_root s hp = Some q1.
Proof.
  intros H t1 t2 hp c1 c2 q1 q2 H1 H2 N1 N2. pose proof (ginv_all ls s H) as I.
  pose proof (gi_ret s I _ _ _ _ H1 N1) as R1. pose proof (gi_ret s I _ _ _ _ H2 N2) as R2.
  split; [congruence|exact R1].
Qed.

(* no private objects: every Peer object ever created is the one registered under its host:port *)
Theorem goc_no_private_object ls s :
  grun ginit ls = Some s ->
  forall q, 0 < q < g_next s -> g_root s (g_hp s q) = Some q.
Proof. intros H. apply (gi_alloc s (ginv_all ls s H)). Qed.

(* and the root map is injective: one object per host:port, one host:port per object *)
Theorem goc_root_injective ls s :
  grun ginit ls = Some s ->
  forall hp1 hp2 q, g_root s hp1 = Some q -> g_root s hp2 = Some q -> hp1 = hp2.
Proof.
  intros H hp1 hp2 q H1 H2. pose proof (ginv_all ls s H) as I.
  apply (gi_root s I) in H1, H2. destruct H1 as [_ H1], H2 as [_ H2]. congruence.
Qed.

(* every peer-list entry, and every object a PeerList.Add is about to count a reference on, is the
   root list's object for that host:port *)
Theorem goc_lists_share_root ls s :
  grun ginit ls = Some s ->
  (forall lid hp q, list_find (g_lists s) lid hp = Some q -> g_root s hp = Some q) /\
  (forall t lid hp q, g_thr s t = Some (GLAdd5 lid hp q) -> g_root s hp = Some q).
Proof.
  intros H. pose proof (ginv_all ls s H) as I. split.
  - intros lid hp q F. apply (gi_lists s I lid hp q). apply list_find_in. exact F.
  - apply (gi_hold5 s I).
Qed.

(* reference counts: scCount of every object = the number of peer-list entries holding it, the
   entries have distinct (list, host:port) keys, and they all hold stored objects *)
Theorem goc_refcount ls s :
  grun ginit ls = Some s ->
  (forall q, g_sc s q = gents q (g_lists s)) /\ gkeys_nodup (g_lists s).
Proof. intros H. pose proof (ginv_all ls s H) as I. split; apply I. Qed.

(* once stored, an entry of the root map never changes (no deletion in this model) *)
Lemma g_root_mono_step s l s' : ginv s -> gstep s l = Some s' ->
  forall hp q, g_root s hp = Some q -> g_root s' hp = Some q.
Proof.
  intros I H hp q R. destruct l as [t p|t]; cbn [gstep] in H.
  - destruct (g_entry p); [|discriminate]. destruct (g_thr s t); [discriminate|].
    destruct (_ =? 0); [discriminate|]. inversion H; subst. exact R.
  - destruct (g_thr s t) as [p|]; [|discriminate].
    destruct p as [h|h|h|h|lid h|lid h|lid h|lid h|lid h x|lid h]; cbn [g_step_thread] in H;
      try (destruct (g_lk s lid); [discriminate|]);
      try (destruct (g_root_insert s h) as [s1 x] eqn:E;
           destruct (g_root_insert_spec s h s1 x I E) as (_ & Hm & _));
      inversion H; subst s'; clear H;
      try (destruct (g_root s h)); try (destruct (list_find (g_lists s) lid h)); cbn; auto.
Qed.

Theorem goc_root_stable ls : forall s s', ginv s -> grun s ls = Some s' ->
  forall hp q, g_root s hp = Some q -> g_root s' hp = Some q.
Proof.
  induction ls as [|l r IH]; cbn [grun]; intros s s' I H hp q R.
  - inversion H; subst. exact R.
  - destruct (gstep s l) as [s1|] eqn:E; [|discriminate].
    eapply IH; [eapply ginv_step; eauto|exact H|]. eapply g_root_mono_step; eauto.
Qed.

(* ---- non-vacuity: three goroutines race a first-time Add of host:port 7 (channel list 0,
   isolated list 1, RootPeers().Add), all three miss under the read lock before any takes the
   write lock; the last one to take it wins nothing: all get object 1 ---- *)
Definition goc_ex_race : list glabel :=
  [GCall 1 (GLAdd1 0 7); GCall 2 (GLAdd1 1 7); GCall 3 (GRAdd1 7);
   GStep 1; GStep 1; GStep 1;      (* list 0: exists miss, lock + re-check miss, root lookup miss *)
   GStep 2; GStep 2; GStep 2;      (* list 1: the same *)
   GStep 3;                        (* root Add: lookup miss *)
   GStep 2;                        (* list 1's goroutine takes the root write lock first: creates object 1 *)
   GStep 3;                        (* re-check hits *)
   GStep 1;                        (* re-check hits *)
   GStep 1; GStep 2].              (* both lists count their reference and store the entry *)

Lemma goc_example_race :
  exists s, grun ginit goc_ex_race = Some s /\
    g_ret s = [(3, 7, 1, 1); (1, 7, 1, 1); (2, 7, 1, 1)] /\
    g_root s 7 = Some 1 /\ g_sc s 1 = 2 /\ g_next s = 2 /\
    g_lists s = [(1, 7, 1); (0, 7, 1)].
Proof. eexists. split; [vm_compute; reflexivity|]. vm_compute. repeat split. Qed.

(* ---- what the double check buys: the variant whose region 2 returns its own new object whether
   or not it stored it (insert-if-absent, return the fresh one) breaks the statement ---- *)
Definition g_root_insert_private (s : gst) (hp : Z) : gst * Z :=
  let q := g_next s in
  match g_root s hp with
  | Some _ => (mkG (g_root s) (g_lists s) (g_lk s) (g_sc s) (upd (g_hp s) q hp) (q + 1) (g_thr s) (g_ret s), q)
  | None => (mkG (gmap_set (g_root s) hp q) (g_lists s) (g_lk s) (g_sc s) (upd (g_hp s) q hp) (q + 1)
                 (g_thr s) (g_ret s), q)
  end.

Lemma goc_private_variant_refuted :
  exists s0 s1 s2 q1 q2,
    (* two RootPeerList.Add(7), both past the read-locked miss *)
    s0 = gset_thr (gset_thr ginit 1 (Some (GRAdd2 7))) 2 (Some (GRAdd2 7)) /\
    g_root_insert_private s0 7 = (s1, q1) /\ g_root_insert_private s1 7 = (s2, q2) /\
    q1 <> q2 /\ g_root s2 7 = Some q1 /\ g_root s2 (g_hp s2 q2) <> Some q2.
Proof.
  do 5 eexists. split; [reflexivity|]. split; [reflexivity|]. split; [reflexivity|].
  vm_compute. repeat split; congruence.
Qed.
