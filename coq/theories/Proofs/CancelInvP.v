(* Reachability invariants of Model/Cancel.v and the "every listed event ends the handler's
   context" direction of property C14, clause d. *)
From Coq Require Import ZArith List Bool Lia ZifyBool.
From Verif Require Import Base.Wrap Base.Wire Gen.GenConsts Gen.GenTTL Model.Cancel Proofs.CancelP.
Import ListNotations.
Local Open Scope Z_scope.

#[local] Hint Resolve all_on_intro direct_all_true : c14.

Ltac step_one s :=
  unfold step, caller_write, handler_write, caller_ctx_err, notify_cancel, travel_cancel,
         server_cancel, deliver_request, path_up, path_down;
  destruct s; step_cbn; repeat (break_if; step_cbn).

Definition reach_ok (s : st) : Prop :=
  (cancel_notified s = true -> cres s <> None) /\
  (hstarted s = true -> begun s = true /\ 0 < req_sent s) /\
  (hstarted s = true -> hctx s = 0 -> cres s = None -> relay_alive s = true) /\
  (relay_alive s = false -> hstarted s = false -> cctx s <> 0) /\
  (hstarted s = false -> hctx s = 0 /\ mex_reg s = false /\ resp_done s = false /\ resp_failed s = false) /\
  (hstarted s = true -> hctx s = 0 -> mex_reg s = true /\ resp_done s = false /\ resp_failed s = false) /\
  0 <= req_sent s.

Lemma reach_init : reach_ok init.
Proof. unfold reach_ok, init; cbn. repeat split; intros; try discriminate; try lia. Qed.

Lemma reach_step c s l : reach_ok s -> reach_ok (step c s l).
Proof.
  unfold reach_ok. intros [P1 [P2 [P3 [P4 [P5 [P6 P7]]]]]].
  step_cases s l; bool_norm; bool_split; bool_norm;
    (repeat split; intros;
     try solve [ assumption | discriminate
               | intuition (try discriminate; try zlia; try congruence)]).
Qed.

Lemma reach_run c ls : reach_ok (run c ls).
Proof.
  induction ls as [|l ls IH] using rev_ind; [exact reach_init|].
  rewrite run_snoc. apply reach_step, IH.
Qed.

(* ---- every listed event ends a running handler's context ------------------------------ *)
Lemma handler_ctx_ends c s :
  reach_ok s -> hstarted s = true -> hctx s = 0 ->
  hctx (step c s LDeadline) = 1 /\ hctx (step c s LHBlackhole) = 2 /\
  hctx (step c s LHClose) = 2 /\ hctx (step c s LConnFail) = 2.
Proof.
  unfold reach_ok. intros [P1 [P2 [P3 [P4 [P5 [P6 P7]]]]]] A B.
  repeat split; step_one s; bool_norm; bool_split; bool_norm;
    try reflexivity; try discriminate; try solve [intuition (try discriminate; try zlia; try congruence)].
Qed.

(* a caller operation that has to wait: writing a further request fragment, or reading the
   next response fragment once the request is complete *)
Definition caller_waits (s : st) (l : label) : Prop :=
  begun s = true /\ cres s = None /\
  (((l = LWFrag \/ l = LWClose) /\ req_closed s = false) \/ (l = LRead /\ req_closed s = true)).

(* caller cancellation with propagation enabled on every hop reaches the running handler *)
Lemma cancel_reaches_handler c s l :
  reach_ok s -> all_on c = true ->
  hstarted s = true -> hctx s = 0 -> cctx s = 2 -> conn_failed s = false -> caller_waits s l ->
  hctx (step c s l) = 2 /\ cres (step c s l) = Some c_ErrCodeCancelled.
Proof.
  unfold reach_ok, caller_waits. intros [P1 [P2 [P3 [P4 [P5 [P6 P7]]]]]] A.
  apply all_on_elim in A as [A1 [A2 A3]].
  intros B C D E [F1 [F2 F3]].
  destruct F3 as [[[->| ->] F3]|[-> F3]]; step_one s; bool_norm; bool_split; bool_norm; subst;
    try (split; reflexivity); try discriminate; try congruence;
    try solve [exfalso; intuition (try discriminate; try zlia; try congruence)].
Qed.

(* the error the caller's wait ends with *)
Lemma caller_error c s l :
  caller_waits s l ->
  (cctx s = 1 -> cres (step c s l) = Some c_ErrCodeTimeout) /\
  (cctx s = 2 -> cres (step c s l) = Some c_ErrCodeCancelled).
Proof.
  unfold caller_waits.
  intros [F1 [F2 [[[->| ->] F3]|[-> F3]]]]; split; intros G;
    step_one s; bool_norm; bool_split; bool_norm; subst;
    try reflexivity; try discriminate; try congruence; try zlia.
Qed.

(* BeginCall: the remaining-time test comes first (timeout once the deadline has passed, even
   for a cancelled context), then the context's own error *)
Lemma begin_error c s :
  begun s = false -> cres s = None ->
  (dl_passed s = true -> cres (step c s LBegin) = Some c_ErrCodeTimeout) /\
  (dl_passed s = false -> cctx s = 2 -> cres (step c s LBegin) = Some c_ErrCodeCancelled) /\
  (dl_passed s = false -> cctx s = 0 -> begun (step c s LBegin) = true /\ cres (step c s LBegin) = None).
Proof.
  intros F1 F2; repeat split; intros;
    step_one s; bool_norm; bool_split; bool_norm; subst;
    try reflexivity; try discriminate; try congruence; try zlia.
Qed.

(* a handler's context changes only through the listed events *)
Lemma handler_ctx_changes_only_by c s l :
  hctx (step c s l) <> hctx s ->
  l = LDeadline \/ l = LHClose \/ l = LHBlackhole \/ l = LConnFail \/
  (all_on c = true /\ cctx s = 2 /\ (l = LWFrag \/ l = LWClose \/ l = LRead)).
Proof.
  intros Hneq. destruct l; auto 6;
    try (exfalso; apply Hneq; step_one s; reflexivity);
    right; right; right; right;
    revert Hneq; step_one s; bool_norm; intros Hneq; try (exfalso; apply Hneq; reflexivity);
    (split; [auto with c14|split; [assumption|auto]]).
Qed.

(* cancel messages: at most one per call, honoured only with PropagateCancel *)
Definition count_ok (c : cfg) (s : st) : Prop :=
  (cancel_notified s = false -> cancels_sent s = 0) /\ 0 <= cancels_sent s <= 1 /\
  0 <= requested s <= cancels_sent s /\
  honored s = (if srv_prop c then requested s else 0) /\
  (0 < cancels_sent s -> send_cancel c = true /\ cctx s = 2).

Lemma count_step c s l : count_ok c s -> count_ok c (step c s l).
Proof.
  unfold count_ok. intros [P1 [P2 [P3 [P4 P5]]]].
  step_cases s l; bool_norm;
    (repeat split; intros; try solve [assumption | discriminate];
     try (destruct (srv_prop c); try discriminate);
     try solve [intuition (try discriminate; try zlia; try congruence)]).
Qed.

Lemma count_run c ls : count_ok c (run c ls).
Proof.
  induction ls as [|l ls IH] using rev_ind.
  - unfold count_ok, init; cbn. destruct (srv_prop c); repeat split; intros; try reflexivity; lia.
  - rewrite run_snoc. apply count_step, IH.
Qed.

Lemma causes_run c ls : causes_ok c ls (run c ls).
Proof.
  induction ls as [|l ls IH] using rev_ind.
  - unfold causes_ok, init; cbn. repeat split; intros; try discriminate; auto; lia.
  - rewrite run_snoc. apply causes_step, IH.
Qed.

(* ---- statements over whole runs ------------------------------------------------------------ *)
Lemma complete_run c ls :
  let s := run c ls in
  hstarted s = true -> hctx s = 0 ->
  hctx (run c (ls ++ [LDeadline])) = 1 /\ hctx (run c (ls ++ [LHBlackhole])) = 2 /\
  hctx (run c (ls ++ [LHClose])) = 2 /\ hctx (run c (ls ++ [LConnFail])) = 2.
Proof. cbv zeta. intros A B. rewrite !run_snoc. apply handler_ctx_ends; [apply reach_run|exact A|exact B]. Qed.

Lemma propagates_run c ls l :
  let s := run c ls in
  all_on c = true ->
  hstarted s = true -> hctx s = 0 -> cctx s = 2 -> conn_failed s = false -> caller_waits s l ->
  hctx (run c (ls ++ [l])) = 2 /\ cres (run c (ls ++ [l])) = Some c_ErrCodeCancelled.
Proof. cbv zeta. intros. rewrite run_snoc. apply cancel_reaches_handler; auto using reach_run. Qed.

Lemma no_propagation_run c ls :
  all_on c = false ->
  ~ In LDeadline ls -> ~ In LHClose ls -> ~ In LHBlackhole ls -> ~ In LConnFail ls ->
  hctx (run c ls) = 0.
Proof.
  intros A B1 B2 B3 B4. destruct (causes_run c ls) as [H1 [H2 [H3 _]]].
  destruct H1 as [H|[H|H]]; [exact H| |].
  - exfalso. apply B1, H2, H.
  - exfalso. destruct (H3 H) as [K|[K|[K|[_ K]]]]; [apply B2, K|apply B3, K|apply B4, K|congruence].
Qed.

Lemma sticky_run c ls ls' :
  (hctx (run c ls) <> 0 -> hctx (run c (ls ++ ls')) = hctx (run c ls)) /\
  (cctx (run c ls) <> 0 -> cctx (run c (ls ++ ls')) = cctx (run c ls)).
Proof.
  induction ls' as [|l ls' IH] using rev_ind.
  - rewrite app_nil_r. split; reflexivity.
  - rewrite app_assoc, run_snoc. destruct IH as [I1 I2].
    destruct (ctx_sticky c (run c (ls ++ ls')) l) as [S1 S2]. split; intros H.
    + rewrite S1; [apply I1, H|rewrite I1; exact H].
    + rewrite S2; [apply I2, H|rewrite I2; exact H].
Qed.

Lemma messages_run c ls :
  let s := run c ls in
  0 <= requested s <= cancels_sent s /\ cancels_sent s <= 1 /\
  honored s = (if srv_prop c then requested s else 0) /\
  (0 < cancels_sent s -> send_cancel c = true /\ In LCancel ls).
Proof.
  cbv zeta. destruct (count_run c ls) as [_ [P2 [P3 [P4 P5]]]].
  destruct (causes_run c ls) as [_ [_ [_ [_ [_ [Q _]]]]]].
  split; [exact P3|]. split; [lia|]. split; [exact P4|].
  intros H. destruct (P5 H) as [A B]. split; [exact A|apply Q, B].
Qed.

Lemma caller_error_run c ls l :
  let s := run c ls in
  caller_waits s l ->
  (cctx s = 1 -> cres (run c (ls ++ [l])) = Some c_ErrCodeTimeout) /\
  (cctx s = 2 -> cres (run c (ls ++ [l])) = Some c_ErrCodeCancelled).
Proof. cbv zeta. intros H. rewrite run_snoc. apply caller_error, H. Qed.

Lemma begin_error_run c ls :
  let s := run c ls in
  begun s = false -> cres s = None ->
  (dl_passed s = true -> cres (run c (ls ++ [LBegin])) = Some c_ErrCodeTimeout) /\
  (dl_passed s = false -> cctx s = 2 -> cres (run c (ls ++ [LBegin])) = Some c_ErrCodeCancelled) /\
  (dl_passed s = false -> cctx s = 0 ->
     begun (run c (ls ++ [LBegin])) = true /\ cres (run c (ls ++ [LBegin])) = None).
Proof. cbv zeta. intros A B. rewrite run_snoc. apply begin_error; assumption. Qed.
