(* Invariants of the relay's id tables (Model/RelayFwd.v): ids handed out by NextMessageID are
   fresh, the two tables of a relayed call point at each other, no two relayed calls share a
   remapped id on the same destination connection. *)
From Coq Require Import ZArith List Bool Lia ZifyBool.
From Verif Require Import Base.Wrap Base.Bytes Gen.GenConsts Gen.GenFrame Model.TypedBuf Model.Messages Model.Crc
  Model.RelayLazy Model.RelayAppend Model.RelayFwd.
Import ListNotations.
Local Open Scope Z_scope.

Definition bounded (st : rstate) : Prop := forall c, st_count st c < 2 ^ 32.

Record Inv (st : rstate) : Prop := {
  inv_cnt : forall c, 0 <= st_count st c;
  inv_in_fresh : forall d k it, st_in st d k = Some it -> 0 < k <= st_count st d;
  inv_out_fresh : forall c id it, st_out st c id = Some it -> 0 < it_remap it <= st_count st (it_dest it);
  inv_own_fresh : forall d k, st_own st d k = true -> 0 < k <= st_count st d;
  inv_own_disj : forall d k, st_own st d k = true -> st_in st d k = None;
  (* two items on source connections that point to the same destination connection never carry the same remapped id *)
  inv_inj : forall c1 id1 it1 c2 id2 it2, st_out st c1 id1 = Some it1 -> st_out st c2 id2 = Some it2 ->
     it_dest it1 = it_dest it2 -> it_remap it1 = it_remap it2 -> c1 = c2 /\ id1 = id2;
  (* the item a source-side item points to is absent or points back *)
  inv_fwd : forall c id it, st_out st c id = Some it ->
     match st_in st (it_dest it) (it_remap it) with None => True | Some it' => it_remap it' = id /\ it_dest it' = c end;
  inv_roles_out : forall c id it, st_out st c id = Some it -> it_orig it = true;
  inv_roles_in : forall d k it, st_in st d k = Some it -> it_orig it = false /\ it_mut it = None
}.

(* ---------------- lookups in updated tables ---------------- *)
Lemma key_eqb_false (c' c : nat) (i' i : Z) : Nat.eqb c' c && (i' =? i) = false <-> (c' <> c \/ i' <> i).
Proof. rewrite andb_false_iff, Nat.eqb_neq, Z.eqb_neq. tauto. Qed.

Lemma im_set_eq m c id v : im_set m c id v c id = v.
Proof. unfold im_set. rewrite Nat.eqb_refl, Z.eqb_refl. reflexivity. Qed.

Lemma im_set_neq m c id v c' id' : (c' <> c \/ id' <> id) -> im_set m c id v c' id' = m c' id'.
Proof. intros H. unfold im_set. apply key_eqb_false in H. rewrite H. reflexivity. Qed.

Lemma im_set_cases m c id v c' id' :
  (c' = c /\ id' = id /\ im_set m c id v c' id' = v) \/
  ((c' <> c \/ id' <> id) /\ im_set m c id v c' id' = m c' id').
Proof.
  destruct (Nat.eqb c' c && (id' =? id)) eqn:E.
  - apply andb_true_iff in E as [E1 E2]. apply Nat.eqb_eq in E1. apply Z.eqb_eq in E2. subst.
    left. repeat split. apply im_set_eq.
  - apply key_eqb_false in E. right. split; [exact E|]. apply im_set_neq, E.
Qed.

(* case split on one lookup [im_set m c id v c' id'] occurring in the goal or a hypothesis *)
Ltac ims_at m c id v c' id' :=
  let E := fresh "E" in let N := fresh "N" in let E1 := fresh "Ec" in let E2 := fresh "Ei" in
  destruct (im_set_cases m c id v c' id') as [(E1 & E2 & E)|(N & E)]; rewrite E in *; clear E;
  [try subst c'; try subst id'|].
Ltac ims :=
  match goal with
  | H : context[im_set ?m ?c ?id ?v ?c' ?id'] |- _ => ims_at m c id v c' id'
  | |- context[im_set ?m ?c ?id ?v ?c' ?id'] => ims_at m c id v c' id'
  end.

(* ---------------- st' is st with items deleted / tombed / (source side) re-checksummed ---------------- *)
Record shrinks (st st' : rstate) : Prop := {
  sh_cnt : forall c, st_count st' c = st_count st c;
  sh_own : forall c k, st_own st' c k = st_own st c k;
  sh_out : forall c id it', st_out st' c id = Some it' ->
     exists it, st_out st c id = Some it /\ it_remap it = it_remap it' /\ it_dest it = it_dest it' /\
                it_orig it = it_orig it';
  sh_in : forall d k it', st_in st' d k = Some it' ->
     exists it, st_in st d k = Some it /\ it_remap it = it_remap it' /\ it_dest it = it_dest it' /\
                it_orig it = it_orig it' /\ it_mut it = it_mut it'
}.

Lemma shrinks_refl st : shrinks st st.
Proof. constructor; intros; try reflexivity; eexists; repeat split; eassumption. Qed.

Lemma shrinks_trans a b c : shrinks a b -> shrinks b c -> shrinks a c.
Proof.
  intros [C1 O1 Out1 In1] [C2 O2 Out2 In2]. constructor.
  - intros x. rewrite C2. apply C1.
  - intros x k. rewrite O2. apply O1.
  - intros x id it' H. destruct (Out2 _ _ _ H) as (y & Hy & Y1 & Y2 & Y3).
    destruct (Out1 _ _ _ Hy) as (z & Hz & Z1 & Z2 & Z3). exists z. repeat split; congruence.
  - intros x id it' H. destruct (In2 _ _ _ H) as (y & Hy & Y1 & Y2 & Y3 & Y4).
    destruct (In1 _ _ _ Hy) as (z & Hz & Z1 & Z2 & Z3 & Z4). exists z. repeat split; congruence.
Qed.

Lemma shrinks_del st outb c id : shrinks st (set_item st outb c id None).
Proof.
  destruct outb; constructor; cbn [set_item st_count st_out st_in st_own]; intros; try reflexivity;
    try (eexists; repeat split; eassumption); ims; try discriminate; eexists; repeat split; eassumption.
Qed.

Lemma shrinks_upd_out st c id it it' : st_out st c id = Some it ->
  it_remap it' = it_remap it -> it_dest it' = it_dest it -> it_orig it' = it_orig it ->
  shrinks st (set_item st true c id (Some it')).
Proof.
  intros H R D O. constructor; cbn [set_item st_count st_out st_in st_own]; intros; try reflexivity;
    try (eexists; repeat split; eassumption).
  ims.
  - match goal with H : Some _ = Some _ |- _ => injection H as <- end. exists it. repeat split; congruence.
  - eexists; repeat split; eassumption.
Qed.

Lemma shrinks_tomb st outb c id it : get_items st outb c id = Some it ->
  shrinks st (set_item st outb c id (Some (tombed it))).
Proof.
  intros H. destruct outb; cbn [get_items] in H; constructor; cbn [set_item st_count st_out st_in st_own];
    intros; try reflexivity; try (eexists; repeat split; eassumption); (ims;
    [ match goal with H : Some _ = Some _ |- _ => injection H as <- end; exists it; repeat split; assumption
    | eexists; repeat split; eassumption ]).
Qed.

Lemma Inv_shrinks st st' : Inv st -> shrinks st st' -> Inv st'.
Proof.
  intros I [Sc So Sout Sin]. constructor.
  - intros c. rewrite Sc. apply (inv_cnt _ I).
  - intros d k it H. rewrite Sc. destruct (Sin _ _ _ H) as (a & Ha & _). eapply (inv_in_fresh _ I); eassumption.
  - intros c id it H. destruct (Sout _ _ _ H) as (a & Ha & A1 & A2 & _). rewrite Sc, <- A1, <- A2.
    eapply (inv_out_fresh _ I); eassumption.
  - intros d k H. rewrite So in H. rewrite Sc. apply (inv_own_fresh _ I), H.
  - intros d k H. rewrite So in H. pose proof (inv_own_disj _ I _ _ H) as Hn.
    destruct (st_in st' d k) eqn:E; [|reflexivity]. destruct (Sin _ _ _ E) as (a & Ha & _). congruence.
  - intros c1 id1 it1 c2 id2 it2 H1 H2 Ed Er.
    destruct (Sout _ _ _ H1) as (a & Ha & A1 & A2 & _). destruct (Sout _ _ _ H2) as (b & Hb & B1 & B2 & _).
    eapply (inv_inj _ I); [exact Ha|exact Hb|congruence|congruence].
  - intros c id it H. destruct (Sout _ _ _ H) as (a & Ha & A1 & A2 & _).
    destruct (st_in st' (it_dest it) (it_remap it)) as [x|] eqn:E; [|exact Logic.I].
    destruct (Sin _ _ _ E) as (b & Hb & B1 & B2 & _).
    pose proof (inv_fwd _ I _ _ _ Ha) as F. rewrite A1, A2, Hb in F. rewrite <- B1, <- B2. exact F.
  - intros c id it H. destruct (Sout _ _ _ H) as (a & Ha & _ & _ & A3). rewrite <- A3.
    eapply (inv_roles_out _ I); eassumption.
  - intros d k it H. destruct (Sin _ _ _ H) as (a & Ha & _ & _ & A3 & A4). rewrite <- A3, <- A4.
    eapply (inv_roles_in _ I); eassumption.
Qed.

(* ---------------- the helpers only shrink ---------------- *)
Lemma receive_shrinks st d h p ft s o st' : receive st d h p ft = (s, o, st') -> shrinks st st'.
Proof.
  unfold receive. destruct (get_items st _ d (fh_id h)) as [it|]; [destruct (it_tomb it); [|destruct (finishesCall _ _)]|];
    intros H; inversion H; subst; try apply shrinks_refl. apply shrinks_del.
Qed.

Lemma fail_item_shrinks st c outb id r o st' : fail_item st c outb id r = (o, st') -> shrinks st st'.
Proof.
  unfold fail_item. destruct (get_items st outb c id) as [it|] eqn:E; [destruct (it_tomb it)|];
    intros H; inversion H; subst; try apply shrinks_refl. apply shrinks_tomb, E.
Qed.

Lemma expire_shrinks st c outb id o st' : expire st c outb id = (o, st') -> shrinks st st'.
Proof.
  unfold expire. destruct (get_items st outb c id) as [it|] eqn:E; [destruct (it_tomb it)|];
    intros H; inversion H; subst; try apply shrinks_refl. apply shrinks_tomb, E.
Qed.

(* ---------------- frame types ---------------- *)
Lemma ft_cases t ft : frameTypeFor t = Some ft ->
  ft = c_requestFrame \/ (ft = c_responseFrame /\ (t =? c_messageTypeCallReqContinue) = false).
Proof.
  unfold frameTypeFor. destruct (t =? c_messageTypeCallReqContinue) eqn:E.
  - apply Z.eqb_eq in E. subst t. cbn. intros H; inversion H. left; reflexivity.
  - destruct (_ || _).
    + intros H; inversion H. right. split; reflexivity.
    + destruct (_ || _); intros H; inversion H. left; reflexivity.
Qed.

Lemma fin_cont t f : (t =? c_messageTypeCallReqContinue) = true -> finishesCall t f = false.
Proof. intros E. apply Z.eqb_eq in E. subst t. reflexivity. Qed.

(* ---------------- inversion of receive / handle_other ---------------- *)
Lemma receive_inv st d h p ft s o st' : receive st d h p ft = (s, o, st') ->
  (get_items st (negb (ft =? c_requestFrame)) d (fh_id h) = None /\ s = false /\ st' = st) \/
  (exists it, get_items st (negb (ft =? c_requestFrame)) d (fh_id h) = Some it /\ s = true /\
     ((it_tomb it = true /\ st' = st) \/
      (it_tomb it = false /\
       st' = if finishesCall (fh_type h) (flags_of p) then set_item st (negb (ft =? c_requestFrame)) d (fh_id h) None else st))).
Proof.
  unfold receive. destruct (get_items st _ d (fh_id h)) as [it|]; intros H.
  - right. exists it. split; [reflexivity|]. destruct (it_tomb it).
    + inversion H; subst. split; [reflexivity|]. left. split; reflexivity.
    + inversion H; subst. split; [reflexivity|]. right. split; reflexivity.
  - inversion H; subst. left. repeat split.
Qed.

Lemma handle_other_inv st c h p o st' : handle_other st c h p = Some (o, st') ->
  st' = st \/
  exists ft it st1 p1 sent outs st2,
    frameTypeFor (fh_type h) = Some ft /\
    get_items st (ft =? c_requestFrame) c (fh_id h) = Some it /\ it_tomb it = false /\
    ((st1 = st /\ p1 = p) \/
     ((fh_type h =? c_messageTypeCallReqContinue) = true /\
      exists ck, st1 = set_item st (ft =? c_requestFrame) c (fh_id h) (Some (with_mut it ck)))) /\
    receive st1 (it_dest it) (set_id h (it_remap it)) p1 ft = (sent, outs, st2) /\
    ((sent = false /\ exists r, fail_item st2 c (ft =? c_requestFrame) (fh_id h) r = (o, st')) \/
     (sent = true /\
      st' = if finishesCall (fh_type h) (flags_of p) then set_item st2 (ft =? c_requestFrame) c (fh_id h) None else st2)).
Proof.
  unfold handle_other. destruct (frameTypeFor (fh_type h)) as [ft|] eqn:Eft; [|discriminate].
  destruct (get_items st (ft =? c_requestFrame) c (fh_id h)) as [it|] eqn:Eit;
    [|intros H; inversion H; left; reflexivity].
  destruct (it_tomb it) eqn:Et; [intros H; inversion H; left; reflexivity|].
  match goal with |- context[match ?X with pair _ _ => _ end] => destruct X as [p1 st1] eqn:E1 end.
  destruct (receive st1 (it_dest it) (set_id h (it_remap it)) p1 ft) as [[sent outs] st2] eqn:Er.
  intros H. right. exists ft, it, st1, p1, sent, outs, st2.
  split; [reflexivity|]. split; [exact Eit|]. split; [exact Et|]. split.
  { destruct (fh_type h =? c_messageTypeCallReqContinue).
    - destruct (it_mut it) as [ck|].
      + destruct (update_cont_ck p ck) as [p' ck']. inversion E1; subst. right. split; [reflexivity|].
        exists ck'. reflexivity.
      + inversion E1; subst. left. split; reflexivity.
    - inversion E1; subst. left. split; reflexivity. }
  split; [exact Er|]. destruct sent; cbn [negb] in H; inversion H; subst.
  - right. split; reflexivity.
  - left. split; [reflexivity|]. eexists. reflexivity.
Qed.

Lemma handle_other_shrinks st c h p o st' : handle_other st c h p = Some (o, st') -> shrinks st st'.
Proof.
  intros H. destruct (handle_other_inv _ _ _ _ _ _ H) as [->|(ft & it & st1 & p1 & sent & outs & st2 & Eft & Eit & Et & H1 & Er & H3)];
    [apply shrinks_refl|].
  assert (S1 : shrinks st st1).
  { destruct H1 as [[-> _]|(E19 & ck & ->)]; [apply shrinks_refl|].
    destruct (ft_cases _ _ Eft) as [->|[_ E]]; [|congruence].
    change (c_requestFrame =? c_requestFrame) with true in *. cbn [get_items] in Eit.
    apply shrinks_upd_out with it; [exact Eit|reflexivity..]. }
  pose proof (receive_shrinks _ _ _ _ _ _ _ _ Er) as S2.
  apply (shrinks_trans _ _ _ S1). apply (shrinks_trans _ _ _ S2).
  destruct H3 as [(_ & r & Hf)|(_ & ->)].
  - eapply fail_item_shrinks, Hf.
  - destruct (finishesCall _ _); [apply shrinks_del|apply shrinks_refl].
Qed.

(* ---------------- adding the two items of a relayed call; taking an id for own use ---------------- *)
Definition add_pair (st : rstate) (d c : nat) (id : Z) (sp : span) (m : option ckst) : rstate :=
  mkSt (fun c' => if Nat.eqb c' d then st_count st d + 1 else st_count st c')
       (im_set (st_out st) c id (Some (mkItem (wrapU 32 (st_count st d + 1)) d false true sp m)))
       (im_set (st_in st) d (wrapU 32 (st_count st d + 1)) (Some (mkItem id c false false sp None)))
       (st_own st).

Definition own_step (st : rstate) (c : nat) : rstate :=
  mkSt (fun c' => if Nat.eqb c' c then st_count st c + 1 else st_count st c') (st_out st) (st_in st)
       (fun c' id' => if Nat.eqb c' c && (id' =? wrapU 32 (st_count st c + 1)) then true else st_own st c' id').

(* closure of a relation under what the call req path does after the two items are in *)
Section Closed.
  Variable R : rstate -> rstate -> Prop.
  Hypothesis R_refl : forall st, R st st.
  Hypothesis R_trans : forall a b c, R a b -> R b c -> R a c.
  Hypothesis R_del_in : forall st d k, R st (set_item st false d k None).
  Hypothesis R_upd_out : forall st c id it it', st_out st c id = Some it ->
    it_remap it' = it_remap it -> it_dest it' = it_dest it -> it_orig it' = it_orig it ->
    R st (set_item st true c id (Some it')).

  Lemma receive_req_R st d h p s o st' : receive st d h p c_requestFrame = (s, o, st') -> R st st'.
  Proof.
    unfold receive. change (negb (c_requestFrame =? c_requestFrame)) with false. cbn [get_items].
    destruct (st_in st d (fh_id h)) as [it|]; [destruct (it_tomb it); [|destruct (finishesCall _ _)]|];
      intros H; inversion H; subst; try apply R_refl. apply R_del_in.
  Qed.

  Lemma fail_item_out_R st c id r o st' : fail_item st c true id r = (o, st') -> R st st'.
  Proof.
    unfold fail_item. cbn [get_items]. destruct (st_out st c id) as [it|] eqn:E; [destruct (it_tomb it)|];
      intros H; inversion H; subst; try apply R_refl.
    apply R_upd_out with it; [exact E|reflexivity..].
  Qed.

  Lemma send_frags_R d id fs : forall st o st', send_frags st d id fs = (o, st') -> R st st'.
  Proof.
    induction fs as [|[initial pl] r IH]; intros st o st'; cbn [send_frags].
    - intros H; inversion H; subst. apply R_refl.
    - destruct (receive st d _ pl c_requestFrame) as [[s o1] st1] eqn:E1.
      destruct (send_frags st1 d id r) as [o2 st2] eqn:E2. intros H; inversion H; subst.
      eapply R_trans; [eapply receive_req_R, E1|eapply IH, E2].
  Qed.

  Lemma handle_callreq_R maxT st c h p hd o st' : handle_callreq maxT st c h p hd = Some (o, st') ->
    R st st' \/ exists d sp m, st_out st c (fh_id h) = None /\ R (add_pair st d c (fh_id h) sp m) st'.
  Proof.
    unfold handle_callreq. destruct (lazy_callreq p) as [code lz].
    destruct (negb (code =? 0)); [intros H; inversion H; subst; left; apply R_refl|].
    destruct hd as [d appends|sys ecode msg| |].
    - destruct (st_out st c (fh_id h)) eqn:Eo; [intros H; inversion H; subst; left; apply R_refl|].
      destruct (alloc_id st d) as [k st1] eqn:Ea. unfold alloc_id in Ea. injection Ea as Ek Est. subst k st1.
      destruct appends as [|a appends].
      + match goal with |- context[receive ?s ?d ?h ?p ?f] => destruct (receive s d h p f) as [[sent outs] st4] eqn:Er end.
        intros H. right. exists d, (span_of p), None. split; [reflexivity|].
        change (add_pair st d c (fh_id h) (span_of p) None) with
          (set_item (set_item (mkSt (fun c' => if Nat.eqb c' d then st_count st d + 1 else st_count st c')
             (st_out st) (st_in st) (st_own st)) false d (wrapU 32 (st_count st d + 1))
             (Some (mkItem (fh_id h) c false false (span_of p) None))) true c (fh_id h)
             (Some (mkItem (wrapU 32 (st_count st d + 1)) d false true (span_of p) None))).
        pose proof (receive_req_R _ _ _ _ _ _ _ Er) as R1.
        destruct sent; inversion H; subst; [exact R1|].
        eapply R_trans; [exact R1|]. eapply fail_item_out_R. eassumption.
      + destruct (ck_new (lz_ctype lz)) as [ck|]; [|discriminate].
        destruct (append_send _ lz (a :: appends) ck) as [[acode frames] ck'].
        destruct (acode =? 5); [discriminate|].
        intros H. right. exists d, (span_of p), (Some ck). split; [reflexivity|].
        change (add_pair st d c (fh_id h) (span_of p) (Some ck)) with
          (set_item (set_item (mkSt (fun c' => if Nat.eqb c' d then st_count st d + 1 else st_count st c')
             (st_out st) (st_in st) (st_own st)) false d (wrapU 32 (st_count st d + 1))
             (Some (mkItem (fh_id h) c false false (span_of p) None))) true c (fh_id h)
             (Some (mkItem (wrapU 32 (st_count st d + 1)) d false true (span_of p) (Some ck)))).
        destruct (acode =? 0); inversion H; subst.
        * eapply R_trans; [|eapply send_frags_R; eassumption].
          match goal with |- R ?a _ =>
            apply (R_upd_out a c (fh_id h) (mkItem (wrapU 32 (st_count st d + 1)) d false true (span_of p) (Some ck)))
          end; [cbn [set_item st_out]; apply im_set_eq|reflexivity..].
        * eapply fail_item_out_R. eassumption.
    - destruct (_ =? c_ErrCodeProtocol); [discriminate|]. intros H; inversion H; subst; left; apply R_refl.
    - intros H; inversion H; subst; left; apply R_refl.
    - destruct (st_out st c (fh_id h)); intros H; inversion H; subst; left; apply R_refl.
  Qed.
End Closed.

Lemma handle_callreq_shrinks maxT st c h p hd o st' : handle_callreq maxT st c h p hd = Some (o, st') ->
  shrinks st st' \/ exists d sp m, st_out st c (fh_id h) = None /\ shrinks (add_pair st d c (fh_id h) sp m) st'.
Proof.
  apply (handle_callreq_R shrinks shrinks_refl shrinks_trans (fun st d k => shrinks_del st false d k) shrinks_upd_out).
Qed.

(* ---------------- what one step does to the tables ---------------- *)
Lemma step_cases maxT pc st l o st' : step maxT pc st l = Some (o, st') ->
  shrinks st st' \/
  (exists d c id sp m, st_out st c id = None /\ shrinks (add_pair st d c id sp m) st') \/
  (exists c, st' = own_step st c).
Proof.
  destruct l as [c h p hd|c|c outb id|c outb id]; cbn [step].
  - destruct (relayRoute (fh_type h) pc =? 0); [intros H; inversion H; subst; left; apply shrinks_refl|].
    destruct (_ && (zlen p =? 0)); [discriminate|].
    destruct (relayRoute (fh_type h) pc =? 1); [|discriminate].
    destruct (fh_type h =? c_messageTypeCallReq); intros H.
    + destruct (handle_callreq_shrinks _ _ _ _ _ _ _ _ H) as [S|(d & sp & m & Hn & S)]; [left; exact S|].
      right; left. exists d, c, (fh_id h), sp, m. split; assumption.
    + left. eapply handle_other_shrinks, H.
  - intros H; inversion H; subst. right; right. exists c. reflexivity.
  - intros H; inversion H. left. eapply expire_shrinks. eassumption.
  - destruct (get_items st outb c id) as [it|]; [destruct (it_tomb it)|]; intros H; inversion H; subst; left;
      try apply shrinks_refl. apply shrinks_del.
Qed.

Lemma add_pair_count st d c id sp m c' :
  st_count (add_pair st d c id sp m) c' = if Nat.eqb c' d then st_count st d + 1 else st_count st c'.
Proof. reflexivity. Qed.

Lemma own_step_count st c c' :
  st_count (own_step st c) c' = if Nat.eqb c' c then st_count st c + 1 else st_count st c'.
Proof. reflexivity. Qed.

Lemma bump_le (cnt : nat -> Z) d c' : cnt c' <= (if Nat.eqb c' d then cnt d + 1 else cnt c').
Proof. destruct (Nat.eqb c' d) eqn:E; [apply Nat.eqb_eq in E; subst; lia|lia]. Qed.

Lemma step_count_mono maxT pc st l o st' : step maxT pc st l = Some (o, st') -> forall c, st_count st c <= st_count st' c.
Proof.
  intros H c'. destruct (step_cases _ _ _ _ _ _ H) as [S|[(d & c & id & sp & m & _ & S)|(c & ->)]].
  - rewrite (sh_cnt _ _ S). lia.
  - rewrite (sh_cnt _ _ S), add_pair_count. apply bump_le.
  - rewrite own_step_count. apply bump_le.
Qed.

(* counters only grow *)
Theorem run_count_mono : forall maxT pc ls st outs st', run maxT pc ls st = Some (outs, st') -> forall c, st_count st c <= st_count st' c.
Proof.
  intros maxT pc ls. induction ls as [|l r IH]; intros st outs st'; cbn [run].
  - intros H c; inversion H; subst. lia.
  - destruct (step maxT pc st l) as [[o st1]|] eqn:Es; [|discriminate].
    destruct (run maxT pc r st1) as [[os st2]|] eqn:Er; [|discriminate].
    intros H c; inversion H; subst. pose proof (step_count_mono _ _ _ _ _ _ Es c). pose proof (IH _ _ _ Er c). lia.
Qed.

(* ---------------- the invariant is kept ---------------- *)
Lemma Inv_init cnt0 : (forall c, 0 <= cnt0 c) -> Inv (init_state cnt0).
Proof. intros H. constructor; cbn; intros; try discriminate; auto. Qed.

Lemma Inv_add_pair st d c id sp m : Inv st -> st_out st c id = None -> st_count st d + 1 < 2 ^ 32 ->
  Inv (add_pair st d c id sp m).
Proof.
  intros I Hn B. pose proof (inv_cnt _ I d) as C0.
  unfold add_pair. rewrite (wrapU_id 32 (st_count st d + 1)) by lia.
  constructor; cbn [st_count st_out st_in st_own].
  - intros c'. pose proof (inv_cnt _ I c'). pose proof (bump_le (st_count st) d c'). lia.
  - intros d' k' x H. ims.
    + rewrite Nat.eqb_refl. lia.
    + pose proof (inv_in_fresh _ I _ _ _ H). pose proof (bump_le (st_count st) d d'). lia.
  - intros c' id' x H. ims.
    + injection H as <-. cbn [it_remap it_dest]. rewrite Nat.eqb_refl. lia.
    + pose proof (inv_out_fresh _ I _ _ _ H). pose proof (bump_le (st_count st) d (it_dest x)). lia.
  - intros d' k' H. pose proof (inv_own_fresh _ I _ _ H). pose proof (bump_le (st_count st) d d'). lia.
  - intros d' k' H. ims.
    + pose proof (inv_own_fresh _ I _ _ H). lia.
    + apply (inv_own_disj _ I), H.
  - intros c1 id1 it1 c2 id2 it2 H1 H2 Ed Er. ims; ims.
    + split; reflexivity.
    + injection H2 as <-. cbn [it_remap it_dest] in *. pose proof (inv_out_fresh _ I _ _ _ H1) as F.
      rewrite Ed, Er in F. lia.
    + injection H1 as <-. cbn [it_remap it_dest] in *. pose proof (inv_out_fresh _ I _ _ _ H2) as F.
      rewrite <- Ed, <- Er in F. lia.
    + eapply (inv_inj _ I); eassumption.
  - intros c' id' x H. ims.
    + injection H as <-. cbn [it_remap it_dest]. rewrite im_set_eq. cbn [it_remap it_dest]. split; reflexivity.
    + pose proof (inv_out_fresh _ I _ _ _ H) as F. pose proof (inv_fwd _ I _ _ _ H) as G.
      rewrite im_set_neq; [exact G|]. destruct (Nat.eq_dec (it_dest x) d) as [E|E]; [right; rewrite E in F; lia|left; exact E].
  - intros c' id' x H. ims.
    + injection H as <-. reflexivity.
    + eapply (inv_roles_out _ I), H.
  - intros d' k' x H. ims.
    + injection H as <-. split; reflexivity.
    + eapply (inv_roles_in _ I), H.
Qed.

Lemma Inv_own_step st c : Inv st -> st_count st c + 1 < 2 ^ 32 -> Inv (own_step st c).
Proof.
  intros I B. pose proof (inv_cnt _ I c) as C0.
  unfold own_step. rewrite (wrapU_id 32 (st_count st c + 1)) by lia.
  constructor; cbn [st_count st_out st_in st_own].
  - intros c'. pose proof (inv_cnt _ I c'). pose proof (bump_le (st_count st) c c'). lia.
  - intros d' k' x H. pose proof (inv_in_fresh _ I _ _ _ H). pose proof (bump_le (st_count st) c d'). lia.
  - intros c' id' x H. pose proof (inv_out_fresh _ I _ _ _ H). pose proof (bump_le (st_count st) c (it_dest x)). lia.
  - intros d' k'. destruct (Nat.eqb d' c && (k' =? st_count st c + 1)) eqn:E; intros H.
    + apply andb_true_iff in E as [E1 E2]. rewrite E1. lia.
    + pose proof (inv_own_fresh _ I _ _ H). pose proof (bump_le (st_count st) c d'). lia.
  - intros d' k'. destruct (Nat.eqb d' c && (k' =? st_count st c + 1)) eqn:E; intros H.
    + apply andb_true_iff in E as [E1 E2]. apply Nat.eqb_eq in E1. apply Z.eqb_eq in E2. subst.
      destruct (st_in st c (st_count st c + 1)) eqn:E; [|reflexivity].
      pose proof (inv_in_fresh _ I _ _ _ E). lia.
    + apply (inv_own_disj _ I), H.
  - apply (inv_inj _ I).
  - apply (inv_fwd _ I).
  - apply (inv_roles_out _ I).
  - apply (inv_roles_in _ I).
Qed.

Lemma Inv_step maxT pc st l o st' : step maxT pc st l = Some (o, st') -> Inv st -> bounded st' -> Inv st'.
Proof.
  intros H I B. destruct (step_cases _ _ _ _ _ _ H) as [S|[(d & c & id & sp & m & Hn & S)|(c & ->)]].
  - eapply Inv_shrinks; eassumption.
  - eapply Inv_shrinks; [|exact S]. apply Inv_add_pair; [exact I|exact Hn|].
    specialize (B d). rewrite (sh_cnt _ _ S), add_pair_count, Nat.eqb_refl in B. exact B.
  - apply Inv_own_step; [exact I|]. specialize (B c). rewrite own_step_count, Nat.eqb_refl in B. exact B.
Qed.

Lemma run_Inv maxT pc ls : forall st outs st', Inv st -> run maxT pc ls st = Some (outs, st') -> bounded st' -> Inv st'.
Proof.
  induction ls as [|l r IH]; intros st outs st' I; cbn [run].
  - intros H _; inversion H; subst. exact I.
  - destruct (step maxT pc st l) as [[o st1]|] eqn:Es; [|discriminate].
    destruct (run maxT pc r st1) as [[os st2]|] eqn:Er; [|discriminate].
    intros H B; inversion H; subst. eapply IH; [|exact Er|exact B].
    eapply Inv_step; [exact Es|exact I|]. intros c. pose proof (run_count_mono _ _ _ _ _ _ Er c). specialize (B c). lia.
Qed.

(* MAIN: every state reachable by any history whose counters stayed below 2^32 satisfies Inv *)
Theorem run_inv : forall maxT pc cnt0 ls outs st, (forall c, 0 <= cnt0 c) ->
  run maxT pc ls (init_state cnt0) = Some (outs, st) -> bounded st -> Inv st.
Proof. intros maxT pc cnt0 ls outs st H0 Hr B. eapply run_Inv; [apply Inv_init, H0|exact Hr|exact B]. Qed.

(* the fresh id never overwrites anything *)
Theorem alloc_fresh : forall st d, Inv st -> st_count st d + 1 < 2 ^ 32 ->
  let k := fst (alloc_id st d) in
  k = st_count st d + 1 /\ st_in st d k = None /\ st_own st d k = false /\
  (forall c id it, st_out st c id = Some it -> it_dest it = d -> it_remap it <> k).
Proof.
  intros st d I B. pose proof (inv_cnt _ I d) as C0. unfold alloc_id. cbn [fst].
  rewrite (wrapU_id 32 (st_count st d + 1)) by lia. split; [reflexivity|]. split; [|split].
  - destruct (st_in st d (st_count st d + 1)) eqn:E; [|reflexivity]. pose proof (inv_in_fresh _ I _ _ _ E). lia.
  - destruct (st_own st d (st_count st d + 1)) eqn:E; [|reflexivity]. pose proof (inv_own_fresh _ I _ _ E). lia.
  - intros c id it H Ed. pose proof (inv_out_fresh _ I _ _ _ H) as F. rewrite Ed in F. lia.
Qed.

(* ---------------- the converse pointer, without timers ---------------- *)
Definition Jm (o i : imap) : Prop := forall d k it, i d k = Some it ->
  exists it', o (it_dest it) (it_remap it) = Some it' /\ it_remap it' = k /\ it_dest it' = d.
Definition Km (i : imap) : Prop := forall d k it, i d k = Some it -> it_tomb it = false.
Definition JK (st : rstate) : Prop := Jm (st_out st) (st_in st) /\ Km (st_in st).

Lemma Km_del i d k : Km i -> Km (im_set i d k None).
Proof. intros K d' k' x H. ims; [discriminate|]. eapply K, H. Qed.

Lemma Jm_del_in o i d k : Jm o i -> Jm o (im_set i d k None).
Proof. intros J d' k' x H. ims; [discriminate|]. eapply J, H. Qed.

Lemma Jm_del_pair o i d k it : Jm o i -> i d k = Some it ->
  Jm (im_set o (it_dest it) (it_remap it) None) (im_set i d k None).
Proof.
  intros J Hit d' k' x H. ims; [discriminate|].
  destruct (J _ _ _ H) as (y & Hy & Y1 & Y2). exists y. split; [|split; assumption].
  ims; [|exact Hy]. exfalso.
  destruct (J _ _ _ Hit) as (z & Hz & Z1 & Z2). rewrite Ec, Ei, Hz in Hy. injection Hy as ->.
  destruct N as [N|N]; apply N; congruence.
Qed.

Lemma JK_del_in st d k : JK st -> JK (set_item st false d k None).
Proof. intros [J K]. split; cbn [set_item st_out st_in]; [apply Jm_del_in, J|apply Km_del, K]. Qed.

Lemma JK_upd_out st c id it it' : st_out st c id = Some it ->
  it_remap it' = it_remap it -> it_dest it' = it_dest it -> it_orig it' = it_orig it ->
  JK st -> JK (set_item st true c id (Some it')).
Proof.
  intros Hit R D _ [J K]. split; cbn [set_item st_out st_in]; [|exact K].
  intros d k x H. destruct (J _ _ _ H) as (y & Hy & Y1 & Y2). ims.
  - exists it'. split; [reflexivity|]. rewrite Ec, Ei, Hit in Hy. injection Hy as <-. split; congruence.
  - exists y. repeat split; assumption.
Qed.

Lemma JK_add_pair st d c id sp m : JK st -> st_out st c id = None -> JK (add_pair st d c id sp m).
Proof.
  intros [J K] Hn. unfold add_pair. split; cbn [st_out st_in].
  - intros d' k' x H. ims.
    + injection H as <-. cbn [it_remap it_dest]. rewrite im_set_eq. eexists. split; [reflexivity|]. split; reflexivity.
    + destruct (J _ _ _ H) as (y & Hy & Y1 & Y2). exists y. split; [|split; assumption].
      ims; [|exact Hy]. rewrite Ec, Ei, Hn in Hy. discriminate.
  - intros d' k' x H. ims; [injection H as <-; reflexivity|]. eapply K, H.
Qed.

Definition RJ (st st' : rstate) : Prop := JK st -> JK st'.

Lemma handle_callreq_JK maxT st c h p hd o st' : handle_callreq maxT st c h p hd = Some (o, st') -> JK st -> JK st'.
Proof.
  intros H HJ.
  destruct (handle_callreq_R RJ (fun st x => x) (fun a b c f g x => g (f x)) (fun st d k => JK_del_in st d k) JK_upd_out
              _ _ _ _ _ _ _ _ H) as [S|(d & sp & m & Hn & S)].
  - apply S, HJ.
  - apply S, JK_add_pair; assumption.
Qed.

Lemma handle_other_JK st c h p o st' : handle_other st c h p = Some (o, st') -> Inv st -> JK st -> JK st'.
Proof.
  intros H I HJ.
  destruct (handle_other_inv _ _ _ _ _ _ H) as [->|(ft & it & st1 & p1 & sent & outs & st2 & Eft & Eit & Et & H1 & Er & H3)];
    [exact HJ|].
  destruct (ft_cases _ _ Eft) as [->|[-> E19]].
  - (* request frame: the item is on the source side *)
    change (c_requestFrame =? c_requestFrame) with true in *. cbn [get_items] in Eit.
    destruct (finishesCall (fh_type h) (flags_of p)) eqn:Efin.
    + (* finishing (cancel): not a continuation, so st1 = st *)
      destruct H1 as [[-> ->]|(E & _)]; [|rewrite (fin_cont _ _ E) in Efin; discriminate].
      destruct (receive_inv _ _ _ _ _ _ _ _ Er) as [(Hg & -> & ->)|(it2 & Hg & -> & Hc)].
      * destruct H3 as [(_ & r & Hf)|(F & _)]; [|discriminate].
        eapply (fail_item_out_R RJ (fun st x => x) JK_upd_out); eassumption.
      * destruct H3 as [(F & _)|(_ & ->)]; [discriminate|].
        change (negb (c_requestFrame =? c_requestFrame)) with false in *. cbn [get_items set_id fh_id fh_type] in *.
        destruct HJ as [J K].
        destruct Hc as [[T _]|[_ ->]]; [rewrite (K _ _ _ Hg) in T; discriminate|].
        rewrite Efin. pose proof (inv_fwd _ I _ _ _ Eit) as F. rewrite Hg in F. destruct F as [F1 F2].
        split; cbn [set_item st_out st_in]; [|apply Km_del, K].
        rewrite <- F1, <- F2. apply Jm_del_pair; assumption.
    + (* not finishing: only the checksum may change, then Receive on the destination side *)
      assert (J1 : JK st1).
      { destruct H1 as [[-> _]|(_ & ck & ->)]; [exact HJ|]. eapply JK_upd_out; [exact Eit|reflexivity..|exact HJ]. }
      pose proof (receive_req_R RJ (fun st x => x) (fun st d k => JK_del_in st d k) _ _ _ _ _ _ _ Er J1) as J2.
      destruct H3 as [(_ & r & Hf)|(_ & ->)]; [|exact J2].
      eapply (fail_item_out_R RJ (fun st x => x) JK_upd_out); eassumption.
  - (* response frame: the item is on the destination side *)
    change (c_responseFrame =? c_requestFrame) with false in *. cbn [get_items] in Eit.
    destruct H1 as [[-> ->]|(E & _)]; [|congruence].
    destruct HJ as [J K]. destruct (J _ _ _ Eit) as (y & Hy & Y1 & Y2).
    change (negb false) with true in *.
    destruct (receive_inv _ _ _ _ _ _ _ _ Er) as [(Hg & _)|(it2 & Hg & -> & Hc)];
      change (negb (c_responseFrame =? c_requestFrame)) with true in *; cbn [get_items set_id fh_id fh_type] in *;
      [congruence|].
    destruct H3 as [(F & _)|(_ & ->)]; [discriminate|].
    destruct (finishesCall (fh_type h) (flags_of p)).
    + destruct Hc as [[_ ->]|[_ ->]].
      * apply JK_del_in. split; assumption.
      * split; cbn [set_item st_out st_in]; [|apply Km_del, K]. apply Jm_del_pair; assumption.
    + destruct Hc as [[_ ->]|[_ ->]]; split; assumption.
Qed.

Definition notimer (l : label) : Prop := match l with LExpire _ _ _ | LGC _ _ _ => False | _ => True end.

Lemma JK_step maxT pc st l o st' : step maxT pc st l = Some (o, st') -> notimer l -> Inv st -> JK st -> JK st'.
Proof.
  destruct l as [c h p hd|c|c outb id|c outb id]; cbn [step notimer]; intros H T I HJ; try contradiction.
  - destruct (relayRoute (fh_type h) pc =? 0); [inversion H; subst; exact HJ|].
    destruct (_ && (zlen p =? 0)); [discriminate|].
    destruct (relayRoute (fh_type h) pc =? 1); [|discriminate].
    destruct (fh_type h =? c_messageTypeCallReq).
    + eapply handle_callreq_JK; eassumption.
    + eapply handle_other_JK; eassumption.
  - inversion H; subst. exact HJ.
Qed.

Lemma run_JK maxT pc ls : forall st outs st', Forall notimer ls -> Inv st -> JK st ->
  run maxT pc ls st = Some (outs, st') -> bounded st' -> JK st'.
Proof.
  induction ls as [|l r IH]; intros st outs st' T I HJ; cbn [run].
  - intros H _; inversion H; subst. exact HJ.
  - destruct (step maxT pc st l) as [[o st1]|] eqn:Es; [|discriminate].
    destruct (run maxT pc r st1) as [[os st2]|] eqn:Er; [|discriminate].
    intros H B; inversion H; subst. inversion T as [|? ? Tl Tr]; subst.
    eapply IH; [exact Tr| | |exact Er|exact B].
    + eapply Inv_step; [exact Es|exact I|]. intros c. pose proof (run_count_mono _ _ _ _ _ _ Er c). specialize (B c). lia.
    + eapply JK_step; eassumption.
Qed.

(* converse direction of inv_fwd, for histories without timer events *)
Theorem run_inverse : forall maxT pc cnt0 ls outs st, (forall c, 0 <= cnt0 c) -> Forall notimer ls ->
  run maxT pc ls (init_state cnt0) = Some (outs, st) -> bounded st ->
  forall d k it, st_in st d k = Some it ->
    exists it', st_out st (it_dest it) (it_remap it) = Some it' /\ it_remap it' = k /\ it_dest it' = d.
Proof.
  intros maxT pc cnt0 ls outs st H0 T Hr B.
  assert (HJ : JK (init_state cnt0)) by (split; intros d k it H; discriminate).
  destruct (run_JK _ _ _ _ _ _ T (Inv_init _ H0) HJ Hr B) as [J _]. exact J.
Qed.

Print Assumptions run_inv.
Print Assumptions alloc_fresh.
Print Assumptions run_inverse.
