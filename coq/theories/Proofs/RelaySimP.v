(* Refinement: on histories of relayed frames (no timers, no arg2 appends, no host errors) the relay model of
   Model/RelayFwd.v (two id tables per connection) emits exactly the outputs of the one-table specification relay
   of Spec/RelaySpec.v. *)
From Coq Require Import ZArith List Bool Lia ZifyBool.
From Verif Require Import Base.Wrap Base.Bytes Gen.GenConsts Gen.GenFrame Gen.GenRelayFwd Model.TypedBuf Model.Messages Model.Crc
  Model.RelayLazy Model.RelayAppend Model.RelayFwd Spec.Protocol Spec.RelaySpec Proofs.RelayFwdP.
From Verif Require Import Proofs.CodecP Proofs.RelayInvP.
Import ListNotations.
Local Open Scope Z_scope.

(* the histories covered: frames of the six relayed types with well-formed bytes; call req frames that the relay's
   lazy parser accepts and that the host routes to some connection without arg2 appends; own id allocations *)
Definition plain (l : label) : Prop :=
  match l with
  | LFrame c h p hd =>
      bytes_ok p = true /\
      In (fh_type h) [c_messageTypeCallReq; c_messageTypeCallReqContinue; c_messageTypeCallRes;
                      c_messageTypeCallResContinue; c_messageTypeError; c_messageTypeCancel] /\
      (fh_type h = c_messageTypeCallReq -> fst (lazy_callreq p) = 0 /\ exists d, hd = HDst d []) /\
      ((fh_type h = c_messageTypeCallRes \/ fh_type h = c_messageTypeCallResContinue) -> p <> [])
  | LOwn _ => True
  | _ => False
  end.

(* ---------------- the lazy parser accepts only payloads of at least 30 bytes ---------------- *)
Lemma lazy_hdrs_sticky n : forall a, rsticky (lazy_hdrs n a).
Proof.
  induction n as [|n IH]; intros a; cbn [lazy_hdrs]; [apply ret_sticky|].
  apply bind_sticky; [apply r_len8_sticky|intros k]. apply bind_sticky; [apply r_len8_sticky|intros v]. apply IH.
Qed.

Lemma stick {A} (rd : rbuf -> A * rbuf) r x r' : rsticky rd -> rerr r = true -> rd r = (x, r') -> rerr r' = true.
Proof. intros S H E. specialize (S r H). rewrite E in S. exact S. Qed.

Lemma lazy_callreq_len p : fst (lazy_callreq p) = 0 -> 30 <= zlen p.
Proof.
  intros H. destruct (Z_lt_le_dec (zlen p) 30) as [L|L]; [exfalso|exact L].
  revert H. unfold lazy_callreq.
  destruct (r_bytes (Z.to_nat c_u_serviceLenIndex) (rb p)) as [x1 r1] eqn:E1.
  assert (S1 : rerr r1 = true).
  { unfold r_bytes, rb in E1. cbn [rerr rrem] in E1. change (Z.to_nat c_u_serviceLenIndex) with 30%nat in E1.
    destruct (Nat.ltb_spec (length p) 30) as [Q|Q]; [inversion E1; reflexivity|unfold zlen in L; lia]. }
  destruct (r_u8 r1) as [sl r2] eqn:E2. pose proof (stick _ _ _ _ (r_uint_sticky 1) S1 E2) as S2.
  destruct (r_bytes (Z.to_nat sl) r2) as [x3 r3] eqn:E3. pose proof (stick _ _ _ _ (r_bytes_sticky _) S2 E3) as S3.
  destruct (r_u8 r3) as [nh r4] eqn:E4. pose proof (stick _ _ _ _ (r_uint_sticky 1) S3 E4) as S4.
  destruct (lazy_hdrs (Z.to_nat nh) (mkHsel [] [] [] []) r4) as [hs r5] eqn:E5.
  pose proof (stick _ _ _ _ (lazy_hdrs_sticky _ _) S4 E5) as S5.
  destruct (r_u8 r5) as [ct r6] eqn:E6. pose proof (stick _ _ _ _ (r_uint_sticky 1) S5 E6) as S6.
  destruct (ct >=? c_checksumCount); [cbn [fst]; discriminate|].
  destruct (r_bytes (Z.to_nat (ChecksumSize ct)) r6) as [x7 r7] eqn:E7. pose proof (stick _ _ _ _ (r_bytes_sticky _) S6 E7) as S7.
  destruct (r_u16 r7) as [a1len r8] eqn:E8. pose proof (stick _ _ _ _ (r_uint_sticky 2) S7 E8) as S8.
  destruct (r_bytes (Z.to_nat a1len) r8) as [method r9] eqn:E9. pose proof (stick _ _ _ _ (r_bytes_sticky _) S8 E9) as S9.
  destruct (r_u16 r9) as [a2len r10] eqn:E10. pose proof (stick _ _ _ _ (r_uint_sticky 2) S9 E10) as S10.
  destruct (r_bytes (Z.to_nat a2len) r10) as [x11 r11] eqn:E11. pose proof (stick _ _ _ _ (r_bytes_sticky _) S10 E11) as S11.
  destruct ((zlen (rrem r11) =? 0) && hasMoreFragments (nth 0 p 0)).
  - rewrite S11. cbn [fst]. discriminate.
  - destruct (r_bytes 2 r11) as [x12 r12] eqn:E12. pose proof (stick _ _ _ _ (r_bytes_sticky _) S11 E12) as S12.
    rewrite S12. cbn [fst]. discriminate.
Qed.

(* ---------------- lookups in the specification's call list ---------------- *)
Lemma find_src_some cs c id x : find_src cs c id = Some x -> In x cs /\ sc_src x = c /\ sc_orig x = id.
Proof.
  induction cs as [|a r IH]; cbn [find_src]; [discriminate|].
  destruct (Nat.eqb (sc_src a) c && (sc_orig a =? id)) eqn:E; intros H.
  - injection H as <-. apply andb_true_iff in E as [E1 E2]. apply Nat.eqb_eq in E1. apply Z.eqb_eq in E2.
    split; [left; reflexivity|split; assumption].
  - destruct (IH H) as (I & S). split; [right; exact I|exact S].
Qed.

Lemma find_dst_some cs d k x : find_dst cs d k = Some x -> In x cs /\ sc_dst x = d /\ sc_id x = k.
Proof.
  induction cs as [|a r IH]; cbn [find_dst]; [discriminate|].
  destruct (Nat.eqb (sc_dst a) d && (sc_id a =? k)) eqn:E; intros H.
  - injection H as <-. apply andb_true_iff in E as [E1 E2]. apply Nat.eqb_eq in E1. apply Z.eqb_eq in E2.
    split; [left; reflexivity|split; assumption].
  - destruct (IH H) as (I & S). split; [right; exact I|exact S].
Qed.

Lemma find_src_none cs c id : (forall z, In z cs -> sc_src z = c -> sc_orig z = id -> False) -> find_src cs c id = None.
Proof.
  induction cs as [|a r IH]; intros H; cbn [find_src]; [reflexivity|].
  destruct (Nat.eqb (sc_src a) c && (sc_orig a =? id)) eqn:E.
  - exfalso. apply andb_true_iff in E as [E1 E2]. apply Nat.eqb_eq in E1. apply Z.eqb_eq in E2.
    apply (H a); [left; reflexivity|assumption..].
  - apply IH. intros z Hz. apply H. right; exact Hz.
Qed.

Lemma find_dst_none cs d k : (forall z, In z cs -> sc_dst z = d -> sc_id z = k -> False) -> find_dst cs d k = None.
Proof.
  induction cs as [|a r IH]; intros H; cbn [find_dst]; [reflexivity|].
  destruct (Nat.eqb (sc_dst a) d && (sc_id a =? k)) eqn:E.
  - exfalso. apply andb_true_iff in E as [E1 E2]. apply Nat.eqb_eq in E1. apply Z.eqb_eq in E2.
    apply (H a); [left; reflexivity|assumption..].
  - apply IH. intros z Hz. apply H. right; exact Hz.
Qed.

Lemma find_src_filter f cs c id y : find_src cs c id = Some y -> f y = true -> find_src (filter f cs) c id = Some y.
Proof.
  induction cs as [|a r IH]; cbn [find_src filter]; [discriminate|].
  destruct (Nat.eqb (sc_src a) c && (sc_orig a =? id)) eqn:E; intros H Hf.
  - injection H as ->. rewrite Hf. cbn [find_src]. rewrite E. reflexivity.
  - destruct (f a); [cbn [find_src]; rewrite E|]; apply IH; assumption.
Qed.

Lemma find_dst_filter f cs d k y : find_dst cs d k = Some y -> f y = true -> find_dst (filter f cs) d k = Some y.
Proof.
  induction cs as [|a r IH]; cbn [find_dst filter]; [discriminate|].
  destruct (Nat.eqb (sc_dst a) d && (sc_id a =? k)) eqn:E; intros H Hf.
  - injection H as ->. rewrite Hf. cbn [find_dst]. rewrite E. reflexivity.
  - destruct (f a); [cbn [find_dst]; rewrite E|]; apply IH; assumption.
Qed.

(* well-formed call list: ids were taken from the destination's counter, both keys are unique *)
Definition WF (cs : list scall) (cnt : nat -> Z) : Prop := forall x, In x cs ->
  0 < sc_id x <= cnt (sc_dst x) /\
  find_src cs (sc_src x) (sc_orig x) = Some x /\
  find_dst cs (sc_dst x) (sc_id x) = Some x.

Lemma WF_src_uniq cs cnt x y : WF cs cnt -> In x cs -> In y cs -> sc_src x = sc_src y -> sc_orig x = sc_orig y -> x = y.
Proof.
  intros W Hx Hy E1 E2. destruct (W x Hx) as (_ & Fx & _). destruct (W y Hy) as (_ & Fy & _).
  rewrite E1, E2 in Fx. congruence.
Qed.

Lemma WF_dst_uniq cs cnt x y : WF cs cnt -> In x cs -> In y cs -> sc_dst x = sc_dst y -> sc_id x = sc_id y -> x = y.
Proof.
  intros W Hx Hy E1 E2. destruct (W x Hx) as (_ & _ & Fx). destruct (W y Hy) as (_ & _ & Fy).
  rewrite E1, E2 in Fx. congruence.
Qed.

Lemma WF_mono cs cnt cnt' : WF cs cnt -> (forall d, cnt d <= cnt' d) -> WF cs cnt'.
Proof. intros W M x Hx. destruct (W x Hx) as (B & F). split; [specialize (M (sc_dst x)); lia|exact F]. Qed.

Definition rm_test (x y : scall) : bool := negb (Nat.eqb (sc_dst y) (sc_dst x) && (sc_id y =? sc_id x)).

Lemma rm_test_self x : rm_test x x = false.
Proof. unfold rm_test. rewrite Nat.eqb_refl, Z.eqb_refl. reflexivity. Qed.

Lemma rm_test_other cs cnt x y : WF cs cnt -> In x cs -> In y cs -> y <> x -> rm_test x y = true.
Proof.
  intros W Hx Hy N. unfold rm_test. destruct (Nat.eqb (sc_dst y) (sc_dst x) && (sc_id y =? sc_id x)) eqn:E; [|reflexivity].
  exfalso. apply andb_true_iff in E as [E1 E2]. apply Nat.eqb_eq in E1. apply Z.eqb_eq in E2.
  apply N. eapply WF_dst_uniq; eassumption.
Qed.

Lemma remove_find_src cs cnt x c id : WF cs cnt -> In x cs ->
  find_src (remove_call cs x) c id = if Nat.eqb c (sc_src x) && (id =? sc_orig x) then None else find_src cs c id.
Proof.
  intros W Hx. change (remove_call cs x) with (filter (rm_test x) cs).
  destruct (Nat.eqb c (sc_src x) && (id =? sc_orig x)) eqn:E.
  - apply andb_true_iff in E as [E1 E2]. apply Nat.eqb_eq in E1. apply Z.eqb_eq in E2. subst c id.
    apply find_src_none. intros z Hz S1 S2. apply filter_In in Hz as [Hz Tz].
    assert (z = x) by (eapply WF_src_uniq; eassumption). subst z. rewrite rm_test_self in Tz. discriminate.
  - apply key_eqb_false in E. destruct (find_src cs c id) as [y|] eqn:F.
    + destruct (find_src_some _ _ _ _ F) as (Hy & S1 & S2). apply find_src_filter; [exact F|].
      eapply rm_test_other; try eassumption. intros ->. destruct E as [E|E]; apply E; congruence.
    + apply find_src_none. intros z Hz S1 S2. apply filter_In in Hz as [Hz _].
      destruct (W z Hz) as (_ & Fz & _). rewrite S1, S2 in Fz. congruence.
Qed.

Lemma remove_find_dst cs cnt x d k : WF cs cnt -> In x cs ->
  find_dst (remove_call cs x) d k = if Nat.eqb d (sc_dst x) && (k =? sc_id x) then None else find_dst cs d k.
Proof.
  intros W Hx. change (remove_call cs x) with (filter (rm_test x) cs).
  destruct (Nat.eqb d (sc_dst x) && (k =? sc_id x)) eqn:E.
  - apply andb_true_iff in E as [E1 E2]. apply Nat.eqb_eq in E1. apply Z.eqb_eq in E2. subst d k.
    apply find_dst_none. intros z Hz S1 S2. apply filter_In in Hz as [Hz Tz].
    assert (z = x) by (eapply WF_dst_uniq; eassumption). subst z. rewrite rm_test_self in Tz. discriminate.
  - apply key_eqb_false in E. destruct (find_dst cs d k) as [y|] eqn:F.
    + destruct (find_dst_some _ _ _ _ F) as (Hy & S1 & S2). apply find_dst_filter; [exact F|].
      eapply rm_test_other; try eassumption. intros ->. destruct E as [E|E]; apply E; congruence.
    + apply find_dst_none. intros z Hz S1 S2. apply filter_In in Hz as [Hz _].
      destruct (W z Hz) as (_ & _ & Fz). rewrite S1, S2 in Fz. congruence.
Qed.

Lemma WF_remove cs cnt x : WF cs cnt -> In x cs -> WF (remove_call cs x) cnt.
Proof.
  intros W Hx y Hy. pose proof Hy as Hy'. unfold remove_call in Hy'. apply filter_In in Hy' as [Hy' Ty].
  fold (rm_test x y) in Ty.
  assert (N : y <> x) by (intros ->; rewrite rm_test_self in Ty; discriminate).
  destruct (W y Hy') as (B & Fs & Fd). split; [exact B|]. split.
  - rewrite (remove_find_src cs cnt x _ _ W Hx).
    destruct (Nat.eqb (sc_src y) (sc_src x) && (sc_orig y =? sc_orig x)) eqn:E; [|exact Fs].
    exfalso. apply andb_true_iff in E as [E1 E2]. apply Nat.eqb_eq in E1. apply Z.eqb_eq in E2.
    apply N. eapply WF_src_uniq; eassumption.
  - rewrite (remove_find_dst cs cnt x _ _ W Hx).
    destruct (Nat.eqb (sc_dst y) (sc_dst x) && (sc_id y =? sc_id x)) eqn:E; [|exact Fd].
    exfalso. apply andb_true_iff in E as [E1 E2]. apply Nat.eqb_eq in E1. apply Z.eqb_eq in E2.
    apply N. eapply WF_dst_uniq; eassumption.
Qed.

(* ---------------- the simulation relation ---------------- *)
Definition out_rel (o : option item) (f : option scall) : Prop :=
  match o, f with
  | Some it, Some x => it_remap it = sc_id x /\ it_dest it = sc_dst x /\ it_tomb it = false /\ it_mut it = None
  | None, None => True
  | _, _ => False
  end.
Definition in_rel (o : option item) (f : option scall) : Prop :=
  match o, f with
  | Some it, Some x => it_remap it = sc_orig x /\ it_dest it = sc_src x /\ it_tomb it = false
  | None, None => True
  | _, _ => False
  end.

Record R (st : rstate) (ss : sstate) : Prop := {
  r_cnt : forall c, st_count st c = ss_count ss c;
  r_pos : forall c, 0 <= st_count st c;
  r_out : forall c id, out_rel (st_out st c id) (find_src (ss_calls ss) c id);
  r_in : forall d k, in_rel (st_in st d k) (find_dst (ss_calls ss) d k);
  r_wf : WF (ss_calls ss) (ss_count ss)
}.

Lemma R_init cnt0 : (forall c, 0 <= cnt0 c) -> R (init_state cnt0) (mkSS [] cnt0).
Proof. intros H. constructor; cbn; intros; auto. intros x []. Qed.

Lemma bump_eq (f g : nat -> Z) c c' : (forall x, f x = g x) ->
  (if Nat.eqb c' c then f c + 1 else f c') = bump g c c'.
Proof. intros H. unfold bump. rewrite !H. reflexivity. Qed.

Lemma R_own st ss c own : R st ss ->
  R (mkSt (fun c' => if Nat.eqb c' c then st_count st c + 1 else st_count st c') (st_out st) (st_in st) own)
    (mkSS (ss_calls ss) (bump (ss_count ss) c)).
Proof.
  intros [Rc Rp Ro Ri Rw]. constructor; cbn [st_count st_out st_in ss_calls ss_count].
  - intros c'. apply bump_eq, Rc.
  - intros c'. pose proof (Rp c). pose proof (Rp c'). destruct (Nat.eqb c' c); lia.
  - exact Ro.
  - exact Ri.
  - eapply WF_mono; [exact Rw|]. intros d. unfold bump. destruct (Nat.eqb_spec d c); [subst; lia|lia].
Qed.

Lemma R_remove st ss x : R st ss -> In x (ss_calls ss) ->
  R (mkSt (st_count st) (im_set (st_out st) (sc_src x) (sc_orig x) None) (im_set (st_in st) (sc_dst x) (sc_id x) None) (st_own st))
    (mkSS (remove_call (ss_calls ss) x) (ss_count ss)).
Proof.
  intros [Rc Rp Ro Ri Rw] Hx. constructor; cbn [st_count st_out st_in ss_calls ss_count].
  - exact Rc.
  - exact Rp.
  - intros c id. rewrite (remove_find_src _ _ _ c id Rw Hx). unfold im_set.
    destruct (Nat.eqb c (sc_src x) && (id =? sc_orig x)); [exact I|apply Ro].
  - intros d k. rewrite (remove_find_dst _ _ _ d k Rw Hx). unfold im_set.
    destruct (Nat.eqb d (sc_dst x) && (k =? sc_id x)); [exact I|apply Ri].
  - apply WF_remove; assumption.
Qed.

Lemma key_sym (a b : nat) (i j : Z) : Nat.eqb a b && (i =? j) = Nat.eqb b a && (j =? i).
Proof. rewrite (Nat.eqb_sym a b), (Z.eqb_sym i j). reflexivity. Qed.

Lemma R_add st ss c id d sp : R st ss -> st_out st c id = None ->
  R (mkSt (fun c' => if Nat.eqb c' d then st_count st d + 1 else st_count st c')
          (im_set (st_out st) c id (Some (mkItem (st_count st d + 1) d false true sp None)))
          (im_set (st_in st) d (st_count st d + 1) (Some (mkItem id c false false sp None))) (st_own st))
    (mkSS (mkCall c id d (ss_count ss d + 1) :: ss_calls ss) (bump (ss_count ss) d)).
Proof.
  intros [Rc Rp Ro Ri Rw] Hn.
  assert (Fn : find_src (ss_calls ss) c id = None).
  { specialize (Ro c id). rewrite Hn in Ro. destruct (find_src (ss_calls ss) c id); [contradiction|reflexivity]. }
  assert (Fd : find_dst (ss_calls ss) d (ss_count ss d + 1) = None).
  { apply find_dst_none. intros z Hz E1 E2. destruct (Rw z Hz) as (B & _). rewrite E1 in B. lia. }
  rewrite <- (Rc d) in *.
  constructor; cbn [st_count st_out st_in ss_calls ss_count].
  - intros c'. apply bump_eq, Rc.
  - intros c'. pose proof (Rp d). pose proof (Rp c'). destruct (Nat.eqb c' d); lia.
  - intros c' id'. cbn [find_src sc_src sc_orig]. unfold im_set. rewrite (key_sym c c' id id').
    destruct (Nat.eqb c' c && (id' =? id)); [|apply Ro]. cbn. repeat split; reflexivity.
  - intros d' k'. cbn [find_dst sc_dst sc_id]. unfold im_set. rewrite (key_sym d d' (st_count st d + 1) k').
    destruct (Nat.eqb d' d && (k' =? st_count st d + 1)); [|apply Ri]. cbn. repeat split; reflexivity.
  - intros x [<-|Hx]; cbn [sc_src sc_orig sc_dst sc_id find_src find_dst].
    + rewrite !Nat.eqb_refl, !Z.eqb_refl. cbn [andb]. unfold bump. rewrite Nat.eqb_refl. rewrite <- (Rc d).
      pose proof (Rp d). repeat split; lia.
    + destruct (Rw x Hx) as (B & Fs & Fdx). split; [|split].
      * unfold bump. destruct (Nat.eqb_spec (sc_dst x) d) as [E|E]; [rewrite E in B; lia|lia].
      * destruct (Nat.eqb c (sc_src x) && (id =? sc_orig x)) eqn:E; [|exact Fs].
        exfalso. apply andb_true_iff in E as [E1 E2]. apply Nat.eqb_eq in E1. apply Z.eqb_eq in E2. subst. congruence.
      * destruct (Nat.eqb d (sc_dst x) && (st_count st d + 1 =? sc_id x)) eqn:E; [|exact Fdx].
        exfalso. apply andb_true_iff in E as [E1 E2]. apply Nat.eqb_eq in E1. apply Z.eqb_eq in E2.
        rewrite <- E1, <- E2, (Rc d) in B. lia.
Qed.

(* ---------------- the model's and the specification's step on each frame type, in closed form ---------------- *)
Definition resp_types : list Z := [c_messageTypeCallRes; c_messageTypeCallResContinue; c_messageTypeError].

Lemma receive_req st d h p : receive st d h p c_requestFrame =
  match st_in st d (fh_id h) with
  | None => (false, [], st)
  | Some it => if it_tomb it then (true, [], st)
               else (true, [OFrame d h p],
                     if finishesCall (fh_type h) (flags_of p) then set_item st false d (fh_id h) None else st)
  end.
Proof. reflexivity. Qed.

Lemma receive_resp st c h p : receive st c h p c_responseFrame =
  match st_out st c (fh_id h) with
  | None => (false, [], st)
  | Some it => if it_tomb it then (true, [], st)
               else (true, [OFrame c h p],
                     if finishesCall (fh_type h) (flags_of p) then set_item st true c (fh_id h) None else st)
  end.
Proof. reflexivity. Qed.

Lemma step_cancel maxT st c h p hd : fh_type h = c_messageTypeCancel ->
  step maxT false st (LFrame c h p hd) = Some ([], st).
Proof. intros Ht. cbn [step]. rewrite Ht. reflexivity. Qed.

Lemma step_callreq maxT st c h p hd : fh_type h = c_messageTypeCallReq ->
  step maxT false st (LFrame c h p hd) = handle_callreq maxT st c h p hd.
Proof. intros Ht. cbn [step]. rewrite Ht. reflexivity. Qed.

Lemma step_cont maxT st c h p hd : fh_type h = c_messageTypeCallReqContinue ->
  step maxT false st (LFrame c h p hd) = handle_other st c h p.
Proof. intros Ht. cbn [step]. rewrite Ht. reflexivity. Qed.

Lemma step_resp maxT st c h p hd r : In (fh_type h) resp_types ->
  step maxT false st (LFrame c h p hd) = Some r -> handle_other st c h p = Some r.
Proof.
  intros Hin. cbn [step]. generalize (handle_other st c h p). generalize (handle_callreq maxT st c h p hd).
  generalize (zlen p =? 0). intros z A B.
  destruct Hin as [<-|[<-|[<-|[]]]]; cbn; try (destruct z; [discriminate|]); exact (fun H => H).
Qed.

Lemma handle_other_cont st c h p : fh_type h = c_messageTypeCallReqContinue ->
  handle_other st c h p =
  match st_out st c (fh_id h) with
  | None => Some ([], st)
  | Some it =>
      if it_tomb it then Some ([], st)
      else
        let '(p1, st1) :=
          match it_mut it with
          | Some ck => let '(p', ck') := update_cont_ck p ck in (p', set_item st true c (fh_id h) (Some (with_mut it ck')))
          | None => (p, st)
          end in
        let '(sent, outs, st2) := receive st1 (it_dest it) (set_id h (it_remap it)) p1 c_requestFrame in
        if negb sent then Some (fail_item st2 c true (fh_id h) c_u_relayErrorNotFound) else Some (outs, st2)
  end.
Proof. intros Ht. unfold handle_other. rewrite Ht. reflexivity. Qed.

Lemma handle_other_resp st d h p : In (fh_type h) resp_types ->
  handle_other st d h p =
  match st_in st d (fh_id h) with
  | None => Some ([], st)
  | Some it =>
      if it_tomb it then Some ([], st)
      else
        let '(sent, outs, st2) := receive st (it_dest it) (set_id h (it_remap it)) p c_responseFrame in
        if negb sent then Some (fail_item st2 d false (fh_id h) c_u_relayErrorNotFound)
        else Some (outs, if finishesCall (fh_type h) (flags_of p) then set_item st2 false d (fh_id h) None else st2)
  end.
Proof. intros Hin. unfold handle_other. destruct Hin as [<-|[<-|[<-|[]]]]; reflexivity. Qed.

Lemma fin_is_ends t p : In t resp_types -> finishesCall t (flags_of p) = sp_ends t p.
Proof. intros Hin. destruct Hin as [<-|[<-|[<-|[]]]]; reflexivity. Qed.

Lemma spec_cancel M ss c h p hd : fh_type h = c_messageTypeCancel -> spec_step M ss (LFrame c h p hd) = Some ([], ss).
Proof. intros Ht. cbn [spec_step]. rewrite Ht. reflexivity. Qed.

Lemma spec_callreq M ss c h p d : fh_type h = c_messageTypeCallReq ->
  spec_step M ss (LFrame c h p (HDst d [])) =
  match find_src (ss_calls ss) c (fh_id h) with
  | Some _ => Some ([], ss)
  | None => Some ([OFrame d (sp_with_id h (ss_count ss d + 1)) (sp_clamp M p)],
                  mkSS (mkCall c (fh_id h) d (ss_count ss d + 1) :: ss_calls ss) (bump (ss_count ss) d))
  end.
Proof. intros Ht. cbn [spec_step]. rewrite Ht. reflexivity. Qed.

Lemma spec_cont M ss c h p hd : fh_type h = c_messageTypeCallReqContinue ->
  spec_step M ss (LFrame c h p hd) =
  match find_src (ss_calls ss) c (fh_id h) with
  | None => Some ([], ss)
  | Some x => Some ([OFrame (sc_dst x) (sp_with_id h (sc_id x)) p], ss)
  end.
Proof. intros Ht. cbn [spec_step]. rewrite Ht. reflexivity. Qed.

Lemma spec_resp M ss c h p hd : In (fh_type h) resp_types ->
  spec_step M ss (LFrame c h p hd) =
  match find_dst (ss_calls ss) c (fh_id h) with
  | None => Some ([], ss)
  | Some x => Some ([OFrame (sc_src x) (sp_with_id h (sc_orig x)) p],
                    if sp_ends (fh_type h) p then mkSS (remove_call (ss_calls ss) x) (ss_count ss) else ss)
  end.
Proof. intros Hin. cbn [spec_step]. destruct Hin as [<-|[<-|[<-|[]]]]; reflexivity. Qed.

(* ---------------- one step of the model is one step of the specification ---------------- *)
Lemma fin_req f : finishesCall c_messageTypeCallReq f = false.
Proof. reflexivity. Qed.
Lemma fin_cont19 f : finishesCall c_messageTypeCallReqContinue f = false.
Proof. reflexivity. Qed.

Lemma sim_cont maxT st ss c h p hd o st' : R st ss -> fh_type h = c_messageTypeCallReqContinue ->
  step maxT false st (LFrame c h p hd) = Some (o, st') ->
  exists ss', spec_step (Z.quot maxT ms_ns) ss (LFrame c h p hd) = Some (o, ss') /\ R st' ss'.
Proof.
  intros HR Ht. rewrite (step_cont _ _ _ _ _ _ Ht), (handle_other_cont _ _ _ _ Ht), (spec_cont _ _ _ _ _ _ Ht).
  pose proof (r_out _ _ HR c (fh_id h)) as Ho. unfold out_rel in Ho.
  destruct (st_out st c (fh_id h)) as [it|]; destruct (find_src (ss_calls ss) c (fh_id h)) as [x|] eqn:Fx;
    try contradiction.
  - destruct Ho as (E1 & E2 & E3 & E4). rewrite E3, E4, receive_req. cbn [set_id fh_id fh_type].
    destruct (find_src_some _ _ _ _ Fx) as (Hx & _).
    destruct (r_wf _ _ HR x Hx) as (_ & _ & Fd).
    pose proof (r_in _ _ HR (sc_dst x) (sc_id x)) as Hi. rewrite Fd in Hi. unfold in_rel in Hi.
    rewrite E1, E2. destruct (st_in st (sc_dst x) (sc_id x)) as [it2|]; [|contradiction].
    destruct Hi as (_ & _ & T). rewrite T, Ht, fin_cont19. cbn [negb].
    intros H; injection H as <- <-. exists ss. split; [reflexivity|exact HR].
  - intros H; injection H as <- <-. exists ss. split; [reflexivity|exact HR].
Qed.

Lemma sim_resp maxT st ss c h p hd o st' : R st ss -> In (fh_type h) resp_types ->
  step maxT false st (LFrame c h p hd) = Some (o, st') ->
  exists ss', spec_step (Z.quot maxT ms_ns) ss (LFrame c h p hd) = Some (o, ss') /\ R st' ss'.
Proof.
  intros HR Hin Hs. apply (step_resp _ _ _ _ _ _ _ Hin) in Hs. revert Hs.
  rewrite (handle_other_resp _ _ _ _ Hin), (spec_resp _ _ _ _ _ _ Hin), (fin_is_ends _ p Hin).
  pose proof (r_in _ _ HR c (fh_id h)) as Hi. unfold in_rel in Hi.
  destruct (st_in st c (fh_id h)) as [it|]; destruct (find_dst (ss_calls ss) c (fh_id h)) as [x|] eqn:Fx;
    try contradiction.
  - destruct Hi as (E1 & E2 & E3). rewrite E3, receive_resp. cbn [set_id fh_id fh_type].
    destruct (find_dst_some _ _ _ _ Fx) as (Hx & D1 & D2).
    destruct (r_wf _ _ HR x Hx) as (_ & Fs & _).
    pose proof (r_out _ _ HR (sc_src x) (sc_orig x)) as Ho. rewrite Fs in Ho. unfold out_rel in Ho.
    rewrite E1, E2. destruct (st_out st (sc_src x) (sc_orig x)) as [it2|]; [|contradiction].
    destruct Ho as (_ & _ & T & _). rewrite T, (fin_is_ends _ p Hin). cbn [negb].
    intros H; injection H as <- <-. eexists. split; [reflexivity|].
    destruct (sp_ends (fh_type h) p); [|exact HR].
    rewrite <- D1, <- D2. cbn [set_item st_count st_out st_in st_own]. apply R_remove; assumption.
  - intros H; injection H as <- <-. exists ss. split; [reflexivity|exact HR].
Qed.

Lemma sim_callreq maxT st ss c h p d o st' : max_ok maxT -> R st ss -> bytes_ok p = true ->
  fh_type h = c_messageTypeCallReq -> fst (lazy_callreq p) = 0 ->
  step maxT false st (LFrame c h p (HDst d [])) = Some (o, st') -> (forall c, st_count st' c < 2 ^ 32) ->
  exists ss', spec_step (Z.quot maxT ms_ns) ss (LFrame c h p (HDst d [])) = Some (o, ss') /\ R st' ss'.
Proof.
  intros Hm HR Hb Ht Hl. rewrite (step_callreq _ _ _ _ _ _ Ht), (spec_callreq _ _ _ _ _ _ Ht).
  pose proof (lazy_callreq_len _ Hl) as Hlen.
  unfold handle_callreq. destruct (lazy_callreq p) as [code lz]. cbn [fst] in Hl. subst code.
  change (negb (0 =? 0)) with false. cbv iota.
  pose proof (r_out _ _ HR c (fh_id h)) as Ho. unfold out_rel in Ho.
  destruct (st_out st c (fh_id h)) as [it|] eqn:Eo; destruct (find_src (ss_calls ss) c (fh_id h)) as [x|] eqn:Fx;
    try contradiction.
  - intros H _; injection H as <- <-. exists ss. split; [reflexivity|exact HR].
  - unfold alloc_id. cbv beta iota zeta. rewrite receive_req.
    cbn [set_item set_id fh_id fh_type st_in st_out st_count st_own]. rewrite im_set_eq. cbn [it_tomb].
    rewrite Ht, fin_req. intros H B; injection H as <- <-.
    specialize (B d). cbn [st_count] in B. rewrite Nat.eqb_refl in B. pose proof (r_pos _ _ HR d) as P.
    rewrite (wrapU_id 32 (st_count st d + 1)) by lia.
    eexists. split.
    + rewrite (clamp_ttl_spec maxT p Hm Hb) by lia. rewrite (r_cnt _ _ HR d). reflexivity.
    + apply R_add; assumption.
Qed.

Lemma sim_step maxT st ss l o st' : max_ok maxT -> R st ss -> plain l ->
  step maxT false st l = Some (o, st') -> (forall c, st_count st' c < 2 ^ 32) ->
  exists ss', spec_step (Z.quot maxT ms_ns) ss l = Some (o, ss') /\ R st' ss'.
Proof.
  intros Hm HR Hp Hs B. destruct l as [c h p hd|c|c outb id|c outb id]; cbn [plain] in Hp; try contradiction.
  - destruct Hp as (Hb & Hin & Hreq & _). cbn [In] in Hin.
    destruct Hin as [Ht|[Ht|[Ht|[Ht|[Ht|[Ht|[]]]]]]]; symmetry in Ht.
    + destruct (Hreq Ht) as (Hl & d & ->). eapply sim_callreq; eassumption.
    + eapply sim_cont; eassumption.
    + eapply sim_resp; [exact HR| |exact Hs]. rewrite Ht. left; reflexivity.
    + eapply sim_resp; [exact HR| |exact Hs]. rewrite Ht. right; left; reflexivity.
    + eapply sim_resp; [exact HR| |exact Hs]. rewrite Ht. right; right; left; reflexivity.
    + rewrite (step_cancel _ _ _ _ _ _ Ht) in Hs. injection Hs as <- <-.
      exists ss. split; [apply spec_cancel, Ht|exact HR].
  - cbn [step alloc_id] in Hs. injection Hs as <- <-. eexists. split; [reflexivity|]. apply R_own, HR.
Qed.

(* ---------------- the refinement theorem ---------------- *)
Lemma run_sim maxT ls : forall st ss outs st', max_ok maxT -> R st ss -> Forall plain ls ->
  run maxT false ls st = Some (outs, st') -> (forall c, st_count st' c < 2 ^ 32) ->
  exists ss', spec_run (Z.quot maxT ms_ns) ls ss = Some (outs, ss') /\ R st' ss'.
Proof.
  induction ls as [|l r IH]; intros st ss outs st' Hm HR Hp; cbn [run spec_run].
  - intros H _; injection H as <- <-. exists ss. split; [reflexivity|exact HR].
  - destruct (step maxT false st l) as [[o st1]|] eqn:Es; [|discriminate].
    destruct (run maxT false r st1) as [[os st2]|] eqn:Er; [|discriminate].
    intros H B; injection H as <- <-. inversion Hp as [|? ? Pl Pr]; subst.
    assert (B1 : forall c, st_count st1 c < 2 ^ 32).
    { intros c. pose proof (run_count_mono _ _ _ _ _ _ Er c). specialize (B c). lia. }
    destruct (sim_step _ _ _ _ _ _ Hm HR Pl Es B1) as (ss1 & E1 & R1). rewrite E1.
    destruct (IH _ _ _ _ Hm R1 Pr Er B) as (ss2 & E2 & R2). rewrite E2.
    exists ss2. split; [reflexivity|exact R2].
Qed.

Theorem relay_refines_spec : forall maxT cnt0 ls outs st,
  max_ok maxT -> (forall c, 0 <= cnt0 c) -> Forall plain ls ->
  run maxT false ls (init_state cnt0) = Some (outs, st) ->
  (forall c, st_count st c < 2 ^ 32) ->
  exists ss, spec_run (Z.quot maxT ms_ns) ls (mkSS [] cnt0) = Some (outs, ss).
Proof.
  intros maxT cnt0 ls outs st Hm H0 Hp Hr B.
  destruct (run_sim maxT ls _ _ _ _ Hm (R_init cnt0 H0) Hp Hr B) as (ss & E & _). exists ss. exact E.
Qed.

Print Assumptions relay_refines_spec.
