(* Relay model, C09 "nothing is reported for a call after End":
   - refuted by a concrete interleaving (a frame looked up before the timeout completes the call);
   - proved for all "calm" schedules: those in which (a) no goroutine still holds a looked-up
     copy of the call (or pending callbacks for it) at the moment End is reported, and (b) no
     frame finds a live item of a call whose End has already been reported. *)
From Coq Require Import ZArith List Bool Lia.
From Verif Require Import Base.Wrap Gen.GenConsts Gen.GenFrame Model.RelayItems Spec.RelayAccount
  Proofs.RelayAssocP Proofs.RelayCoreP Proofs.RelayInv9P Proofs.RelayTimerP Proofs.RelayThmP.
Import ListNotations.
Local Open Scope Z_scope.

(* ---------------------------------------------------------------- the refutation *)

Definition wit_cf : config := {| cf_maxtombs := 30000; cf_cancel := true |}.
Definition wit_env : env := {| e_start := 0; e_code := 0; e_dest := 1; e_mode := 0 |}.
Definition wit_req : frame := {| f_mt := c_messageTypeCallReq; f_id := 7; f_flags := 0; f_code := 0; f_wf := true |}.
Definition wit_res_more : frame := {| f_mt := c_messageTypeCallRes; f_id := 1; f_flags := 1; f_code := 0; f_wf := true |}.

(* call req 7 is relayed; the destination's first (non-final) call res is looked up; the
   originating item's timeout fires and completes the call; the reader goes on *)
Definition wit_silent : list label :=
  [LArrive 0 wit_req wit_env] ++ repeat (LStep (TR 0) true) 10 ++
  [LArrive 1 wit_res_more wit_env; LStep (TR 1) true; LFire 2] ++ repeat (LStep (TT 2) true) 6 ++
  [LStep (TR 1) true; LStep (TR 1) true].

Lemma silent_after_end_refuted_lemma :
  exists ls st, run_fresh wit_cf init ls = Some st /\ ~ silent_after_end cb_is_end (cblog st).
Proof.
  exists wit_silent. eexists. split; [vm_compute; reflexivity|].
  intro H. apply (H 1 [(1, CbResp)] [(1, CbFailed 101); (1, CbSent)] CbEnd eq_refl eq_refl CbResp). left. reflexivity.
Qed.

(* ---------------------------------------------------------------- calm schedules *)

(* instructions that can still report a non-End callback for call c *)
Definition reporter (c : Z) (i : instr) : bool :=
  match i with
  | ICb c' x => (c' =? c) && negb (cb_is_end x)
  | ICanHandle _ _ _ c' | IGetDest _ _ _ c' | IRemoteCan _ _ _ c' _ | IAddDest _ _ _ c' _ | IAddOrig _ _ _ c' _ _ => c' =? c
  | INcChk _ _ _ _ (Some (it, _)) => (it_call it =? c) && negb (it_tomb it)
  | IRcvGet r => r_call r =? c
  | IRcvChk r _ g =>
      (r_call r =? c) || match g with Some (it, _) => (it_call it =? c) && negb (it_tomb it) | None => false end
  | IRcvEnq r _ _ => r_call r =? c
  | _ => false
  end.

Definition calm_step (st : state) (l : label) : Prop :=
  match l with
  | LStep th _ =>
      match lookup tid_eqb th (threads st) with
      | Some (ICb c CbEnd :: _) =>
          forall th' code j, In (th', code) (threads st) -> In j code -> reporter c j = false
      | Some (INcGet k f :: _) =>
          forall ft it, frameTypeFor (f_mt f) = Some ft ->
            klookup (k, (if ft =? c_responseFrame then 1 else 0), f_id f) (items st) = Some it ->
            it_tomb it = false -> ends (it_call it) (cblog st) = 0
      | Some (IRcvGet r :: _) =>
          forall it, klookup (r_d r, (if r_ft r =? c_requestFrame then 1 else 0), f_id (r_f r)) (items st) = Some it ->
            it_tomb it = false -> ends (it_call it) (cblog st) = 0
      | _ => True
      end
  | _ => True
  end.

Fixpoint calm_run (cf : config) (st : state) (ls : list label) : Prop :=
  match ls with
  | [] => True
  | l :: r => calm_step st l /\ match step cf st l with Some st' => calm_run cf st' r | None => True end
  end.

Definition SInv (st : state) : Prop :=
  silent_after_end cb_is_end (cblog st) /\
  forall c, 1 <= ends c (cblog st) -> forall th code j, In (th, code) (threads st) -> In j code -> reporter c j = false.

(* a call whose End token is still in a thread or in the table has no End in the log *)
Lemma ends_zero_thread : forall st c th code j, Inv st -> In (th, code) (threads st) -> In j code -> 1 <= tok_i c j ->
  ends c (cblog st) = 0.
Proof.
  intros st c th code j HI Hin Hj Ht. pose proof (inv_total _ HI c) as Htot. unfold total in Htot.
  assert (H1 : 1 <= tsum (tok_i c) (threads st)).
  { unfold tsum. pose proof (in_lookup tid_eqb tid_eqb_ok _ _ _ (inv_threads_nd _ HI) Hin) as Hl.
    pose proof (asum_remove_some tid_eqb tid_eqb_ok (fun _ code0 => csum (tok_i c) code0) th code (threads st) (inv_threads_nd _ HI) Hl) as Hr.
    pose proof (asum_nonneg (fun _ code0 => csum (tok_i c) code0) (remove tid_eqb th (threads st))
                  (fun _ code0 => csum_nonneg (tok_i c) code0 (tok_i_nonneg c))) as Hnn.
    assert (Hc : 1 <= csum (tok_i c) code).
    { clear - Hj Ht. induction code as [|a r IH]; [contradiction|]. cbn. destruct Hj as [->|Hj].
      - pose proof (csum_nonneg (tok_i c) r (tok_i_nonneg c)). lia.
      - specialize (IH Hj). pose proof (tok_i_nonneg c a). lia. }
    cbn beta in Hr. lia. }
  pose proof (asum_nonneg (item_tok c) (items st) (item_tok_nonneg c)) as H2.
  pose proof (ends_nonneg c (cblog st)) as H3.
  unfold started, b2z in Htot. destruct ((1 <=? c) && (c <? next_call st)); lia.
Qed.

Lemma ends_zero_item : forall st c t it, Inv st -> In (t, it) (items st) -> it_call it = c -> it_orig it = true -> it_tomb it = false ->
  ends c (cblog st) = 0.
Proof.
  intros st c t it HI Hin Hc Ho Ht. pose proof (inv_total _ HI c) as Htot. unfold total in Htot.
  assert (H1 : 1 <= asum (item_tok c) (items st)).
  { pose proof (in_lookup key_eqb key_eqb_ok _ _ _ (inv_items_nd _ HI) Hin) as Hl.
    pose proof (asum_remove_some key_eqb key_eqb_ok (item_tok c) t it (items st) (inv_items_nd _ HI) Hl) as Hr.
    pose proof (asum_nonneg (item_tok c) (kremove t (items st)) (item_tok_nonneg c)) as Hnn.
    assert (Hi : item_tok c t it = 1). { unfold item_tok. rewrite Hc, Z.eqb_refl, Ho, Ht. reflexivity. }
    lia. }
  pose proof (tsum_nonneg (tok_i c) (threads st) (tok_i_nonneg c)) as H2.
  pose proof (ends_nonneg c (cblog st)) as H3.
  unfold started, b2z in Htot. destruct ((1 <=? c) && (c <? next_call st)); lia.
Qed.

Lemma ends_zero_fresh : forall st, Inv st -> ends (next_call st) (cblog st) = 0.
Proof.
  intros st HI. pose proof (inv_total _ HI (next_call st)) as Htot. unfold total in Htot.
  pose proof (tsum_nonneg (tok_i (next_call st)) (threads st) (tok_i_nonneg _)) as H2.
  pose proof (asum_nonneg (item_tok (next_call st)) (items st) (item_tok_nonneg _)) as H1.
  pose proof (ends_nonneg (next_call st) (cblog st)) as H3.
  unfold started, b2z in Htot. rewrite Z.ltb_irrefl, andb_false_r in Htot. lia.
Qed.

Lemma after_sent_reporter : forall r c j, In j (after_sent r) -> reporter c j = true -> r_call r = c.
Proof.
  intros r c j Hj Hr. unfold after_sent in Hj. apply in_app_or in Hj. destruct Hj as [Hj|Hj].
  - destruct (fin_of (r_f r)); [|contradiction]. destruct Hj as [<-|[]]. discriminate.
  - destruct (0 <? r_more r); [|contradiction]. destruct Hj as [<-|[<-|[]]]; cbn in Hr.
    + apply andb_true_iff in Hr. destruct Hr as [Hr _]. apply Z.eqb_eq in Hr. exact Hr.
    + apply Z.eqb_eq in Hr. exact Hr.
Qed.

(* every reporter the step pushes concerns a call whose End has not been logged (before the step) *)
Lemma pushed_reporter : forall cf st th i rest room st1 pushed c j,
  Inv st -> SInv st -> lookup tid_eqb th (threads st) = Some (i :: rest) ->
  calm_step st (LStep th room) -> exec cf st i room = (st1, pushed) ->
  In j pushed -> reporter c j = true -> ends c (cblog st) = 0.
Proof.
  intros cf st th i rest room st1 pushed c j HI [_ HS] Hl Hcalm H Hj Hr.
  pose proof (lookup_in tid_eqb tid_eqb_ok _ _ _ Hl) as Hin0.
  assert (Hpop : reporter c i = true -> ends c (cblog st) = 0).
  { intro Hri. destruct (Z_lt_le_dec (ends c (cblog st)) 1) as [Hlt|Hge].
    - pose proof (ends_nonneg c (cblog st)). lia.
    - rewrite (HS c Hge th _ i Hin0 (or_introl eq_refl)) in Hri. discriminate. }
  assert (Htokpop : 1 <= tok_i c i -> ends c (cblog st) = 0).
  { intro Ht. eapply ends_zero_thread; [exact HI|exact Hin0|left; reflexivity|exact Ht]. }
  unfold calm_step in Hcalm. rewrite Hl in Hcalm.
  destruct i; cbn [exec] in H.
  - (* IStart *)
    assert (Hc : c = next_call st -> ends c (cblog st) = 0) by (intros ->; apply ends_zero_fresh; exact HI).
    destruct (e_start e =? 0).
    + inversion H; subst st1 pushed. destruct Hj as [<-|[]]. cbn in Hr. apply Z.eqb_eq in Hr. apply Hc. symmetry. exact Hr.
    + inversion H; subst st1 pushed. clear H. in_cases Hj; cbn in Hr; rewrite ?andb_false_r, ?andb_true_r in Hr; try discriminate.
      apply Z.eqb_eq in Hr. apply Hc. symmetry. exact Hr.
  - (* ICanHandle *)
    assert (Hc : c0 = c -> ends c (cblog st) = 0) by (intros ->; apply Htokpop; cbn; rewrite Z.eqb_refl; cbn; lia).
    destruct (c_state (get_conn st k) =? c_connectionActive); inversion H; subst st1 pushed; clear H; in_cases Hj; cbn in Hr; rewrite ?andb_false_r, ?andb_true_r in Hr; try discriminate;
      apply Z.eqb_eq in Hr; apply Hc; exact Hr.
  - (* IGetDest *)
    assert (Hc : c0 = c -> ends c (cblog st) = 0) by (intros ->; apply Htokpop; cbn; rewrite Z.eqb_refl; cbn; lia).
    destruct (klookup (k, 0, f_id f) (items st)); [|destruct (e_dest e =? -1); [|destruct (e_dest e <? 0)]];
      inversion H; subst st1 pushed; clear H; in_cases Hj; cbn in Hr; rewrite ?andb_false_r, ?andb_true_r in Hr; try discriminate;
      apply Z.eqb_eq in Hr; apply Hc; exact Hr.
  - (* IRemoteCan *)
    assert (Hc : c0 = c -> ends c (cblog st) = 0) by (intros ->; apply Htokpop; cbn; rewrite Z.eqb_refl; cbn; lia).
    destruct (c_state (get_conn st d) =? c_connectionActive); inversion H; subst st1 pushed; clear H; in_cases Hj; cbn in Hr; rewrite ?andb_false_r, ?andb_true_r in Hr; try discriminate;
      apply Z.eqb_eq in Hr; apply Hc; exact Hr.
  - (* IAddDest *)
    assert (Hc : c0 = c -> ends c (cblog st) = 0) by (intros ->; apply Htokpop; cbn; rewrite Z.eqb_refl; cbn; lia).
    unfold timer_new in H. cbn [fst snd] in H. inversion H; subst st1 pushed; clear H. destruct Hj as [<-|[]]. cbn in Hr.
    apply Z.eqb_eq in Hr. apply Hc. exact Hr.
  - (* IAddOrig *)
    assert (Hc : c0 = c -> ends c (cblog st) = 0) by (intros ->; apply Htokpop; cbn; rewrite Z.eqb_refl; cbn; lia).
    unfold timer_new in H. cbn [fst snd] in H. inversion H; subst st1 pushed; clear H. in_cases Hj; cbn in Hr; rewrite ?andb_false_r, ?andb_true_r in Hr; try discriminate;
      apply Z.eqb_eq in Hr; apply Hc; exact Hr.
  - inversion H; subst st1 pushed. contradiction.
  - inversion H; subst st1 pushed. destruct Hj as [<-|[]]. discriminate.
  - match type of H with (if ?b then _ else _) = _ => destruct b end; inversion H; subst st1 pushed; contradiction.
  - destruct ((c_state (get_conn st k) =? c_connectionClosed) || negb room); inversion H; subst st1 pushed; contradiction.
  - destruct (c_state (get_conn st k) =? c_connectionActive); inversion H; subst st1 pushed; contradiction.
  - (* INcGet *)
    destruct (frameTypeFor (f_mt f)) as [ft|] eqn:Eft; [|inversion H; subst st1 pushed; contradiction].
    match type of H with context [items_get ?a ?b ?cc] => destruct (items_get a b cc) as [st' g] eqn:E end.
    inversion H; subst st1 pushed; clear H. destruct Hj as [<-|[]]. cbn in Hr.
    apply items_get_spec in E. destruct E as [_ Em].
    destruct (klookup (k, (if ft =? c_responseFrame then 1 else 0), f_id f) (items st)) as [it|] eqn:El.
    + destruct Em as [b ->]. apply andb_true_iff in Hr. destruct Hr as [Hc Hnt]. apply Z.eqb_eq in Hc. subst c.
      apply negb_true_iff in Hnt. eapply (Hcalm ft it eq_refl El Hnt).
    + subst g. discriminate.
  - (* INcChk *)
    destruct g as [[it stopped]|]; [|inversion H; subst st1 pushed; contradiction].
    destruct (it_tomb it || (fin_of f && negb stopped)) eqn:Echk; inversion H; subst st1 pushed; clear H; [contradiction|].
    apply orb_false_iff in Echk. destruct Echk as [Et _].
    assert (Hc : it_call it = c -> ends c (cblog st) = 0).
    { intros <-. apply Hpop. cbn. rewrite Z.eqb_refl, Et. reflexivity. }
    in_cases Hj; cbn in Hr; try (apply andb_true_iff in Hr; destruct Hr as [Hr _]); apply Z.eqb_eq in Hr; apply Hc; exact Hr.
  - (* IRcvGet *)
    match type of H with context [items_get ?a ?b ?cc] => destruct (items_get a b cc) as [st' g] eqn:E end.
    inversion H; subst st1 pushed; clear H. destruct Hj as [<-|[]]. cbn in Hr. apply orb_true_iff in Hr. destruct Hr as [Hr|Hr].
    + apply Hpop. cbn. exact Hr.
    + apply items_get_spec in E. destruct E as [_ Em].
      destruct (klookup (r_d r, (if r_ft r =? c_requestFrame then 1 else 0), f_id (r_f r)) (items st)) as [it|] eqn:El.
      * destruct Em as [b ->]. apply andb_true_iff in Hr. destruct Hr as [Hc Hnt]. apply Z.eqb_eq in Hc. subst c.
        apply negb_true_iff in Hnt. eapply (Hcalm it eq_refl Hnt).
      * subst g. discriminate.
  - (* IRcvChk *)
    assert (Hc : r_call r = c -> ends c (cblog st) = 0).
    { intros <-. apply Hpop. cbn. rewrite Z.eqb_refl. reflexivity. }
    destruct g as [[it stopped]|].
    + destruct (it_tomb it || (fin_of (r_f r) && negb stopped)) eqn:Echk; inversion H; subst st1 pushed; clear H.
      * apply Hc. eapply after_sent_reporter; eassumption.
      * apply orb_false_iff in Echk. destruct Echk as [Et _].
        assert (Hc2 : it_call it = c -> ends c (cblog st) = 0).
        { intros <-. apply Hpop. cbn. rewrite Z.eqb_refl, Et. cbn. apply orb_true_r. }
        apply in_app_or in Hj. destruct Hj as [Hj|[<-|[]]].
        -- in_cases Hj; cbn in Hr; try discriminate; try (apply andb_true_iff in Hr; destruct Hr as [Hr _]); apply Z.eqb_eq in Hr; apply Hc2; exact Hr.
        -- cbn in Hr. apply Z.eqb_eq in Hr. apply Hc. exact Hr.
    + inversion H; subst st1 pushed; clear H. in_cases Hj; cbn in Hr; rewrite ?andb_false_r in Hr; discriminate.
  - (* IRcvEnq *)
    assert (Hc : r_call r = c -> ends c (cblog st) = 0).
    { intros <-. apply Hpop. cbn. apply Z.eqb_refl. }
    destruct room; inversion H; subst st1 pushed; clear H.
    + apply in_app_or in Hj. destruct Hj as [Hj|Hj]; [in_cases Hj; cbn in Hr; rewrite ?andb_false_r in Hr; discriminate|].
      apply Hc. eapply after_sent_reporter; eassumption.
    + in_cases Hj; cbn in Hr; rewrite ?andb_false_r in Hr; discriminate.
  - (* IFailGet *)
    destruct (items_get st t true) as [st' g] eqn:E. destruct g as [[it [|]]|]; inversion H; subst st1 pushed; try contradiction.
    destruct Hj as [<-|[]]. discriminate.
  - (* IEntomb *)
    destruct (items_entomb cf st t) as [st' g] eqn:E.
    apply items_entomb_spec in E. destruct E as (_&_&_&_&_&_&E).
    destruct g as [[it [|]]|]; inversion H; subst st1 pushed; try contradiction. clear H.
    destruct (klookup t (items st)) as [it0|] eqn:El; [|destruct E as [E _]; discriminate].
    pose proof (lookup_in key_eqb key_eqb_ok _ _ _ El) as Hin.
    assert (Horig : match s with FromFail _ => it_orig it0 | FromTimeout o => o end = it_orig it0).
    { destruct s as [r0|o]; [reflexivity|]. destruct (inv_code _ HI _ _ Hin0) as [Hf _]. inversion Hf as [|? ? Hi _]. subst.
      unfold iok in Hi. cbn in Hi. subst o. symmetry. eapply (inv_orig _ HI). exact Hin. }
    assert (Hcase : it_call it = it_call it0 /\ it_orig it = it_orig it0 /\ it_tomb it0 = false).
    { destruct E as [(Hg&_)|[(_&Hg&_)|(Ht&Hg&_)]]; inversion Hg; subst.
      - repeat split. destruct (it_tomb it0); [discriminate|reflexivity].
      - repeat split. exact Ht. }
    destruct Hcase as (Hcall&Hor&Hnt).
    apply in_app_or in Hj. destruct Hj as [Hj|[<-|[]]]; [|discriminate].
    rewrite Hor in *. rewrite Horig in Hj. destruct (it_orig it0) eqn:Eo; [|contradiction].
    assert (Hcc : it_call it = c).
    { unfold orig_tail in Hj. destruct s; in_cases Hj; cbn in Hr; try discriminate;
        apply andb_true_iff in Hr; destruct Hr as [Hr _]; apply Z.eqb_eq in Hr; exact Hr. }
    eapply ends_zero_item; [exact HI|exact Hin|congruence|exact Eo|exact Hnt].
  - (* IDelete *)
    destruct (items_delete_call st t lk) as [st' g] eqn:E. destruct g as [[it [|]]|]; inversion H; subst st1 pushed; try contradiction.
    in_cases Hj; cbn in Hr; rewrite ?andb_false_r in Hr; discriminate.
  - (* ITimerRun *)
    destruct (zlookup tm (timers st)) as [x|]; [|inversion H; subst st1 pushed; contradiction].
    destruct (tm_released x); inversion H; subst st1 pushed; try contradiction. destruct Hj as [<-|[]]. discriminate.
Qed.

Lemma exec_cblog : forall cf st i room st1 pushed, exec cf st i room = (st1, pushed) ->
  threads st1 = threads st /\
  cblog st1 = match i with ICb c x => (c, x) :: cblog st | _ => cblog st end.
Proof.
  intros cf st i room st1 pushed H. destruct i; cbn [exec] in H.
  - destruct (e_start e =? 0); [inversion H; split; reflexivity|].
    destruct ((e_start e =? 1) || (e_start e =? 3)); inversion H; split; reflexivity.
  - destruct (c_state (get_conn st k) =? c_connectionActive); inversion H; split; reflexivity.
  - destruct (klookup (k, 0, f_id f) (items st)); [inversion H; split; reflexivity|].
    destruct (e_dest e =? -1); [inversion H; split; reflexivity|]. destruct (e_dest e <? 0); inversion H; split; reflexivity.
  - destruct (c_state (get_conn st d) =? c_connectionActive); inversion H; split; reflexivity.
  - unfold timer_new in H. cbn [fst snd] in H. inversion H. split; reflexivity.
  - unfold timer_new in H. cbn [fst snd] in H. inversion H. split; reflexivity.
  - inversion H. split; reflexivity.
  - inversion H. split; reflexivity.
  - match type of H with (if ?b then _ else _) = _ => destruct b end; inversion H; split; reflexivity.
  - destruct ((c_state (get_conn st k) =? c_connectionClosed) || negb room); inversion H; split; reflexivity.
  - destruct (c_state (get_conn st k) =? c_connectionActive); inversion H; split; reflexivity.
  - destruct (frameTypeFor (f_mt f)); [|inversion H; split; reflexivity].
    match type of H with context [items_get ?a ?b ?cc] => destruct (items_get a b cc) as [st' g] eqn:E end.
    inversion H; subst. apply items_get_spec in E. destruct E as [(_&_&_&A&B&_) _]. split; assumption.
  - destruct g as [[it stopped]|]; [|inversion H; split; reflexivity].
    destruct (it_tomb it || (fin_of f && negb stopped)); inversion H; split; reflexivity.
  - match type of H with context [items_get ?a ?b ?cc] => destruct (items_get a b cc) as [st' g] eqn:E end.
    inversion H; subst. apply items_get_spec in E. destruct E as [(_&_&_&A&B&_) _]. split; assumption.
  - destruct g as [[it stopped]|]; [|inversion H; split; reflexivity].
    destruct (it_tomb it || (fin_of (r_f r) && negb stopped)); inversion H; split; reflexivity.
  - destruct room; inversion H; split; reflexivity.
  - destruct (items_get st t true) as [st' g] eqn:E. apply items_get_spec in E. destruct E as [(_&_&_&A&B&_) _].
    destruct g as [[it [|]]|]; inversion H; subst; split; assumption.
  - destruct (items_entomb cf st t) as [st' g] eqn:E. apply items_entomb_spec in E. destruct E as (_&A&B&_).
    destruct g as [[it [|]]|]; inversion H; subst; split; assumption.
  - destruct (items_delete_call st t lk) as [st' g] eqn:E. apply items_delete_call_spec in E. destruct E as (_&_&A&B&_).
    destruct g as [[it [|]]|]; inversion H; subst; split; assumption.
  - destruct (zlookup tm (timers st)) as [x|]; [|inversion H; split; reflexivity].
    destruct (tm_released x); inversion H; split; reflexivity.
Qed.

Lemma ends_app_end : forall c e l1 l2, cb_is_end e = true -> 1 <= ends c (l1 ++ (c, e) :: l2).
Proof.
  intros c e l1 l2 He. induction l1 as [|q r IH]; cbn.
  - unfold is_end. cbn. rewrite Z.eqb_refl. destruct e; try discriminate. pose proof (ends_nonneg c l2). lia.
  - assert (0 <= is_end c q) by (unfold is_end; destruct (snd q); try lia; destruct (fst q =? c); lia). lia.
Qed.

Lemma silent_cons : forall log c x, silent_after_end cb_is_end log -> ends c log = 0 ->
  silent_after_end cb_is_end ((c, x) :: log).
Proof.
  intros log c x Hs Hz c0 later earlier e Heq He e' Hin.
  destruct later as [|p later']; [contradiction|].
  cbn in Heq. inversion Heq as [[Hp Hlog]]. subst p.
  destruct Hin as [Hin|Hin].
  - inversion Hin. subst c0 e'. pose proof (ends_app_end c e later' earlier He) as Hpos. rewrite <- Hlog in Hpos. lia.
  - eapply Hs; [exact Hlog|exact He|exact Hin].
Qed.

Lemma SInv_new_thread : forall st th code, SInv st -> (forall c j, In j code -> reporter c j = false) ->
  SInv (set_thread st th code).
Proof.
  intros st th code [Hs HS] Hc. split; [exact Hs|].
  intros c Hge th' code' j Hin Hj. apply set_thread_in in Hin. destruct Hin as [[-> ->]|[_ Hin]].
  - apply Hc. exact Hj.
  - eapply HS; eassumption.
Qed.

Lemma step_sinv : forall cf st l st', Inv st -> SInv st -> calm_step st l -> step cf st l = Some st' -> SInv st'.
Proof.
  intros cf st l st' HI HS Hcalm H. destruct l as [k f e|th room|tm|t|k|k|k].
  - unfold step in H. destruct (negb (panicked st =? 0)); [discriminate|].
    destruct (lookup tid_eqb (TR k) (threads st)); [discriminate|].
    destruct (relayRoute (f_mt f) (cf_cancel cf) =? 1); [|inversion H; subst; exact HS].
    destruct (f_mt f =? c_messageTypeCallReq); inversion H; subst.
    + apply (SInv_new_thread (set_seen st ((k, f_id f) :: seen st))); [exact HS|]. intros c j [<-|[]]. reflexivity.
    + apply SInv_new_thread; [exact HS|]. intros c j [<-|[]]. reflexivity.
  - (* LStep *)
    unfold step in H. destruct (negb (panicked st =? 0)); [discriminate|].
    destruct (lookup tid_eqb th (threads st)) as [[|i rest]|] eqn:El; try discriminate.
    destruct (exec cf st i room) as [st1 pushed] eqn:E. inversion H. subst st'. clear H.
    destruct (exec_cblog _ _ _ _ _ _ E) as [Hth Hlog].
    pose proof (lookup_in tid_eqb tid_eqb_ok _ _ _ El) as Hin0.
    assert (Hpushed0 : forall c j, In j pushed -> reporter c j = true -> ends c (cblog st) = 0).
    { intros c j Hj Hr. eapply pushed_reporter; [exact HI|exact HS|exact El|exact Hcalm|exact E|exact Hj|exact Hr]. }
    destruct HS as [Hs HS0].
    assert (Hkeep : forall c, 1 <= ends c (cblog st) ->
              forall th' code j, In (th', code) (threads (set_thread st1 th (pushed ++ rest))) -> In j code ->
                (th' = th /\ In j pushed) \/ reporter c j = false).
    { intros c Hge th' code j Hin Hj. apply set_thread_in in Hin. destruct Hin as [[-> ->]|[_ Hin]].
      - apply in_app_or in Hj. destruct Hj as [Hj|Hj]; [left; split; [reflexivity|exact Hj]|right].
        eapply (HS0 c Hge th (i :: rest) j Hin0). right. exact Hj.
      - right. rewrite Hth in Hin. eapply (HS0 c Hge); eassumption. }
    destruct (match i with ICb _ _ => true | _ => false end) eqn:Eicb.
    + destruct i; try discriminate. clear Eicb. cbn [exec] in E. inversion E. subst st1 pushed. clear E.
      assert (Hz : ends c (cblog st) = 0).
      { destruct (cb_is_end x) eqn:Ex.
        - destruct x; try discriminate. eapply ends_zero_thread; [exact HI|exact Hin0|left; reflexivity|].
          cbn. rewrite Z.eqb_refl. cbn. lia.
        - destruct (Z_lt_le_dec (ends c (cblog st)) 1) as [Hlt|Hge]; [pose proof (ends_nonneg c (cblog st)); lia|].
          pose proof (HS0 c Hge th _ _ Hin0 (or_introl eq_refl)) as Hr. cbn in Hr. rewrite Z.eqb_refl, Ex in Hr. discriminate. }
      split.
      * cbn [log_cb set_cblog set_thread set_threads cblog]. apply silent_cons; assumption.
      * intros c0 Hge th' code j Hin Hj. cbn [log_cb set_cblog set_thread set_threads cblog] in Hge.
        cbn [ends] in Hge. unfold is_end in Hge. cbn [fst snd] in Hge.
        assert (Hcase : (c = c0 /\ cb_is_end x = true) \/ 1 <= ends c0 (cblog st)).
        { destruct x; try (right; lia). destruct (c =? c0) eqn:Ec; [left; apply Z.eqb_eq in Ec; split; [exact Ec|reflexivity]|right; lia]. }
        destruct Hcase as [[<- Hx]|Hge0].
        -- unfold calm_step in Hcalm. rewrite El in Hcalm. destruct x; try discriminate.
           apply set_thread_in in Hin. cbn [app] in Hin. destruct Hin as [[-> ->]|[_ Hin]].
           ++ eapply (Hcalm th _ j Hin0). right. exact Hj.
           ++ eapply Hcalm; eassumption.
        -- destruct (Hkeep c0 Hge0 th' code j Hin Hj) as [[_ []]|Hr]. exact Hr.
    + assert (Hsame : cblog st1 = cblog st) by (rewrite Hlog; destruct i; try reflexivity; discriminate).
      split.
      * cbn [set_thread set_threads cblog]. rewrite Hsame. exact Hs.
      * intros c Hge1 th' code j Hin Hj. cbn [set_thread set_threads cblog] in Hge1. rewrite Hsame in Hge1.
        destruct (Hkeep c Hge1 th' code j Hin Hj) as [[_ Hp]|Hr]; [|exact Hr].
        destruct (reporter c j) eqn:Er; [|reflexivity]. rewrite (Hpushed0 c j Hp Er) in Hge1. lia.
  - (* LFire *)
    unfold step in H. destruct (negb (panicked st =? 0)); [discriminate|].
    destruct (zlookup tm (timers st)) as [x|]; [|discriminate].
    destruct (tm_armed x && match lookup tid_eqb (TT tm) (threads st) with None => true | Some _ => false end); [|discriminate].
    inversion H. subst. apply (SInv_new_thread (set_timers st _)); [exact HS|]. intros c j [<-|[]]. reflexivity.
  - unfold step in H. destruct (negb (panicked st =? 0)); [discriminate|].
    destruct (mem_key t (gcs st)); [|discriminate]. inversion H. subst.
    destruct (items_delete_tomb_spec (set_gcs st (remove_one t (gcs st))) t) as (_&_&A&B&_).
    destruct HS as [Hs HS0]. split.
    + rewrite B. exact Hs.
    + intros c Hge. rewrite B in Hge. rewrite A. apply (HS0 c Hge).
  - unfold step in H. destruct (negb (panicked st =? 0)); [discriminate|].
    destruct (c_state (get_conn st k) =? c_connectionActive); [|discriminate]. inversion H. subst. exact HS.
  - unfold step in H. destruct (negb (panicked st =? 0)); [discriminate|]. inversion H. subst. exact HS.
  - unfold step in H. destruct (negb (panicked st =? 0)); [discriminate|].
    match type of H with (if ?b then _ else _) = _ => destruct b end; [|discriminate]. inversion H. subst. exact HS.
Qed.

Theorem silent_after_end_partial_lemma : forall cf ls st,
  run_fresh cf init ls = Some st -> calm_run cf init ls -> silent_after_end cb_is_end (cblog st).
Proof.
  intros cf ls.
  assert (G : forall st0 st, Inv st0 -> SInv st0 -> run_fresh cf st0 ls = Some st -> calm_run cf st0 ls -> SInv st).
  { induction ls as [|l r IH]; intros st0 st HI HS H Hc; cbn in H.
    - inversion H. subst. exact HS.
    - destruct (fresh_label st0 l) eqn:Ef; [|discriminate]. destruct (step cf st0 l) as [st1|] eqn:Es; [|discriminate].
      cbn in Hc. rewrite Es in Hc. destruct Hc as [Hc1 Hc2].
      eapply IH; [eapply step_inv; eassumption|eapply step_sinv; eassumption|exact H|exact Hc2]. }
  intros st H Hc. eapply G; [apply Inv_init| |exact H|exact Hc].
  split.
  - intros c later earlier e Heq. destruct later; discriminate.
  - intros c _ th code j [].
Qed.

(* ---- a decidable form of the calm hypothesis (used for the non-vacuity example) ---- *)

Definition calm_stepb (st : state) (l : label) : bool :=
  match l with
  | LStep th _ =>
      match lookup tid_eqb th (threads st) with
      | Some (ICb c CbEnd :: _) => forallb (fun p => forallb (fun j => negb (reporter c j)) (snd p)) (threads st)
      | Some (INcGet k f :: _) =>
          match frameTypeFor (f_mt f) with
          | Some ft => match klookup (k, (if ft =? c_responseFrame then 1 else 0), f_id f) (items st) with
                       | Some it => it_tomb it || (ends (it_call it) (cblog st) =? 0)
                       | None => true
                       end
          | None => true
          end
      | Some (IRcvGet r :: _) =>
          match klookup (r_d r, (if r_ft r =? c_requestFrame then 1 else 0), f_id (r_f r)) (items st) with
          | Some it => it_tomb it || (ends (it_call it) (cblog st) =? 0)
          | None => true
          end
      | _ => true
      end
  | _ => true
  end.

Fixpoint calm_runb (cf : config) (st : state) (ls : list label) : bool :=
  match ls with
  | [] => true
  | l :: r => calm_stepb st l && match step cf st l with Some st' => calm_runb cf st' r | None => true end
  end.

Lemma calm_stepb_ok : forall st l, calm_stepb st l = true -> calm_step st l.
Proof.
  intros st l H. destruct l as [| th room | | | | |]; try exact I. unfold calm_stepb in H. unfold calm_step.
  destruct (lookup tid_eqb th (threads st)) as [[|i rest]|]; try exact I. destruct i; try exact I.
  - destruct x; try exact I. intros th' code j Hin Hj. rewrite forallb_forall in H. specialize (H _ Hin). cbn in H.
    rewrite forallb_forall in H. specialize (H _ Hj). apply negb_true_iff in H. exact H.
  - intros ft it Hft Hl Hnt. rewrite Hft, Hl, Hnt in H. cbn in H. apply Z.eqb_eq in H. exact H.
  - intros it Hl Hnt. rewrite Hl, Hnt in H. cbn in H. apply Z.eqb_eq in H. exact H.
Qed.

Lemma calm_runb_ok : forall cf ls st, calm_runb cf st ls = true -> calm_run cf st ls.
Proof.
  intros cf ls. induction ls as [|l r IH]; intros st H; cbn in *; [exact I|].
  apply andb_true_iff in H. destruct H as [H1 H2]. split; [apply calm_stepb_ok; exact H1|].
  destruct (step cf st l); [apply IH; exact H2|exact I].
Qed.

(* a complete, calm relayed call: request, two-frame response, everything in program order *)
Definition wit_res_last : frame := {| f_mt := c_messageTypeCallResContinue; f_id := 1; f_flags := 0; f_code := 0; f_wf := true |}.
Definition calm_example : list label :=
  [LArrive 0 wit_req wit_env] ++ repeat (LStep (TR 0) true) 10 ++
  [LArrive 1 wit_res_more wit_env] ++ repeat (LStep (TR 1) true) 8 ++
  [LArrive 1 wit_res_last wit_env] ++ repeat (LStep (TR 1) true) 13.
