(* Relay model: the NO-OVERLAP condition on schedules (shared by C09 and C10) and the derivation
   of C09 "nothing is reported after End" from it.

   A goroutine of the relay (the reader of a connection handling one frame, or the goroutine
   of a fired relay timer) ACTS ON call c when
     - a relayItems operation it performs (Get in handleNonCallReq / Receive / failRelayItem,
       Entomb, Delete) hits a live (non-tombstone) item of c, or
     - it is the OnTimer goroutine created by the firing of the timer of a live item of c.
   From that moment until it has finished handling its frame (its code is exhausted) it HOLDS c:
   it may hold a looked-up copy of c's item.  [held] is this ghost relation; it is a function of
   the schedule alone ([held_next]).

   [no_overlap cf ls]: in the schedule ls no goroutine acts on a call that another goroutine
   holds, i.e. no timer of c fires and no other reader touches c while a goroutine holds a
   looked-up copy of c's item.
   [calm cf ls] = no_overlap + [whole]: whenever a Get (handleNonCallReq / Receive) returns a
   live item of call c, the ORIGINATING item of c is still live (no frame of a call is processed
   between the timeout of its originating item and the timeout of its destination item).
   The schedules excluded by [calm] are exactly the schedule classes of the known findings
   relay:nonfinal-frame-vs-timer:report-after-End and relay:response-frame-after-timeout-error. *)
From Coq Require Import ZArith List Bool Lia.
From Verif Require Import Base.Wrap Gen.GenConsts Gen.GenFrame Model.RelayItems Spec.RelayAccount
  Model.RelayCalm Proofs.RelayAssocP Proofs.RelayCoreP Proofs.RelayInv9P Proofs.RelayTimerP Proofs.RelayThmP Proofs.RelaySilentP.
Import ListNotations.
Local Open Scope Z_scope.

Lemma sched_weaken : forall cf (c1 c2 : state -> held -> label -> bool), (forall st h l, c1 st h l = true -> c2 st h l = true) ->
  forall ls st h, sched cf c1 st h ls = true -> sched cf c2 st h ls = true.
Proof.
  intros cf c1 c2 Hw ls. induction ls as [|l r IH]; intros st h H; cbn in *; [reflexivity|].
  apply andb_true_iff in H. destruct H as [H1 H2]. rewrite (Hw _ _ _ H1). cbn.
  destruct (step cf st l); [apply IH; exact H2|reflexivity].
Qed.

Lemma calm_no_overlap : forall cf ls, calm cf ls -> no_overlap cf ls.
Proof.
  intros cf ls. apply sched_weaken. intros st h l H. unfold calm_chk in H. apply andb_true_iff in H. tauto.
Qed.

(* ---------------------------------------------------------------- syntactic facts about code *)

(* instruction j carries call c (a callback for c, an admission step of c, a looked-up live
   copy of an item of c, a Receive on behalf of c) *)
Definition oncall (c : Z) (j : instr) : bool :=
  match j with
  | ICb c' _ => c' =? c
  | ICanHandle _ _ _ c' | IGetDest _ _ _ c' | IRemoteCan _ _ _ c' _ | IAddDest _ _ _ c' _ | IAddOrig _ _ _ c' _ _ => c' =? c
  | INcChk _ _ _ _ (Some (it, _)) => (it_call it =? c) && negb (it_tomb it)
  | IRcvGet r | IRcvEnq r _ _ => r_call r =? c
  | IRcvChk r _ g =>
      (r_call r =? c) || match g with Some (it, _) => (it_call it =? c) && negb (it_tomb it) | None => false end
  | _ => false
  end.

Lemma reporter_oncall : forall c j, reporter c j = true -> oncall c j = true.
Proof.
  intros c j H. destruct j; cbn in *; try discriminate; try exact H.
  apply andb_true_iff in H. tauto.
Qed.

(* instructions that report nothing but End *)
Definition quiet (j : instr) : bool :=
  match j with
  | IDec _ | ICheck _ | ISendErr _ _ _ | IConnClose _ | IDelete _ _ | IFailGet _ _ | IEntomb _ _ => true
  | ICb _ x => cb_is_end x
  | _ => false
  end.

(* instructions after which (in program order) only quiet ones follow *)
Definition opener (j : instr) : bool :=
  match j with
  | IDec _ | ICheck _ | ISendErr _ _ _ | IConnClose _ => false
  | ICb _ x => cb_is_end x
  | _ => true
  end.

(* a fragment sender with fragments left is sending a non-final frame *)
Definition rcv_good (r : rcv) : bool := negb (0 <? r_more r) || negb (fin_of (r_f r)).
Definition instr_good (j : instr) : bool :=
  match j with IRcvGet r | IRcvChk r _ _ | IRcvEnq r _ _ => rcv_good r | _ => true end.

Fixpoint shape (code : list instr) : bool :=
  match code with
  | [] => true
  | j :: r => instr_good j && (if opener j then forallb quiet r else true) && shape r
  end.

Lemma quiet_no_reporter : forall c j, quiet j = true -> reporter c j = false.
Proof.
  intros c j H. destruct j; cbn in *; try discriminate; try reflexivity.
  rewrite H. apply andb_false_r.
Qed.

Lemma quiet_good : forall j, quiet j = true -> instr_good j = true.
Proof. intros j H. destruct j; cbn in *; try discriminate; reflexivity. Qed.

Lemma forallb_tail : forall (A : Type) (p : A -> bool) a l, forallb p (a :: l) = true -> forallb p l = true.
Proof. intros A p a l H. cbn in H. apply andb_true_iff in H. tauto. Qed.

Lemma shape_quiet : forall R, forallb quiet R = true -> shape R = true.
Proof.
  induction R as [|j r IH]; intro H; cbn; [reflexivity|].
  cbn in H. apply andb_true_iff in H. destruct H as [Hj Hr].
  rewrite (quiet_good _ Hj), (IH Hr), Hr. destruct (opener j); reflexivity.
Qed.

Lemma shape_app_quiet : forall P R, forallb quiet R = true -> shape (P ++ R) = shape P.
Proof.
  intros P R HR. induction P as [|j r IH]; cbn; [apply shape_quiet; exact HR|].
  rewrite IH. rewrite forallb_app, HR, andb_true_r. reflexivity.
Qed.

Lemma shape_head : forall i R, shape (i :: R) = true ->
  instr_good i = true /\ shape R = true /\ (opener i = true -> forallb quiet R = true).
Proof.
  intros i R H. cbn in H. apply andb_true_iff in H. destruct H as [H H3]. apply andb_true_iff in H. destruct H as [H1 H2].
  repeat split; try assumption. intro Ho. rewrite Ho in H2. exact H2.
Qed.

Lemma rcv_good_req : forall d id cont more ft own c m,
  rcv_good {| r_d := d; r_f := req_frame id cont more; r_ft := ft; r_own := own; r_call := c; r_more := m |} = true.
Proof.
  intros. unfold rcv_good. cbn [r_f r_more]. destruct cont; [rewrite fin_req_frame|rewrite fin_req_frame0]; apply orb_true_r.
Qed.

Lemma after_sent_shape_ok : forall r, rcv_good r = true -> shape (after_sent r) = true.
Proof.
  intros r H. unfold after_sent, rcv_good in *.
  destruct (fin_of (r_f r)) eqn:Ef; destruct (0 <? r_more r) eqn:Em; cbn in H; try discriminate; cbn; try reflexivity.
  rewrite rcv_good_req. reflexivity.
Qed.

Lemma exec_shape : forall cf st i room st1 pushed, exec cf st i room = (st1, pushed) -> instr_good i = true ->
  shape pushed = true /\ (opener i = false -> forall j, In j pushed -> exists k, j = ICheck k).
Proof.
  intros cf st i room st1 pushed H Hg. destruct i; cbn [exec] in H; cbn [opener].
  - split; [|discriminate]. destruct (e_start e =? 0); inversion H; subst; [reflexivity|].
    destruct ((e_start e =? 1) || (e_start e =? 3)), ((e_start e =? 1) || (e_start e =? 2)); try reflexivity;
      destruct (e_code e =? c_ErrCodeProtocol); reflexivity.
  - split; [|discriminate]. destruct (c_state (get_conn st k) =? c_connectionActive); inversion H; reflexivity.
  - split; [|discriminate]. destruct (klookup (k, 0, f_id f) (items st)); [inversion H; reflexivity|].
    destruct (e_dest e =? -1); [inversion H; reflexivity|]. destruct (e_dest e <? 0); inversion H; reflexivity.
  - split; [|discriminate]. destruct (c_state (get_conn st d) =? c_connectionActive); inversion H; reflexivity.
  - split; [|discriminate]. unfold timer_new in H. cbn [fst snd] in H. inversion H. reflexivity.
  - split; [|discriminate]. unfold timer_new in H. cbn [fst snd] in H. inversion H.
    destruct (e_mode e <? 0); [reflexivity|]. cbn [shape instr_good opener cb_is_end forallb quiet andb]. rewrite rcv_good_req. reflexivity.
  - inversion H. split; [reflexivity|intros _ j []].
  - inversion H. split; [reflexivity|intros _ j [<-|[]]; eexists; reflexivity].
  - match type of H with (if ?b then _ else _) = _ => destruct b end; inversion H; split; try reflexivity; intros _ j [].
  - destruct ((c_state (get_conn st k) =? c_connectionClosed) || negb room); inversion H; split; try reflexivity; intros _ j [].
  - destruct (c_state (get_conn st k) =? c_connectionActive); inversion H; split; try reflexivity; intros _ j [].
  - split; [|discriminate]. destruct (frameTypeFor (f_mt f)); [|inversion H; reflexivity].
    match type of H with context [items_get ?a ?b ?cc] => destruct (items_get a b cc) as [st' g] end. inversion H. reflexivity.
  - split; [|discriminate]. destruct g as [[it stopped]|]; [|inversion H; reflexivity].
    destruct (it_tomb it || (fin_of f && negb stopped)); inversion H; [reflexivity|].
    destruct ((f_mt f =? c_messageTypeCallRes) && f_wf f), (ft =? c_requestFrame); cbn; unfold rcv_good; cbn; reflexivity.
  - split; [|discriminate]. match type of H with context [items_get ?a ?b ?cc] => destruct (items_get a b cc) as [st' g] end.
    inversion H. cbn. cbn in Hg. rewrite Hg. reflexivity.
  - split; [|discriminate]. cbn in Hg. destruct g as [[it stopped]|]; [|inversion H; reflexivity].
    destruct (it_tomb it || (fin_of (r_f r) && negb stopped)); inversion H; [apply after_sent_shape_ok; exact Hg|].
    destruct ((r_ft r =? c_responseFrame) || (f_mt (r_f r) =? c_messageTypeCancel));
      [destruct (dcsSucceeded _ _ _); [|destruct (0 <? zlen _)]|]; cbn; rewrite Hg; reflexivity.
  - split; [|discriminate]. cbn in Hg. destruct room; inversion H; [|reflexivity].
    pose proof (after_sent_shape_ok r Hg) as Ha. unfold after_sent in *.
    destruct (fin_of (r_f r)) eqn:Ef; cbn [app]; [|exact Ha].
    unfold rcv_good in Hg. rewrite Ef in Hg. cbn in Hg. rewrite orb_false_r in Hg. apply negb_true_iff in Hg. rewrite Hg. reflexivity.
  - split; [|discriminate]. destruct (items_get st t true) as [st' g]. destruct g as [[it [|]]|]; inversion H; reflexivity.
  - split; [|discriminate]. destruct (items_entomb cf st t) as [st' g]. destruct g as [[it [|]]|]; inversion H; try reflexivity.
    destruct (match s with FromFail _ => it_orig it | FromTimeout o => o end); [|reflexivity].
    unfold orig_tail. destruct s; [destruct (reason =? reason_source_slow)|]; reflexivity.
  - split; [|discriminate]. destruct (items_delete_call st t lk) as [st' g]. destruct g as [[it [|]]|]; inversion H; try reflexivity.
    destruct (it_orig it); reflexivity.
  - split; [|discriminate]. destruct (lookup Z.eqb tm (timers st)) as [x|]; [|inversion H; reflexivity].
    destruct (tm_released x); inversion H; reflexivity.
Qed.

Definition Shape (st : state) : Prop := forall th code, In (th, code) (threads st) -> shape code = true.

Lemma exec_threads : forall cf st i room st1 pushed, exec cf st i room = (st1, pushed) -> threads st1 = threads st.
Proof. intros. eapply exec_cblog. eassumption. Qed.

Lemma step_shape : forall cf st l st', Shape st -> step cf st l = Some st' -> Shape st'.
Proof.
  intros cf st l st' HS H. unfold step in H. destruct (negb (panicked st =? 0)); [discriminate|].
  destruct l as [k f e|th room|tm|t|k|k|k].
  - destruct (lookup tid_eqb (TR k) (threads st)); [discriminate|].
    destruct (relayRoute (f_mt f) (cf_cancel cf) =? 1); [|inversion H; subst; exact HS].
    destruct (f_mt f =? c_messageTypeCallReq); inversion H; subst; intros th code Hin;
      apply set_thread_in in Hin; destruct Hin as [[-> ->]|[_ Hin]]; try reflexivity; eapply HS; exact Hin.
  - destruct (lookup tid_eqb th (threads st)) as [[|i rest]|] eqn:El; try discriminate.
    destruct (exec cf st i room) as [st1 pushed] eqn:E. inversion H. subst st'. clear H.
    pose proof (lookup_in tid_eqb tid_eqb_ok _ _ _ El) as Hin0.
    destruct (shape_head _ _ (HS _ _ Hin0)) as (Hg&HR&Hq).
    destruct (exec_shape _ _ _ _ _ _ E Hg) as [Hp Hnil].
    intros th' code Hin. apply set_thread_in in Hin. destruct Hin as [[-> ->]|[_ Hin]].
    + destruct (opener i) eqn:Eo.
      * rewrite (shape_app_quiet _ _ (Hq eq_refl)). exact Hp.
      * rewrite <- HR. clear -Hnil. specialize (Hnil eq_refl). induction pushed as [|j r IH]; [reflexivity|].
        destruct (Hnil j (or_introl eq_refl)) as [kk ->]. cbn. apply IH. intros j0 Hj0. apply Hnil. right. exact Hj0.
    + rewrite (exec_threads _ _ _ _ _ _ E) in Hin. eapply HS. exact Hin.
  - destruct (lookup Z.eqb tm (timers st)) as [x|]; [|discriminate].
    destruct (tm_armed x && match lookup tid_eqb (TT tm) (threads st) with None => true | Some _ => false end); [|discriminate].
    inversion H. subst. intros th code Hin. apply set_thread_in in Hin. destruct Hin as [[-> ->]|[_ Hin]]; [reflexivity|].
    eapply HS. exact Hin.
  - destruct (mem_key t (gcs st)); [|discriminate]. inversion H. subst.
    destruct (items_delete_tomb_spec (set_gcs st (remove_one t (gcs st))) t) as (_&_&A&_).
    intros th code Hin. rewrite A in Hin. eapply HS. exact Hin.
  - destruct (c_state (get_conn st k) =? c_connectionActive); [|discriminate]. inversion H. subst. exact HS.
  - inversion H. subst. exact HS.
  - match type of H with (if ?b then _ else _) = _ => destruct b end; [|discriminate]. inversion H. subst. exact HS.
Qed.

(* ---------------------------------------------------------------- items after one instruction *)



(* ---------------------------------------------------------------- what a step pushes *)

Lemma live_call_in : forall st t it, klookup t (items st) = Some it -> it_tomb it = false -> In (it_call it) (live_call st t).
Proof. intros st t it Hl Ht. unfold live_call. rewrite Hl, Ht. left. reflexivity. Qed.

Lemma after_sent_oncall : forall r c j, In j (after_sent r) -> oncall c j = true -> r_call r = c.
Proof.
  intros r c j Hj Hr. unfold after_sent in Hj. apply in_app_or in Hj. destruct Hj as [Hj|Hj].
  - destruct (fin_of (r_f r)); [|contradiction]. destruct Hj as [<-|[]]. discriminate.
  - destruct (0 <? r_more r); [|contradiction]. destruct Hj as [<-|[<-|[]]]; cbn in Hr; apply Z.eqb_eq in Hr; exact Hr.
Qed.

(* every call-carrying instruction a step pushes carries a call the popped instruction carried,
   or a call the step acted on / created *)
Lemma pushed_oncall : forall cf st i room st1 pushed c j, exec cf st i room = (st1, pushed) ->
  In j pushed -> oncall c j = true -> oncall c i = true \/ In c (touches_i st i ++ creates_i st i).
Proof.
  intros cf st i room st1 pushed c j H Hj Hr. destruct i; cbn [exec] in H.
  - right. cbn [touches_i creates_i app]. destruct (e_start e =? 0) eqn:E0.
    + inversion H; subst. destruct Hj as [<-|[]]. cbn in Hr. apply Z.eqb_eq in Hr. cbn. left. exact Hr.
    + destruct ((e_start e =? 1) || (e_start e =? 3)) eqn:E13.
      * inversion H; subst; clear H. cbn [orb]. rewrite E13.
        in_cases Hj; cbn in Hr; try discriminate; apply Z.eqb_eq in Hr; left; exact Hr.
      * inversion H; subst; clear H. in_cases Hj; cbn in Hr; discriminate.
  - left. destruct (c_state (get_conn st k) =? c_connectionActive); inversion H; subst; clear H; in_cases Hj; cbn in Hr; try discriminate; exact Hr.
  - left. destruct (klookup (k, 0, f_id f) (items st)); [|destruct (e_dest e =? -1); [|destruct (e_dest e <? 0)]];
      inversion H; subst; clear H; in_cases Hj; cbn in Hr; try discriminate; exact Hr.
  - left. destruct (c_state (get_conn st d) =? c_connectionActive); inversion H; subst; clear H; in_cases Hj; cbn in Hr; try discriminate; exact Hr.
  - left. unfold timer_new in H. cbn [fst snd] in H. inversion H; subst. destruct Hj as [<-|[]]. exact Hr.
  - left. unfold timer_new in H. cbn [fst snd] in H. inversion H; subst; clear H. in_cases Hj; cbn in Hr; try discriminate; exact Hr.
  - inversion H; subst. contradiction.
  - inversion H; subst. destruct Hj as [<-|[]]. discriminate.
  - match type of H with (if ?b then _ else _) = _ => destruct b end; inversion H; subst; contradiction.
  - destruct ((c_state (get_conn st k) =? c_connectionClosed) || negb room); inversion H; subst; contradiction.
  - destruct (c_state (get_conn st k) =? c_connectionActive); inversion H; subst; contradiction.
  - (* INcGet *)
    right. rewrite app_nil_r. cbn [touches_i gets_i]. unfold nc_key.
    destruct (frameTypeFor (f_mt f)) as [ft|] eqn:Eft; [|inversion H; subst; contradiction].
    match type of H with context [items_get ?a ?b ?cc] => destruct (items_get a b cc) as [st' g] eqn:E end.
    inversion H; subst; clear H. destruct Hj as [<-|[]]. cbn in Hr.
    apply items_get_spec in E. destruct E as [_ Em].
    destruct (klookup (k, (if ft =? c_responseFrame then 1 else 0), f_id f) (items st)) as [it|] eqn:El; [|subst g; discriminate].
    destruct Em as [b ->]. apply andb_true_iff in Hr. destruct Hr as [Hc Hnt]. apply Z.eqb_eq in Hc. subst c.
    apply negb_true_iff in Hnt. apply live_call_in; assumption.
  - (* INcChk *)
    left. destruct g as [[it stopped]|]; [|inversion H; subst; contradiction].
    destruct (it_tomb it || (fin_of f && negb stopped)) eqn:Echk; inversion H; subst; clear H; [contradiction|].
    apply orb_false_iff in Echk. destruct Echk as [Et _]. cbn. rewrite Et, andb_true_r.
    in_cases Hj; cbn in Hr; exact Hr.
  - (* IRcvGet *)
    match type of H with context [items_get ?a ?b ?cc] => destruct (items_get a b cc) as [st' g] eqn:E end.
    inversion H; subst; clear H. destruct Hj as [<-|[]]. cbn in Hr. apply orb_true_iff in Hr. destruct Hr as [Hr|Hr]; [left; exact Hr|].
    right. rewrite app_nil_r. cbn [touches_i gets_i]. apply items_get_spec in E. destruct E as [_ Em]. fold (rcv_key r) in Em.
    destruct (klookup (rcv_key r) (items st)) as [it|] eqn:El; [|subst g; discriminate].
    destruct Em as [b ->]. apply andb_true_iff in Hr. destruct Hr as [Hc Hnt]. apply Z.eqb_eq in Hc. subst c.
    apply negb_true_iff in Hnt. apply live_call_in; assumption.
  - (* IRcvChk *)
    left. cbn. destruct g as [[it stopped]|].
    + destruct (it_tomb it || (fin_of (r_f r) && negb stopped)) eqn:Echk; inversion H; subst; clear H.
      * rewrite (after_sent_oncall _ _ _ Hj Hr), Z.eqb_refl. reflexivity.
      * apply orb_false_iff in Echk. destruct Echk as [Et _]. rewrite Et, andb_true_r.
        apply in_app_or in Hj. destruct Hj as [Hj|[<-|[]]].
        -- in_cases Hj; cbn in Hr; try discriminate; rewrite Hr; apply orb_true_r.
        -- cbn in Hr. rewrite Hr. reflexivity.
    + inversion H; subst; clear H. in_cases Hj. discriminate.
  - (* IRcvEnq *)
    left. cbn. destruct room; inversion H; subst; clear H.
    + apply in_app_or in Hj. destruct Hj as [Hj|Hj]; [in_cases Hj; discriminate|].
      rewrite (after_sent_oncall _ _ _ Hj Hr). apply Z.eqb_refl.
    + in_cases Hj; discriminate.
  - destruct (items_get st t true) as [st' g] eqn:E. destruct g as [[it [|]]|]; inversion H; subst; try contradiction.
    destruct Hj as [<-|[]]. discriminate.
  - (* IEntomb *)
    right. rewrite app_nil_r. cbn [touches_i].
    destruct (items_entomb cf st t) as [st' g] eqn:E. apply items_entomb_spec in E. destruct E as (_&_&_&_&_&_&E).
    destruct g as [[it [|]]|]; inversion H; subst; try contradiction. clear H.
    destruct (klookup t (items st)) as [it0|] eqn:El; [|destruct E as [E _]; discriminate].
    assert (Hcase : it_call it = it_call it0 /\ it_tomb it0 = false).
    { destruct E as [(Hg&_)|[(_&Hg&_)|(Ht&Hg&_)]]; inversion Hg; subst.
      - split; [reflexivity|]. destruct (it_tomb it0); [discriminate|reflexivity].
      - split; [reflexivity|exact Ht]. }
    destruct Hcase as [Hcall Hnt].
    apply in_app_or in Hj. destruct Hj as [Hj|[<-|[]]]; [|discriminate].
    destruct (match s with FromFail _ => it_orig it | FromTimeout o => o end); [|contradiction].
    assert (Hcc : it_call it = c).
    { unfold orig_tail in Hj. destruct s; in_cases Hj; cbn in Hr; try discriminate; apply Z.eqb_eq in Hr; exact Hr. }
    rewrite <- Hcc, Hcall. apply live_call_in; assumption.
  - (* IDelete *)
    right. rewrite app_nil_r. cbn [touches_i].
    destruct (items_delete_call st t lk) as [st' g] eqn:E. apply items_delete_call_spec in E. destruct E as (_&_&_&_&_&_&_&E).
    destruct g as [[it [|]]|]; inversion H; subst; try contradiction. clear H.
    destruct (klookup t (items st)) as [it0|] eqn:El; [|destruct E as [E _]; discriminate].
    destruct E as [[Hg _]|[Hg _]]; [|discriminate]. inversion Hg. subst it0.
    in_cases Hj; cbn in Hr; try discriminate. apply Z.eqb_eq in Hr. subst c.
    apply live_call_in; [exact El|]. apply negb_true_iff. symmetry. assumption.
  - destruct (lookup Z.eqb tm (timers st)) as [x|]; [|inversion H; subst; contradiction].
    destruct (tm_released x); inversion H; subst; try contradiction. destruct Hj as [<-|[]]. discriminate.
Qed.

(* ---------------------------------------------------------------- the ghost relation along a run *)

Record HInv (st : state) (h : held) : Prop := {
  h_code : forall th code j c, In (th, code) (threads st) -> In j code -> oncall c j = true -> In (th, c) h;
  h_excl : forall th1 th2 c, In (th1, c) h -> In (th2, c) h -> th1 = th2;
  h_bound : forall th c, In (th, c) h -> c < next_call st;
  h_items : forall t it, In (t, it) (items st) -> it_call it < next_call st
}.

Lemma others_hold_false : forall h th c th2, others_hold h th c = false -> In (th2, c) h -> th2 = th.
Proof.
  intros h th c th2 H Hin. unfold others_hold in H.
  destruct (tid_eqb th2 th) eqn:E; [apply tid_eqb_ok; exact E|]. exfalso.
  assert (Hex : existsb (fun p => negb (tid_eqb (fst p) th) && (snd p =? c)) h = true).
  { apply existsb_exists. exists (th2, c). split; [exact Hin|]. cbn. rewrite E, Z.eqb_refl. reflexivity. }
  congruence.
Qed.

Lemma in_held_next : forall st l st' h th c, In (th, c) (held_next st l st' h) ->
  In (th, c) h \/ (actor l = Some th /\ In c (acquires st l)).
Proof.
  intros st l st' h th c H. unfold held_next in H. destruct (actor l) as [a|]; [|left; exact H].
  assert (G : In (th, c) (map (fun c0 => (a, c0)) (acquires st l) ++ h) -> In (th, c) h \/ (Some a = Some th /\ In c (acquires st l))).
  { intro Hi. apply in_app_or in Hi. destruct Hi as [Hi|Hi]; [|left; exact Hi].
    apply in_map_iff in Hi. destruct Hi as (c0&Heq&Hc). inversion Heq. subst. right. split; [reflexivity|exact Hc]. }
  destruct (lookup tid_eqb a (threads st')); [apply G; exact H|].
  apply filter_In in H. apply G. tauto.
Qed.

Lemma held_next_other : forall st l st' h th c, In (th, c) h -> actor l <> Some th -> In (th, c) (held_next st l st' h).
Proof.
  intros st l st' h th c H Ha. unfold held_next. destruct (actor l) as [a|]; [|exact H].
  assert (Hi : In (th, c) (map (fun c0 => (a, c0)) (acquires st l) ++ h)) by (apply in_or_app; right; exact H).
  destruct (lookup tid_eqb a (threads st')); [exact Hi|].
  apply filter_In. split; [exact Hi|]. cbn. destruct (tid_eqb th a) eqn:E; [|reflexivity].
  apply tid_eqb_ok in E. subst. exfalso. apply Ha. reflexivity.
Qed.

Lemma held_next_self : forall st l st' h th c code, actor l = Some th -> lookup tid_eqb th (threads st') = Some code ->
  In (th, c) h \/ In c (acquires st l) -> In (th, c) (held_next st l st' h).
Proof.
  intros st l st' h th c code Ha Hl H. unfold held_next. rewrite Ha, Hl. apply in_or_app. destruct H as [H|H]; [right; exact H|left].
  apply in_map_iff. exists c. split; [reflexivity|exact H].
Qed.

Lemma lookup_set_thread_self : forall st th code,
  lookup tid_eqb th (threads (set_thread st th code)) = match code with [] => None | _ => Some code end.
Proof.
  intros st th code. rewrite set_thread_threads. destruct code.
  - apply (lookup_remove_eq tid_eqb tid_eqb_ok).
  - apply (lookup_insert_eq tid_eqb tid_eqb_ok).
Qed.

Lemma live_call_item : forall st t c, In c (live_call st t) ->
  exists it, klookup t (items st) = Some it /\ it_tomb it = false /\ it_call it = c.
Proof.
  intros st t c H. unfold live_call in H. destruct (klookup t (items st)) as [it|]; [|contradiction].
  destruct (it_tomb it) eqn:Et; [contradiction|]. destruct H as [<-|[]]. exists it. repeat split. exact Et.
Qed.

Lemma touches_i_item : forall st i c, In c (touches_i st i) -> exists t it, In (t, it) (items st) /\ it_tomb it = false /\ it_call it = c.
Proof.
  intros st i c H.
  assert (G : forall t, In c (live_call st t) -> exists t0 it, In (t0, it) (items st) /\ it_tomb it = false /\ it_call it = c).
  { intros t Ht. apply live_call_item in Ht. destruct Ht as (it&Hl&A&B). exists t, it. split; [eapply (lookup_in key_eqb key_eqb_ok); exact Hl|tauto]. }
  destruct i; cbn in H; try contradiction; try (eapply G; exact H).
  destruct (nc_key k f); [eapply G; exact H|contradiction].
Qed.

Lemma exec_next_call : forall cf st i room st1 pushed, exec cf st i room = (st1, pushed) ->
  next_call st <= next_call st1 /\ forall c, In c (creates_i st i) -> c < next_call st1.
Proof.
  intros cf st i room st1 pushed H.
  assert (Hsame : next_call st1 = next_call st -> creates_i st i = [] ->
                  next_call st <= next_call st1 /\ forall c, In c (creates_i st i) -> c < next_call st1).
  { intros He Hc. rewrite He, Hc. split; [lia|intros c []]. }
  destruct i; cbn [exec] in H; try (apply Hsame; [|reflexivity]).
  - cbn [creates_i]. destruct (e_start e =? 0) eqn:E0.
    + inversion H; subst. cbn. split; [lia|]. intros c [<-|[]]. lia.
    + cbn [orb]. destruct ((e_start e =? 1) || (e_start e =? 3)); inversion H; subst; cbn.
      * split; [lia|]. intros c [<-|[]]. lia.
      * split; [lia|intros c []].
  - destruct (c_state (get_conn st k) =? c_connectionActive); inversion H; reflexivity.
  - destruct (klookup (k, 0, f_id f) (items st)); [inversion H; reflexivity|].
    destruct (e_dest e =? -1); [inversion H; reflexivity|]. destruct (e_dest e <? 0); inversion H; reflexivity.
  - destruct (c_state (get_conn st d) =? c_connectionActive); inversion H; reflexivity.
  - unfold timer_new in H. cbn [fst snd] in H. inversion H. reflexivity.
  - unfold timer_new in H. cbn [fst snd] in H. inversion H. reflexivity.
  - inversion H. reflexivity.
  - inversion H. reflexivity.
  - match type of H with (if ?b then _ else _) = _ => destruct b end; inversion H; reflexivity.
  - destruct ((c_state (get_conn st k) =? c_connectionClosed) || negb room); inversion H; reflexivity.
  - destruct (c_state (get_conn st k) =? c_connectionActive); inversion H; reflexivity.
  - destruct (frameTypeFor (f_mt f)); [|inversion H; reflexivity].
    match type of H with context [items_get ?a ?b ?cc] => destruct (items_get a b cc) as [st' g] eqn:E end.
    inversion H; subst. apply items_get_spec in E. destruct E as [E _]. apply E.
  - destruct g as [[it0 stopped]|]; [|inversion H; reflexivity].
    destruct (it_tomb it0 || (fin_of f && negb stopped)); inversion H; reflexivity.
  - match type of H with context [items_get ?a ?b ?cc] => destruct (items_get a b cc) as [st' g] eqn:E end.
    inversion H; subst. apply items_get_spec in E. destruct E as [E _]. apply E.
  - destruct g as [[it0 stopped]|]; [|inversion H; reflexivity].
    destruct (it_tomb it0 || (fin_of (r_f r) && negb stopped)); inversion H; reflexivity.
  - destruct room; inversion H; reflexivity.
  - destruct (items_get st t true) as [st' g] eqn:E. apply items_get_spec in E. destruct E as [E _].
    destruct g as [[it0 [|]]|]; inversion H; subst; apply E.
  - destruct (items_entomb cf st t) as [st' g] eqn:E. apply items_entomb_spec in E. destruct E as (_&_&_&_&_&A&_).
    destruct g as [[it0 [|]]|]; inversion H; subst; exact A.
  - destruct (items_delete_call st t lk) as [st' g] eqn:E. apply items_delete_call_spec in E. destruct E as (_&_&_&_&_&_&A&_).
    destruct g as [[it0 [|]]|]; inversion H; subst; exact A.
  - destruct (lookup Z.eqb tm (timers st)) as [x|]; [|inversion H; reflexivity].
    destruct (tm_released x); inversion H; reflexivity.
Qed.

Lemma step_hinv : forall cf st h l st', Inv st -> HInv st h -> no_overlap_step st h l = true ->
  step cf st l = Some st' -> HInv st' (held_next st l st' h).
Proof.
  intros cf st h l st' HI HH Hno H. unfold step in H. destruct (negb (panicked st =? 0)); [discriminate|].
  destruct l as [k f e|th room|tm|t|k|k|k].
  - (* LArrive *)
    destruct (lookup tid_eqb (TR k) (threads st)); [discriminate|].
    destruct (relayRoute (f_mt f) (cf_cancel cf) =? 1); [|inversion H; subst; exact HH].
    destruct (f_mt f =? c_messageTypeCallReq); inversion H; subst; (constructor; [|apply (h_excl _ _ HH)|apply (h_bound _ _ HH)|apply (h_items _ _ HH)]);
      intros th code j c Hin Hj Ho; apply set_thread_in in Hin; destruct Hin as [[-> ->]|[_ Hin]];
      try (destruct Hj as [<-|[]]; discriminate); eapply (h_code _ _ HH); eassumption.
  - (* LStep *)
    destruct (lookup tid_eqb th (threads st)) as [[|i rest]|] eqn:El; try discriminate.
    destruct (exec cf st i room) as [st1 pushed] eqn:E. inversion H. subst st'. clear H.
    pose proof (lookup_in tid_eqb tid_eqb_ok _ _ _ El) as Hin0.
    pose proof (exec_threads _ _ _ _ _ _ E) as Hth.
    destruct (exec_next_call _ _ _ _ _ _ E) as [Hnc Hcr].
    assert (Hhead : head_of st th = Some i) by (unfold head_of; rewrite El; reflexivity).
    assert (Hacq : acquires st (LStep th room) = touches_i st i ++ creates_i st i).
    { unfold acquires, touches. rewrite Hhead. reflexivity. }
    assert (Htouch : forall c, In c (touches_i st i) -> others_hold h th c = false).
    { intros c Hc. unfold no_overlap_step in Hno. cbn [actor touches] in Hno. rewrite Hhead in Hno.
      rewrite forallb_forall in Hno. apply negb_true_iff. apply Hno. exact Hc. }
    constructor.
    + intros th' code j c Hin Hj Ho. apply set_thread_in in Hin. destruct Hin as [[-> ->]|[Hne Hin]].
      * apply (held_next_self _ _ _ _ _ _ (pushed ++ rest)); [reflexivity| |].
        { rewrite lookup_set_thread_self. destruct (pushed ++ rest) eqn:Ep; [contradiction|reflexivity]. }
        rewrite Hacq. apply in_app_or in Hj. destruct Hj as [Hj|Hj].
        -- destruct (pushed_oncall _ _ _ _ _ _ _ _ E Hj Ho) as [Hi|Hi]; [left|right; exact Hi].
           eapply (h_code _ _ HH); [exact Hin0|left; reflexivity|exact Hi].
        -- left. eapply (h_code _ _ HH); [exact Hin0|right; exact Hj|exact Ho].
      * apply held_next_other; [|cbn; congruence]. rewrite Hth in Hin. eapply (h_code _ _ HH); eassumption.
    + intros th1 th2 c H1 H2. apply in_held_next in H1. apply in_held_next in H2. rewrite Hacq in *. cbn [actor] in *.
      assert (Hnew : forall tha, In (tha, c) h -> In c (touches_i st i ++ creates_i st i) -> tha = th).
      { intros tha Ha Hc. apply in_app_or in Hc. destruct Hc as [Hc|Hc].
        - eapply others_hold_false; [apply Htouch; exact Hc|exact Ha].
        - exfalso. pose proof (h_bound _ _ HH _ _ Ha) as Hb. destruct i; cbn in Hc; try contradiction.
          destruct ((e_start e =? 0) || (e_start e =? 1) || (e_start e =? 3)); [|contradiction]. destruct Hc as [<-|[]]. lia. }
      destruct H1 as [H1|[A1 C1]], H2 as [H2|[A2 C2]].
      * eapply (h_excl _ _ HH); eassumption.
      * inversion A2. subst th2. eapply Hnew; eassumption.
      * inversion A1. subst th1. symmetry. eapply Hnew; eassumption.
      * congruence.
    + intros tha c Ha. cbn [set_thread set_threads next_call]. apply in_held_next in Ha. destruct Ha as [Ha|[_ Ha]].
      * pose proof (h_bound _ _ HH _ _ Ha). lia.
      * rewrite Hacq in Ha. apply in_app_or in Ha. destruct Ha as [Ha|Ha]; [|apply Hcr; exact Ha].
        apply touches_i_item in Ha. destruct Ha as (t&it&Hit&_&<-). pose proof (h_items _ _ HH _ _ Hit). lia.
    + intros t it Hit. cbn [set_thread set_threads next_call items] in *.
      destruct (exec_items_fields _ _ _ _ _ _ _ _ E Hit) as [(it0&Hi0&Hc&_)|[(k&f&e&c&d&Hi&_&Hc&_)|(k&f&e&c&d&did&Hi&_&Hc&_)]].
      * rewrite Hc. pose proof (h_items _ _ HH _ _ Hi0). lia.
      * subst i. assert (Hh : In (th, c) h) by (eapply (h_code _ _ HH); [exact Hin0|left; reflexivity|cbn; apply Z.eqb_refl]).
        pose proof (h_bound _ _ HH _ _ Hh). lia.
      * subst i. assert (Hh : In (th, c) h) by (eapply (h_code _ _ HH); [exact Hin0|left; reflexivity|cbn; apply Z.eqb_refl]).
        pose proof (h_bound _ _ HH _ _ Hh). lia.
  - (* LFire *)
    destruct (lookup Z.eqb tm (timers st)) as [x|] eqn:Ex; [|discriminate].
    destruct (tm_armed x && match lookup tid_eqb (TT tm) (threads st) with None => true | Some _ => false end); [|discriminate].
    inversion H. subst st'. clear H.
    assert (Hacq : acquires st (LFire tm) = live_call st (tm_key x)).
    { unfold acquires, touches. rewrite Ex. apply app_nil_r. }
    assert (Htouch : forall c, In c (live_call st (tm_key x)) -> others_hold h (TT tm) c = false).
    { intros c Hc. unfold no_overlap_step in Hno. cbn [actor touches] in Hno. rewrite Ex in Hno.
      rewrite forallb_forall in Hno. apply negb_true_iff. apply Hno. exact Hc. }
    constructor.
    + intros th' code j c Hin Hj Ho. apply set_thread_in in Hin. destruct Hin as [[-> ->]|[Hne Hin]].
      * destruct Hj as [<-|[]]. discriminate.
      * apply held_next_other; [|cbn; congruence]. eapply (h_code _ _ HH); eassumption.
    + intros th1 th2 c H1 H2. apply in_held_next in H1. apply in_held_next in H2. rewrite Hacq in *. cbn [actor] in *.
      destruct H1 as [H1|[A1 C1]], H2 as [H2|[A2 C2]].
      * eapply (h_excl _ _ HH); eassumption.
      * inversion A2. subst th2. eapply others_hold_false; [apply Htouch; exact C2|exact H1].
      * inversion A1. subst th1. symmetry. eapply others_hold_false; [apply Htouch; exact C1|exact H2].
      * congruence.
    + intros tha c Ha. cbn [set_thread set_threads set_timers next_call]. apply in_held_next in Ha. destruct Ha as [Ha|[_ Ha]].
      * apply (h_bound _ _ HH _ _ Ha).
      * rewrite Hacq in Ha. apply live_call_item in Ha. destruct Ha as (it&Hl&_&<-).
        eapply (h_items _ _ HH). eapply (lookup_in key_eqb key_eqb_ok). exact Hl.
    + apply (h_items _ _ HH).
  - (* LGc *)
    destruct (mem_key t (gcs st)) eqn:Emem; [|discriminate]. inversion H. subst.
    gc_delete HI.
    destruct (items_delete (set_gcs st (remove_one t (gcs st))) t) as [st' g] eqn:E. cbn [fst].
    apply items_delete_spec in E. cbn [set_gcs conns gcs threads cblog sent seen next_call items] in E.
    destruct E as (_&_&A&_&_&_&B&D). unfold held_next. cbn [actor].
    constructor; rewrite ?A, ?B; [apply (h_code _ _ HH)|apply (h_excl _ _ HH)|apply (h_bound _ _ HH)|].
    intros t0 it Hin. eapply (h_items _ _ HH).
    destruct (klookup t (items st)); destruct D as [_ Hi]; rewrite Hi in Hin; [|exact Hin].
    apply (in_remove key_eqb key_eqb_ok) in Hin. destruct Hin as [Hin _]. exact Hin.
  - destruct (c_state (get_conn st k) =? c_connectionActive); [|discriminate]. inversion H. subst.
    constructor; cbn; apply HH.
  - inversion H. subst. constructor; cbn; apply HH.
  - match type of H with (if ?b then _ else _) = _ => destruct b end; [|discriminate]. inversion H. subst. constructor; cbn; apply HH.
Qed.

Lemma HInv_init : HInv init [].
Proof. constructor; cbn; intros; contradiction. Qed.

Lemma Shape_init : Shape init.
Proof. intros th code []. Qed.

(* ---------------------------------------------------------------- C09: the old calm hypothesis follows *)

Lemma orig_live_ends : forall st c, Inv st -> orig_live st c = true -> ends c (cblog st) = 0.
Proof.
  intros st c HI H. unfold orig_live in H. apply existsb_exists in H. destruct H as ([t it]&Hin&Hp). cbn in Hp.
  apply andb_true_iff in Hp. destruct Hp as [Hp Hnt]. apply andb_true_iff in Hp. destruct Hp as [Hc Ho].
  apply Z.eqb_eq in Hc. apply negb_true_iff in Hnt. eapply ends_zero_item; eassumption.
Qed.

Lemma calm_step_of : forall st h l, Inv st -> HInv st h -> Shape st -> whole_step st l = true -> calm_step st l.
Proof.
  intros st h l HI HH HS Hw. destruct l as [| th room | | | | |]; try exact I. unfold calm_step.
  destruct (lookup tid_eqb th (threads st)) as [[|i rest]|] eqn:El; try exact I.
  pose proof (lookup_in tid_eqb tid_eqb_ok _ _ _ El) as Hin0.
  assert (Hhead : head_of st th = Some i) by (unfold head_of; rewrite El; reflexivity).
  unfold whole_step in Hw. rewrite Hhead in Hw. rewrite forallb_forall in Hw.
  destruct i; try exact I.
  - destruct x; try exact I. intros th' code j Hin Hj.
    destruct (reporter c j) eqn:Er; [|reflexivity]. exfalso.
    pose proof (h_code _ _ HH _ _ _ _ Hin Hj (reporter_oncall _ _ Er)) as H1.
    assert (H2 : In (th, c) h) by (eapply (h_code _ _ HH); [exact Hin0|left; reflexivity|cbn; apply Z.eqb_refl]).
    pose proof (h_excl _ _ HH _ _ _ H1 H2) as Heq. subst th'.
    pose proof (in_lookup tid_eqb tid_eqb_ok _ _ _ (inv_threads_nd _ HI) Hin) as Hl. rewrite El in Hl. inversion Hl. subst code.
    destruct Hj as [<-|Hj].
    + cbn in Er. rewrite Z.eqb_refl in Er. discriminate.
    + destruct (shape_head _ _ (HS _ _ Hin0)) as (_&_&Hq). specialize (Hq eq_refl). rewrite forallb_forall in Hq.
      rewrite (quiet_no_reporter c j (Hq j Hj)) in Er. discriminate.
  - intros ft it Hft Hl Hnt. apply orig_live_ends; [exact HI|]. apply Hw. cbn [gets_i]. unfold nc_key. rewrite Hft.
    apply live_call_in; assumption.
  - intros it Hl Hnt. apply orig_live_ends; [exact HI|]. apply Hw. cbn [gets_i]. apply live_call_in; assumption.
Qed.

Lemma calm_old : forall cf ls st0 h st, Inv st0 -> HInv st0 h -> Shape st0 ->
  run_fresh cf st0 ls = Some st -> sched cf calm_chk st0 h ls = true -> calm_run cf st0 ls.
Proof.
  intros cf ls. induction ls as [|l r IH]; intros st0 h st HI HH HS H Hc; cbn in *; [exact I|].
  destruct (fresh_label st0 l) eqn:Ef; [|discriminate]. destruct (step cf st0 l) as [st1|] eqn:Es; [|discriminate].
  apply andb_true_iff in Hc. destruct Hc as [Hc1 Hc2]. unfold calm_chk in Hc1. apply andb_true_iff in Hc1. destruct Hc1 as [Hno Hw].
  split; [eapply calm_step_of; eassumption|].
  eapply IH; [eapply step_inv; eassumption|eapply step_hinv; eassumption|eapply step_shape; eassumption|exact H|exact Hc2].
Qed.

(* C09, nothing is reported after End: for every fresh-id schedule without overlap in which no
   frame is processed for a call whose originating item is already completed *)
Theorem silent_after_end_calm : forall cf ls st,
  run_fresh cf init ls = Some st -> calm cf ls -> silent_after_end cb_is_end (cblog st).
Proof.
  intros cf ls st H Hc. eapply silent_after_end_partial_lemma; [exact H|].
  eapply calm_old; [apply Inv_init|apply HInv_init|apply Shape_init|exact H|exact Hc].
Qed.

(* the invariants at the end of a run without overlap, with the ghost it ends in *)
Fixpoint held_run (cf : config) (st : state) (h : held) (ls : list label) : held :=
  match ls with
  | [] => h
  | l :: r => match step cf st l with Some st' => held_run cf st' (held_next st l st' h) r | None => h end
  end.

Lemma reach_hinv : forall cf ls st, run_fresh cf init ls = Some st -> no_overlap cf ls ->
  HInv st (held_run cf init [] ls) /\ Shape st.
Proof.
  intros cf ls. unfold no_overlap.
  assert (G : forall st0 h st, Inv st0 -> HInv st0 h -> Shape st0 -> run_fresh cf st0 ls = Some st ->
            sched cf no_overlap_step st0 h ls = true -> HInv st (held_run cf st0 h ls) /\ Shape st).
  { induction ls as [|l r IH]; intros st0 h st HI HH HS H Hc; cbn in *.
    - inversion H. subst. split; assumption.
    - destruct (fresh_label st0 l) eqn:Ef; [|discriminate]. destruct (step cf st0 l) as [st1|] eqn:Es; [|discriminate].
      apply andb_true_iff in Hc. destruct Hc as [Hc1 Hc2].
      eapply IH; [eapply step_inv; eassumption|eapply step_hinv; eassumption|eapply step_shape; eassumption|exact H|exact Hc2]. }
  intros st H Hc. eapply G; [apply Inv_init|apply HInv_init|apply Shape_init|exact H|exact Hc].
Qed.

(* non-vacuity: the complete relayed call of RelaySilentP is calm; the refuting runs are not *)
Example calm_example_calm : sched wit_cf calm_chk init [] calm_example = true.
Proof. vm_compute. reflexivity. Qed.
Example wit_silent_overlap : sched wit_cf no_overlap_step init [] wit_silent = false.
Proof. vm_compute. reflexivity. Qed.
