(* Property C20, wait sites: proofs about Model/CtxPath.v over the tables and functions that go2v
   regenerates from the Go source (Gen/GenCtxSites.v, Gen/GenCtxErr.v, Gen/GenWaitSites.v).
   The finite tables are checked by boolean checkers run with vm_compute; each checker is proved
   sound once, for any table. *)
From Coq Require Import ZArith List Bool Lia String.
From Verif Require Import Base.Wrap Base.Wire Base.Bytes Gen.GenConsts Gen.GenErrors Gen.GenCtxErr Gen.GenCtxSites
  Gen.GenWaitSites Spec.CtxSiteSpec Spec.WaitSpec Spec.ErrorSpec Spec.RelayErrors Model.ErrorPath Model.CtxPath.
Import ListNotations.
Local Open Scope Z_scope.

(* ---------------------------------------------------------------- helpers *)
Lemma bytes_eqb_eq : forall a b, bytes_eqb a b = true -> a = b.
Proof.
  induction a as [|x a IH]; destruct b as [|y b]; cbn; intros H; try discriminate; [reflexivity|].
  apply andb_true_iff in H. destruct H as [H1 H2]. apply Z.eqb_eq in H1. subst. f_equal. apply IH, H2.
Qed.
Lemma bytes_eqb_refl : forall a, bytes_eqb a a = true.
Proof. induction a as [|x a IH]; cbn; [reflexivity|]. rewrite Z.eqb_refl, IH. reflexivity. Qed.

Definition all_ends : list ctx_end := [EndDeadline; EndCanceled].
Lemma all_ends_in : forall e, In e all_ends.
Proof. destruct e; cbn; auto. Qed.

(* ---------------------------------------------------------------- 1. every row of the table *)
(* the returned expression evaluates to a system error with the documented code *)
Definition ret_okb (r : cexpr) (e : ctx_end) : bool :=
  match cx_eval r (ctx_err e) with
  | Some (ESys c _) => c =? spec_ctx_code e
  | _ => false
  end.

Definition site_okb (s : csite) : bool :=
  forallb (fun r => forallb (fun e => negb (when_applies (cs_when s) e) || ret_okb r e) all_ends) (cs_rets s)
  && forallb (fun fb => snd fb) (cs_calls s)
  && (negb (cs_falls s) || match cs_rets s with [] => true | _ => false end).

Definition site_ok (s : csite) : Prop :=
  (forall r e, In r (cs_rets s) -> when_applies (cs_when s) e = true ->
     exists msg, cx_eval r (ctx_err e) = Some (ESys (spec_ctx_code e) msg)) /\
  (forall f b, In (f, b) (cs_calls s) -> b = true) /\
  (cs_falls s = true -> cs_rets s = []).

Lemma ret_okb_sound : forall r e, ret_okb r e = true ->
  exists msg, cx_eval r (ctx_err e) = Some (ESys (spec_ctx_code e) msg).
Proof.
  intros r e H. unfold ret_okb in H.
  destruct (cx_eval r (ctx_err e)) as [[|c m| | | |m n]|]; try discriminate.
  apply Z.eqb_eq in H. subst c. exists m. reflexivity.
Qed.

Lemma site_okb_sound : forall s, site_okb s = true -> site_ok s.
Proof.
  intros s H. unfold site_okb in H.
  apply andb_true_iff in H. destruct H as [H Hf].
  apply andb_true_iff in H. destruct H as [Hr Hc].
  split; [|split].
  - intros r e Hin Hw.
    rewrite forallb_forall in Hr. specialize (Hr r Hin).
    rewrite forallb_forall in Hr. specialize (Hr e (all_ends_in e)).
    rewrite Hw in Hr. cbn [negb orb] in Hr. apply ret_okb_sound, Hr.
  - intros f b Hin. rewrite forallb_forall in Hc. apply (Hc (f, b) Hin).
  - intros Hfl. rewrite Hfl in Hf. cbn [negb orb] in Hf.
    destruct (cs_rets s); [reflexivity|discriminate].
Qed.

Lemma ctx_sites_checked : forallb site_okb ctx_sites = true.
Proof. vm_compute. reflexivity. Qed.

Theorem ctx_sites_converted : forall s, In s ctx_sites -> site_ok s.
Proof.
  intros s Hin. apply site_okb_sound.
  pose proof ctx_sites_checked as H. rewrite forallb_forall in H. apply H, Hin.
Qed.

(* ---------------------------------------------------------------- 2. coverage *)
(* the branches the call path goes through exist and return something *)
Definition required_sites : list (list Z * ckind) :=
  [ (fn_lockNewConn, KDone); (fn_Connect, KErrIf); (fn_beginCall, KErrIf); (fn_checkError, KErrIf);
    (fn_flushFragment, KDone); (fn_recvPeerFrame, KErrIf); (fn_recvPeerFrame, KDone);
    (fn_forwardPeerFrame, KErrIf); (fn_forwardPeerFrame, KDone) ].

Definition has_rowb (fn : list Z) (k : ckind) : bool :=
  existsb (fun s => bytes_eqb (cs_fn s) fn && ckind_eqb (cs_kind s) k &&
                    match cs_rets s with [] => false | _ => true end) ctx_sites.

Definition has_row (fn : list Z) (k : ckind) : Prop :=
  exists s, In s ctx_sites /\ cs_fn s = fn /\ cs_kind s = k /\ cs_rets s <> [].

Lemma ckind_eqb_eq : forall a b, ckind_eqb a b = true -> a = b.
Proof. destruct a, b; cbn; intros H; try discriminate; reflexivity. Qed.

Lemma has_rowb_sound : forall fn k, has_rowb fn k = true -> has_row fn k.
Proof.
  intros fn k H. unfold has_rowb in H. apply existsb_exists in H. destruct H as [s [Hin H]].
  apply andb_true_iff in H. destruct H as [H Hr]. apply andb_true_iff in H. destruct H as [Hf Hk].
  exists s. split; [exact Hin|]. split; [apply bytes_eqb_eq, Hf|]. split; [apply ckind_eqb_eq, Hk|].
  destruct (cs_rets s); [discriminate|]. discriminate.
Qed.

Theorem ctx_sites_required : forall fn k, In (fn, k) required_sites -> has_row fn k.
Proof.
  intros fn k Hin. apply has_rowb_sound.
  assert (H : forallb (fun p => has_rowb (fst p) (snd p)) required_sites = true) by (vm_compute; reflexivity).
  rewrite forallb_forall in H. apply (H (fn, k) Hin).
Qed.

(* every select of property C05's wait-site table (the blocking statements of the outbound call
   path) that can be left through the context has its `case <-ctx.Done()` branch in the table *)
Definition wsite_coveredb (w : wsite) : bool :=
  match ws_kind w with
  | WSelect => negb (existsb (wexit_eqb XCtx) (ws_exits w)) || has_rowb (ws_fn w) KDone
  | _ => true
  end.

Theorem wait_sites_covered : forall w, In w wait_sites -> ws_kind w = WSelect -> In XCtx (ws_exits w) ->
  has_row (ws_fn w) KDone.
Proof.
  intros w Hin Hk Hx.
  assert (H : forallb wsite_coveredb wait_sites = true) by (vm_compute; reflexivity).
  rewrite forallb_forall in H. specialize (H w Hin). unfold wsite_coveredb in H. rewrite Hk in H.
  assert (E : existsb (wexit_eqb XCtx) (ws_exits w) = true).
  { apply existsb_exists. exists XCtx. split; [exact Hx|reflexivity]. }
  rewrite E in H. cbn [negb orb] in H. apply has_rowb_sound, H.
Qed.

(* ---------------------------------------------------------------- 3. the call path *)
(* what a dialer may report once the context has ended: by deadline, an error that says "timeout"
   (net.Dialer's i/o timeout, or the context's own error: context.DeadlineExceeded is a net.Error
   with Timeout() = true); by cancellation, any error that is no timeout *)
Definition dial_reports (e : ctx_end) (de : gerr) : Prop :=
  match e with
  | EndDeadline => is_net_timeout de = true
  | EndCanceled => is_nil de = false /\ is_net_timeout de = false
  end.

Lemma is_net_timeout_net : forall de, is_net_timeout de = true -> is_net de = true /\ is_nil de = false.
Proof.
  destruct de as [|c m| | | |m n]; cbn; intros H; try discriminate; split; try reflexivity.
  apply Z.eqb_eq in H. subst n. reflexivity.
Qed.

Lemma connect_dial_deadline : forall de, is_net_timeout de = true ->
  connectDialErr is_nil is_net is_net_timeout false v_ErrTimeout v_ErrRequestCancelled get_context_error de = v_ErrTimeout.
Proof.
  intros de H. destruct (is_net_timeout_net de H) as [Hn Hz].
  unfold connectDialErr. rewrite Hz, Hn, H. reflexivity.
Qed.

Lemma connect_dial_cancel : forall de, is_nil de = false -> is_net_timeout de = false ->
  connectDialErr is_nil is_net is_net_timeout true v_ErrTimeout v_ErrRequestCancelled get_context_error de = v_ErrRequestCancelled.
Proof.
  intros de Hz Ht. unfold connectDialErr. rewrite Hz, Ht. cbn [negb]. rewrite andb_false_r. reflexivity.
Qed.

Lemma handshake_cancel_eq : forall de,
  call_error GHandshake EndCanceled de =
    Some (if handshake_sees_cancel then v_ErrRequestCancelled else v_ErrTimeout).
Proof.
  intros de. unfold call_error, get_connection_error, connect_error.
  destruct handshake_sees_cancel; vm_compute; reflexivity.
Qed.

Lemma call_dial_deadline : forall de, dial_reports EndDeadline de ->
  exists msg, call_error GDial EndDeadline de = Some (ESys (spec_ctx_code EndDeadline) msg).
Proof.
  intros de Hd. cbn in Hd. unfold call_error, get_connection_error, connect_error.
  change (is_canceled (ctx_err EndDeadline)) with false. rewrite (connect_dial_deadline de Hd).
  eexists. vm_compute. reflexivity.
Qed.

Lemma call_dial_cancel : forall de, dial_reports EndCanceled de ->
  exists msg, call_error GDial EndCanceled de = Some (ESys (spec_ctx_code EndCanceled) msg).
Proof.
  intros de Hd. cbn in Hd. destruct Hd as [Hz Ht]. unfold call_error, get_connection_error, connect_error.
  change (is_canceled (ctx_err EndCanceled)) with true. rewrite (connect_dial_cancel de Hz Ht).
  eexists. vm_compute. reflexivity.
Qed.

Lemma call_handshake_cancel : forall de, handshake_sees_cancel = true ->
  exists msg, call_error GHandshake EndCanceled de = Some (ESys (spec_ctx_code EndCanceled) msg).
Proof. intros de Hx. rewrite handshake_cancel_eq, Hx. eexists. vm_compute. reflexivity. Qed.

(* MAIN: wherever on the call path the context ends, the caller gets the documented code *)
Theorem ctx_call_sites : forall st e de,
  dial_reports e de ->
  ((st, e) <> (GHandshake, EndCanceled) \/ handshake_sees_cancel = true) ->
  exists msg, call_error st e de = Some (ESys (spec_ctx_code e) msg).
Proof.
  intros st e de Hd Hx.
  destruct st, e;
    first
      [ exact (call_dial_deadline de Hd)
      | exact (call_dial_cancel de Hd)
      | (destruct Hx as [Hx|Hx]; [exfalso; apply Hx; reflexivity|]; exact (call_handshake_cancel de Hx))
      | (eexists; vm_compute; reflexivity) ].
Qed.

(* the clause the pinned tree refutes: a caller that cancels while the handshake is pending
   gets timeout (finding c20:handshake-ignores-cancel) *)
Theorem ctx_handshake_cancel_refuted : handshake_sees_cancel = false ->
  forall de, call_error GHandshake EndCanceled de = Some v_ErrTimeout /\
             sys_code v_ErrTimeout <> spec_ctx_code EndCanceled.
Proof.
  intros H de. rewrite handshake_cancel_eq, H. split; [reflexivity|]. vm_compute. discriminate.
Qed.

(* ---------------------------------------------------------------- 4. the relay *)
Definition conn_stages : list cstage := [GQueued; GPreDial; GDial; GHandshake].

(* a call whose time-to-live (or the relay's maximum connection timeout) ends while the relay is
   obtaining the destination connection is answered with timeout, on the open connection *)
Theorem ctx_relay_sites : forall st de, In st conn_stages -> is_net_timeout de = true ->
  exists msg, relay_connect_result st de = Some (RRError (ESys 1 msg) false) /\
              spec_relay_code RSTimeout = Some 1 /\ spec_relay_code (RSConnectSystem 1) = Some 1.
Proof.
  intros st de Hin Hd. cbn in Hin.
  destruct Hin as [<- | [<- | [<- | [<- | []]]]];
    try (eexists; split; [vm_compute; reflexivity|split; reflexivity]).
  (* dial *)
  unfold relay_connect_result, get_connection_error, connect_error.
  change (is_canceled (ctx_err EndDeadline)) with false. rewrite (connect_dial_deadline de Hd).
  eexists. split; [vm_compute; reflexivity|split; reflexivity].
Qed.

(* ---------------------------------------------------------------- 5. model = specification *)
(* the observable the statement of C20 prescribes for the harness cases, literal numbers only *)
Definition spec_ctxsite (en topo : Z) : list Z :=
  if topo =? 2 then [1; 1; 7; 116; 105; 109; 101; 111; 117; 116]                         (* frame: timeout (0x01) "timeout" *)
  else if en =? 1 then [1; 1; 7; 116; 105; 109; 101; 111; 117; 116]                      (* SystemError timeout *)
  else [1; 2; 17; 114; 101; 113; 117; 101; 115; 116; 32; 99; 97; 110; 99; 101; 108; 108; 101; 100]. (* cancelled "request cancelled" *)

Definition ctxsite_input_ok (s en topo variant : Z) : Prop :=
  0 <= s <= 8 /\ (en = 1 \/ en = 2) /\ (topo = 0 \/ topo = 1 \/ (topo = 2 /\ en = 1 /\ s <= 3)) /\ 0 <= variant <= 3.

Lemma variant_cases : forall v, 0 <= v <= 3 -> v = 0 \/ v = 1 \/ v = 2 \/ v = 3.
Proof. intros v H. lia. Qed.
Lemma stage_cases : forall s, 0 <= s <= 8 -> s = 0 \/ s = 1 \/ s = 2 \/ s = 3 \/ s = 4 \/ s = 5 \/ s = 6 \/ s = 7 \/ s = 8.
Proof. intros s H. lia. Qed.

Theorem run_ctxsite_spec : forall s en topo variant,
  ctxsite_input_ok s en topo variant ->
  ((s, en) <> (3, 2) \/ handshake_sees_cancel = true) ->
  run_c20_ctxsite [s; en; topo; variant] = spec_ctxsite en topo.
Proof.
  intros s en topo variant [Hs [He [Ht Hv]]] Hx.
  destruct (variant_cases variant Hv) as [-> | [-> | [-> | ->]]];
  destruct (stage_cases s Hs) as [-> | [-> | [-> | [-> | [-> | [-> | [-> | [-> | ->]]]]]]]];
  destruct He as [-> | ->];
  destruct Ht as [-> | [-> | [-> [He Hs3]]]]; try discriminate; try lia;
  try (vm_compute; reflexivity);
  (* handshake, cancel *)
  (destruct Hx as [Hx|Hx]; [exfalso; apply Hx; reflexivity|];
   unfold run_c20_ctxsite; cbn [stage_of end_of Z.eqb Pos.eqb]; rewrite handshake_cancel_eq, Hx; vm_compute; reflexivity).
Qed.
