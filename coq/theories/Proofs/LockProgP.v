(* Property C05 (b), lock discipline: proofs.
   (1) the checker of Model/LockProg.v is sound for EVERY execution of a lock program
       (fn_ok_sound);
   (2) the generated table (Gen/GenLockProgs.v) passes it: every function of the package
       that touches a lock is balanced, never blocks under a plain mutex and nests locks
       strictly downwards; the lock acquisitions of the call path are of plain mutexes of
       that table;
   (3) threads that follow the discipline, in any interleaving: whenever a mutex is held some
       holder has an enabled step, and the holders alone reach "no mutex held" within the
       length of what is left of their critical sections -- a lock wait is bounded by the
       holders' critical sections; a thread that returns with the lock held blocks a waiter
       for ever. *)
From Coq Require Import ZArith List Bool Lia.
From Verif Require Import Spec.WaitSpec Spec.LockProgSpec Model.LockProg Gen.GenLockProgs.
Import ListNotations.
Local Open Scope Z_scope.

(* ================================================================== *)
(* equality tests                                                      *)
(* ================================================================== *)
Lemma hitem_eqb_eq a b : hitem_eqb a b = true <-> a = b.
Proof.
  destruct a as [m r], b as [m' r']. unfold hitem_eqb. cbn [fst snd].
  rewrite andb_true_iff, Z.eqb_eq, Bool.eqb_true_iff. split.
  - intros [H1 H2]. subst. reflexivity.
  - intros H. inversion H. split; reflexivity.
Qed.

Lemma hlist_eqb_eq a : forall b, hlist_eqb a b = true <-> a = b.
Proof.
  induction a as [|x r IH]; intros [|y q]; cbn [hlist_eqb]; try (split; [discriminate|discriminate]).
  - split; reflexivity.
  - rewrite andb_true_iff, hitem_eqb_eq, IH. split.
    + intros [H1 H2]. subst. reflexivity.
    + intros H. inversion H. split; reflexivity.
Qed.

Lemma hst_eqb_eq a b : hst_eqb a b = true <-> a = b.
Proof.
  destruct a as [h d], b as [h' d']. unfold hst_eqb. cbn [h_held h_dfr].
  rewrite andb_true_iff, !hlist_eqb_eq. split.
  - intros [H1 H2]. subst. reflexivity.
  - intros H. inversion H. split; reflexivity.
Qed.

Lemma ctl_eqb_eq a b : ctl_eqb a b = true <-> a = b.
Proof. destruct a, b; cbn; split; intros H; try reflexivity; discriminate H. Qed.

Lemma out_eqb_eq a b : out_eqb a b = true <-> a = b.
Proof.
  destruct a as [c s], b as [c' s']. unfold out_eqb. cbn [fst snd].
  rewrite andb_true_iff, ctl_eqb_eq, hst_eqb_eq. split.
  - intros [H1 H2]. subst. reflexivity.
  - intros H. inversion H. split; reflexivity.
Qed.

Lemma add_out_in o l x : In x (add_out o l) <-> x = o \/ In x l.
Proof.
  induction l as [|y r IH]; cbn [add_out].
  - cbn. intuition.
  - destruct (out_eqb o y) eqn:E.
    + apply out_eqb_eq in E. subst y. cbn. intuition.
    + cbn [In]. rewrite IH. intuition.
Qed.

Lemma union_out_in a b x : In x (union_out a b) <-> In x a \/ In x b.
Proof.
  unfold union_out. induction a as [|y r IH]; cbn [fold_right].
  - cbn. intuition.
  - rewrite add_out_in, IH. cbn [In]. intuition.
Qed.

Lemma loop_outs_in o : forall c s, In (c, s) o ->
  match c with
  | CBrk => In (CFall, s) (loop_outs o)
  | CRet | CPanic => In (c, s) (loop_outs o)
  | _ => True
  end.
Proof.
  induction o as [|[c0 s0] r IH]; intros c s Hin; [destruct Hin|].
  destruct Hin as [E|Hin].
  - inversion E. subst c0 s0. destruct c; cbn [loop_outs]; try exact I; apply add_out_in; left; reflexivity.
  - specialize (IH c s Hin). destruct c; try exact I; cbn [loop_outs]; destruct c0;
      try (apply add_out_in; right); exact IH.
Qed.

Lemma catch_outs_in o : forall c s, In (c, s) o -> In (catch_brk c, s) (catch_outs o).
Proof.
  induction o as [|[c0 s0] r IH]; intros c s Hin; [destruct Hin|].
  cbn [catch_outs]. apply add_out_in. destruct Hin as [E|Hin].
  - inversion E. left. reflexivity.
  - right. apply IH, Hin.
Qed.

Lemma seq_outs_spec k : forall o res, seq_outs k o = Some res ->
  (forall c s, In (c, s) o -> c <> CFall -> In (c, s) res) /\
  (forall s, In (CFall, s) o -> exists o', k s = Some o' /\ incl o' res).
Proof.
  induction o as [|[c0 s0] r IH]; intros res H.
  - split; intros; contradiction.
  - cbn [seq_outs] in H. destruct (seq_outs k r) as [acc|] eqn:Er; [|discriminate H].
    destruct (IH acc eq_refl) as [IH1 IH2].
    destruct c0.
    + (* CFall *)
      destruct (k s0) as [o'|] eqn:Ek; [|discriminate H]. inversion H. subst res. split.
      * intros c s [E|Hin] Hc.
        -- inversion E. subst c. contradiction Hc. reflexivity.
        -- apply union_out_in. right. apply IH1; assumption.
      * intros s [E|Hin].
        -- inversion E. subst s0. exists o'. split; [exact Ek|]. intros x Hx. apply union_out_in. left. exact Hx.
        -- destruct (IH2 s Hin) as [o2 [H1 H2]]. exists o2. split; [exact H1|].
           intros x Hx. apply union_out_in. right. apply H2, Hx.
    + inversion H. subst res. split.
      * intros c s [E|Hin] Hc; apply add_out_in; [left; symmetry; exact E | right; apply IH1; assumption].
      * intros s [E|Hin]; [discriminate E|]. destruct (IH2 s Hin) as [o2 [H1 H2]]. exists o2. split; [exact H1|].
        intros x Hx. apply add_out_in. right. apply H2, Hx.
    + inversion H. subst res. split.
      * intros c s [E|Hin] Hc; apply add_out_in; [left; symmetry; exact E | right; apply IH1; assumption].
      * intros s [E|Hin]; [discriminate E|]. destruct (IH2 s Hin) as [o2 [H1 H2]]. exists o2. split; [exact H1|].
        intros x Hx. apply add_out_in. right. apply H2, Hx.
    + inversion H. subst res. split.
      * intros c s [E|Hin] Hc; apply add_out_in; [left; symmetry; exact E | right; apply IH1; assumption].
      * intros s [E|Hin]; [discriminate E|]. destruct (IH2 s Hin) as [o2 [H1 H2]]. exists o2. split; [exact H1|].
        intros x Hx. apply add_out_in. right. apply H2, Hx.
    + inversion H. subst res. split.
      * intros c s [E|Hin] Hc; apply add_out_in; [left; symmetry; exact E | right; apply IH1; assumption].
      * intros s [E|Hin]; [discriminate E|]. destruct (IH2 s Hin) as [o2 [H1 H2]]. exists o2. split; [exact H1|].
        intros x Hx. apply add_out_in. right. apply H2, Hx.
Qed.

(* ================================================================== *)
(* (1) soundness of the checker                                        *)
(* ================================================================== *)
Scheme xs_mind := Minimality for xs Sort Prop
  with xb_mind := Minimality for xb Sort Prop.
Combined Scheme xsb_ind from xs_mind, xb_mind.

Lemma acq_ok_spec held m : acq_ok held m = true -> forall h, In h held -> m < fst h.
Proof.
  unfold acq_ok. intros H h Hin. rewrite forallb_forall in H. specialize (H h Hin). lia.
Qed.

Lemma blk_ok_spec sem held : blk_ok sem held = true -> forall h, In h held -> sem (fst h) = true.
Proof. unfold blk_ok. intros H h Hin. rewrite forallb_forall in H. exact (H h Hin). Qed.

Section Sound.
  Variable sem : Z -> bool.

  Lemma cs_alt a b s : cs sem (SAlt a b) s =
    match cb sem a s, cb sem b s with Some x, Some y => Some (union_out x y) | _, _ => None end.
  Proof. reflexivity. Qed.
  Lemma cs_loop b s : cs sem (SLoop b) s =
    match cb sem b s with
    | Some o => if loop_inv s o then Some (add_out (CFall, s) (loop_outs o)) else None
    | None => None
    end.
  Proof. reflexivity. Qed.
  Lemma cs_catch b s : cs sem (SCatch b) s = match cb sem b s with Some o => Some (catch_outs o) | None => None end.
  Proof. reflexivity. Qed.
  Lemma cb_cons st r s : cb sem (BCons st r) s = match cs sem st s with None => None | Some o => seq_outs (cb sem r) o end.
  Proof. reflexivity. Qed.

  Lemma check_sound :
    (forall st s c s' tr, xs st s c s' tr ->
       forall o, cs sem st s = Some o -> In (c, s') o /\ Forall (ev_ok sem) tr) /\
    (forall b s c s' tr, xb b s c s' tr ->
       forall o, cb sem b s = Some o -> In (c, s') o /\ Forall (ev_ok sem) tr).
  Proof.
    apply xsb_ind.
    - (* XLock *) intros m rd s o H. cbn [cs] in H. destruct (acq_ok (h_held s) m) eqn:E; [|discriminate H].
      injection H as Ho; subst o. split; [left; reflexivity|]. constructor; [|constructor].
      unfold ev_ok. cbn [fst snd]. apply acq_ok_spec, E.
    - (* XUnlock *) intros m rd s h' Hr o H. cbn [cs] in H. rewrite Hr in H. injection H as Ho; subst o.
      split; [left; reflexivity|]. constructor; [exact I|constructor].
    - (* XUnlockBad *) intros m rd s Hr o H. cbn [cs] in H. rewrite Hr in H. discriminate H.
    - (* XDefer *) intros m rd s o H. cbn [cs] in H. injection H as Ho; subst o. split; [left; reflexivity|constructor].
    - (* XBlock *) intros s o H. cbn [cs] in H. destruct (blk_ok sem (h_held s)) eqn:E; [|discriminate H].
      injection H as Ho; subst o. split; [left; reflexivity|]. constructor; [|constructor].
      unfold ev_ok. cbn [fst snd]. apply blk_ok_spec, E.
    - (* XCall *) intros blk acq s o H. cbn [cs] in H.
      destruct ((negb blk || blk_ok sem (h_held s)) && forallb (acq_ok (h_held s)) acq) eqn:E; [|discriminate H].
      injection H as Ho; subst o. split; [left; reflexivity|].
      apply andb_true_iff in E. destruct E as [E1 E2]. apply Forall_app. split.
      + destruct blk; [|constructor]. cbn [negb orb] in E1. constructor; [|constructor].
        unfold ev_ok. cbn [fst snd]. apply blk_ok_spec, E1.
      + apply Forall_forall. intros e He. apply in_map_iff in He. destruct He as [m [Em Hm]]. subst e.
        unfold ev_ok. cbn [fst snd]. rewrite forallb_forall in E2. apply acq_ok_spec, E2, Hm.
    - (* XRet *) intros s o H. cbn [cs] in H. injection H as Ho; subst o. split; [left; reflexivity|constructor].
    - intros s o H. cbn [cs] in H. injection H as Ho; subst o. split; [left; reflexivity|constructor].
    - intros s o H. cbn [cs] in H. injection H as Ho; subst o. split; [left; reflexivity|constructor].
    - intros s o H. cbn [cs] in H. injection H as Ho; subst o. split; [left; reflexivity|constructor].
    - (* XAltL *) intros a b s c s' tr _ IH o H. rewrite cs_alt in H.
      destruct (cb sem a s) as [x|] eqn:Ea; [|discriminate H]. destruct (cb sem b s) as [y|] eqn:Eb; [|discriminate H].
      injection H as Ho; subst o. destruct (IH x eq_refl) as [H1 H2]. split; [apply union_out_in; left; exact H1|exact H2].
    - (* XAltR *) intros a b s c s' tr _ IH o H. rewrite cs_alt in H.
      destruct (cb sem a s) as [x|] eqn:Ea; [|discriminate H]. destruct (cb sem b s) as [y|] eqn:Eb; [|discriminate H].
      injection H as Ho; subst o. destruct (IH y eq_refl) as [H1 H2]. split; [apply union_out_in; right; exact H1|exact H2].
    - (* XLoop0 *) intros b s o H. rewrite cs_loop in H. destruct (cb sem b s) as [ob|]; [|discriminate H].
      destruct (loop_inv s ob); [|discriminate H]. injection H as Ho; subst o. split; [apply add_out_in; left; reflexivity|constructor].
    - (* XLoopBrk *) intros b s s' tr _ IH o H. rewrite cs_loop in H. destruct (cb sem b s) as [ob|] eqn:Eb; [|discriminate H].
      destruct (loop_inv s ob); [|discriminate H]. injection H as Ho; subst o. destruct (IH ob eq_refl) as [H1 H2].
      split; [|exact H2]. apply add_out_in. right. exact (loop_outs_in ob CBrk s' H1).
    - (* XLoopExit *) intros b s c s' tr _ IH Hc o H. rewrite cs_loop in H. destruct (cb sem b s) as [ob|] eqn:Eb; [|discriminate H].
      destruct (loop_inv s ob); [|discriminate H]. injection H as Ho; subst o. destruct (IH ob eq_refl) as [H1 H2].
      split; [|exact H2]. apply add_out_in. right. pose proof (loop_outs_in ob c s' H1) as L.
      destruct Hc as [Hc|Hc]; subst c; exact L.
    - (* XLoopIter *) intros b s c1 s1 tr1 c2 s2 tr2 _ IH1 Hc _ IH2 o H.
      pose proof H as H0. rewrite cs_loop in H. destruct (cb sem b s) as [ob|] eqn:Eb; [|discriminate H].
      destruct (loop_inv s ob) eqn:Ei; [|discriminate H]. destruct (IH1 ob eq_refl) as [H1 H2].
      assert (Es : s1 = s).
      { unfold loop_inv in Ei. rewrite forallb_forall in Ei. specialize (Ei (c1, s1) H1). cbn [fst snd] in Ei.
        destruct Hc as [Hc|Hc]; subst c1; apply hst_eqb_eq, Ei. }
      subst s1. destruct (IH2 o H0) as [H3 H4]. split; [exact H3|]. apply Forall_app. split; assumption.
    - (* XCatch *) intros b s c s' tr _ IH o H. rewrite cs_catch in H. destruct (cb sem b s) as [ob|] eqn:Eb; [|discriminate H].
      injection H as Ho; subst o. destruct (IH ob eq_refl) as [H1 H2]. split; [apply catch_outs_in, H1|exact H2].
    - (* XNil *) intros s o H. cbn [cb] in H. injection H as Ho; subst o. split; [left; reflexivity|constructor].
    - (* XStop *) intros st r s c s' tr _ IH Hc o H. rewrite cb_cons in H. destruct (cs sem st s) as [o1|] eqn:E1; [|discriminate H].
      destruct (IH o1 eq_refl) as [H1 H2]. destruct (seq_outs_spec _ _ _ H) as [S1 _].
      split; [apply S1; assumption|exact H2].
    - (* XGo *) intros st r s s1 tr1 c s2 tr2 _ IH1 _ IH2 o H. rewrite cb_cons in H.
      destruct (cs sem st s) as [o1|] eqn:E1; [|discriminate H].
      destruct (IH1 o1 eq_refl) as [H1 H2]. destruct (seq_outs_spec _ _ _ H) as [_ S2].
      destruct (S2 s1 H1) as [o' [Ho' Hincl]]. destruct (IH2 o' Ho') as [H3 H4].
      split; [apply Hincl, H3|]. apply Forall_app. split; assumption.
  Qed.

  Theorem fn_ok_sound : forall f, fn_ok sem f = true -> lock_disciplined sem f.
  Proof.
    intros f H c s tr Hx. unfold fn_ok in H. destruct (cb sem (lf_body f) hinit) as [o|] eqn:E; [|discriminate H].
    destruct (proj2 check_sound _ _ _ _ _ Hx o E) as [H1 H2]. split; [|exact H2].
    rewrite forallb_forall in H. specialize (H (c, s) H1). unfold exit_okb in H. cbn [fst snd] in H.
    unfold exit_clean. destruct c; try discriminate H.
    - right. split; [left; reflexivity|]. destruct (run_defers (h_dfr s) (h_held s)) as [[|x r]|]; [reflexivity|discriminate H|discriminate H].
    - right. split; [right; reflexivity|]. destruct (run_defers (h_dfr s) (h_held s)) as [[|x r]|]; [reflexivity|discriminate H|discriminate H].
    - left. reflexivity.
  Qed.
End Sound.

(* the checker is not vacuous: it refuses the three shapes the discipline forbids *)
Definition ex_leak : lfunc :=   (* Lock; if err { return }; Unlock; return *)
  mkLfunc [] (B[ SLock 4 false; SAlt (B[ SRet ]) BNil; SUnlock 4 false; SRet ]).
Definition ex_block : lfunc :=  (* Lock; <-ch; Unlock *)
  mkLfunc [] (B[ SLock 4 false; SBlock; SUnlock 4 false ]).
Definition ex_order : lfunc :=  (* a.Lock; b.Lock with a < b *)
  mkLfunc [] (B[ SLock 4 false; SCall false [7]; SUnlock 4 false ]).
Definition ex_good : lfunc :=   (* Lock; r := f(); Unlock; if r != nil { return }; g(); return *)
  mkLfunc [] (B[ SLock 4 false; SCall false [3]; SUnlock 4 false; SAlt (B[ SRet ]) BNil; SCall true [7; 4]; SRet ]).

Lemma checker_refuses : fn_ok (fun _ => false) ex_leak = false /\ fn_ok (fun _ => false) ex_block = false /\
  fn_ok (fun _ => false) ex_order = false /\ fn_ok (fun _ => false) ex_good = true.
Proof. vm_compute. repeat split. Qed.

(* ... and rightly so: the leaking shape HAS an execution that returns with the lock held *)
Lemma leak_not_disciplined : ~ lock_disciplined (fun _ => false) ex_leak.
Proof.
  intros H.
  assert (X : xb (lf_body ex_leak) hinit CRet (mkH [(4, false)] []) ([([], EvAcq 4)] ++ [])).
  { unfold ex_leak. cbn [lf_body]. eapply XGo; [apply XLock|]. apply XStop; [|discriminate].
    apply XAltL. apply XStop; [apply XRet|discriminate]. }
  destruct (H _ _ _ X) as [[E|[_ E]] _]; [discriminate E|]. cbn in E. discriminate E.
Qed.

(* ================================================================== *)
(* (2) the generated table                                             *)
(* ================================================================== *)
Theorem lock_progs_disciplined : Forall (lock_disciplined (sem_of lockp_mutexes)) lockp_progs.
Proof.
  apply Forall_forall. intros f Hf. apply fn_ok_sound.
  assert (H : forallb (fn_ok (sem_of lockp_mutexes)) lockp_progs = true) by (vm_compute; reflexivity).
  rewrite forallb_forall in H. exact (H f Hf).
Qed.

Lemma site_plainb_spec ms l : site_plainb ms l = true -> plain_mutex ms (ls_mutex l).
Proof.
  unfold site_plainb, plain_mutex. intros H. apply existsb_exists in H. destruct H as [x [Hin Hx]].
  apply andb_true_iff in Hx. destruct Hx as [H1 H2]. exists x. split; [exact Hin|]. split; [lia|].
  destruct (lm_sem x); [discriminate H2|reflexivity].
Qed.

Theorem lock_sites_plain : Forall (fun l => plain_mutex lockp_mutexes (ls_mutex l)) (lockp_sites ++ lockp_sites_conn).
Proof.
  apply Forall_forall. intros l Hl. apply site_plainb_spec.
  assert (H : forallb (site_plainb lockp_mutexes) (lockp_sites ++ lockp_sites_conn) = true) by (vm_compute; reflexivity).
  rewrite forallb_forall in H. exact (H l Hl).
Qed.

(* every function in which a lock site of the call path lies has its program in the table *)
Definition name_eqb (a b : list Z) : bool := if list_eq_dec Z.eq_dec a b then true else false.
Definition site_in_progs (l : lsite) : bool := existsb (fun f => name_eqb (lf_name f) (ls_fn l)) lockp_progs.

Theorem lock_sites_covered : Forall (fun l => exists f, In f lockp_progs /\ lf_name f = ls_fn l) (lockp_sites ++ lockp_sites_conn).
Proof.
  apply Forall_forall. intros l Hl.
  assert (H : forallb site_in_progs (lockp_sites ++ lockp_sites_conn) = true) by (vm_compute; reflexivity).
  rewrite forallb_forall in H. specialize (H l Hl). unfold site_in_progs in H. apply existsb_exists in H.
  destruct H as [f [Hf E]]. exists f. split; [exact Hf|]. unfold name_eqb in E.
  destruct (list_eq_dec Z.eq_dec (lf_name f) (ls_fn l)) as [e|]; [exact e|discriminate E].
Qed.

(* ================================================================== *)
(* (3) threads that follow the discipline                              *)
(* ================================================================== *)
Definition tinv (s : tstate) : Prop :=
  Forall (fun th => ops_ok (fst th) (snd th) = true) s /\ NoDup (concat (map fst s)).

Lemma upd_split {A} (d : A) : forall i (l : list A) x, (i < length l)%nat ->
  exists l1 l2, l = l1 ++ nth i l d :: l2 /\ upd i x l = l1 ++ x :: l2.
Proof.
  induction i as [|i IH]; intros [|y r] x Hl; cbn [length] in Hl; try lia.
  - exists [], r. split; reflexivity.
  - destruct (IH r x ltac:(lia)) as [l1 [l2 [E1 E2]]]. exists (y :: l1), l2. cbn [nth]. split.
    + cbn [app]. f_equal. exact E1.
    + unfold upd in *. cbn [firstn skipn app]. f_equal. exact E2.
Qed.

Lemma nth_default_len {A} (d : A) i l : nth i l d <> d -> (i < length l)%nat.
Proof. intros H. destruct (Nat.lt_ge_cases i (length l)) as [L|L]; [exact L|]. rewrite nth_overflow in H by exact L. contradiction H. reflexivity. Qed.

Lemma holds_any_spec s m : holds_any s m = true <-> In m (concat (map fst s)).
Proof.
  unfold holds_any. rewrite existsb_exists. split.
  - intros [th [Hin H]]. apply existsb_exists in H. destruct H as [x [Hx E]]. apply Z.eqb_eq in E. subst x.
    apply in_concat. exists (fst th). split; [apply in_map, Hin|exact Hx].
  - intros H. apply in_concat in H. destruct H as [h [Hh Hm]]. apply in_map_iff in Hh. destruct Hh as [th [E Hin]].
    subst h. exists th. split; [exact Hin|]. apply existsb_exists. exists m. split; [exact Hm|apply Z.eqb_refl].
Qed.

Lemma existsb_eqb_in m l : existsb (Z.eqb m) l = true <-> In m l.
Proof.
  rewrite existsb_exists. split.
  - intros [x [Hx E]]. apply Z.eqb_eq in E. subst x. exact Hx.
  - intros H. exists m. split; [exact H|apply Z.eqb_refl].
Qed.

Lemma zremove_incl m l x : In x (zremove m l) -> In x l.
Proof.
  induction l as [|y r IH]; cbn [zremove]; [intros []|]. destruct (m =? y); cbn [In]; intuition.
Qed.

Lemma zremove_nodup m l : NoDup l -> NoDup (zremove m l).
Proof.
  induction l as [|y r IH]; cbn [zremove]; intros H; [exact H|]. inversion H as [|? ? Hn Hr]. subst.
  destruct (m =? y); [exact Hr|]. constructor; [|apply IH, Hr]. intros Hin. apply Hn. eapply zremove_incl, Hin.
Qed.

Lemma concat_mid (l1 l2 : list (list Z)) h : concat (l1 ++ h :: l2) = concat l1 ++ h ++ concat l2.
Proof. rewrite concat_app. cbn [concat]. reflexivity. Qed.

Lemma NoDup_app_remove_l (a b : list Z) : NoDup (a ++ b) -> NoDup b.
Proof. induction a as [|x r IH]; cbn [app]; intros H; [exact H|]. inversion H. apply IH. assumption. Qed.
Lemma NoDup_app_remove_r (a b : list Z) : NoDup (a ++ b) -> NoDup a.
Proof.
  induction a as [|x r IH]; cbn [app]; intros H; [constructor|]. inversion H as [|? ? Hn Hr]. subst.
  constructor; [|apply IH, Hr]. intros X. apply Hn. apply in_or_app. left. exact X.
Qed.

Lemma nodup_mid_sub (a b h h' : list Z) : NoDup (a ++ h ++ b) -> NoDup h' -> (forall x, In x h' -> In x h) -> NoDup (a ++ h' ++ b).
Proof.
  intros H Hh' Hsub. induction a as [|y r IH]; cbn [app] in *.
  - induction h' as [|z q IHq]; cbn [app].
    + apply NoDup_app_remove_l in H. exact H.
    + inversion Hh' as [|? ? Hn Hq]. subst. constructor.
      * intros Hin. apply in_app_or in Hin. destruct Hin as [Hin|Hin]; [apply Hn, Hin|].
        assert (Hz : In z h) by (apply Hsub; left; reflexivity).
        clear - H Hz Hin. induction h as [|w t IHt]; [destruct Hz|]. cbn [app] in H. inversion H as [|? ? Hn' Hr]. subst.
        destruct Hz as [E|Hz]; [subst w; apply Hn'; apply in_or_app; right; exact Hin|apply IHt; assumption].
      * apply IHq; [exact Hq|]. intros x Hx. apply Hsub. right. exact Hx.
  - inversion H as [|? ? Hn Hr]. subst. constructor; [|apply IH, Hr].
    intros Hin. apply Hn. apply in_app_or in Hin. apply in_or_app. destruct Hin as [Hin|Hin]; [left; exact Hin|right].
    apply in_app_or in Hin. apply in_or_app. destruct Hin as [Hin|Hin]; [left; apply Hsub, Hin|right; exact Hin].
Qed.

Lemma nodup_mid_add (a b h : list Z) m : NoDup (a ++ h ++ b) -> ~ In m (a ++ h ++ b) -> NoDup (a ++ (m :: h) ++ b).
Proof.
  intros H Hn. cbn [app]. apply NoDup_Add with (a := m) (l := a ++ h ++ b); [|split; assumption].
  apply Add_app.
Qed.

Lemma tstep_inv s l s' : tinv s -> tstep s l = Some s' -> tinv s'.
Proof.
  intros [Hops Hnd] H. destruct l as [i|i]; cbn [tstep] in H.
  - destruct (nth i s ([], [])) as [held ops] eqn:En. destruct ops as [|[m|m|] r]; try discriminate H.
    + (* acquire *)
      destruct (holds_any s m) eqn:Eh; [discriminate H|]. injection H as H. subst s'.
      assert (Hl : (i < length s)%nat) by (apply (@nth_default_len (list Z * list lop)%type ([], []) i s); rewrite En; discriminate).
      destruct (@upd_split (list Z * list lop)%type ([], []) i s (m :: held, r) Hl) as [l1 [l2 [E1 E2]]]. rewrite En in E1. rewrite E2.
      assert (Hnot : ~ In m (concat (map fst s))) by (intros X; apply holds_any_spec in X; rewrite X in Eh; discriminate Eh).
      rewrite E1 in Hops, Hnd, Hnot. apply Forall_app in Hops. destruct Hops as [Ho1 Ho2]. inversion Ho2 as [|? ? Hth Ho3]. subst.
      cbn [fst snd ops_ok] in Hth. apply andb_true_iff in Hth. destruct Hth as [_ Hth]. split.
      * apply Forall_app. split; [exact Ho1|]. constructor; [exact Hth|exact Ho3].
      * rewrite map_app in *. cbn [map fst] in *. rewrite concat_mid in *. apply nodup_mid_add; assumption.
    + (* release *)
      destruct (existsb (Z.eqb m) held) eqn:Eh; [|discriminate H]. injection H as H. subst s'.
      assert (Hl : (i < length s)%nat) by (apply (@nth_default_len (list Z * list lop)%type ([], []) i s); rewrite En; discriminate).
      destruct (@upd_split (list Z * list lop)%type ([], []) i s (zremove m held, r) Hl) as [l1 [l2 [E1 E2]]]. rewrite En in E1. rewrite E2.
      rewrite E1 in Hops, Hnd. apply Forall_app in Hops. destruct Hops as [Ho1 Ho2]. inversion Ho2 as [|? ? Hth Ho3]. subst.
      cbn [fst snd ops_ok] in Hth. apply andb_true_iff in Hth. destruct Hth as [_ Hth]. split.
      * apply Forall_app. split; [exact Ho1|]. constructor; [exact Hth|exact Ho3].
      * rewrite map_app in *. cbn [map fst] in *. rewrite concat_mid in *.
        assert (Hh : NoDup held).
        { apply NoDup_app_remove_l in Hnd. apply NoDup_app_remove_r in Hnd. exact Hnd. }
        eapply nodup_mid_sub; [exact Hnd|apply zremove_nodup, Hh|apply zremove_incl].
  - destruct (nth i s ([], [])) as [held ops] eqn:En. destruct ops as [|[m|m|] r]; try discriminate H.
    injection H as H. subst s'.
    assert (Hl : (i < length s)%nat) by (apply (@nth_default_len (list Z * list lop)%type ([], []) i s); rewrite En; discriminate).
    destruct (@upd_split (list Z * list lop)%type ([], []) i s (held, r) Hl) as [l1 [l2 [E1 E2]]]. rewrite En in E1. rewrite E2.
    rewrite E1 in Hops, Hnd. apply Forall_app in Hops. destruct Hops as [Ho1 Ho2]. inversion Ho2 as [|? ? Hth Ho3]. subst.
    cbn [fst snd ops_ok] in Hth. split.
    + apply Forall_app. split; [exact Ho1|]. constructor; [|exact Ho3]. cbn [fst snd]. destruct held; [exact Hth|discriminate Hth].
    + rewrite map_app in *. cbn [map fst] in *. exact Hnd.
Qed.

Lemma trun_inv ls : forall s s', tinv s -> trun s ls = Some s' -> tinv s'.
Proof.
  induction ls as [|l r IH]; intros s s' Hi H; cbn [trun] in H.
  - injection H as H. subst s'. exact Hi.
  - destruct (tstep s l) as [s1|] eqn:E; [|discriminate H]. eapply IH; [eapply tstep_inv; eassumption|exact H].
Qed.

Lemma tinit_inv threads : Forall (fun ops => ops_ok [] ops = true) threads -> tinv (tinit threads).
Proof.
  intros H. unfold tinit. split.
  - apply Forall_forall. intros th Hin. apply in_map_iff in Hin. destruct Hin as [ops [E Hin]]. subst th.
    cbn [fst snd]. rewrite Forall_forall in H. apply H, Hin.
  - rewrite map_map. cbn [fst]. induction threads as [|x r IH]; cbn [map concat app]; [constructor|].
    apply IH. inversion H. assumption.
Qed.

Lemma exists_min (l : list Z) : l <> [] -> exists m, In m l /\ forall x, In x l -> m <= x.
Proof.
  induction l as [|y r IH]; intros H; [contradiction H; reflexivity|]. destruct r as [|z q].
  - exists y. split; [left; reflexivity|]. intros x [E|[]]. lia.
  - destruct (IH ltac:(discriminate)) as [m [Hin Hm]]. destruct (Z_le_gt_dec y m) as [L|L].
    + exists y. split; [left; reflexivity|]. intros x [E|Hx]; [lia|]. specialize (Hm x Hx). lia.
    + exists m. split; [right; exact Hin|]. intros x [E|Hx]; [lia|apply Hm, Hx].
Qed.

(* PROGRESS: while some mutex is held, a thread that holds one has an enabled step of its own *)
Lemma holder_progress s : tinv s -> ~ all_free s ->
  exists i held ops, nth i s ([], []) = (held, ops) /\ held <> [] /\ exists s', tstep s (TStep i) = Some s'.
Proof.
  intros [Hops Hnd] Hnf.
  assert (Hne : concat (map fst s) <> []).
  { intros E. apply Hnf. apply Forall_forall. intros th Hin.
    destruct (fst th) as [|x r] eqn:Ef; [reflexivity|]. exfalso.
    assert (X : In x (concat (map fst s))) by (apply in_concat; exists (fst th); split; [apply in_map, Hin|rewrite Ef; left; reflexivity]).
    rewrite E in X. destruct X. }
  destruct (exists_min _ Hne) as [m0 [Hm0 Hmin]].
  apply in_concat in Hm0. destruct Hm0 as [h [Hh Hm0]]. apply in_map_iff in Hh. destruct Hh as [th [Eth Hth]]. subst h.
  destruct (In_nth _ _ ([], []) Hth) as [i [Hi En]]. destruct th as [held ops]. cbn [fst] in Hm0.
  exists i, held, ops. split; [exact En|]. split; [intros E; subst held; destruct Hm0|].
  rewrite Forall_forall in Hops. specialize (Hops _ Hth). cbn [fst snd] in Hops.
  cbn [tstep]. rewrite En. destruct ops as [|[m|m|] r].
  - cbn [ops_ok] in Hops. destruct held; [destruct Hm0|discriminate Hops].
  - cbn [ops_ok] in Hops. apply andb_true_iff in Hops. destruct Hops as [Hlt _].
    rewrite forallb_forall in Hlt. specialize (Hlt m0 Hm0).
    destruct (holds_any s m) eqn:Eh.
    + apply holds_any_spec in Eh. specialize (Hmin m Eh). lia.
    + eexists. reflexivity.
  - cbn [ops_ok] in Hops. apply andb_true_iff in Hops. destruct Hops as [Hin _]. rewrite Hin. eexists. reflexivity.
  - cbn [ops_ok] in Hops. destruct held; [destruct Hm0|discriminate Hops].
Qed.

Lemma sections_left_app a b : sections_left (a ++ b) = (sections_left a + sections_left b)%nat.
Proof. unfold sections_left. rewrite map_app, list_sum_app. reflexivity. Qed.

Lemma list_sum_cons' x l : list_sum (x :: l) = (x + list_sum l)%nat.
Proof. reflexivity. Qed.

Lemma sections_left_cons th s : sections_left (th :: s) = (section_left (fst th) (snd th) + sections_left s)%nat.
Proof. reflexivity. Qed.

Lemma sections_left_free s : all_free s -> sections_left s = O.
Proof.
  unfold all_free. induction s as [|[h o] r IH]; intros H; [reflexivity|]. inversion H as [|? ? Hh Hr]. subst.
  cbn [fst] in Hh. subst h. rewrite sections_left_cons, IH by exact Hr. cbn [fst snd]. destruct o; reflexivity.
Qed.

(* a step of a thread that holds something takes exactly one operation off the open sections *)
Lemma holder_step_measure s i held ops s' : nth i s ([], []) = (held, ops) -> held <> [] ->
  tstep s (TStep i) = Some s' -> sections_left s = S (sections_left s').
Proof.
  intros En Hne H. cbn [tstep] in H. rewrite En in H.
  assert (Hl : (i < length s)%nat) by (apply (@nth_default_len (list Z * list lop)%type ([], []) i s); rewrite En; intros E; inversion E; subst; apply Hne; reflexivity).
  destruct ops as [|[m|m|] r]; try discriminate H.
  - destruct (holds_any s m); [discriminate H|]. injection H as H. subst s'.
    destruct (@upd_split (list Z * list lop)%type ([], []) i s (m :: held, r) Hl) as [l1 [l2 [E1 E2]]]. rewrite En in E1. rewrite E2. rewrite E1 at 1.
    rewrite !sections_left_app, !sections_left_cons. cbn [fst snd].
    destruct held as [|x q]; [contradiction Hne; reflexivity|]. cbn [section_left]. lia.
  - destruct (existsb (Z.eqb m) held); [|discriminate H]. injection H as H. subst s'.
    destruct (@upd_split (list Z * list lop)%type ([], []) i s (zremove m held, r) Hl) as [l1 [l2 [E1 E2]]]. rewrite En in E1. rewrite E2. rewrite E1 at 1.
    rewrite !sections_left_app, !sections_left_cons. cbn [fst snd].
    destruct held as [|x q]; [contradiction Hne; reflexivity|]. cbn [section_left]. lia.
Qed.

Lemma classic_all_free s : all_free s \/ ~ all_free s.
Proof.
  unfold all_free. induction s as [|[h o] r IH].
  - left. constructor.
  - destruct h as [|x q].
    + destruct IH as [F|F]; [left; constructor; [reflexivity|exact F]|right; intros X; inversion X; contradiction].
    + right. intros X. inversion X as [|? ? Hh]. discriminate Hh.
Qed.

(* BOUNDED WAIT: from any state of disciplined threads the lock holders alone -- no event of
   the environment, no timer, no step of a thread that holds nothing -- reach a state in
   which every mutex is free, in exactly [sections_left s] steps *)
Lemma drain n : forall s, tinv s -> sections_left s = n ->
  exists ls s', Forall is_tstep ls /\ length ls = n /\ trun s ls = Some s' /\ all_free s'.
Proof.
  induction n as [|n IH]; intros s Hi Hn.
  - exists [], s. split; [constructor|]. split; [reflexivity|]. split; [reflexivity|].
    destruct (classic_all_free s) as [F|F]; [exact F|]. exfalso.
    destruct (holder_progress s Hi F) as [i [held [ops [En [Hne [s' Hs]]]]]].
    rewrite (holder_step_measure _ _ _ _ _ En Hne Hs) in Hn. discriminate Hn.
  - destruct (classic_all_free s) as [F|F]; [rewrite (sections_left_free s F) in Hn; discriminate Hn|].
    destruct (holder_progress s Hi F) as [i [held [ops [En [Hne [s1 Hs]]]]]].
    pose proof (holder_step_measure _ _ _ _ _ En Hne Hs) as Hm.
    destruct (IH s1 (tstep_inv _ _ _ Hi Hs) ltac:(lia)) as [ls [s' [H1 [H2 [H3 H4]]]]].
    exists (TStep i :: ls), s'. split; [constructor; [exact I|exact H1]|]. split; [cbn [length]; lia|].
    split; [cbn [trun]; rewrite Hs; exact H3|exact H4].
Qed.

Theorem lock_wait_bounded : forall threads ls s,
  Forall (fun ops => ops_ok [] ops = true) threads -> trun (tinit threads) ls = Some s ->
  (~ all_free s -> exists i held ops, nth i s ([], []) = (held, ops) /\ held <> [] /\ exists s1, tstep s (TStep i) = Some s1) /\
  (exists ls' s', Forall is_tstep ls' /\ length ls' = sections_left s /\ trun s ls' = Some s' /\ all_free s').
Proof.
  intros threads ls s Hok Hrun. pose proof (trun_inv ls _ _ (tinit_inv threads Hok) Hrun) as Hi. split.
  - intros Hnf. apply holder_progress; assumption.
  - apply (drain (sections_left s) s Hi eq_refl).
Qed.

(* the hypotheses are satisfiable, and the bound is tight: two callers and a reader goroutine
   around the exchange set (4) and the state mutex (7), one of them nesting 7 > 4 *)
Example ex_threads : list (list lop) :=
  [[OAcq 4; ORel 4; OWait; OAcq 4; ORel 4]; [OAcq 7; OAcq 4; ORel 4; ORel 7]; [OWait; OAcq 4; ORel 4]].

Lemma ex_threads_ok : Forall (fun ops => ops_ok [] ops = true) ex_threads /\
  exists s, trun (tinit ex_threads) [TStep 1; TStep 1] = Some s /\ sections_left s = 2%nat /\
            tstep s (TStep 0) = None.   (* thread 0 waits for mutex 4 *)
Proof.
  split; [repeat constructor|]. eexists. split; [vm_compute; reflexivity|]. split; vm_compute; reflexivity.
Qed.

(* UNBALANCED: a thread that returns with mutex 4 held (the shape `Lock; if err { return }; Unlock`
   on its error path) is not accepted by [ops_ok], and a second thread that then wants the mutex
   has no enabled step, and nobody else has one either: it waits for ever *)
Theorem leaked_lock_blocks :
  ops_ok [] [OAcq 4] = false /\
  exists s, trun (tinit [[OAcq 4]; [OAcq 4; ORel 4]]) [TStep 0] = Some s /\
    nth 1 s ([], []) = ([], [OAcq 4; ORel 4]) /\ forall l, tstep s l = None.
Proof.
  split; [reflexivity|]. eexists. split; [vm_compute; reflexivity|]. split; [reflexivity|].
  intros [i|i]; destruct i as [|[|i]]; try reflexivity; destruct i; reflexivity.
Qed.

(* ================================================================== *)
(* the combined table: waits and lock acquisitions of the call path   *)
(* ================================================================== *)
From Verif Require Import Gen.GenWaitSites Model.CallPath Proofs.CallPathP.

Inductive bsite := BWait (w : wsite) | BLock (l : lsite).

(* a blocking site of the call path is bounded by the caller's deadline if it is a wait with
   an exit bound to the deadline (or the never-blocking release of the semaphore), or the
   acquisition of a plain mutex all of whose users -- every lock program of the package --
   follow the lock discipline (so that the wait is bounded by the holders' critical
   sections, lock_wait_bounded, none of which contains a blocking statement) *)
Definition bsite_bounded (ms : list lmutex) (progs : list lfunc) (b : bsite) : Prop :=
  match b with
  | BWait w => has_deadline_exit w \/ is_release w
  | BLock l => plain_mutex ms (ls_mutex l) /\ (exists f, In f progs /\ lf_name f = ls_fn l) /\
               Forall (lock_disciplined (sem_of ms)) progs
  end.

Definition call_path_sites : list bsite := map BWait wait_sites ++ map BLock (lockp_sites ++ lockp_sites_conn).

Theorem all_blocking_sites_bounded : Forall (bsite_bounded lockp_mutexes lockp_progs) call_path_sites.
Proof.
  unfold call_path_sites. apply Forall_app. split; apply Forall_forall; intros b Hb; apply in_map_iff in Hb; destruct Hb as [x [E Hx]]; subst b.
  - cbn [bsite_bounded]. pose proof wait_sites_ok as W. rewrite Forall_forall in W. apply W, Hx.
  - cbn [bsite_bounded]. split; [|split].
    + pose proof lock_sites_plain as P. rewrite Forall_forall in P. apply P, Hx.
    + pose proof lock_sites_covered as P. rewrite Forall_forall in P. apply P, Hx.
    + exact lock_progs_disciplined.
Qed.

(* the tables are not empty and contain what the property text names *)
Definition has_prog (name : list Z) : bool := existsb (fun f => name_eqb (lf_name f) name) lockp_progs.
Definition has_mutex (name : list Z) : bool := existsb (fun x => name_eqb (lm_name x) name && negb (lm_sem x)) lockp_mutexes.
Definition sites_of_mutex (name : list Z) : nat :=
  length (filter (fun l => existsb (fun x => name_eqb (lm_name x) name && (lm_id x =? ls_mutex l)) lockp_mutexes) (lockp_sites ++ lockp_sites_conn)).

(* ================================================================== *)
(* (4) an execution of a disciplined lock program IS a thread of (3)   *)
(* ================================================================== *)
(* the locks-held annotation of every event of a run is the lock state at that moment *)
Inductive tr_cons : list hitem -> ltrace -> list hitem -> Prop :=
  | TCnil : forall h, tr_cons h [] h
  | TCacq : forall h m rd tr h', tr_cons ((m, rd) :: h) tr h' -> tr_cons h ((h, EvAcq m) :: tr) h'
  | TCrel : forall h m rd h1 tr h', remove1 (m, rd) h = Some h1 -> tr_cons h1 tr h' -> tr_cons h ((h, EvRel m) :: tr) h'
  | TCbad : forall h m tr h', tr_cons h tr h' -> tr_cons h ((h, EvBadRel m) :: tr) h'
  | TCin : forall h m tr h', tr_cons h tr h' -> tr_cons h ((h, EvIn m) :: tr) h'
  | TCblk : forall h tr h', tr_cons h tr h' -> tr_cons h ((h, EvBlock) :: tr) h'.

Lemma tr_cons_app h1 tr1 h2 : tr_cons h1 tr1 h2 -> forall tr2 h3, tr_cons h2 tr2 h3 -> tr_cons h1 (tr1 ++ tr2) h3.
Proof.
  induction 1; intros tr2 h3 H2; cbn [app]; try (econstructor; eauto; fail). exact H2.
Qed.

Lemma tr_cons_ins h : forall acq, tr_cons h (map (fun m => (h, EvIn m)) acq) h.
Proof. induction acq as [|m r IH]; cbn [map]; constructor. exact IH. Qed.

Lemma run_tr_cons :
  (forall st s c s' tr, xs st s c s' tr -> tr_cons (h_held s) tr (h_held s')) /\
  (forall b s c s' tr, xb b s c s' tr -> tr_cons (h_held s) tr (h_held s')).
Proof.
  apply xsb_ind; intros; cbn [h_held]; try (constructor; fail); try assumption.
  - apply TCacq with (rd := rd). constructor.
  - eapply TCrel; [eassumption|constructor].
  - constructor. constructor.
  - constructor. constructor.
  - destruct blk; cbn [app]; [constructor|]; apply tr_cons_ins.
  - eapply tr_cons_app; eassumption.
  - eapply tr_cons_app; eassumption.
Qed.

Section Link.
  Variable sem : Z -> bool.
  Notation ids := (plain_ids sem).

  Lemma ids_cons x h : ids (x :: h) = if sem (fst x) then ids h else fst x :: ids h.
  Proof. unfold plain_ids. cbn [filter]. destruct (sem (fst x)); reflexivity. Qed.

  Lemma in_ids m h : In m (ids h) -> exists x, In x h /\ fst x = m.
  Proof.
    unfold plain_ids. intros H. apply in_map_iff in H. destruct H as [x [E Hx]]. apply filter_In in Hx.
    exists x. split; [apply Hx|exact E].
  Qed.

  Lemma remove1_in x h h1 : remove1 x h = Some h1 -> In x h.
  Proof.
    revert h1. induction h as [|y r IH]; intros h1 H; cbn [remove1] in H; [discriminate H|].
    destruct (hitem_eqb x y) eqn:E; [apply hitem_eqb_eq in E; left; symmetry; exact E|].
    destruct (remove1 x r) as [r'|]; [|discriminate H]. right. eapply IH. reflexivity.
  Qed.

  (* removing a semaphore item does not change the plain ids; removing a plain item removes its id *)
  Lemma remove1_ids m rd : forall h h1, remove1 (m, rd) h = Some h1 -> NoDup (ids h) ->
    ids h1 = (if sem m then ids h else zremove m (ids h)) /\ NoDup (ids h1).
  Proof.
    induction h as [|y r IH]; intros h1 H Hnd; cbn [remove1] in H; [discriminate H|].
    destruct (hitem_eqb (m, rd) y) eqn:E.
    - apply hitem_eqb_eq in E. subst y. injection H as H. subst h1. rewrite ids_cons in *. cbn [fst] in *.
      destruct (sem m); [split; [reflexivity|exact Hnd]|]. cbn [zremove]. rewrite Z.eqb_refl.
      split; [reflexivity|]. inversion Hnd. assumption.
    - destruct (remove1 (m, rd) r) as [r'|] eqn:Er; [|discriminate H]. injection H as H. subst h1.
      rewrite !ids_cons in *. destruct (sem (fst y)) eqn:Es.
      + destruct (IH r' eq_refl Hnd) as [I1 I2]. split; assumption.
      + inversion Hnd as [|? ? Hn Hr]. subst. destruct (IH r' eq_refl Hr) as [I1 I2].
        destruct (sem m) eqn:Esm.
        * split; [rewrite I1; reflexivity|]. constructor; [rewrite I1|exact I2]. exact Hn.
        * cbn [zremove]. destruct (m =? fst y) eqn:Em.
          -- (* the same mutex in another mode below: excluded by NoDup *)
             exfalso. apply Z.eqb_eq in Em. apply Hn. rewrite <- Em.
             pose proof (remove1_in _ _ _ Er) as Hin. unfold plain_ids. apply in_map_iff. exists (m, rd).
             split; [reflexivity|]. apply filter_In. split; [exact Hin|]. cbn [fst]. rewrite Esm. reflexivity.
          -- split; [rewrite I1; reflexivity|]. constructor; [|exact I2].
             intros X. apply Hn. rewrite I1 in X. eapply zremove_incl, X.
  Qed.

  Lemma forallb_lt_ids m h : (forall x, In x h -> m < fst x) -> forallb (fun y => m <? y) (ids h) = true.
  Proof.
    intros H. apply forallb_forall. intros y Hy. apply in_ids in Hy. destruct Hy as [x [Hx E]]. subst y.
    specialize (H x Hx). lia.
  Qed.

  Lemma not_in_ids m h : (forall x, In x h -> m < fst x) -> ~ In m (ids h).
  Proof. intros H X. apply in_ids in X. destruct X as [x [Hx E]]. specialize (H x Hx). lia. Qed.

  Lemma ops_of_trace_cons e tr : ops_of_trace sem (e :: tr) = ops_of_ev sem e ++ ops_of_trace sem tr.
  Proof. reflexivity. Qed.

  (* the trace of a run whose events are all allowed, followed by operations that are fine from
     the final lock state, is fine from the initial lock state *)
  Lemma trace_ops_ok h tr h' : tr_cons h tr h' -> Forall (ev_ok sem) tr -> NoDup (ids h) ->
    NoDup (ids h') /\ forall rest, ops_ok (ids h') rest = true -> ops_ok (ids h) (ops_of_trace sem tr ++ rest) = true.
  Proof.
    induction 1 as [h|h m rd tr h' _ IH|h m rd h1 tr h' Hr _ IH|h m tr h' _ IH|h m tr h' _ IH|h tr h' _ IH]; intros Hok Hnd.
    - split; [exact Hnd|]. intros rest H. exact H.
    - inversion Hok as [|? ? He Hrest]. subst. unfold ev_ok in He. cbn [fst snd] in He.
      assert (Hnd' : NoDup (ids ((m, rd) :: h))).
      { rewrite ids_cons. cbn [fst]. destruct (sem m); [exact Hnd|]. constructor; [apply not_in_ids, He|exact Hnd]. }
      destruct (IH Hrest Hnd') as [I1 I2]. split; [exact I1|]. intros rest H.
      rewrite ops_of_trace_cons, <- app_assoc. unfold ops_of_ev. cbn [snd]. specialize (I2 rest H).
      rewrite ids_cons in I2. cbn [fst] in I2. destruct (sem m); [exact I2|].
      cbn [app ops_ok]. rewrite forallb_lt_ids by exact He. exact I2.
    - inversion Hok as [|? ? He Hrest]. subst.
      destruct (remove1_ids m rd h h1 Hr Hnd) as [E1 Hnd1]. destruct (IH Hrest Hnd1) as [I1 I2]. split; [exact I1|]. intros rest H.
      rewrite ops_of_trace_cons, <- app_assoc. unfold ops_of_ev. cbn [snd]. specialize (I2 rest H). rewrite E1 in I2.
      destruct (sem m) eqn:Esm; [exact I2|]. cbn [app ops_ok]. rewrite I2, andb_true_r.
      apply existsb_eqb_in. pose proof (remove1_in _ _ _ Hr) as Hin. unfold plain_ids. apply in_map_iff. exists (m, rd).
      split; [reflexivity|]. apply filter_In. split; [exact Hin|]. cbn [fst]. rewrite Esm. reflexivity.
    - inversion Hok as [|? ? He Hrest]. subst. unfold ev_ok in He. cbn [snd] in He. contradiction.
    - inversion Hok as [|? ? He Hrest]. subst. unfold ev_ok in He. cbn [fst snd] in He.
      destruct (IH Hrest Hnd) as [I1 I2]. split; [exact I1|]. intros rest H.
      rewrite ops_of_trace_cons, <- app_assoc. unfold ops_of_ev. cbn [snd]. specialize (I2 rest H).
      destruct (sem m); [exact I2|]. cbn [app ops_ok]. rewrite forallb_lt_ids by exact He.
      cbn [existsb zremove]. rewrite Z.eqb_refl. cbn [orb andb]. exact I2.
    - inversion Hok as [|? ? He Hrest]. subst. unfold ev_ok in He. cbn [fst snd] in He.
      destruct (IH Hrest Hnd) as [I1 I2]. split; [exact I1|]. intros rest H.
      rewrite ops_of_trace_cons, <- app_assoc. unfold ops_of_ev. cbn [snd app ops_ok]. specialize (I2 rest H).
      assert (E : ids h = []).
      { unfold plain_ids. destruct (filter (fun x => negb (sem (fst x))) h) as [|x q] eqn:Ef; [reflexivity|]. exfalso.
        assert (Hx : In x (filter (fun x => negb (sem (fst x))) h)) by (rewrite Ef; left; reflexivity).
        apply filter_In in Hx. destruct Hx as [Hx Hs]. rewrite (He x Hx) in Hs. discriminate Hs. }
      rewrite E in *. exact I2.
  Qed.

  (* the deferred unlocks at a clean exit *)
  Lemma exit_ops_ok : forall dfr held, run_defers dfr held = Some [] -> NoDup (ids held) ->
    ops_ok (ids held) (map ORel (ids dfr)) = true.
  Proof.
    induction dfr as [|[m rd] r IH]; intros held H Hnd; cbn [run_defers] in H.
    - injection H as H. subst held. reflexivity.
    - destruct (remove1 (m, rd) held) as [h1|] eqn:Er; [|discriminate H].
      destruct (remove1_ids m rd held h1 Er Hnd) as [E1 Hnd1]. specialize (IH h1 H Hnd1). rewrite E1 in IH.
      rewrite ids_cons. cbn [fst]. destruct (sem m) eqn:Esm; [exact IH|]. cbn [map ops_ok]. rewrite IH, andb_true_r.
      apply existsb_eqb_in. pose proof (remove1_in _ _ _ Er) as Hin. unfold plain_ids. apply in_map_iff. exists (m, rd).
      split; [reflexivity|]. apply filter_In. split; [exact Hin|]. cbn [fst]. rewrite Esm. reflexivity.
  Qed.

  (* THE LINK: every non-panicking execution of a disciplined lock program performs a list of
     lock operations that the thread model accepts *)
  Theorem run_is_thread : forall f, lock_disciplined sem f ->
    forall c s tr, xb (lf_body f) hinit c s tr -> c <> CPanic -> ops_ok [] (thread_of_run sem tr s) = true.
  Proof.
    intros f Hd c s tr Hx Hc. destruct (Hd c s tr Hx) as [Hexit Hev].
    pose proof (proj2 run_tr_cons _ _ _ _ _ Hx) as Hcons. cbn [hinit h_held] in Hcons.
    assert (Hnd0 : NoDup (ids [])) by constructor.
    destruct (trace_ops_ok _ _ _ Hcons Hev Hnd0) as [Hnd I]. unfold thread_of_run. apply (I (exit_ops sem s)).
    unfold exit_ops. destruct Hexit as [E|[_ E]]; [contradiction|]. apply exit_ops_ok; assumption.
  Qed.
End Link.

(* ... so any number of goroutines, each executing any of the generated lock programs along any of
   its paths, in any interleaving, never leave a mutex waiter behind a holder that cannot finish:
   C05_lock_wait_bounded applies to them *)
Theorem generated_programs_bound_lock_waits : forall runs : list (lfunc * ltrace * hst),
  Forall (fun r => let '(f, tr, s) := r in In f lockp_progs /\ exists c, c <> CPanic /\ xb (lf_body f) hinit c s tr) runs ->
  forall ls st, trun (tinit (map (fun r => let '(f, tr, s) := r in thread_of_run (sem_of lockp_mutexes) tr s) runs)) ls = Some st ->
  (~ all_free st -> exists i held ops, nth i st ([], []) = (held, ops) /\ held <> [] /\ exists s1, tstep st (TStep i) = Some s1) /\
  (exists ls' s', Forall is_tstep ls' /\ length ls' = sections_left st /\ trun st ls' = Some s' /\ all_free s').
Proof.
  intros runs Hruns ls st Hrun. eapply lock_wait_bounded; [|exact Hrun].
  apply Forall_forall. intros ops Hin. apply in_map_iff in Hin. destruct Hin as [[[f tr] s] [E Hr]]. subst ops.
  rewrite Forall_forall in Hruns. specialize (Hruns _ Hr). cbn beta iota in Hruns. destruct Hruns as [Hf [c [Hc Hx]]].
  pose proof lock_progs_disciplined as D. rewrite Forall_forall in D. eapply run_is_thread; [apply D, Hf|exact Hx|exact Hc].
Qed.
