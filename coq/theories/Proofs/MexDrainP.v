(* Proofs about Model/MexDrain.v: the exchange maps drain.
   Invariant: for every message id, the number of map entries with that id (0, 1 or 2:
   one in exchanges, one in expiredExchanges) never exceeds the number of exchange
   objects with that id that have not finished shutting down.  Holds under id reuse,
   repeated expiry, expiry after shutdown, and any interleaving of the atomic steps. *)
From Coq Require Import ZArith List Bool Lia ZifyBool.
From Verif Require Import Base.Wire Model.MexDrain.
Import ListNotations.
Local Open Scope Z_scope.

Definition weight (id : Z) (o : mexobj) : Z :=
  if (mo_id o =? id) && negb (mo_pc o =? 2) then 1 else 0.

Fixpoint live (id : Z) (objs : list mexobj) : Z :=
  match objs with
  | [] => 0
  | o :: r => weight id o + live id r
  end.

Definition entries (id : Z) (s : mexset) : Z :=
  zb (has_key id (ms_exch s)) + zb (has id (ms_expired s)).

Definition MInv (s : mexset) : Prop := forall id, entries id s <= live id (ms_objs s).

Lemma live_nonneg id objs : 0 <= live id objs.
Proof. induction objs as [|o r IH]; cbn [live]; [lia|]. unfold weight. destruct (_ && _); lia. Qed.

Lemma live_app id a b : live id (a ++ b) = live id a + live id b.
Proof. induction a as [|o r IH]; cbn [live app]; lia. Qed.

Lemma live_upd id n o o' objs :
  nth_error objs n = Some o ->
  live id (upd_nth n o' objs) = live id objs - weight id o + weight id o'.
Proof.
  revert n. induction objs as [|x r IH]; intros n Hn.
  - destruct n; discriminate.
  - destruct n as [|n'].
    + cbn in Hn. injection Hn as ->. cbn [upd_nth live]. lia.
    + cbn in Hn. cbn [upd_nth live]. rewrite (IH _ Hn). lia.
Qed.

Lemma live_ge_weight id n o objs : nth_error objs n = Some o -> weight id o <= live id objs.
Proof.
  revert n. induction objs as [|x r IH]; intros n Hn.
  - destruct n; discriminate.
  - destruct n as [|n']; cbn in Hn; cbn [live].
    + injection Hn as ->. pose proof (live_nonneg id r). lia.
    + specialize (IH _ Hn). assert (0 <= weight id x) by (unfold weight; destruct (_ && _); lia). lia.
Qed.

Lemma has_key_del id id' l : has_key id (del_key id' l) = has_key id l && negb (id =? id').
Proof.
  unfold has_key, del_key. induction l as [|[k v] r IH]; cbn [filter existsb fst]; [reflexivity|].
  destruct (k =? id') eqn:E; cbn [negb].
  - rewrite IH. destruct (k =? id) eqn:E2; cbn [orb]; [|reflexivity].
    assert (id = id') by lia. subst. rewrite Z.eqb_refl. cbn. rewrite andb_false_r. reflexivity.
  - cbn [existsb fst]. rewrite IH. destruct (k =? id) eqn:E2; cbn [orb]; [|reflexivity].
    assert (id =? id' = false) by lia. rewrite H. reflexivity.
Qed.

Lemma has_del id id' l : has id (del id' l) = has id l && negb (id =? id').
Proof.
  unfold has, del. induction l as [|k r IH]; cbn [filter existsb]; [reflexivity|].
  destruct (k =? id') eqn:E; cbn [negb].
  - rewrite IH. destruct (k =? id) eqn:E2; cbn [orb]; [|reflexivity].
    assert (id = id') by lia. subst. rewrite Z.eqb_refl. cbn. rewrite andb_false_r. reflexivity.
  - cbn [existsb]. rewrite IH. destruct (k =? id) eqn:E2; cbn [orb]; [|reflexivity].
    assert (id =? id' = false) by lia. rewrite H. reflexivity.
Qed.

Lemma has_cons_same id l : has id (id :: l) = true.
Proof. unfold has. cbn [existsb]. rewrite Z.eqb_refl. reflexivity. Qed.
Lemma has_cons_other id id0 l : id <> id0 -> has id (id0 :: l) = has id l.
Proof. intros H. unfold has. cbn [existsb]. assert (id0 =? id = false) as -> by lia. reflexivity. Qed.

Lemma has_set_add_same id l : has id (if has id l then l else id :: l) = true.
Proof. destruct (has id l) eqn:E; [exact E|apply has_cons_same]. Qed.
Lemma has_set_add_other id id0 l : id <> id0 -> has id (if has id0 l then l else id0 :: l) = has id l.
Proof. intros H. destruct (has id0 l); [reflexivity|apply has_cons_other; exact H]. Qed.

(* deleteExchange: never adds entries; removes one entry of [id0] when there is one *)
Lemma delete_entries id0 s found expired s1 :
  delete_exchange id0 s = (found, expired, s1) ->
  ms_objs s1 = ms_objs s /\ ms_shutdown s1 = ms_shutdown s /\
  (forall id, id <> id0 -> entries id s1 = entries id s) /\
  entries id0 s1 = entries id0 s - zb (found || expired) /\
  (found || expired = false -> entries id0 s = 0) /\
  (found = true -> has_key id0 (ms_exch s1) = false) /\
  (found = false -> ms_exch s1 = ms_exch s).
Proof.
  unfold delete_exchange. intros H.
  destruct (has_key id0 (ms_exch s)) eqn:Hk.
  - injection H as <- <- <-. cbn [ms_objs ms_shutdown]. unfold entries; cbn [ms_exch ms_expired].
    repeat split; try reflexivity; try discriminate.
    + intros id Hne. rewrite has_key_del. assert (id =? id0 = false) by lia. rewrite H. cbn. rewrite andb_true_r. reflexivity.
    + rewrite has_key_del, Z.eqb_refl, Hk. cbn [zb andb negb orb]. lia.
    + intros _. rewrite has_key_del, Z.eqb_refl. cbn. apply andb_false_r.
  - destruct (has id0 (ms_expired s)) eqn:He.
    + injection H as <- <- <-. cbn [ms_objs ms_shutdown]. unfold entries; cbn [ms_exch ms_expired].
      repeat split; try reflexivity; try discriminate.
      * intros id Hne. rewrite has_del. assert (id =? id0 = false) by lia. rewrite H. cbn. rewrite andb_true_r. reflexivity.
      * rewrite has_del, Z.eqb_refl, Hk, He. cbn [zb andb negb orb]. lia.
    + injection H as <- <- <-. unfold entries. rewrite Hk, He. cbn [zb andb negb orb].
      repeat split; try reflexivity; try discriminate; try lia.
Qed.

Lemma entries_add_recheck id s : entries id (add_recheck s) = entries id s.
Proof. reflexivity. Qed.

Lemma remove_exchange_spec id0 s :
  let s' := remove_exchange id0 s in
  ms_objs s' = ms_objs s /\
  (forall id, id <> id0 -> entries id s' = entries id s) /\
  (entries id0 s' = entries id0 s - 1 \/ (entries id0 s' = 0 /\ entries id0 s = 0)).
Proof.
  unfold remove_exchange. destruct (delete_exchange id0 s) as [[found expired] s1] eqn:Hd.
  destruct (delete_entries _ _ _ _ _ Hd) as (Ho & _ & Hother & Hsame & Hnone & _).
  cbn zeta. destruct (found || expired) eqn:Hfe.
  - cbn [ms_objs add_recheck]. split; [exact Ho|]. split.
    + intros id Hne. rewrite entries_add_recheck. auto.
    + left. rewrite entries_add_recheck, Hsame. cbn [zb]. lia.
  - split; [exact Ho|]. split; [auto|]. right. specialize (Hnone eq_refl). rewrite Hsame, Hnone. cbn [zb]. lia.
Qed.

Lemma expire_exchange_spec id0 s :
  let s' := expire_exchange id0 s in
  ms_objs s' = ms_objs s /\
  (forall id, id <> id0 -> entries id s' = entries id s) /\
  entries id0 s' <= entries id0 s.
Proof.
  unfold expire_exchange. destruct (delete_exchange id0 s) as [[found expired] s1] eqn:Hd.
  destruct (delete_entries _ _ _ _ _ Hd) as (Ho & _ & Hother & Hsame & Hnone & Hfk & Hnf).
  cbn zeta. destruct (found || expired) eqn:Hfe.
  - cbn [ms_objs add_recheck]. split; [exact Ho|]. split.
    + intros id Hne. rewrite entries_add_recheck. unfold entries. cbn [ms_exch ms_expired].
      rewrite has_set_add_other by exact Hne. apply Hother. exact Hne.
    + rewrite entries_add_recheck. unfold entries in *. cbn [ms_exch ms_expired] in *.
      rewrite has_set_add_same.
      destruct found.
      * pose proof (Hfk eq_refl) as Hf1. rewrite Hf1 in *. cbn [orb zb] in Hsame.
        destruct (has_key id0 (ms_exch s)), (has id0 (ms_expired s)), (has id0 (ms_expired s1)); cbn [zb] in *; lia.
      * cbn [orb] in Hfe. subst expired. cbn [orb zb] in Hsame. rewrite (Hnf eq_refl) in *.
        destruct (has_key id0 (ms_exch s)), (has id0 (ms_expired s)), (has id0 (ms_expired s1)); cbn [zb] in *; lia.
  - cbn [ms_objs add_recheck]. split; [exact Ho|]. split.
    + intros id Hne. rewrite entries_add_recheck. auto.
    + rewrite entries_add_recheck, Hsame. cbn [zb]. lia.
Qed.

Lemma get_obj_nth s h o : get_obj s h = Some o -> nth_error (ms_objs s) (Z.to_nat h) = Some o.
Proof. unfold get_obj. destruct (h <? 0); [discriminate|auto]. Qed.

Lemma notify_all_live id hs objs : live id (notify_all hs objs) = live id objs.
Proof.
  revert objs. induction hs as [|h r IH]; intros objs; cbn [notify_all]; [reflexivity|].
  rewrite IH. destruct (h <? 0); [reflexivity|].
  destruct (nth_error objs (Z.to_nat h)) as [o|] eqn:Hn; [|reflexivity].
  rewrite (live_upd _ _ _ _ _ Hn). unfold weight. cbn [mo_id mo_pc]. lia.
Qed.

Lemma MInv_init : MInv ms_init.
Proof. intros id. cbn. lia. Qed.

Lemma MInv_step s l s' : MInv s -> mstep s l = Some s' -> MInv s'.
Proof.
  intros HI Hs. destruct l as [id0|h|h|h|h| |id0]; cbn [mstep] in Hs.
  - (* MNew *)
    destruct (ms_shutdown s); [injection Hs as <-; exact HI|].
    destruct (has_key id0 (ms_exch s)) eqn:Hk; [injection Hs as <-; exact HI|].
    injection Hs as <-. intros id. specialize (HI id). unfold entries in *. cbn [ms_exch ms_expired ms_objs].
    rewrite live_app. cbn [live]. unfold weight. cbn [mo_id mo_pc].
    unfold has_key in *. cbn [existsb fst].
    destruct (id0 =? id) eqn:E.
    + assert (id0 = id) by lia. subst id0. rewrite Hk in HI. cbn [orb zb andb negb Z.eqb] in *. lia.
    + cbn [orb andb]. lia.
  - (* MShutCas *)
    destruct (get_obj s h) as [o|] eqn:Ho; [|discriminate].
    destruct (mo_pc o =? 0) eqn:Hpc; [|injection Hs as <-; exact HI].
    injection Hs as <-. intros id. specialize (HI id). unfold entries in *. cbn [set_obj ms_exch ms_expired ms_objs].
    rewrite (live_upd _ _ _ _ _ (get_obj_nth _ _ _ Ho)). unfold weight. cbn [mo_id mo_pc].
    assert (mo_pc o =? 2 = false) as -> by lia. cbn. lia.
  - (* MShutRemove *)
    destruct (get_obj s h) as [o|] eqn:Ho; [|discriminate].
    destruct (mo_pc o =? 1) eqn:Hpc; [|discriminate].
    injection Hs as <-.
    set (s1 := set_obj s h _).
    destruct (remove_exchange_spec (mo_id o) s1) as (Hobjs & Hother & Hself).
    intros id. rewrite Hobjs. subst s1. cbn [set_obj ms_objs].
    rewrite (live_upd _ _ _ _ _ (get_obj_nth _ _ _ Ho)).
    pose proof (live_ge_weight id _ _ _ (get_obj_nth _ _ _ Ho)) as Hge.
    specialize (HI id). unfold weight in *. cbn [mo_id mo_pc] in *.
    assert (mo_pc o =? 2 = false) as E2 by lia. rewrite E2 in *. cbn [negb andb Z.eqb Pos.eqb] in *.
    destruct (mo_id o =? id) eqn:E.
    + assert (mo_id o = id) by lia. subst id. cbn [andb] in *.
      destruct Hself as [Hm | [Hz _]].
      * rewrite Hm. change (entries (mo_id o) (set_obj s h _)) with (entries (mo_id o) s). lia.
      * rewrite Hz. lia.
    + cbn [andb]. rewrite Hother by lia. change (entries id (set_obj s h _)) with (entries id s). lia.
  - (* MExpire *)
    destruct (get_obj s h) as [o|] eqn:Ho; [|discriminate].
    injection Hs as <-.
    destruct (expire_exchange_spec (mo_id o) s) as (Hobjs & Hother & Hself).
    intros id. rewrite Hobjs. specialize (HI id).
    destruct (Z.eq_dec id (mo_id o)) as [->|Hne]; [lia|]. rewrite Hother by exact Hne. exact HI.
  - (* MPingDone *)
    destruct (get_obj s h) as [o|] eqn:Ho; [|discriminate].
    destruct (mo_pc o =? 0) eqn:Hpc; [|discriminate].
    injection Hs as <-.
    set (s1 := set_obj s h _).
    destruct (remove_exchange_spec (mo_id o) s1) as (Hobjs & Hother & Hself).
    intros id. rewrite Hobjs. subst s1. cbn [set_obj ms_objs].
    rewrite (live_upd _ _ _ _ _ (get_obj_nth _ _ _ Ho)).
    pose proof (live_ge_weight id _ _ _ (get_obj_nth _ _ _ Ho)) as Hge.
    specialize (HI id). unfold weight in *. cbn [mo_id mo_pc] in *.
    assert (mo_pc o =? 2 = false) as E2 by lia. rewrite E2 in *. cbn [negb andb Z.eqb Pos.eqb] in *.
    destruct (mo_id o =? id) eqn:E.
    + assert (mo_id o = id) by lia. subst id. cbn [andb] in *.
      destruct Hself as [Hm | [Hz _]].
      * rewrite Hm. change (entries (mo_id o) (set_obj s h _)) with (entries (mo_id o) s). lia.
      * rewrite Hz. lia.
    + cbn [andb]. rewrite Hother by lia. change (entries id (set_obj s h _)) with (entries id s). lia.
  - (* MStop *)
    destruct (ms_shutdown s); injection Hs as <-; [exact HI|].
    intros id. specialize (HI id). unfold entries in *. cbn [ms_exch ms_expired ms_objs].
    rewrite notify_all_live. exact HI.
  - (* MForward *)
    injection Hs as <-. exact HI.
Qed.

Lemma MInv_run ls : forall s s', MInv s -> mrun s ls = Some s' -> MInv s'.
Proof.
  induction ls as [|l r IH]; intros s s' HI Hr; cbn [mrun] in Hr.
  - injection Hr as <-. exact HI.
  - destruct (mstep s l) as [s1|] eqn:Hs; [|discriminate].
    eapply IH; [|exact Hr]. eapply MInv_step; eauto.
Qed.

Lemma live_finished id objs : forallb (fun o => mo_pc o =? 2) objs = true -> live id objs = 0.
Proof.
  induction objs as [|o r IH]; cbn [forallb live]; [reflexivity|].
  intros H. apply andb_true_iff in H as [H1 H2]. rewrite (IH H2). unfold weight. rewrite H1.
  rewrite andb_false_r. reflexivity.
Qed.

Lemma no_member_nil_keys (l : list (Z * Z)) : (forall id, has_key id l = false) -> l = [].
Proof.
  destruct l as [|[k v] r]; [reflexivity|]. intros H. specialize (H k).
  unfold has_key in H. cbn [existsb fst] in H. rewrite Z.eqb_refl in H. discriminate.
Qed.
Lemma no_member_nil (l : list Z) : (forall id, has id l = false) -> l = [].
Proof.
  destruct l as [|k r]; [reflexivity|]. intros H. specialize (H k).
  unfold has in H. cbn [existsb] in H. rewrite Z.eqb_refl in H. discriminate.
Qed.

(* Main theorem: after ANY sequence of atomic steps (any ids, reused or not, any order of
   shutdown / expiry / stop), once every exchange object has finished shutting down, both
   maps are empty. *)
Theorem mex_drained : forall ls s,
  mrun ms_init ls = Some s -> mex_finished s = true ->
  ms_exch s = [] /\ ms_expired s = [].
Proof.
  intros ls s Hr Hf.
  pose proof (MInv_run ls _ _ MInv_init Hr) as HI.
  assert (Hz : forall id, entries id s = 0).
  { intros id. specialize (HI id). unfold mex_finished in Hf. rewrite (live_finished id _ Hf) in HI.
    unfold entries in *. destruct (has_key id (ms_exch s)), (has id (ms_expired s)); cbn [zb] in *; lia. }
  split.
  - apply no_member_nil_keys. intros id. specialize (Hz id). unfold entries in Hz.
    destruct (has_key id (ms_exch s)), (has id (ms_expired s)); cbn [zb] in *; try reflexivity; lia.
  - apply no_member_nil. intros id. specialize (Hz id). unfold entries in Hz.
    destruct (has_key id (ms_exch s)), (has id (ms_expired s)); cbn [zb] in *; try reflexivity; lia.
Qed.

(* The invariant at every intermediate state, in the vocabulary of the property:
   an id recorded in expiredExchanges (or exchanges) always belongs to some exchange
   object that has not finished shutting down. *)
Theorem mex_entries_have_owner : forall ls s id,
  mrun ms_init ls = Some s ->
  (has_key id (ms_exch s) = true \/ has id (ms_expired s) = true) ->
  exists o, In o (ms_objs s) /\ mo_id o = id /\ mo_pc o <> 2.
Proof.
  intros ls s id Hr Hm.
  pose proof (MInv_run ls _ _ MInv_init Hr id) as HI.
  assert (Hpos : 0 < live id (ms_objs s)).
  { unfold entries in HI. destruct Hm as [Hm | Hm]; rewrite Hm in HI;
      [destruct (has id (ms_expired s)) | destruct (has_key id (ms_exch s))]; cbn [zb] in HI; lia. }
  clear HI Hm Hr. induction (ms_objs s) as [|o r IH]; cbn [live] in Hpos; [lia|].
  unfold weight in Hpos. destruct ((mo_id o =? id) && negb (mo_pc o =? 2)) eqn:E.
  - exists o. apply andb_true_iff in E as [E1 E2]. split; [left; reflexivity|]. split; lia.
  - destruct IH as (o' & Hin & H1 & H2); [lia|]. exists o'. split; [right; exact Hin|]. auto.
Qed.

(* Each shutdown that finds its entry re-evaluates the connection close state (onRemoved):
   the number of onRemoved callbacks is at least the number of successful removals; stated
   here as: a step that deletes an entry from ms_exch increases ms_rechecks. *)
Lemma step_removal_rechecks s l s' id :
  mstep s l = Some s' ->
  has_key id (ms_exch s) = true -> has_key id (ms_exch s') = false ->
  ms_rechecks s < ms_rechecks s'.
Proof.
  intros Hs Hin Hout.
  assert (Hrem : forall id0 s0, has_key id (ms_exch s0) = true -> has_key id (ms_exch (remove_exchange id0 s0)) = false ->
                 ms_rechecks s0 < ms_rechecks (remove_exchange id0 s0)).
  { intros id0 s0 Hi Ho. unfold remove_exchange, delete_exchange in *.
    destruct (has_key id0 (ms_exch s0)) eqn:Hk; cbn in *; [lia|].
    destruct (has id0 (ms_expired s0)); cbn in *; [lia|]. congruence. }
  destruct l as [id0|h|h|h|h| |id0]; cbn [mstep] in Hs.
  - destruct (ms_shutdown s); [injection Hs as <-; cbn [push_out ms_exch] in Hout; congruence|].
    destruct (has_key id0 (ms_exch s)); injection Hs as <-; cbn [push_out ms_exch] in Hout; [congruence|].
    unfold has_key in *. cbn [existsb] in Hout. rewrite Hin in Hout. rewrite orb_true_r in Hout. discriminate.
  - destruct (get_obj s h) as [o|]; [|discriminate].
    destruct (mo_pc o =? 0); injection Hs as <-; cbn [set_obj ms_exch] in Hout; congruence.
  - destruct (get_obj s h) as [o|]; [|discriminate]. destruct (mo_pc o =? 1); [|discriminate].
    injection Hs as <-. apply (Hrem (mo_id o) (set_obj s h _)); assumption.
  - destruct (get_obj s h) as [o|]; [|discriminate]. injection Hs as <-.
    unfold expire_exchange. destruct (delete_exchange (mo_id o) s) as [[f e] s1] eqn:Hd.
    unfold delete_exchange in Hd.
    destruct (has_key (mo_id o) (ms_exch s)); [injection Hd as <- <- <-; cbn; lia|].
    destruct (has (mo_id o) (ms_expired s)); injection Hd as <- <- <-; cbn; lia.
  - destruct (get_obj s h) as [o|]; [|discriminate]. destruct (mo_pc o =? 0); [|discriminate].
    injection Hs as <-. apply (Hrem (mo_id o) (set_obj s h _)); assumption.
  - destruct (ms_shutdown s); injection Hs as <-; cbn [ms_exch] in Hout; congruence.
  - injection Hs as <-. cbn [push_out ms_exch] in Hout. congruence.
Qed.

(* The clause of the property for calls that merely TIME OUT is false for the code as it is:
   a call whose watcher has expired it (inboundExpired) but whose exchange is never shut down
   (InboundCallResponse.Blackhole, a handler that returns without writing a response) leaves its
   id in expiredExchanges.  [call_over ls h]: the exchange h was shut down, removed by id, or
   expired by its watcher. *)
Definition call_over (ls : list mlabel) (h : Z) : Prop :=
  In (MShutRemove h) ls \/ In (MPingDone h) ls \/ In (MExpire h) ls.

Theorem mex_drained_after_timeouts_refuted :
  exists ls s, mrun ms_init ls = Some s /\
    (forall h, 0 <= h < Z.of_nat (length (ms_objs s)) -> call_over ls h) /\
    ms_expired s <> [].
Proof.
  exists [MNew 5; MExpire 0]. eexists. split; [vm_compute; reflexivity|]. split.
  - cbn [ms_objs length Z.of_nat]. intros h Hh. assert (h = 0) by lia. subst h.
    right. right. right. left. reflexivity.
  - cbn. discriminate.
Qed.

Lemma mex_drained_prop : forall ls s,
  mrun ms_init ls = Some s ->
  (forall o, In o (ms_objs s) -> mo_pc o = 2) ->
  ms_exch s = [] /\ ms_expired s = [].
Proof.
  intros ls s Hr Hall. apply (mex_drained ls s Hr). unfold mex_finished.
  apply forallb_forall. intros o Ho. apply Z.eqb_eq. exact (Hall o Ho).
Qed.
