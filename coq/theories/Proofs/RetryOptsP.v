(* C17, options path and error classification: proofs over the generated definitions. *)
From Coq Require Import ZArith List Bool Lia.
From Verif Require Import Base.Wrap Base.Wire Base.GoErr Gen.GenConsts Gen.GenRetry Gen.GenErrors
  Gen.GenRetryOpts Gen.GenRetryErr Spec.RetryTable Spec.RetryOptsSpec Model.Retry Model.RetryOpts
  Proofs.RetryP.
Import ListNotations.
Local Open Scope Z_scope.

(* ---------------- error classification ---------------- *)

(* the generated getErrCode over shapes is the documented table: a SystemError's own code
   wins, only a bare net.Error is a network error, everything else is unexpected *)
Lemma errcode_spec : forall e, getErrCodeS e = spec_err_code e.
Proof. intros [|i|t|c w]; reflexivity. Qed.

Lemma is_net_spec : forall e, isNetErrorS e = match e with GNet _ => true | _ => false end.
Proof. intros [|i|t|c w]; reflexivity. Qed.

Lemma syscode_spec : forall e,
  GetSystemErrorCodeS e = match e with GNil => 0 | GSys c _ => c | _ => 5 end.
Proof. intros [|i|t|c w]; reflexivity. Qed.

(* the generated NewWrappedSystemError (errors.go), instantiated on shapes *)
Lemma new_wrapped_spec : forall code w,
  NewWrappedSystemError g_is_sys GSys code w = spec_new_wrapped code w.
Proof. intros code [|i|t|c w]; reflexivity. Qed.

Lemma errcode_new_wrapped : forall code w,
  getErrCodeS (NewWrappedSystemError g_is_sys GSys code w) =
  match w with GSys c _ => c | _ => code end.
Proof. intros code w. rewrite errcode_spec, new_wrapped_spec. destruct w; reflexivity. Qed.

(* shapes refine the flat abstraction used by the loop model *)
Lemma errcode_abs : forall e, getErrCodeS e = getErrCode (g_abs e).
Proof. intros [|i|t|c w]; reflexivity. Qed.

Lemma can_retry_shape_abs : forall r e, CanRetryS r e = CanRetry r (g_abs e).
Proof. intros r e. unfold CanRetryS, CanRetry. rewrite errcode_abs. reflexivity. Qed.

Lemma classify_abs : forall e, e <> GNil -> classify (g_abs e) = classify_shape e.
Proof. intros [|i|t|c w] H; try congruence; reflexivity. Qed.

Lemma can_retry_shape_table : forall r p e, policy_of r = Some p -> e <> GNil ->
  CanRetryS r e = retryable p (classify_shape e).
Proof.
  intros r p e Hp Hn. rewrite can_retry_shape_abs, <- classify_abs by exact Hn.
  apply can_retry_matches_table; [exact Hp|]. destruct e; try congruence; reflexivity.
Qed.

(* every shape has an encoding that the harness entry points decode back to it: the
   correspondence sub-engines range over all shapes *)
Lemma take_n_layers : forall ls r,
  take_n take_layer (length ls) (flat_map (fun ka : Z * Z => [fst ka; snd ka]) ls ++ r) = (ls, r).
Proof.
  induction ls as [|[k a] ls IH]; intros r; cbn [length take_n flat_map app fst snd take_layer].
  - reflexivity.
  - rewrite IH. reflexivity.
Qed.

Lemma layers_base : forall e,
  fold_right wrap_layer (if fst (base_of e) =? 2 then GNet (bz (snd (base_of e))) else GNil) (layers_of e) = e.
Proof.
  induction e as [|i IH|t|c w IH]; cbn [layers_of base_of fold_right fst snd].
  - reflexivity.
  - rewrite IH. reflexivity.
  - destruct t; reflexivity.
  - rewrite IH. reflexivity.
Qed.

Lemma take_shape_put : forall e rest, take_shape (put_shape e ++ rest) = (e, rest).
Proof.
  intros e rest. unfold take_shape, put_shape, put_list, take_list.
  cbn [app take1]. rewrite Nat2Z.id, <- app_assoc, take_n_layers.
  cbn [app take_layer]. rewrite layers_base. reflexivity.
Qed.

(* ---------------- ties: generated definitions = hand model ---------------- *)

(* the generated record has exactly the three fields of the model's, in this order *)
Definition to_gen (o : cb_opts) : RetryOptions := mk_RetryOptions (co_max o) (co_on o) (co_tpa o).
Definition to_genp (p : option cb_opts) : option RetryOptions := option_map to_gen p.

Lemma tie_default : v_defaultRetryOptions = to_gen cb_opts_default.
Proof. reflexivity. Qed.

Lemma tie_set_retry_options : forall ro a,
  cbSetRetryOptions (to_genp ro) (to_genp a) = option_map to_genp (m_set_retry_options ro a).
Proof. intros ro a. reflexivity. Qed.

Lemma tie_set_timeout_per_attempt : forall ro d,
  cbSetTimeoutPerAttempt (to_genp ro) d = option_map to_genp (m_set_timeout_per_attempt ro d).
Proof. intros [[m r t]|] d; reflexivity. Qed.

Lemma tie_build : forall ro, cbBuildRetryOptions (to_genp ro) = to_genp (m_build_retry_options ro).
Proof. intros ro. reflexivity. Qed.

Lemma tie_get_retry_options : forall hp p,
  getRetryOptions hp (to_genp p) = option_map to_genp (m_get_retry_options hp p).
Proof.
  intros [|] [[m r t]|]; try reflexivity.
  unfold getRetryOptions, m_get_retry_options, to_genp, to_gen.
  cbn [negb option_map go_isnil co_max co_on co_tpa RetryOptions_MaxAttempts].
  destruct (m =? 0); reflexivity.
Qed.

(* the shape-level classification regenerated from retry.go / errors.go is the model's *)
Lemma tie_err_code : forall e, getErrCodeS e = m_err_code e.
Proof. exact errcode_abs. Qed.
Lemma tie_can_retry : forall r e, CanRetryS r e = m_can_retry r e.
Proof. exact can_retry_shape_abs. Qed.

(* ---------------- the options path ---------------- *)

(* the three fields of the builder's RetryOptions as the spec sees them (nil: all unset) *)
Definition ro_max (ro : option cb_opts) : Z := match ro with Some o => co_max o | None => 0 end.
Definition ro_on (ro : option cb_opts) : Z := match ro with Some o => co_on o | None => 0 end.
Definition ro_tpa (ro : option cb_opts) : Z := match ro with Some o => co_tpa o | None => 0 end.

Definition upd (g : cb_op -> option Z) (acc : Z) (op : cb_op) : Z :=
  match g op with Some v => v | None => acc end.

Lemma op_apply_spec : forall ro op, exists ro',
  op_apply ro op = Some ro' /\
  ro_max ro' = upd gives_max (ro_max ro) op /\
  ro_on ro' = upd gives_on (ro_on ro) op /\
  ro_tpa ro' = upd gives_tpa (ro_tpa ro) op.
Proof.
  intros ro [[[[m r] d]|]|d]; cbn [op_apply option_map cb_of].
  - eexists. split; [reflexivity|]. cbn. auto.
  - eexists. split; [reflexivity|]. cbn. auto.
  - destruct ro as [o|]; (eexists; split; [reflexivity|]); cbn; auto.
Qed.

Lemma cb_apply_spec : forall ops ro, exists ro',
  cb_apply ro ops = Some ro' /\
  ro_max ro' = fold_left (upd gives_max) ops (ro_max ro) /\
  ro_on ro' = fold_left (upd gives_on) ops (ro_on ro) /\
  ro_tpa ro' = fold_left (upd gives_tpa) ops (ro_tpa ro).
Proof.
  induction ops as [|op ops IH]; intros ro; cbn [cb_apply fold_left].
  - exists ro. auto.
  - destruct (op_apply_spec ro op) as [ro1 [E [A [B C]]]]. rewrite E.
    destruct (IH ro1) as [ro' [E' [A' [B' C']]]]. exists ro'.
    rewrite E', A', B', C', A, B, C. auto.
Qed.

(* getRetryOptions on the field handed over by Build: never panics, never returns nil, and
   yields the defaults for a nil field / a zero MaxAttempts / a context without parameters *)
Lemma get_retry_options_spec : forall hp ro, exists e,
  m_get_retry_options hp (m_build_retry_options ro) = Some (Some e) /\
  triple_of e = (let m := if hp then ro_max ro else 0 in if m =? 0 then 5 else m,
                 if hp then ro_on ro else 0, if hp then ro_tpa ro else 0).
Proof.
  intros hp ro. unfold m_get_retry_options, m_build_retry_options.
  destruct hp; cbn [negb].
  2:{ eexists. split; reflexivity. }
  destruct ro as [o|]; cbn [go_isnil].
  2:{ eexists. split; reflexivity. }
  destruct o as [m r d]. cbn [co_max ro_max ro_on ro_tpa co_on co_tpa].
  destruct (m =? 0) eqn:E; (eexists; split; [reflexivity|]); cbn; rewrite ?E; reflexivity.
Qed.

Lemma rec_triple : forall e t, triple_of e = t -> e = cb_of t.
Proof. intros [m r d] [[m' r'] d'] H. cbn in H. inversion H; reflexivity. Qed.

Theorem cb_effective_spec : forall hp ops,
  cb_effective hp ops = Some (cb_of (spec_effective hp ops)).
Proof.
  intros hp ops. unfold cb_effective.
  destruct (cb_apply_spec ops None) as [ro [E [A [B C]]]]. rewrite E.
  destruct (get_retry_options_spec hp ro) as [e [G T]]. rewrite G. f_equal.
  apply rec_triple. rewrite T. cbn [ro_max ro_on ro_tpa] in A, B, C.
  unfold spec_effective, spec_max_attempts, spec_retry_on, spec_timeout_per_attempt, last_given.
  destruct hp; [|reflexivity]. rewrite A, B, C. reflexivity.
Qed.

(* the builder path runs the very loop of Model/Retry.v with the last-given options *)
Definition spec_opts (hp : bool) (ops : list cb_op) : retry_opts :=
  let '(m, r, _) := spec_effective hp ops in {| max_attempts := m; retry_on := r |}.

Lemma spec_opts_fixed : forall hp ops, get_retry_options (Some (spec_opts hp ops)) = spec_opts hp ops.
Proof.
  intros hp ops. unfold spec_opts, spec_effective, spec_max_attempts. cbn [get_retry_options max_attempts].
  destruct (last_given gives_max (if hp then ops else []) =? 0) eqn:E; cbn [Z.eqb]; [reflexivity|].
  rewrite E. reflexivity.
Qed.

Theorem run_with_retry_cb_spec : forall hp ops fs,
  run_with_retry_cb hp ops fs = Some (run_with_retry (Some (spec_opts hp ops)) (abs_fn fs)).
Proof.
  intros hp ops fs. unfold run_with_retry_cb. rewrite cb_effective_spec.
  unfold run_with_retry. rewrite spec_opts_fixed. unfold spec_opts.
  destruct (spec_effective hp ops) as [[m r] d]. reflexivity.
Qed.

(* budget over the builder path *)
Theorem run_cb_budget : forall (hp : bool) (ops : list cb_op) fs,
  let m := spec_max_attempts (if hp then ops else []) in
  1 <= m ->
  exists r, run_with_retry_cb hp ops fs = Some r /\
    (1 <= length (snd r))%nat /\ Z.of_nat (length (snd r)) <= m /\
    map ao_attempt (snd r) = map (fun i => 1 + Z.of_nat i) (seq 0 (length (snd r))).
Proof.
  intros hp ops fs m Hm. rewrite run_with_retry_cb_spec. eexists. split; [reflexivity|].
  pose proof (run_calls_bounded (Some (spec_opts hp ops)) (abs_fn fs)) as H. cbn zeta in H.
  rewrite spec_opts_fixed in H. unfold spec_opts at 1, spec_effective in H. cbn [max_attempts] in H.
  apply H. exact Hm.
Qed.

(* stop rule and returned error over the builder path, in terms of the documented table *)
Theorem run_cb_stop : forall (hp : bool) (ops : list cb_op) (outs : list gerr) fs p,
  let m := spec_max_attempts (if hp then ops else []) in
  let ron := spec_retry_on (if hp then ops else []) in
  policy_of ron = Some p ->
  (Z.to_nat m <= length outs)%nat ->
  (forall a s, 0 < a -> fst (fs a s) = nth (Z.to_nat (a - 1)) outs GNil) ->
  exists r log, run_with_retry_cb hp ops fs = Some (r, log) /\
    let k := length log in
    (k <= Z.to_nat m)%nat /\
    (forall i, (i + 1 < k)%nat ->
       nth i outs GNil <> GNil /\ retryable p (classify_shape (nth i outs GNil)) = true) /\
    (k <> O -> let e := nth (k - 1) outs GNil in
       (e = GNil /\ r = nil_err) \/
       (e <> GNil /\ r = g_abs e /\ (retryable p (classify_shape e) = false \/ k = Z.to_nat m))).
Proof.
  intros hp ops outs fs p m ron Hp Hn Hf. rewrite run_with_retry_cb_spec.
  destruct (run_with_retry (Some (spec_opts hp ops)) (abs_fn fs)) as [r log] eqn:ER.
  exists r, log. split; [reflexivity|].
  pose proof (run_stop (Some (spec_opts hp ops)) (map g_abs outs) (abs_fn fs)) as H.
  cbn zeta in H. rewrite spec_opts_fixed in H.
  assert (Em : max_attempts (spec_opts hp ops) = m) by reflexivity.
  assert (Er : retry_on (spec_opts hp ops) = ron) by reflexivity.
  rewrite Em, Er, ER in H. cbn [fst snd] in H.
  assert (Hnil : forall i, nth i (map g_abs outs) nil_err = g_abs (nth i outs GNil)).
  { intros i. change nil_err with (g_abs GNil). apply map_nth. }
  assert (Hisnil : forall e, e_nil (g_abs e) = true <-> e = GNil).
  { intros [|? |? |? ?]; cbn; split; congruence. }
  assert (Hnotnil : forall e, e_nil (g_abs e) = false <-> e <> GNil).
  { intros [|? |? |? ?]; cbn; split; congruence. }
  destruct H as [H1 [H2 H3]].
  { rewrite map_length. exact Hn. }
  { intros a s Ha. unfold abs_fn. specialize (Hf a s Ha).
    destruct (fs a s) as [e added]. cbn [fst] in *. rewrite Hnil. congruence. }
  cbn zeta. split; [exact H1|]. split.
  - intros i Hi. destruct (H2 i Hi) as [A B]. rewrite Hnil in A, B.
    apply Hnotnil in A. split; [exact A|].
    rewrite <- can_retry_shape_abs in B. rewrite <- (can_retry_shape_table ron p _ Hp A). exact B.
  - intros Hk. specialize (H3 Hk). cbn zeta in H3. rewrite Hnil in H3.
    destruct H3 as [[A B]|[A [B C]]].
    + left. split; [apply Hisnil; exact A|exact B].
    + right. apply Hnotnil in A. split; [exact A|]. split; [exact B|].
      destruct C as [C|C]; [left|right; exact C].
      rewrite <- can_retry_shape_abs in C. rewrite <- (can_retry_shape_table ron p _ Hp A). exact C.
Qed.
