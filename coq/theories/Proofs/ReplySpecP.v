(* C06, reply headers: the model of Model/MsgRun.v (run_replyhdr, run_replyhdr_out) equals the
   pairing of requests and answers of the protocol document (Spec/ReplyHdr.v).  Depends on the
   model and the generated constants only, so it still stands when a hand-over chain of
   Proofs/ReplyHdrP.v breaks: a model/implementation disagreement on sub replyhdr is then a
   disagreement with the specification on a concrete input. *)
From Coq Require Import ZArith List Bool Lia.
From Verif Require Import Base.Wrap Gen.GenConsts Model.MsgRun Spec.ReplyHdr.
Import ListNotations.
Local Open Scope Z_scope.


Lemma reply_step_spec : forall k a b, reply_step k a b = s_step k a b.
Proof. intros k a b. reflexivity. Qed.

Lemma reply_script_spec : forall l, reply_script l = s_script l.
Proof.
  fix IH 1. intros l.
  destruct l as [|k l1]; [reflexivity|].
  destruct l1 as [|a l2]; [reflexivity|].
  destruct l2 as [|b r]; [reflexivity|].
  cbn [reply_script s_script]. rewrite (IH r). rewrite reply_step_spec. reflexivity.
Qed.

Lemma run_replyhdr_spec : forall c, run_replyhdr c = s_replyhdr c.
Proof.
  intros c. destruct c as [|ik [|iid script]]; [reflexivity|reflexivity|].
  unfold run_replyhdr, s_replyhdr. rewrite reply_script_spec. reflexivity.
Qed.

Lemma run_replyhdr_out_spec : forall c, run_replyhdr_out c = s_replyhdr_out 1 c.
Proof. intros c. destruct c as [|d [|cid r]]; reflexivity. Qed.

(* every header of an answer carries the request's id -- stated without the script encoding *)
Lemma reply_ids_are_the_requests : forall id frag,
  Forall (fun h => snd h = id)
         (reply_init id ++ reply_init_refused id ++ reply_ping id ++ reply_call frag id ++ reply_error id).
Proof. intros id frag. destruct frag; repeat constructor. Qed.

