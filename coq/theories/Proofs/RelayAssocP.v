(* Association-list lemmas for the relay model (lookup / remove / insert of Model/RelayItems.v)
   and sums over them. *)
From Coq Require Import ZArith List Bool Lia.
From Verif Require Import Model.RelayItems.
Import ListNotations.
Local Open Scope Z_scope.

Section Assoc.
  Context {K V : Type} (eqb : K -> K -> bool).
  Hypothesis eqb_ok : forall a b, eqb a b = true <-> a = b.

  Lemma eqb_refl : forall a, eqb a a = true.
  Proof. intro a. apply eqb_ok. reflexivity. Qed.

  Lemma eqb_neq : forall a b, a <> b -> eqb a b = false.
  Proof.
    intros a b Hn. destruct (eqb a b) eqn:E; [|reflexivity].
    apply eqb_ok in E. contradiction.
  Qed.

  Lemma eqb_false : forall a b, eqb a b = false -> a <> b.
  Proof. intros a b E Heq. subst. rewrite eqb_refl in E. discriminate. Qed.

  Lemma eqb_dec : forall a b : K, {a = b} + {a <> b}.
  Proof.
    intros a b. destruct (eqb a b) eqn:E.
    - left. apply eqb_ok. exact E.
    - right. apply eqb_false. exact E.
  Qed.

  Lemma lookup_in : forall k (l : list (K * V)) v, lookup eqb k l = Some v -> In (k, v) l.
  Proof.
    intros k l. induction l as [|[k' v'] r IH]; intros v H; cbn in H; [discriminate|].
    destruct (eqb k k') eqn:E.
    - apply eqb_ok in E. subst. inversion H. subst. left. reflexivity.
    - right. apply IH. exact H.
  Qed.

  Lemma lookup_none_notin : forall k (l : list (K * V)), lookup eqb k l = None -> ~ In k (map fst l).
  Proof.
    intros k l. induction l as [|[k' v'] r IH]; intros H Hin; cbn in *; [exact Hin|].
    destruct (eqb k k') eqn:E; [discriminate|].
    destruct Hin as [Hin|Hin].
    - subst. rewrite eqb_refl in E. discriminate.
    - exact (IH H Hin).
  Qed.

  Lemma notin_lookup_none : forall k (l : list (K * V)), ~ In k (map fst l) -> lookup eqb k l = None.
  Proof.
    intros k l. induction l as [|[k' v'] r IH]; intros H; cbn in *; [reflexivity|].
    destruct (eqb k k') eqn:E.
    - apply eqb_ok in E. subst. exfalso. apply H. left. reflexivity.
    - apply IH. intro Hin. apply H. right. exact Hin.
  Qed.

  Lemma in_lookup : forall k v (l : list (K * V)), NoDup (map fst l) -> In (k, v) l -> lookup eqb k l = Some v.
  Proof.
    intros k v l. induction l as [|[k' v'] r IH]; intros Hnd Hin; cbn in *; [contradiction|].
    inversion Hnd as [|? ? Hnot Hnd']. subst.
    destruct Hin as [Hin|Hin].
    - inversion Hin. subst. rewrite eqb_refl. reflexivity.
    - destruct (eqb k k') eqn:E.
      + apply eqb_ok in E. subst. exfalso. apply Hnot. apply (in_map fst) in Hin. exact Hin.
      + apply IH; assumption.
  Qed.

  Lemma in_remove : forall k k' v (l : list (K * V)), In (k', v) (remove eqb k l) <-> In (k', v) l /\ k' <> k.
  Proof.
    intros k k' v l. induction l as [|[k2 v2] r IH]; cbn.
    - split; [contradiction|]. intros [H _]. exact H.
    - destruct (eqb k k2) eqn:E.
      + apply eqb_ok in E. subst k2. rewrite IH. split.
        * intros [H Hn]. split; [right; exact H|exact Hn].
        * intros [[H|H] Hn]; [inversion H; subst; contradiction|]. split; assumption.
      + cbn. rewrite IH. split.
        * intros [H|[H Hn]].
          -- inversion H. subst. split; [left; reflexivity|]. intro Heq. subst. rewrite eqb_refl in E. discriminate.
          -- split; [right; exact H|exact Hn].
        * intros [[H|H] Hn]; [left; exact H|right; split; assumption].
  Qed.

  Lemma in_keys_remove : forall k k' (l : list (K * V)), In k' (map fst (remove eqb k l)) <-> In k' (map fst l) /\ k' <> k.
  Proof.
    intros k k' l. split.
    - intro H. apply in_map_iff in H. destruct H as [[k2 v2] [Hf Hin]]. cbn in Hf. subst k2.
      apply in_remove in Hin. destruct Hin as [Hin Hn]. split; [|exact Hn].
      apply (in_map fst) in Hin. exact Hin.
    - intros [H Hn]. apply in_map_iff in H. destruct H as [[k2 v2] [Hf Hin]]. cbn in Hf. subst k2.
      apply in_map_iff. exists (k', v2). split; [reflexivity|]. apply in_remove. split; assumption.
  Qed.

  Lemma nodup_remove : forall k (l : list (K * V)), NoDup (map fst l) -> NoDup (map fst (remove eqb k l)).
  Proof.
    intros k l. induction l as [|[k2 v2] r IH]; intro Hnd; cbn in *; [constructor|].
    inversion Hnd as [|? ? Hnot Hnd']. subst.
    destruct (eqb k k2) eqn:E; [apply IH; exact Hnd'|].
    cbn. constructor; [|apply IH; exact Hnd'].
    intro Hin. apply in_keys_remove in Hin. destruct Hin as [Hin _]. contradiction.
  Qed.

  Lemma nodup_insert : forall k v (l : list (K * V)), NoDup (map fst l) -> NoDup (map fst (insert eqb k v l)).
  Proof.
    intros k v l Hnd. unfold insert. cbn. constructor.
    - intro Hin. apply in_keys_remove in Hin. destruct Hin as [_ Hn]. apply Hn. reflexivity.
    - apply nodup_remove. exact Hnd.
  Qed.

  Lemma lookup_remove_eq : forall k (l : list (K * V)), lookup eqb k (remove eqb k l) = None.
  Proof.
    intros k l. apply notin_lookup_none. intro Hin. apply in_keys_remove in Hin.
    destruct Hin as [_ Hn]. apply Hn. reflexivity.
  Qed.

  Lemma lookup_remove_neq : forall k k' (l : list (K * V)), k' <> k -> lookup eqb k' (remove eqb k l) = lookup eqb k' l.
  Proof.
    intros k k' l Hn. induction l as [|[k2 v2] r IH]; cbn; [reflexivity|].
    destruct (eqb k k2) eqn:E.
    - apply eqb_ok in E. subst k2. rewrite (eqb_neq _ _ Hn). exact IH.
    - cbn. destruct (eqb k' k2); [reflexivity|exact IH].
  Qed.

  Lemma lookup_insert_eq : forall k v (l : list (K * V)), lookup eqb k (insert eqb k v l) = Some v.
  Proof. intros k v l. unfold insert. cbn. rewrite eqb_refl. reflexivity. Qed.

  Lemma lookup_insert_neq : forall k k' v (l : list (K * V)), k' <> k -> lookup eqb k' (insert eqb k v l) = lookup eqb k' l.
  Proof.
    intros k k' v l Hn. unfold insert. cbn. rewrite (eqb_neq _ _ Hn). apply lookup_remove_neq. exact Hn.
  Qed.

  Lemma in_insert : forall k v k' v' (l : list (K * V)),
    In (k', v') (insert eqb k v l) <-> (k' = k /\ v' = v) \/ (In (k', v') l /\ k' <> k).
  Proof.
    intros k v k' v' l. unfold insert. cbn. rewrite in_remove. split.
    - intros [H|H]; [inversion H; left; split; reflexivity|right; exact H].
    - intros [[H1 H2]|H]; [subst; left; reflexivity|right; exact H].
  Qed.

  Lemma in_keys_insert : forall k v k' (l : list (K * V)),
    In k' (map fst (insert eqb k v l)) <-> k' = k \/ In k' (map fst l).
  Proof.
    intros k v k' l. unfold insert. cbn. rewrite in_keys_remove. split.
    - intros [H|[H _]]; [left; symmetry; exact H|right; exact H].
    - intros [H|H]; [left; symmetry; exact H|].
      destruct (eqb_dec k' k) as [Heq|Hn]; [left; symmetry; exact Heq|right; split; assumption].
  Qed.

  (* sums over an association list *)
  Fixpoint asum (g : K -> V -> Z) (l : list (K * V)) : Z :=
    match l with
    | [] => 0
    | (k, v) :: r => g k v + asum g r
    end.

  Lemma asum_remove_none : forall g k (l : list (K * V)), lookup eqb k l = None -> asum g (remove eqb k l) = asum g l.
  Proof.
    intros g k l. induction l as [|[k2 v2] r IH]; intro H; cbn in *; [reflexivity|].
    destruct (eqb k k2) eqn:E; [discriminate|]. cbn. rewrite IH; [reflexivity|exact H].
  Qed.

  Lemma asum_remove_some : forall g k v (l : list (K * V)), NoDup (map fst l) -> lookup eqb k l = Some v ->
    asum g (remove eqb k l) = asum g l - g k v.
  Proof.
    intros g k v l. induction l as [|[k2 v2] r IH]; intros Hnd H; cbn in *; [discriminate|].
    inversion Hnd as [|? ? Hnot Hnd']. subst.
    destruct (eqb k k2) eqn:E.
    - apply eqb_ok in E. subst k2. inversion H. subst v2.
      rewrite asum_remove_none; [lia|]. apply notin_lookup_none. exact Hnot.
    - cbn. rewrite IH by assumption. lia.
  Qed.

  Lemma asum_insert_none : forall g k v (l : list (K * V)), lookup eqb k l = None ->
    asum g (insert eqb k v l) = asum g l + g k v.
  Proof. intros g k v l H. unfold insert. cbn. rewrite asum_remove_none by exact H. lia. Qed.

  Lemma asum_insert_some : forall g k v v0 (l : list (K * V)), NoDup (map fst l) -> lookup eqb k l = Some v0 ->
    asum g (insert eqb k v l) = asum g l - g k v0 + g k v.
  Proof. intros g k v v0 l Hnd H. unfold insert. cbn. rewrite (asum_remove_some g k v0) by assumption. lia. Qed.

  Lemma asum_nonneg : forall g (l : list (K * V)), (forall k v, 0 <= g k v) -> 0 <= asum g l.
  Proof.
    intros g l Hg. induction l as [|[k v] r IH]; cbn; [lia|]. specialize (Hg k v). lia.
  Qed.

  Lemma asum_zero_all : forall g (l : list (K * V)), (forall k v, 0 <= g k v) -> asum g l = 0 ->
    forall k v, In (k, v) l -> g k v = 0.
  Proof.
    intros g l Hg. induction l as [|[k2 v2] r IH]; intros Hs k v Hin; cbn in *; [contradiction|].
    pose proof (asum_nonneg g r Hg) as Hr. pose proof (Hg k2 v2) as H2.
    destruct Hin as [Hin|Hin].
    - inversion Hin. subst. lia.
    - apply IH; [lia|exact Hin].
  Qed.

  Lemma asum_ext : forall g g' (l : list (K * V)), (forall k v, In (k, v) l -> g k v = g' k v) -> asum g l = asum g' l.
  Proof.
    intros g g' l. induction l as [|[k v] r IH]; intro H; cbn; [reflexivity|].
    rewrite (H k v) by (left; reflexivity). rewrite IH; [reflexivity|].
    intros k' v' Hin. apply H. right. exact Hin.
  Qed.
End Assoc.

(* the three key types of the model *)
Lemma key_eqb_ok : forall a b, key_eqb a b = true <-> a = b.
Proof.
  intros [[a1 a2] a3] [[b1 b2] b3]. unfold key_eqb. rewrite !andb_true_iff, !Z.eqb_eq. split.
  - intros [[H1 H2] H3]. subst. reflexivity.
  - intro H. inversion H. subst. repeat split; reflexivity.
Qed.

Lemma tid_eqb_ok : forall a b, tid_eqb a b = true <-> a = b.
Proof.
  intros [x|x] [y|y]; cbn; try rewrite Z.eqb_eq; split; intro H; try discriminate; try (inversion H; subst; reflexivity);
    subst; reflexivity.
Qed.

Lemma zeqb_ok : forall a b, Z.eqb a b = true <-> a = b.
Proof. exact Z.eqb_eq. Qed.

(* sums over code lists *)
Fixpoint csum (f : instr -> Z) (code : list instr) : Z :=
  match code with [] => 0 | i :: r => f i + csum f r end.

Lemma csum_app : forall f a b, csum f (a ++ b) = csum f a + csum f b.
Proof. intros f a b. induction a as [|i r IH]; cbn; [reflexivity|]. rewrite IH. lia. Qed.

Lemma csum_nonneg : forall f code, (forall i, 0 <= f i) -> 0 <= csum f code.
Proof. intros f code Hf. induction code as [|i r IH]; cbn; [lia|]. specialize (Hf i). lia. Qed.

Definition tsum (f : instr -> Z) (ths : list (tid * list instr)) : Z := asum (fun _ code => csum f code) ths.

(* relayItems.deleteTomb (the scheduled collection, model step LGc) and relayItems.Delete do the
   same whenever the collection meets a tombstone or nothing *)
Lemma items_delete_tomb_eq : forall st t,
  (forall it, lookup key_eqb t (items st) = Some it -> it_tomb it = true) ->
  items_delete_tomb st t = fst (items_delete st t).
Proof.
  intros st t H. unfold items_delete_tomb, items_delete.
  destruct (lookup key_eqb t (items st)) as [it|]; [|reflexivity].
  rewrite (H it eq_refl). reflexivity.
Qed.

(* ... and it leaves a live item (and everything else) alone *)
Lemma items_delete_tomb_live : forall st t it,
  lookup key_eqb t (items st) = Some it -> it_tomb it = false -> items_delete_tomb st t = st.
Proof. intros st t it H Ht. unfold items_delete_tomb. rewrite H, Ht. reflexivity. Qed.
