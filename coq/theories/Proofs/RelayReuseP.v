(* C03: id re-use schedules of the relay model are bookkeeping-equivalent to fresh-id schedules. *)
From Coq Require Import ZArith List Bool Lia.
From Verif Require Import Base.Wrap Gen.GenConsts Gen.GenFrame Model.RelayItems
  Proofs.RelayAssocP Proofs.RelayCoreP Proofs.RelayInv9P Proofs.RelayTimerP Proofs.RelaySilentP Proofs.RelayAdmitP.
Import ListNotations.
Local Open Scope Z_scope.

(* the fields the relay's decisions read: everything but the thread table and the ghost logs *)
Definition coreq (a b : state) : Prop :=
  conns a = conns b /\ items a = items b /\ timers a = timers b /\ next_tm a = next_tm b /\
  next_call a = next_call b /\ gcs a = gcs b /\ panicked a = panicked b.

Lemma coreq_refl : forall a, coreq a a.
Proof. intro a. repeat split. Qed.

Local Opaque wrapU frameTypeFor finishesCall dcsSucceeded dcsFailMsg reason_of_msg hasMoreFragments Z.add Z.sub Z.ltb Z.eqb Z.leb.

Ltac dm :=
  match goal with
  | |- context [match ?x with _ => _ end] => destruct x eqn:?
  end.

Ltac dmi :=
  match goal with
  | |- context [match ?x with _ => _ end] =>
      lazymatch x with
      | context [match _ with _ => _ end] => fail
      | _ => destruct x eqn:?
      end
  end.

Ltac unf := unfold get_conn, put_conn, log_cb, items_get, items_delete_tomb, items_delete_call, items_delete, items_entomb, timer_stop, timer_release,
  timer_new, tomb_count, set_conns, set_items, set_timers, set_next_tm, set_next_call, set_gcs, set_cblog, set_sent, set_panic in *; cbn in *.

Lemma exec_sim : forall cf a b i room, coreq a b ->
  coreq (fst (exec cf a i room)) (fst (exec cf b i room)) /\
  snd (exec cf a i room) = snd (exec cf b i room).
Proof.
  intros cf a b i room H. destruct a, b. unfold coreq in H. cbn in H.
  destruct H as (H1&H2&H3&H4&H5&H6&H7). subst.
  destruct i; unfold coreq.
  all: cbn; unf; repeat (dmi; unf); cbn; repeat split; reflexivity.
Qed.

(* exec never touches the thread table or the list of ids read *)
Lemma exec_frame : forall cf a i room,
  threads (fst (exec cf a i room)) = threads a /\ seen (fst (exec cf a i room)) = seen a.
Proof.
  intros cf a i room. destruct a. destruct i.
  all: cbn; unf; repeat (dmi; unf); cbn; split; reflexivity.
Qed.

(* the labels that start no thread: tombstone collection, close, loss, drained *)
Definition plain_label (l : label) : bool :=
  match l with LGc _ | LClose _ | LLost _ | LDrained _ => true | _ => false end.

Lemma step_plain_sim : forall cf a b l a', coreq a b -> plain_label l = true -> step cf a l = Some a' ->
  exists b', step cf b l = Some b' /\ coreq a' b' /\
    threads a' = threads a /\ threads b' = threads b /\ seen a' = seen a /\ seen b' = seen b /\
    cblog a' = cblog a /\ cblog b' = cblog b.
Proof.
  intros cf a b l a' H Hp Hs. destruct a, b. unfold coreq in H. cbn in H.
  destruct H as (H1&H2&H3&H4&H5&H6&H7). subst.
  destruct l; try discriminate; unfold coreq; unfold step in *; cbn in *; unf.
  all: repeat (match type of Hs with context [match ?x with _ => _ end] =>
         lazymatch x with context [match _ with _ => _ end] => fail | _ => destruct x eqn:? end end; unf);
       try discriminate; inversion Hs; subst; eexists; (split; [reflexivity|]); cbn; repeat split; reflexivity.
Qed.

Local Transparent Z.add Z.sub Z.ltb Z.eqb Z.leb.

(* ---------------------------------------------------------------- re-use schedules *)

(* the id was read at least twice on the connection: the call req being handled re-uses it *)
Definition id_count (sn : list (Z * Z)) (k id : Z) : nat :=
  length (filter (fun p => (fst p =? k) && (snd p =? id)) sn).
Definition reusedb (sn : list (Z * Z)) (k id : Z) : bool := (2 <=? id_count sn k id)%nat.

(* A schedule step is admissible when the getDestination step of a call req that RE-USES an id
   finds an item for it (live or tombstone): the id is re-used while the relay still tracks the
   earlier call -- in flight, timed out, failed -- i.e. within the tombstone period. *)
Definition reuse_guard (st : state) (l : label) : bool :=
  match l with
  | LStep t _ =>
      match lookup tid_eqb t (threads st) with
      | Some (IGetDest k f _ _ :: _) => negb (reusedb (seen st) k (f_id f)) || out_found st k (f_id f)
      | _ => true
      end
  | _ => true
  end.

Fixpoint run_reuse (cf : config) (st : state) (ls : list label) : option state :=
  match ls with
  | [] => Some st
  | l :: r => if reuse_guard st l
              then match step cf st l with Some st' => run_reuse cf st' r | None => None end
              else None
  end.

Lemma id_count_cons : forall p sn k id, (id_count sn k id <= id_count (p :: sn) k id)%nat.
Proof. intros p sn k id. unfold id_count. cbn [filter]. destruct ((fst p =? k) && (snd p =? id)); cbn [length]; lia. Qed.

Lemma id_count_in : forall sn k id, In (k, id) sn -> (1 <= id_count sn k id)%nat.
Proof.
  induction sn as [|p r IH]; intros k id H; [contradiction|].
  unfold id_count. cbn [filter]. destruct H as [->|H].
  - cbn [fst snd]. rewrite !Z.eqb_refl. cbn. lia.
  - specialize (IH k id H). unfold id_count in IH. destruct ((fst p =? k) && (snd p =? id)); cbn [length]; lia.
Qed.

Lemma reusedb_cons : forall p sn k id, reusedb sn k id = true -> reusedb (p :: sn) k id = true.
Proof.
  intros p sn k id H. unfold reusedb in *. apply Nat.leb_le in H. apply Nat.leb_le.
  pose proof (id_count_cons p sn k id). lia.
Qed.

Lemma reusedb_new : forall sn k id, In (k, id) sn -> reusedb ((k, id) :: sn) k id = true.
Proof.
  intros sn k id H. unfold reusedb. apply Nat.leb_le. apply id_count_in in H.
  unfold id_count in *. cbn [filter fst snd]. rewrite !Z.eqb_refl. cbn. lia.
Qed.

(* the shadow of a re-using call req: a never-used id and a RelayHost that offers no destination *)
Definition bad_env (e : env) : env := {| e_start := e_start e; e_code := e_code e; e_dest := -1; e_mode := e_mode e |}.

Inductive irel (sn : list (Z * Z)) : instr -> instr -> Prop :=
| ir_eq : forall i, irel sn i i
| ir_err : forall k id id' c, irel sn (ISendErr k id' c) (ISendErr k id c)
| ir_start : forall k f e N, reusedb sn k (f_id f) = true ->
    irel sn (IStart k (with_id f N) (bad_env e)) (IStart k f e)
| ir_can : forall k f e c N, reusedb sn k (f_id f) = true ->
    irel sn (ICanHandle k (with_id f N) (bad_env e) c) (ICanHandle k f e c)
| ir_get : forall k f e c N, reusedb sn k (f_id f) = true ->
    irel sn (IGetDest k (with_id f N) (bad_env e) c) (IGetDest k f e c).

Inductive code_rel (sn : list (Z * Z)) : list instr -> list instr -> Prop :=
| cr_all : forall c0 c, Forall2 (irel sn) c0 c -> code_rel sn c0 c
| cr_drop : forall c k N rest0 rest, Forall2 (irel sn) rest0 rest ->
    code_rel sn (ICb c (CbFailed reason_bad_host) :: ISendErr k N c_ErrCodeDeclined :: IDec k :: ICb c CbEnd :: rest0)
                (ICb c (CbFailed reason_duplicate) :: IDec k :: ICb c CbEnd :: rest).

Lemma F2_impl : forall (A B : Type) (P Q : A -> B -> Prop) l0 l,
  (forall a b, P a b -> Q a b) -> Forall2 P l0 l -> Forall2 Q l0 l.
Proof. intros A B P Q l0 l HPQ H. induction H; constructor; [apply HPQ; assumption|assumption]. Qed.

Lemma irel_cons : forall p sn i0 i, irel sn i0 i -> irel (p :: sn) i0 i.
Proof. intros p sn i0 i H. destruct H; constructor; apply reusedb_cons; assumption. Qed.

Lemma code_rel_cons : forall p sn c0 c, code_rel sn c0 c -> code_rel (p :: sn) c0 c.
Proof.
  intros p sn c0 c H. destruct H as [c0 c H|c k N r0 r H]; [apply cr_all|apply cr_drop];
    (eapply F2_impl; [|exact H]); intros; apply irel_cons; assumption.
Qed.

Lemma Forall2_irel_refl : forall sn c, Forall2 (irel sn) c c.
Proof. intros sn c. induction c; constructor; [constructor|assumption]. Qed.

Lemma code_rel_nil : forall sn c0 c, code_rel sn c0 c -> (c0 = [] <-> c = []).
Proof. intros sn c0 c H. destruct H as [c0 c H|]; [destruct H|]; split; intro E; try reflexivity; discriminate. Qed.

(* thread tables related pointwise *)
Definition trel (sn : list (Z * Z)) (l0 l : list (tid * list instr)) : Prop :=
  Forall2 (fun p0 p => fst p0 = fst p /\ code_rel sn (snd p0) (snd p)) l0 l.

Lemma trel_cons_sn : forall p sn l0 l, trel sn l0 l -> trel (p :: sn) l0 l.
Proof.
  intros p sn l0 l H. unfold trel in *. eapply F2_impl; [|exact H].
  intros a b [H1 H2]. split; [exact H1|apply code_rel_cons; exact H2].
Qed.

Lemma trel_lookup_none : forall sn t l0 l, trel sn l0 l -> lookup tid_eqb t l = None -> lookup tid_eqb t l0 = None.
Proof.
  intros sn t l0 l H. induction H as [|[t0 c0] [t1 c1] l0 l [Hk Hc] H IH]; intro E; [reflexivity|].
  cbn in Hk. subst t1. cbn [lookup] in *. destruct (tid_eqb t t0); [discriminate|apply IH; exact E].
Qed.

Lemma trel_lookup_some : forall sn t l0 l c, trel sn l0 l -> lookup tid_eqb t l = Some c ->
  exists c0, lookup tid_eqb t l0 = Some c0 /\ code_rel sn c0 c.
Proof.
  intros sn t l0 l c H. induction H as [|[t0 c0] [t1 c1] l0 l [Hk Hc] H IH]; intro E; [discriminate|].
  cbn in Hk, Hc. subst t1. cbn [lookup] in *. destruct (tid_eqb t t0).
  - inversion E. subst. exists c0. split; [reflexivity|exact Hc].
  - apply IH. exact E.
Qed.

Lemma trel_remove : forall sn t l0 l, trel sn l0 l -> trel sn (remove tid_eqb t l0) (remove tid_eqb t l).
Proof.
  intros sn t l0 l H. induction H as [|[t0 c0] [t1 c1] l0 l [Hk Hc] H IH]; [constructor|].
  cbn in Hk. subst t1. cbn [remove]. destruct (tid_eqb t t0); [exact IH|].
  constructor; [split; [reflexivity|exact Hc]|exact IH].
Qed.

Lemma trel_set_thread : forall sn a b t c0 c, trel sn (threads a) (threads b) -> code_rel sn c0 c ->
  trel sn (threads (set_thread a t c0)) (threads (set_thread b t c)).
Proof.
  intros sn a b t c0 c H Hc. rewrite !set_thread_threads.
  pose proof (code_rel_nil _ _ _ Hc) as Hn.
  destruct c0 as [|i0 r0], c as [|i r].
  - apply trel_remove. exact H.
  - destruct Hn as [Hn _]. specialize (Hn eq_refl). discriminate.
  - destruct Hn as [_ Hn]. specialize (Hn eq_refl). discriminate.
  - unfold insert. constructor; [split; [reflexivity|exact Hc]|apply trel_remove; exact H].
Qed.

Lemma coreq_set_thread : forall a b t c0 c, coreq a b -> coreq (set_thread a t c0) (set_thread b t c).
Proof. intros a b t c0 c H. unfold coreq, set_thread in *. cbn. exact H. Qed.

(* ids *)
Definition label_lt (M : Z) (l : label) : bool :=
  match l with LArrive _ f _ => f_id f <? M | _ => true end.

Fixpoint nid (M : Z) (sn : list (Z * Z)) : Z :=
  match sn with [] => M | p :: r => Z.max (snd p + 1) (nid M r) end.

Lemma nid_ge : forall M sn, M <= nid M sn.
Proof. induction sn; cbn [nid]; lia. Qed.
Lemma nid_gt : forall M sn k id, In (k, id) sn -> id < nid M sn.
Proof.
  induction sn as [|p r IH]; intros k id H; [contradiction|]. cbn [nid]. destruct H as [->|H].
  - cbn [snd]. lia.
  - specialize (IH k id H). lia.
Qed.

(* the callback logs: the same calls and callbacks in the same order; only the reason of the
   refusal of a re-using call req differs (duplicate id here, no destination in the shadow) *)
Definition cb_rel (p0 p : Z * cb) : Prop :=
  fst p0 = fst p /\ (snd p0 = snd p \/ (snd p0 = CbFailed reason_bad_host /\ snd p = CbFailed reason_duplicate)).
Definition cbrel (l0 l : list (Z * cb)) : Prop := Forall2 cb_rel l0 l.

Lemma cbrel_refl : forall l, cbrel l l.
Proof. induction l; constructor; [split; [reflexivity|left; reflexivity]|assumption]. Qed.

Lemma exec_cblog_eq : forall cf st i room,
  cblog (fst (exec cf st i room)) = match i with ICb c x => (c, x) :: cblog st | _ => cblog st end.
Proof. intros cf st i room. destruct (exec cf st i room) as [st1 pushed] eqn:E. apply (exec_cblog _ _ _ _ _ _ E). Qed.

Lemma exec_cbrel_same : forall cf a b i room, cbrel (cblog a) (cblog b) ->
  cbrel (cblog (fst (exec cf a i room))) (cblog (fst (exec cf b i room))).
Proof.
  intros cf a b i room H. rewrite !exec_cblog_eq. destruct i; try exact H.
  constructor; [split; [reflexivity|left; reflexivity]|exact H].
Qed.

Definition sim (M : Z) (st0 st : state) : Prop :=
  coreq st0 st /\ trel (seen st) (threads st0) (threads st) /\
  (forall k id, In (k, id) (seen st0) -> In (k, id) (seen st) \/ M <= id) /\
  cbrel (cblog st0) (cblog st).

Lemma existsb_seen_false : forall sn k id, ~ In (k, id) sn ->
  existsb (fun p => (fst p =? k) && (snd p =? id)) sn = false.
Proof.
  intros sn k id H. destruct (existsb _ sn) eqn:E; [|reflexivity]. exfalso. apply H.
  apply existsb_exists in E. destruct E as [[a b] [Hin Hp]]. cbn in Hp.
  apply andb_true_iff in Hp. destruct Hp as [H1 H2]. apply Z.eqb_eq in H1, H2. subst. exact Hin.
Qed.

Lemma existsb_seen_true : forall sn k id, existsb (fun p => (fst p =? k) && (snd p =? id)) sn = true -> In (k, id) sn.
Proof.
  intros sn k id E. apply existsb_exists in E. destruct E as [[a b] [Hin Hp]]. cbn in Hp.
  apply andb_true_iff in Hp. destruct Hp as [H1 H2]. apply Z.eqb_eq in H1, H2. subst. exact Hin.
Qed.

(* ---------------------------------------------------------------- one step of the simulation *)

Lemma run_fresh_both : forall cf ls st st', Inv st -> TInv st -> LInv st -> run_fresh cf st ls = Some st' ->
  Inv st' /\ TInv st' /\ LInv st'.
Proof. intros cf ls st st' HI HT HL H. eapply run_fresh_three; eassumption. Qed.

Lemma run_fresh_app : forall cf a b st, run_fresh cf st (a ++ b) =
  match run_fresh cf st a with Some s => run_fresh cf s b | None => None end.
Proof.
  intros cf a. induction a as [|l r IH]; intros b st; cbn; [reflexivity|].
  destruct (fresh_label st l); [|reflexivity]. destruct (step cf st l); [apply IH|reflexivity].
Qed.

Lemma shadow_lstep : forall cf st0 t room i0 rest0, panicked st0 = 0 ->
  lookup tid_eqb t (threads st0) = Some (i0 :: rest0) ->
  run_fresh cf st0 [LStep t room] =
  Some (set_thread (fst (exec cf st0 i0 room)) t (snd (exec cf st0 i0 room) ++ rest0)).
Proof.
  intros cf st0 t room i0 rest0 Hp El. cbn [run_fresh fresh_label]. unfold step. rewrite Hp, El. cbn [Z.eqb negb].
  destruct (exec cf st0 i0 room). reflexivity.
Qed.

Lemma sim_after : forall M st0 st s0 s t c0 c, sim M st0 st -> coreq s0 s ->
  threads s0 = threads st0 -> threads s = threads st -> seen s0 = seen st0 -> seen s = seen st ->
  cbrel (cblog s0) (cblog s) ->
  code_rel (seen st) c0 c -> sim M (set_thread s0 t c0) (set_thread s t c).
Proof.
  intros M st0 st s0 s t c0 c (Hc&Ht&Hs&_) Hcs Ht0 Ht1 Hs0 Hs1 Hcb Hcr. split; [|split; [|split]]; [| | |exact Hcb].
  - apply coreq_set_thread. exact Hcs.
  - replace (seen (set_thread s t c)) with (seen st) by (symmetry; exact Hs1).
    apply trel_set_thread; [rewrite Ht0, Ht1; exact Ht|exact Hcr].
  - replace (seen (set_thread s0 t c0)) with (seen st0) by (symmetry; exact Hs0).
    replace (seen (set_thread s t c)) with (seen st) by (symmetry; exact Hs1). exact Hs.
Qed.

Lemma lstep_finish : forall cf M st0 st t room i0 rest0 i rest,
  sim M st0 st -> panicked st0 = 0 -> lookup tid_eqb t (threads st0) = Some (i0 :: rest0) ->
  coreq (fst (exec cf st0 i0 room)) (fst (exec cf st i room)) ->
  cbrel (cblog (fst (exec cf st0 i0 room))) (cblog (fst (exec cf st i room))) ->
  code_rel (seen st) (snd (exec cf st0 i0 room) ++ rest0) (snd (exec cf st i room) ++ rest) ->
  exists ls1 st0', run_fresh cf st0 ls1 = Some st0' /\
    sim M st0' (set_thread (fst (exec cf st i room)) t (snd (exec cf st i room) ++ rest)).
Proof.
  intros cf M st0 st t room i0 rest0 i rest Hsim Hp El Hc Hcb Hcr.
  exists [LStep t room]. exists (set_thread (fst (exec cf st0 i0 room)) t (snd (exec cf st0 i0 room) ++ rest0)).
  split; [apply shadow_lstep; assumption|].
  destruct (exec_frame cf st0 i0 room) as [F1 F2]. destruct (exec_frame cf st i room) as [F3 F4].
  apply (sim_after M st0 st); assumption.
Qed.

Lemma F2_app : forall sn a0 a b0 b, Forall2 (irel sn) a0 a -> Forall2 (irel sn) b0 b -> Forall2 (irel sn) (a0 ++ b0) (a ++ b).
Proof. intros sn a0 a b0 b H1 H2. induction H1; cbn; [exact H2|constructor; assumption]. Qed.

(* the shadow instruction of a re-using call req, executed on the SAME state: same state, related code *)
Lemma start_shadow : forall sn cf s k f e N room, reusedb sn k (f_id f) = true ->
  fst (exec cf s (IStart k (with_id f N) (bad_env e)) room) = fst (exec cf s (IStart k f e) room) /\
  Forall2 (irel sn) (snd (exec cf s (IStart k (with_id f N) (bad_env e)) room)) (snd (exec cf s (IStart k f e) room)).
Proof.
  intros sn cf s k f e N room Hr. cbn [exec bad_env e_start e_code with_id f_id].
  destruct (e_start e =? 0).
  - cbn [fst snd]. split; [reflexivity|]. constructor; [apply ir_can; exact Hr|constructor].
  - cbn [fst snd]. split; [reflexivity|].
    destruct ((e_start e =? 1) || (e_start e =? 3)), ((e_start e =? 1) || (e_start e =? 2)), (e_code e =? c_ErrCodeProtocol);
      cbn [app]; repeat (constructor; try apply ir_eq; try apply ir_err).
Qed.

Lemma can_shadow : forall sn cf s k f e c N room, reusedb sn k (f_id f) = true ->
  fst (exec cf s (ICanHandle k (with_id f N) (bad_env e) c) room) = fst (exec cf s (ICanHandle k f e c) room) /\
  Forall2 (irel sn) (snd (exec cf s (ICanHandle k (with_id f N) (bad_env e) c) room)) (snd (exec cf s (ICanHandle k f e c) room)).
Proof.
  intros sn cf s k f e c N room Hr. cbn [exec with_id f_id].
  destruct (c_state (get_conn s k) =? c_connectionActive); cbn [fst snd]; (split; [reflexivity|]).
  - constructor; [apply ir_get; exact Hr|constructor].
  - repeat (constructor; try apply ir_eq; try apply ir_err).
Qed.

Lemma senderr_coreq : forall cf a b k id id' c room, coreq a b ->
  coreq (fst (exec cf a (ISendErr k id' c) room)) (fst (exec cf b (ISendErr k id c) room)) /\
  snd (exec cf a (ISendErr k id' c) room) = [] /\ snd (exec cf b (ISendErr k id c) room) = [].
Proof.
  intros cf a b k id id' c room H. cbn [exec]. unfold get_conn.
  destruct H as (H1&H2&H3&H4&H5&H6&H7). rewrite H1.
  destruct ((c_state match lookup Z.eqb k (conns b) with Some c0 => c0 | None => conn0 end =? c_connectionClosed) || negb room);
    cbn [fst snd]; (split; [|split; reflexivity]); unfold coreq; cbn; repeat split; assumption.
Qed.

Lemma remove_idem : forall t (l : list (tid * list instr)), remove tid_eqb t (remove tid_eqb t l) = remove tid_eqb t l.
Proof.
  intros t l. induction l as [|[t' c] r IH]; [reflexivity|]. cbn [remove].
  destruct (tid_eqb t t') eqn:E; [exact IH|]. cbn [remove]. rewrite E, IH. reflexivity.
Qed.

Lemma set_thread_twice : forall s t c1 c2, c1 <> [] -> c2 <> [] ->
  set_thread (set_thread s t c1) t c2 = set_thread s t c2.
Proof.
  intros s t c1 c2 H1 H2. destruct c1 as [|a1 r1]; [contradiction|]. destruct c2 as [|a2 r2]; [contradiction|].
  unfold set_thread, set_threads. cbn. f_equal. unfold insert. cbn [remove].
  rewrite (eqb_refl tid_eqb tid_eqb_ok). rewrite remove_idem. reflexivity.
Qed.

Lemma lstep_sim : forall cf M st0 st t room st', sim M st0 st -> Inv st0 -> TInv st0 ->
  reuse_guard st (LStep t room) = true -> step cf st (LStep t room) = Some st' ->
  exists ls1 st0', run_fresh cf st0 ls1 = Some st0' /\ sim M st0' st'.
Proof.
  intros cf M st0 st t room st' Hsim HI HT Hg Hstep.
  pose proof Hsim as (Hc&Ht&Hs&Hlog).
  assert (Hp0 : panicked st0 = 0) by apply (t_nopanic _ HT).
  unfold step in Hstep. destruct (negb (panicked st =? 0)); [discriminate|].
  destruct (lookup tid_eqb t (threads st)) as [[|i rest]|] eqn:El; try discriminate.
  destruct (trel_lookup_some _ _ _ _ _ Ht El) as (code0&El0&Hcr).
  assert (Hst' : st' = set_thread (fst (exec cf st i room)) t (snd (exec cf st i room) ++ rest)).
  { destruct (exec cf st i room). inversion Hstep. reflexivity. }
  subst st'. clear Hstep.
  inversion Hcr as [c0 c1 HF E0 E1|c k N rest0 rest1 HF E0 E1].
  - (* instruction-wise related code *)
    subst c0 c1. inversion HF as [|i0 i1 rest0 rest1 Hi Hrest E0 E1]. subst.
    inversion Hi as [i1 E0 E1|k id id' c E0 E1|k f e N Hr E0 E1|k f e c N Hr E0 E1|k f e c N Hr E0 E1]; subst.
    + (* the same instruction *)
      destruct (exec_sim cf st0 st i room Hc) as [Hce Hsn].
      eapply lstep_finish; try eassumption; [apply exec_cbrel_same; exact Hlog|].
      rewrite Hsn. apply cr_all. apply F2_app; [apply Forall2_irel_refl|exact Hrest].
    + (* error frames that differ in the id only *)
      destruct (senderr_coreq cf st0 st k id id' c room Hc) as (Hce&Hs0&Hs1).
      eapply lstep_finish; try eassumption; [rewrite !exec_cblog_eq; exact Hlog|].
      rewrite Hs0, Hs1. cbn [app]. apply cr_all. exact Hrest.
    + (* IStart of a re-using call req *)
      destruct (start_shadow (seen st) cf st0 k f e N room Hr) as [Hf Hp].
      destruct (exec_sim cf st0 st (IStart k f e) room Hc) as [Hce Hsn].
      eapply lstep_finish; try eassumption; [rewrite Hf; exact Hce|rewrite !exec_cblog_eq; exact Hlog|].
      apply cr_all. apply F2_app; [rewrite <- Hsn; exact Hp|exact Hrest].
    + (* ICanHandle *)
      destruct (can_shadow (seen st) cf st0 k f e c N room Hr) as [Hf Hp].
      destruct (exec_sim cf st0 st (ICanHandle k f e c) room Hc) as [Hce Hsn].
      eapply lstep_finish; try eassumption; [rewrite Hf; exact Hce|rewrite !exec_cblog_eq; exact Hlog|].
      apply cr_all. apply F2_app; [rewrite <- Hsn; exact Hp|exact Hrest].
    + (* IGetDest: the re-used id finds an item (guard); the shadow's fresh id finds none *)
      cbn [reuse_guard] in Hg. rewrite El, Hr in Hg. cbn [negb orb] in Hg.
      unfold out_found in Hg. destruct (lookup key_eqb (k, 0, f_id f) (items st)) as [it|] eqn:Eit; [|discriminate].
      rewrite (reuse_dropped cf st k f e c room it Eit).
      assert (Hnone : lookup key_eqb (k, 0, N) (items st0) = None).
      { pose proof (inv_code _ HI t _ (lookup_in tid_eqb tid_eqb_ok _ _ _ El0)) as [Hfa _].
        inversion Hfa as [|x l Hio _]. subst. unfold iok in Hio. cbn [adm_kf with_id f_id] in Hio.
        destruct Hio as [_ (_&Hn&_)]. exact Hn. }
      assert (Hex : exec cf st0 (IGetDest k (with_id f N) (bad_env e) c) room =
                    (st0, [ICb c (CbFailed reason_bad_host); ISendErr k N c_ErrCodeDeclined; IDec k; ICb c CbEnd])).
      { cbn [exec with_id f_id bad_env e_dest]. rewrite Hnone. reflexivity. }
      exists [LStep t room]. eexists. split; [apply shadow_lstep; eassumption|]. rewrite Hex. cbn [fst snd app].
      apply (sim_after M st0 st); try assumption; try reflexivity. apply cr_drop. exact Hrest.
  - (* the refusal is being reported: one callback here, callback + (unsent) error frame in the shadow *)
    subst. cbn [exec fst snd app].
    set (s1 := set_thread (log_cb st0 c (CbFailed reason_bad_host)) t (ISendErr k N c_ErrCodeDeclined :: IDec k :: ICb c CbEnd :: rest0)).
    assert (R1 : run_fresh cf st0 [LStep t room] = Some s1).
    { rewrite (shadow_lstep cf st0 t room _ _ Hp0 El0). reflexivity. }
    assert (L1 : lookup tid_eqb t (threads s1) = Some (ISendErr k N c_ErrCodeDeclined :: IDec k :: ICb c CbEnd :: rest0)).
    { unfold s1. rewrite set_thread_threads. apply (lookup_insert_eq tid_eqb tid_eqb_ok). }
    assert (P1 : panicked s1 = 0) by exact Hp0.
    pose proof (shadow_lstep cf s1 t false _ _ P1 L1) as R2.
    cbn [exec negb] in R2. rewrite orb_true_r in R2. cbn [fst snd app] in R2.
    unfold s1 in R2 at 2. rewrite set_thread_twice in R2 by discriminate.
    exists ([LStep t room] ++ [LStep t false]). eexists. split.
    + rewrite run_fresh_app, R1. exact R2.
    + apply (sim_after M st0 st); try assumption; try reflexivity.
      * cbn [log_cb set_cblog cblog]. constructor; [split; [reflexivity|right; split; reflexivity]|exact Hlog].
      * apply cr_all. constructor; [apply ir_eq|]. constructor; [apply ir_eq|]. exact HF.
Qed.

Lemma in_existsb_seen : forall sn k id, In (k, id) sn -> existsb (fun p => (fst p =? k) && (snd p =? id)) sn = true.
Proof.
  intros sn k id H. apply existsb_exists. exists (k, id). split; [exact H|]. cbn. rewrite !Z.eqb_refl. reflexivity.
Qed.

Lemma larrive_sim : forall cf M st0 st k f e st', sim M st0 st -> Inv st0 -> TInv st0 -> f_id f < M ->
  step cf st (LArrive k f e) = Some st' ->
  exists ls1 st0', run_fresh cf st0 ls1 = Some st0' /\ sim M st0' st'.
Proof.
  intros cf M st0 st k f e st' Hsim HI HT Hlt Hstep.
  pose proof Hsim as (Hc&Ht&Hs&Hlog).
  assert (Hp0 : panicked st0 = 0) by apply (t_nopanic _ HT).
  unfold step in Hstep. destruct (negb (panicked st =? 0)); [discriminate|].
  destruct (lookup tid_eqb (TR k) (threads st)) eqn:El; [discriminate|].
  pose proof (trel_lookup_none _ _ _ _ Ht El) as El0.
  destruct (relayRoute (f_mt f) (cf_cancel cf) =? 1) eqn:Er.
  2: { inversion Hstep. subst. exists [], st0. split; [reflexivity|exact Hsim]. }
  destruct (f_mt f =? c_messageTypeCallReq) eqn:Emt.
  - inversion Hstep. subst st'. clear Hstep.
    destruct (existsb (fun p => (fst p =? k) && (snd p =? f_id f)) (seen st)) eqn:Ex.
    + (* the id is re-used: the shadow reads a never-used id, its RelayHost has no destination *)
      apply existsb_seen_true in Ex.
      set (N := nid M (seen st0)).
      assert (HN : ~ In (k, N) (seen st0)).
      { intro Hin. pose proof (nid_gt M _ _ _ Hin). unfold N in *. lia. }
      exists [LArrive k (with_id f N) (bad_env e)].
      exists (set_thread (set_seen st0 ((k, N) :: seen st0)) (TR k) [IStart k (with_id f N) (bad_env e)]).
      split.
      * cbn [run_fresh fresh_label with_id f_mt f_id]. rewrite Emt, (existsb_seen_false _ _ _ HN). cbn [andb negb].
        unfold step. rewrite Hp0, El0. cbn [Z.eqb negb with_id f_mt f_id]. rewrite Er, Emt. reflexivity.
      * split; [|split; [|split]]; [| | |exact Hlog].
        -- apply coreq_set_thread. unfold coreq, set_seen. cbn. exact Hc.
        -- replace (seen (set_thread (set_seen st ((k, f_id f) :: seen st)) (TR k) [IStart k f e])) with ((k, f_id f) :: seen st) by reflexivity.
           apply trel_set_thread.
           ++ cbn [set_seen threads]. apply trel_cons_sn. exact Ht.
           ++ apply cr_all. constructor; [|constructor]. apply ir_start. apply reusedb_new. exact Ex.
        -- replace (seen (set_thread (set_seen st0 ((k, N) :: seen st0)) (TR k) [IStart k (with_id f N) (bad_env e)])) with ((k, N) :: seen st0) by reflexivity.
           replace (seen (set_thread (set_seen st ((k, f_id f) :: seen st)) (TR k) [IStart k f e])) with ((k, f_id f) :: seen st) by reflexivity.
           intros k' id' [Heq|Hin].
           ++ inversion Heq. subst. right. apply nid_ge.
           ++ destruct (Hs _ _ Hin) as [H|H]; [left; right; exact H|right; exact H].
    + (* a fresh id: the same label *)
      assert (Hnot0 : ~ In (k, f_id f) (seen st0)).
      { intro Hin. destruct (Hs _ _ Hin) as [H|H]; [|lia]. apply in_existsb_seen in H. congruence. }
      exists [LArrive k f e].
      exists (set_thread (set_seen st0 ((k, f_id f) :: seen st0)) (TR k) [IStart k f e]).
      split.
      * cbn [run_fresh fresh_label]. rewrite Emt, (existsb_seen_false _ _ _ Hnot0). cbn [andb negb].
        unfold step. rewrite Hp0, El0. cbn [Z.eqb negb]. rewrite Er, Emt. reflexivity.
      * split; [|split; [|split]]; [| | |exact Hlog].
        -- apply coreq_set_thread. unfold coreq, set_seen. cbn. exact Hc.
        -- replace (seen (set_thread (set_seen st ((k, f_id f) :: seen st)) (TR k) [IStart k f e])) with ((k, f_id f) :: seen st) by reflexivity.
           apply trel_set_thread.
           ++ cbn [set_seen threads]. apply trel_cons_sn. exact Ht.
           ++ apply cr_all. apply Forall2_irel_refl.
        -- replace (seen (set_thread (set_seen st0 ((k, f_id f) :: seen st0)) (TR k) [IStart k f e])) with ((k, f_id f) :: seen st0) by reflexivity.
           replace (seen (set_thread (set_seen st ((k, f_id f) :: seen st)) (TR k) [IStart k f e])) with ((k, f_id f) :: seen st) by reflexivity.
           intros k' id' [Heq|Hin].
           ++ left. left. exact Heq.
           ++ destruct (Hs _ _ Hin) as [H|H]; [left; right; exact H|right; exact H].
  - (* any other relayed frame *)
    inversion Hstep. subst st'. clear Hstep.
    exists [LArrive k f e]. exists (set_thread st0 (TR k) [INcGet k f]). split.
    + cbn [run_fresh fresh_label]. rewrite Emt. cbn [andb negb].
      unfold step. rewrite Hp0, El0. cbn [Z.eqb negb]. rewrite Er, Emt. reflexivity.
    + apply (sim_after M st0 st); try assumption; try reflexivity. apply cr_all. apply Forall2_irel_refl.
Qed.

Lemma lfire_sim : forall cf M st0 st tm st', sim M st0 st -> TInv st0 ->
  step cf st (LFire tm) = Some st' ->
  exists ls1 st0', run_fresh cf st0 ls1 = Some st0' /\ sim M st0' st'.
Proof.
  intros cf M st0 st tm st' Hsim HT Hstep.
  pose proof Hsim as (Hc&Ht&Hs&Hlog).
  assert (Hp0 : panicked st0 = 0) by apply (t_nopanic _ HT).
  pose proof Hc as (C1&C2&C3&C4&C5&C6&C7).
  unfold step in Hstep. destruct (negb (panicked st =? 0)); [discriminate|].
  destruct (lookup Z.eqb tm (timers st)) as [x|] eqn:Ex; [|discriminate].
  destruct (tm_armed x) eqn:Ea; [|discriminate].
  destruct (lookup tid_eqb (TT tm) (threads st)) eqn:El; [discriminate|]. cbn [andb] in Hstep.
  inversion Hstep. subst st'. clear Hstep.
  pose proof (trel_lookup_none _ _ _ _ Ht El) as El0.
  exists [LFire tm]. eexists. split.
  - cbn [run_fresh fresh_label]. unfold step. rewrite Hp0, C3, Ex, Ea, El0. cbn [Z.eqb negb andb]. reflexivity.
  - apply (sim_after M st0 st); try assumption; try reflexivity.
    + unfold coreq, set_timers. cbn. repeat split; assumption.
    + apply cr_all. apply Forall2_irel_refl.
Qed.

Lemma lplain_sim : forall cf M st0 st l st', sim M st0 st -> plain_label l = true ->
  step cf st l = Some st' ->
  exists ls1 st0', run_fresh cf st0 ls1 = Some st0' /\ sim M st0' st'.
Proof.
  intros cf M st0 st l st' (Hc&Ht&Hs&Hlog) Hp Hstep.
  assert (Hc' : coreq st st0) by (unfold coreq in *; destruct Hc as (C1&C2&C3&C4&C5&C6&C7); repeat split; symmetry; assumption).
  destruct (step_plain_sim cf st st0 l st' Hc' Hp Hstep) as (st0'&Hs0&Hce&T1&T2&S1&S2&L1&L2).
  exists [l], st0'. split.
  - cbn [run_fresh]. replace (fresh_label st0 l) with true by (destruct l; try discriminate; reflexivity).
    rewrite Hs0. reflexivity.
  - split; [|split; [|split]].
    + unfold coreq in *. destruct Hce as (C1&C2&C3&C4&C5&C6&C7). repeat split; symmetry; assumption.
    + rewrite S1, T1, T2. exact Ht.
    + rewrite S1, S2. exact Hs.
    + rewrite L1, L2. exact Hlog.
Qed.

Lemma step_sim : forall cf M st0 st l st', sim M st0 st -> Inv st0 -> TInv st0 ->
  label_lt M l = true -> reuse_guard st l = true -> step cf st l = Some st' ->
  exists ls1 st0', run_fresh cf st0 ls1 = Some st0' /\ sim M st0' st'.
Proof.
  intros cf M st0 st l st' Hsim HI HT Hlt Hg Hstep. destruct l.
  - eapply larrive_sim; try eassumption. cbn in Hlt. apply Z.ltb_lt. exact Hlt.
  - eapply lstep_sim; eassumption.
  - eapply lfire_sim; eassumption.
  - eapply lplain_sim; try eassumption. reflexivity.
  - eapply lplain_sim; try eassumption. reflexivity.
  - eapply lplain_sim; try eassumption. reflexivity.
  - eapply lplain_sim; try eassumption. reflexivity.
Qed.

Lemma run_sim : forall cf M ls st0 st st', sim M st0 st -> Inv st0 -> TInv st0 -> LInv st0 ->
  forallb (label_lt M) ls = true -> run_reuse cf st ls = Some st' ->
  exists ls1 st0', run_fresh cf st0 ls1 = Some st0' /\ sim M st0' st'.
Proof.
  intros cf M ls. induction ls as [|l r IH]; intros st0 st st' Hsim HI HT HL Hlt H; cbn in H.
  - inversion H. subst. exists [], st0. split; [reflexivity|exact Hsim].
  - cbn in Hlt. apply andb_true_iff in Hlt. destruct Hlt as [Hl Hr].
    destruct (reuse_guard st l) eqn:Eg; [|discriminate].
    destruct (step cf st l) as [st1|] eqn:Es; [|discriminate].
    destruct (step_sim cf M st0 st l st1 Hsim HI HT Hl Eg Es) as (ls1&st01&R1&Hsim1).
    destruct (run_fresh_both cf ls1 st0 st01 HI HT HL R1) as (HI1&HT1&HL1).
    destruct (IH st01 st1 st' Hsim1 HI1 HT1 HL1 Hr H) as (ls2&st02&R2&Hsim2).
    exists (ls1 ++ ls2), st02. split; [rewrite run_fresh_app, R1; exact R2|exact Hsim2].
Qed.

(* a bound above every id of the schedule *)
Fixpoint sup_ids (ls : list label) : Z :=
  match ls with
  | [] => 0
  | LArrive _ f _ :: r => Z.max (f_id f + 1) (sup_ids r)
  | _ :: r => sup_ids r
  end.

Lemma sup_ids_ok : forall ls M, sup_ids ls <= M -> forallb (label_lt M) ls = true.
Proof.
  induction ls as [|l r IH]; intros M H; [reflexivity|]. cbn [forallb]. apply andb_true_iff.
  destruct l; cbn [sup_ids label_lt] in *; (split; [|apply IH; lia]); try reflexivity. apply Z.ltb_lt. lia.
Qed.

Lemma sim_init : forall M, sim M init init.
Proof. intro M. split; [apply coreq_refl|split; [|split]]; [constructor|intros k id []|constructor]. Qed.

(* MAIN: every schedule in which re-used ids meet an item -- any number of connections, calls,
   re-uses, timeouts, failures, closes, in any interleaving -- has the tables, timers, pending
   collections and panic flag of some fresh-id schedule; hence it reaches no Go panic. *)
Theorem reuse_simulated : forall cf ls st, run_reuse cf init ls = Some st ->
  exists ls0 st0, run_fresh cf init ls0 = Some st0 /\
    conns st = conns st0 /\ items st = items st0 /\ timers st = timers st0 /\ gcs st = gcs st0 /\
    panicked st = panicked st0.
Proof.
  intros cf ls st H.
  destruct (run_sim cf (sup_ids ls) ls init init st (sim_init _) Inv_init TInv_init LInv_init (sup_ids_ok ls _ (Z.le_refl _)) H)
    as (ls0&st0&R&(Hc&_&_&_)).
  exists ls0, st0. split; [exact R|]. destruct Hc as (C1&C2&C3&C4&C5&C6&C7). repeat split; symmetry; assumption.
Qed.

(* the same with the goroutines and the callback log: the fresh-id schedule has the same
   goroutines with pointwise related code and the same callbacks for the same calls in the same
   order (the refusal of a re-using call req is Failed(duplicate) here, Failed(bad host) there) *)
Theorem reuse_simulated_full : forall cf ls st, run_reuse cf init ls = Some st ->
  exists ls0 st0, run_fresh cf init ls0 = Some st0 /\ coreq st0 st /\
    trel (seen st) (threads st0) (threads st) /\ cbrel (cblog st0) (cblog st).
Proof.
  intros cf ls st H.
  destruct (run_sim cf (sup_ids ls) ls init init st (sim_init _) Inv_init TInv_init LInv_init (sup_ids_ok ls _ (Z.le_refl _)) H)
    as (ls0&st0&R&(Hc&Ht&_&Hl)).
  exists ls0, st0. split; [exact R|split; [exact Hc|split; [exact Ht|exact Hl]]].
Qed.

Theorem reuse_no_panic : forall cf ls st, run_reuse cf init ls = Some st -> panicked st = 0.
Proof.
  intros cf ls st H. destruct (reuse_simulated cf ls st H) as (ls0&st0&R&_&_&_&_&Hp).
  rewrite Hp. apply (t_nopanic _ (proj2 (reach_both cf ls0 st0 R))).
Qed.

(* fresh-id schedules are re-use schedules: the guard only speaks about re-used ids *)
Lemma step_seen : forall cf st l st', step cf st l = Some st' ->
  seen st' = seen st \/ exists k f e, l = LArrive k f e /\ f_mt f = c_messageTypeCallReq /\ seen st' = (k, f_id f) :: seen st.
Proof.
  intros cf st l st' H. destruct l as [k f e|t room|tm|t|k|k|k].
  - unfold step in H. destruct (negb (panicked st =? 0)); [discriminate|].
    destruct (lookup tid_eqb (TR k) (threads st)); [discriminate|].
    destruct (relayRoute (f_mt f) (cf_cancel cf) =? 1); [|inversion H; left; reflexivity].
    destruct (f_mt f =? c_messageTypeCallReq) eqn:E; inversion H; [right|left; reflexivity].
    exists k, f, e. apply Z.eqb_eq in E. repeat split; assumption.
  - left. unfold step in H. destruct (negb (panicked st =? 0)); [discriminate|].
    destruct (lookup tid_eqb t (threads st)) as [[|i rest]|]; try discriminate.
    destruct (exec_frame cf st i room) as [_ F]. destruct (exec cf st i room). inversion H. exact F.
  - left. unfold step in H. destruct (negb (panicked st =? 0)); [discriminate|].
    destruct (lookup Z.eqb tm (timers st)); [|discriminate].
    match type of H with (if ?b then _ else _) = _ => destruct b end; [|discriminate]. inversion H. reflexivity.
  - left. destruct (step_plain_sim cf st st (LGc t) st' (coreq_refl st) eq_refl H) as (b&_&_&_&_&S&_). exact S.
  - left. destruct (step_plain_sim cf st st (LClose k) st' (coreq_refl st) eq_refl H) as (b&_&_&_&_&S&_). exact S.
  - left. destruct (step_plain_sim cf st st (LLost k) st' (coreq_refl st) eq_refl H) as (b&_&_&_&_&S&_). exact S.
  - left. destruct (step_plain_sim cf st st (LDrained k) st' (coreq_refl st) eq_refl H) as (b&_&_&_&_&S&_). exact S.
Qed.

Lemma nodup_count : forall sn k id, NoDup sn -> (id_count sn k id <= 1)%nat.
Proof.
  induction sn as [|p r IH]; intros k id H; [cbn; lia|]. inversion H as [|x l Hn Hr]. subst.
  unfold id_count. cbn [filter]. destruct ((fst p =? k) && (snd p =? id)) eqn:E.
  - apply andb_true_iff in E. destruct E as [E1 E2]. apply Z.eqb_eq in E1, E2. destruct p as [a b]. cbn in E1, E2. subst.
    cbn [length]. destruct (filter (fun p => (fst p =? k) && (snd p =? id)) r) as [|q r'] eqn:Ef; [cbn; lia|].
    exfalso. apply Hn. assert (Hq : In q (filter (fun p => (fst p =? k) && (snd p =? id)) r)) by (rewrite Ef; left; reflexivity).
    apply filter_In in Hq. destruct Hq as [Hq Hp]. apply andb_true_iff in Hp. destruct Hp as [P1 P2]. apply Z.eqb_eq in P1, P2.
    destruct q as [a b]. cbn in P1, P2. subst. exact Hq.
  - apply (IH k id Hr).
Qed.

Lemma run_fresh_is_reuse : forall cf ls st st', NoDup (seen st) -> run_fresh cf st ls = Some st' -> run_reuse cf st ls = Some st'.
Proof.
  intros cf ls. induction ls as [|l r IH]; intros st st' Hnd H; cbn in *; [exact H|].
  destruct (fresh_label st l) eqn:Ef; [|discriminate]. destruct (step cf st l) as [st1|] eqn:Es; [|discriminate].
  assert (Hg : reuse_guard st l = true).
  { destruct l; try reflexivity. cbn [reuse_guard]. destruct (lookup tid_eqb t (threads st)) as [[|i rest]|]; try reflexivity.
    destruct i; try reflexivity. unfold reusedb. pose proof (nodup_count _ k (f_id f) Hnd) as Hc.
    destruct (2 <=? id_count (seen st) k (f_id f))%nat eqn:E; [apply Nat.leb_le in E; lia|reflexivity]. }
  rewrite Hg. apply IH; [|exact H].
  destruct (step_seen cf st l st1 Es) as [->|(k&f&e&->&Hmt&->)]; [exact Hnd|].
  constructor; [|exact Hnd]. cbn [fresh_label] in Ef. rewrite Hmt, Z.eqb_refl in Ef. cbn [andb] in Ef.
  apply negb_true_iff in Ef. intro Hin. apply in_existsb_seen in Hin. congruence.
Qed.

(* in re-use schedules (hence in fresh-id schedules) a pending tombstone collection only ever
   meets a tombstone or nothing: there the collection that deletes whatever has the id
   (relayItems.Delete, the code before the fix) and the one that deletes tombstones only
   (relayItems.deleteTomb) do the same *)
Theorem reuse_gc_tombs : forall cf ls st t it, run_reuse cf init ls = Some st ->
  In t (gcs st) -> lookup key_eqb t (items st) = Some it -> it_tomb it = true.
Proof.
  intros cf ls st t it H Hin Hl. destruct (reuse_simulated cf ls st H) as (ls0&st0&R&_&Hi&_&Hg&_).
  rewrite Hi in Hl. rewrite Hg in Hin. exact (inv_gcs _ (reach_inv cf ls0 st0 R) t it Hin Hl).
Qed.
