(* Proofs about Model/Health.v (history ring, loop) and the health part of
   Model/IdleHealthSys.v. *)
From Coq Require Import ZArith List Bool Lia ZifyBool Arith PeanoNat.
From Verif Require Import Base.Wrap Base.Wire Gen.GenConsts Gen.GenRetry Gen.GenFrame Gen.GenHealthIdle
  Spec.IdleHealthSpec Model.Health Model.Idle Model.IdleHealthSys Proofs.IdleP.
Import ListNotations.
Local Open Scope Z_scope.

(* ---- lists: rotation and last-n ---------------------------------------------------------- *)
Section Lists.
Context {A : Type}.

Definition rot (k : nat) (s : list A) : list A := skipn k s ++ firstn k s.
Definition set_nth_nat (i : nat) (b : A) (s : list A) : list A := firstn i s ++ b :: skipn (S i) s.

Lemma skipn_S_tl : forall (k : nat) (l : list A), skipn (S k) l = tl (skipn k l).
Proof.
  induction k as [|k IH]; intros l.
  - destruct l; reflexivity.
  - destruct l as [|a r]; [reflexivity|]. change (skipn (S (S k)) (a :: r)) with (skipn (S k) r).
    change (skipn (S k) (a :: r)) with (skipn k r). apply IH.
Qed.

Lemma app_inv_len : forall (l1 l3 l2 l4 : list A),
  l1 ++ l2 = l3 ++ l4 -> length l1 = length l3 -> l1 = l3 /\ l2 = l4.
Proof.
  induction l1 as [|a r IH]; intros [|b r3] l2 l4 H Hl; cbn [length] in Hl; try discriminate.
  - cbn [app] in H. auto.
  - cbn [app] in H. injection H as -> H. injection Hl as Hl.
    destruct (IH r3 l2 l4 H Hl) as [-> ->]. auto.
Qed.

Lemma rot_step (s : list A) (i n : nat) (b : A) :
  length s = n -> (i < n)%nat ->
  rot ((i + 1) mod n) (set_nth_nat i b s) = tl (rot i s) ++ [b].
Proof.
  intros Hl Hi. unfold rot, set_nth_nat.
  assert (Hfi : length (firstn i s) = i) by (rewrite firstn_length; lia).
  assert (Hsk : exists x, skipn i s = x :: skipn (S i) s).
  { rewrite skipn_S_tl. destruct (skipn i s) as [|x r] eqn:E.
    - exfalso. assert (length (skipn i s) = 0%nat) by now rewrite E. rewrite skipn_length in H. lia.
    - exists x. reflexivity. }
  destruct Hsk as [x Hx]. rewrite Hx. cbn [app tl].
  remember (skipn (S i) s) as X eqn:EX. remember (firstn i s) as Y eqn:EY.
  destruct (Nat.eq_dec (i + 1) n) as [E|E].
  - (* wrap around *)
    rewrite E, Nat.mod_same by lia. rewrite skipn_O, firstn_O, app_nil_r.
    assert (Hnil : X = []). { subst X. apply skipn_all2. lia. }
    rewrite Hnil. cbn [app]. reflexivity.
  - rewrite Nat.mod_small by lia. replace (i + 1)%nat with (length Y + 1)%nat by lia.
    rewrite skipn_app. rewrite skipn_all2 by lia. cbn [app].
    replace (length Y + 1 - length Y)%nat with 1%nat by lia. cbn [skipn].
    rewrite firstn_app. rewrite firstn_all2 by lia.
    replace (length Y + 1 - length Y)%nat with 1%nat by lia. cbn [firstn].
    rewrite <- app_assoc. reflexivity.
Qed.

Lemma set_nth_nat_length (s : list A) i b : (i < length s)%nat -> length (set_nth_nat i b s) = length s.
Proof.
  intros Hi. unfold set_nth_nat. rewrite app_length. cbn [length]. rewrite firstn_length, skipn_length. lia.
Qed.

Lemma lastn_snoc (n : nat) (l : list A) (b : A) :
  (n <= length l)%nat -> (0 < n)%nat -> lastn n (l ++ [b]) = tl (lastn n l) ++ [b].
Proof.
  intros Hn Hpos. unfold lastn. rewrite app_length. cbn [length].
  replace (length l + 1 - n)%nat with (S (length l - n)) by lia.
  rewrite skipn_S_tl. rewrite skipn_app.
  replace (length l - n - length l)%nat with 0%nat by lia. cbn [skipn].
  destruct (skipn (length l - n) l) as [|x r] eqn:E.
  - exfalso. assert (H : length (skipn (length l - n) l) = 0%nat) by now rewrite E. rewrite skipn_length in H. lia.
  - reflexivity.
Qed.
End Lists.

(* ---- the history ring ---------------------------------------------------------------------- *)
Definition HN : nat := 256.
Lemma HN_eq : Z.to_nat c_u_healthHistorySize = HN. Proof. reflexivity. Qed.
Lemma HN_z : c_u_healthHistorySize = Z.of_nat HN. Proof. reflexivity. Qed.

Lemma set_nth_of_nat i b s : set_nth (Z.of_nat i) b s = set_nth_nat i b s.
Proof. unfold set_nth, set_nth_nat. now rewrite Nat2Z.id. Qed.

Definition ring_inv (l : list bool) (h : ring) : Prop :=
  hh_bad h = false /\ length (hh_states h) = HN /\ hh_total h = zlen l /\
  hh_insert h = Z.of_nat (length l mod HN) /\
  rot (length l mod HN) (hh_states h) = lastn HN (repeat false HN ++ l).

Lemma ring_inv_new : ring_inv [] hh_new.
Proof.
  unfold ring_inv, hh_new. cbn [hh_bad hh_states hh_total hh_insert]. rewrite HN_eq.
  split; [reflexivity|]. split; [apply repeat_length|]. split; [reflexivity|]. split; [reflexivity|].
  unfold lastn. rewrite app_nil_r, repeat_length, Nat.sub_diag. reflexivity.
Qed.

Lemma ring_inv_add l h b : ring_inv l h -> ring_inv (l ++ [b]) (hh_add h b).
Proof.
  intros (Hb & Hlen & Ht & Hi & Hrot).
  assert (Hpos : (0 < HN)%nat) by (unfold HN; lia).
  assert (Hm : (length l mod HN < HN)%nat) by (apply Nat.mod_upper_bound; lia).
  unfold hh_add. unfold zlen. rewrite Hlen, Hi.
  assert (E : (0 <=? Z.of_nat (length l mod HN)) && (Z.of_nat (length l mod HN) <? Z.of_nat HN) = true) by lia.
  rewrite E. unfold ring_inv. cbn [hh_bad hh_states hh_total hh_insert].
  rewrite set_nth_of_nat.
  rewrite app_length. cbn [length].
  assert (Hmod : ((length l + 1) mod HN = (length l mod HN + 1) mod HN)%nat).
  { rewrite (Nat.add_mod (length l) 1 HN) by lia.
    destruct (Nat.eq_dec HN 1) as [E1|E1]; [unfold HN in E1; discriminate|].
    rewrite (Nat.mod_small 1 HN) by (unfold HN; lia). reflexivity. }
  repeat split.
  - exact Hb.
  - rewrite set_nth_nat_length; lia.
  - rewrite Ht. unfold zlen. rewrite app_length. cbn [length]. lia.
  - rewrite Hmod. generalize dependent (length l mod HN)%nat. intros m _ _ _ _ _.
    rewrite HN_z, Z.rem_mod_nonneg; [|lia|unfold HN; lia]. rewrite Nat2Z.inj_mod. f_equal. lia.
  - rewrite Hmod. rewrite (rot_step (hh_states h) (length l mod HN) HN b Hlen Hm). rewrite Hrot.
    rewrite app_assoc. rewrite lastn_snoc; [reflexivity| |exact Hpos].
    rewrite app_length, repeat_length. lia.
Qed.

Lemma ring_inv_fold bs : forall l h, ring_inv l h ->
  ring_inv (l ++ bs) (fold_left hh_add bs h).
Proof.
  induction bs as [|b r IH]; intros l h H; cbn [fold_left]; [now rewrite app_nil_r|].
  replace (l ++ b :: r) with ((l ++ [b]) ++ r) by (rewrite <- app_assoc; reflexivity).
  apply IH. now apply ring_inv_add.
Qed.

Lemma ring_inv_as_bools l h : ring_inv l h -> hh_as_bools h = lastn HN l.
Proof.
  intros (Hb & Hlen & Ht & Hi & Hrot). unfold hh_as_bools. rewrite Ht, Hi, HN_z. unfold zlen.
  destruct (Z.of_nat (length l) <? Z.of_nat HN) eqn:E.
  - assert (Hlt : (length l < HN)%nat) by lia.
    rewrite Nat.mod_small in Hrot by lia. rewrite Nat2Z.id.
    unfold rot, lastn in Hrot. rewrite app_length, repeat_length in Hrot.
    replace (HN + length l - HN)%nat with (length l) in Hrot by lia.
    rewrite skipn_app in Hrot. rewrite repeat_length in Hrot.
    replace (length l - HN)%nat with 0%nat in Hrot by lia. cbn [skipn] in Hrot.
    apply app_inv_len in Hrot as [_ H2].
    + rewrite H2. unfold lastn. replace (length l - HN)%nat with 0%nat by lia. reflexivity.
    + rewrite !skipn_length, repeat_length. lia.
  - assert (Hge : (HN <= length l)%nat) by lia.
    rewrite Nat2Z.id. fold (rot (length l mod HN) (hh_states h)). rewrite Hrot.
    unfold lastn. rewrite app_length, repeat_length.
    replace (HN + length l - HN)%nat with (length l) by lia.
    rewrite skipn_app. rewrite repeat_length. rewrite skipn_all2 by (rewrite repeat_length; lia).
    reflexivity.
Qed.

(* asBools of the history after any sequence of results is its last 256 results, in order,
   and the index expression never leaves the array *)
Theorem ring_as_bools (bs : list bool) :
  let h := fold_left hh_add bs hh_new in
  hh_as_bools h = lastn 256 bs /\ hh_bad h = false /\ hh_total h = zlen bs.
Proof.
  intros h. pose proof (ring_inv_fold bs [] hh_new ring_inv_new) as H. cbn [app] in H. fold h in H.
  split; [exact (ring_inv_as_bools bs h H)|]. destruct H as (Hb & _ & Ht & _). auto.
Qed.

(* ---- the health loop over outcome sequences ------------------------------------------------- *)
Lemma health_iter_ok F l : hl_fails (fst (health_iter F POk l)) = 0 /\ snd (health_iter F POk l) = false
  /\ hl_running (fst (health_iter F POk l)) = true.
Proof. cbn. auto. Qed.

(* the counter is the length of the run of failures that ends the consumed prefix *)
Definition fails_inv (pre : list outcome) (f : nat) : Prop :=
  (f <= length pre)%nat /\
  (forall j, (length pre - f <= j < length pre)%nat -> nth j pre POk = PFail) /\
  ((f < length pre)%nat -> nth (length pre - f - 1) pre POk <> PFail).

Lemma window_app_l F pre outs j : (j < length pre)%nat ->
  window_fails F (pre ++ outs) j <-> window_fails F pre j.
Proof.
  intros Hj. unfold window_fails. split; intros [H1 H2]; (split; [exact H1|]); intros k Hk.
  - rewrite <- (app_nth1 pre outs) by lia. now apply H2.
  - rewrite app_nth1 by lia. now apply H2.
Qed.

Lemma health_loop_spec F (HF : (1 <= F)%nat) : forall outs pre l f,
  hl_running l = true -> hl_fails l = Z.of_nat f -> (f < F)%nat -> fails_inv pre f ->
  (forall j, (j < length pre)%nat -> ~ window_fails F pre j) ->
  (forall j, (j < length pre)%nat -> nth j pre POk <> PStop) ->
  forall i, snd (health_loop (Z.of_nat F) outs (length pre) l) = Some i <-> health_closes_at F (pre ++ outs) i.
Proof.
  induction outs as [|o r IH]; intros pre l f Hrun Hf HfF Hinv Hnow Hnos i.
  - cbn [health_loop snd]. rewrite app_nil_r. split; [discriminate|].
    intros (Hi & Hw & _). exfalso. exact (Hnow i Hi Hw).
  - cbn [health_loop]. rewrite Hrun.
    assert (Happ : pre ++ o :: r = (pre ++ [o]) ++ r) by (rewrite <- app_assoc; reflexivity).
    assert (Hlen : length (pre ++ [o]) = S (length pre)) by (rewrite app_length; cbn; lia).
    assert (Hnth : nth (length pre) (pre ++ [o]) POk = o) by (rewrite app_nth2, Nat.sub_diag by lia; reflexivity).
    destruct Hinv as (Hfl & Hall & Hprev).
    destruct o.
    + (* success: counter reset *)
      cbn [health_iter]. rewrite Happ, <- Hlen.
      apply (IH (pre ++ [POk]) _ 0%nat); cbn [hl_running hl_fails]; try reflexivity; try lia.
      * unfold fails_inv. rewrite Hlen. split; [lia|]. split; [intros j Hj; lia|]. intros _.
        replace (S (length pre) - 0 - 1)%nat with (length pre) by lia. rewrite Hnth. discriminate.
      * intros j Hj. rewrite Hlen in Hj. destruct (Nat.eq_dec j (length pre)) as [->|Hne].
        -- intros [_ Hw]. specialize (Hw (length pre)). rewrite Hnth in Hw. assert (POk = PFail) by (apply Hw; lia). discriminate.
        -- rewrite window_app_l by lia. apply Hnow. lia.
      * intros j Hj. rewrite Hlen in Hj. destruct (Nat.eq_dec j (length pre)) as [->|Hne].
        -- rewrite Hnth. discriminate.
        -- rewrite app_nth1 by lia. apply Hnos. lia.
    + (* failure *)
      cbn [health_iter]. rewrite Hf.
      destruct (Z.of_nat f + 1 >=? Z.of_nat F) eqn:E.
      * (* the F-th consecutive failure: close here *)
        cbn [snd]. assert (HfF1 : (f + 1 = F)%nat) by lia.
        assert (Hwin : window_fails F (pre ++ PFail :: r) (length pre)).
        { split; [lia|]. intros j Hj. destruct (Nat.eq_dec j (length pre)) as [->|Hne].
          - rewrite app_nth2, Nat.sub_diag by lia. reflexivity.
          - rewrite app_nth1 by lia. apply Hall. lia. }
        split.
        -- intros H. injection H as <-. split; [rewrite app_length; cbn; lia|]. split; [exact Hwin|]. split.
           ++ intros j Hj. rewrite window_app_l by lia. now apply Hnow.
           ++ intros j Hj. destruct (Nat.eq_dec j (length pre)) as [->|Hne].
              ** rewrite app_nth2, Nat.sub_diag by lia. discriminate.
              ** rewrite app_nth1 by lia. apply Hnos. lia.
        -- intros (Hi & Hw & Hfirst & Hns). f_equal.
           destruct (Nat.lt_trichotomy i (length pre)) as [Hlt|[->|Hgt]]; [|reflexivity|].
           ++ exfalso. rewrite window_app_l in Hw by lia. exact (Hnow i Hlt Hw).
           ++ exfalso. exact (Hfirst (length pre) Hgt Hwin).
      * (* fewer than F so far: continue *)
        rewrite Happ, <- Hlen.
        apply (IH (pre ++ [PFail]) _ (S f)); cbn [hl_running hl_fails]; try reflexivity; try lia.
        -- unfold fails_inv. rewrite Hlen. split; [lia|]. split.
           ++ intros j Hj. destruct (Nat.eq_dec j (length pre)) as [->|Hne]; [exact Hnth|].
              rewrite app_nth1 by lia. apply Hall. lia.
           ++ intros Hlt. replace (S (length pre) - S f - 1)%nat with (length pre - f - 1)%nat by lia.
              rewrite app_nth1 by lia. apply Hprev. lia.
        -- intros j Hj. rewrite Hlen in Hj. destruct (Nat.eq_dec j (length pre)) as [->|Hne].
           ++ intros [Hw1 Hw2].
              destruct (Nat.lt_ge_cases f (length pre)) as [Hlt|Hge]; [|lia].
              apply (Hprev Hlt). rewrite <- (app_nth1 pre [PFail]) by lia. apply Hw2. lia.
           ++ rewrite window_app_l by lia. apply Hnow. lia.
        -- intros j Hj. rewrite Hlen in Hj. destruct (Nat.eq_dec j (length pre)) as [->|Hne].
           ++ rewrite Hnth. discriminate.
           ++ rewrite app_nth1 by lia. apply Hnos. lia.
    + (* stop: the loop returns without closing *)
      cbn [health_iter].
      assert (Hnone : forall k l', hl_running l' = false -> snd (health_loop (Z.of_nat F) r k l') = None).
      { intros k l' Hr'. destruct r; cbn [health_loop]; [reflexivity|]. now rewrite Hr'. }
      rewrite Hnone by reflexivity. split; [discriminate|].
      intros (Hi & Hw & Hfirst & Hns). exfalso.
      destruct (Nat.lt_ge_cases i (length pre)) as [Hlt|Hge].
      * rewrite window_app_l in Hw by lia. exact (Hnow i Hlt Hw).
      * apply (Hns (length pre) Hge). rewrite app_nth2, Nat.sub_diag by lia. reflexivity.
Qed.

Theorem health_loop_closes_iff (F : Z) (outs : list outcome) (i : nat) :
  1 <= F ->
  snd (health_loop F outs 0 hl_init) = Some i <-> health_closes_at (Z.to_nat F) outs i.
Proof.
  intros HF. rewrite <- (Z2Nat.id F) at 1 by lia.
  apply (health_loop_spec (Z.to_nat F) ltac:(lia) outs [] hl_init 0%nat); try reflexivity; try lia.
  - split; [cbn; lia|]. split; [intros j Hj; cbn in Hj; lia|]. cbn. lia.
  - intros j Hj. cbn in Hj. lia.
  - intros j Hj. cbn in Hj. lia.
Qed.

(* the history kept by the loop is exactly the sequence of consumed results *)
Lemma health_iter_hist F o l :
  hl_hist (fst (health_iter F o l)) = hh_add (hl_hist l) (match o with POk => true | _ => false end).
Proof. destruct o; cbn [health_iter]; try reflexivity. destruct (_ >=? _); reflexivity. Qed.

(* ---- the health step inside the system ------------------------------------------------------ *)
Lemma k_health_check c : k_health (check_exchanges c) = k_health c.
Proof. unfold check_exchanges. destruct (_ && _); reflexivity. Qed.
Lemma k_health_close c : k_health (conn_close c) = k_health c.
Proof. unfold conn_close. destruct (_ =? _); [rewrite k_health_check|]; reflexivity. Qed.
Lemma k_health_error c : k_health (conn_error c) = k_health c.
Proof. unfold conn_error. rewrite k_health_check. cbn. apply k_health_close. Qed.

Lemma state_close_set_health hs l c : k_state (conn_close (set_health hs l c)) = k_state (conn_close c).
Proof.
  unfold conn_close. cbn [set_health k_state]. destruct (k_state c =? c_connectionActive); [|reflexivity].
  unfold check_exchanges.
  change (check_exchanges_state (set_state c_connectionStartClose (set_health hs l c)))
    with (check_exchanges_state (set_state c_connectionStartClose c)).
  cbn [set_state set_health k_state]. destruct (_ && _); reflexivity.
Qed.

(* A ping that ends on a connection whose health check is waiting for it: the exchange of the
   ping is removed, the loop body runs once, and the connection is closed exactly when the loop
   body says so. *)
Theorem ping_end_step F o c :
  k_hstatus c = 2 ->
  let c1 := check_exchanges (set_counts (k_inb c) (k_outb c) (k_pings c - 1) (k_relay c) c) in
  let r := health_iter F o (k_health c) in
  k_health (ping_end F o c) = fst r /\
  (snd r = true <-> o = PFail /\ hl_fails (k_health c) + 1 >= F) /\
  (snd r = true -> k_state (ping_end F o c) = k_state (conn_close c1)) /\
  (snd r = false -> k_state (ping_end F o c) = k_state c1).
Proof.
  intros Hs c1 r. unfold ping_end. rewrite Hs, Z.eqb_refl. cbn [negb]. cbv zeta. fold c1. unfold after_ping.
  assert (Hk : k_health c1 = k_health c).
  { unfold c1. rewrite k_health_check. reflexivity. }
  rewrite Hk. fold r.
  assert (Hcl : snd r = true <-> o = PFail /\ hl_fails (k_health c) + 1 >= F).
  { unfold r. destruct o; cbn [health_iter snd].
    - split; [discriminate|intros [H _]; discriminate].
    - destruct (hl_fails (k_health c) + 1 >=? F) eqn:E1; cbn [snd].
      + split; [intros _; split; [reflexivity|lia]|reflexivity].
      + split; [discriminate|intros [_ H]; lia].
    - split; [discriminate|intros [H _]; discriminate]. }
  destruct r as [l closed]. cbn [fst snd] in *.
  split; [|split; [exact Hcl|split]].
  - destruct closed; destruct (_ =? _); cbn [set_health k_health]; rewrite ?k_health_close; reflexivity.
  - intros ->. destruct (_ =? _); cbn [set_health k_state]; apply state_close_set_health.
  - intros ->. destruct (_ =? _); reflexivity.
Qed.

(* a ping that cannot be queued: the connection is closed through the connection-error path,
   untracked, and the health goroutine has exited (no self-deadlock) *)
Theorem ping_not_sent F c :
  k_hstatus c = 1 -> conn_wf c ->
  let c' := ping_start F false c in
  k_state c' = c_connectionClosed /\ k_tracked c' = false /\ k_hstatus c' = 3 /\
  hl_hist (k_health c') = hh_add (hl_hist (k_health c)) false.
Proof.
  intros Hs Hwf c'. unfold c', ping_start. rewrite Hs. cbn [Z.eqb negb]. cbv zeta.
  set (c0 := set_counts (k_inb c) (k_outb c) (k_pings c + 1) (k_relay c) c).
  assert (Hce : k_state (conn_error c0) = c_connectionClosed).
  { unfold conn_error, check_exchanges.
    set (c2 := set_stopped true (conn_close c0)).
    assert (E : check_exchanges_state c2 = c_connectionClosed).
    { unfold check_exchanges_state. cbn [c2 set_stopped k_stopped k_state].
      destruct (k_state (conn_close c0) =? c_connectionClosed) eqn:E0; cbn [negb andb].
      - assert (E0' : k_state (conn_close c0) = c_connectionClosed) by lia. rewrite E0'. reflexivity.
      - reflexivity. }
    rewrite E. destruct (_ && _); reflexivity. }
  set (c1 := conn_error c0) in *.
  assert (Hwf1 : conn_wf c1). { unfold c1. apply wf_error. unfold c0. apply wf_pings, Hwf. }
  set (c2 := check_exchanges (set_counts (k_inb c1) (k_outb c1) (k_pings c1 - 1) (k_relay c1) c1)).
  assert (Hs2 : k_state c2 = c_connectionClosed).
  { unfold c2, check_exchanges. rewrite ces_closed_stays by exact Hce.
    cbn [set_counts k_state]. rewrite Hce. rewrite Z.eqb_refl. reflexivity. }
  assert (Hwf2 : conn_wf c2). { unfold c2. apply wf_check, wf_pings, Hwf1. }
  assert (Hk2 : k_health c2 = k_health c).
  { unfold c2, check_exchanges. destruct (_ && _); cbn; unfold c1, conn_error, check_exchanges;
      destruct (_ && _); cbn; unfold conn_close; destruct (_ =? _); cbn; try reflexivity;
      unfold check_exchanges; destruct (_ && _); reflexivity. }
  unfold after_ping. destruct (health_iter F PFail (k_health c2)) as [l closed] eqn:Ei.
  assert (Hl : hl_hist l = hh_add (hl_hist (k_health c)) false).
  { pose proof (health_iter_hist F PFail (k_health c2)) as H. rewrite Ei, Hk2 in H. exact H. }
  assert (Hcl : forall hs, conn_close (set_health hs l c2) = set_health hs l c2).
  { intros hs. unfold conn_close. cbn [set_health k_state]. rewrite Hs2. reflexivity. }
  destruct Hwf2 as [_ Htr2]. rewrite Hs2, Z.eqb_refl in Htr2. cbn [negb] in Htr2.
  destruct closed; rewrite ?Hcl; cbn [set_health k_state]; rewrite Hs2, Z.eqb_refl;
    cbn [set_health k_state k_tracked k_hstatus k_health]; auto.
Qed.

(* events on one connection leave every other connection untouched *)
Theorem other_conns_untouched cf s e id id' :
  ev_conn e = Some id' -> id' <> id ->
  (forall i rl, e <> ENewConn i rl) ->
  lookup id (ch_conns (step cf s e)) = lookup id (ch_conns s).
Proof.
  intros He Hne Hnew. destruct e; cbn [ev_conn] in He; try discriminate; injection He as ->; cbn [step];
    try (rewrite on_conn_lookup; destruct (id' =? id) eqn:E; [lia|reflexivity]).
  exfalso. eapply Hnew. reflexivity.
Qed.

(* ---- options -------------------------------------------------------------------------------- *)
Theorem defaults_spec o :
  let o' := ho_with_defaults o in
  ho_interval o' = ho_interval o /\
  ho_timeout o' = (if ho_timeout o =? 0 then 1000000000 else ho_timeout o) /\
  ho_failures o' = (if ho_failures o =? 0 then 5 else ho_failures o) /\
  (ho_enabled o' = true <-> 0 < ho_interval o).
Proof.
  unfold ho_with_defaults, ho_enabled, hcEnabled. cbn [ho_interval ho_timeout ho_failures].
  repeat split; intros H; lia.
Qed.

(* along every history a connection is tracked by the channel exactly while it is not Closed,
   and its exchange / relay counters never go negative *)
Theorem run_tracked_iff_open cf t0 h id c :
  lookup id (ch_conns (run cf t0 h)) = Some c ->
  (k_tracked c = true <-> k_state c <> c_connectionClosed) /\ counts_ok c.
Proof.
  intros L. destruct (run_wf cf t0 h) as [_ Hall]. destruct (Hall id c L) as [Hc Ht].
  split; [|exact Hc]. rewrite Ht. destruct (k_state c =? c_connectionClosed) eqn:E; cbn [negb]; split; intros H; try lia; try discriminate; auto.
Qed.
