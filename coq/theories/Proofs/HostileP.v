(* Property C05 (a), HOSTILE input: the fragment reader of Model/Frag.v on ANY fragment list
   (any chunk structure, any checksum fields, any more-flags) under ANY script of
   Begin / Read / Close / ArgReadHelper operations.
     Part 1  no panic once the first fragment's checksum type is known (which the fragment
             parser guarantees: PeerInputP.parsed_ctype_known); every error code returned
             is also the reader's sticky error; after an error nothing is handed out
     Part 2  ghost invariant: what has been consumed without error is a checksum-verified,
             well-formed message prefix; Complete is entered at most once and only on a
             verified last fragment (more-fragments flag clear)
     Part 3  extension stability of the caller's three helper reads: the outcome on a
             prefix of the fragments is an error or the outcome on the whole list
     Part 4  byte level: frames / fragments of a cut stream are a prefix of those of the
             whole stream, for ARBITRARY bytes; the outcome of a cut stream is an error or
             the outcome of the uncut stream *)
From Coq Require Import ZArith List Bool Lia ZifyBool.
From Verif Require Import Base.Wrap Base.Bytes Base.Wire Gen.GenConsts Gen.GenFrame Model.TypedBuf Model.Messages
  Model.Crc Model.Frag Model.FragWire Model.Cut Spec.FragSpec Spec.FragOk
  Proofs.CodecP Proofs.CodecsP Proofs.FrameP Proofs.FragRP Proofs.PeerInputP Proofs.CutP.
Import ListNotations.
Local Open Scope Z_scope.

Ltac prj := cbn [rs_state rs_err rs_rem rs_cur rs_more rs_in rs_ck rs_got rs_rel rs_fin].
Ltac prj_in H := cbn [rs_state rs_err rs_rem rs_cur rs_more rs_in rs_ck rs_got rs_rel rs_fin] in H.
Ltac prj_all := cbn [rs_state rs_err rs_rem rs_cur rs_more rs_in rs_ck rs_got rs_rel rs_fin] in *.

(* ================================================================== *)
(* Statement-level definitions: arbitrary operation scripts            *)
(* ================================================================== *)
(* one operation: (data handed out, code, state after); None = panic *)
Definition r_step (o : rop) (st : rst) : option (list Z * Z * rst) :=
  match o with
  | RBegin l => match r_begin l st with None => None | Some (c, s) => Some ([], c, s) end
  | RRead n => r_read n st
  | RClose => match r_close st with None => None | Some (c, s) => Some ([], c, s) end
  | RHelper n => r_helper_read n st
  end.

(* a whole script: per operation (data, code, state after) *)
Fixpoint r_trace (ops : list rop) (st : rst) : option (list (list Z * Z * rst)) :=
  match ops with
  | [] => Some []
  | o :: r =>
      match r_step o st with
      | None => None
      | Some (bs, c, st') =>
          match r_trace r st' with None => None | Some t => Some ((bs, c, st') :: t) end
      end
  end.

(* the helper reads with a positive buffer size (ioutil.ReadAll: 512); Read sizes are free *)
Definition op_ok (o : rop) : Prop := match o with RHelper n => 0 < n | _ => True end.

(* bytes still to come *)
Definition fsum (fs : list frag) : Z := fold_right (fun f a => lsum (f_chunks f) + a) 0 fs.

Lemma total_bytes_eq st : total_bytes st = zlen (rs_cur st) + lsum (rs_rem st) + fsum (rs_in st).
Proof. reflexivity. Qed.

Lemma lsum_nonneg t : 0 <= lsum t.
Proof. induction t as [|c t IH]; cbn [lsum fold_right]; [lia|]. fold (lsum t). pose proof (zlen_nonneg c). lia. Qed.

Lemma fsum_nonneg fs : 0 <= fsum fs.
Proof. induction fs as [|f r IH]; cbn [fsum fold_right]; [lia|]. fold (fsum r). pose proof (lsum_nonneg (f_chunks f)). lia. Qed.

Lemma lsum_cons c t : lsum (c :: t) = zlen c + lsum t.
Proof. reflexivity. Qed.
Lemma fsum_cons f r : fsum (f :: r) = lsum (f_chunks f) + fsum r.
Proof. reflexivity. Qed.

(* ================================================================== *)
(* Part 1: no panic, error codes are sticky                            *)
(* ================================================================== *)
(* what one operation guarantees on any state whose first checksum type is known *)
Lemma recv_H st : ck_safe st -> rs_err st = 0 ->
  exists c st', r_recv st = Some (c, st') /\ ck_safe st' /\ rs_state st' = rs_state st /\
    total_bytes st' <= total_bytes st /\ (length (rs_in st') <= length (rs_in st))%nat /\
    (c = 0 -> rs_err st' = 0 /\ (length (rs_in st') < length (rs_in st))%nat) /\
    (c <> 0 -> c <> 12 /\ rs_err st' = c).
Proof.
  intros Hc He. destruct st as [s e rem cur more inn ck got rel fin]. prj_all. subst e.
  unfold r_recv. prj. cbn [Z.eqb negb].
  pose proof (zlen_nonneg cur) as Zc. pose proof (lsum_nonneg rem) as Zr.
  destruct inn as [|f rest].
  { do 2 eexists. split; [reflexivity|]. prj. split; [unfold ck_safe; prj; destruct ck; exact I|].
    split; [reflexivity|]. rewrite !total_bytes_eq. prj. split; [lia|]. split; [lia|]. split; [intros H; lia|].
    intros _. split; [lia|reflexivity]. }
  assert (E : exists c, match ck with Some c => Some c | None => ck_new (f_ctype f) end = Some c).
  { destruct ck as [c|]; [exists c; reflexivity|]. unfold ck_safe in Hc. prj_all.
    destruct (ck_new (f_ctype f)) as [c|]; [exists c; reflexivity|congruence]. }
  destruct E as [c E]. rewrite E.
  pose proof (fsum_nonneg rest) as Zf. pose proof (lsum_nonneg (f_chunks f)) as Zl.
  assert (S : forall st0, rs_ck st0 = Some c \/ (exists c', rs_ck st0 = Some c') -> ck_safe st0).
  { intros st0 [H|[c' H]]; unfold ck_safe; rewrite H; exact I. }
  destruct (negb (ck_typecode c =? f_ctype f) && match ck with Some _ => true | None => false end).
  { do 2 eexists. split; [reflexivity|]. unfold rset_err. prj. split; [apply S; left; reflexivity|].
    split; [reflexivity|]. rewrite !total_bytes_eq. prj. rewrite fsum_cons. cbn [length].
    split; [lia|]. split; [lia|]. split; [intros H; lia|]. intros _. split; [lia|reflexivity]. }
  destruct (negb (bytes_eqb (f_ck f) (ck_sum (fold_left ck_add (f_chunks f) c)))).
  { do 2 eexists. split; [reflexivity|]. unfold rset_err. prj. split; [apply S; right; eexists; reflexivity|].
    split; [reflexivity|]. rewrite !total_bytes_eq. prj. rewrite fsum_cons. cbn [length lsum fold_right].
    split; [lia|]. split; [lia|]. split; [intros H; lia|]. intros _. split; [lia|reflexivity]. }
  destruct (f_chunks f) as [|ch chs] eqn:Ech.
  { do 2 eexists. split; [reflexivity|]. unfold rset_err. prj. split; [apply S; right; eexists; reflexivity|].
    split; [reflexivity|]. rewrite !total_bytes_eq. prj. rewrite fsum_cons, Ech. cbn [length lsum fold_right].
    split; [lia|]. split; [lia|]. split; [intros H; lia|]. intros _. split; [lia|reflexivity]. }
  do 2 eexists. split; [reflexivity|]. prj. split; [apply S; right; eexists; reflexivity|].
  split; [reflexivity|]. rewrite !total_bytes_eq. prj. rewrite fsum_cons, Ech, lsum_cons in *. cbn [length].
  split; [lia|]. split; [lia|]. split; [intros _; split; [reflexivity|lia]|]. intros H; lia.
Qed.

Lemma zlen_firstn_skipn {A} m (l : list A) : zlen (firstn m l) + zlen (skipn m l) = zlen l.
Proof. rewrite <- zlen_app, firstn_skipn. reflexivity. Qed.

Lemma zlen_firstn {A} m (l : list A) : zlen (firstn m l) = Z.min (Z.of_nat m) (zlen l).
Proof. unfold zlen. rewrite firstn_length. lia. Qed.

Lemma skipn_zlen_nil {A} m (l : list A) : zlen l <= Z.of_nat m -> skipn m l = [].
Proof. intros H. apply skipn_all2. unfold zlen in H. lia. Qed.

Lemma ck_safe_cur st cur' :
  ck_safe st -> ck_safe (mkRst (rs_state st) (rs_err st) (rs_rem st) cur' (rs_more st) (rs_in st) (rs_ck st) (rs_got st) (rs_rel st) (rs_fin st)).
Proof. intros H. exact H. Qed.

(* the loop of Read on a state without error *)
Lemma read_loop_H : forall fuel n acc st, ck_safe st -> rs_err st = 0 -> (length (rs_in st) < fuel)%nat ->
  exists bs c st', r_read_loop fuel n acc st = Some (acc ++ bs, c, st') /\ ck_safe st' /\ rs_state st' = rs_state st /\
    total_bytes st' + zlen bs <= total_bytes st /\ (length (rs_in st') <= length (rs_in st))%nat /\
    ((c = 0 /\ rs_err st' = 0 /\ (0 <= n -> zlen bs = n)) \/
     (c = 12 /\ rs_err st' = 0 /\ (0 <= n -> at_eof st')) \/
     (c <> 0 /\ c <> 12 /\ rs_err st' = c)).
Proof.
  induction fuel as [|fuel IH]; intros n acc st Hs He Hf; [lia|].
  cbn [r_read_loop]. set (k := Z.min n (zlen (rs_cur st))).
  set (got := firstn (Z.to_nat k) (rs_cur st)).
  set (st1 := mkRst (rs_state st) (rs_err st) (rs_rem st) (skipn (Z.to_nat k) (rs_cur st)) (rs_more st)
                    (rs_in st) (rs_ck st) (rs_got st) (rs_rel st) (rs_fin st)).
  assert (S1 : ck_safe st1) by exact Hs.
  assert (T1 : total_bytes st1 + zlen got = total_bytes st).
  { rewrite !total_bytes_eq. unfold st1, got. prj. pose proof (zlen_firstn_skipn (Z.to_nat k) (rs_cur st)). lia. }
  pose proof (zlen_nonneg (rs_cur st)) as Zc.
  assert (G0 : 0 <= n -> n - k = 0 -> zlen got = n).
  { intros H0 H1. unfold got. rewrite zlen_firstn. lia. }
  assert (G1 : 0 <= n -> n - k <> 0 -> zlen got = k /\ rs_cur st1 = [] /\ 0 <= n - k).
  { intros H0 H1. unfold got, st1. prj. rewrite zlen_firstn. split; [lia|]. split; [|lia]. apply skipn_zlen_nil. lia. }
  destruct (n - k =? 0) eqn:Enk.
  { exists got, 0, st1. split; [reflexivity|]. split; [exact S1|]. split; [reflexivity|]. split; [lia|]. split; [unfold st1; prj; lia|].
    left. split; [reflexivity|]. split; [exact He|]. intros H0. apply G0; lia. }
  destruct (rs_rem st1) as [|rc rcs] eqn:Er.
  2:{ exists got, 12, st1. split; [reflexivity|]. split; [exact S1|]. split; [reflexivity|]. split; [lia|]. split; [unfold st1; prj; lia|].
      right; left. split; [reflexivity|]. split; [exact He|]. intros H0. destruct (G1 H0 ltac:(lia)) as (_ & Hc & _).
      split; [exact Hc|]. left. rewrite Er. discriminate. }
  destruct (negb (rs_more st1)) eqn:Em.
  { exists got, 12, st1. split; [reflexivity|]. split; [exact S1|]. split; [reflexivity|]. split; [lia|]. split; [unfold st1; prj; lia|].
    right; left. split; [reflexivity|]. split; [exact He|]. intros H0. destruct (G1 H0 ltac:(lia)) as (_ & Hc & _).
    split; [exact Hc|]. right. destruct (rs_more st1); [discriminate|reflexivity]. }
  destruct (recv_H st1 S1 He) as (c & st2 & R & S2 & St2 & T2 & L2 & Ok2 & Er2). rewrite R.
  destruct (c =? 0) eqn:Ec.
  - assert (c = 0) by lia. subst c. destruct (Ok2 eq_refl) as (He2 & Ll2).
    destruct (IH (n - k) (acc ++ got) st2 S2 He2) as (bs & c' & st' & RL & S' & St' & T' & L' & P').
    { unfold st1 in Ll2. prj_in Ll2. lia. }
    rewrite RL. exists (got ++ bs), c', st'. split; [rewrite app_assoc; reflexivity|]. split; [exact S'|].
    split; [rewrite St', St2; reflexivity|]. rewrite zlen_app. split; [lia|]. split; [unfold st1 in L2; prj_in L2; lia|].
    destruct P' as [(P1 & P2 & P3)|[(P1 & P2 & P3)|P]].
    + left. split; [exact P1|]. split; [exact P2|]. intros H0. destruct (G1 H0 ltac:(lia)) as (Hg & _ & Hn). specialize (P3 Hn). lia.
    + right; left. split; [exact P1|]. split; [exact P2|]. intros H0. destruct (G1 H0 ltac:(lia)) as (_ & _ & Hn). exact (P3 Hn).
    + right; right. exact P.
  - assert (Hc : c <> 0) by lia. destruct (Er2 Hc) as (H12 & Hee).
    exists got, c, st2. split; [reflexivity|]. split; [exact S2|]. split; [exact St2|]. split; [lia|].
    split; [unfold st1 in L2; prj_in L2; lia|]. right; right. split; [exact Hc|]. split; [exact H12|exact Hee].
Qed.

Lemma total_set_err st e : total_bytes (rset_err st e) = total_bytes st.
Proof. reflexivity. Qed.

(* Read *)
Lemma read_H n st : ck_safe st ->
  exists bs c st', r_read n st = Some (bs, c, st') /\ ck_safe st' /\
    total_bytes st' + zlen bs <= total_bytes st /\ (length (rs_in st') <= length (rs_in st))%nat /\
    (rs_err st <> 0 -> bs = [] /\ c = rs_err st /\ st' = st) /\
    (rs_err st = 0 ->
     (c = 0 /\ rs_err st' = 0 /\ rs_state st' = rs_state st /\ (0 <= n -> zlen bs = n)) \/
     (c = 12 /\ rs_err st' = 0 /\ rs_state st' = rs_state st /\ is_reading (rs_state st) = true /\ (0 <= n -> at_eof st')) \/
     (c <> 0 /\ c <> 12 /\ rs_err st' = c)).
Proof.
  intros Hs. unfold r_read. destruct (negb (rs_err st =? 0)) eqn:Ee.
  { exists [], (rs_err st), st. split; [reflexivity|]. split; [exact Hs|]. change (zlen (@nil Z)) with 0.
    split; [lia|]. split; [lia|]. split; [intros _; auto|]. intros H; lia. }
  assert (He : rs_err st = 0) by lia.
  destruct (negb (is_reading (rs_state st))) eqn:Er.
  { exists [], 2, (rset_err st 2). split; [reflexivity|]. split; [exact Hs|]. rewrite total_set_err. change (zlen (@nil Z)) with 0.
    split; [lia|]. split; [unfold rset_err; prj; lia|]. split; [intros H; lia|]. intros _. right; right.
    split; [lia|]. split; [lia|reflexivity]. }
  destruct (read_loop_H (S (length (rs_in st))) n [] st Hs He ltac:(lia)) as (bs & c & st' & R & S' & St' & T' & L' & P').
  cbn [app] in R. exists bs, c, st'. split; [exact R|]. split; [exact S'|]. split; [exact T'|]. split; [exact L'|].
  split; [intros H; lia|]. intros _. destruct P' as [(P1 & P2 & P3)|[(P1 & P2 & P3)|P]].
  - left. auto.
  - right; left. split; [exact P1|]. split; [exact P2|]. split; [exact St'|]. split; [|exact P3].
    destruct (is_reading (rs_state st)); [reflexivity|discriminate].
  - right; right. exact P.
Qed.

(* Begin *)
Lemma begin_H last st : ck_safe st ->
  exists c st', r_begin last st = Some (c, st') /\ ck_safe st' /\
    total_bytes st' <= total_bytes st /\ (length (rs_in st') <= length (rs_in st))%nat /\
    (rs_err st <> 0 -> c = rs_err st /\ st' = st) /\
    (rs_err st = 0 -> (c = 0 /\ rs_err st' = 0 /\ rs_state st' = arg_state last) \/ (c <> 0 /\ c <> 12 /\ rs_err st' = c)).
Proof.
  intros Hs. unfold r_begin. destruct (negb (rs_err st =? 0)) eqn:Ee.
  { exists (rs_err st), st. split; [reflexivity|]. split; [exact Hs|]. split; [lia|]. split; [lia|]. split; [auto|intros H; lia]. }
  assert (He : rs_err st = 0) by lia.
  destruct (is_reading (rs_state st)).
  { exists 1, (rset_err st 1). split; [reflexivity|]. split; [exact Hs|]. rewrite total_set_err. split; [lia|].
    split; [unfold rset_err; prj; lia|]. split; [intros H; lia|]. intros _. right. split; [lia|]. split; [lia|reflexivity]. }
  destruct (rs_state st =? c_fragmentingReadComplete).
  { exists 3, (rset_err st 3). split; [reflexivity|]. split; [exact Hs|]. rewrite total_set_err. split; [lia|].
    split; [unfold rset_err; prj; lia|]. split; [intros H; lia|]. intros _. right. split; [lia|]. split; [lia|reflexivity]. }
  destruct (rs_state st =? c_fragmentingReadStart).
  - destruct (recv_H st Hs He) as (c & st2 & R & S2 & St2 & T2 & L2 & Ok2 & Er2). rewrite R.
    destruct (c =? 0) eqn:Ec.
    + assert (c = 0) by lia. subst c. destruct (Ok2 eq_refl) as (He2 & _).
      eexists 0, _. split; [reflexivity|]. split; [exact S2|]. split; [exact T2|]. prj. split; [exact L2|].
      split; [intros H; lia|]. intros _. left. split; [reflexivity|]. split; [reflexivity|]. destruct last; reflexivity.
    + assert (Hc : c <> 0) by lia. destruct (Er2 Hc) as (H12 & Hee).
      exists c, st2. split; [reflexivity|]. split; [exact S2|]. split; [exact T2|]. split; [exact L2|].
      split; [intros H; lia|]. intros _. right. auto.
  - eexists 0, _. split; [reflexivity|]. split; [exact Hs|]. split; [rewrite !total_bytes_eq; prj; lia|]. prj. split; [lia|].
    split; [intros H; lia|]. intros _. left. split; [reflexivity|]. split; [reflexivity|]. destruct last; reflexivity.
Qed.

(* the fragment-fetching loop of Close *)
Lemma close_next_H : forall fuel st, ck_safe st -> rs_err st = 0 -> (length (rs_in st) < fuel)%nat ->
  exists c st', r_close_next fuel st = Some (c, st') /\ ck_safe st' /\
    total_bytes st' <= total_bytes st /\ (length (rs_in st') <= length (rs_in st))%nat /\
    ((c = 0 /\ rs_err st' = 0 /\ rs_state st' = rs_state st) \/ (c <> 0 /\ c <> 12 /\ rs_err st' = c)).
Proof.
  induction fuel as [|fuel IH]; intros st Hs He Hf; [lia|].
  cbn [r_close_next]. destruct (rs_rem st) as [|ch chs] eqn:Er.
  2:{ eexists 0, _. split; [reflexivity|]. split; [exact Hs|]. rewrite !total_bytes_eq. prj. rewrite Er, lsum_cons.
      pose proof (zlen_nonneg (rs_cur st)). split; [lia|]. split; [lia|]. left. auto. }
  destruct (negb (rs_more st)).
  { exists 6, (rset_err st 6). split; [reflexivity|]. split; [exact Hs|]. rewrite total_set_err. split; [lia|].
    split; [unfold rset_err; prj; lia|]. right. split; [lia|]. split; [lia|reflexivity]. }
  destruct (recv_H st Hs He) as (c & st2 & R & S2 & St2 & T2 & L2 & Ok2 & Er2). rewrite R.
  destruct (negb (c =? 0)) eqn:Ec.
  { assert (Hc : c <> 0) by lia. destruct (Er2 Hc) as (H12 & Hee).
    exists c, st2. split; [reflexivity|]. split; [exact S2|]. split; [exact T2|]. split; [exact L2|]. right. auto. }
  assert (c = 0) by lia. subst c. destruct (Ok2 eq_refl) as (He2 & Ll2).
  destruct (zlen (rs_cur st2) >? 0).
  { exists 4, (rset_err st2 4). split; [reflexivity|]. split; [exact S2|]. rewrite total_set_err. split; [exact T2|].
    split; [unfold rset_err; prj; exact L2|]. right. split; [lia|]. split; [lia|reflexivity]. }
  destruct (IH st2 S2 He2 ltac:(lia)) as (c' & st' & RC & S' & T' & L' & P').
  rewrite RC. exists c', st'. split; [reflexivity|]. split; [exact S'|]. split; [lia|]. split; [lia|].
  destruct P' as [(P1 & P2 & P3)|P]; [left|right; exact P]. split; [exact P1|]. split; [exact P2|]. congruence.
Qed.

(* Close *)
Lemma close_H st : ck_safe st ->
  exists c st', r_close st = Some (c, st') /\ ck_safe st' /\
    total_bytes st' <= total_bytes st /\ (length (rs_in st') <= length (rs_in st))%nat /\
    (rs_err st <> 0 -> c = rs_err st /\ st' = st) /\
    (rs_err st = 0 -> (c = 0 /\ rs_err st' = 0) \/ (c <> 0 /\ c <> 12 /\ rs_err st' = c)).
Proof.
  intros Hs. unfold r_close. destruct (negb (rs_err st =? 0)) eqn:Ee.
  { exists (rs_err st), st. split; [reflexivity|]. split; [exact Hs|]. split; [lia|]. split; [lia|]. split; [auto|intros H; lia]. }
  assert (He : rs_err st = 0) by lia.
  assert (E : forall e, e <> 0 -> e <> 12 ->
    exists c st', Some (e, rset_err st e) = Some (c, st') /\ ck_safe st' /\
      total_bytes st' <= total_bytes st /\ (length (rs_in st') <= length (rs_in st))%nat /\
      (rs_err st <> 0 -> c = rs_err st /\ st' = st) /\
      (rs_err st = 0 -> (c = 0 /\ rs_err st' = 0) \/ (c <> 0 /\ c <> 12 /\ rs_err st' = c))).
  { intros e H0 H12. exists e, (rset_err st e). split; [reflexivity|]. split; [exact Hs|]. rewrite total_set_err. split; [lia|].
    split; [unfold rset_err; prj; lia|]. split; [intros H; lia|]. intros _. right. split; [exact H0|]. split; [exact H12|reflexivity]. }
  destruct (negb (is_reading (rs_state st))); [apply E; lia|].
  destruct (zlen (rs_cur st) >? 0); [apply E; lia|].
  destruct (rs_state st =? c_fragmentingReadInLastArgument).
  - destruct (rs_rem st); [|apply E; lia]. destruct (rs_more st); [apply E; lia|].
    eexists 0, _. split; [reflexivity|]. split; [pose proof Hs as Hs'; unfold ck_safe in Hs' |- *; prj; destruct (rs_ck st); [exact I|exact Hs']|].
    rewrite !total_bytes_eq. prj. pose proof (zlen_nonneg (rs_cur st)). pose proof (lsum_nonneg (rs_rem st)).
    change (zlen (@nil Z)) with 0. change (lsum []) with 0. split; [lia|]. split; [lia|]. split; [intros H'; lia|].
    intros _. left. split; reflexivity.
  - set (st1 := mkRst c_fragmentingReadWaitingForArgument 0 (rs_rem st) (rs_cur st) (rs_more st) (rs_in st) (rs_ck st)
                      (rs_got st) (rs_rel st) (rs_fin st)).
    destruct (close_next_H (S (length (rs_in st1))) st1 Hs eq_refl ltac:(lia)) as (c & st' & RC & S' & T' & L' & P').
    exists c, st'. split; [exact RC|]. split; [exact S'|]. split; [exact T'|]. split; [exact L'|]. split; [intros H; lia|].
    intros _. destruct P' as [(P1 & P2 & _)|P]; [left; auto|right; exact P].
Qed.

Lemma total_bytes_nonneg st : 0 <= total_bytes st.
Proof.
  rewrite total_bytes_eq. pose proof (zlen_nonneg (rs_cur st)). pose proof (lsum_nonneg (rs_rem st)).
  pose proof (fsum_nonneg (rs_in st)). lia.
Qed.

(* ReadAll: repeated reads until EOF *)
Lemma readall_H bufsz : 0 < bufsz -> forall fuel acc st, ck_safe st -> rs_err st <> 12 -> total_bytes st < Z.of_nat fuel ->
  exists bs c st', r_readall fuel bufsz acc st = Some (acc ++ bs, c, st') /\ ck_safe st' /\
    total_bytes st' <= total_bytes st /\ (length (rs_in st') <= length (rs_in st))%nat /\
    (rs_err st <> 0 -> bs = [] /\ c = rs_err st /\ st' = st) /\
    (rs_err st = 0 ->
      (c = 0 /\ rs_err st' = 0 /\ at_eof st' /\ is_reading (rs_state st') = true) \/
      (c <> 0 /\ c <> 12 /\ rs_err st' = c)).
Proof.
  intros Hb. induction fuel as [|fuel IH]; intros acc st Hs H12 Hf; [pose proof (total_bytes_nonneg st); lia|].
  cbn [r_readall]. destruct (read_H bufsz st Hs) as (bs & c & st1 & R & S1 & T1 & L1 & Pe & P0). rewrite R.
  pose proof (zlen_nonneg bs) as Zb.
  destruct (Z.eq_dec (rs_err st) 0) as [He|He].
  - destruct (P0 He) as [(P1 & P2 & P3 & P4)|[(P1 & P2 & P3 & P4 & P5)|(P1 & P2 & P3)]].
    + subst c. cbn [Z.eqb]. specialize (P4 ltac:(lia)).
      destruct (IH (acc ++ bs) st1 S1 ltac:(lia) ltac:(lia)) as (bs' & c' & st' & RA & S' & T' & L' & _ & Q).
      rewrite RA. exists (bs ++ bs'), c', st'. split; [rewrite app_assoc; reflexivity|]. split; [exact S'|].
      split; [lia|]. split; [lia|]. split; [intros H; lia|]. intros _. exact (Q P2).
    + subst c. cbn [Z.eqb]. exists bs, 0, st1. split; [reflexivity|]. split; [exact S1|]. split; [lia|]. split; [exact L1|].
      split; [intros H; lia|]. intros _. left. split; [reflexivity|]. split; [exact P2|]. split; [apply P5; lia|].
      rewrite P3. exact P4.
    + replace (c =? 0) with false by lia. replace (c =? 12) with false by lia.
      exists bs, c, st1. split; [reflexivity|]. split; [exact S1|]. split; [lia|]. split; [exact L1|].
      split; [intros H; lia|]. intros _. right. auto.
  - destruct (Pe He) as (-> & -> & ->). replace (rs_err st =? 0) with false by lia. replace (rs_err st =? 12) with false by lia.
    exists [], (rs_err st), st. split; [reflexivity|]. split; [exact Hs|]. split; [lia|]. split; [lia|]. split; [auto|intros H; lia].
Qed.

(* EnsureEmpty after ReadAll: a read at EOF hands out nothing *)
Lemma read_at_eof n st : rs_err st = 0 -> is_reading (rs_state st) = true -> at_eof st -> 0 < n ->
  r_read n st = Some ([], 12, st).
Proof.
  intros He Hr [Hc Hm] Hn. destruct st as [s e rem cur more inn ck got rel fin]. prj_all. subst e cur.
  unfold r_read. prj. rewrite Hr. cbn [Z.eqb negb r_read_loop]. prj.
  change (zlen (@nil Z)) with 0. replace (Z.min n 0) with 0 by lia. cbn [Z.to_nat firstn skipn app].
  replace (n - 0 =? 0) with false by lia.
  destruct rem as [|rc rcs]; [|reflexivity]. destruct Hm as [Hm|Hm]; [congruence|]. subst more. reflexivity.
Qed.

(* ArgReadHelper.Read: ReadAll, EnsureEmpty, Close.  The "unexpected bytes" error (20) and the
   fuel exits are unreachable. *)
Lemma helper_H bufsz st : 0 < bufsz -> ck_safe st -> rs_err st <> 12 ->
  exists bs c st', r_helper_read bufsz st = Some (bs, c, st') /\ ck_safe st' /\
    total_bytes st' <= total_bytes st /\ (length (rs_in st') <= length (rs_in st))%nat /\
    (rs_err st <> 0 -> bs = [] /\ c = rs_err st /\ st' = st) /\
    (rs_err st = 0 -> (c = 0 /\ rs_err st' = 0) \/ (c <> 0 /\ c <> 12 /\ rs_err st' = c)).
Proof.
  intros Hb Hs H12. unfold r_helper_read.
  destruct (readall_H bufsz Hb (S (Z.to_nat (total_bytes st)) + length (rs_in st) + 2) [] st Hs H12)
    as (bs & c & st1 & R & S1 & T1 & L1 & Pe & P0).
  { pose proof (total_bytes_nonneg st). lia. }
  cbn [app] in R. rewrite R.
  destruct (Z.eq_dec (rs_err st) 0) as [He|He].
  - destruct (P0 He) as [(P1 & P2 & P3 & P4)|(P1 & P2 & P3)].
    + subst c. cbn [Z.eqb negb]. rewrite (read_at_eof 128 st1 P2 P4 P3 ltac:(lia)).
      change (zlen (@nil Z) >? 0) with false. cbn [Z.eqb negb andb].
      destruct (close_H st1 S1) as (c3 & st3 & RC & S3 & T3 & L3 & _ & Q). rewrite RC.
      exists bs, c3, st3. split; [reflexivity|]. split; [exact S3|]. split; [lia|]. split; [lia|].
      split; [intros H; lia|]. intros _. exact (Q P2).
    + replace (negb (c =? 0)) with true by lia. exists bs, c, st1. split; [reflexivity|]. split; [exact S1|].
      split; [exact T1|]. split; [exact L1|]. split; [intros H; lia|]. intros _. right. auto.
  - destruct (Pe He) as (-> & -> & ->). replace (negb (rs_err st =? 0)) with true by lia.
    exists [], (rs_err st), st. split; [reflexivity|]. split; [exact Hs|]. split; [lia|]. split; [lia|]. split; [auto|intros H; lia].
Qed.

(* ---- any single operation ---- *)
(* the hostile-input invariant: the first checksum type is known, and io.EOF is never the sticky error *)
Definition hs (st : rst) : Prop := ck_safe st /\ rs_err st <> 12.

(* a code other than nil and io.EOF; io.EOF is returned by Read only *)
Lemma step_H o st : op_ok o -> hs st ->
  exists bs c st', r_step o st = Some (bs, c, st') /\ hs st' /\
    (length (rs_in st') <= length (rs_in st))%nat /\
    (rs_err st <> 0 -> bs = [] /\ c = rs_err st /\ st' = st) /\
    (is_err c -> rs_err st' = c) /\
    (~ is_err c -> rs_err st = 0 -> rs_err st' = 0) /\
    (c = 12 -> exists n, o = RRead n).
Proof.
  intros Ho [Hs H12]. destruct o as [last|n| |bufsz]; cbn [r_step op_ok] in *.
  - destruct (begin_H last st Hs) as (c & st' & R & S' & _ & L' & Pe & P0). rewrite R.
    exists [], c, st'. split; [reflexivity|].
    destruct (Z.eq_dec (rs_err st) 0) as [He|He].
    + destruct (P0 He) as [(P1 & P2 & _)|(P1 & P2 & P3)].
      * split; [split; [exact S'|lia]|]. split; [exact L'|]. split; [intros H; lia|]. split; [intros [H _]; lia|].
        split; [auto|intros H; lia].
      * split; [split; [exact S'|lia]|]. split; [exact L'|]. split; [intros H; lia|]. split; [auto|].
        split; [intros H; exfalso; apply H; split; assumption|intros H; lia].
    + destruct (Pe He) as (-> & ->). split; [split; assumption|]. split; [lia|]. split; [auto|]. split; [auto|].
      split; [intros _ H; lia|intros H; lia].
  - destruct (read_H n st Hs) as (bs & c & st' & R & S' & _ & L' & Pe & P0). rewrite R.
    exists bs, c, st'. split; [reflexivity|].
    destruct (Z.eq_dec (rs_err st) 0) as [He|He].
    + destruct (P0 He) as [(P1 & P2 & _)|[(P1 & P2 & _)|(P1 & P2 & P3)]].
      * split; [split; [exact S'|lia]|]. split; [exact L'|]. split; [intros H; lia|]. split; [intros [H _]; lia|].
        split; [auto|intros H; lia].
      * split; [split; [exact S'|lia]|]. split; [exact L'|]. split; [intros H; lia|]. split; [intros [_ H]; lia|].
        split; [auto|intros _; exists n; reflexivity].
      * split; [split; [exact S'|lia]|]. split; [exact L'|]. split; [intros H; lia|]. split; [auto|].
        split; [intros H; exfalso; apply H; split; assumption|intros _; exists n; reflexivity].
    + destruct (Pe He) as (-> & -> & ->). split; [split; assumption|]. split; [lia|]. split; [auto|]. split; [auto|].
      split; [intros _ H; lia|intros _; exists n; reflexivity].
  - destruct (close_H st Hs) as (c & st' & R & S' & _ & L' & Pe & P0). rewrite R.
    exists [], c, st'. split; [reflexivity|].
    destruct (Z.eq_dec (rs_err st) 0) as [He|He].
    + destruct (P0 He) as [(P1 & P2)|(P1 & P2 & P3)].
      * split; [split; [exact S'|lia]|]. split; [exact L'|]. split; [intros H; lia|]. split; [intros [H _]; lia|].
        split; [auto|intros H; lia].
      * split; [split; [exact S'|lia]|]. split; [exact L'|]. split; [intros H; lia|]. split; [auto|].
        split; [intros H; exfalso; apply H; split; assumption|intros H; lia].
    + destruct (Pe He) as (-> & ->). split; [split; assumption|]. split; [lia|]. split; [auto|]. split; [auto|].
      split; [intros _ H; lia|intros H; lia].
  - destruct (helper_H bufsz st Ho Hs H12) as (bs & c & st' & R & S' & _ & L' & Pe & P0). rewrite R.
    exists bs, c, st'. split; [reflexivity|].
    destruct (Z.eq_dec (rs_err st) 0) as [He|He].
    + destruct (P0 He) as [(P1 & P2)|(P1 & P2 & P3)].
      * split; [split; [exact S'|lia]|]. split; [exact L'|]. split; [intros H; lia|]. split; [intros [H _]; lia|].
        split; [auto|intros H; lia].
      * split; [split; [exact S'|lia]|]. split; [exact L'|]. split; [intros H; lia|]. split; [auto|].
        split; [intros H; exfalso; apply H; split; assumption|intros H; lia].
    + destruct (Pe He) as (-> & -> & ->). split; [split; assumption|]. split; [lia|]. split; [auto|]. split; [auto|].
      split; [intros _ H; lia|intros H; lia].
Qed.

(* ---- any script ---- *)
Definition tr_obs (t : list (list Z * Z * rst)) : list (list Z * Z) := map (fun x => (fst (fst x), snd (fst x))) t.

(* NO PANIC, STICKY ERRORS: any fragments, any script *)
Theorem hostile_trace : forall ops st, Forall op_ok ops -> hs st ->
  exists t, r_trace ops st = Some t /\ length t = length ops /\
    Forall (fun x => is_err (snd (fst x)) -> rs_err (snd x) = snd (fst x)) t /\
    sticky (tr_obs t) /\
    (rs_err st <> 0 -> Forall (fun x => x = ([], rs_err st, st)) t).
Proof.
  induction ops as [|o ops IH]; intros st Hops Hst.
  - exists []. split; [reflexivity|]. split; [reflexivity|]. split; [constructor|]. split; [exact I|]. intros _; constructor.
  - pose proof (Forall_inv Hops) as Ho. pose proof (Forall_inv_tail Hops) as Hr.
    destruct (step_H o st Ho Hst) as (bs & c & st' & R & S' & _ & Pe & Perr & _ & _).
    destruct (IH st' Hr S') as (t & RT & Lt & Fe & St & Fs).
    cbn [r_trace]. rewrite R, RT. exists ((bs, c, st') :: t). split; [reflexivity|]. split; [cbn [length]; lia|].
    split; [constructor; [exact Perr|exact Fe]|]. split.
    + cbn [tr_obs map sticky fst snd]. split; [|exact St]. intros Hc.
      pose proof (Perr Hc) as He. assert (Hne : rs_err st' <> 0) by (destruct Hc; lia).
      specialize (Fs Hne). rewrite He in Fs. clear -Fs. induction t as [|x t IHt]; [constructor|].
      pose proof (Forall_inv Fs) as Hx. cbv beta in Hx. subst x. constructor; [reflexivity|]. exact (IHt (Forall_inv_tail Fs)).
    + intros Hne. destruct (Pe Hne) as (-> & -> & ->). constructor; [reflexivity|]. exact (Fs Hne).
Qed.

(* ================================================================== *)
(* Part 2: what has been consumed without error is a verified prefix   *)
(* ================================================================== *)
(* what the fragment parser guarantees of every fragment it accepts *)
Definition frag_parsed (f : frag) : Prop := ck_new (f_ctype f) <> None /\ zlen (f_ck f) = ChecksumSize (f_ctype f).

Definition dfrag : frag := mkFrag true 0 [] [].
Definition ck_end (c : ckst) (pre : list frag) : ckst := fold_left (fun c f => fold_left ck_add (f_chunks f) c) pre c.

Lemma ck_end_snoc c pre f : ck_end c (pre ++ [f]) = fold_left ck_add (f_chunks f) (ck_end c pre).
Proof. unfold ck_end. rewrite fold_left_app. reflexivity. Qed.

Lemma ck_chain_snoc : forall pre c f, ck_chain c pre ->
  f_ck f = ck_sum (fold_left ck_add (f_chunks f) (ck_end c pre)) -> f_ctype f = ck_typecode (ck_end c pre) ->
  ck_chain c (pre ++ [f]).
Proof.
  induction pre as [|g pre IH]; intros c f H1 H2 H3; cbn [app ck_chain].
  - split; [exact H2|]. split; [exact H3|exact I].
  - cbn [ck_chain] in H1. destruct H1 as (A & B & C). split; [exact A|]. split; [exact B|]. apply IH; assumption.
Qed.

Lemma ck_kind_add c bs : ck_kind (ck_add c bs) = ck_kind c.
Proof. unfold ck_add. destruct (ck_kind c =? 1) eqn:E1; [cbn; lia|]. destruct (ck_kind c =? 3) eqn:E3; [cbn; lia|reflexivity]. Qed.

Lemma ck_kind_fold cs : forall c, ck_kind (fold_left ck_add cs c) = ck_kind c.
Proof. induction cs as [|x cs IH]; intros c; [reflexivity|]. cbn [fold_left]. rewrite IH. apply ck_kind_add. Qed.

(* a Farmhash-typed fragment (null checksum, but a 4-byte field) never verifies; for the
   other types the checksum object has the fragment's type code *)
Lemma ck_new_typecode t c : ck_new t = Some c -> t <> c_ChecksumTypeFarmhash -> ck_typecode c = t.
Proof.
  unfold ck_new, c_checksumCount, c_ChecksumTypeCrc32, c_ChecksumTypeCrc32C, c_ChecksumTypeFarmhash.
  destruct ((t <? 0) || (t >=? 4)) eqn:E; [discriminate|].
  destruct (t =? 1) eqn:E1; [intros H _; injection H as <-; cbn; lia|].
  destruct (t =? 3) eqn:E3; [intros H _; injection H as <-; cbn; lia|].
  intros H Hn; injection H as <-. cbn. lia.
Qed.

Lemma farmhash_never_verifies f c : frag_parsed f -> f_ctype f = c_ChecksumTypeFarmhash -> ck_new (f_ctype f) = Some c ->
  bytes_eqb (f_ck f) (ck_sum (fold_left ck_add (f_chunks f) c)) = false.
Proof.
  intros [_ Hz] Ht Hn. rewrite Ht in Hz, Hn. cbn in Hn. injection Hn as <-.
  unfold ck_sum. rewrite ck_kind_fold. cbn [ck_kind Z.eqb].
  change (ChecksumSize c_ChecksumTypeFarmhash) with 4 in Hz.
  destruct (f_ck f) as [|b l]; [cbn in Hz; lia|reflexivity].
Qed.

(* the consumed fragments [pre]: each has a chunk, all but the last carry the more-flag,
   the reader's flag is that of the last one, and the running checksum verified each of them *)
Record verified (fs pre : list frag) (more : bool) (ck : option ckst) : Prop := mkV {
  v_chunks : Forall (fun f => f_chunks f <> []) pre;
  v_more : all_more (removelast pre);
  v_last : more = f_more (last pre dfrag);
  v_ck : match ck with
         | None => pre = []
         | Some c => pre <> [] /\ exists c0, ck_new (first_ctype fs) = Some c0 /\ ck_chain c0 pre /\ c = ck_end c0 pre
         end }.

Definition Jr' (fs : list frag) (state err : Z) (more : bool) (inn : list frag) (ck : option ckst) (got : Z) : Prop :=
  exists pre, fs = pre ++ inn /\ got = zlen pre /\
    (state = c_fragmentingReadComplete -> more = false) /\
    (err = 0 \/ state = c_fragmentingReadComplete -> verified fs pre more ck).
Definition Jr (fs : list frag) (st : rst) : Prop :=
  Jr' fs (rs_state st) (rs_err st) (rs_more st) (rs_in st) (rs_ck st) (rs_got st).
Definition J (fs : list frag) (st : rst) : Prop :=
  Jr fs st /\ (rs_err st = 0 -> rs_state st = c_fragmentingReadStart -> rs_more st = true).

Lemma Jr_set_err fs st e : Jr fs st -> e <> 0 -> Jr fs (rset_err st e).
Proof.
  intros (pre & A & B & C & D) He. exists pre. unfold rset_err; prj. split; [exact A|]. split; [exact B|]. split; [exact C|].
  intros [H|H]; [lia|]. apply D. right; exact H.
Qed.

Lemma J_set_err fs st e : J fs st -> e <> 0 -> J fs (rset_err st e).
Proof. intros [A _] He. split; [apply Jr_set_err; assumption|]. unfold rset_err; prj. intros H; lia. Qed.

Lemma all_more_full pre : all_more (removelast pre) -> f_more (last pre dfrag) = true -> all_more pre.
Proof.
  intros H1 H2. destruct pre as [|f r]; [constructor|].
  rewrite (app_removelast_last dfrag (l := f :: r)) by discriminate.
  apply Forall_app. split; [exact H1|]. constructor; [exact H2|constructor].
Qed.

(* recvAndParseNextFragment keeps the invariant *)
Lemma recv_J fs st : Forall frag_parsed fs -> Jr fs st -> rs_err st = 0 ->
  rs_state st <> c_fragmentingReadComplete -> rs_more st = true ->
  forall c st', r_recv st = Some (c, st') ->
    rs_state st' = rs_state st /\ Jr fs st' /\ (c <> 0 -> rs_err st' <> 0) /\ (c = 0 -> rs_err st' = 0).
Proof.
  intros Hp (pre & A & B & C & D) He Hs Hm c st'.
  destruct st as [s e rem cur more inn ck got rel fin]. unfold Jr in *. prj_all. subst e more.
  specialize (D (or_introl eq_refl)). destruct D as [V1 V2 V3 V4].
  unfold r_recv. prj. cbn [Z.eqb negb].
  destruct inn as [|f rest].
  { intros H. injection H as <- <-. prj. split; [reflexivity|]. split; [|split; [intros _; lia|intros H; lia]].
    exists pre. split; [exact A|]. split; [exact B|]. split; [intros H; congruence|]. intros [H|H]; [lia|congruence]. }
  assert (A' : fs = (pre ++ [f]) ++ rest) by (rewrite <- app_assoc; exact A).
  assert (B' : got + 1 = zlen (pre ++ [f])) by (rewrite zlen_app; cbn; lia).
  assert (Bad : forall e' more' ck', e' <> 0 ->
     Jr' fs s e' more' rest ck' (got + 1)).
  { intros e' more' ck' He'. exists (pre ++ [f]). split; [exact A'|]. split; [exact B'|]. split; [intros H; congruence|].
    intros [H|H]; [lia|congruence]. }
  assert (Pf : frag_parsed f).
  { rewrite Forall_forall in Hp. apply Hp. rewrite A. apply in_or_app. right. left. reflexivity. }
  destruct (match ck with Some c0 => Some c0 | None => ck_new (f_ctype f) end) as [c0|] eqn:E; [|discriminate].
  destruct (negb (ck_typecode c0 =? f_ctype f) && match ck with Some _ => true | None => false end) eqn:Et.
  { intros H. injection H as <- <-. unfold rset_err. prj. split; [reflexivity|]. split; [apply Bad; lia|split; [intros _; lia|intros H; lia]]. }
  destruct (negb (bytes_eqb (f_ck f) (ck_sum (fold_left ck_add (f_chunks f) c0)))) eqn:Eb.
  { intros H. injection H as <- <-. unfold rset_err. prj. split; [reflexivity|]. split; [apply Bad; lia|split; [intros _; lia|intros H; lia]]. }
  destruct (f_chunks f) as [|ch chs] eqn:Ech.
  { intros H. injection H as <- <-. unfold rset_err. prj. split; [reflexivity|]. split; [apply Bad; lia|split; [intros _; lia|intros H; lia]]. }
  intros H. injection H as <- <-. prj. split; [reflexivity|]. split; [|split; [intros H; lia|intros _; reflexivity]].
  exists (pre ++ [f]). split; [exact A'|]. split; [exact B'|]. split; [intros H; congruence|]. intros _.
  assert (Hsum : f_ck f = ck_sum (fold_left ck_add (ch :: chs) c0)).
  { apply bytes_eqb_eq. destruct (bytes_eqb (f_ck f) (ck_sum (fold_left ck_add (ch :: chs) c0))); [reflexivity|discriminate]. }
  constructor.
  - apply Forall_app. split; [exact V1|]. constructor; [rewrite Ech; discriminate|constructor].
  - rewrite removelast_last. apply all_more_full; [exact V2|]. symmetry; exact V3.
  - rewrite last_last. reflexivity.
  - split; [destruct pre; discriminate|].
    destruct ck as [ck0|].
    + destruct V4 as (Hne & c00 & N0 & Ch & Ec). injection E as <-. exists c00. split; [exact N0|].
      rewrite ck_end_snoc, Ech, <- Ec. split; [|reflexivity].
      apply ck_chain_snoc; [exact Ch| |].
      * rewrite Ech, <- Ec. exact Hsum.
      * rewrite <- Ec. cbn [andb] in Et. rewrite andb_true_r in Et. lia.
    + subst pre. cbn [app] in *. exists c0. rewrite A. cbn [first_ctype]. split; [exact E|].
      unfold ck_end. cbn [fold_left]. rewrite Ech. split; [|reflexivity].
      cbn [ck_chain]. rewrite Ech. split; [exact Hsum|]. split; [|exact I].
      symmetry. apply ck_new_typecode; [exact E|]. intros Ht.
      pose proof (farmhash_never_verifies f c0 Pf Ht E) as X. rewrite Ech in X. rewrite X in Eb. discriminate.
Qed.

Lemma Jr_fields fs st st' : rs_state st' = rs_state st -> rs_err st' = rs_err st -> rs_more st' = rs_more st ->
  rs_in st' = rs_in st -> rs_ck st' = rs_ck st -> rs_got st' = rs_got st -> Jr fs st -> Jr fs st'.
Proof. unfold Jr. intros -> -> -> -> -> ->. auto. Qed.

Lemma reading_states s : is_reading s = true -> s <> c_fragmentingReadStart /\ s <> c_fragmentingReadComplete.
Proof.
  unfold is_reading, c_fragmentingReadInArgument, c_fragmentingReadInLastArgument, c_fragmentingReadStart, c_fragmentingReadComplete.
  intros H. lia.
Qed.

Lemma read_loop_J fs : Forall frag_parsed fs -> forall fuel n acc st bs c st',
  Jr fs st -> rs_err st = 0 -> rs_state st <> c_fragmentingReadComplete ->
  r_read_loop fuel n acc st = Some (bs, c, st') -> Jr fs st' /\ rs_state st' = rs_state st.
Proof.
  intros Hp. induction fuel as [|fuel IH]; intros n acc st bs c st' Hj He Hs; cbn [r_read_loop];
    set (k := Z.min n (zlen (rs_cur st)));
    set (st1 := mkRst (rs_state st) (rs_err st) (rs_rem st) (skipn (Z.to_nat k) (rs_cur st)) (rs_more st)
                      (rs_in st) (rs_ck st) (rs_got st) (rs_rel st) (rs_fin st));
    assert (J1 : Jr fs st1) by exact Hj.
  - destruct (n - k =? 0); [intros H; injection H as _ _ <-; split; [exact J1|reflexivity]|].
    destruct (rs_rem st1); [|intros H; injection H as _ _ <-; split; [exact J1|reflexivity]].
    destruct (negb (rs_more st1)); intros H; injection H as _ _ <-; (split; [exact J1|reflexivity]).
  - destruct (n - k =? 0); [intros H; injection H as _ _ <-; split; [exact J1|reflexivity]|].
    destruct (rs_rem st1); [|intros H; injection H as _ _ <-; split; [exact J1|reflexivity]].
    destruct (negb (rs_more st1)) eqn:Em; [intros H; injection H as _ _ <-; split; [exact J1|reflexivity]|].
    destruct (r_recv st1) as [[c2 st2]|] eqn:R; [|discriminate].
    assert (Hm : rs_more st1 = true) by (destruct (rs_more st1); [reflexivity|discriminate]).
    destruct (recv_J fs st1 Hp J1 He Hs Hm c2 st2 R) as (S2 & J2 & _ & E2).
    destruct (c2 =? 0) eqn:Ec.
    + intros H. destruct (IH _ _ _ _ _ _ J2 (E2 ltac:(lia)) ltac:(rewrite S2; exact Hs) H) as (J' & S').
      split; [exact J'|]. rewrite S', S2. reflexivity.
    + intros H; injection H as _ _ <-. split; [exact J2|exact S2].
Qed.

Lemma read_J fs n st bs c st' : Forall frag_parsed fs -> J fs st -> r_read n st = Some (bs, c, st') -> J fs st'.
Proof.
  intros Hp Hj. unfold r_read. destruct (negb (rs_err st =? 0)) eqn:Ee; [intros H; injection H as _ _ <-; exact Hj|].
  destruct (negb (is_reading (rs_state st))) eqn:Er; [intros H; injection H as _ _ <-; apply J_set_err; [exact Hj|lia]|].
  assert (Hr : is_reading (rs_state st) = true) by (destruct (is_reading (rs_state st)); [reflexivity|discriminate]).
  destruct (reading_states _ Hr) as [N1 N2]. intros H.
  destruct (read_loop_J fs Hp _ _ _ _ _ _ _ (proj1 Hj) ltac:(lia) N2 H) as (J' & S').
  split; [exact J'|]. intros _ Hs. congruence.
Qed.

Lemma arg_state_neq last : arg_state last <> c_fragmentingReadStart /\ arg_state last <> c_fragmentingReadComplete.
Proof. destruct last; split; discriminate. Qed.

Lemma begin_J fs last st c st' : Forall frag_parsed fs -> J fs st -> r_begin last st = Some (c, st') -> J fs st'.
Proof.
  intros Hp Hj. unfold r_begin. destruct (negb (rs_err st =? 0)) eqn:Ee; [intros H; injection H as _ <-; exact Hj|].
  assert (He : rs_err st = 0) by lia.
  destruct (is_reading (rs_state st)); [intros H; injection H as _ <-; apply J_set_err; [exact Hj|lia]|].
  destruct (rs_state st =? c_fragmentingReadComplete) eqn:Ec; [intros H; injection H as _ <-; apply J_set_err; [exact Hj|lia]|].
  assert (Hs : rs_state st <> c_fragmentingReadComplete) by lia.
  assert (G : forall s, Jr fs s -> rs_err s = 0 -> rs_state s <> c_fragmentingReadComplete ->
     J fs (mkRst (if last then c_fragmentingReadInLastArgument else c_fragmentingReadInArgument) 0
           (rs_rem s) (rs_cur s) (rs_more s) (rs_in s) (rs_ck s) (rs_got s) (rs_rel s) (rs_fin s))).
  { intros s (pre & A & B & C & D) Hes Hss. split.
    - exists pre. prj. split; [exact A|]. split; [exact B|]. fold (arg_state last).
      split; [intros H; destruct (arg_state_neq last); congruence|]. intros _. apply D. left; exact Hes.
    - prj. fold (arg_state last). intros _ H. destruct (arg_state_neq last); congruence. }
  destruct (rs_state st =? c_fragmentingReadStart) eqn:Es.
  - destruct (r_recv st) as [[c2 st2]|] eqn:R; [|discriminate].
    destruct (recv_J fs st Hp (proj1 Hj) He Hs (proj2 Hj He ltac:(lia)) c2 st2 R) as (S2 & J2 & Ne & E2).
    destruct (c2 =? 0) eqn:Ec2.
    + intros H; injection H as _ <-. apply G; [exact J2|apply E2; lia|congruence].
    + intros H; injection H as _ <-. split; [exact J2|]. intros H. exfalso. apply Ne; [lia|exact H].
  - intros H; injection H as _ <-. apply G; [exact (proj1 Hj)|exact He|exact Hs].
Qed.

Lemma close_next_J fs : Forall frag_parsed fs -> forall fuel st c st',
  Jr fs st -> rs_err st = 0 -> rs_state st <> c_fragmentingReadComplete -> rs_state st <> c_fragmentingReadStart ->
  r_close_next fuel st = Some (c, st') -> J fs st'.
Proof.
  intros Hp. induction fuel as [|fuel IH]; intros st c st' Hj He Hs Hn; cbn [r_close_next].
  - destruct (rs_rem st).
    + destruct (negb (rs_more st)); intros H; injection H as _ <-;
        (split; [apply Jr_set_err; [exact Hj|lia]|unfold rset_err; prj; intros H; lia]).
    + intros H; injection H as _ <-. split; [apply (Jr_fields fs st); prj; auto|]. prj. intros _ H. congruence.
  - destruct (rs_rem st).
    + destruct (negb (rs_more st)) eqn:Em.
      { intros H; injection H as _ <-. split; [apply Jr_set_err; [exact Hj|lia]|unfold rset_err; prj; intros H; lia]. }
      assert (Hm : rs_more st = true) by (destruct (rs_more st); [reflexivity|discriminate]).
      destruct (r_recv st) as [[c2 st2]|] eqn:R; [|discriminate].
      destruct (recv_J fs st Hp Hj He Hs Hm c2 st2 R) as (S2 & J2 & Ne & E2).
      destruct (negb (c2 =? 0)) eqn:Ec.
      { intros H; injection H as _ <-. split; [exact J2|]. intros H. exfalso. apply Ne; [lia|exact H]. }
      destruct (zlen (rs_cur st2) >? 0).
      { intros H; injection H as _ <-. split; [apply Jr_set_err; [exact J2|lia]|unfold rset_err; prj; intros H; lia]. }
      apply IH; [exact J2|apply E2; lia|congruence|congruence].
    + intros H; injection H as _ <-. split; [apply (Jr_fields fs st); prj; auto|]. prj. intros _ H. congruence.
Qed.

Lemma close_J fs st c st' : Forall frag_parsed fs -> J fs st -> r_close st = Some (c, st') -> J fs st'.
Proof.
  intros Hp Hj. unfold r_close. destruct (negb (rs_err st =? 0)) eqn:Ee; [intros H; injection H as _ <-; exact Hj|].
  assert (He : rs_err st = 0) by lia.
  destruct (negb (is_reading (rs_state st))) eqn:Er; [intros H; injection H as _ <-; apply J_set_err; [exact Hj|lia]|].
  assert (Hr : is_reading (rs_state st) = true) by (destruct (is_reading (rs_state st)); [reflexivity|discriminate]).
  destruct (reading_states _ Hr) as [N1 N2].
  destruct (zlen (rs_cur st) >? 0); [intros H; injection H as _ <-; apply J_set_err; [exact Hj|lia]|].
  destruct (rs_state st =? c_fragmentingReadInLastArgument).
  - destruct (rs_rem st); [|intros H; injection H as _ <-; apply J_set_err; [exact Hj|lia]].
    destruct (rs_more st) eqn:Em; [intros H; injection H as _ <-; apply J_set_err; [exact Hj|lia]|].
    intros H; injection H as _ <-. destruct Hj as [(pre & A & B & C & D) _]. split.
    + exists pre. prj. split; [exact A|]. split; [exact B|]. split; [reflexivity|]. intros _.
      rewrite <- Em. apply D. left; exact He.
    + prj. intros _ H. discriminate H.
  - apply (close_next_J fs Hp); prj; try discriminate; try reflexivity.
    destruct Hj as [(pre & A & B & C & D) _]. exists pre. prj. split; [exact A|]. split; [exact B|].
    split; [intros H; discriminate H|]. intros _. apply D. left; exact He.
Qed.

Lemma readall_J fs bufsz : Forall frag_parsed fs -> forall fuel acc st bs c st',
  J fs st -> r_readall fuel bufsz acc st = Some (bs, c, st') -> J fs st'.
Proof.
  intros Hp. induction fuel as [|fuel IH]; intros acc st bs c st' Hj; cbn [r_readall].
  - intros H; injection H as _ _ <-. exact Hj.
  - destruct (r_read bufsz st) as [[[bs1 c1] st1]|] eqn:R; [|discriminate].
    pose proof (read_J fs _ _ _ _ _ Hp Hj R) as J1.
    destruct (c1 =? 0); [apply IH; exact J1|].
    destruct (c1 =? 12); intros H; injection H as _ _ <-; exact J1.
Qed.

Lemma helper_J fs bufsz st bs c st' : Forall frag_parsed fs -> J fs st -> r_helper_read bufsz st = Some (bs, c, st') -> J fs st'.
Proof.
  intros Hp Hj. unfold r_helper_read.
  destruct (r_readall _ bufsz [] st) as [[[bs1 c1] st1]|] eqn:R; [|discriminate].
  pose proof (readall_J fs bufsz Hp _ _ _ _ _ _ Hj R) as J1.
  destruct (negb (c1 =? 0)); [intros H; injection H as _ _ <-; exact J1|].
  destruct (r_read 128 st1) as [[[ex c2] st2]|] eqn:R2; [|discriminate].
  pose proof (read_J fs _ _ _ _ _ Hp J1 R2) as J2.
  destruct (zlen ex >? 0); [intros H; injection H as _ _ <-; exact J2|].
  destruct (negb (c2 =? 12) && negb (c2 =? 0)); [intros H; injection H as _ _ <-; exact J2|].
  destruct (r_close st2) as [[c3 st3]|] eqn:R3; [|discriminate].
  intros H; injection H as _ _ <-. exact (close_J fs _ _ _ Hp J2 R3).
Qed.

Lemma step_J fs o st bs c st' : Forall frag_parsed fs -> J fs st -> r_step o st = Some (bs, c, st') -> J fs st'.
Proof.
  intros Hp Hj. destruct o as [last|n| |bufsz]; cbn [r_step].
  - destruct (r_begin last st) as [[c1 s1]|] eqn:R; [|discriminate]. intros H; injection H as _ _ <-. exact (begin_J fs _ _ _ _ Hp Hj R).
  - apply read_J; assumption.
  - destruct (r_close st) as [[c1 s1]|] eqn:R; [|discriminate]. intros H; injection H as _ _ <-. exact (close_J fs _ _ _ Hp Hj R).
  - apply helper_J; assumption.
Qed.

Lemma J_init fs : J fs (r_init fs).
Proof.
  split; [|intros _ _; reflexivity]. exists []. unfold r_init; prj. split; [reflexivity|]. split; [reflexivity|].
  split; [discriminate|]. intros _. constructor; [constructor|constructor|reflexivity|reflexivity].
Qed.

Lemma trace_J fs : Forall frag_parsed fs -> forall ops st t, J fs st -> r_trace ops st = Some t -> Forall (fun x => J fs (snd x)) t.
Proof.
  intros Hp. induction ops as [|o ops IH]; intros st t Hj; cbn [r_trace].
  - intros H; injection H as <-. constructor.
  - destruct (r_step o st) as [[[bs c] st']|] eqn:R; [|discriminate].
    destruct (r_trace ops st') as [t'|] eqn:RT; [|discriminate]. intros H; injection H as <-.
    pose proof (step_J fs _ _ _ _ _ Hp Hj R) as J'. constructor; [exact J'|]. exact (IH _ _ J' RT).
Qed.

(* ---- what Complete means ---- *)
Lemma fr_ok_of_verified : forall pre, Forall (fun f => f_chunks f <> []) pre -> all_more (removelast pre) ->
  f_more (last pre dfrag) = false -> pre <> [] -> fr_ok pre.
Proof.
  induction pre as [|f r IH]; intros Hc Hm Hl Hne; [congruence|].
  pose proof (Forall_inv Hc) as Hf. pose proof (Forall_inv_tail Hc) as Hr.
  destruct r as [|g r].
  - cbn [fr_ok last] in *. split; [exact Hf|]. split; [|exact I]. rewrite Hl. split; [discriminate|intros H; congruence].
  - change (removelast (f :: g :: r)) with (f :: removelast (g :: r)) in Hm.
    change (last (f :: g :: r) dfrag) with (last (g :: r) dfrag) in Hl.
    cbn [fr_ok]. split; [exact Hf|]. split; [split; [discriminate|intros _; exact (Forall_inv Hm)]|].
    apply IH; [exact Hr|exact (Forall_inv_tail Hm)|exact Hl|discriminate].
Qed.

Lemma frames_ok_of_fr_ok M : forall pre b, Forall (fun f => chunks_size (f_chunks f) <= M) pre -> fr_ok pre ->
  frames_ok_from (fun _ => M) b pre.
Proof.
  induction pre as [|f r IH]; intros b Hb Hf; cbn [frames_ok_from fr_ok] in *; [exact I|].
  destruct Hf as (A & B & C). split; [exact A|]. split; [exact (Forall_inv Hb)|]. split; [exact B|].
  apply IH; [exact (Forall_inv_tail Hb)|exact C].
Qed.

Lemma size_bound : forall pre : list frag, exists M, Forall (fun f => chunks_size (f_chunks f) <= M) pre.
Proof.
  induction pre as [|f r [M IH]]; [exists 0; constructor|].
  exists (Z.max (chunks_size (f_chunks f)) M). constructor; [lia|].
  eapply Forall_impl; [|exact IH]. cbv beta. intros; lia.
Qed.

Lemma wf_of_fr_ok pre : pre <> [] -> fr_ok pre -> wf pre.
Proof.
  intros Hne Hf. destruct (size_bound pre) as [M HM]. exists (fun _ => M). split; [exact Hne|].
  apply frames_ok_of_fr_ok; assumption.
Qed.

(* the reader is Complete only on a well-formed message whose every checksum verified *)
Definition complete_ok (fs : list frag) (st : rst) : Prop :=
  exists pre, fs = pre ++ rs_in st /\ rs_got st = zlen pre /\ wf pre /\
    (exists c0, ck_new (first_ctype pre) = Some c0 /\ ck_chain c0 pre) /\ f_more (last pre dfrag) = false.

Lemma J_complete fs st : J fs st -> rs_state st = c_fragmentingReadComplete -> complete_ok fs st.
Proof.
  intros [(pre & A & B & C & D) _] Hs. specialize (C Hs). specialize (D (or_intror Hs)). destruct D as [V1 V2 V3 V4].
  rewrite C in V3. symmetry in V3.
  assert (Hne : pre <> []) by (intros ->; cbn in V3; discriminate).
  exists pre. split; [exact A|]. split; [exact B|].
  split; [apply wf_of_fr_ok; [exact Hne|apply fr_ok_of_verified; assumption]|]. split; [|exact V3].
  destruct (rs_ck st) as [c|]; [|congruence]. destruct V4 as (_ & c0 & N0 & Ch & _). exists c0. split; [|exact Ch].
  rewrite A in N0. destruct pre; [congruence|exact N0].
Qed.

(* ---- Complete is absorbing: nothing succeeds any more ---- *)
Lemma complete_absorbing o st : op_ok o -> hs st -> rs_state st = c_fragmentingReadComplete ->
  exists c st', r_step o st = Some ([], c, st') /\ is_err c /\ rs_state st' = c_fragmentingReadComplete /\ rs_in st' = rs_in st.
Proof.
  intros Ho Hst Hs. destruct (Z.eq_dec (rs_err st) 0) as [He|He].
  - destruct o as [last|n| |bufsz]; cbn [r_step].
    + unfold r_begin. rewrite He, Hs. cbn. exists 3, (rset_err st 3). split; [reflexivity|]. split; [split; lia|]. split; [exact Hs|reflexivity].
    + unfold r_read. rewrite He, Hs. cbn. exists 2, (rset_err st 2). split; [reflexivity|]. split; [split; lia|]. split; [exact Hs|reflexivity].
    + unfold r_close. rewrite He, Hs. cbn. exists 2, (rset_err st 2). split; [reflexivity|]. split; [split; lia|]. split; [exact Hs|reflexivity].
    + unfold r_helper_read. cbn [Nat.add r_readall]. unfold r_read. rewrite He, Hs. cbn.
      exists 2, (rset_err st 2). split; [reflexivity|]. split; [split; lia|]. split; [exact Hs|reflexivity].
  - destruct (step_H o st Ho Hst) as (bs & c & st' & R & _ & _ & Pe & _). destruct (Pe He) as (-> & -> & ->).
    exists (rs_err st), st. split; [exact R|]. split; [split; [exact He|exact (proj2 Hst)]|]. split; [exact Hs|reflexivity].
Qed.

(* number of operations that take the reader into Complete *)
Fixpoint completions (st : rst) (t : list (list Z * Z * rst)) : nat :=
  match t with
  | [] => O
  | x :: r => Nat.add (if negb (rs_state st =? c_fragmentingReadComplete) && (rs_state (snd x) =? c_fragmentingReadComplete) then 1%nat else O)
                      (completions (snd x) r)
  end.

Lemma completions_le : forall ops st t, Forall op_ok ops -> hs st -> r_trace ops st = Some t ->
  (completions st t <= 1)%nat /\ (rs_state st = c_fragmentingReadComplete -> completions st t = O).
Proof.
  induction ops as [|o ops IH]; intros st t Hops Hst; cbn [r_trace].
  - intros H; injection H as <-. cbn. split; [lia|reflexivity].
  - pose proof (Forall_inv Hops) as Ho. pose proof (Forall_inv_tail Hops) as Hr.
    destruct (step_H o st Ho Hst) as (bs & c & st' & R & S' & _). rewrite R.
    destruct (r_trace ops st') as [t'|] eqn:RT; [|discriminate]. intros H; injection H as <-.
    destruct (IH st' t' Hr S' RT) as [L Z0]. cbn [completions snd].
    destruct (Z.eq_dec (rs_state st) c_fragmentingReadComplete) as [Hs|Hs].
    + destruct (complete_absorbing o st Ho Hst Hs) as (c2 & st2 & R2 & _ & S2 & _). rewrite R in R2. injection R2 as _ _ <-.
      rewrite Hs. cbn [Z.eqb negb andb]. rewrite (Z0 S2). split; [cbn; lia|reflexivity].
    + split; [|intros H; congruence].
      destruct (Z.eq_dec (rs_state st') c_fragmentingReadComplete) as [Hs'|Hs'].
      * rewrite (Z0 Hs'). destruct (negb _ && _); lia.
      * replace (rs_state st' =? c_fragmentingReadComplete) with false by lia. rewrite andb_false_r. lia.
Qed.

Lemma hs_init fs : Forall frag_parsed fs -> hs (r_init fs).
Proof.
  intros Hp. split; [|unfold r_init; prj; lia]. unfold ck_safe, r_init. prj.
  destruct fs as [|f r]; [exact I|]. exact (proj1 (Forall_inv Hp)).
Qed.

(* ONE OUTCOME, HOSTILE INPUT.  For any fragments the parser accepted and any script of
   Begin / Read(n) / Close / helper reads: no panic; a returned error code is the reader's
   sticky error and from then on every operation returns it without data; at most one
   operation takes the reader to Complete, and whenever it is Complete the fragments
   consumed are a well-formed message (every fragment has a chunk, the more-flag is set on
   all but the last) each of whose checksums verified. *)
Theorem hostile_reader : forall fs ops, Forall frag_parsed fs -> Forall op_ok ops ->
  exists t, r_trace ops (r_init fs) = Some t /\ length t = length ops /\
    Forall (fun x => is_err (snd (fst x)) -> rs_err (snd x) = snd (fst x)) t /\
    sticky (tr_obs t) /\
    (completions (r_init fs) t <= 1)%nat /\
    Forall (fun x => rs_state (snd x) = c_fragmentingReadComplete -> complete_ok fs (snd x)) t.
Proof.
  intros fs ops Hp Hops. pose proof (hs_init fs Hp) as H0.
  destruct (hostile_trace ops (r_init fs) Hops H0) as (t & RT & Lt & Fe & St & _).
  exists t. split; [exact RT|]. split; [exact Lt|]. split; [exact Fe|]. split; [exact St|].
  split; [exact (proj1 (completions_le ops _ t Hops H0 RT))|].
  pose proof (trace_J fs Hp ops _ t (J_init fs) RT) as FJ.
  eapply Forall_impl; [|exact FJ]. cbv beta. intros x Hj Hs. exact (J_complete fs _ Hj Hs).
Qed.

(* ================================================================== *)
(* Part 3: more fragments never change a success                       *)
(* ================================================================== *)
Lemma fsum_app a b : fsum (a ++ b) = fsum a + fsum b.
Proof. induction a as [|f a IH]; [reflexivity|]. cbn [app]. rewrite !fsum_cons, IH. lia. Qed.

Lemma total_ext post s : total_bytes (ext post s) = total_bytes s + fsum post.
Proof. rewrite !total_bytes_eq. unfold ext. prj. rewrite fsum_app. lia. Qed.

(* consumption facts that need no safety hypothesis *)
Lemma recv_total s c s' : r_recv s = Some (c, s') -> total_bytes s' <= total_bytes s.
Proof.
  destruct s as [st e rem cur more inn ck got rel fin]. unfold r_recv. prj.
  pose proof (zlen_nonneg cur) as Zc. pose proof (lsum_nonneg rem) as Zr.
  destruct (negb (e =? 0)); [intros H; injection H as _ <-; lia|].
  destruct inn as [|f rest]; [intros H; injection H as _ <-; rewrite !total_bytes_eq; prj; lia|].
  pose proof (fsum_nonneg rest) as Zf. pose proof (lsum_nonneg (f_chunks f)) as Zl.
  destruct (match ck with Some c0 => Some c0 | None => ck_new (f_ctype f) end) as [c0|]; [|discriminate].
  destruct (negb (ck_typecode c0 =? f_ctype f) && match ck with Some _ => true | None => false end).
  { intros H; injection H as _ <-. unfold rset_err. rewrite !total_bytes_eq. prj. rewrite fsum_cons. lia. }
  destruct (negb (bytes_eqb (f_ck f) (ck_sum (fold_left ck_add (f_chunks f) c0)))).
  { intros H; injection H as _ <-. unfold rset_err. rewrite !total_bytes_eq. prj. rewrite fsum_cons. change (lsum []) with 0. lia. }
  destruct (f_chunks f) as [|ch chs] eqn:Ech.
  { intros H; injection H as _ <-. unfold rset_err. rewrite !total_bytes_eq. prj. rewrite fsum_cons, Ech. change (lsum []) with 0. lia. }
  intros H; injection H as _ <-. rewrite !total_bytes_eq. prj. rewrite fsum_cons, Ech, lsum_cons in *. lia.
Qed.

Lemma read_loop_consumes : forall fuel n acc s bs s', 0 <= n ->
  r_read_loop fuel n acc s = Some (bs, 0, s') -> total_bytes s' + n <= total_bytes s.
Proof.
  induction fuel as [|fuel IH]; intros n acc s bs s' Hn; cbn [r_read_loop];
    set (k := Z.min n (zlen (rs_cur s)));
    set (s1 := mkRst (rs_state s) (rs_err s) (rs_rem s) (skipn (Z.to_nat k) (rs_cur s)) (rs_more s)
                     (rs_in s) (rs_ck s) (rs_got s) (rs_rel s) (rs_fin s));
    pose proof (zlen_nonneg (rs_cur s)) as Zc;
    assert (T1 : total_bytes s1 + Z.min (Z.of_nat (Z.to_nat k)) (zlen (rs_cur s)) = total_bytes s)
      by (rewrite !total_bytes_eq; unfold s1; prj;
          pose proof (zlen_firstn_skipn (Z.to_nat k) (rs_cur s)); rewrite zlen_firstn in *; lia).
  - destruct (n - k =? 0) eqn:E; [intros H; injection H as _ <-; lia|].
    destruct (rs_rem s1); [|discriminate]. destruct (negb (rs_more s1)); discriminate.
  - destruct (n - k =? 0) eqn:E; [intros H; injection H as _ <-; lia|].
    destruct (rs_rem s1); [|discriminate]. destruct (negb (rs_more s1)); [discriminate|].
    destruct (r_recv s1) as [[c2 s2]|] eqn:R; [|discriminate].
    pose proof (recv_total _ _ _ R) as T2.
    destruct (c2 =? 0) eqn:Ec; [|intros H; injection H as _ Hc _; lia].
    intros H. assert (Hk : 0 <= n - k) by (unfold k; lia). pose proof (IH _ _ _ _ _ Hk H). unfold k in *. lia.
Qed.

Lemma read_consumes n s bs s' : 0 <= n -> r_read n s = Some (bs, 0, s') -> total_bytes s' + n <= total_bytes s.
Proof.
  intros Hn. unfold r_read. destruct (negb (rs_err s =? 0)) eqn:Ee; [intros H; injection H as _ Hc _; lia|].
  destruct (negb (is_reading (rs_state s))); [discriminate|]. apply read_loop_consumes. exact Hn.
Qed.

(* ReadAll on the same state with more fragments to come: the same result, or the short run
   ended in the receiver error *)
Lemma readall_ext post bufsz : 0 < bufsz -> forall fuelC acc s fuelF,
  total_bytes s < Z.of_nat fuelC -> total_bytes (ext post s) < Z.of_nat fuelF ->
  r_readall fuelF bufsz acc (ext post s) = lift3 post (r_readall fuelC bufsz acc s) \/
  (exists bs s', r_readall fuelC bufsz acc s = Some (bs, 9, s')).
Proof.
  intros Hb. induction fuelC as [|fuelC IH]; intros acc s fuelF HC HF; [pose proof (total_bytes_nonneg s); lia|].
  destruct fuelF as [|fuelF]; [pose proof (total_bytes_nonneg (ext post s)); lia|].
  cbn [r_readall]. destruct (read_ext post bufsz s) as [E|(bs & s' & RC & Es & _)].
  - rewrite E. destruct (r_read bufsz s) as [[[bs c] s1]|] eqn:R; [|left; reflexivity]. cbn [lift3].
    destruct (c =? 0) eqn:Ec.
    + assert (c = 0) by lia. subst c. pose proof (read_consumes bufsz s bs s1 ltac:(lia) R) as T.
      apply IH; [lia|]. rewrite total_ext in *. lia.
    + destruct (c =? 12); left; reflexivity.
  - right. rewrite RC. cbn [Z.eqb]. eexists _, _. reflexivity.
Qed.

Lemma helper_ext post bufsz s : 0 < bufsz ->
  r_helper_read bufsz (ext post s) = lift3 post (r_helper_read bufsz s) \/
  (exists bs c s', r_helper_read bufsz s = Some (bs, c, s') /\ c <> 0).
Proof.
  intros Hb. unfold r_helper_read.
  destruct (readall_ext post bufsz Hb (S (Z.to_nat (total_bytes s)) + length (rs_in s) + 2) [] s
              (S (Z.to_nat (total_bytes (ext post s))) + length (rs_in (ext post s)) + 2)) as [E|(bs & s' & RC)].
  { pose proof (total_bytes_nonneg s). lia. }
  { pose proof (total_bytes_nonneg (ext post s)). lia. }
  2:{ right. rewrite RC. cbn [Z.eqb negb]. eexists _, _, _. split; [reflexivity|lia]. }
  rewrite E. destruct (r_readall _ bufsz [] s) as [[[bs c] s1]|]; [|left; reflexivity]. cbn [lift3].
  destruct (negb (c =? 0)); [left; reflexivity|].
  destruct (read_ext post 128 s1) as [E1|(bs2 & s' & RC & Es & _)].
  2:{ right. rewrite RC. destruct (zlen bs2 >? 0); [eexists _, _, _; split; [reflexivity|lia]|].
      cbn [Z.eqb negb andb]. eexists _, _, _; split; [reflexivity|lia]. }
  rewrite E1. destruct (r_read 128 s1) as [[[ex c2] s2]|]; [|left; reflexivity]. cbn [lift3].
  destruct (zlen ex >? 0); [left; reflexivity|].
  destruct (negb (c2 =? 12) && negb (c2 =? 0)); [left; reflexivity|].
  destruct (close_ext post s2) as [E2|(s' & RC & Es)].
  2:{ right. rewrite RC. eexists _, _, _; split; [reflexivity|lia]. }
  rewrite E2. destruct (r_close s2) as [[c3 s3]|]; left; reflexivity.
Qed.

(* THE CALLER'S THREE HELPER READS: on a prefix of the fragments the outcome is an error, or
   it is the outcome on the whole list (in particular a success is never altered by what follows) *)
Theorem call_outcome_ext n1 n2 n3 pre post : 0 < n1 -> 0 < n2 -> 0 < n3 ->
  call_outcome n1 n2 n3 pre = OErr \/ call_outcome n1 n2 n3 (pre ++ post) = call_outcome n1 n2 n3 pre.
Proof.
  intros H1 H2 H3. unfold call_outcome.
  change (r_init (pre ++ post)) with (ext post (r_init pre)).
  destruct (begin_ext post false (r_init pre)) as [E|(s' & RC & _)]; [|left; rewrite RC; reflexivity].
  rewrite E. destruct (r_begin false (r_init pre)) as [[cb1 s0]|]; [|right; reflexivity]. cbn [lift2].
  destruct (negb (cb1 =? 0)); [left; reflexivity|].
  destruct (helper_ext post n1 s0 H1) as [E1|(bs & c & s' & RC & Hc)].
  2:{ left. rewrite RC. replace (negb (c =? 0)) with true by lia. reflexivity. }
  rewrite E1. destruct (r_helper_read n1 s0) as [[[a1 c1] s1]|]; [|right; reflexivity]. cbn [lift3].
  destruct (negb (c1 =? 0)); [left; reflexivity|].
  destruct (begin_ext post false s1) as [E2|(s' & RC & _)]; [|left; rewrite RC; reflexivity].
  rewrite E2. destruct (r_begin false s1) as [[cb2 s1']|]; [|right; reflexivity]. cbn [lift2].
  destruct (negb (cb2 =? 0)); [left; reflexivity|].
  destruct (helper_ext post n2 s1' H2) as [E3|(bs & c & s' & RC & Hc)].
  2:{ left. rewrite RC. replace (negb (c =? 0)) with true by lia. reflexivity. }
  rewrite E3. destruct (r_helper_read n2 s1') as [[[a2 c2] s2]|]; [|right; reflexivity]. cbn [lift3].
  destruct (negb (c2 =? 0)); [left; reflexivity|].
  destruct (begin_ext post true s2) as [E4|(s' & RC & _)]; [|left; rewrite RC; reflexivity].
  rewrite E4. destruct (r_begin true s2) as [[cb3 s2']|]; [|right; reflexivity]. cbn [lift2].
  destruct (negb (cb3 =? 0)); [left; reflexivity|].
  destruct (helper_ext post n3 s2' H3) as [E5|(bs & c & s' & RC & Hc)].
  2:{ left. rewrite RC. replace (negb (c =? 0)) with true by lia. reflexivity. }
  rewrite E5. destruct (r_helper_read n3 s2') as [[[a3 c3] s3]|]; right; reflexivity.
Qed.

(* ================================================================== *)
(* Part 4: arbitrary byte streams                                      *)
(* ================================================================== *)
Lemma firstn_app_le {A} n (a b : list A) : (n <= length a)%nat -> firstn n (a ++ b) = firstn n a.
Proof. intros H. rewrite firstn_app. replace (n - length a)%nat with O by lia. cbn [firstn]. apply app_nil_r. Qed.
Lemma skipn_app_le {A} n (a b : list A) : (n <= length a)%nat -> skipn n (a ++ b) = skipn n a ++ b.
Proof. intros H. rewrite skipn_app. replace (n - length a)%nat with O by lia. reflexivity. Qed.

(* a frame read from a stream is read identically when more bytes follow *)
Lemma frame_read_body_mono hdr stream more h p rest :
  frame_read_body hdr stream = (0, h, p, rest) ->
  frame_read_body hdr (stream ++ more) = (0, h, p, rest ++ more) /\ exists k, p = firstn k stream /\ rest = skipn k stream.
Proof.
  unfold frame_read_body. destruct (r_fheader (rb hdr)) as [h0 r]. destruct (rerr r); [discriminate|].
  set (ps := PayloadSize (fh_size h0)). destruct (ps >? c_MaxFramePayloadSize); [discriminate|].
  destruct (ps >? 0) eqn:Ep.
  - destruct (zlen stream <? ps) eqn:El; [discriminate|]. intros H; injection H as <- <- <-.
    assert (L : (Z.to_nat ps <= length stream)%nat) by (unfold zlen in El; lia).
    replace (zlen (stream ++ more) <? ps) with false by (rewrite zlen_app; pose proof (zlen_nonneg more); lia).
    rewrite firstn_app_le, skipn_app_le by exact L. split; [reflexivity|]. exists (Z.to_nat ps). split; reflexivity.
  - intros H; injection H as <- <- <-. split; [reflexivity|]. exists O. split; reflexivity.
Qed.

Lemma frame_read_in_mono pre more h p rest :
  frame_read_in pre = (0, h, p, rest) ->
  frame_read_in (pre ++ more) = (0, h, p, rest ++ more) /\ (length rest + 16 <= length pre)%nat /\
  (bytes_ok pre = true -> bytes_ok p = true /\ bytes_ok rest = true).
Proof.
  unfold frame_read_in. destruct (zlen pre <? c_FrameHeaderSize) eqn:E; [discriminate|].
  assert (L : (16 <= length pre)%nat) by (unfold zlen, c_FrameHeaderSize in E; lia).
  replace (zlen (pre ++ more) <? c_FrameHeaderSize) with false
    by (rewrite zlen_app; pose proof (zlen_nonneg more); unfold c_FrameHeaderSize in *; lia).
  rewrite firstn_app_le, skipn_app_le by exact L. intros H.
  destruct (frame_read_body_mono _ _ more _ _ _ H) as (M & k & Hp & Hr). split; [exact M|]. split.
  - subst rest. rewrite !skipn_length. lia.
  - intros Hb. subst p rest. split; [apply bytes_ok_firstn|apply bytes_ok_skipn]; apply bytes_ok_skipn; exact Hb.
Qed.

(* the frames of a prefix of a stream are a prefix of the frames of the stream *)
Lemma read_frames_mono : forall fuel pre more fuel', (length pre < fuel)%nat -> (length (pre ++ more) < fuel')%nat ->
  exists tail, fst (read_frames fuel' (pre ++ more)) = fst (read_frames fuel pre) ++ tail.
Proof.
  induction fuel as [|fuel IH]; intros pre more fuel' H1 H2; [lia|]. destruct fuel' as [|fuel']; [lia|].
  destruct pre as [|x xs]; [eexists; reflexivity|].
  cbn [read_frames app]. change (x :: xs ++ more) with ((x :: xs) ++ more). set (pre := x :: xs) in *.
  destruct (frame_read_in pre) as [[[code h] p] rest] eqn:F.
  destruct (code =? 0) eqn:Ec; [|eexists; reflexivity].
  assert (code = 0) by lia. subst code. destruct (frame_read_in_mono pre more h p rest F) as (M & L & _). rewrite M. cbn [Z.eqb].
  destruct (IH rest more fuel' ltac:(lia) ltac:(rewrite app_length in *; lia)) as [tail T].
  destruct (read_frames fuel rest) as [l c]. destruct (read_frames fuel' (rest ++ more)) as [l' c'].
  cbn [fst] in *. exists tail. rewrite T. reflexivity.
Qed.

Lemma read_frames_bytes_ok : forall fuel stream, bytes_ok stream = true ->
  Forall (fun hp => bytes_ok (snd hp) = true) (fst (read_frames fuel stream)).
Proof.
  induction fuel as [|fuel IH]; intros stream Hb; [constructor|]. cbn [read_frames].
  destruct stream as [|x xs]; [constructor|]. set (s := x :: xs) in *.
  destruct (frame_read_in s) as [[[code h] p] rest] eqn:F.
  destruct (code =? 0) eqn:Ec; [|constructor]. assert (code = 0) by lia. subst code.
  destruct (frame_read_in_mono s [] h p rest F) as (_ & _ & B). destruct (B Hb) as [Bp Br].
  specialize (IH rest Br). destruct (read_frames fuel rest) as [l c]. cbn [fst] in *. constructor; [exact Bp|exact IH].
Qed.

Lemma recv_frags_app mt0 mtc : forall a i b, exists tail, recv_frags i mt0 mtc (a ++ b) = recv_frags i mt0 mtc a ++ tail.
Proof.
  induction a as [|hp a IH]; intros i b; [eexists; reflexivity|]. cbn [app recv_frags].
  destruct (fh_type (fst hp) =? (if i then mt0 else mtc)); [|eexists; reflexivity].
  destruct (parse_frag_payload (if i then mt0 else mtc) (snd hp)) as [code f].
  destruct (code =? 0); [|eexists; reflexivity]. destruct (IH false b) as [tail T]. exists tail. rewrite T. reflexivity.
Qed.

(* what the parser accepts is [frag_parsed] *)
Lemma parsed_frag_parsed mt payload f : bytes_ok payload = true -> parse_frag_payload mt payload = (0, f) -> frag_parsed f.
Proof.
  intros Hb Hp. split; [exact (proj2 (parsed_ctype_known mt payload f Hb Hp))|].
  revert Hp. unfold parse_frag_payload. destruct (r_u8 (rb payload)) as [flags r0].
  set (r1 := if mt =? c_messageTypeCallReq then snd (r_callreq r0) else if mt =? c_messageTypeCallRes then snd (r_callres r0) else r0).
  destruct (rerr r1); [discriminate|]. unfold parse_frag_tail. destruct (r_u8 r1) as [ct r2].
  destruct ((ct >=? c_checksumCount) && negb (rerr r2)); [discriminate|].
  destruct (r_bytes (Z.to_nat (ChecksumSize ct)) r2) as [ck r3] eqn:E2.
  destruct (rerr r3) eqn:R3; [discriminate|].
  destruct (parse_chunks (length (rrem r3)) r3 []) as [code cs]. intros H. inversion H; subst. cbn [f_ctype f_ck].
  unfold r_bytes in E2. destruct (rerr r2) eqn:R2; [inversion E2; subst; congruence|].
  destruct (length (rrem r2) <? Z.to_nat (ChecksumSize ct))%nat eqn:El; inversion E2; subst; [cbn in R3; discriminate|].
  unfold zlen. rewrite firstn_length.
  assert (0 <= ChecksumSize ct) by (unfold ChecksumSize; repeat match goal with |- context [if ?b then _ else _] => destruct b end; lia).
  lia.
Qed.

Lemma recv_frags_parsed mt0 mtc : forall frames i, Forall (fun hp => bytes_ok (snd hp) = true) frames ->
  Forall frag_parsed (recv_frags i mt0 mtc frames).
Proof.
  induction frames as [|hp r IH]; intros i Hb; [constructor|]. cbn [recv_frags].
  destruct (fh_type (fst hp) =? (if i then mt0 else mtc)); [|constructor].
  destruct (parse_frag_payload (if i then mt0 else mtc) (snd hp)) as [code f] eqn:P.
  destruct (code =? 0) eqn:Ec; [|constructor]. assert (code = 0) by lia. subst code.
  constructor; [exact (parsed_frag_parsed _ _ _ (Forall_inv Hb) P)|]. apply IH. exact (Forall_inv_tail Hb).
Qed.

Lemma for_call_ok id mt0 mtc frames : Forall (fun hp => bytes_ok (snd hp) = true) frames ->
  Forall (fun hp => bytes_ok (snd hp) = true) (for_call id mt0 mtc frames).
Proof.
  intros H. apply Forall_forall. intros x Hx. unfold for_call in Hx. apply filter_In in Hx.
  rewrite Forall_forall in H. apply H. exact (proj1 Hx).
Qed.

(* the fragments delivered to the reader of one call, from the bytes that arrived *)
Definition delivered (id mt0 mtc : Z) (stream : list Z) : list frag :=
  recv_frags true mt0 mtc (for_call id mt0 mtc (fst (read_frames (S (length stream)) stream))).

Lemma recv_outcome_delivered id mt0 mtc n1 n2 n3 stream :
  recv_outcome id mt0 mtc n1 n2 n3 stream = call_outcome n1 n2 n3 (delivered id mt0 mtc stream).
Proof. unfold recv_outcome, delivered. destruct (read_frames (S (length stream)) stream). reflexivity. Qed.

Lemma delivered_parsed id mt0 mtc stream : bytes_ok stream = true -> Forall frag_parsed (delivered id mt0 mtc stream).
Proof. intros Hb. apply recv_frags_parsed, for_call_ok, read_frames_bytes_ok, Hb. Qed.

Lemma delivered_prefix id mt0 mtc stream n : exists tail,
  delivered id mt0 mtc stream = delivered id mt0 mtc (cut_at n stream) ++ tail.
Proof.
  unfold delivered, cut_at. set (k := Z.to_nat n).
  destruct (read_frames_mono (S (length (firstn k stream))) (firstn k stream) (skipn k stream) (S (length stream)))
    as [t1 T1]; [lia|rewrite firstn_skipn; lia|]. rewrite firstn_skipn in T1. rewrite T1.
  unfold for_call. rewrite filter_app. apply recv_frags_app.
Qed.

(* the three helper reads never panic on parsed fragments *)
Lemma call_outcome_no_panic n1 n2 n3 fs : 0 < n1 -> 0 < n2 -> 0 < n3 -> Forall frag_parsed fs ->
  call_outcome n1 n2 n3 fs <> OPanic.
Proof.
  intros H1 H2 H3 Hp. pose proof (hs_init fs Hp) as S0. unfold call_outcome.
  assert (B : forall l st, hs st -> exists c st', r_begin l st = Some (c, st') /\ hs st').
  { intros l st Hst. destruct (step_H (RBegin l) st I Hst) as (bs & c & st' & R & S' & _). cbn [r_step] in R.
    destruct (r_begin l st) as [[c1 s1]|]; [|discriminate]. injection R as _ <- <-. eauto. }
  assert (Hh : forall n st, 0 < n -> hs st -> exists bs c st', r_helper_read n st = Some (bs, c, st') /\ hs st').
  { intros n st Hn Hst. destruct (step_H (RHelper n) st Hn Hst) as (bs & c & st' & R & S' & _). cbn [r_step] in R. eauto. }
  destruct (B false _ S0) as (cb1 & s0 & R0 & S1). rewrite R0. destruct (negb (cb1 =? 0)); [discriminate|].
  destruct (Hh n1 _ H1 S1) as (a1 & c1 & s1 & R1 & S2). rewrite R1. destruct (negb (c1 =? 0)); [discriminate|].
  destruct (B false _ S2) as (cb2 & s1' & R2 & S3). rewrite R2. destruct (negb (cb2 =? 0)); [discriminate|].
  destruct (Hh n2 _ H2 S3) as (a2 & c2 & s2 & R3 & S4). rewrite R3. destruct (negb (c2 =? 0)); [discriminate|].
  destruct (B true _ S4) as (cb3 & s2' & R4 & S5). rewrite R4. destruct (negb (cb3 =? 0)); [discriminate|].
  destruct (Hh n3 _ H3 S5) as (a3 & c3 & s3 & R5 & S6). rewrite R5. destruct (negb (c3 =? 0)); discriminate.
Qed.

(* ANY PEER STREAM CUT AT ANY BYTE.  For arbitrary bytes (not only writer-produced ones), any
   message id and message types, and every cut offset n: the receiving side (frame loop,
   dispatch by id, fragment parser, reader, three helper reads) does not panic, and what it
   reports on the first n bytes is an error or exactly what it reports on the whole stream:
   a success is never produced by a cut and never altered by one. *)
Theorem hostile_stream_cut : forall id mt0 mtc n1 n2 n3 stream, 0 < n1 -> 0 < n2 -> 0 < n3 ->
  bytes_ok stream = true -> forall n,
  recv_outcome id mt0 mtc n1 n2 n3 (cut_at n stream) <> OPanic /\
  (recv_outcome id mt0 mtc n1 n2 n3 (cut_at n stream) = OErr \/
   recv_outcome id mt0 mtc n1 n2 n3 (cut_at n stream) = recv_outcome id mt0 mtc n1 n2 n3 stream).
Proof.
  intros id mt0 mtc n1 n2 n3 stream H1 H2 H3 Hb n. rewrite !recv_outcome_delivered. split.
  - apply call_outcome_no_panic; try assumption. apply delivered_parsed. unfold cut_at. apply bytes_ok_firstn, Hb.
  - destruct (delivered_prefix id mt0 mtc stream n) as [tail T]. rewrite T.
    destruct (call_outcome_ext n1 n2 n3 (delivered id mt0 mtc (cut_at n stream)) tail H1 H2 H3) as [E|E]; [left; exact E|right; symmetry; exact E].
Qed.

(* ================================================================== *)
(* Part 5: a success on hostile input is the denotation of a verified  *)
(* well-formed message                                                 *)
(* ================================================================== *)
(* ---- the operations only ever shorten the input, and never touch the state field except
        Begin / Close ---- *)
Lemma recv_len s c s' : r_recv s = Some (c, s') -> (length (rs_in s') <= length (rs_in s))%nat /\ rs_state s' = rs_state s.
Proof.
  destruct s as [st e rem cur more inn ck got rel fin]. unfold r_recv. prj.
  destruct (negb (e =? 0)); [intros H; injection H as _ <-; prj; split; [lia|reflexivity]|].
  destruct inn as [|f rest]; [intros H; injection H as _ <-; prj; split; [lia|reflexivity]|].
  destruct (match ck with Some c0 => Some c0 | None => ck_new (f_ctype f) end) as [c0|]; [|discriminate].
  destruct (negb (ck_typecode c0 =? f_ctype f) && match ck with Some _ => true | None => false end).
  { intros H; injection H as _ <-. unfold rset_err. prj. cbn [length]. split; [lia|reflexivity]. }
  destruct (negb (bytes_eqb (f_ck f) (ck_sum (fold_left ck_add (f_chunks f) c0)))).
  { intros H; injection H as _ <-. unfold rset_err. prj. cbn [length]. split; [lia|reflexivity]. }
  destruct (f_chunks f) as [|ch chs].
  { intros H; injection H as _ <-. unfold rset_err. prj. cbn [length]. split; [lia|reflexivity]. }
  intros H; injection H as _ <-. prj. cbn [length]. split; [lia|reflexivity].
Qed.

Lemma read_loop_len : forall fuel n acc s bs c s', r_read_loop fuel n acc s = Some (bs, c, s') ->
  (length (rs_in s') <= length (rs_in s))%nat /\ rs_state s' = rs_state s.
Proof.
  induction fuel as [|fuel IH]; intros n acc s bs c s'; cbn [r_read_loop]; prj;
    set (k := Z.min n (zlen (rs_cur s))).
  - destruct (n - k =? 0); [intros H; injection H as _ _ <-; prj; split; [lia|reflexivity]|].
    destruct (rs_rem s); [|intros H; injection H as _ _ <-; prj; split; [lia|reflexivity]].
    destruct (negb (rs_more s)); intros H; injection H as _ _ <-; prj; (split; [lia|reflexivity]).
  - destruct (n - k =? 0); [intros H; injection H as _ _ <-; prj; split; [lia|reflexivity]|].
    destruct (rs_rem s); [|intros H; injection H as _ _ <-; prj; split; [lia|reflexivity]].
    destruct (negb (rs_more s)); [intros H; injection H as _ _ <-; prj; split; [lia|reflexivity]|].
    match goal with |- match r_recv ?x with _ => _ end = _ -> _ => destruct (r_recv x) as [[c2 s2]|] eqn:R end; [|discriminate].
    destruct (recv_len _ _ _ R) as [L2 S2]. prj_in L2. prj_in S2.
    destruct (c2 =? 0).
    + intros H. destruct (IH _ _ _ _ _ _ H) as [L' S']. split; [lia|congruence].
    + intros H; injection H as _ _ <-. split; [exact L2|exact S2].
Qed.

Lemma read_len n s bs c s' : r_read n s = Some (bs, c, s') ->
  (length (rs_in s') <= length (rs_in s))%nat /\ rs_state s' = rs_state s.
Proof.
  unfold r_read. destruct (negb (rs_err s =? 0)); [intros H; injection H as _ _ <-; split; [lia|reflexivity]|].
  destruct (negb (is_reading (rs_state s))); [intros H; injection H as _ _ <-; unfold rset_err; prj; split; [lia|reflexivity]|].
  apply read_loop_len.
Qed.

Lemma begin_len last s c s' : r_begin last s = Some (c, s') -> (length (rs_in s') <= length (rs_in s))%nat.
Proof.
  unfold r_begin. destruct (negb (rs_err s =? 0)); [intros H; injection H as _ <-; lia|].
  destruct (is_reading (rs_state s)); [intros H; injection H as _ <-; unfold rset_err; prj; lia|].
  destruct (rs_state s =? c_fragmentingReadComplete); [intros H; injection H as _ <-; unfold rset_err; prj; lia|].
  destruct (rs_state s =? c_fragmentingReadStart).
  - destruct (r_recv s) as [[c2 s2]|] eqn:R; [|discriminate]. destruct (recv_len _ _ _ R) as [L2 _].
    destruct (c2 =? 0); intros H; injection H as _ <-; prj; exact L2.
  - intros H; injection H as _ <-. prj. lia.
Qed.

Lemma close_next_len : forall fuel s c s', r_close_next fuel s = Some (c, s') -> (length (rs_in s') <= length (rs_in s))%nat.
Proof.
  induction fuel as [|fuel IH]; intros s c s'; cbn [r_close_next].
  - destruct (rs_rem s); [|intros H; injection H as _ <-; prj; lia].
    destruct (negb (rs_more s)); intros H; injection H as _ <-; unfold rset_err; prj; lia.
  - destruct (rs_rem s); [|intros H; injection H as _ <-; prj; lia].
    destruct (negb (rs_more s)); [intros H; injection H as _ <-; unfold rset_err; prj; lia|].
    destruct (r_recv s) as [[c2 s2]|] eqn:R; [|discriminate]. destruct (recv_len _ _ _ R) as [L2 _].
    destruct (negb (c2 =? 0)); [intros H; injection H as _ <-; exact L2|].
    destruct (zlen (rs_cur s2) >? 0); [intros H; injection H as _ <-; unfold rset_err; prj; exact L2|].
    intros H. pose proof (IH _ _ _ H). lia.
Qed.

Lemma close_len s c s' : r_close s = Some (c, s') -> (length (rs_in s') <= length (rs_in s))%nat.
Proof.
  unfold r_close. destruct (negb (rs_err s =? 0)); [intros H; injection H as _ <-; lia|].
  destruct (negb (is_reading (rs_state s))); [intros H; injection H as _ <-; unfold rset_err; prj; lia|].
  destruct (zlen (rs_cur s) >? 0); [intros H; injection H as _ <-; unfold rset_err; prj; lia|].
  destruct (rs_state s =? c_fragmentingReadInLastArgument).
  - destruct (rs_rem s); [|intros H; injection H as _ <-; unfold rset_err; prj; lia].
    destruct (rs_more s); intros H; injection H as _ <-; unfold rset_err; prj; lia.
  - intros H. apply close_next_len in H. prj_in H. exact H.
Qed.

Lemma readall_len bufsz : forall fuel acc s bs c s', r_readall fuel bufsz acc s = Some (bs, c, s') ->
  (length (rs_in s') <= length (rs_in s))%nat /\ rs_state s' = rs_state s.
Proof.
  induction fuel as [|fuel IH]; intros acc s bs c s'; cbn [r_readall].
  - intros H; injection H as _ _ <-. split; [lia|reflexivity].
  - destruct (r_read bufsz s) as [[[bs1 c1] s1]|] eqn:R; [|discriminate]. destruct (read_len _ _ _ _ _ R) as [L1 S1].
    destruct (c1 =? 0); [intros H; destruct (IH _ _ _ _ _ H) as [L' S']; split; [lia|congruence]|].
    destruct (c1 =? 12); intros H; injection H as _ _ <-; (split; [exact L1|exact S1]).
Qed.

Lemma helper_len bufsz s bs c s' : r_helper_read bufsz s = Some (bs, c, s') -> (length (rs_in s') <= length (rs_in s))%nat.
Proof.
  unfold r_helper_read. destruct (r_readall _ bufsz [] s) as [[[bs1 c1] s1]|] eqn:R; [|discriminate].
  destruct (readall_len _ _ _ _ _ _ _ R) as [L1 _].
  destruct (negb (c1 =? 0)); [intros H; injection H as _ _ <-; exact L1|].
  destruct (r_read 128 s1) as [[[ex c2] s2]|] eqn:R2; [|discriminate]. destruct (read_len _ _ _ _ _ R2) as [L2 _].
  destruct (zlen ex >? 0); [intros H; injection H as _ _ <-; lia|].
  destruct (negb (c2 =? 12) && negb (c2 =? 0)); [intros H; injection H as _ _ <-; lia|].
  destruct (r_close s2) as [[c3 s3]|] eqn:R3; [|discriminate]. pose proof (close_len _ _ _ R3) as L3.
  intros H; injection H as _ _ <-. lia.
Qed.

(* a successful helper read of the last argument leaves the reader Complete *)
Lemma helper_last_complete bufsz s bs s' : r_helper_read bufsz s = Some (bs, 0, s') ->
  rs_state s = c_fragmentingReadInLastArgument -> rs_state s' = c_fragmentingReadComplete.
Proof.
  unfold r_helper_read. destruct (r_readall _ bufsz [] s) as [[[bs1 c1] s1]|] eqn:R; [|discriminate].
  destruct (readall_len _ _ _ _ _ _ _ R) as [_ S1].
  destruct (negb (c1 =? 0)) eqn:E1; [intros H; injection H as _ Hc _; lia|].
  destruct (r_read 128 s1) as [[[ex c2] s2]|] eqn:R2; [|discriminate]. destruct (read_len _ _ _ _ _ R2) as [_ S2].
  destruct (zlen ex >? 0); [discriminate|].
  destruct (negb (c2 =? 12) && negb (c2 =? 0)) eqn:E2; [intros H; injection H as _ Hc _; lia|].
  destruct (r_close s2) as [[c3 s3]|] eqn:R3; [|discriminate]. intros H; injection H as _ -> <-. intros Hs.
  assert (Hs2 : rs_state s2 = c_fragmentingReadInLastArgument) by congruence.
  revert R3. unfold r_close. destruct (negb (rs_err s2 =? 0)) eqn:Ee; [intros H; injection H as Hc _; lia|].
  destruct (negb (is_reading (rs_state s2))); [discriminate|]. destruct (zlen (rs_cur s2) >? 0); [discriminate|].
  rewrite Hs2, Z.eqb_refl. destruct (rs_rem s2); [|discriminate]. destruct (rs_more s2); [discriminate|].
  intros H; injection H as <-. reflexivity.
Qed.

(* ---- the converse of the extension lemmas: a run that leaves [post] untouched is a run
        of the reader that was never given [post] ---- *)
Lemma recv_head s f rest c s' : rs_err s = 0 -> rs_in s = f :: rest -> r_recv s = Some (c, s') -> rs_in s' = rest.
Proof.
  destruct s as [st e rem cur more inn ck got rel fin]. prj. intros -> ->. unfold r_recv. prj. cbn [Z.eqb negb].
  destruct (match ck with Some c0 => Some c0 | None => ck_new (f_ctype f) end) as [c0|]; [|discriminate].
  destruct (negb (ck_typecode c0 =? f_ctype f) && match ck with Some _ => true | None => false end).
  { intros H; injection H as _ <-. reflexivity. }
  destruct (negb (bytes_eqb (f_ck f) (ck_sum (fold_left ck_add (f_chunks f) c0)))).
  { intros H; injection H as _ <-. reflexivity. }
  destruct (f_chunks f); intros H; injection H as _ <-; reflexivity.
Qed.

Lemma recv_unext post s c sF : r_recv (ext post s) = Some (c, sF) -> (length post <= length (rs_in sF))%nat ->
  exists sC, r_recv s = Some (c, sC) /\ sF = ext post sC.
Proof.
  intros H L. destruct (dec_in s) as [D|[He Hi]].
  - rewrite (recv_ext post s D) in H. destruct (r_recv s) as [[c' sC]|]; [|discriminate]. cbn [lift2] in H.
    injection H as <- <-. eauto.
  - destruct post as [|f rest].
    + destruct s as [st e rem cur more inn ck got rel fin]. prj_all. subst e inn. unfold ext, r_recv in *. prj_all.
      cbn [app Z.eqb negb] in *. injection H as <- <-. eexists. split; [reflexivity|reflexivity].
    + exfalso. assert (E : rs_in (ext (f :: rest) s) = f :: rest) by (unfold ext; prj; rewrite Hi; reflexivity).
      pose proof (recv_head (ext (f :: rest) s) f rest c sF He E H) as X. rewrite X in L. cbn [length] in L. lia.
Qed.

Lemma begin_unext post last s c sF : r_begin last (ext post s) = Some (c, sF) -> (length post <= length (rs_in sF))%nat ->
  exists sC, r_begin last s = Some (c, sC) /\ sF = ext post sC.
Proof.
  unfold r_begin. change (rs_err (ext post s)) with (rs_err s). change (rs_state (ext post s)) with (rs_state s).
  destruct (negb (rs_err s =? 0)); [intros H _; injection H as <- <-; eauto|].
  destruct (is_reading (rs_state s)); [intros H _; injection H as <- <-; eexists; split; [reflexivity|reflexivity]|].
  destruct (rs_state s =? c_fragmentingReadComplete); [intros H _; injection H as <- <-; eexists; split; [reflexivity|reflexivity]|].
  destruct (rs_state s =? c_fragmentingReadStart).
  - destruct (r_recv (ext post s)) as [[c2 s2F]|] eqn:R; [|discriminate].
    destruct (c2 =? 0) eqn:Ec.
    + intros H L. injection H as <- <-. prj_in L. destruct (recv_unext post s c2 s2F R L) as (s2C & RC & ->).
      rewrite RC, Ec. eexists. split; [reflexivity|reflexivity].
    + intros H L. injection H as <- <-. destruct (recv_unext post s c2 s2F R L) as (s2C & RC & ->).
      rewrite RC, Ec. eexists. split; [reflexivity|reflexivity].
  - intros H _; injection H as <- <-. eexists. split; [reflexivity|reflexivity].
Qed.

Lemma read_loop_unext post : forall fuelC n acc s fuelF bs c sF,
  (length (rs_in s) < fuelC)%nat -> (length (rs_in s ++ post) < fuelF)%nat ->
  r_read_loop fuelF n acc (ext post s) = Some (bs, c, sF) -> (length post <= length (rs_in sF))%nat ->
  exists sC, r_read_loop fuelC n acc s = Some (bs, c, sC) /\ sF = ext post sC.
Proof.
  induction fuelC as [|fuelC IH]; intros n acc s fuelF bs c sF HC HF; [lia|].
  destruct fuelF as [|fuelF]; [lia|].
  destruct s as [st e rem cur more inn ck got0 rel fin]. prj_all.
  unfold ext at 1. prj. cbn [r_read_loop]. prj.
  set (k := Z.min n (zlen cur)). set (got := firstn (Z.to_nat k) cur).
  destruct (n - k =? 0); [intros H _; injection H as <- <- <-; eexists; split; [reflexivity|reflexivity]|].
  destruct rem as [|rc rcs]; [|intros H _; injection H as <- <- <-; eexists; split; [reflexivity|reflexivity]].
  destruct (negb more); [intros H _; injection H as <- <- <-; eexists; split; [reflexivity|reflexivity]|].
  set (s1 := mkRst st e [] (skipn (Z.to_nat k) cur) more inn ck got0 rel fin).
  change (mkRst st e [] (skipn (Z.to_nat k) cur) more (inn ++ post) ck got0 rel fin) with (ext post s1).
  destruct (r_recv (ext post s1)) as [[c2 s2F]|] eqn:R; [|discriminate].
  destruct (c2 =? 0) eqn:Ec.
  - intros H L. destruct (read_loop_len _ _ _ _ _ _ _ H) as [L' _].
    destruct (recv_unext post s1 c2 s2F R ltac:(lia)) as (s2C & RC & ->). rewrite RC, Ec.
    assert (c2 = 0) by lia. subst c2. pose proof (recv_in_len _ _ RC) as Ln. unfold s1 in Ln. prj_in Ln.
    apply (IH (n - k) (acc ++ got) s2C fuelF); [lia| |exact H|exact L].
    rewrite app_length in *. lia.
  - intros H L. injection H as <- <- <-. destruct (recv_unext post s1 c2 s2F R L) as (s2C & RC & ->). rewrite RC, Ec.
    eexists. split; [reflexivity|reflexivity].
Qed.

Lemma read_unext post n s bs c sF : r_read n (ext post s) = Some (bs, c, sF) -> (length post <= length (rs_in sF))%nat ->
  exists sC, r_read n s = Some (bs, c, sC) /\ sF = ext post sC.
Proof.
  unfold r_read. change (rs_err (ext post s)) with (rs_err s). change (rs_state (ext post s)) with (rs_state s).
  destruct (negb (rs_err s =? 0)); [intros H _; injection H as <- <- <-; eauto|].
  destruct (negb (is_reading (rs_state s))); [intros H _; injection H as <- <- <-; eexists; split; [reflexivity|reflexivity]|].
  change (rs_in (ext post s)) with (rs_in s ++ post). apply read_loop_unext; lia.
Qed.

Lemma close_next_unext post : forall fuelC s fuelF c sF,
  (length (rs_in s) < fuelC)%nat -> (length (rs_in s ++ post) < fuelF)%nat ->
  r_close_next fuelF (ext post s) = Some (c, sF) -> (length post <= length (rs_in sF))%nat ->
  exists sC, r_close_next fuelC s = Some (c, sC) /\ sF = ext post sC.
Proof.
  induction fuelC as [|fuelC IH]; intros s fuelF c sF HC HF; [lia|]. destruct fuelF as [|fuelF]; [lia|].
  cbn [r_close_next]. change (rs_rem (ext post s)) with (rs_rem s). change (rs_more (ext post s)) with (rs_more s).
  destruct (rs_rem s); [|intros H _; injection H as <- <-; eexists; split; [reflexivity|reflexivity]].
  destruct (negb (rs_more s)); [intros H _; injection H as <- <-; eexists; split; [reflexivity|reflexivity]|].
  destruct (r_recv (ext post s)) as [[c2 s2F]|] eqn:R; [|discriminate].
  destruct (negb (c2 =? 0)) eqn:Ec.
  { intros H L. injection H as <- <-. destruct (recv_unext post s c2 s2F R L) as (s2C & RC & ->). rewrite RC, Ec.
    eexists. split; [reflexivity|reflexivity]. }
  destruct (zlen (rs_cur s2F) >? 0) eqn:Ez.
  { intros H L. injection H as <- <-. unfold rset_err in L. prj_in L.
    destruct (recv_unext post s c2 s2F R L) as (s2C & RC & ->). rewrite RC, Ec. change (rs_cur (ext post s2C)) with (rs_cur s2C) in Ez.
    rewrite Ez. eexists. split; [reflexivity|reflexivity]. }
  intros H L. pose proof (close_next_len _ _ _ _ H) as L'.
  destruct (recv_unext post s c2 s2F R ltac:(lia)) as (s2C & RC & ->). rewrite RC, Ec.
  change (rs_cur (ext post s2C)) with (rs_cur s2C) in Ez. rewrite Ez.
  assert (c2 = 0) by lia. subst c2. pose proof (recv_in_len _ _ RC) as Ln.
  apply (IH s2C fuelF); [lia| |exact H|exact L]. change (rs_in (ext post s2C)) with (rs_in s2C ++ post) in *. rewrite app_length in *. lia.
Qed.

Lemma close_unext post s c sF : r_close (ext post s) = Some (c, sF) -> (length post <= length (rs_in sF))%nat ->
  exists sC, r_close s = Some (c, sC) /\ sF = ext post sC.
Proof.
  unfold r_close. change (rs_err (ext post s)) with (rs_err s). change (rs_state (ext post s)) with (rs_state s).
  change (rs_cur (ext post s)) with (rs_cur s). change (rs_rem (ext post s)) with (rs_rem s).
  change (rs_more (ext post s)) with (rs_more s).
  destruct (negb (rs_err s =? 0)); [intros H _; injection H as <- <-; eauto|].
  destruct (negb (is_reading (rs_state s))); [intros H _; injection H as <- <-; eexists; split; [reflexivity|reflexivity]|].
  destruct (zlen (rs_cur s) >? 0); [intros H _; injection H as <- <-; eexists; split; [reflexivity|reflexivity]|].
  destruct (rs_state s =? c_fragmentingReadInLastArgument).
  - destruct (rs_rem s); [|intros H _; injection H as <- <-; eexists; split; [reflexivity|reflexivity]].
    destruct (rs_more s); intros H _; injection H as <- <-; eexists; (split; [reflexivity|reflexivity]).
  - change (rs_in (ext post s)) with (rs_in s ++ post). change (rs_ck (ext post s)) with (rs_ck s).
    change (rs_got (ext post s)) with (rs_got s). change (rs_rel (ext post s)) with (rs_rel s).
    change (rs_fin (ext post s)) with (rs_fin s).
    set (s1 := mkRst c_fragmentingReadWaitingForArgument 0 (rs_rem s) (rs_cur s) (rs_more s) (rs_in s) (rs_ck s)
                     (rs_got s) (rs_rel s) (rs_fin s)).
    change (mkRst c_fragmentingReadWaitingForArgument 0 (rs_rem s) (rs_cur s) (rs_more s) (rs_in s ++ post) (rs_ck s)
                  (rs_got s) (rs_rel s) (rs_fin s)) with (ext post s1).
    apply close_next_unext; [unfold s1; prj; lia|]. change (rs_in (ext post s1)) with (rs_in s1 ++ post). unfold s1; prj. lia.
Qed.

Lemma readall_unext post bufsz : 0 < bufsz -> forall fuelC acc s fuelF bs c sF,
  total_bytes s < Z.of_nat fuelC -> total_bytes (ext post s) < Z.of_nat fuelF ->
  r_readall fuelF bufsz acc (ext post s) = Some (bs, c, sF) -> (length post <= length (rs_in sF))%nat ->
  exists sC, r_readall fuelC bufsz acc s = Some (bs, c, sC) /\ sF = ext post sC.
Proof.
  intros Hb. induction fuelC as [|fuelC IH]; intros acc s fuelF bs c sF HC HF; [pose proof (total_bytes_nonneg s); lia|].
  destruct fuelF as [|fuelF]; [pose proof (total_bytes_nonneg (ext post s)); lia|].
  cbn [r_readall]. destruct (r_read bufsz (ext post s)) as [[[bs1 c1] s1F]|] eqn:R; [|discriminate].
  destruct (c1 =? 0) eqn:Ec.
  - intros H L. destruct (readall_len _ _ _ _ _ _ _ H) as [L' _].
    destruct (read_unext post bufsz s bs1 c1 s1F R ltac:(lia)) as (s1C & RC & ->). rewrite RC, Ec.
    assert (c1 = 0) by lia. subst c1. pose proof (read_consumes bufsz s bs1 s1C ltac:(lia) RC) as T.
    apply (IH (acc ++ bs1) s1C fuelF); [lia| |exact H|exact L]. rewrite total_ext in *. lia.
  - destruct (c1 =? 12) eqn:E12; intros H L; injection H as <- <- <-;
      destruct (read_unext post bufsz s bs1 c1 s1F R L) as (s1C & RC & ->); rewrite RC, Ec, E12;
      eexists; (split; [reflexivity|reflexivity]).
Qed.

Lemma helper_unext post bufsz s bs c sF : 0 < bufsz ->
  r_helper_read bufsz (ext post s) = Some (bs, c, sF) -> (length post <= length (rs_in sF))%nat ->
  exists sC, r_helper_read bufsz s = Some (bs, c, sC) /\ sF = ext post sC.
Proof.
  intros Hb. unfold r_helper_read.
  destruct (r_readall (S (Z.to_nat (total_bytes (ext post s))) + length (rs_in (ext post s)) + 2) bufsz [] (ext post s))
    as [[[bs1 c1] s1F]|] eqn:R; [|discriminate].
  assert (U1 : (length post <= length (rs_in s1F))%nat ->
               exists s1C, r_readall (S (Z.to_nat (total_bytes s)) + length (rs_in s) + 2) bufsz [] s = Some (bs1, c1, s1C) /\ s1F = ext post s1C).
  { intros L1. apply (readall_unext post bufsz Hb (S (Z.to_nat (total_bytes s)) + length (rs_in s) + 2) [] s
             (S (Z.to_nat (total_bytes (ext post s))) + length (rs_in (ext post s)) + 2) bs1 c1 s1F); [| |exact R|exact L1].
    - pose proof (total_bytes_nonneg s). lia.
    - pose proof (total_bytes_nonneg (ext post s)). lia. }
  destruct (negb (c1 =? 0)) eqn:E1.
  { intros H L. injection H as <- <- <-. destruct (U1 L) as (s1C & RC & ->). rewrite RC, E1. eexists. split; [reflexivity|reflexivity]. }
  destruct (r_read 128 s1F) as [[[ex c2] s2F]|] eqn:R2; [|discriminate].
  destruct (read_len _ _ _ _ _ R2) as [L2 _].
  destruct (zlen ex >? 0) eqn:Ez.
  { intros H L. injection H as <- <- <-. destruct (U1 ltac:(lia)) as (s1C & RC & ->). rewrite RC, E1.
    destruct (read_unext post 128 s1C ex c2 s2F R2 L) as (s2C & RC2 & ->). rewrite RC2, Ez. eexists. split; [reflexivity|reflexivity]. }
  destruct (negb (c2 =? 12) && negb (c2 =? 0)) eqn:E2.
  { intros H L. injection H as <- <- <-. destruct (U1 ltac:(lia)) as (s1C & RC & ->). rewrite RC, E1.
    destruct (read_unext post 128 s1C ex c2 s2F R2 L) as (s2C & RC2 & ->). rewrite RC2, Ez, E2. eexists. split; [reflexivity|reflexivity]. }
  destruct (r_close s2F) as [[c3 s3F]|] eqn:R3; [|discriminate]. pose proof (close_len _ _ _ R3) as L3.
  intros H L. injection H as <- <- <-. destruct (U1 ltac:(lia)) as (s1C & RC & ->). rewrite RC, E1.
  destruct (read_unext post 128 s1C ex c2 s2F R2 ltac:(lia)) as (s2C & RC2 & ->). rewrite RC2, Ez, E2.
  destruct (close_unext post s2C c3 s3F R3 L) as (s3C & RC3 & ->). rewrite RC3. eexists. split; [reflexivity|reflexivity].
Qed.

(* ---- on a well-formed, checksum-valid message: whatever its number of arguments, helper
        reads that succeed return its arguments in order (the arity check is Close's) ---- *)
Lemma helper_gen N last bufsz st h t :
  0 < bufsz -> Inv N st h t -> rs_state st = arg_state last ->
  exists cc st', r_helper_read bufsz st = Some (h, cc, st') /\
    ((cc = 0 /\ (if last then t = [] /\ r_final N st'
                 else exists a' t', t = a' :: t' /\ Inv N st' a' t' /\ ready st'))
     \/ (is_err cc /\ rs_err st' = cc)).
Proof.
  intros Hb I Hs.
  assert (Hr : is_reading (rs_state st) = true) by (rewrite Hs; apply is_reading_arg_state).
  unfold r_helper_read.
  destruct (readall_ok N bufsz Hb (S (Z.to_nat (total_bytes st)) + length (rs_in st) + 2) [] st h t I Hr)
    as (st1 & RA & I1 & E1 & Hs1).
  { pose proof (total_bytes_ge _ _ _ _ I). lia. }
  rewrite RA. cbn [app Z.eqb negb].
  assert (Hr1 : is_reading (rs_state st1) = true) by congruence.
  destruct (read_ok N st1 [] t 128 I1 Hr1 ltac:(lia)) as (bs & c & st2 & R & (h2 & Hh & I2 & Hs2 & _ & Hc)).
  rewrite R. symmetry in Hh. apply app_eq_nil in Hh. destruct Hh as [-> ->].
  destruct Hc as [[_ Hz]|(-> & _ & _ & E2)]; [cbn in Hz; lia|].
  change (zlen (@nil Z) >? 0) with false. cbn [Z.eqb negb andb].
  assert (Hr2 : is_reading (rs_state st2) = true) by congruence.
  destruct (close_ok N st2 [] t I2 Hr2) as (cc & st3 & C & P & _).
  rewrite Hs2, Hs1, Hs, arg_state_last in P. rewrite C. exists cc, st3. split; [reflexivity|].
  destruct P as [(P1 & _ & P3)|P]; [left|right; exact P]. split; [exact P1|].
  destruct last.
  - exact P3.
  - destruct P3 as (a' & t' & P4 & P5 & P6 & _). exists a', t'. split; [exact P4|]. split; [exact P5|]. right. exact P6.
Qed.

Lemma init_inv_gen fs ck0 :
  wf fs -> ck_new (first_ctype fs) = Some ck0 -> ck_chain ck0 fs ->
  exists h t, denote (chunks_of fs) = h :: t /\ Inv (zlen fs) (r_init fs) h t /\ ready (r_init fs).
Proof.
  intros [capf [Hne Hfr]] Hck Hchain. rewrite denote_split. eexists _, _. split; [reflexivity|]. split.
  - constructor; unfold r_init; prj.
    + reflexivity.
    + rewrite split_rest. unfold ev_tail. prj. cbn [map app]. unfold evs_in.
      destruct (split_evs (flat_map frag_events (chunks_of fs))); reflexivity.
    + exact (frames_ok_from_fr_ok _ _ _ Hfr).
    + split; [intros _; exact Hne|reflexivity].
    + exists ck0. prj. split; assumption.
    + lia.
  - left. unfold r_init. prj. repeat split; reflexivity.
Qed.

(* what a success of the three helper reads consists of *)
Lemma call_outcome_inv n1 n2 n3 fs args : call_outcome n1 n2 n3 fs = OOk args ->
  exists a1 a2 a3 s0 s1 s1' s2 s2' s3,
    r_begin false (r_init fs) = Some (0, s0) /\ r_helper_read n1 s0 = Some (a1, 0, s1) /\
    r_begin false s1 = Some (0, s1') /\ r_helper_read n2 s1' = Some (a2, 0, s2) /\
    r_begin true s2 = Some (0, s2') /\ r_helper_read n3 s2' = Some (a3, 0, s3) /\ args = [a1; a2; a3].
Proof.
  unfold call_outcome.
  destruct (r_begin false (r_init fs)) as [[cb1 s0]|] eqn:Q1; [|discriminate].
  destruct (negb (cb1 =? 0)) eqn:E1; [discriminate|].
  destruct (r_helper_read n1 s0) as [[[a1 c1] s1]|] eqn:Q2; [|discriminate].
  destruct (negb (c1 =? 0)) eqn:E2; [discriminate|].
  destruct (r_begin false s1) as [[cb2 s1']|] eqn:Q3; [|discriminate].
  destruct (negb (cb2 =? 0)) eqn:E3; [discriminate|].
  destruct (r_helper_read n2 s1') as [[[a2 c2] s2]|] eqn:Q4; [|discriminate].
  destruct (negb (c2 =? 0)) eqn:E4; [discriminate|].
  destruct (r_begin true s2) as [[cb3 s2']|] eqn:Q5; [|discriminate].
  destruct (negb (cb3 =? 0)) eqn:E5; [discriminate|].
  destruct (r_helper_read n3 s2') as [[[a3 c3] s3]|] eqn:Q6; [|discriminate].
  destruct (negb (c3 =? 0)) eqn:E6; [discriminate|].
  intros H; injection H as <-.
  assert (cb1 = 0) by lia. assert (c1 = 0) by lia. assert (cb2 = 0) by lia. assert (c2 = 0) by lia.
  assert (cb3 = 0) by lia. assert (c3 = 0) by lia. subst.
  exists a1, a2, a3, s0, s1, s1', s2, s2', s3. repeat (split; [first [assumption|reflexivity]|]). reflexivity.
Qed.

(* on a well-formed message a success is its denotation *)
Lemma wf_outcome_denote n1 n2 n3 fs ck0 args : 0 < n1 -> 0 < n2 -> 0 < n3 ->
  wf fs -> ck_new (first_ctype fs) = Some ck0 -> ck_chain ck0 fs ->
  call_outcome n1 n2 n3 fs = OOk args -> args = denote (chunks_of fs).
Proof.
  intros H1 H2 H3 Hwf Hck Hch Hout.
  destruct (call_outcome_inv _ _ _ _ _ Hout) as (a1 & a2 & a3 & s0 & s1 & s1' & s2 & s2' & s3 & B1 & R1 & B2 & R2 & B3 & R3 & ->).
  destruct (init_inv_gen fs ck0 Hwf Hck Hch) as (h & t & Hden & I0 & Rd0). rewrite Hden.
  destruct (begin_ok _ _ _ _ false I0 Rd0) as (x0 & B1' & I0' & S0 & _). rewrite B1 in B1'. injection B1' as <-.
  destruct (helper_gen _ false n1 s0 h t H1 I0' S0) as (cc1 & x1 & R1' & P1). rewrite R1 in R1'. injection R1' as <- <- <-.
  destruct P1 as [(_ & a' & t' & -> & I1 & Rd1)|[[E _] _]]; [|congruence].
  destruct (begin_ok _ _ _ _ false I1 Rd1) as (x1' & B2' & I1' & S1 & _). rewrite B2 in B2'. injection B2' as <-.
  destruct (helper_gen _ false n2 s1' a' t' H2 I1' S1) as (cc2 & x2 & R2' & P2). rewrite R2 in R2'. injection R2' as <- <- <-.
  destruct P2 as [(_ & a'' & t'' & -> & I2 & Rd2)|[[E _] _]]; [|congruence].
  destruct (begin_ok _ _ _ _ true I2 Rd2) as (x2' & B3' & I2' & S2 & _). rewrite B3 in B3'. injection B3' as <-.
  destruct (helper_gen _ true n3 s2' a'' t'' H3 I2' S2) as (cc3 & x3 & R3' & P3). rewrite R3 in R3'. injection R3' as <- <- <-.
  destruct P3 as [(_ & -> & _)|[[E _] _]]; [|congruence]. reflexivity.
Qed.

(* SUCCESS ON HOSTILE INPUT.  For ANY fragment list that passed the parser: if the caller's
   three helper reads all succeed, then the fragments split into a consumed part [pre] and an
   untouched rest, [pre] is a well-formed message (every fragment has a chunk, more-flags
   exactly on all but the last) each of whose checksums verified, and the three arguments
   returned are exactly the arguments [pre] denotes by the protocol document.  No other
   success exists. *)
Theorem hostile_success_denote : forall n1 n2 n3 fs args, 0 < n1 -> 0 < n2 -> 0 < n3 ->
  Forall frag_parsed fs -> call_outcome n1 n2 n3 fs = OOk args ->
  exists pre post c0, fs = pre ++ post /\ wf pre /\ ck_new (first_ctype pre) = Some c0 /\ ck_chain c0 pre /\
    f_more (last pre dfrag) = false /\ args = denote (chunks_of pre).
Proof.
  intros n1 n2 n3 fs args H1 H2 H3 Hp Hout.
  destruct (call_outcome_inv _ _ _ _ _ Hout) as (a1 & a2 & a3 & s0 & s1 & s1' & s2 & s2' & s3 & B1 & R1 & B2 & R2 & B3 & R3 & Ea).
  (* the invariant along the run; the final state is Complete *)
  pose proof (begin_J fs _ _ _ _ Hp (J_init fs) B1) as J0. pose proof (helper_J fs _ _ _ _ _ Hp J0 R1) as J1.
  pose proof (begin_J fs _ _ _ _ Hp J1 B2) as J1'. pose proof (helper_J fs _ _ _ _ _ Hp J1' R2) as J2.
  pose proof (begin_J fs _ _ _ _ Hp J2 B3) as J2'. pose proof (helper_J fs _ _ _ _ _ Hp J2' R3) as J3.
  assert (S2' : rs_state s2' = c_fragmentingReadInLastArgument).
  { pose proof (hs_init fs Hp) as Hs.
    assert (Hc : ck_safe s2).
    { destruct (step_H (RBegin false) _ I Hs) as (? & ? & ? & Q0 & Hs0 & _). cbn [r_step] in Q0. rewrite B1 in Q0. injection Q0 as _ _ <-.
      destruct (step_H (RHelper n1) _ H1 Hs0) as (? & ? & ? & Q1 & Hs1 & _). cbn [r_step] in Q1. rewrite R1 in Q1. injection Q1 as _ _ <-.
      destruct (step_H (RBegin false) _ I Hs1) as (? & ? & ? & Q2 & Hs2 & _). cbn [r_step] in Q2. rewrite B2 in Q2. injection Q2 as _ _ <-.
      destruct (step_H (RHelper n2) _ H2 Hs2) as (? & ? & ? & Q3 & Hs3 & _). cbn [r_step] in Q3. rewrite R2 in Q3. injection Q3 as _ _ <-.
      exact (proj1 Hs3). }
    destruct (begin_H true s2 Hc) as (c & st' & Q & _ & _ & _ & Pe & P0). rewrite B3 in Q. injection Q as <- <-.
    destruct (Z.eq_dec (rs_err s2) 0) as [He|He]; [|destruct (Pe He) as [E _]; congruence].
    destruct (P0 He) as [(_ & _ & S)|(E & _)]; [exact S|congruence]. }
  pose proof (helper_last_complete _ _ _ _ R3 S2') as S3.
  destruct (J_complete fs s3 J3 S3) as (pre & A & _ & Hwf & (c0 & N0 & Ch) & Hl).
  set (post := rs_in s3) in *.
  exists pre, post, c0. split; [exact A|]. split; [exact Hwf|]. split; [exact N0|]. split; [exact Ch|]. split; [exact Hl|].
  (* the same run on [pre] alone *)
  pose proof (helper_len _ _ _ _ _ R3) as L3. pose proof (begin_len _ _ _ _ B3) as L2'.
  pose proof (helper_len _ _ _ _ _ R2) as L2. pose proof (begin_len _ _ _ _ B2) as L1'.
  pose proof (helper_len _ _ _ _ _ R1) as L1. fold post in L3.
  assert (E0 : r_init fs = ext post (r_init pre)) by (rewrite A; reflexivity).
  rewrite E0 in B1.
  destruct (begin_unext post false _ _ _ B1 ltac:(lia)) as (c0' & B1C & ->).
  destruct (helper_unext post n1 _ _ _ _ H1 R1 ltac:(lia)) as (c1' & R1C & ->).
  destruct (begin_unext post false _ _ _ B2 ltac:(lia)) as (c1'' & B2C & ->).
  destruct (helper_unext post n2 _ _ _ _ H2 R2 ltac:(lia)) as (c2' & R2C & ->).
  destruct (begin_unext post true _ _ _ B3 ltac:(lia)) as (c2'' & B3C & ->).
  destruct (helper_unext post n3 _ _ _ _ H3 R3 ltac:(unfold post; lia)) as (c3' & R3C & E3).
  assert (OutC : call_outcome n1 n2 n3 pre = OOk args).
  { unfold call_outcome. rewrite B1C. cbn [Z.eqb negb]. rewrite R1C. cbn [Z.eqb negb]. rewrite B2C. cbn [Z.eqb negb].
    rewrite R2C. cbn [Z.eqb negb]. rewrite B3C. cbn [Z.eqb negb]. rewrite R3C. cbn [Z.eqb negb]. rewrite Ea. reflexivity. }
  exact (wf_outcome_denote n1 n2 n3 pre c0 args H1 H2 H3 Hwf N0 Ch OutC).
Qed.

(* ... and for arbitrary peer bytes: the only successes of the receiving side of a call are the
   denotations of checksum-verified well-formed messages found in the stream *)
Theorem hostile_stream_success : forall id mt0 mtc n1 n2 n3 stream args, 0 < n1 -> 0 < n2 -> 0 < n3 ->
  bytes_ok stream = true -> recv_outcome id mt0 mtc n1 n2 n3 stream = OOk args ->
  exists pre post c0, delivered id mt0 mtc stream = pre ++ post /\ wf pre /\ ck_new (first_ctype pre) = Some c0 /\
    ck_chain c0 pre /\ f_more (last pre dfrag) = false /\ args = denote (chunks_of pre).
Proof.
  intros id mt0 mtc n1 n2 n3 stream args H1 H2 H3 Hb Hout. rewrite recv_outcome_delivered in Hout.
  exact (hostile_success_denote n1 n2 n3 _ args H1 H2 H3 (delivered_parsed id mt0 mtc stream Hb) Hout).
Qed.
