(* C10, strengthening V10 (part A): the relayTimer protocol of relay_timer_pool.go.

   (1) gen_*_tie: the functions regenerated from the Go source (Gen/GenC10Timer.v: Stop, OnTimer,
       Release, Start, pool Get, verifyNotReleased, markTimerInactive) compute, for ALL values of the
       flags and of the runtime timer's answers, the single-timer steps of Model/C10Timer.v.
   (2) model_*_step: Model/RelayItems.v (timer_stop, timer_release, timer_new, the instruction
       ITimerRun) performs exactly those steps on the timer it looks up.
   (3) The contract of Stop as a theorem about the regenerated code (gen_stop_contract), and its
       consequence for the race the relay decides with it (fired_timer_wins / finishing_frame_swallowed):
       in every reachable state, from the moment the Go runtime has started OnTimer for the timer of a
       live item until the timeout handler has executed its Entomb, a lookup that stops the timer
       answers stopped = false and changes nothing; a frame that finishes the call is then swallowed. *)
From Coq Require Import ZArith List Bool Lia.
From Verif Require Import Base.Wrap Gen.GenConsts Gen.GenFrame Gen.GenC10Timer Model.RelayItems Model.C10Timer
  Proofs.RelayAssocP Proofs.RelayCoreP Proofs.RelayInv9P Proofs.RelayTimerP.
Import ListNotations.
Local Open Scope Z_scope.

Definition flags_of (t : timer) : bool * bool * bool := (tm_active t, tm_stopped t, tm_released t).

(* the generated functions applied to a timer record; the pending bit of the runtime timer is
   what rt.timer.Stop() / rt.timer.Reset(d) return *)
Definition gen_stop (t : timer) :=
  c10TimerStop (tm_active t) (tm_stopped t) (tm_released t) (key_id (tm_key t)) (tm_orig t) (tm_armed t).
Definition gen_ontimer (t : timer) :=
  c10TimerOnTimer (tm_active t) (tm_stopped t) (tm_released t) (key_id (tm_key t)) (tm_orig t).
Definition gen_release (t : timer) :=
  c10TimerRelease (tm_active t) (tm_stopped t) (tm_released t) (key_id (tm_key t)) (tm_orig t).
Definition gen_start (t : timer) (recycled : bool) (k : key) (orig : bool) :=
  c10TimerStart (tm_active t) (tm_stopped t)
    (if recycled then c10TimerPoolGet (tm_released t) true else tm_released t)
    (key_id (tm_key t)) (tm_orig t) (key_id k) orig (tm_armed t).

(* ---------------------------------------------------------------- (1) generated = hand model *)

Lemma gen_verify_tie : forall r, c10TimerVerifyNotReleased r = if r then None else Some tt.
Proof. intro r. reflexivity. Qed.

Lemma gen_mark_inactive_tie : forall a id o, c10TimerMarkInactive a id o = (false, 0, false).
Proof. intros a id o. reflexivity. Qed.

Lemma gen_stop_tie : forall t,
  match tstep_stop t with
  | GoPanic c => c = panic_released /\ gen_stop t = None
  | GoOk (t', b) => exists io, gen_stop t = Some (b, (flags_of t', io))
  end.
Proof.
  intros [ar ac sp rl k o]. unfold tstep_stop, gen_stop, c10TimerStop, flags_of. cbn [tm_armed tm_active tm_stopped tm_released tm_key tm_orig].
  destruct rl; cbn; [split; reflexivity|].
  destruct sp; cbn; [eexists; reflexivity|].
  destruct ar; cbn; eexists; reflexivity.
Qed.

Lemma gen_ontimer_tie : forall t,
  match tstep_ontimer t with
  | GoPanic c => c = panic_released /\ gen_ontimer t = None
  | GoOk (t', (k, o)) =>
      exists io, gen_ontimer t = Some ((flags_of t', io), (false, (key_id k, o))) /\ k = tm_key t
  end.
Proof.
  intros [ar ac sp rl k o]. unfold tstep_ontimer, gen_ontimer, c10TimerOnTimer, flags_of. cbn [tm_armed tm_active tm_stopped tm_released tm_key tm_orig].
  destruct rl; cbn; [split; reflexivity|]. eexists. split; reflexivity.
Qed.

Lemma gen_release_tie : forall t,
  match tstep_release t with
  | GoPanic c => gen_release t = None /\
                 (c = panic_released /\ c10TimerVerifyNotReleased (tm_released t) = None \/
                  c = panic_release_active /\ c10TimerVerifyNotReleased (tm_released t) = Some tt)
  | GoOk t' => exists io, gen_release t = Some (flags_of t', io)
  end.
Proof.
  intros [ar ac sp rl k o]. unfold tstep_release, gen_release, c10TimerRelease, flags_of. cbn [tm_armed tm_active tm_stopped tm_released tm_key tm_orig].
  destruct rl; cbn; [split; [reflexivity|left; split; reflexivity]|].
  destruct ac; cbn; [split; [reflexivity|right; split; reflexivity]|]. eexists. reflexivity.
Qed.

Lemma gen_start_tie : forall t recycled k orig,
  match tstep_start t recycled k orig with
  | GoPanic _ => gen_start t recycled k orig = None
  | GoOk t' => gen_start t recycled k orig = Some (flags_of t', (key_id k, orig)) /\ tm_key t' = k /\ tm_orig t' = orig
  end.
Proof.
  intros [ar ac sp rl k0 o0] recycled k orig. unfold tstep_start, gen_start, c10TimerStart, c10TimerPoolGet, flags_of.
  cbn [tm_armed tm_active tm_stopped tm_released tm_key tm_orig].
  destruct recycled; cbn.
  - destruct ac; cbn; [reflexivity|]. destruct ar; cbn; [reflexivity|]. repeat split; reflexivity.
  - destruct rl; cbn; [reflexivity|]. destruct ac; cbn; [reflexivity|]. destruct ar; cbn; [reflexivity|]. repeat split; reflexivity.
Qed.

(* ---------------------------------------------------------------- (2) Model/RelayItems.v = hand model *)

Lemma model_stop_step : forall st tm t, zlookup tm (timers st) = Some t ->
  match tstep_stop t with
  | GoPanic c => timer_stop st tm = (set_panic st c, false)
  | GoOk (t', b) =>
      snd (timer_stop st tm) = b /\
      zlookup tm (timers (fst (timer_stop st tm))) = Some t' /\
      (forall tm', tm' <> tm -> zlookup tm' (timers (fst (timer_stop st tm))) = zlookup tm' (timers st)) /\
      panicked (fst (timer_stop st tm)) = panicked st /\ items (fst (timer_stop st tm)) = items st /\
      threads (fst (timer_stop st tm)) = threads st /\ sent (fst (timer_stop st tm)) = sent st
  end.
Proof.
  intros st tm [ar ac sp rl k o] Hl. unfold tstep_stop, timer_stop. rewrite Hl.
  cbn [tm_armed tm_active tm_stopped tm_released tm_key tm_orig].
  destruct rl; [reflexivity|]. destruct sp.
  - cbn. repeat split; try reflexivity. exact Hl.
  - destruct ar; cbn.
    + repeat split; try reflexivity.
      * apply (lookup_insert_eq Z.eqb zeqb_ok).
      * intros tm' Hne. apply (lookup_insert_neq Z.eqb zeqb_ok). exact Hne.
    + repeat split; try reflexivity. exact Hl.
Qed.

Lemma model_ontimer_step : forall cf st tm t room, zlookup tm (timers st) = Some t ->
  exec cf st (ITimerRun tm) room =
  match tstep_ontimer t with
  | GoPanic c => (set_panic st c, [])
  | GoOk (t', (k, o)) => (set_timers st (zinsert tm t' (timers st)), [IEntomb k (FromTimeout o)])
  end.
Proof.
  intros cf st tm [ar ac sp rl k o] room Hl. cbn [exec]. rewrite Hl. unfold tstep_ontimer, with_flags.
  cbn [tm_armed tm_active tm_stopped tm_released tm_key tm_orig]. destruct rl; reflexivity.
Qed.

Lemma model_release_step : forall st tm t, zlookup tm (timers st) = Some t ->
  timer_release st tm =
  match tstep_release t with
  | GoPanic c => set_panic st c
  | GoOk t' => set_timers st (zinsert tm t' (timers st))
  end.
Proof.
  intros st tm [ar ac sp rl k o] Hl. unfold timer_release, tstep_release, with_flags. rewrite Hl.
  cbn [tm_armed tm_active tm_stopped tm_released tm_key tm_orig]. destruct rl; [reflexivity|]. destruct ac; reflexivity.
Qed.

(* addRelayItem: r.timeouts.Get() + Start.  The model allocates a new timer number for every
   Start; the started record does not depend on whether the Go object is new or recycled
   (whatever its stale stopped flag was). *)
Lemma model_start_step : forall st k orig,
  exists t', tstep_start fresh_timer false k orig = GoOk t' /\
    timer_new st k orig = (set_next_tm (set_timers st (zinsert (next_tm st) t' (timers st))) (next_tm st + 1), next_tm st).
Proof. intros st k orig. eexists. split; reflexivity. Qed.

Lemma start_recycled_same : forall t k orig, tm_active t = false -> tm_armed t = false ->
  tstep_start t true k orig = tstep_start fresh_timer false k orig.
Proof.
  intros [ar ac sp rl k0 o0] k orig Ha Hr. cbn in Ha, Hr. subst. reflexivity.
Qed.

(* ---------------------------------------------------------------- (3) the contract of Stop *)

(* On the regenerated code: Stop panics exactly on a released timer; otherwise it returns true
   iff the timer had been stopped before or THIS call prevented the callback (the runtime timer was
   still pending); a true result leaves the timer stopped and -- when this call stopped it --
   inactive; a false result changes no flag.  In particular a timer whose callback has started
   (pending = false) and that was not stopped before answers false whatever its active flag is. *)
Theorem gen_stop_contract : forall a s r id o pending,
  (r = true -> c10TimerStop a s r id o pending = None) /\
  (r = false -> exists a' s' io,
     c10TimerStop a s r id o pending = Some (s || pending, ((a', s', r), io)) /\
     (s || pending = true -> s' = true) /\
     (s = false -> pending = true -> a' = false) /\
     (s || pending = false -> a' = a /\ s' = s)).
Proof.
  intros a s r id o pending. split; intro Hr; subst r.
  - reflexivity.
  - unfold c10TimerStop. cbn. destruct s; cbn.
    + do 3 eexists. split; [reflexivity|]. repeat split; try reflexivity; intros; discriminate.
    + destruct pending; cbn; do 3 eexists; (split; [reflexivity|]); repeat split; try reflexivity; intros; discriminate.
Qed.

Corollary gen_stop_after_fire : forall a id o, exists fl,
  c10TimerStop a false false id o false = Some (false, fl).
Proof. intros a id o. eexists. reflexivity. Qed.

(* the callback marks the timer inactive BEFORE it hands the call to the timeout handler, and
   hands over the parameters it read before the marking *)
Theorem gen_ontimer_contract : forall a s id o,
  exists io, c10TimerOnTimer a s false id o = Some (((false, s, false), io), (false, (id, o))).
Proof. intros a s id o. eexists. reflexivity. Qed.

(* Start makes every timer -- also a recycled one that was stopped in its previous life -- active
   and NOT stopped; Release refuses an active timer *)
Theorem gen_start_contract : forall s id0 o0 id o,
  c10TimerStart false s (c10TimerPoolGet true true) id0 o0 id o false = Some ((true, false, false), (id, o)) /\
  c10TimerStart false s false id0 o0 id o false = Some ((true, false, false), (id, o)).
Proof. intros. split; reflexivity. Qed.

Theorem gen_release_contract : forall a s r id o,
  c10TimerRelease a s r id o = if r || a then None else Some ((false, s, true), (id, o)).
Proof. intros a s r id o. destruct r, a; reflexivity. Qed.

(* ---- reachable states: the fired timer wins *)

Definition timeout_pending (code : list instr) (tm : Z) (t : key) : Prop :=
  code = [ITimerRun tm] \/ exists o rest, code = IEntomb t (FromTimeout o) :: rest.

Theorem fired_timer_wins : forall cf ls st, run_fresh cf init ls = Some st ->
  forall t it code, lookup key_eqb t (items st) = Some it ->
    In (TT (it_tm it), code) (threads st) -> timeout_pending code (it_tm it) t ->
    items_get st t true = (st, Some (it, false)).
Proof.
  intros cf ls st H t it code Hl Hin Hp. destruct (reach_both _ _ _ H) as [HI HT].
  pose proof (lookup_in key_eqb key_eqb_ok _ _ _ Hl) as Hit.
  destruct (t_item _ HT _ _ Hit) as (x & Hx & Hk & Hrel).
  pose proof (t_code _ HT _ _ Hin) as Hc.
  assert (Hfl : tm_stopped x = false /\ tm_armed x = false).
  { destruct Hp as [-> | (o & rest & ->)]; cbn in Hc.
    - destruct Hc as (_ & _ & _ & y & Hy & Hya & Hyr & _). rewrite Hx in Hy. inversion Hy. subst y.
      split; [|exact Hyr]. destruct (t_phase _ HT _ _ Hx) as (_ & P2 & _).
      destruct (tm_stopped x) eqn:Es; [|reflexivity]. destruct (P2 eq_refl) as [Hna _]. congruence.
    - destruct Hc as (_ & tm' & y & Hth & Hy & _ & _ & Hys & Hyr). inversion Hth. subst tm'.
      rewrite Hx in Hy. inversion Hy. subst y. split; assumption. }
  destruct Hfl as [Hs Ha]. unfold items_get. rewrite Hl. unfold timer_stop. rewrite Hx, Hrel, Hs, Ha. reflexivity.
Qed.

(* a frame that finishes the call and finds stopped = false is swallowed: nothing is enqueued,
   no callback is reported; the reader only finishes its own (destination-side) item *)
Theorem finishing_frame_swallowed : forall cf st r rk it room, fin_of (r_f r) = true ->
  exec cf st (IRcvChk r rk (Some (it, false))) room = (st, after_sent r).
Proof.
  intros cf st r rk it room Hf. cbn [exec]. rewrite Hf. cbn [negb andb]. rewrite orb_true_r. reflexivity.
Qed.

Theorem finishing_frame_swallowed_noncall : forall cf st k f ft own it room, fin_of f = true ->
  exec cf st (INcChk k f ft own (Some (it, false))) room = (st, []).
Proof.
  intros cf st k f ft own it room Hf. cbn [exec]. rewrite Hf. cbn [negb andb]. rewrite orb_true_r. reflexivity.
Qed.

(* non-vacuity: the run "request relayed, the originating timer fires, its callback has marked the
   timer inactive, the destination's final response arrives" reaches a state in which the lookup
   of the originating item answers stopped = false although the timer is no longer active *)
Definition c10t_cf : config := {| cf_maxtombs := 30000; cf_cancel := false |}.
Definition c10t_env : env := {| e_start := 0; e_code := 0; e_dest := 1; e_mode := 0 |}.
Definition c10t_req : frame := {| f_mt := c_messageTypeCallReq; f_id := 7; f_flags := 0; f_code := 0; f_wf := true |}.
Definition c10t_res : frame := {| f_mt := c_messageTypeCallRes; f_id := 1; f_flags := 0; f_code := 0; f_wf := true |}.
Definition c10t_run : list label :=
  [LArrive 0 c10t_req c10t_env] ++ repeat (LStep (TR 0) true) 10 ++
  [LFire 2; LStep (TT 2) true] ++
  [LArrive 1 c10t_res c10t_env] ++ repeat (LStep (TR 1) true) 5.

Definition c10t_rest : list label := repeat (LStep (TR 1) true) 4 ++ repeat (LStep (TT 2) true) 6.
