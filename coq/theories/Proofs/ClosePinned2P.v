(* Model/ClosePinned2.v: [step_p false] is the repaired connection model; [step_p true] (the
   pinned ping test) and the pinned order of InboundCallResponse.SendSystemError refute
   clause (a) of C07 -- accepted calls run to completion and their results are delivered. *)
From Coq Require Import ZArith List Bool Lia.
From Verif Require Import Base.Wrap Gen.GenConsts Model.CloseKernel Model.ConnClose Model.ClosePinned2
  Proofs.CloseKernelP Proofs.ConnCloseP.
Import ListNotations.
Local Open Scope Z_scope.

Lemma tstep_p_false : forall s n p, tstep_p false s n p = tstep s n p.
Proof. intros s n p. destruct p; reflexivity. Qed.

Lemma step_p_false : forall s l, step_p false s l = step s l.
Proof.
  intros s l. destruct l as [k|tid]; [reflexivity|]. cbn [step_p step].
  destruct (nth_error (thr s) tid) as [p|]; [|reflexivity]. rewrite tstep_p_false. reflexivity.
Qed.

Lemma run_p_false : forall ls s, run (step_p false) s ls = run step s ls.
Proof.
  assert (G : forall ls o,
    fold_left (fun o l => match o with Some s' => step_p false s' l | None => None end) ls o =
    fold_left (fun o l => match o with Some s' => step s' l | None => None end) ls o).
  { induction ls as [|l ls IH]; intros o; [reflexivity|]. cbn [fold_left].
    destruct o as [s'|]; [rewrite step_p_false|]; apply IH. }
  intros ls s. unfold run. apply G.
Qed.

Theorem pinned2_false_is_repaired :
  (forall s ls, run (step_p false) s ls = run step s ls) /\
  (forall relay s, Reach (step_p false) (init relay) s <-> Reach step (init relay) s).
Proof.
  split; [intros; apply run_p_false|].
  intros relay s. unfold Reach. split; intros [ls H]; exists ls; [rewrite <- run_p_false|rewrite run_p_false]; exact H.
Qed.

(* (d) pinned ping test.  No connection failure occurs in the schedule (no failer thread): call 5
   is dispatched, Close moves the connection to StartClose and returns, ping req 9 arrives.  On
   the pinned tree the ping ends in protocolError: a Protocol error frame is queued,
   stoppedExchanges is set and the inbound exchange set is shut down under the accepted call 5,
   whose exchange is still registered -- the hypothesis [stopped = false] of C07_drain is
   destroyed by a ping, the accepted call is failed. *)
Theorem ping_drain_pinned_refuted : exists s,
  Reach (step_p true) (init false) s /\
  thr s = [PDone oDispatched 5; PDone oCloseOk 0; PDone oProto 9] /\
  In (5, true) (inb (sh s)) /\ st (sh s) = sSC /\
  stopped (sh s) = true /\ inb_shut (sh s) = true /\ outb_shut (sh s) = true /\
  g_replies (sh s) = [(2%nat, 9, eProtocol)].
Proof.
  destruct (run (step_p true) (init false) (ping_witness 6)) as [s|] eqn:E; [|vm_compute in E; discriminate].
  exists s. split; [exists (ping_witness 6); exact E|].
  vm_compute in E. inversion E; subst s; clear E. cbn. repeat split; auto.
Qed.

(* the same history on the repaired model: the ping is answered, nothing else changes *)
Lemma ping_witness_repaired : exists s,
  run step (init false) (ping_witness 2) = Some s /\
  thr s = [PDone oDispatched 5; PDone oCloseOk 0; PDone oPong 9] /\
  In (5, true) (inb (sh s)) /\ st (sh s) = sSC /\ stopped (sh s) = false /\ inb_shut (sh s) = false /\
  g_replies (sh s) = [].
Proof.
  destruct (run step (init false) (ping_witness 2)) as [s|] eqn:E; [|vm_compute in E; discriminate].
  exists s. split; [reflexivity|].
  vm_compute in E. inversion E; subst s; clear E. cbn. repeat split; auto.
Qed.

(* (e) pinned order of InboundCallResponse.SendSystemError.  Call 5 is dispatched, Close, then the
   handler answers with a system error: the pinned code FIRST shuts the exchange down
   (doneSending -> mex.shutdown -> removeExchange -> checkExchanges: thread 2, run to its end).
   In the state reached the connection is Closed, without any connection failure, and the
   SendSystemError that the pinned code issues next queues nothing, whatever the code: the
   result of the accepted call is never delivered. *)
Theorem error_result_pinned_order_refuted : exists s,
  Reach step (init false) s /\
  thr s = [PDone oDispatched 5; PDone oCloseOk 0; PDone oRemoved 5] /\
  st (sh s) = sCl /\ stopped (sh s) = false /\ g_replies (sh s) = [] /\
  forall n code, send_err (sh s) n 5 code = sh s.
Proof.
  destruct (run step (init false) err_removed_first) as [s|] eqn:E; [|vm_compute in E; discriminate].
  exists s. split; [exists err_removed_first; exact E|].
  vm_compute in E. inversion E; subst s; clear E. cbn [thr sh st stopped g_replies].
  repeat split; auto.
Qed.

(* the repaired order on the same history: exactly one frame (5, Busy=3), then Closed *)
Lemma error_witness_repaired : exists s,
  run step (init false) err_sent_first = Some s /\
  thr s = [PDone oDispatched 5; PDone oCloseOk 0; PDone (oErrBase + 3) 5] /\
  st (sh s) = sCl /\ g_replies (sh s) = [(2%nat, 5, 3)] /\ g_stop_closes (sh s) = 1.
Proof.
  destruct (run step (init false) err_sent_first) as [s|] eqn:E; [|vm_compute in E; discriminate].
  exists s. split; [reflexivity|].
  vm_compute in E. inversion E; subst s; clear E. cbn. repeat split; auto.
Qed.
