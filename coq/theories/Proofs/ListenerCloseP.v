(* Proofs about the listener wrapper (Model/ListenerClose.v). *)
From Coq Require Import ZArith List Bool Lia Arith.
From Verif Require Import Model.CloseKernel Model.ListenerClose Proofs.CloseKernelP.
Import ListNotations.
Local Open Scope Z_scope.

Definition in_accept (p : lpc) : bool := match p with LA2 | LA3 _ | LA4 _ => true | _ => false end.
Definition can_yield (p : lpc) : bool := match p with LA3 true | LA4 true => true | _ => false end.
Definition close_started (p : lpc) : bool := match p with LK2 | LKDone _ => true | _ => false end.
Definition close_returned (p : lpc) : bool := match p with LKDone true => true | _ => false end.

Definition L_inv (s : lsys) : Prop :=
  refs s = Z.of_nat (count_if in_accept (lthr s)) /\
  ((exists n p, nth_error (lthr s) n = Some p /\ close_started p = true) -> lclosed s = true) /\
  ((exists n p, nth_error (lthr s) n = Some p /\ close_returned p = true) ->
   forall n p, nth_error (lthr s) n = Some p -> can_yield p = false).

Lemma ltstep_facts : forall s p ok r c p', ltstep s p ok = Some (r, c, p') ->
  r = refs s + (if in_accept p' then 1 else 0) - (if in_accept p then 1 else 0) /\
  (lclosed s = true -> c = true) /\
  (close_started p' = true -> c = true \/ close_started p = true) /\
  (close_started p = true -> close_started p' = true) /\
  (can_yield p' = true -> (can_yield p = true \/ (p = LA2 /\ lclosed s = false))) /\
  (close_returned p' = true -> close_returned p = true \/ (p = LK2 /\ refs s = 0)).
Proof.
  intros s p ok r c p' Et. destruct p; cbn [ltstep] in Et.
  - inversion Et; subst. cbn. repeat split; auto; try discriminate; lia.
  - inversion Et; subst. cbn [in_accept close_started can_yield close_returned].
    repeat split; auto; try discriminate; try lia;
    destruct (lclosed s); cbn in *; auto; discriminate.
  - destruct (ok && negb began_open) eqn:E; [discriminate|]. inversion Et; subst.
    cbn [in_accept close_started can_yield close_returned]. repeat split; auto; try discriminate; try lia;
    destruct ok, began_open; cbn in *; auto; discriminate.
  - inversion Et; subst. cbn. repeat split; auto; try discriminate; lia.
  - discriminate.
  - destruct (lclosed s) eqn:E; inversion Et; subst; cbn; repeat split; auto; try discriminate; lia.
  - destruct (refs s =? 0) eqn:E; [|discriminate]. inversion Et; subst. apply Z.eqb_eq in E.
    cbn. repeat split; auto; try discriminate; lia.
  - discriminate.
Qed.

Lemma l_reach : forall s, Reach lstep linit s -> L_inv s.
Proof.
  apply reach_ind.
  - split; [reflexivity|]. split; intros [n [p [H _]]]; destruct n; discriminate.
  - intros s l s' _ (I1 & I2 & I3) Hs.
    assert (Hadd : forall p, in_accept p = false -> close_started p = false -> close_returned p = false ->
              can_yield p = false -> L_inv (mkL (refs s) (lclosed s) (lthr s ++ [p]))).
    { intros p H1 H2 H3 H4. unfold L_inv. cbn [refs lclosed lthr]. split; [|split].
      - rewrite count_if_app. unfold count_if at 2. cbn [filter]. rewrite H1. cbn. rewrite I1. lia.
      - intros [n [q [Hn Hq]]]. apply nth_error_snoc in Hn. destruct Hn as [[_ Hn]|[_ ->]]; [|congruence].
        apply I2. exists n, q. auto.
      - intros [n [q [Hn Hq]]] m r Hm. apply nth_error_snoc in Hn. destruct Hn as [[_ Hn]|[_ ->]]; [|congruence].
        apply nth_error_snoc in Hm. destruct Hm as [[_ Hm]|[_ ->]]; [|exact H4].
        eapply I3; eauto. }
    destruct l; cbn [lstep] in Hs.
    + inversion Hs; subst. apply Hadd; reflexivity.
    + inversion Hs; subst. apply Hadd; reflexivity.
    + destruct (nth_error (lthr s) tid) as [p|] eqn:Ep; [|discriminate].
      destruct (ltstep s p ok) as [[[r c] p']|] eqn:Et; [|discriminate].
      inversion Hs; subst s'; clear Hs. unfold L_inv. cbn [refs lclosed lthr].
      pose proof (nth_error_lt _ _ _ Ep) as Hlt.
      pose proof (count_if_upd in_accept (lthr s) tid p p' Ep) as Hc.
      assert (Hother : forall m q, nth_error (upd (lthr s) tid p') m = Some q -> m <> tid -> nth_error (lthr s) m = Some q).
      { intros m q Hm Hne. rewrite nth_error_upd_other in Hm by exact Hne. exact Hm. }
      (* facts about the step *)
      assert (Hstep :
        r = refs s + (if in_accept p' then 1 else 0) - (if in_accept p then 1 else 0) /\
        (lclosed s = true -> c = true) /\
        (close_started p' = true -> c = true \/ close_started p = true) /\
        (close_started p = true -> close_started p' = true) /\
        (can_yield p' = true -> (can_yield p = true \/ (p = LA2 /\ lclosed s = false))) /\
        (close_returned p' = true -> close_returned p = true \/ (p = LK2 /\ refs s = 0))).
      { eapply ltstep_facts; eauto. }
      destruct Hstep as (Hr & Hc1 & Hc2 & Hc3 & Hy & Hret).
      split; [|split].
      * rewrite Hr, I1. destruct (in_accept p), (in_accept p'); lia.
      * intros [n [q [Hn Hq]]]. destruct (Nat.eq_dec n tid) as [->|Hne].
        -- rewrite nth_error_upd_same in Hn by exact Hlt. inversion Hn; subst q.
           destruct (Hc2 Hq) as [H|H]; [exact H|]. apply Hc1. apply I2. exists tid, p. auto.
        -- apply Hc1. apply I2. exists n, q. split; [apply Hother; auto|exact Hq].
      * intros [n [q [Hn Hq]]] m u Hm.
        (* was a Close already returned before this step? *)
        assert (Hcase : (exists n0 q0, nth_error (lthr s) n0 = Some q0 /\ close_returned q0 = true) \/
                        (p = LK2 /\ refs s = 0)).
        { destruct (Nat.eq_dec n tid) as [->|Hne].
          - rewrite nth_error_upd_same in Hn by exact Hlt. inversion Hn; subst q.
            destruct (Hret Hq) as [H|H]; [left; exists tid, p; auto|right; exact H].
          - left. exists n, q. split; [apply Hother; auto|exact Hq]. }
        destruct Hcase as [Hprev|[-> Hz]].
        -- destruct (Nat.eq_dec m tid) as [->|Hne].
           ++ rewrite nth_error_upd_same in Hm by exact Hlt. inversion Hm; subst u.
              destruct (can_yield p') eqn:Ey; [|reflexivity]. exfalso.
              destruct (Hy eq_refl) as [Hyp|[-> Hopen]].
              ** rewrite (I3 Hprev tid p Ep) in Hyp. discriminate.
              ** destruct Hprev as [n0 [q0 [Hn0 Hq0]]].
                 assert (lclosed s = true).
                 { apply I2. exists n0, q0. split; [exact Hn0|]. destruct q0; try discriminate; reflexivity. }
                 congruence.
           ++ eapply I3; eauto.
        -- (* Close returns now: refs = 0, so nobody is inside Accept *)
           destruct (Nat.eq_dec m tid) as [->|Hne].
           ++ rewrite nth_error_upd_same in Hm by exact Hlt. inversion Hm; subst u.
              cbn [ltstep] in Et. rewrite Hz in Et. cbn in Et. inversion Et; subst. reflexivity.
           ++ specialize (Hother m u Hm Hne). destruct (can_yield u) eqn:Ey; [|reflexivity]. exfalso.
              assert (in_accept u = true) by (destruct u as [| |[|]|[|]| | | |]; try discriminate; reflexivity).
              pose proof (count_if_pos in_accept (lthr s) m u Hother H). lia.
Qed.

(* LISTENER.  In every reachable state in which some Close has returned successfully, no Accept
   call is at a point from which it can still return a connection (and the reference count
   equals the number of Accept calls in progress, all of them bound to fail). *)
Theorem listener_no_accept_after_close : forall s, Reach lstep linit s ->
  (exists n, nth_error (lthr s) n = Some (LKDone true)) ->
  (forall n p, nth_error (lthr s) n = Some p -> can_yield p = false) /\
  refs s = Z.of_nat (count_if in_accept (lthr s)).
Proof.
  intros s Hr [n Hn]. destruct (l_reach s Hr) as (I1 & _ & I3). split; [|exact I1].
  apply I3. exists n, (LKDone true). auto.
Qed.
