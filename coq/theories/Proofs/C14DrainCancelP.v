(* C14: the caller's cancel on connections that are not active.  (1) The regenerated decisions
   of the cancel path (Gen/GenC14Cancel.v) depend on the option only, never on the connection or
   channel state; (2) hence the state-carrying system of Model/C14DrainCancel.v projects onto
   Model/Cancel.v for every schedule and every assignment of states; (3) hence the cancel
   reaches the running handler in every connection state. *)
From Coq Require Import ZArith List Bool Lia ZifyBool.
From Verif Require Import Base.Wrap Base.Wire Gen.GenConsts Gen.GenTTL Gen.GenFrame Gen.GenC14Cancel
  Model.Cancel Model.C14DrainCancel Proofs.CancelP Proofs.CancelInvP.
Import ListNotations.
Local Open Scope Z_scope.

(* ---- (1) the generated decisions ---------------------------------------------------------- *)
Lemma c14dc_gen_on_cancel sc cs chs serr tr :
  c14OnCancel sc cs chs serr tr =
  if sc then (if serr then (tr ++ [6]) ++ [7] else tr ++ [6]) else tr.
Proof. unfold c14OnCancel. destruct sc, serr; reflexivity. Qed.

Lemma c14dc_gen_route mt p cs chs : c14RelayCancelRoute mt p cs chs = relayRoute mt p.
Proof. reflexivity. Qed.

Lemma c14dc_gen_route_cancel p cs chs :
  c14RelayCancelRoute c_messageTypeCancel p cs chs = if p then 1 else 0.
Proof. destruct p; reflexivity. Qed.

Lemma c14dc_gen_handle_cancel p cs chs tr :
  c14HandleCancel p cs chs tr =
  ((if p then ((tr ++ [1]) ++ [2]) ++ [3] else tr ++ [1]), true).
Proof. unfold c14HandleCancel. destruct p; reflexivity. Qed.

Lemma c14dc_gen_mexset reg tr : c14MexsetCancel reg tr = if reg then tr ++ [4] else tr.
Proof. unfold c14MexsetCancel. destruct reg; reflexivity. Qed.

Lemma c14dc_gen_mex h tr : c14MexCancel h tr = if h then tr ++ [5] else tr.
Proof. unfold c14MexCancel. destruct h; reflexivity. Qed.

Lemma c14dc_gen_all : forall (opt : bool) (cs chs : Z) (tr : list Z),
  (forall serr, c14OnCancel opt cs chs serr tr =
     if opt then (if serr then (tr ++ [6]) ++ [7] else tr ++ [6]) else tr) /\
  (forall mt, c14RelayCancelRoute mt opt cs chs = relayRoute mt opt) /\
  c14RelayCancelRoute c_messageTypeCancel opt cs chs = (if opt then 1 else 0) /\
  c14HandleCancel opt cs chs tr = ((if opt then ((tr ++ [1]) ++ [2]) ++ [3] else tr ++ [1]), true) /\
  (forall reg, c14MexsetCancel reg tr = if reg then tr ++ [4] else tr) /\
  (forall has, c14MexCancel has tr = if has then tr ++ [5] else tr).
Proof.
  intros opt cs chs tr. split; [intros serr; apply c14dc_gen_on_cancel|].
  split; [intros mt; apply c14dc_gen_route|]. split; [apply c14dc_gen_route_cancel|].
  split; [apply c14dc_gen_handle_cancel|]. split; [intros reg; apply c14dc_gen_mexset|intros h; apply c14dc_gen_mex].
Qed.

(* ---- (2) projection onto Model/Cancel.v ----------------------------------------------------- *)
Lemma c14dc_server_cancel_eq c k s : c14dc_server_cancel c k s = server_cancel c s.
Proof.
  unfold c14dc_server_cancel, server_cancel. destruct (dc_server k) as [cs chs].
  rewrite c14dc_gen_handle_cancel. destruct (srv_prop c); cbn [fst negb app c14dc_has existsb Z.eqb Pos.eqb orb].
  - rewrite c14dc_gen_mexset, c14dc_gen_mex. destruct s; cbn.
    destruct mex_reg; cbn; [destruct (hctx =? 0)|]; reflexivity.
  - reflexivity.
Qed.

Lemma c14dc_hops_forward_eq ps : forall ks, c14dc_hops_forward ps ks = all_true ps.
Proof.
  induction ps as [|p ps IH]; intros ks; [reflexivity|].
  cbn [c14dc_hops_forward]. destruct (hd c14dc_active ks) as [cs chs].
  rewrite c14dc_gen_route_cancel, IH. destruct p; reflexivity.
Qed.

Lemma c14dc_travel_eq c k s : c14dc_travel_cancel c k s = travel_cancel c s.
Proof.
  unfold c14dc_travel_cancel, travel_cancel.
  rewrite c14dc_hops_forward_eq, !c14dc_server_cancel_eq. reflexivity.
Qed.

Lemma c14dc_notify_eq c k s : c14dc_notify_cancel c k s = notify_cancel c s.
Proof.
  unfold c14dc_notify_cancel, notify_cancel. destruct (dc_client k) as [cs chs].
  rewrite c14dc_gen_on_cancel, c14dc_travel_eq.
  destruct (cancel_notified s); [reflexivity|]. destruct (send_cancel c); reflexivity.
Qed.

Lemma c14dc_ctx_err_eq c k s : c14dc_caller_ctx_err c k s = caller_ctx_err c s.
Proof. unfold c14dc_caller_ctx_err, caller_ctx_err. rewrite c14dc_notify_eq. reflexivity. Qed.

Lemma c14dc_base_step_eq c k s l : c14dc_base_step c k s l = step c s l.
Proof.
  destruct l; try reflexivity;
    unfold c14dc_base_step, c14dc_caller_write, step, caller_write; rewrite c14dc_ctx_err_eq; reflexivity.
Qed.

Lemma c14dc_drain_base d who : d_base (c14dc_drain d who) = d_base d.
Proof.
  unfold c14dc_drain. destruct (negb _); [reflexivity|].
  destruct (c14dc_get _ _) as [cs chs]. destruct (negb _); reflexivity.
Qed.

Lemma c14dc_step_base c d l :
  d_base (c14dc_step c d l) = match l with DL bl => step c (d_base d) bl | _ => d_base d end.
Proof.
  destruct l as [bl|who|who cs chs]; cbn [c14dc_step d_base].
  - apply c14dc_base_step_eq.
  - apply c14dc_drain_base.
  - reflexivity.
Qed.

Lemma c14dc_fold_base c ls : forall d,
  d_base (fold_left (c14dc_step c) ls d) = fold_left (step c) (c14dc_erase ls) (d_base d).
Proof.
  induction ls as [|l ls IH]; intros d; [reflexivity|].
  cbn [fold_left]. rewrite IH, c14dc_step_base. destruct l; reflexivity.
Qed.

(* every schedule with graceful Closes and arbitrary state changes of any party behaves, for the
   call, as the schedule without them *)
Lemma c14dc_erasure c ls : d_base (c14dc_run c ls) = run c (c14dc_erase ls).
Proof. unfold c14dc_run, run. rewrite c14dc_fold_base. reflexivity. Qed.

Lemma c14dc_erase_lift ls : c14dc_erase (map DL ls) = ls.
Proof. induction ls as [|l ls IH]; [reflexivity|]. cbn. rewrite IH. reflexivity. Qed.

(* ---- (3) the cancel reaches the handler in every connection state ---------------------- *)
Lemma c14dc_cancel_reaches c ls k l :
  let s := d_base (c14dc_run c ls) in
  all_on c = true ->
  hstarted s = true -> hctx s = 0 -> cctx s = 2 -> conn_failed s = false -> caller_waits s l ->
  mex_reg s = true /\
  hctx (c14dc_base_step c k s l) = 2 /\ cres (c14dc_base_step c k s l) = Some c_ErrCodeCancelled.
Proof.
  cbv zeta. rewrite c14dc_erasure, c14dc_base_step_eq. intros A B C D E F.
  split.
  - destruct (reach_run c (c14dc_erase ls)) as [_ [_ [_ [_ [_ [P6 _]]]]]]. apply (P6 B C).
  - apply cancel_reaches_handler; auto using reach_run.
Qed.

(* the server alone: a cancel frame that arrives for a registered exchange of a running handler
   is counted as honoured and cancels the handler's context, whatever the states *)
Lemma c14dc_server_honours c k s :
  srv_prop c = true -> mex_reg s = true -> hctx s = 0 ->
  hctx (c14dc_server_cancel c k s) = 2 /\ honored (c14dc_server_cancel c k s) = honored s + 1.
Proof.
  intros A B C. rewrite c14dc_server_cancel_eq. unfold server_cancel. rewrite A.
  destruct s; cbn in *. subst. cbn. split; reflexivity.
Qed.

(* what the obligation excludes: a handleCancel that also requires an active connection leaves
   the handler of a draining server running (the reviewers' edit, as a function) *)
Definition c14dc_bad_handle_cancel (p : bool) (cs chs : Z) (tr : list Z) : list Z * bool :=
  let tr := tr ++ [1] in
  if negb p || negb (cs =? c_connectionActive) then (tr, true)
  else ((tr ++ [2]) ++ [3], true).

Lemma c14dc_bad_differs :
  exists p cs chs, fst (c14dc_bad_handle_cancel p cs chs []) <> fst (c14HandleCancel p cs chs []).
Proof. exists true, c_connectionStartClose, c_ChannelStartClose. vm_compute. discriminate. Qed.

(* non-vacuity: the server starts a graceful Close with the call in flight, every relay hop and
   the caller's channel too; the caller cancels and goes on writing *)
Definition c14dc_ex_cfg : cfg := {| send_cancel := true; hops := [true; true]; srv_prop := true |}.
Definition c14dc_ex_ls : list c14dc_label :=
  [DL LBegin; DL LWFrag; DDrain 0; DDrain 2; DDrain 3; DDrain 1; DL LCancel].

Lemma c14dc_example :
  let d := c14dc_run c14dc_ex_cfg c14dc_ex_ls in
  dc_server (d_conns d) = (c_connectionStartClose, c_ChannelStartClose) /\
  dc_hops (d_conns d) = [(c_connectionStartClose, c_ChannelStartClose); (c_connectionStartClose, c_ChannelStartClose)] /\
  dc_client (d_conns d) = (c_connectionInboundClosed, c_ChannelStartClose) /\
  hstarted (d_base d) = true /\ hctx (d_base d) = 0 /\ cctx (d_base d) = 2 /\
  hctx (d_base (c14dc_step c14dc_ex_cfg d (DL LWFrag))) = 2.
Proof. vm_compute. repeat split; reflexivity. Qed.
