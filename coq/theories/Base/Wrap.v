(* Shared base: fixed-width integer wraps, byte strings as [list Z], Go error abstraction. *)
From Coq Require Import ZArith List Bool Lia.
Import ListNotations.
Local Open Scope Z_scope.

Definition wrapU (bits : Z) (x : Z) : Z := x mod 2 ^ bits.
Definition wrapS (bits : Z) (x : Z) : Z :=
  (x + 2 ^ (bits - 1)) mod 2 ^ bits - 2 ^ (bits - 1).

Lemma wrapU_id bits x : 0 <= bits -> 0 <= x < 2 ^ bits -> wrapU bits x = x.
Proof. intros Hb H; unfold wrapU; apply Z.mod_small; exact H. Qed.

Lemma wrapU_range bits x : 0 <= bits -> 0 <= wrapU bits x < 2 ^ bits.
Proof. intros Hb; unfold wrapU; apply Z.mod_pos_bound; apply Z.pow_pos_nonneg; lia. Qed.

Lemma wrapS_id bits x : 0 < bits ->
  - 2 ^ (bits - 1) <= x < 2 ^ (bits - 1) -> wrapS bits x = x.
Proof.
  intros Hb H; unfold wrapS.
  assert (E : 2 ^ bits = 2 * 2 ^ (bits - 1)).
  { replace bits with (Z.succ (bits - 1)) at 1 by lia. rewrite Z.pow_succ_r by lia. reflexivity. }
  rewrite Z.mod_small; lia.
Qed.

(* byte strings *)
Definition byte_ok (b : Z) : bool := (0 <=? b) && (b <? 256).
Definition bytes_ok (l : list Z) : bool := forallb byte_ok l.

Fixpoint bytes_eqb (a b : list Z) : bool :=
  match a, b with
  | [], [] => true
  | x :: a', y :: b' => (x =? y) && bytes_eqb a' b'
  | _, _ => false
  end.

Lemma bytes_eqb_eq a b : bytes_eqb a b = true <-> a = b.
Proof.
  revert b; induction a as [|x a IH]; intros [|y b]; simpl; split; intros H;
    try reflexivity; try discriminate.
  - apply andb_true_iff in H as [H1 H2]. apply Z.eqb_eq in H1. apply IH in H2. congruence.
  - inversion H; subst. rewrite Z.eqb_refl. simpl. apply IH. reflexivity.
Qed.

Definition zlen {A} (l : list A) : Z := Z.of_nat (length l).

(* What the retry / error-mapping code can observe of a Go [error] value:
   nil?, a tchannel SystemError (with its code)?, a net.Error? *)
Record goerr := { e_nil : bool; e_sys : bool; e_code : Z; e_net : bool }.
