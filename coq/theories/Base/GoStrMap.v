(* Go maps with string keys and string values (map[string]string) as used by the translated
   header-map code (go2v/tracetargets.go): an association list kept in canonical form (sorted by
   key, bytewise; distinct keys), the representation Model/HdrSlot.v uses for header maps.
   nil and the empty map are both [].  Strings are byte lists. *)
From Coq Require Import ZArith List Bool.
From Verif Require Import Base.Wrap Base.Wire.
Import ListNotations.
Local Open Scope Z_scope.

Definition smap := list (list Z * list Z).

(* v, ok := m[k] *)
Fixpoint hm_get (m : smap) (k : list Z) : list Z * bool :=
  match m with
  | [] => ([], false)
  | (k', v) :: r => if bytes_eqb k k' then (v, true) else hm_get r k
  end.
(* _, ok := m[k] *)
Definition hm_mem (m : smap) (k : list Z) : bool := snd (hm_get m k).
(* m[k] = v *)
Definition hm_set (m : smap) (k v : list Z) : smap := map_insert k v m.
(* delete(m, k) *)
Definition hm_del (m : smap) (k : list Z) : smap := filter (fun kv => negb (bytes_eqb k (fst kv))) m.

(* strings.HasPrefix(s, p) *)
Fixpoint str_has_prefix (s p : list Z) : bool :=
  match p, s with
  | [], _ => true
  | _ :: _, [] => false
  | y :: p', x :: s' => (x =? y) && str_has_prefix s' p'
  end.
(* s[n:]; None = the slice expression panics (n outside 0..len s) *)
Definition str_from (s : list Z) (n : Z) : option (list Z) :=
  if (n <? 0) || (zlen s <? n) then None else Some (skipn (Z.to_nat n) s).
