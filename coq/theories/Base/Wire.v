(* Decoding of the harness line encoding: a case is a flat [list Z]; byte strings and
   lists are length-prefixed.  Used only by the [run_*] entry points of the models. *)
From Coq Require Import ZArith List Bool.
Import ListNotations.
Local Open Scope Z_scope.

Definition zb (b : bool) : Z := if b then 1 else 0.
Definition bz (z : Z) : bool := negb (z =? 0).

Definition take1 (l : list Z) : Z * list Z :=
  match l with [] => (0, []) | x :: r => (x, r) end.

(* length-prefixed byte string *)
Definition take_bytes (l : list Z) : list Z * list Z :=
  let '(n, r) := take1 l in
  (firstn (Z.to_nat n) r, skipn (Z.to_nat n) r).

(* count-prefixed list of items, each parsed by [f] *)
Fixpoint take_n {A} (f : list Z -> A * list Z) (n : nat) (l : list Z) : list A * list Z :=
  match n with
  | O => ([], l)
  | S n' => let '(a, r) := f l in
            let '(as_, r') := take_n f n' r in (a :: as_, r')
  end.

Definition take_list {A} (f : list Z -> A * list Z) (l : list Z) : list A * list Z :=
  let '(n, r) := take1 l in take_n f (Z.to_nat n) r.

Definition put_bytes (b : list Z) : list Z := Z.of_nat (length b) :: b.
Definition put_list {A} (f : A -> list Z) (l : list A) : list Z :=
  Z.of_nat (length l) :: flat_map f l.

(* canonical form of a set of byte strings: sorted (bytewise), without duplicates *)
Fixpoint bytes_cmp (a b : list Z) : comparison :=
  match a, b with
  | [], [] => Eq
  | [], _ => Lt
  | _, [] => Gt
  | x :: a', y :: b' => match x ?= y with Eq => bytes_cmp a' b' | c => c end
  end.

Fixpoint set_insert (x : list Z) (l : list (list Z)) : list (list Z) :=
  match l with
  | [] => [x]
  | y :: r => match bytes_cmp x y with
              | Lt => x :: l
              | Eq => l
              | Gt => y :: set_insert x r
              end
  end.

Definition canon_set (l : list (list Z)) : list (list Z) := fold_right set_insert [] l.

(* canonical form of a decoded map: sorted by key, the last binding of a key wins *)
Fixpoint map_insert (k v : list Z) (l : list (list Z * list Z)) : list (list Z * list Z) :=
  match l with
  | [] => [(k, v)]
  | (k', v') :: r => match bytes_cmp k k' with
                     | Lt => (k, v) :: l
                     | Eq => (k, v) :: r
                     | Gt => (k', v') :: map_insert k v r
                     end
  end.
Definition canon_map (l : list (list Z * list Z)) : list (list Z * list Z) :=
  fold_left (fun acc kv => map_insert (fst kv) (snd kv) acc) l [].

Definition take_kv (l : list Z) : (list Z * list Z) * list Z :=
  let '(k, r) := take_bytes l in let '(v, r') := take_bytes r in ((k, v), r').
Definition put_kv (kv : list Z * list Z) : list Z := put_bytes (fst kv) ++ put_bytes (snd kv).
