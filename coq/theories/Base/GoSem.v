(* Semantics of the Go constructs that the method translator of go2v (go2v/methods.go) maps
   generated code to.  Hand-written, part of the translator's trusted base: each definition
   states what ONE Go construct does, with Go's run-time panics as [None].

   Representation of Go values in generated code:
     integers, bytes        Z            (fixed-width arithmetic explicit: wrapU / wrapS)
     bool                   bool
     string, [N]byte        list Z       (never nil)
     []byte (a value)       bslice  = option (list Z)     None = the nil slice
     []byte aliasing the receiver's backing array ("reference slice", e.g. WriteBuffer.remaining,
       typed.ByteRef ...)    rslice  = option sref         None = nil; sref = offset, length
       together with the backing array itself (the struct's memory field, a bslice)
     error                  Z            0 = nil, one distinct positive code per error variable
     map[K]V                list (K * V) entries in iteration order (range, len), or the log of
                                         insertions (m[k] = v); never both in one function
     struct                 a generated Record
   Capacity is abstracted: cap(s) = len(s), i.e. s[a:b] with b > len(s) is a panic here even
   where Go would allow it up to cap(s) (conservative: the translated code never relies on it). *)
From Coq Require Import ZArith List Bool Lia.
From Verif Require Import Base.Wrap Base.Bytes.
Import ListNotations.
Local Open Scope Z_scope.
Local Open Scope bool_scope.

(* ---------------- []byte values ---------------- *)
Definition bslice := option (list Z).
Definition bs_list (s : bslice) : list Z := match s with Some l => l | None => [] end.
Definition bs_len (s : bslice) : Z := zlen (bs_list s).
Definition bs_isnil (s : bslice) : bool := match s with None => true | Some _ => false end.
(* s[lo:hi] *)
Definition bs_slice (s : bslice) (lo hi : Z) : option bslice :=
  if (lo <? 0) || (hi <? lo) || (bs_len s <? hi) then None
  else Some (match s with
             | None => None
             | Some l => Some (firstn (Z.to_nat (hi - lo)) (skipn (Z.to_nat lo) l))
             end).
(* s[i] *)
Definition bs_index (s : bslice) (i : Z) : option Z :=
  if (i <? 0) || (bs_len s <=? i) then None else Some (nth (Z.to_nat i) (bs_list s) 0).
(* the same on strings / arrays (list Z) *)
Definition str_slice (l : list Z) (lo hi : Z) : option (list Z) :=
  if (lo <? 0) || (hi <? lo) || (zlen l <? hi) then None
  else Some (firstn (Z.to_nat (hi - lo)) (skipn (Z.to_nat lo) l)).
Definition str_index (l : list Z) (i : Z) : option Z :=
  if (i <? 0) || (zlen l <=? i) then None else Some (nth (Z.to_nat i) l 0).

(* binary.BigEndian.Uint16/32/64(b): index b[n-1] first (panic when short), then the first n bytes *)
Definition be_get (n : nat) (b : bslice) : option Z :=
  if bs_len b <? Z.of_nat n then None else Some (unbe (firstn n (bs_list b))).

(* ---------------- reference slices into one backing array ---------------- *)
Record sref := mkSref { sr_off : Z; sr_len : Z }.
Definition rslice := option sref.
Definition rs_len (r : rslice) : Z := match r with Some s => sr_len s | None => 0 end.
Definition rs_isnil (r : rslice) : bool := match r with None => true | Some _ => false end.
Definition rs_slice (r : rslice) (lo hi : Z) : option rslice :=
  if (lo <? 0) || (hi <? lo) || (rs_len r <? hi) then None
  else Some (match r with
             | None => None
             | Some s => Some (mkSref (sr_off s + lo) (hi - lo))
             end).
(* the slice that IS the backing array (w.remaining = w.buffer) *)
Definition rs_whole (m : bslice) : rslice :=
  match m with None => None | Some l => Some (mkSref 0 (zlen l)) end.

(* overwrite |bs| bytes of l from offset off on *)
Definition splice (l : list Z) (off : Z) (bs : list Z) : list Z :=
  firstn (Z.to_nat off) l ++ bs ++ skipn (Z.to_nat off + length bs) l.

(* r[i] = v *)
Definition mem_set (m : bslice) (r : rslice) (i v : Z) : option bslice :=
  if (i <? 0) || (rs_len r <=? i) then None
  else match r, m with
       | Some s, Some l => Some (Some (splice l (sr_off s + i) [v]))
       | _, _ => None
       end.
(* r[i] *)
Definition mem_get (m : bslice) (r : rslice) (i : Z) : option Z :=
  if (i <? 0) || (rs_len r <=? i) then None
  else match r, m with
       | Some s, Some l => Some (nth (Z.to_nat (sr_off s + i)) l 0)
       | _, _ => None
       end.
(* copy(r, src): min(len r, len src) bytes; never panics *)
Definition mem_copy (m : bslice) (r : rslice) (src : list Z) : bslice :=
  match r, m with
  | Some s, Some l => Some (splice l (sr_off s) (firstn (Z.to_nat (Z.min (sr_len s) (zlen src))) src))
  | _, _ => m
  end.
(* binary.BigEndian.PutUint16/32/64(r, v): r[n-1] is indexed first (panic when short) *)
Definition mem_put (m : bslice) (r : rslice) (n : nat) (v : Z) : option bslice :=
  if rs_len r <? Z.of_nat n then None
  else match r, m with
       | Some s, Some l => Some (Some (splice l (sr_off s) (be n v)))
       | _, _ => None
       end.
(* for i := range r { r[i] = v } *)
Definition mem_fill (m : bslice) (r : rslice) (v : Z) : bslice :=
  match r, m with
  | Some s, Some l => Some (splice l (sr_off s) (repeat v (Z.to_nat (sr_len s))))
  | _, _ => m
  end.

(* ---------------- loops ---------------- *)
(* for i := 0; i < n; i++ { st = body i st }   (body may panic; i is not assigned in the body) *)
Fixpoint go_for_nat {St : Type} (k : nat) (i : Z) (body : Z -> St -> option St) (st : St) : option St :=
  match k with
  | O => Some st
  | S k' => match body i st with None => None | Some st' => go_for_nat k' (i + 1) body st' end
  end.
Definition go_for {St : Type} (n : Z) (body : Z -> St -> option St) (st : St) : option St :=
  go_for_nat (Z.to_nat n) 0 body st.
(* for k, v := range m { st = body k v st }   over the entries in iteration order *)
Fixpoint go_range {K V St : Type} (m : list (K * V)) (body : K -> V -> St -> option St) (st : St) : option St :=
  match m with
  | [] => Some st
  | (k, v) :: r => match body k v st with None => None | Some st' => go_range r body st' end
  end.

(* ---------------- in-place write through a fresh slice of a []byte held by value ----------------
   binary.BigEndian.PutUint16/32/64(s[lo:hi], v) where s is a []byte FIELD: the slice expression
   s[lo:hi] shares s's array, so the n bytes land in s at offset lo.  Panics: the slice expression
   (bounds) or PutUintN's index of element n-1 of a slice shorter than n.  Result: the new s. *)
Definition bs_put (s : bslice) (lo hi : Z) (n : nat) (v : Z) : option bslice :=
  match bs_slice s lo hi with
  | None => None
  | Some _ =>
      if hi - lo <? Z.of_nat n then None
      else match s with
           | None => None
           | Some l => Some (Some (splice l lo (be n v)))
           end
  end.
