(* Semantics of further Go constructs that the method translator of go2v (go2v/methods.go)
   maps generated code to (continuation of Base/GoSem.v; same status: hand-written, part of the
   translator's trusted base, one definition per Go construct, Go's run-time panics = [None]).

   Additional value representations:
     map[string]struct{}     sset = option (list (list Z))    None = the nil map; Some l = a
                             non-nil map holding exactly the strings of l, each once, in the
                             order of their first insertion (the order is not observable in Go;
                             generated code only tests membership / nil-ness and inserts)
     struct{}                unit
     []*T, []T (T a struct with a generated Record)   list T   (nil and empty are not
                             distinguished: generated code only takes len and ranges over it)
   Locks: Lock / Unlock / RLock / RUnlock of sync.Mutex / sync.RWMutex are dropped by the
   translator (the generated functions are the sequential meaning of the code: what one call
   computes from the state it reads while holding the lock). *)
From Coq Require Import ZArith List Bool Lia.
From Verif Require Import Base.Wrap Base.Bytes.
Import ListNotations.
Local Open Scope Z_scope.
Local Open Scope bool_scope.

(* ---------------- map[string]struct{} ---------------- *)
Definition sset := option (list (list Z)).
(* m == nil *)
Definition sset_isnil (m : sset) : bool := match m with None => true | Some _ => false end.
(* the strings held (a nil map holds none) *)
Definition sset_elems (m : sset) : list (list Z) := match m with None => [] | Some l => l end.
(* _, ok := m[k]   (reading a nil map is allowed) *)
Definition sset_mem (m : sset) (k : list Z) : bool := existsb (bytes_eqb k) (sset_elems m).
(* m[k] = struct{}{}   (assignment to an entry of a nil map panics) *)
Definition sset_add (m : sset) (k : list Z) : option sset :=
  match m with
  | None => None
  | Some l => Some (Some (if existsb (bytes_eqb k) l then l else l ++ [k]))
  end.
(* map[string]struct{}{k1: {}, k2: {}, ...}: the keys inserted from left to right *)
Fixpoint sset_lit_from (l : list (list Z)) (ks : list (list Z)) : list (list Z) :=
  match ks with
  | [] => l
  | k :: r => sset_lit_from (if existsb (bytes_eqb k) l then l else l ++ [k]) r
  end.
Definition sset_lit (ks : list (list Z)) : sset := Some (sset_lit_from [] ks).
(* len(m) *)
Definition sset_len (m : sset) : Z := zlen (sset_elems m).

(* ---------------- loops with an early return ---------------- *)
(* for i := 0; i < n; i++ { ... return r ... }: the body yields inl st (next iteration) or
   inr r (the function returns r) *)
Fixpoint go_for_ret_nat {St R : Type} (k : nat) (i : Z) (body : Z -> St -> option (St + R)) (st : St)
  : option (St + R) :=
  match k with
  | O => Some (inl st)
  | S k' =>
      match body i st with
      | None => None
      | Some (inr r) => Some (inr r)
      | Some (inl st') => go_for_ret_nat k' (i + 1) body st'
      end
  end.
Definition go_for_ret {St R : Type} (n : Z) (body : Z -> St -> option (St + R)) (st : St) : option (St + R) :=
  go_for_ret_nat (Z.to_nat n) 0 body st.

(* ---------------- range over a slice of structs ---------------- *)
(* for _, x := range l { st = body x st } *)
Fixpoint go_range_list {T St : Type} (l : list T) (body : T -> St -> option St) (st : St) : option St :=
  match l with
  | [] => Some st
  | x :: r => match body x st with None => None | Some st' => go_range_list r body st' end
  end.
(* for i, x := range l { st = body i x st } *)
Fixpoint go_range_listi {T St : Type} (i : Z) (l : list T) (body : Z -> T -> St -> option St) (st : St) : option St :=
  match l with
  | [] => Some st
  | x :: r => match body i x st with None => None | Some st' => go_range_listi (i + 1) r body st' end
  end.
