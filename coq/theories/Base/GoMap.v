(* Go maps used as state variables by translated functions (go2v/mapext.go).  Keys and values are
   names (integers): host:ports, objects.  A lookup of a missing key gives Go's zero value (0 = nil)
   and found = false. *)
From Coq Require Import ZArith Bool.
Local Open Scope Z_scope.

Definition gmap := Z -> option Z.

Definition gmap_empty : gmap := fun _ => None.

(* v, ok := m[k] *)
Definition gmap_get (m : gmap) (k : Z) : Z * bool :=
  match m k with
  | Some v => (v, true)
  | None => (0, false)
  end.

(* m[k] = v *)
Definition gmap_set (m : gmap) (k v : Z) : gmap := fun x => if x =? k then Some v else m x.

(* delete(m, k) *)
Definition gmap_del (m : gmap) (k : Z) : gmap := fun x => if x =? k then None else m x.

(* a counter field of the object named p changes by d (p.scCount++ / p.scCount--) *)
Definition sc_add (sc : Z -> Z) (p d : Z) : Z -> Z := fun x => if x =? p then sc x + d else sc x.
