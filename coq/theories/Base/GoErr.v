(* Go values the decision-function translator needs beyond integers and booleans:
   - a pointer to a record struct seen as [option] of its current content (nil = None);
     sharing of one struct between several holders is NOT represented (value semantics);
   - the shape of a Go [error] value as the tchannel code can take it apart with type
     assertions: nil, a tchannel SystemError (own code + wrapped error), a value that
     implements net.Error, or any other error (with what its Unwrap() yields, if anything).
   SystemError is a struct type without Timeout()/Temporary()/Unwrap() methods, so the
   four shapes are disjoint. *)
From Coq Require Import ZArith List Bool.
From Verif Require Import Base.Wrap.
Import ListNotations.
Local Open Scope Z_scope.

Definition go_isnil {A : Type} (p : option A) : bool :=
  match p with None => true | Some _ => false end.

Inductive gerr :=
| GNil                                  (* the nil error *)
| GPlain (inner : gerr)                 (* not a SystemError, not a net.Error; Unwrap() = inner (GNil: none) *)
| GNet (timeout : bool)                 (* a value implementing net.Error (not a SystemError) *)
| GSys (code : Z) (wrapped : gerr).     (* SystemError{code, msg, wrapped} *)

(* the value [se] of [se, ok := err.(SystemError)]: the zero SystemError when the assertion fails *)
Record gsys := mk_gsys { gs_code : Z; gs_wrapped : gerr }.

Definition g_is_nil (e : gerr) : bool := match e with GNil => true | _ => false end.
Definition g_is_sys (e : gerr) : bool := match e with GSys _ _ => true | _ => false end.
Definition g_is_net (e : gerr) : bool := match e with GNet _ => true | _ => false end.
Definition g_as_sys (e : gerr) : gsys :=
  match e with GSys c w => mk_gsys c w | _ => mk_gsys 0 GNil end.
(* [ne, ok := err.(net.Error)]: the nil interface when the assertion fails *)
Definition g_as_net (e : gerr) : gerr := match e with GNet _ => e | _ => GNil end.
Definition g_of_sys (s : gsys) : gerr := GSys (gs_code s) (gs_wrapped s).

(* what the older, flat abstraction [goerr] sees of a shape *)
Definition g_abs (e : gerr) : goerr :=
  {| e_nil := g_is_nil e; e_sys := g_is_sys e; e_code := gs_code (g_as_sys e); e_net := g_is_net e |}.
