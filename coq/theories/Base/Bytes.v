(* Big-endian integers over byte lists. *)
From Coq Require Import ZArith List Bool Lia.
From Verif Require Import Base.Wrap.
Import ListNotations.
Local Open Scope Z_scope.

(* n-byte big-endian representation of v (v taken modulo 256^n) *)
Fixpoint be (n : nat) (v : Z) : list Z :=
  match n with
  | O => []
  | S n' => be n' (v / 256) ++ [v mod 256]
  end.

Definition unbe (l : list Z) : Z := fold_left (fun acc b => acc * 256 + b) l 0.

Lemma be_length n v : length (be n v) = n.
Proof. revert v; induction n as [|n IH]; intros v; cbn [be]; [reflexivity|]. rewrite app_length, IH. cbn. lia. Qed.

Lemma be_bytes_ok n v : bytes_ok (be n v) = true.
Proof.
  revert v; induction n as [|n IH]; intros v; cbn [be]; [reflexivity|].
  unfold bytes_ok in *. rewrite forallb_app, IH. cbn. unfold byte_ok.
  pose proof (Z.mod_pos_bound v 256 ltac:(lia)). 
  destruct (0 <=? v mod 256) eqn:A, (v mod 256 <? 256) eqn:B; try reflexivity; lia.
Qed.

Lemma unbe_app l b : unbe (l ++ [b]) = unbe l * 256 + b.
Proof. unfold unbe. rewrite fold_left_app. reflexivity. Qed.

Lemma unbe_be n : forall v, 0 <= v < 256 ^ Z.of_nat n -> unbe (be n v) = v.
Proof.
  induction n as [|n IH]; intros v Hv.
  - cbn in *. lia.
  - cbn [be]. rewrite unbe_app. rewrite IH.
    + pose proof (Z.div_mod v 256 ltac:(lia)). lia.
    + rewrite Nat2Z.inj_succ, Z.pow_succ_r in Hv by lia.
      split; [apply Z.div_pos; lia|]. apply Z.div_lt_upper_bound; lia.
Qed.

Lemma unbe_range l : bytes_ok l = true -> 0 <= unbe l < 256 ^ Z.of_nat (length l).
Proof.
  induction l as [|b l IH] using rev_ind; intros H.
  - cbn. lia.
  - unfold bytes_ok in H. rewrite forallb_app in H. apply andb_true_iff in H as [H1 H2].
    cbn in H2. rewrite andb_true_r in H2. unfold byte_ok in H2. apply andb_true_iff in H2 as [A B].
    apply Z.leb_le in A. apply Z.ltb_lt in B.
    rewrite unbe_app, app_length. cbn [length]. rewrite Nat.add_1_r, Nat2Z.inj_succ, Z.pow_succ_r by lia.
    specialize (IH H1). nia.
Qed.

Lemma be_unbe l : bytes_ok l = true -> be (length l) (unbe l) = l.
Proof.
  induction l as [|b l IH] using rev_ind; intros H; [reflexivity|].
  unfold bytes_ok in H. rewrite forallb_app in H. apply andb_true_iff in H as [H1 H2].
  cbn in H2. rewrite andb_true_r in H2. unfold byte_ok in H2. apply andb_true_iff in H2 as [A B].
  apply Z.leb_le in A. apply Z.ltb_lt in B.
  rewrite app_length. cbn [length]. rewrite Nat.add_1_r. cbn [be]. rewrite unbe_app.
  replace ((unbe l * 256 + b) / 256) with (unbe l).
  2:{ apply Z.div_unique with (r := b); lia. }
  replace ((unbe l * 256 + b) mod 256) with b.
  2:{ apply Z.mod_unique with (q := unbe l); lia. }
  rewrite (IH H1). reflexivity.
Qed.

Lemma be_inj n v w : 0 <= v < 256 ^ Z.of_nat n -> 0 <= w < 256 ^ Z.of_nat n -> be n v = be n w -> v = w.
Proof. intros Hv Hw E. rewrite <- (unbe_be n v Hv), <- (unbe_be n w Hw), E. reflexivity. Qed.

Lemma bytes_ok_app a b : bytes_ok (a ++ b) = bytes_ok a && bytes_ok b.
Proof. apply forallb_app. Qed.

Lemma zlen_app {A} (a b : list A) : zlen (a ++ b) = zlen a + zlen b.
Proof. unfold zlen. rewrite app_length. lia. Qed.

Lemma zlen_nonneg {A} (a : list A) : 0 <= zlen a.
Proof. unfold zlen. lia. Qed.

Lemma zlen_be n v : zlen (be n v) = Z.of_nat n.
Proof. unfold zlen. rewrite be_length. reflexivity. Qed.
