(* Property C16 -- Peer and connection bookkeeping matches the live connections.
   This file contains only statements, each closed by [exact].

   Model: Model/PeerBook.v, an interleaving transition system of ONE channel's bookkeeping
   (channel connection map, Peer objects with inbound/outbound lists and scCount, root peer
   list, child peer lists, status-callback log); one step per lock-protected region of the Go
   code; unbounded numbers of connections, peers, peer lists and goroutines; the rest of the
   world (other channels, sockets, Channel.Close, idle sweep, failures) is the environment
   (labels LNew / LChange at any time).  [run] = the code as repaired (fix: Peer.addConnection
   re-checks the state under the peer lock); [run_gen false] = the code before that repair.
   Spec: Spec/PeerBookSpec.v ([quiescent] = no goroutine inside a bookkeeping function). *)
From Coq Require Import ZArith List Bool Permutation.
From Verif Require Import Gen.GenConsts Model.PeerBook Spec.PeerBookSpec
  Proofs.PeerBookL Proofs.PeerBookP Proofs.PeerBookS Proofs.PeerBookW.
Import ListNotations.
Local Open Scope Z_scope.

(* For EVERY schedule: at a quiescent moment the channel tracks exactly the connections it
   accepted that are not yet Closed, and a connection it refused is not active. *)
Theorem C16_channel_tracks : forall ls s,
  run init ls = Some s -> quiescent s -> channel_tracks s.
Proof. exact channel_tracks_all. Qed.
Print Assumptions C16_channel_tracks.

(* For EVERY schedule and in every reachable state (quiescent or not): the status-callback
   log is, as a multiset of host:ports, exactly the connections gained plus the connections
   lost, and for every Peer object and connection: gains - losses = occurrences in its lists. *)
Theorem C16_callbacks : forall ls s,
  run init ls = Some s -> callbacks_exact s.
Proof. exact callbacks_exact_all. Qed.
Print Assumptions C16_callbacks.

(* For EVERY schedule: at a quiescent moment a peer that is in the root list with no
   connections and no references did not get there by losing a connection (such a peer has
   left the root list); scCount is exactly the number of peer-list entries holding the peer. *)
Theorem C16_peer_gc : forall ls s,
  run init ls = Some s -> quiescent s -> peer_gc s.
Proof. exact peer_gc_all. Qed.
Print Assumptions C16_peer_gc.

(* FULL STATEMENT WANTED (C16_lists_exact):
     forall ls s, run init ls = Some s -> quiescent s ->
       lists_exact s /\ all_listed s /\ refs_rooted s.
   It is FALSE for the code as it is (C16_lists_exact_refuted, C16_refs_rooted_refuted below:
   known finding c16:peer-collected-during-add).  Proved instead, for every schedule in which
   each root-list deletion is SAFE (run_safe: at the moment of delete(peersByHostPort, hp) the
   peer registered under hp is removable and no goroutine holds it between
   RootPeers().GetOrAdd / RootPeerList.Add and its append / addSC): every root peer's
   inbound / outbound lists are, without duplicates, exactly the active connections to that
   host:port (outbound ones also under the dialled host:port), every active connection has
   such a peer, and every peer-list entry refers to the root's peer.
   Missing: the schedules with an unsafe deletion. *)
Theorem C16_lists_exact_partial : forall ls s,
  run_safe init ls = Some s -> quiescent s ->
  lists_exact s /\ all_listed s /\ refs_rooted s.
Proof. exact lists_exact_safe. Qed.
Print Assumptions C16_lists_exact_partial.

(* a safe run is a run of the model *)
Theorem C16_safe_runs_are_runs : forall ls s s',
  run_safe s ls = Some s' -> run_gen true s ls = Some s'.
Proof. exact run_safe_is_run. Qed.
Print Assumptions C16_safe_runs_are_runs.

(* The code as it is: a schedule (a second connection is being added to a peer while the
   peer's only connection closes) ends in a quiescent state where an active, tracked
   connection has no peer in the root list. *)
Theorem C16_lists_exact_refuted :
  exists ls s, run init ls = Some s /\ quiescent s /\ ~ all_listed s.
Proof. exact w1_refutes. Qed.
Print Assumptions C16_lists_exact_refuted.

(* Same window in PeerList.Add (between RootPeerList.Add and addSC): a peer list ends up
   referencing a Peer object that is not in the root list. *)
Theorem C16_refs_rooted_refuted :
  exists ls s, run init ls = Some s /\ quiescent s /\ ~ refs_rooted s.
Proof. exact w2_refutes. Qed.
Print Assumptions C16_refs_rooted_refuted.

(* The code BEFORE the repair of Peer.addConnection (no re-check under the peer lock): on a
   schedule without any unsafe deletion a Closed connection stays in a root peer's list at a
   quiescent state (finding c16:addconn-stale-closed, fixed). *)
Theorem C16_addconn_unrepaired_refuted :
  exists ls s, run_gen false init ls = Some s /\ quiescent s /\ run_safe init ls <> None /\
    exists hp pid c, s_root s hp = Some pid /\ In c (p_in (s_peer s pid)) /\ ~ active s c.
Proof. exact w3_unrepaired_refutes. Qed.
Print Assumptions C16_addconn_unrepaired_refuted.

(* Non-vacuity: a safe run reaching a quiescent state with an outbound connection whose peer
   announced host:port 11 while 21 was dialled (listed under both), one peer-list reference,
   two status callbacks ... *)
Example C16_example_listed :
  exists s, run_safe init ex1 = Some s /\ quiescent s /\
    s_root s 11 = Some 3 /\ p_out (s_peer s 3) = [1] /\
    s_root s 21 = Some 4 /\ p_out (s_peer s 4) = [1] /\ p_sc (s_peer s 4) = 1 /\
    s_inch s 1 = true /\ s_log s = [11; 21].
Proof. exact example_listed. Qed.

(* ... and one where the connection then closes: both peers are collected, four callbacks. *)
Example C16_example_collected :
  exists s, run_safe init ex2 = Some s /\ quiescent s /\
    s_root s 11 = None /\ s_root s 21 = None /\ s_inch s 1 = false /\ s_log s = [11; 21; 11; 21].
Proof. exact example_collected. Qed.

(* ================================================================================================
   Get-or-create under double-checked locking (strengthening T16).

   Model/PeerBook.v treats RootPeerList.Add / GetOrAdd as ONE atomic get-or-create.  The code
   looks the host:port up under the read lock, and AGAIN under the write lock before it creates
   and stores a Peer; PeerList.Add does the same around it.  Model/PeerGoc.v has one step per
   lock-protected region (two per RootPeerList.Add), objects are allocation names, any number of
   goroutines / host:ports / peer lists, every interleaving = every label list.  The regions are
   regenerated from the Go source on every run (Gen/GenPeerGoc.v, Gen/GenLockSkel.v). *)
From Verif Require Import Base.GoMap Gen.GenPeerGoc Gen.GenLockSkel Model.PeerGoc
  Proofs.PeerGocP Proofs.PeerGocGenP.

(* TIE: each region of RootPeerList.Get / Add / GetOrAdd and PeerList.exists / Add / Remove /
   GetOrAdd as translated from the source equals the decision of the model's step: which object
   is returned on each branch, what is stored under which key, on which object the reference is
   counted / dropped. *)
Theorem C16_goc_generated :
  (forall m hp, (rootGetVal m hp, rootGetOk m hp) = match m hp with Some q => (q, true) | None => (0, false) end) /\
  (forall m hp, rootAddFast m hp = m hp) /\
  (forall s hp, rootAddSlow (g_root s) hp (g_next s) = (g_root (fst (g_root_insert s hp)), snd (g_root_insert s hp))) /\
  (forall m hp, rootGetOrAdd m hp = match m hp with Some q => (q, false) | None => (hp, true) end) /\
  (forall l lid hp, listAddFast (lview l lid) hp = list_find l lid hp) /\
  (forall l lid hp, listAddRecheck (lview l lid) hp = list_find l lid hp) /\
  (forall l sc lid hp q,
     let '(m', sc', r) := listAddTail (lview l lid) sc hp q in
     r = q /\ sc' = sc_add sc q 1 /\ (forall x, m' x = lview ((lid, hp, q) :: l) lid x) /\
     (forall lid' x, lid' <> lid -> lview ((lid, hp, q) :: l) lid' x = lview l lid' x)) /\
  (forall l sc lid hp, gkeys_nodup l ->
     let '(m', sc', ok) := listRemove (lview l lid) sc hp in
     match list_find l lid hp with
     | None => ok = false /\ sc' = sc /\ m' = lview l lid
     | Some q => ok = true /\ sc' = sc_add sc q (-1) /\
                 (forall x, m' x = lview (list_del l lid hp) lid x) /\
                 (forall lid' x, lid' <> lid -> lview (list_del l lid hp) lid' x = lview l lid' x)
     end) /\
  (forall hp, listGetOrAddArg hp = hp).
Proof. exact goc_generated. Qed.
Print Assumptions C16_goc_generated.

(* TIE: the lock / return structure of those functions in the source is the region structure the
   model's steps were read from (codes: Gen/GenLockSkel.v). *)
Theorem C16_goc_regions :
  skel_rootAdd = [1; 8; 2; 7; 9; 2; 3; 5; 8; 7; 9; 11; 11; 11; 7] /\
  skel_rootGet = [1; 11; 2; 7] /\
  skel_rootGetOrAdd = [11; 8; 7; 9; 7] /\
  skel_listAdd = [8; 7; 9; 3; 5; 8; 7; 9; 11; 11; 11; 11; 11; 7] /\
  skel_listExists = [1; 11; 2; 7] /\
  skel_listRemove = [3; 5; 11; 8; 7; 9; 11; 11; 11; 7] /\
  skel_listGetOrAdd = [7].
Proof. exact goc_skeletons. Qed.
Print Assumptions C16_goc_regions.

(* TIE: RootPeerList.onClosedConnRemoved(peer) as translated from the source tests the
   removability of the object STORED under peer.HostPort() and deletes by that host:port: run
   without interleaving it is the three collector steps PCol1, PCol2, PCol3 of Model/PeerBook.v;
   its lock skeleton is Get; if !ok {return}; if canRemove {Lock; delete; Unlock; log}. *)
Theorem C16_goc_collector_generated :
  (forall (s : PeerBook.st) hp,
     rootCollect (s_root s) (fun q => can_remove (s_peer s q)) hp =
     match s_root s hp with
     | None => s_root s
     | Some q => if can_remove (s_peer s q) then s_root (set_root s hp None) else s_root s
     end) /\
  skel_rootCollect = [11; 11; 8; 7; 9; 8; 3; 11; 4; 11; 9].
Proof. exact goc_collector_generated. Qed.
Print Assumptions C16_goc_collector_generated.

(* For EVERY interleaving of any number of concurrent RootPeers().Get / GetOrAdd / Add and
   PeerList.Add / Remove on the same and on different host:ports, in every reachable state: all
   calls that asked for host:port hp and returned an object returned THE SAME object, and it is
   the one stored in the root map under hp. *)
Theorem C16_goc_same_object : forall ls s,
  grun ginit ls = Some s ->
  forall t1 t2 hp c1 c2 q1 q2,
    In (t1, hp, c1, q1) (g_ret s) -> In (t2, hp, c2, q2) (g_ret s) -> q1 <> 0 -> q2 <> 0 ->
    q1 = q2 /\ g_root s hp = Some q1.
Proof. exact goc_same_object. Qed.
Print Assumptions C16_goc_same_object.

(* No private objects: every Peer object ever created is the one registered in the root map
   under the host:port it was created for; one object per host:port. *)
Theorem C16_goc_no_private_object : forall ls s,
  grun ginit ls = Some s ->
  forall q, 0 < q < g_next s -> g_root s (g_hp s q) = Some q.
Proof. exact goc_no_private_object. Qed.
Print Assumptions C16_goc_no_private_object.

Theorem C16_goc_root_injective : forall ls s,
  grun ginit ls = Some s ->
  forall hp1 hp2 q, g_root s hp1 = Some q -> g_root s hp2 = Some q -> hp1 = hp2.
Proof. exact goc_root_injective. Qed.
Print Assumptions C16_goc_root_injective.

(* Every peer-list entry holds the root list's object for its host:port, and so does every
   PeerList.Add that is about to count its reference (between l.parent.Add and p.addSC()). *)
Theorem C16_goc_lists_share_root : forall ls s,
  grun ginit ls = Some s ->
  (forall lid hp q, list_find (g_lists s) lid hp = Some q -> g_root s hp = Some q) /\
  (forall t lid hp q, g_thr s t = Some (GLAdd5 lid hp q) -> g_root s hp = Some q).
Proof. exact goc_lists_share_root. Qed.
Print Assumptions C16_goc_lists_share_root.

(* Reference counts are kept on the stored objects: scCount of every object is the number of
   peer-list entries holding it (entries have distinct (list, host:port) keys: the list's write
   lock excludes a second insertion). *)
Theorem C16_goc_refcount : forall ls s,
  grun ginit ls = Some s ->
  (forall q, g_sc s q = gents q (g_lists s)) /\ gkeys_nodup (g_lists s).
Proof. exact goc_refcount. Qed.
Print Assumptions C16_goc_refcount.

(* What the re-check buys: with a region 2 that inserts if absent but returns its own new object
   either way, two RootPeerList.Add(7) that both missed under the read lock end with different
   objects, the second one registered nowhere. *)
Theorem C16_goc_private_variant_refuted :
  exists s0 s1 s2 q1 q2,
    s0 = gset_thr (gset_thr ginit 1 (Some (GRAdd2 7))) 2 (Some (GRAdd2 7)) /\
    g_root_insert_private s0 7 = (s1, q1) /\ g_root_insert_private s1 7 = (s2, q2) /\
    q1 <> q2 /\ g_root s2 7 = Some q1 /\ g_root s2 (g_hp s2 q2) <> Some q2.
Proof. exact goc_private_variant_refuted. Qed.
Print Assumptions C16_goc_private_variant_refuted.

(* Non-vacuity: channel list, isolated list and RootPeers().Add race a first-time Add of
   host:port 7; all three miss under the read lock before any takes the write lock; all three
   return object 1, which has two references. *)
Example C16_goc_example_race :
  exists s, grun ginit goc_ex_race = Some s /\
    g_ret s = [(3, 7, 1, 1); (1, 7, 1, 1); (2, 7, 1, 1)] /\
    g_root s 7 = Some 1 /\ g_sc s 1 = 2 /\ g_next s = 2 /\
    g_lists s = [(1, 7, 1); (0, 7, 1)].
Proof. exact goc_example_race. Qed.

(* ================================================================================================
   Connection attempts in flight, and what decides a collection (strengthening U16).

   A peer leaves the root list in ONE place (RootPeerList.onClosedConnRemoved), evaluated only when a
   connection has just been removed from the peer (Peer.connectionCloseStateChange); nothing comes
   back later.  So the decision (Peer.canRemove) must depend on the peer's connection lists and its
   reference count ONLY: a decision that also waits for something else -- e.g. "nobody is dialling
   this peer" (len(p.newConnLock) == 0) -- keeps the peer when its last connection goes away, and
   when that something ends (the dial FAILS) nobody drops it.
   Model/PeerDial.v: the state of Model/PeerBook.v plus newConnLock of every Peer object and the
   goroutines of Peer.GetConnection / getConnectionRelay (wait for the lock, re-check, Connect:
   hanging dial, then failure or a completed handshake = LNew run by that goroutine), any number of
   them, interleaved in every way with every label of PeerBook.v. *)
From Verif Require Import Gen.GenPeerDial Model.PeerDial Proofs.PeerDialP Proofs.PeerDialGenP.

(* TIE (regenerated from the source on every run, Gen/GenPeerDial.v + Gen/GenPeerGoc.v):
   1. Peer.canRemove = can_remove: a function of inboundConnections, outboundConnections, scCount
      (uint32 not wrapped, lists shorter than 2^62) -- any further conjunct breaks this equality;
   2. RootPeerList.onClosedConnRemoved with THAT canRemove = the collector steps of the model;
   3. Peer.connectionCloseStateChange = step PCbRem: the collector runs (and the status callback
      fires) exactly when a connection was removed -- unconditionally then, never otherwise;
   4. the same, as a table;
   5. Peer.GetConnection after lockNewConn = step DCheck of the dial model (re-check, else Connect;
      the lock is released when no attempt is made);  6. getConnectionRelay does the same. *)
Theorem C16_collect_decision_generated :
  (forall P, peer_small P -> peerCanRemove (p_in P) (p_out P) (p_sc P) = can_remove P) /\
  (forall (s : PeerBook.st) hp,
     (forall q, s_root s hp = Some q -> peer_small (s_peer s q)) ->
     rootCollect (s_root s)
       (fun q => peerCanRemove (p_in (s_peer s q)) (p_out (s_peer s q)) (p_sc (s_peer s q))) hp =
     match s_root s hp with
     | None => s_root s
     | Some q => if can_remove (s_peer s q) then s_root (set_root s hp None) else s_root s
     end) /\
  (forall s t c pid todo,
     let P := s_peer s pid in
     let r := peerCloseChange false false (is_active (s_conn s c))
                (found (swap_remove c (p_in P))) (found (swap_remove c (p_out P))) in
     let s' := step_thread true s t (PCbRem c pid todo) in
     s_thr s' t = Some (if fst r then PCol1 c (p_hp P) todo else PCbGet c todo) /\
     s_log s' = (if snd r then s_log s ++ [p_hp P] else s_log s)) /\
  (forall a fi fo, peerCloseChange false false a fi fo = (negb a && (fi || fo), negb a && (fi || fo))) /\
  (forall ds d pid, d_thr ds d = Some (DCheck pid) ->
     exists ds', dstep ds (DStep d) = Some ds' /\ d_s ds' = d_s ds /\
       if peerGetConnLocked (has_active (d_s ds) pid) =? 0
       then d_thr ds' d = None /\ d_lock ds' pid = false
       else d_thr ds' d = Some (DConn pid) /\ d_lock ds' = d_lock ds) /\
  (forall a, peerGetConnRelayLocked a = peerGetConnLocked a).
Proof. exact dial_generated. Qed.
Print Assumptions C16_collect_decision_generated.

(* the collector steps PCol1, PCol2, PCol3 of the model, run one after the other *)
Theorem C16_collector_steps : forall s t c hp todo,
  let s1 := step_thread true s t (PCol1 c hp todo) in
  match s_root s hp with
  | None => s_thr s1 t = Some (PCbGet c todo) /\ s_root s1 = s_root s
  | Some q =>
      s_thr s1 t = Some (PCol2 c hp q todo) /\
      let s2 := step_thread true s1 t (PCol2 c hp q todo) in
      if can_remove (s_peer s q)
      then s_thr s2 t = Some (PCol3 c hp todo) /\
           s_root (step_thread true s2 t (PCol3 c hp todo)) = s_root (set_root s hp None)
      else s_thr s2 t = Some (PCbGet c todo) /\ s_root s2 = s_root s
  end.
Proof. exact collector_steps. Qed.
Print Assumptions C16_collector_steps.

(* Connection attempts never touch the bookkeeping state on their own: every history with
   attempts (started, waiting for newConnLock, hanging in the dial, failed, completed; on rooted and
   on orphaned Peer objects; any number, any overlap) has the bookkeeping state of a history of
   Model/PeerBook.v. *)
Theorem C16_dial_projects : forall ls ds,
  drun dinit ls = Some ds -> exists ls', run init ls' = Some (d_s ds).
Proof. exact dial_projects. Qed.
Print Assumptions C16_dial_projects.

(* THE COLLECTION CLAUSE, restated over histories with connection attempts.  For EVERY such
   history -- in particular: an attempt to hp pending, hp's last listed connection removed during
   that window, no list referencing hp, the attempt then FAILING -- at every moment at which no
   goroutine is inside a bookkeeping function (attempts may even still hang): a root peer without
   connections and without references did not get there by losing a connection, and scCount is the
   number of peer-list entries holding the peer. *)
Theorem C16_peer_gc_dial : forall ls ds,
  drun dinit ls = Some ds -> quiescent (d_s ds) -> peer_gc (d_s ds).
Proof. exact peer_gc_dial. Qed.
Print Assumptions C16_peer_gc_dial.

(* ... in the words of the property: once nothing is in flight (no activation, no close callback, no
   connection attempt), a Peer object whose last change was the loss of a connection and that has no
   connection and no reference left is not in the root list, under any host:port. *)
Theorem C16_collected_when_quiet : forall ls ds,
  drun dinit ls = Some ds -> dquiescent ds ->
  forall hp pid, let P := s_peer (d_s ds) pid in
    p_in P = [] -> p_out P = [] -> refs (d_s ds) pid = 0 -> p_last P = 2 ->
    s_root (d_s ds) hp <> Some pid.
Proof. exact collected_when_quiet. Qed.
Print Assumptions C16_collected_when_quiet.

(* the other quiescent-state clauses hold with attempts in flight as well *)
Theorem C16_channel_tracks_dial : forall ls ds,
  drun dinit ls = Some ds -> quiescent (d_s ds) -> channel_tracks (d_s ds).
Proof. exact channel_tracks_dial. Qed.
Print Assumptions C16_channel_tracks_dial.

Theorem C16_callbacks_dial : forall ls ds,
  drun dinit ls = Some ds -> callbacks_exact (d_s ds).
Proof. exact callbacks_dial. Qed.
Print Assumptions C16_callbacks_dial.

(* newConnLock: held iff a goroutine is between lockNewConn and its unlock for that Peer object, at
   most one per object (one connection attempt per peer at a time); every attempt gives it back. *)
Theorem C16_newconn_lock : forall ls ds,
  drun dinit ls = Some ds ->
  (forall pid, d_lock ds pid = true <-> exists d, holds (d_thr ds d) pid) /\
  (forall d1 d2 pid, holds (d_thr ds d1) pid -> holds (d_thr ds d2) pid -> d1 = d2) /\
  ((forall d, d_thr ds d = None) -> forall pid, d_lock ds pid = false).
Proof.
  exact (fun ls ds H => conj (proj1 (newconn_lock_exclusive ls ds H))
                         (conj (proj2 (newconn_lock_exclusive ls ds H)) (newconn_lock_released ls ds H))).
Qed.
Print Assumptions C16_newconn_lock.

(* What the tie excludes.  The VARIANT whose canRemove also wants a free newConnLock (drun_gen true):
   host:port 7 restarts while a caller keeps calling it -- Ping(7) hangs in the dial holding the
   lock of peer 1; 7 connects to us and closes that connection again; the dial fails.  Nothing is in
   flight any more, peer 1 has no connection, no reference, lost its connection last -- and stays in
   the root list. *)
Theorem C16_dial_gate_refuted :
  exists ls ds, drun_gen true dinit ls = Some ds /\ dquiescent ds /\ ~ peer_gc (d_s ds).
Proof. exact wd_gate_refutes. Qed.
Print Assumptions C16_dial_gate_refuted.

(* Non-vacuity: the same history on the code as it is: peer 1 has left the root list, two status
   callbacks (gained, lost), the channel tracks nothing. *)
Example C16_dial_example_collected :
  exists ds, drun dinit wd = Some ds /\ dquiescent ds /\ s_root (d_s ds) 7 = None /\
             s_log (d_s ds) = [7; 7] /\ s_inch (d_s ds) 2 = false.
Proof. exact wd_collected. Qed.

(* ------------------------------------------------------------------------------------------------
   Under WHICH host:port a connection is listed (k_rhp of Model/PeerBook.v): the host:port the peer
   announced in the handshake, unless that is ephemeral ("", "0.0.0.0:0", ENDING in ":0"): then the
   socket address.  isEphemeralHostPort is regenerated from peer.go (Gen/GenHandshake.v). *)
From Verif Require Import Gen.GenHandshake Model.Handshake Spec.HandshakeSpec Proofs.PeerKeyP.

Theorem C16_listed_key : forall p addr hp pn,
  lookup c_InitParamHostPort p = Some hp -> lookup c_InitParamProcessName p = Some pn ->
  exists pi, parse_remote_peer p addr = inr pi /\
    (ephemeral_hp hp -> pi_hostport pi = addr /\ pi_ephemeral pi = true) /\
    (~ ephemeral_hp hp -> pi_hostport pi = hp /\ pi_ephemeral pi = false).
Proof. exact listed_key. Qed.
Print Assumptions C16_listed_key.

(* "[2001:db8:0:1::5]:4040", "[fd00:0:0:1::2]:21300", "10.0.0.7:0x", "10.0.0.7:01", "h:0:1" are
   host:ports of listening peers; "[2001:db8:0:1::5]:0", "host:0", "" are ephemeral *)
Example C16_odd_hostports :
  (~ ephemeral_hp hp_v6_zero_group /\ ~ ephemeral_hp hp_v6_ula /\ ~ ephemeral_hp hp_port_0x /\
   ~ ephemeral_hp hp_port_01 /\ ~ ephemeral_hp hp_colon0_inside) /\
  (ephemeral_hp hp_v6_port0 /\ ephemeral_hp hp_host_port0 /\ ephemeral_hp []).
Proof. exact (conj odd_hostports_listen port0_hostports_ephemeral). Qed.
