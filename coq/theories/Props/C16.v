(* Property C16 -- Peer and connection bookkeeping matches the live connections.
   This file contains only statements, each closed by [exact].

   Model: Model/PeerBook.v, an interleaving transition system of ONE channel's bookkeeping
   (channel connection map, Peer objects with inbound/outbound lists and scCount, root peer
   list, child peer lists, status-callback log); one step per lock-protected region of the Go
   code; unbounded numbers of connections, peers, peer lists and goroutines; the rest of the
   world (other channels, sockets, Channel.Close, idle sweep, failures) is the environment
   (labels LNew / LChange at any time).  [run] = the code as repaired (fix: Peer.addConnection
   re-checks the state under the peer lock); [run_gen false] = the code before that repair.
   Spec: Spec/PeerBookSpec.v ([quiescent] = no goroutine inside a bookkeeping function). *)
From Coq Require Import ZArith List Bool Permutation.
From Verif Require Import Gen.GenConsts Model.PeerBook Spec.PeerBookSpec
  Proofs.PeerBookL Proofs.PeerBookP Proofs.PeerBookS Proofs.PeerBookW.
Import ListNotations.
Local Open Scope Z_scope.

(* For EVERY schedule: at a quiescent moment the channel tracks exactly the connections it
   accepted that are not yet Closed, and a connection it refused is not active. *)
Theorem C16_channel_tracks : forall ls s,
  run init ls = Some s -> quiescent s -> channel_tracks s.
Proof. exact channel_tracks_all. Qed.
Print Assumptions C16_channel_tracks.

(* For EVERY schedule and in every reachable state (quiescent or not): the status-callback
   log is, as a multiset of host:ports, exactly the connections gained plus the connections
   lost, and for every Peer object and connection: gains - losses = occurrences in its lists. *)
Theorem C16_callbacks : forall ls s,
  run init ls = Some s -> callbacks_exact s.
Proof. exact callbacks_exact_all. Qed.
Print Assumptions C16_callbacks.

(* For EVERY schedule: at a quiescent moment a peer that is in the root list with no
   connections and no references did not get there by losing a connection (such a peer has
   left the root list); scCount is exactly the number of peer-list entries holding the peer. *)
Theorem C16_peer_gc : forall ls s,
  run init ls = Some s -> quiescent s -> peer_gc s.
Proof. exact peer_gc_all. Qed.
Print Assumptions C16_peer_gc.

(* FULL STATEMENT WANTED (C16_lists_exact):
     forall ls s, run init ls = Some s -> quiescent s ->
       lists_exact s /\ all_listed s /\ refs_rooted s.
   It is FALSE for the code as it is (C16_lists_exact_refuted, C16_refs_rooted_refuted below:
   known finding c16:peer-collected-during-add).  Proved instead, for every schedule in which
   each root-list deletion is SAFE (run_safe: at the moment of delete(peersByHostPort, hp) the
   peer registered under hp is removable and no goroutine holds it between
   RootPeers().GetOrAdd / RootPeerList.Add and its append / addSC): every root peer's
   inbound / outbound lists are, without duplicates, exactly the active connections to that
   host:port (outbound ones also under the dialled host:port), every active connection has
   such a peer, and every peer-list entry refers to the root's peer.
   Missing: the schedules with an unsafe deletion. *)
Theorem C16_lists_exact_partial : forall ls s,
  run_safe init ls = Some s -> quiescent s ->
  lists_exact s /\ all_listed s /\ refs_rooted s.
Proof. exact lists_exact_safe. Qed.
Print Assumptions C16_lists_exact_partial.

(* a safe run is a run of the model *)
Theorem C16_safe_runs_are_runs : forall ls s s',
  run_safe s ls = Some s' -> run_gen true s ls = Some s'.
Proof. exact run_safe_is_run. Qed.
Print Assumptions C16_safe_runs_are_runs.

(* The code as it is: a schedule (a second connection is being added to a peer while the
   peer's only connection closes) ends in a quiescent state where an active, tracked
   connection has no peer in the root list. *)
Theorem C16_lists_exact_refuted :
  exists ls s, run init ls = Some s /\ quiescent s /\ ~ all_listed s.
Proof. exact w1_refutes. Qed.
Print Assumptions C16_lists_exact_refuted.

(* Same window in PeerList.Add (between RootPeerList.Add and addSC): a peer list ends up
   referencing a Peer object that is not in the root list. *)
Theorem C16_refs_rooted_refuted :
  exists ls s, run init ls = Some s /\ quiescent s /\ ~ refs_rooted s.
Proof. exact w2_refutes. Qed.
Print Assumptions C16_refs_rooted_refuted.

(* The code BEFORE the repair of Peer.addConnection (no re-check under the peer lock): on a
   schedule without any unsafe deletion a Closed connection stays in a root peer's list at a
   quiescent state (finding c16:addconn-stale-closed, fixed). *)
Theorem C16_addconn_unrepaired_refuted :
  exists ls s, run_gen false init ls = Some s /\ quiescent s /\ run_safe init ls <> None /\
    exists hp pid c, s_root s hp = Some pid /\ In c (p_in (s_peer s pid)) /\ ~ active s c.
Proof. exact w3_unrepaired_refutes. Qed.
Print Assumptions C16_addconn_unrepaired_refuted.

(* Non-vacuity: a safe run reaching a quiescent state with an outbound connection whose peer
   announced host:port 11 while 21 was dialled (listed under both), one peer-list reference,
   two status callbacks ... *)
Example C16_example_listed :
  exists s, run_safe init ex1 = Some s /\ quiescent s /\
    s_root s 11 = Some 3 /\ p_out (s_peer s 3) = [1] /\
    s_root s 21 = Some 4 /\ p_out (s_peer s 4) = [1] /\ p_sc (s_peer s 4) = 1 /\
    s_inch s 1 = true /\ s_log s = [11; 21].
Proof. exact example_listed. Qed.

(* ... and one where the connection then closes: both peers are collected, four callbacks. *)
Example C16_example_collected :
  exists s, run_safe init ex2 = Some s /\ quiescent s /\
    s_root s 11 = None /\ s_root s 21 = None /\ s_inch s 1 = false /\ s_log s = [11; 21; 11; 21].
Proof. exact example_collected. Qed.
