(* Property C13 -- Connections become usable only after a valid version-2 handshake.
   Statements only.  [inbound c stream e] / [connect c stream e] are the models of
   Channel.inboundHandshake and of Channel.Connect (after the dial) for a peer that sends
   the bytes [stream] and then stays silent until the deadline ([Silence]) or closes its
   side ([PeerClosed]); [hr_conn] is the connection handed back (None = rejected),
   [hr_err] the error returned to the caller, [hr_eff] everything done to the outside
   (frames written, socket close, registration with the channel and its peers).
   The Spec side (Spec/HandshakeSpec.v, Spec/Protocol.v) is written from the property
   statement and the protocol document.  [local_ok c hide]: the channel's own init
   parameters fit one frame (otherwise it cannot write its init message at all). *)
From Coq Require Import ZArith List Bool.
From Verif Require Import Base.Wrap Base.Bytes Gen.GenConsts Gen.GenHandshake Model.TypedBuf Model.Messages
  Model.Handshake Spec.Protocol Spec.HandshakeSpec Proofs.CodecP Proofs.HandshakeP.
Import ListNotations.
Local Open Scope Z_scope.

(* the constants of the code are those of the specification *)
Theorem C13_constants :
  c_CurrentProtocolVersion = protocol_version /\ c_InitParamHostPort = k_host_port /\
  c_InitParamProcessName = k_process_name /\ c_messageTypeInitReq = t_init_req /\
  c_messageTypeInitRes = t_init_res /\ c_messageTypeError = t_error /\
  [c_ErrCodeTimeout; c_ErrCodeUnexpected; c_ErrCodeNetwork; c_ErrCodeProtocol] = [e_timeout; e_unexpected; e_network; e_protocol] /\
  out_req_id = 1 /\ c_maxInitErrorMessageSize = 65519 - 1 - 25 - 2.
Proof. repeat split. Qed.

(* ---- activation iff a valid opening, for every byte stream and either ending ---- *)
Theorem C13_inbound_iff : forall c stream e, bytes_ok stream = true -> local_ok c false ->
  (hr_conn (inbound c stream e) <> None <-> exists id params, valid_init_req stream id params).
Proof. exact inbound_iff. Qed.

Theorem C13_outbound_iff : forall c stream e, bytes_ok stream = true -> local_ok c (lc_hide c) ->
  (hr_conn (connect c stream e) <> None <-> exists params, valid_init_res out_req_id stream params).
Proof. exact connect_iff. Qed.

(* ---- an accepted opening: the reply echoes the id with version 2, exactly one
        registration, no close, no error; the peer is identified by what it announced, or by
        the socket address and marked ephemeral when it announced an ephemeral host:port ---- *)
Theorem C13_inbound_accept : forall c stream e pi,
  bytes_ok stream = true -> local_ok c false -> hr_conn (inbound c stream e) = Some pi ->
  exists id params,
    valid_init_req stream id params /\
    identified params (lc_remote c) (pi_hostport pi) (pi_process pi) (pi_ephemeral pi) /\
    hr_err (inbound c stream e) = None /\
    hr_eff (inbound c stream e) =
      [Send (DInit t_init_res id protocol_version (init_params c false))
            (init_frame t_init_res id protocol_version (init_params c false));
       Register false pi].
Proof. exact inbound_accept_effects. Qed.

Theorem C13_outbound_accept : forall c stream e pi,
  bytes_ok stream = true -> local_ok c (lc_hide c) -> hr_conn (connect c stream e) = Some pi ->
  exists params,
    valid_init_res out_req_id stream params /\
    identified params (lc_remote c) (pi_hostport pi) (pi_process pi) (pi_ephemeral pi) /\
    hr_err (connect c stream e) = None /\
    hr_eff (connect c stream e) =
      [Send (DInit t_init_req out_req_id protocol_version (init_params c (lc_hide c)))
            (init_frame t_init_req out_req_id protocol_version (init_params c (lc_hide c)));
       Register true pi] ++
      (if bytes_eqb (lc_remote c) (pi_hostport pi) then [] else [AddToPeer (lc_remote c)]).
Proof. exact connect_accept_effects. Qed.

(* the ephemeral rule of the code is the one of the statement *)
Theorem C13_ephemeral_rule : forall hp, is_ephemeral hp = true <-> ephemeral_hp hp.
Proof. exact is_ephemeral_spec. Qed.

(* ---- any other opening: an error frame (well-formed, one frame) to the peer, an error to
        the caller, the socket closed, and nothing registered: the effects are exactly
        [error frame; close] (after the init req already sent, outbound) ---- *)
Theorem C13_inbound_reject : forall c stream e,
  bytes_ok stream = true -> hr_conn (inbound c stream e) = None ->
  exists id code msg, 0 <= code < 256 /\ slen msg <= 65491 /\
    hr_err (inbound c stream e) <> None /\
    hr_eff (inbound c stream e) = [Send (DErr id code msg) (error_frame id code msg); CloseSock].
Proof. exact inbound_reject_effects. Qed.

Theorem C13_outbound_reject : forall c stream e,
  bytes_ok stream = true -> hr_conn (connect c stream e) = None ->
  exists pre code msg, 0 <= code < 256 /\ slen msg <= 65491 /\
    (pre = [] \/ exists b, pre = [Send (DInit t_init_req out_req_id protocol_version (init_params c (lc_hide c))) b]) /\
    hr_err (connect c stream e) <> None /\
    hr_eff (connect c stream e) = pre ++ [Send (DErr out_req_id code msg) (error_frame out_req_id code msg); CloseSock].
Proof. exact connect_reject_effects. Qed.

(* ---- the acceptance predicate field by field: for every first frame that is well formed
        as a frame with an init body -- all 256 type bytes, all 65536 versions, all ids,
        all parameter lists, any reserved bytes, trailing bytes in and after the frame ---- *)
Theorem C13_inbound_fields : forall c e t r1 id res8 v params junk rest,
  0 <= t < 256 -> 0 <= r1 < 256 -> 0 <= id < 2 ^ 32 -> length res8 = 8%nat ->
  0 <= v < 65536 -> params_ok params -> zlen (s_init v params ++ junk) <= 65519 -> local_ok c false ->
  (hr_conn (inbound c (frame_bytes t r1 id res8 (s_init v params ++ junk) ++ rest) e) <> None <->
   t = t_init_req /\ protocol_version <= v /\ has_param k_host_port params /\ has_param k_process_name params).
Proof. exact inbound_classify. Qed.

Theorem C13_outbound_fields : forall c e t r1 id res8 v params junk rest,
  0 <= t < 256 -> 0 <= r1 < 256 -> 0 <= id < 2 ^ 32 -> length res8 = 8%nat ->
  0 <= v < 65536 -> params_ok params -> zlen (s_init v params ++ junk) <= 65519 -> local_ok c (lc_hide c) ->
  (hr_conn (connect c (frame_bytes t r1 id res8 (s_init v params ++ junk) ++ rest) e) <> None <->
   t = t_init_res /\ id = out_req_id /\ v = protocol_version /\
   has_param k_host_port params /\ has_param k_process_name params).
Proof. exact connect_classify. Qed.

(* ---- every truncation point of every frame, silence or close: rejected, with the error
        code of a timeout (silence), of a network error (the peer closed before any byte of
        the header / of the payload) or of an unexpected error (closed in the middle) ---- *)
Theorem C13_inbound_truncated : forall c e t r1 id res8 p pre,
  0 <= t < 256 -> 0 <= r1 < 256 -> 0 <= id < 2 ^ 32 -> length res8 = 8%nat -> slen p <= 65519 ->
  strict_prefix pre (frame_bytes t r1 id res8 p) ->
  hr_conn (inbound c pre e) = None /\
  exists msg, hr_eff (inbound c pre e) =
    [Send (DErr 0 (trunc_code pre e) msg) (error_frame 0 (trunc_code pre e) msg); CloseSock].
Proof. exact inbound_truncated_effects. Qed.

Theorem C13_outbound_truncated : forall c e t r1 id res8 p pre,
  0 <= t < 256 -> 0 <= r1 < 256 -> 0 <= id < 2 ^ 32 -> length res8 = 8%nat -> slen p <= 65519 ->
  strict_prefix pre (frame_bytes t r1 id res8 p) -> local_ok c (lc_hide c) ->
  hr_conn (connect c pre e) = None /\ hr_err (connect c pre e) <> None /\
  exists msg, hr_eff (connect c pre e) =
    [Send (DInit t_init_req out_req_id protocol_version (init_params c (lc_hide c)))
          (init_frame t_init_req out_req_id protocol_version (init_params c (lc_hide c)));
     Send (DErr out_req_id (trunc_code pre e) msg) (error_frame out_req_id (trunc_code pre e) msg); CloseSock].
Proof. exact connect_truncated_effects. Qed.

(* ---- the channel's books after ANY history of handshakes in both directions: as many
        connections as valid openings, every other socket closed, and between one and two
        peer entries per connection (none for a rejected opening) ---- *)
Theorem C13_history : forall atts, Forall att_ok atts ->
  exists n, count_valid atts n /\
    zlen (ch_conns (run_channel atts)) = n /\
    ch_closed (run_channel atts) = zlen atts - n /\
    n <= zlen (ch_peerconns (run_channel atts)) <= 2 * n.
Proof. exact history. Qed.

Theorem C13_step_invalid : forall ch a, att_ok a -> ~ att_valid a ->
  chan_step ch a = mkChan (ch_conns ch) (ch_peerconns ch) (ch_closed ch + 1).
Proof. exact step_invalid. Qed.

Theorem C13_step_valid : forall ch a, att_ok a -> att_valid a ->
  exists pi extra params,
    chan_step ch a = mkChan (ch_conns ch ++ [(at_out a, pi)])
                            (ch_peerconns ch ++ (pi_hostport pi, at_out a) :: extra) (ch_closed ch) /\
    (extra = [] \/ (at_out a = true /\ extra = [(lc_remote (at_cfg a), true)] /\ lc_remote (at_cfg a) <> pi_hostport pi)) /\
    identified params (lc_remote (at_cfg a)) (pi_hostport pi) (pi_process pi) (pi_ephemeral pi).
Proof. exact step_valid_books. Qed.

(* the handshake deadline: the context's, else five seconds *)
Theorem C13_deadline : forall now,
  (forall d, init_deadline (Some d) now = d) /\ init_deadline None now = now + 5000000000.
Proof. exact init_deadline_spec. Qed.

Print Assumptions C13_inbound_iff.
Print Assumptions C13_outbound_iff.
Print Assumptions C13_inbound_accept.
Print Assumptions C13_outbound_accept.
Print Assumptions C13_inbound_reject.
Print Assumptions C13_outbound_reject.
Print Assumptions C13_inbound_fields.
Print Assumptions C13_outbound_fields.
Print Assumptions C13_inbound_truncated.
Print Assumptions C13_outbound_truncated.
Print Assumptions C13_history.
Print Assumptions C13_step_valid.

(* ---- non-vacuity ---- *)
Definition ex_cfg : hcfg :=
  mkCfg [49; 46; 50; 46; 51; 46; 52; 58; 53] [115; 118; 99] [103; 111] [49] [50] false [83; 79; 67; 75].
Definition ex_params : list (list Z * list Z) :=
  [(k_host_port, [49; 48; 46; 48; 46; 48; 46; 49; 58; 48]); (k_process_name, [112])].   (* "10.0.0.1:0", "p" *)
Definition ex_stream : list Z := frame_bytes 1 0 7 [0; 0; 0; 0; 0; 0; 0; 0] (s_init 2 ex_params).

Example ex_local_ok : local_ok ex_cfg false.
Proof.
  split; [|vm_compute; congruence]. split; [vm_compute; congruence|].
  repeat constructor; vm_compute; congruence.
Qed.

(* an ephemeral announcement is accepted, echoed with id 7, and identified by the socket address *)
Example C13_example_accept :
  bytes_ok ex_stream = true /\ local_ok ex_cfg false /\
  hr_conn (inbound ex_cfg ex_stream Silence) = Some (mkPI [83; 79; 67; 75] [112] true [] [] []) /\
  (exists bytes, hr_eff (inbound ex_cfg ex_stream Silence) =
     [Send (DInit 2 7 2 (init_params ex_cfg false)) bytes; Register false (mkPI [83; 79; 67; 75] [112] true [] [] [])]).
Proof.
  split; [vm_compute; reflexivity|]. split; [exact ex_local_ok|]. split; [vm_compute; reflexivity|].
  eexists. vm_compute. reflexivity.
Qed.

(* version 1, a truncated frame with silence, and a wrong type are rejected with an error frame and a close *)
Example C13_example_reject :
  hr_conn (inbound ex_cfg (frame_bytes 1 0 7 [0; 0; 0; 0; 0; 0; 0; 0] (s_init 1 ex_params)) Silence) = None /\
  (exists msg b, hr_eff (inbound ex_cfg (firstn 20 ex_stream) Silence) = [Send (DErr 0 1 msg) b; CloseSock]) /\
  (exists msg b, hr_eff (inbound ex_cfg (frame_bytes 3 0 9 [0; 0; 0; 0; 0; 0; 0; 0] []) PeerClosed) = [Send (DErr 9 255 msg) b; CloseSock]).
Proof.
  split; [vm_compute; reflexivity|]. split; eexists; eexists; vm_compute; reflexivity.
Qed.

(* a two-attempt history: one valid inbound opening, one truncated reply to a Connect *)
Example C13_example_history :
  let atts := [mkAtt false ex_cfg ex_stream Silence; mkAtt true ex_cfg (firstn 5 ex_stream) PeerClosed] in
  Forall att_ok atts /\ zlen (ch_conns (run_channel atts)) = 1 /\ ch_closed (run_channel atts) = 1.
Proof.
  cbv zeta. split; [|split; vm_compute; reflexivity].
  repeat constructor; try (vm_compute; reflexivity); apply ex_local_ok.
Qed.
