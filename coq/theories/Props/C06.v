(* Property C06 -- Every protocol message encodes to the specified layout and decodes back.
   Statements only; [writes f bs] = on a buffer with room f appends exactly bs, with too
   little room it fails with ErrBufferFull, errors are sticky; [consumes rd bs v] = on
   bs followed by anything rd returns v and leaves exactly the rest, and on every strict
   prefix of bs it fails. *)
From Coq Require Import ZArith List Bool.
From Verif Require Import Base.Wrap Base.Bytes Gen.GenConsts Gen.GenFrame Model.TypedBuf Model.Messages
  Spec.Protocol Proofs.CodecP Proofs.FrameP.
Import ListNotations.
Local Open Scope Z_scope.

(* message type codes of the code = those of the protocol document *)
Theorem C06_type_codes :
  [c_messageTypeInitReq; c_messageTypeInitRes; c_messageTypeCallReq; c_messageTypeCallRes;
   c_messageTypeCallReqContinue; c_messageTypeCallResContinue; c_messageTypeCancel;
   c_messageTypePingReq; c_messageTypePingRes; c_messageTypeError]
  = [t_init_req; t_init_res; t_call_req; t_call_res; t_call_req_cont; t_call_res_cont; t_cancel;
     t_ping_req; t_ping_res; t_error].
Proof. reflexivity. Qed.

(* ---- (a) layout: bytes produced = independent encoder, for all in-limit values ---- *)
Theorem C06_layout_init : forall m, init_ok m -> writes (w_init m) (s_init (im_version m) (im_params m)).
Proof. exact w_init_writes. Qed.
Theorem C06_layout_callreq : forall m ttl_ms, callreq_ok m ttl_ms ->
  writes (w_callreq m) (s_callreq ttl_ms (spec_span (cq_span m)) (cq_service m) (cq_headers m)).
Proof. exact w_callreq_writes. Qed.
Theorem C06_layout_callres : forall m, callres_ok m ->
  writes (w_callres m) (s_callres (cs_code m) (spec_span (cs_span m)) (cs_headers m)).
Proof. exact w_callres_writes. Qed.
Theorem C06_layout_error : forall m, error_ok m ->
  writes (w_error m) (s_error (em_code m) (spec_span (em_span m)) (em_msg m)).
Proof. exact w_error_writes. Qed.
Theorem C06_layout_cancel : forall m, cancel_ok m ->
  writes (w_cancel m) (s_cancel (cm_ttl m) (spec_span (cm_span m)) (cm_msg m)).
Proof. exact w_cancel_writes. Qed.
Theorem C06_layout_nobody : writes w_nop [].   (* ping req/res, call req/res continue *)
Proof. exact w_nop_writes. Qed.

(* ---- (b)+(c) decode returns the original fields, consumes exactly the encoding, and
        fails on every strict prefix ---- *)
Theorem C06_roundtrip_init : forall m, init_ok m -> consumes r_init (s_init (im_version m) (im_params m)) m.
Proof. exact r_init_consumes. Qed.
Theorem C06_roundtrip_callreq : forall m ttl_ms, callreq_ok m ttl_ms ->
  consumes r_callreq (s_callreq ttl_ms (spec_span (cq_span m)) (cq_service m) (cq_headers m)) m.
Proof. exact r_callreq_consumes. Qed.
Theorem C06_roundtrip_callres : forall m, callres_ok m ->
  consumes r_callres (s_callres (cs_code m) (spec_span (cs_span m)) (cs_headers m)) m.
Proof. exact r_callres_consumes. Qed.
Theorem C06_roundtrip_error : forall m, error_ok m ->
  consumes r_error (s_error (em_code m) (spec_span (em_span m)) (em_msg m)) m.
Proof. exact r_error_consumes. Qed.
Theorem C06_roundtrip_cancel : forall m, cancel_ok m ->
  consumes r_cancel (s_cancel (cm_ttl m) (spec_span (cm_span m)) (cm_msg m)) m.
Proof. exact r_cancel_consumes. Qed.

(* ---- frames: header carries exact size (16 + payload), type and id; reserved bytes 0 ---- *)
Theorem C06_frame_write : forall cap body bs t id,
  writes body bs -> zlen bs <= cap -> cap <= c_MaxFramePayloadSize -> u_ok 1 t ->
  exists h, frame_write cap body t id = Some (h, bs) /\ frame_out h bs = s_frame t id bs.
Proof.
  intros cap body bs t id W H1 H2 Ht. eexists. split; [exact (frame_write_ok cap body bs t id W H1 H2)|].
  apply frame_out_spec; [exact Ht|]. unfold c_MaxFramePayloadSize in H2. 
  exact (Z.le_trans _ _ _ H1 H2).
Qed.
Theorem C06_frame_read : forall t id p rest, u_ok 1 t -> u_ok 4 id -> zlen p <= 65519 ->
  frame_read_in (s_frame t id p ++ rest) = (0, mkFH (16 + zlen p) t 0 id, p, rest).
Proof. exact frame_read_in_spec. Qed.
Theorem C06_frame_prefix : forall t id p pre, u_ok 1 t -> u_ok 4 id -> zlen p <= 65519 ->
  strict_prefix pre (s_frame t id p) -> fst (fst (fst (frame_read_in pre))) = 2.
Proof. exact frame_read_in_prefix. Qed.
(* all 65536 size values: rejected iff below the header size; otherwise payload = size - 16 *)
Theorem C06_size_field : forall size, 0 <= size < 65536 ->
  (PayloadSize size >? c_MaxFramePayloadSize) = (size <? 16) /\ (16 <= size -> PayloadSize size = size - 16).
Proof. exact payload_size_classify. Qed.

(* ---- (d) over-limit values are rejected at encode time, never truncated ---- *)
Theorem C06_overlimit_str8 : forall s w, 255 < zlen s -> zlen s < 2 ^ 62 -> werr w = 0 ->
  w_len8 s w = mkW (wout w) (wroom w) 2.
Proof. exact w_len8_toolong. Qed.
Theorem C06_overlimit_str16 : forall s w, 65535 < zlen s -> werr w = 0 -> w_len16 s w = mkW (wout w) (wroom w) 2.
Proof. exact w_len16_toolong. Qed.
Theorem C06_overlimit_body : forall cap body bs t id, writes body bs -> 0 <= cap < zlen bs ->
  frame_write cap body t id = None.
Proof. exact frame_write_full. Qed.

Print Assumptions C06_layout_callreq.
Print Assumptions C06_roundtrip_callreq.
Print Assumptions C06_roundtrip_init.
Print Assumptions C06_frame_write.
Print Assumptions C06_frame_read.
Print Assumptions C06_frame_prefix.
Print Assumptions C06_size_field.
Print Assumptions C06_overlimit_str8.

(* non-vacuity: a concrete call request *)
Example C06_example :
  let m := mkCallReq (1500 * ms_ns) (mkSpan 1 2 3 1) [115; 118; 99] [([97; 115], [114; 97; 119])] in
  callreq_ok m 1500 /\
  wout (w_callreq m (wb 100)) =
    [0;0;5;220; 0;0;0;0;0;0;0;1; 0;0;0;0;0;0;0;2; 0;0;0;0;0;0;0;3; 1; 3;115;118;99; 1; 2;97;115; 3;114;97;119].
Proof.
  cbv zeta. split; [|vm_compute; reflexivity].
  unfold callreq_ok, span_ok, u_ok, str8_ok, kvs8_ok, str8_ok; cbn.
  repeat split; try (vm_compute; congruence); try constructor; cbn; repeat split; try (vm_compute; congruence); constructor.
Qed.

(* ======================================================================================
   call req / call res INCLUDING the fragment part (checksum type, checksum, arg1~2 arg2~2
   arg3~2), for calls that fit one fragment.

   Vocabulary: Spec/ProtocolCall.v [s_callreq_full], [s_callres_full], [s_csum_input] (the
   independent encoder of the complete payload, literals only); Model/CallWire.v
   [call_frames mt mtc id body kind ops] = the frames reqResWriter puts on the wire:
   newFragment (flags placeholder, message header [body], checksum type, checksum
   placeholder) leaving [frag_capacity] bytes for chunks, the fragmenting writer of
   Model/Frag.v (property C01) run on the script [ops], finish + flushFragment laid out by
   Model/FragWire.v [enc_frag_payload], Frame.WriteOut;
   [fits_one cap a1 a2 a3] = (2+|a1|) + (2+|a2|) + (2+|a3|) <= cap and
   (2+|a1|) + (2+|a2|) + 2 < cap (after arg2 more than a chunk header is left: with an empty
   arg3 and an exact fit the writer opens a second fragment, CallLayoutP.writer_exact_fit_two);
   [kind_ok kind] = checksum kind 0 (none), 1 (crc32), 3 (crc32c);
   [csum_value kind data] = the CRC-32 (IEEE / Castagnoli) of [data] from scratch.
   ====================================================================================== *)
From Verif Require Import Model.Crc Model.Frag Model.FragWire Model.CallWire Spec.ProtocolCall Spec.FragOk
  Proofs.FragWireP Proofs.FragRoundtrip Proofs.CallLayoutP.

(* newFragment leaves exactly frag_capacity = 65519 - (1 + |message header| + 1 + checksum size)
   bytes for chunks (the capacity used in C01_frame_bytes) *)
Theorem C06_fragment_capacity : forall body hdr ck,
  writes body hdr -> 0 <= ck_typecode ck < 256 -> 0 <= frag_capacity hdr ck ->
  new_fragment body ck = Some (hdr, frag_capacity hdr ck).
Proof. exact new_fragment_ok. Qed.

(* for every well-formed call req header, every checksum kind and every three arguments that
   fit the first fragment: exactly ONE frame, of type 0x03, whose payload is the specified
   flags:1(=0) ttl:4 tracing:25 service~1 nh:1 (hk~1 hv~1){nh} csumtype:1 (csum:4){0,1}
   arg1~2 arg2~2 arg3~2 with csum = CRC of arg1 ++ arg2 ++ arg3, and at most 65535 bytes *)
Theorem C06_layout_callreq_full : forall m ttl_ms kind id a1 a2 a3,
  callreq_ok m ttl_ms -> kind_ok kind ->
  fits_one (frag_capacity (s_callreq ttl_ms (spec_span (cq_span m)) (cq_service m) (cq_headers m)) (ck_fresh kind)) a1 a2 a3 ->
  let payload := s_callreq_full 0 ttl_ms (spec_span (cq_span m)) (cq_service m) (cq_headers m)
                   kind (csum_value kind (s_csum_input a1 a2 a3)) a1 a2 a3 in
  call_frames c_messageTypeCallReq c_messageTypeCallReqContinue id (w_callreq m) kind
              (script3 [IWrite a1] [IWrite a2] [IWrite a3])
    = Some [s_frame t_call_req id payload] /\
  zlen (s_frame t_call_req id payload) <= 65535.
Proof. exact callreq_single_layout. Qed.

(* the same for call res: flags:1(=0) code:1 tracing:25 nh:1 (hk~1 hv~1){nh} csumtype:1
   (csum:4){0,1} arg1~2 arg2~2 arg3~2, one frame of type 0x04 *)
Theorem C06_layout_callres_full : forall m kind id a1 a2 a3,
  callres_ok m -> kind_ok kind ->
  fits_one (frag_capacity (s_callres (cs_code m) (spec_span (cs_span m)) (cs_headers m)) (ck_fresh kind)) a1 a2 a3 ->
  let payload := s_callres_full 0 (cs_code m) (spec_span (cs_span m)) (cs_headers m)
                   kind (csum_value kind (s_csum_input a1 a2 a3)) a1 a2 a3 in
  call_frames c_messageTypeCallRes c_messageTypeCallResContinue id (w_callres m) kind
              (script3 [IWrite a1] [IWrite a2] [IWrite a3])
    = Some [s_frame t_call_res id payload] /\
  zlen (s_frame t_call_res id payload) <= 65535.
Proof. exact callres_single_layout. Qed.

(* the checksum field: absent for kind 0, else the big-endian CRC from seed 0 *)
Theorem C06_csum_field : forall data,
  s_csum 0 (csum_value 0 data) = [] /\
  s_csum 1 (csum_value 1 data) = be 4 (crc32_update poly_ieee 0 data) /\
  s_csum 3 (csum_value 3 data) = be 4 (crc32_update poly_castagnoli 0 data).
Proof. exact (fun data => conj eq_refl (conj eq_refl eq_refl)). Qed.

Print Assumptions C06_fragment_capacity.
Print Assumptions C06_layout_callreq_full.
Print Assumptions C06_layout_callres_full.
Print Assumptions C06_csum_field.

(* non-vacuity: the call request of C06_example with arguments "123" "456" "789" and crc32:
   the hypotheses hold and the model emits the frame below; its checksum field cb f4 39 26 is
   the standard CRC-32 check value of "123456789" *)
Example C06_example_call :
  let m := mkCallReq (1500 * ms_ns) (mkSpan 1 2 3 1) [115; 118; 99] [([97; 115], [114; 97; 119])] in
  let a1 := [49; 50; 51] in let a2 := [52; 53; 54] in let a3 := [55; 56; 57] in
  fits_one (frag_capacity (s_callreq 1500 (spec_span (cq_span m)) (cq_service m) (cq_headers m)) (ck_fresh 1)) a1 a2 a3 /\
  call_frames c_messageTypeCallReq c_messageTypeCallReqContinue 7 (w_callreq m) 1
              (script3 [IWrite a1] [IWrite a2] [IWrite a3]) =
  Some [[0;78; 3; 0; 0;0;0;7; 0;0;0;0;0;0;0;0;
         0; 0;0;5;220; 0;0;0;0;0;0;0;1; 0;0;0;0;0;0;0;2; 0;0;0;0;0;0;0;3; 1; 3;115;118;99; 1; 2;97;115; 3;114;97;119;
         1; 203;244;57;38; 0;3;49;50;51; 0;3;52;53;54; 0;3;55;56;57]].
Proof. cbv zeta. split; [unfold fits_one; vm_compute; split; [discriminate|reflexivity]|vm_compute; reflexivity]. Qed.

(* ======================================================================================
   The typed-buffer model is the code: REGENERATED definitions agree with the hand model.

   Gen/GenTypedBuf.v is produced on every run by go2v (method translator) from
   typed/buffer.go: one Gallina function per Go method over the Go state itself
   (ReadBuffer = remaining []byte + err; WriteBuffer = backing array + `remaining` as
   offset/length into it + err), None = the Go code panics (Base/GoSem.v gives the meaning of
   every Go construct used).  Vocabulary (Proofs/GenTypedBufP.v):
     absR g = the model read buffer (bytes of g.remaining, g.err != nil);
     absW g = the model write buffer (bytes written so far, room left, error code);
     wfW g  = g.remaining is a suffix of g.buffer and g.err is nil / ErrBufferFull /
              errStringTooLong (what NewWriteBuffer/Wrap/Reset establish and every method keeps);
     viewR f o = o seen through absR (f on the result);
     stepW o g m = the generated call o does not panic, keeps wfW, and its state seen
              through absW is the model function m applied to absW g.
   Hypotheses are Go typing facts only: a byte argument is 0..255, a []byte holds bytes,
   len(buffer) < 2^63, an int length argument is non-negative where the model takes a nat
   (the negative case is stated separately: error, never a panic or a read).
   ====================================================================================== *)
From Verif Require Import Base.GoSem Gen.GenTypedBuf Proofs.GenTypedBufP.

Theorem C06_typedbuf_generated :
  (* ---- ReadBuffer (typed/buffer.go) ---- *)
  (forall g n, 0 <= n -> viewR bs_list (ReadBuffer_ReadBytes g n) = Some (r_bytes (Z.to_nat n) (absR g))) /\
  (forall g n, n < 0 -> ReadBuffer_err g = 0 ->
     viewR bs_list (ReadBuffer_ReadBytes g n) = Some ([], mkR (rrem (absR g)) true)) /\
  (forall g n, ReadBuffer_ReadBytes g n <> None) /\
  (forall g n, 0 <= n -> option_map absR (ReadBuffer_SkipBytes g n) = Some (snd (r_bytes (Z.to_nat n) (absR g)))) /\
  (forall g n, 0 <= n -> viewR (fun s => s) (ReadBuffer_ReadString g n) = Some (r_string n (absR g))) /\
  (forall g, viewR (fun v => v) (ReadBuffer_ReadSingleByte g) = Some (r_u8 (absR g))) /\
  (forall g, viewR (fun v => v) (ReadBuffer_ReadUint16 g) = Some (r_u16 (absR g))) /\
  (forall g, viewR (fun v => v) (ReadBuffer_ReadUint32 g) = Some (r_u32 (absR g))) /\
  (forall g, viewR (fun v => v) (ReadBuffer_ReadUint64 g) = Some (r_u64 (absR g))) /\
  (forall g, bytes_ok (bs_list (ReadBuffer_remaining g)) = true ->
     viewR (fun s => s) (ReadBuffer_ReadLen8String g) = Some (r_len8 (absR g))) /\
  (forall g, bytes_ok (bs_list (ReadBuffer_remaining g)) = true ->
     viewR (fun s => s) (ReadBuffer_ReadLen16String g) = Some (r_len16 (absR g))) /\
  (forall g, ReadBuffer_BytesRemaining g = Some (zlen (rrem (absR g)))) /\
  (forall g, option_map (fun e => negb (e =? 0)) (ReadBuffer_Err g) = Some (rerr (absR g))) /\
  (* ---- WriteBuffer ---- *)
  (forall g v, wfW g -> 0 <= v < 256 -> stepW (WriteBuffer_WriteSingleByte g v) g (w_u8 v)) /\
  (forall g b, wfW g -> stepW (WriteBuffer_WriteBytes g b) g (w_bytes (bs_list b))) /\
  (forall g s, wfW g -> stepW (WriteBuffer_WriteString g s) g (w_bytes s)) /\
  (forall g v, wfW g -> stepW (WriteBuffer_WriteUint16 g v) g (w_u16 v)) /\
  (forall g v, wfW g -> stepW (WriteBuffer_WriteUint32 g v) g (w_u32 v)) /\
  (forall g v, wfW g -> stepW (WriteBuffer_WriteUint64 g v) g (w_u64 v)) /\
  (forall g s, wfW g -> stepW (WriteBuffer_WriteLen8String g s) g (w_len8 s)) /\
  (forall g s, wfW g -> stepW (WriteBuffer_WriteLen16String g s) g (w_len16 s)) /\
  (forall g e, wfW g -> e = e_typed_ErrBufferFull \/ e = e_typed_errStringTooLong ->
     stepW (WriteBuffer_setErr g e) g (w_seterr (abs_werr e))) /\
  (forall g n, wfW g -> 0 <= n ->
     exists g', WriteBuffer_DeferBytes g n = Some (deferred_ref g n, g') /\ wfW g' /\
                absW g' = w_bytes (repeat 0 (Z.to_nat n)) (absW g)) /\
  (forall g, WriteBuffer_DeferUint16 g = WriteBuffer_DeferBytes g 2 /\ WriteBuffer_DeferUint32 g = WriteBuffer_DeferBytes g 4 /\
             WriteBuffer_DeferUint64 g = WriteBuffer_DeferBytes g 8) /\
  (forall g, wfW g -> WriteBuffer_err g = 0 ->
     exists r g', WriteBuffer_DeferByte g = Some (r, g') /\ wfW g' /\ absW g' = w_bytes [0] (absW g) /\
                  r = (if rs_len (WriteBuffer_remaining g) =? 0 then None else WriteBuffer_remaining g)) /\
  (forall g, WriteBuffer_BytesRemaining g = Some (wroom (absW g))) /\
  (forall g, wfW g -> bs_len (WriteBuffer_buffer g) < 2 ^ 63 -> WriteBuffer_BytesWritten g = Some (zlen (wout (absW g)))) /\
  (forall g, option_map abs_werr (WriteBuffer_Err g) = Some (werr (absW g))) /\
  (forall g, exists g', WriteBuffer_Reset g = Some g' /\ wfW g' /\ absW g' = wb (bs_len (WriteBuffer_buffer g))) /\
  (forall b, exists g', WriteBuffer_Wrap (mk_WriteBuffer None None 0) b = Some g' /\ wfW g' /\ absW g' = wb (bs_len b)) /\
  (* ---- deferred references: Update = patching the bytes written ---- *)
  (forall l pos n, 0 <= pos -> pos + 2 <= zlen l ->
     Uint16Ref_Update (Some l) (Some (mkSref pos 2)) n
       = Some (Some (firstn (Z.to_nat pos) l ++ be 2 n ++ skipn (Z.to_nat pos + 2) l))) /\
  (forall l pos len b, 0 < len ->
     ByteRef_Update (Some l) (Some (mkSref pos len)) b
       = Some (Some (firstn (Z.to_nat pos) l ++ [b] ++ skipn (Z.to_nat pos + 1) l))) /\
  (forall l pos len b, zlen (bs_list b) = len ->
     BytesRef_Update (Some l) (Some (mkSref pos len)) b
       = Some (Some (firstn (Z.to_nat pos) l ++ bs_list b ++ skipn (Z.to_nat pos + length (bs_list b)) l))) /\
  (forall m v, ByteRef_Update m None v = Some m /\ Uint16Ref_Update m None v = Some m).
Proof. exact typedbuf_generated. Qed.

(* DeferByte is the one write that does not look at the sticky error (stated above under
   err = nil): on an errored buffer with room it still advances.  Witness: *)
Theorem C06_deferbyte_not_sticky :
  let g := mk_WriteBuffer (Some [7]) (Some (mkSref 0 1)) e_typed_errStringTooLong in
  wfW g /\ option_map (fun p => absW (snd p)) (WriteBuffer_DeferByte g) = Some (mkW [0] 0 2) /\
  w_bytes [0] (absW g) = mkW [] 1 2.
Proof. exact DeferByte_ignores_error. Qed.
(* DeferBytes(n) with a negative n panics (slice bounds out of range) *)
Theorem C06_deferbytes_negative_panics : forall g n, n < 0 -> WriteBuffer_err g = 0 ->
  0 <= rs_len (WriteBuffer_remaining g) -> WriteBuffer_DeferBytes g n = None.
Proof. exact DeferBytes_negative_panics. Qed.

Print Assumptions C06_typedbuf_generated.

(* non-vacuity: the generated code run on a concrete buffer, next to the model *)
Example C06_example_generated :
  let g := mk_WriteBuffer (Some [9; 9; 9; 9; 9; 9]) (Some (mkSref 0 6)) 0 in
  wfW g /\
  option_map absW (match WriteBuffer_WriteUint16 g 258 with Some w => WriteBuffer_WriteLen8String w [104; 105] | None => None end)
    = Some ((w_u16 258 >> w_len8 [104; 105]) (wb 6)) /\
  (w_u16 258 >> w_len8 [104; 105]) (wb 6) = mkW [1; 2; 2; 104; 105] 1 0 /\
  viewR (fun s => s) (ReadBuffer_ReadLen8String (mk_ReadBuffer (Some [2; 104; 105; 7]) 0)) = Some ([104; 105], rb [7]).
Proof.
  cbv zeta. split; [split; [cbn; repeat split; vm_compute; congruence|left; reflexivity]|].
  split; [reflexivity|]. split; reflexivity.
Qed.

(* ======================================================================================
   The message codecs are the code: Gen/GenMessages.v is regenerated on every run from
   messages.go (callReq, callRes, errorMessage, cancelMessage, initMessage, transportHeaders,
   noBodyMsg, callResContinue read/write), tracing.go (Span read/write) and frame.go
   (FrameHeader read/write), LOOPS INCLUDED (`for i := 0; i < n; i++` => go_for, `for k, v :=
   range m` => go_range over the map's entries in iteration order, a universally quantified
   list; m[k] = v => the entry appended to the insertion log), calling the generated buffer
   primitives of Gen/GenTypedBuf.v.  Vocabulary (Proofs/GenMessagesP.v):
     absSpan / absCallReq / ... = the model record of a Go message struct (the id field dropped);
     bokR g = the unread bytes of g are bytes (Go typing), kept by every read;
     stepWE o g m = the generated write method o: no panic, wfW kept, new buffer seen through
        absW = m applied to the old view, returned error = the buffer's error;
     stepRE abs o g m = the generated read method o: no panic, (abs message, view of the new
        buffer) = m applied to the old view, bokR kept, returned error = the buffer's error.
   Hypotheses are Go typing facts (a byte field is 0..255) and, for FrameHeader.write, that
   fh.reserved is the zero array (nothing in the library assigns it; read drops the 8 bytes).
   Still hand-written (tied by correspondence only): Frame.write / Frame.read / ReadBody /
   ReadIn / WriteOut (interface-typed message, io.Reader / io.Writer).
   ====================================================================================== *)
From Verif Require Import Gen.GenMessages Proofs.GenMessagesP.

Theorem C06_messages_generated :
  (* ---- write methods (messages.go, tracing.go, frame.go) ---- *)
  (forall s g, wfW g -> 0 <= Span_flags s < 256 -> stepWE (Span_write s g) g (w_span (absSpan s))) /\
  (forall h g, wfW g -> stepW (transportHeaders_write h g) g (w_headers h)) /\
  (forall m g, wfW g -> 0 <= Span_flags (callReq_Tracing m) < 256 ->
     stepWE (callReq_write m g) g (w_callreq (absCallReq m))) /\
  (forall m g, wfW g -> 0 <= Span_flags (callRes_Tracing m) < 256 ->
     stepWE (callRes_write m g) g (w_callres (absCallRes m))) /\
  (forall m g, wfW g -> 0 <= Span_flags (errorMessage_tracing m) < 256 ->
     stepWE (errorMessage_write m g) g (w_error (absError m))) /\
  (forall m g, wfW g -> 0 <= Span_flags (cancelMessage_tracing m) < 256 ->
     stepWE (cancelMessage_write m g) g (w_cancel (absCancel m))) /\
  (forall m g, wfW g -> stepWE (initMessage_write m g) g (Messages.w_init (absInit m))) /\
  (forall h g, wfW g -> 0 <= FrameHeader_reserved1 h < 256 -> FrameHeader_reserved h = repeat 0 8 ->
     stepWE (FrameHeader_write h g) g (w_fheader (absFH h))) /\
  (* ---- read methods ---- *)
  (forall s g, bokR g -> stepRE absSpan (Span_read s g) g r_span) /\
  (forall ch g, bokR g ->
     exists h g', transportHeaders_read ch g = Some (ch ++ h, g') /\ (h, absR g') = r_headers (absR g) /\ bokR g') /\
  (forall m g, bokR g -> stepRE absCallReq (callReq_read m g) g r_callreq) /\
  (forall m g, bokR g -> stepRE absCallRes (callRes_read m g) g r_callres) /\
  (forall m g, bokR g -> stepRE absError (errorMessage_read m g) g r_error) /\
  (forall m g, bokR g -> stepRE absCancel (cancelMessage_read m g) g r_cancel) /\
  (forall m g, bokR g -> stepRE absInit (initMessage_read m g) g Messages.r_init) /\
  (forall h g, bokR g -> stepRE absFH (FrameHeader_read h g) g r_fheader) /\
  (forall h g e h' g', FrameHeader_read h g = Some (e, h', g') -> FrameHeader_reserved h' = FrameHeader_reserved h) /\
  (* ---- messages without a body: ping req/res, call req continue (noBodyMsg), call res continue ---- *)
  (forall x r, noBodyMsg_read x r = Some 0) /\ (forall x w, noBodyMsg_write x w = Some 0) /\
  (forall c r, callResContinue_read c r = Some 0) /\ (forall c w, callResContinue_write c w = Some 0).
Proof. exact messages_generated. Qed.

Print Assumptions C06_messages_generated.

(* non-vacuity: the generated callReq.write on a concrete message, next to the model, and the
   generated callReq.read of the bytes written *)
Example C06_example_messages_generated :
  let m := mk_callReq 7 (1500 * 1000000) (mk_Span 3 2 1 1) [([97; 115], [114; 97; 119])] [115; 118; 99] in
  let g := mk_WriteBuffer (Some (repeat 0 64)) (Some (mkSref 0 64)) 0 in
  let bytes := [0;0;5;220; 0;0;0;0;0;0;0;1; 0;0;0;0;0;0;0;2; 0;0;0;0;0;0;0;3; 1; 3;115;118;99; 1; 2;97;115; 3;114;97;119] in
  option_map (fun p => (fst p, wout (absW (snd p)))) (callReq_write m g) = Some (0, bytes) /\
  wout (w_callreq (absCallReq m) (wb 64)) = bytes /\
  option_map (fun p => (fst (fst p), absCallReq (snd (fst p)), absR (snd p)))
             (callReq_read (mk_callReq 7 0 (mk_Span 0 0 0 0) [] []) (mk_ReadBuffer (Some (bytes ++ [9])) 0))
    = Some (0, absCallReq m, rb [9]).
Proof. cbv zeta. split; [vm_compute; reflexivity|]. split; vm_compute; reflexivity. Qed.

(* ======================================================================================
   "Frame headers carry the exact ... type and id" for the messages the library sends IN ANSWER
   to a frame: the header of a response carries the id of the request and the type the protocol
   document pairs with it -- init req -> init res, ping req -> ping res, call req -> call res
   (+ call res continue) or error, handshake refusals -> error -- for every id.

   Vocabulary.  Spec/ReplyHdr.v (literals only): s_answer_init / s_answer_ping / s_answer_call /
   s_answer_error id = the (type, id) headers of the answer; s_replyhdr = a scripted connection.
   Model/MsgRun.v: reply_init / reply_init_refused / reply_ping / reply_call / reply_error (one
   function per kind of request, generated type codes), run_replyhdr / run_replyhdr_out = the
   entry points replayed against the implementation by engine "msgreply".
   Proofs/ReplyHdrP.v code_*: the id hand-over chains of the Go code, assembled from definitions
   REGENERATED from the source on every run -- Gen/GenReplySites.v: for each function that builds
   an answer, the list of the id expressions at ALL its sites of one kind (argument of
   getInitMessage / initError / SendSystemError / protocolError / newExchange, key id of pingRes /
   errorMessage / initMessage / cancelMessage literals, key msgID of the exchange, assignments to
   frame.Header.ID / .messageType, index of the exchange map), local variables resolved to their
   definitions; Gen/GenReplyIds.v: ID() and messageType() of every message struct, the header
   assignments of Frame.write, the id readMessage returns, outboundHandshake's id test.
   ctl_hdr t i = the header Frame.write produces for a message reporting type t and id i.
   ====================================================================================== *)
From Verif Require Import Gen.GenReplyIds Gen.GenReplySites Model.MsgRun Spec.ReplyHdr Proofs.ReplySpecP Proofs.ReplyHdrP.

(* the reply-header model is the protocol document's pairing, for every script and every id *)
Theorem C06_reply_spec : forall c, run_replyhdr c = s_replyhdr c.
Proof. exact run_replyhdr_spec. Qed.
Theorem C06_reply_out_spec : forall c, run_replyhdr_out c = s_replyhdr_out 1 c.
Proof. exact run_replyhdr_out_spec. Qed.
(* every header of every answer carries the id of its request *)
Theorem C06_reply_ids : forall id frag,
  Forall (fun h => snd h = id)
         (reply_init id ++ reply_init_refused id ++ reply_ping id ++ reply_call frag id ++ reply_error id).
Proof. exact reply_ids_are_the_requests. Qed.

(* the code's hand-over chains, regenerated from the source, ARE the model's reply headers: for
   the frame id fid read from the request, whatever the other inputs of the functions on the way
   (mm / ie = readMessage's type tests), the init res, the handshake's error frame, the ping res,
   the protocol error of a ping on a closed connection, both refusals of a call req on a closing
   connection, the duplicate-id protocol error, a handler's system error, the first and every
   further response fragment, the id of the decoded call req and the exchange a cancel frame
   cancels all carry exactly fid (and the specified type) *)
Theorem C06_reply_headers_generated :
  (forall mm ie fid, code_reply_init mm ie fid = map Some (reply_init fid)) /\
  (forall mm ie fid, code_reply_init_refused mm ie fid = map Some (reply_init_refused fid)) /\
  (forall fid, code_reply_ping fid = map Some (reply_ping fid)) /\
  (forall fid, code_ping_proto fid = map Some (reply_error fid)) /\
  (forall fid, code_callreq_refusals fid = map Some (reply_error fid ++ reply_error fid)) /\
  (forall fid, code_callreq_proto fid = map Some (reply_error fid)) /\
  (forall fid, code_handler_error fid = map Some (reply_error fid)) /\
  (forall (frag : bool) fid, code_fragment true fid ++ (if frag then code_fragment false fid else []) = reply_call frag fid) /\
  (forall fid, map callReq_ID (callReqMsgIds fid) = [fid]) /\
  (forall fid, cancelLookupIds fid = [fid]).
Proof. exact reply_headers_generated. Qed.

(* the connecting side: the init req carries out_init_id (= 1), a refused init res is answered
   with an error frame of that id, an init res is accepted exactly when it carries that id, and
   the cancel frame sent for a call carries the id of the call's exchange *)
Theorem C06_out_headers_generated :
  code_out_init_req = [Some (c_messageTypeInitReq, out_init_id)] /\
  code_out_init_err = [Some (c_messageTypeError, out_init_id)] /\
  (forall id, map (outboundInitResAccept id) (flat_map getInitMessageIds outboundInitReqIds) = [out_accepts id]) /\
  (forall id, out_accepts id = true <-> id = out_init_id) /\
  (forall mex_id, code_cancel_sent mex_id = [Some (c_messageTypeCancel, mex_id)]).
Proof. exact out_headers_generated. Qed.

(* messageType() of every message struct = the code of the protocol document; Frame.write copies
   the message's id and type into the header unchanged; readMessage hands the handshake the id of
   the frame it read (0 only when no frame could be read) *)
Theorem C06_message_types_generated :
  [initReq_messageType; initRes_messageType; callReq_messageType; callRes_messageType;
   callReqContinue_messageType; callResContinue_messageType; cancelMessage_messageType;
   pingReq_messageType; pingRes_messageType; errorMessage_messageType]
  = [1; 2; 3; 4; 19; 20; 192; 208; 209; 255].
Proof. exact message_types_ok. Qed.
Theorem C06_frame_write_header : forall failed t i,
  frameWriteType failed t = (if failed then None else Some t) /\ frameWriteId failed i = (if failed then None else Some i).
Proof. exact frame_write_hdr. Qed.
Theorem C06_read_message_id : forall rf mm ie fid, readMessageId rf mm ie fid = if rf then 0 else fid.
Proof. exact read_message_id. Qed.

(* no other place of the package writes a header id / type, sends an error frame or builds an
   id-carrying message: every such site (table regenerated from the source) is in a function of
   the chains above -- whose site lists are complete (counts agree) --, in a function that only
   decodes a received frame or originates a request, or in relay.go *)
Theorem C06_reply_sites_closed :
  forallb rid_row_ok reply_id_table = true /\
  forallb (fun e : String.string * Z * nat => let '(fn, kind, n) := e in Nat.eqb (rid_count fn kind) n) rid_expected = true.
Proof. exact reply_id_table_covered. Qed.

Print Assumptions C06_reply_spec.
Print Assumptions C06_reply_sites_closed.
Print Assumptions C06_reply_headers_generated.
Print Assumptions C06_out_headers_generated.
Print Assumptions C06_read_message_id.

(* non-vacuity: a connection opened with init req id 0xFFFFFFFE, a ping with id 0, a fragmented
   answer to call 0x01000000, two calls 7 and 2 answered in reverse order *)
Example C06_example_reply :
  run_replyhdr [0; 4294967294;  0; 0; 0;  2; 16777216; 0;  4; 7; 2]
  = [2; 4294967294;  209; 0;  4; 16777216; 20; 16777216;  4; 2; 4; 7] /\
  run_replyhdr [1; 7] = [255; 7] /\
  run_replyhdr_out [0; 2] = [1; 1; 1; 192; 2] /\ run_replyhdr_out [4294967295; 0] = [1; 1; 0; 255; 1] /\
  code_reply_init false false 4294967294 = [Some (2, 4294967294)].
Proof. repeat split; vm_compute; reflexivity. Qed.

(* ======================================================================================
   SECONDARY, IN-PLACE decoders / encoders of message fields.  Next to the read / write method of
   every message the library reads (and once overwrites) single fields straight at their offset
   in a frame's payload: messages.go callReqSpan (the tracing of a call req a closing connection
   or a relay answers with an error frame), relay_messages.go lazyCallReq.Span / TTL / SetTTL /
   Service / HasMoreFragments, lazyError.Code, isCallResOK / lazyCallRes.OK, hasMoreFragments,
   finishesCall, frame.go SizedPayload.  "Decoding returns the original fields, for every span bit
   pattern" and "the bytes equal the specification's" hold for them too:

   Vocabulary.  Spec/C06InPlaceSpec.v (literals only, field encoders of Spec/Protocol.v):
     s_ip_callreq flags ttl_ms tracing service rest = flags:1 ttl:4 tracing:25 service~1 rest
     (the complete call req of Spec/ProtocolCall.v is the instance rest = headers ++ csumtype ...),
     s_ip_callres flags code rest = flags:1 code:1 rest, s_ip_more = bit 0x01 of the flags,
     s_ip_finishes = "this frame ends the call", s_run_c06inplace = the specified observable of a
     harness case (the case carries FIELDS).
   Model/C06InPlace.v: ip_span / ip_ttl / ip_set_ttl / ip_service / ip_more / ip_err_code /
     ip_res_ok / ip_finishes / ip_error_payload = one definition per Go function over the payload
     bytes at the GENERATED offsets (None = the Go code panics); run_c06inplace = the accessors run
     on the payload the specification encoder lays out (engine c06inplace replays it on the real code).
   Gen/GenC06InPlace.v (go2v/c06inplace.go, regenerated on every run): ip_callReqSpan, ip_lazyCallReq_*
     ... = the Go functions themselves; ip_frame h p = a Frame with header h and payload bytes p.
   ====================================================================================== *)
From Verif Require Import Gen.GenC06InPlace Spec.C06InPlaceSpec Model.C06InPlace Proofs.C06InPlaceP Proofs.C06InPlaceGenP.

(* the offsets used by the code are the places of the specified layout *)
Theorem C06_inplace_offsets :
  [c_u_flagsIndex; c_u_ttlIndex; c_u_ttlLen; c_u_spanIndex; c_u_spanLength; c_u_serviceLenIndex; c_u_serviceNameIndex;
   c_u_resCodeIndex; c_u_resCodeOK; c_u_errCodeIndex; c_hasMoreFragmentsFlag]
  = [0; 1; 4; 5; 25; 30; 31; 1; 0; 0; 1].
Proof. exact ip_offsets. Qed.

(* for every call req laid out by the specification -- every span bit pattern, every ttl, every
   service name, anything behind it -- the in-place decoders return the fields: the span in WIRE
   order (spanid, parentid, traceid, flags), the ttl in ns, the service name; SetTTL changes the
   ttl field and nothing else; the error frame built for the call carries the call's tracing *)
Theorem C06_inplace_callreq : forall flags ttl_ms a b c d service rest,
  u_ok 8 a -> u_ok 8 b -> u_ok 8 c -> u_ok 1 d -> 0 <= ttl_ms < 4294967296 -> zlen service <= 255 ->
  let tr := s_tracing a b c d in
  let p := s_ip_callreq flags ttl_ms tr service rest in
  ip_span p = Some (mkSpan a b c d) /\
  ip_ttl p = Some (ttl_ms * 1000000) /\
  ip_service p = Some service /\
  (forall dns, 0 <= dns < 4294967296000000 ->
     ip_set_ttl p dns = Some (s_ip_callreq flags (dns / 1000000) tr service rest)) /\
  (forall code msg, 0 <= code < 256 -> zlen msg <= 65491 -> bytes_ok msg = true ->
     ip_error_payload p code msg = Some (s_error code tr msg)).
Proof. exact ip_callreq_fields. Qed.

(* the flag / code bytes: more-fragments bit, "ends the call", call res ok, error code *)
Theorem C06_inplace_bytes :
  (forall flags r, 0 <= flags < 256 -> ip_more (flags :: r) = Some (s_ip_more flags)) /\
  (forall mtype flags r, 0 <= flags < 256 -> ip_finishes mtype (flags :: r) = Some (s_ip_finishes mtype flags)) /\
  (forall flags code r, ip_res_ok (s_ip_callres flags code r) = Some (code =? 0)) /\
  (forall code tr msg, 0 <= code < 256 -> ip_err_code (s_error code tr msg) = Some code).
Proof. exact ip_byte_fields. Qed.

(* the entry point the engine replays against the implementation IS the specified observable *)
Theorem C06_inplace_spec : forall c, run_c06inplace c = s_run_c06inplace c.
Proof. exact run_c06inplace_spec. Qed.

(* the model is the code: every in-place function REGENERATED from the source agrees with its
   model definition, on every frame (header h, payload bytes p); no panic iff the model has a value *)
Theorem C06_inplace_generated :
  (forall h p, bytes_ok p = true -> option_map absSpan (ip_callReqSpan (ip_frame h p)) = ip_span p) /\
  (forall h p, bytes_ok p = true -> option_map absSpan (ip_lazyCallReq_Span (mk_lazyCallReq (ip_frame h p))) = ip_span p) /\
  (forall h p, ip_lazyCallReq_TTL (mk_lazyCallReq (ip_frame h p)) = ip_ttl p) /\
  (forall h p d,
     option_map (fun r => (Frame_Header (lazyCallReq_Frame r), bs_list (Frame_Payload (lazyCallReq_Frame r))))
                (ip_lazyCallReq_SetTTL (mk_lazyCallReq (ip_frame h p)) d) = option_map (fun q => (h, q)) (ip_set_ttl p d)) /\
  (forall h p, option_map bs_list (ip_lazyCallReq_Service (mk_lazyCallReq (ip_frame h p))) = ip_service p) /\
  (forall h p, ip_hasMoreFragments (ip_frame h p) = ip_more p /\
               ip_lazyCallReq_HasMoreFragments (mk_lazyCallReq (ip_frame h p)) = ip_more p) /\
  (forall h p, ip_lazyError_Code (mk_lazyError (ip_frame h p)) = ip_err_code p) /\
  (forall h p, ip_isCallResOK (ip_frame h p) = ip_res_ok p /\ ip_lazyCallRes_OK (mk_lazyCallRes (ip_frame h p)) = ip_res_ok p) /\
  (forall h p, ip_finishesCall (ip_frame h p) = ip_finishes (FrameHeader_messageType h) p) /\
  (forall h p, option_map bs_list (ip_Frame_SizedPayload (ip_frame h p)) = ip_slice p 0 (wrapU 16 (FrameHeader_size h - 16))).
Proof. exact inplace_generated. Qed.

(* composed: the REGENERATED callReqSpan / lazyCallReq.Span on a call req laid out by the
   specification return a Go Span whose spanID / parentID / traceID / flags are the specification's
   spanid / parentid / traceid / traceflags -- for every bit pattern *)
Theorem C06_inplace_span_generated : forall h flags ttl_ms a b c d service rest,
  u_ok 8 a -> u_ok 8 b -> u_ok 8 c -> u_ok 1 d -> 0 <= flags < 256 ->
  zlen service <= 255 -> bytes_ok service = true -> bytes_ok rest = true ->
  let f := ip_frame h (s_ip_callreq flags ttl_ms (s_tracing a b c d) service rest) in
  exists s, ip_callReqSpan f = Some s /\ ip_lazyCallReq_Span (mk_lazyCallReq f) = Some s /\
            Span_spanID s = a /\ Span_parentID s = b /\ Span_traceID s = c /\ Span_flags s = d.
Proof. exact inplace_span_generated. Qed.

(* ... and the REGENERATED errorMessage.write of the error frame SendSystemError builds with that
   span appends code:1, THE CALL REQ'S 25 tracing bytes, message~2 *)
Theorem C06_inplace_error_frame_generated : forall h flags ttl_ms a b c d service rest,
  u_ok 8 a -> u_ok 8 b -> u_ok 8 c -> u_ok 1 d -> 0 <= flags < 256 ->
  zlen service <= 255 -> bytes_ok service = true -> bytes_ok rest = true ->
  forall s id code msg g,
  ip_callReqSpan (ip_frame h (s_ip_callreq flags ttl_ms (s_tracing a b c d) service rest)) = Some s ->
  wfW g -> 0 <= code < 256 -> zlen msg <= 65535 -> bytes_ok msg = true ->
  WriteBuffer_err g = 0 -> zlen (s_error code (s_tracing a b c d) msg) <= rs_len (WriteBuffer_remaining g) ->
  exists e g', errorMessage_write (mk_errorMessage id code s msg) g = Some (e, g') /\
               wout (absW g') = wout (absW g) ++ s_error code (s_tracing a b c d) msg /\ werr (absW g') = 0.
Proof. exact inplace_error_frame_generated. Qed.

(* the in-place parts of the relay's hand model (Model/RelayLazy.v: C08 / C14) are the same functions *)
Theorem C06_inplace_relay_model : forall p, 30 <= zlen p ->
  ip_span p = Some (RelayLazy.span_of p) /\
  ip_ttl p = Some (GenRelayFwd.lazyTTL (RelayLazy.lazy_ttl_ms p)) /\
  (forall d, ip_set_ttl p d = Some (RelayLazy.set_ttl p d)).
Proof. exact ip_relaylazy_agree. Qed.

Print Assumptions C06_inplace_callreq.
Print Assumptions C06_inplace_spec.
Print Assumptions C06_inplace_generated.
Print Assumptions C06_inplace_span_generated.
Print Assumptions C06_inplace_error_frame_generated.

(* non-vacuity: a call req with a NON-ROOT span (span id 0x2122..28, parent 0x1112..18, trace
   0x0102..08), more-fragments flag set, ttl 1500 ms, service "svc": the regenerated decoders on
   the specified bytes, and the tracing bytes of the error frame *)
Example C06_example_inplace :
  let a := 2387509390608836392 in let b := 1230066625199609624 in let c := 72623859790382856 in
  let p := s_ip_callreq 1 1500 (s_tracing a b c 1) [115; 118; 99] [0; 0; 0; 0; 0; 0; 0; 0; 0] in
  let f := ip_frame (mk_FrameHeader 56 3 0 7 (repeat 0 8)) p in
  ip_callReqSpan f = Some (mk_Span c b a 1) /\
  ip_lazyCallReq_TTL (mk_lazyCallReq f) = Some 1500000000 /\
  option_map bs_list (ip_lazyCallReq_Service (mk_lazyCallReq f)) = Some [115; 118; 99] /\
  ip_hasMoreFragments f = Some true /\ ip_finishesCall f = Some false /\
  ip_error_payload p 3 [98; 117; 115; 121]
    = Some ([3; 33;34;35;36;37;38;39;40; 17;18;19;20;21;22;23;24; 1;2;3;4;5;6;7;8; 1; 0;4; 98;117;115;121]) /\
  run_c06inplace ([0; 1; 1500; 555885348; 623257384; 286397204; 353769240; 16909060; 84281096; 1; 2000000000; 3]
                  ++ [3; 115; 118; 99] ++ [1; 0] ++ [4; 98; 117; 115; 121])
    = [0; 555885348; 623257384; 286397204; 353769240; 16909060; 84281096; 1; 1500000000; 1; 0; 3; 115; 118; 99]
      ++ [35; 1; 0;0;7;208; 33;34;35;36;37;38;39;40; 17;18;19;20;21;22;23;24; 1;2;3;4;5;6;7;8; 1; 3;115;118;99; 0]
      ++ [32; 3; 33;34;35;36;37;38;39;40; 17;18;19;20;21;22;23;24; 1;2;3;4;5;6;7;8; 1; 0;4; 98;117;115;121].
Proof. cbv zeta. repeat split; vm_compute; reflexivity. Qed.
