(* Property C17 -- Retries follow the documented policy and the attempt budget.
   This file contains only statements, each closed by [exact]. *)
From Coq Require Import ZArith List Bool.
From Verif Require Import Base.Wrap Gen.GenConsts Gen.GenRetry Spec.RetryTable Model.Retry Proofs.RetryP
  Spec.PeerSelect Model.PeerHeap Model.PeerList Proofs.PeerListP Proofs.RetryAvoidP.
Import ListNotations.
Local Open Scope Z_scope.

(* The translated CanRetry is the documented table, for every policy, every error code
   (any integer, in particular 0x00..0xff), net.Error or not, system error or not. *)
Theorem C17_table : forall r p e, policy_of r = Some p -> e_nil e = false ->
  CanRetry r e = retryable p (classify e).
Proof. exact can_retry_matches_table. Qed.
Print Assumptions C17_table.

(* At least one and at most MaxAttempts (5 when 0/unset) invocations, numbered 1..k. *)
Theorem C17_budget : forall o f,
  let r := run_with_retry o f in
  let m := match o with None => 5 | Some o => if max_attempts o =? 0 then 5 else max_attempts o end in
  1 <= m ->
  (1 <= length (snd r))%nat /\ Z.of_nat (length (snd r)) <= m /\
  map ao_attempt (snd r) = map (fun i => 1 + Z.of_nat i) (seq 0 (length (snd r))).
Proof. intros o f. rewrite <- budget_default. exact (run_calls_bounded o f). Qed.
Print Assumptions C17_budget.

(* Stop at the first success or first non-retryable error, else after the budget; the
   result is nil on success, otherwise the last error. *)
Theorem C17_stop : forall o outs f,
  let opts := get_retry_options o in
  let n := Z.to_nat (max_attempts opts) in
  (n <= length outs)%nat ->
  (forall a s, 0 < a -> fst (f a s) = nth (Z.to_nat (a - 1)) outs nil_err) ->
  let r := fst (run_with_retry o f) in
  let k := length (snd (run_with_retry o f)) in
  (k <= n)%nat /\
  (forall i, (i + 1 < k)%nat -> e_nil (nth i outs nil_err) = false /\ CanRetry (retry_on opts) (nth i outs nil_err) = true) /\
  (k <> O -> let e := nth (k - 1) outs nil_err in
     (e_nil e = true /\ r = nil_err) \/
     (e_nil e = false /\ r = e /\ (CanRetry (retry_on opts) e = false \/ k = n))).
Proof. exact run_stop. Qed.
Print Assumptions C17_stop.

(* Each attempt sees its number and exactly the peers (host:port and host) marked by the
   attempts before it. *)
Theorem C17_seen : forall o f,
  match snd (run_with_retry o f) with
  | [] => True
  | o1 :: r => ao_seen o1 = [] /\ ao_attempt o1 = 1 /\ chain_ok f o1 r
  end.
Proof. exact run_seen. Qed.
Print Assumptions C17_seen.

(* Sub-channel calls avoid the peers already tried while untried ones exist: after any
   history of the peer list, Get with the request's selected set [prev] returns a peer whose
   host:port is untried if any member's is, and whose host is untried as well if any member
   has both untried (the selected set holds host:ports and hosts, C17_seen). *)
Theorem C17_avoid : forall ops l prev d l' p n,
  lrun pl_empty ops = Some l -> pl_get l prev d = Some (l', SelOk p, n) ->
  ((exists q, In q (pl_keys l) /\ tier2 prev q = true) -> tier2 prev p = true) /\
  ((exists q, In q (pl_keys l) /\ tier1 prev q = true) -> tier1 prev p = true).
Proof. exact get_avoids_tried. Qed.
Print Assumptions C17_avoid.

(* Non-vacuity: a concrete run (busy, busy, success under the default policy). *)
Example C17_example :
  let busy := {| e_nil := false; e_sys := true; e_code := 3; e_net := false |} in
  let f : attempt_fn := fun a _ => (nth (Z.to_nat (a - 1)) [busy; busy; nil_err] nil_err, [[49; 58; 50]]) in
  fst (run_with_retry None f) = nil_err /\ map ao_attempt (snd (run_with_retry None f)) = [1; 2; 3]
  /\ map ao_seen (snd (run_with_retry None f)) = [[]; [[49;58;50];[49]]; [[49;58;50];[49];[49;58;50];[49]]].
Proof. vm_compute. repeat split. Qed.
