(* Property C17 -- Retries follow the documented policy and the attempt budget.
   This file contains only statements, each closed by [exact]. *)
From Coq Require Import ZArith List Bool.
From Verif Require Import Base.Wrap Gen.GenConsts Gen.GenRetry Spec.RetryTable Model.Retry Proofs.RetryP
  Spec.PeerSelect Model.PeerHeap Model.PeerList Proofs.PeerListP Proofs.RetryAvoidP.
From Verif Require Import Base.GoErr Gen.GenErrors Gen.GenRetryOpts Gen.GenRetryErr Spec.RetryOptsSpec
  Model.RetryOpts Proofs.RetryOptsP.
Import ListNotations.
Local Open Scope Z_scope.

(* The translated CanRetry is the documented table, for every policy, every error code
   (any integer, in particular 0x00..0xff), net.Error or not, system error or not. *)
Theorem C17_table : forall r p e, policy_of r = Some p -> e_nil e = false ->
  CanRetry r e = retryable p (classify e).
Proof. exact can_retry_matches_table. Qed.
Print Assumptions C17_table.

(* At least one and at most MaxAttempts (5 when 0/unset) invocations, numbered 1..k. *)
Theorem C17_budget : forall o f,
  let r := run_with_retry o f in
  let m := match o with None => 5 | Some o => if max_attempts o =? 0 then 5 else max_attempts o end in
  1 <= m ->
  (1 <= length (snd r))%nat /\ Z.of_nat (length (snd r)) <= m /\
  map ao_attempt (snd r) = map (fun i => 1 + Z.of_nat i) (seq 0 (length (snd r))).
Proof. intros o f. rewrite <- budget_default. exact (run_calls_bounded o f). Qed.
Print Assumptions C17_budget.

(* Stop at the first success or first non-retryable error, else after the budget; the
   result is nil on success, otherwise the last error. *)
Theorem C17_stop : forall o outs f,
  let opts := get_retry_options o in
  let n := Z.to_nat (max_attempts opts) in
  (n <= length outs)%nat ->
  (forall a s, 0 < a -> fst (f a s) = nth (Z.to_nat (a - 1)) outs nil_err) ->
  let r := fst (run_with_retry o f) in
  let k := length (snd (run_with_retry o f)) in
  (k <= n)%nat /\
  (forall i, (i + 1 < k)%nat -> e_nil (nth i outs nil_err) = false /\ CanRetry (retry_on opts) (nth i outs nil_err) = true) /\
  (k <> O -> let e := nth (k - 1) outs nil_err in
     (e_nil e = true /\ r = nil_err) \/
     (e_nil e = false /\ r = e /\ (CanRetry (retry_on opts) e = false \/ k = n))).
Proof. exact run_stop. Qed.
Print Assumptions C17_stop.

(* Each attempt sees its number and exactly the peers (host:port and host) marked by the
   attempts before it. *)
Theorem C17_seen : forall o f,
  match snd (run_with_retry o f) with
  | [] => True
  | o1 :: r => ao_seen o1 = [] /\ ao_attempt o1 = 1 /\ chain_ok f o1 r
  end.
Proof. exact run_seen. Qed.
Print Assumptions C17_seen.

(* Sub-channel calls avoid the peers already tried while untried ones exist: after any
   history of the peer list, Get with the request's selected set [prev] returns a peer whose
   host:port is untried if any member's is, and whose host is untried as well if any member
   has both untried (the selected set holds host:ports and hosts, C17_seen). *)
Theorem C17_avoid : forall ops l prev d l' p n,
  lrun pl_empty ops = Some l -> pl_get l prev d = Some (l', SelOk p, n) ->
  ((exists q, In q (pl_keys l) /\ tier2 prev q = true) -> tier2 prev p = true) /\
  ((exists q, In q (pl_keys l) /\ tier1 prev q = true) -> tier1 prev p = true).
Proof. exact get_avoids_tried. Qed.
Print Assumptions C17_avoid.

(* Non-vacuity: a concrete run (busy, busy, success under the default policy). *)
Example C17_example :
  let busy := {| e_nil := false; e_sys := true; e_code := 3; e_net := false |} in
  let f : attempt_fn := fun a _ => (nth (Z.to_nat (a - 1)) [busy; busy; nil_err] nil_err, [[49; 58; 50]]) in
  fst (run_with_retry None f) = nil_err /\ map ao_attempt (snd (run_with_retry None f)) = [1; 2; 3]
  /\ map ao_seen (snd (run_with_retry None f)) = [[]; [[49;58;50];[49]]; [[49;58;50];[49];[49;58;50];[49]]].
Proof. vm_compute. repeat split. Qed.

(* ---------------------------------------------------------------------------------------
   The options path and the error classification (definitions regenerated from
   context_builder.go / retry.go / errors.go: Gen/GenRetryOpts.v, Gen/GenRetryErr.v).      *)

(* For every sequence of ContextBuilder setter calls (SetRetryOptions with nil or any struct,
   SetTimeoutPerAttempt; any order, repeated), Build + getRetryOptions never panic and
   RunWithRetry sees, per field, the last value given to that field, MaxAttempts 0 => 5,
   nothing set / a context without TChannel parameters => (5, RetryDefault, 0). *)
Theorem C17_options : forall has_params ops,
  cb_effective has_params ops = Some (cb_of (spec_effective has_params ops)).
Proof. exact cb_effective_spec. Qed.
Print Assumptions C17_options.

(* The model of the options path IS the code: each function equals the definition regenerated
   from context_builder.go / retry.go (on the generated RetryOptions record), the default struct
   is the generated one. *)
Theorem C17_options_generated :
  v_defaultRetryOptions = to_gen cb_opts_default /\
  (forall ro a, cbSetRetryOptions (to_genp ro) (to_genp a) = option_map to_genp (m_set_retry_options ro a)) /\
  (forall ro d, cbSetTimeoutPerAttempt (to_genp ro) d = option_map to_genp (m_set_timeout_per_attempt ro d)) /\
  (forall ro, cbBuildRetryOptions (to_genp ro) = to_genp (m_build_retry_options ro)) /\
  (forall hp p, getRetryOptions hp (to_genp p) = option_map to_genp (m_get_retry_options hp p)).
Proof.
  exact (conj tie_default (conj tie_set_retry_options (conj tie_set_timeout_per_attempt
          (conj tie_build tie_get_retry_options)))).
Qed.
Print Assumptions C17_options_generated.

(* ... and the classification the loop model uses (generated CanRetry / getErrCode on the flat
   view of a shape) is the shape-level isNetError / GetSystemErrorCode / getErrCode / CanRetry
   regenerated from retry.go and errors.go. *)
Theorem C17_classes_generated :
  (forall e, getErrCodeS e = m_err_code e) /\ (forall r e, CanRetryS r e = m_can_retry r e).
Proof. exact (conj tie_err_code tie_can_retry). Qed.
Print Assumptions C17_classes_generated.

(* Error classification: for EVERY error shape -- nil, plain (wrapping anything), net.Error,
   SystemError of any code wrapping nil / plain / net.Error / another SystemError, nested to
   any depth -- the code the policy looks at is the documented one: a SystemError's own code
   wins, only a bare net.Error is a network error. *)
Theorem C17_errcode : forall e, getErrCodeS e = spec_err_code e.
Proof. exact errcode_spec. Qed.
Print Assumptions C17_errcode.

(* ... in particular for what the public constructor builds *)
Theorem C17_errcode_wrapped : forall code w,
  getErrCodeS (NewWrappedSystemError g_is_sys GSys code w) = match w with GSys c _ => c | _ => code end.
Proof. exact errcode_new_wrapped. Qed.
Print Assumptions C17_errcode_wrapped.

(* The policy table over shapes (the classification composed with C17_table). *)
Theorem C17_table_shapes : forall r p e, policy_of r = Some p -> e <> GNil ->
  CanRetryS r e = retryable p (classify_shape e).
Proof. exact can_retry_shape_table. Qed.
Print Assumptions C17_table_shapes.

(* The builder path runs the loop of C17_budget / C17_stop / C17_seen with the last-given options. *)
Theorem C17_builder_path : forall has_params ops fs,
  run_with_retry_cb has_params ops fs = Some (run_with_retry (Some (spec_opts has_params ops)) (abs_fn fs)).
Proof. exact run_with_retry_cb_spec. Qed.
Print Assumptions C17_builder_path.

(* Budget over the builder path: 1..m calls numbered 1..k, m = the MaxAttempts last given (0 => 5). *)
Theorem C17_budget_builder : forall (has_params : bool) (ops : list cb_op) fs,
  let m := spec_max_attempts (if has_params then ops else []) in
  1 <= m ->
  exists r, run_with_retry_cb has_params ops fs = Some r /\
    (1 <= length (snd r))%nat /\ Z.of_nat (length (snd r)) <= m /\
    map ao_attempt (snd r) = map (fun i => 1 + Z.of_nat i) (seq 0 (length (snd r))).
Proof. exact run_cb_budget. Qed.
Print Assumptions C17_budget_builder.

(* Stop rule over the builder path, against the documented table on error shapes. *)
Theorem C17_stop_builder : forall (has_params : bool) (ops : list cb_op) (outs : list gerr) fs p,
  let m := spec_max_attempts (if has_params then ops else []) in
  let ron := spec_retry_on (if has_params then ops else []) in
  policy_of ron = Some p ->
  (Z.to_nat m <= length outs)%nat ->
  (forall a s, 0 < a -> fst (fs a s) = nth (Z.to_nat (a - 1)) outs GNil) ->
  exists r log, run_with_retry_cb has_params ops fs = Some (r, log) /\
    let k := length log in
    (k <= Z.to_nat m)%nat /\
    (forall i, (i + 1 < k)%nat ->
       nth i outs GNil <> GNil /\ retryable p (classify_shape (nth i outs GNil)) = true) /\
    (k <> O -> let e := nth (k - 1) outs GNil in
       (e = GNil /\ r = nil_err) \/
       (e <> GNil /\ r = g_abs e /\ (retryable p (classify_shape e) = false \/ k = Z.to_nat m))).
Proof. exact run_cb_stop. Qed.
Print Assumptions C17_stop_builder.

(* The harness encoding reaches every shape. *)
Theorem C17_shape_encoding : forall e rest, take_shape (put_shape e ++ rest) = (e, rest).
Proof. exact take_shape_put. Qed.
Print Assumptions C17_shape_encoding.

(* Non-vacuity: SetRetryOptions{MaxAttempts 2, NonIdempotent} then SetTimeoutPerAttempt keeps the
   budget of 2; a bad-request SystemError wrapping a net.Error is not retried under the default
   policy, a busy one wrapping a net.Error is retried under RetryNonIdempotent. *)
Example C17_example_builder :
  let ops := [OpSetRetryOptions (Some (2, 3, 0)); OpSetTimeoutPerAttempt 1000000] in
  let busy_net := GSys 3 (GNet true) in
  spec_effective true ops = (2, 3, 1000000) /\
  option_map (fun r => map ao_attempt (snd r)) (run_with_retry_cb true ops (fun _ _ => (busy_net, []))) = Some [1; 2] /\
  CanRetryS 0 (GSys 6 (GNet false)) = false /\ CanRetryS 3 busy_net = true /\
  getErrCodeS (GPlain (GNet true)) = 5.
Proof. vm_compute. repeat split. Qed.

(* ---------------------------------------------------------------------------------------
   The request state is private to its run (Model/RetryRuns.v: any number of RunWithRetry runs,
   nested or concurrent, sharing requestStatePool; tables regenerated from retry.go:
   Gen/GenReqStatePool.v).                                                                    *)
From Verif Require Import Gen.GenReqStatePool Model.RetryRuns Proofs.RetryRunsP Proofs.RetryPoolTieP.

(* The life cycle of the pooled RequestState in the source IS the model's: every mention of
   requestStatePool (its declaration with New returning a fresh struct, ONE Get in getRequestState,
   ONE Put in RunWithRetry and that one under `defer`), every occurrence of a variable holding an
   element (bound from the getter, Put deferred, incremented / passed to f / read inside the loop;
   in the getter: bound from Get, reset as a whole, returned); every field of struct RequestState
   -- whatever fields it has -- is written between Get and the getter's return; and the discipline
   these tables describe is [private_cfg]: Put only at the exit of the run, Attempt and
   SelectedPeers reset to zero. *)
Theorem C17_pool_sites :
  rsp_sites = rsp_sites_model /\ rsp_uses = rsp_uses_model /\
  map fst rsp_reset = rsp_fields /\ reset_complete rsp_fields rsp_reset = true /\
  cfg_of_tables rsp_sites rsp_uses rsp_reset = private_cfg.
Proof. exact tables_tie. Qed.
Print Assumptions C17_pool_sites.

(* Pool discipline: in every reachable state of every interleaving, the RequestState of a run
   that has not returned is not in the pool (no Get can hand it out), exists, and is not the
   RequestState of any other run that has not returned. *)
Theorem C17_pool_discipline : forall ls s, exec private_cfg st0 ls = Some s ->
  forall r rn, lookup r (s_runs s) = Some rn -> rc_done (rn_ctl rn) = false ->
    ~ In (rn_obj rn) (s_pool s) /\
    lookup (rn_obj rn) (s_heap s) <> None /\
    (forall r' rn', lookup r' (s_runs s) = Some rn' -> rc_done (rn_ctl rn') = false -> r' <> r ->
       rn_obj rn' <> rn_obj rn).
Proof. exact pool_discipline. Qed.
Print Assumptions C17_pool_discipline.

(* Privacy: whatever the other runs do and however they are interleaved with it (nested in one
   of its attempts, concurrent, any number, any options), a run goes through exactly the states
   of the specification in which it owns its RequestState, fed with its own labels only: same
   locals, same observations of its attempts (attempt number and peers, at the call and at the
   return of the retried function), same result; and until it returns its pooled element holds
   exactly that private state. *)
Theorem C17_runs_private : forall ls s, exec private_cfg st0 ls = Some s ->
  forall r, exists i, iso_exec None (proj r ls) = Some i /\
    match lookup r (s_runs s) with
    | None => i = None
    | Some rn => exists ir, i = Some ir /\ ir_ctl ir = rn_ctl rn /\
                   (rc_done (rn_ctl rn) = false -> lookup (rn_obj rn) (s_heap s) = Some (ir_obj ir))
    end.
Proof. exact runs_private. Qed.
Print Assumptions C17_runs_private.

(* A run on its own is run_with_retry (the loop of C17_budget / C17_stop / C17_seen). *)
Theorem C17_run_alone : forall r k o outs, 0 < max_attempts (get_retry_options o) ->
  exists ir, iso_exec None (run_labels r k o outs) = Some (Some ir) /\
    rc_done (ir_ctl ir) = true /\
    rc_last (ir_ctl ir) = fst (run_with_retry o (scripted outs)) /\
    rc_log (ir_ctl ir) = both_looks (scripted outs) (snd (run_with_retry o (scripted outs))).
Proof. exact run_labels_iso. Qed.
Print Assumptions C17_run_alone.

(* Composition: in any interleaving with other runs, a run that makes the scripted attempts
   returns what run_with_retry returns, and each of its attempts sees -- at its call and at its
   return -- the attempt number and the peers run_with_retry's attempt sees (and its own marks):
   never a number or a peer of another run. *)
Theorem C17_runs_compose : forall ls s r k o outs, exec private_cfg st0 ls = Some s ->
  0 < max_attempts (get_retry_options o) ->
  proj r ls = run_labels r k o outs ->
  exists rn, lookup r (s_runs s) = Some rn /\
    rc_done (rn_ctl rn) = true /\
    rc_last (rn_ctl rn) = fst (run_with_retry o (scripted outs)) /\
    rc_log (rn_ctl rn) = both_looks (scripted outs) (snd (run_with_retry o (scripted outs))).
Proof. exact runs_compose. Qed.
Print Assumptions C17_runs_compose.

(* The discipline is needed.  With the Put not deferred, a run nested in the first attempt of
   another takes the same element: the outer run's attempts see 1 3 4 4 instead of 1 1 2 2 (and
   with the deferred Put that Get is impossible).  With a getter that does not reset Attempt /
   SelectedPeers, the first attempt of the NEXT run sees the previous run's number / peers. *)
Theorem C17_put_must_be_deferred :
  exists s rn, exec (mkCfg false true true) st0 nested_schedule = Some s /\
    lookup 1 (s_runs s) = Some rn /\
    map ao_attempt (rc_log (rn_ctl rn)) = [1; 3; 4; 4] /\
    (exists ir, iso_exec None (proj 1 nested_schedule) = Some (Some ir) /\
                map ao_attempt (rc_log (ir_ctl ir)) = [1; 1; 2; 2]) /\
    exec private_cfg st0 nested_schedule = None.
Proof. exact not_deferred_refuted. Qed.
Print Assumptions C17_put_must_be_deferred.

Theorem C17_reset_needed :
  (exists s rn, exec (mkCfg true false true) st0 sequential_schedule = Some s /\
     lookup 2 (s_runs s) = Some rn /\ map ao_attempt (rc_log (rn_ctl rn)) = [2; 2]) /\
  (exists s rn, exec (mkCfg true true false) st0 sequential_schedule = Some s /\
     lookup 2 (s_runs s) = Some rn /\ map ao_seen (rc_log (rn_ctl rn)) = [[[49]; [49]]; [[49]; [49]]]) /\
  (exists s rn, exec private_cfg st0 sequential_schedule = Some s /\
     lookup 2 (s_runs s) = Some rn /\ map ao_attempt (rc_log (rn_ctl rn)) = [1; 1] /\
     map ao_seen (rc_log (rn_ctl rn)) = [[]; []]).
Proof. exact no_reset_refuted. Qed.
Print Assumptions C17_reset_needed.

(* Non-vacuity: run 2 (3 attempts, peer "2") nested in the first attempt of run 1 (2 attempts,
   peer "1"), each with its own element (8 is new while 7 is held): both complete, run 1 sees
   attempts 1 1 2 2 and at its second attempt exactly its own peer; afterwards both elements are
   back in the pool. *)
Example C17_example_nested :
  let busy := {| e_nil := false; e_sys := true; e_code := 3; e_net := false |} in
  let ls := [ LStart 1 None 7; LEnter 1 7; LMark 1 [49];
                LStart 2 None 8; LEnter 2 8; LMark 2 [50]; LExit 2 busy; LEnter 2 8; LExit 2 busy;
                LEnter 2 8; LExit 2 nil_err;
              LExit 1 busy; LEnter 1 7; LExit 1 nil_err ] in
  option_map (fun s => (s_pool s,
                        option_map (fun rn => (map ao_attempt (rc_log (rn_ctl rn)), map ao_seen (rc_log (rn_ctl rn)))) (lookup 1 (s_runs s)),
                        option_map (fun rn => map ao_attempt (rc_log (rn_ctl rn))) (lookup 2 (s_runs s))))
             (exec private_cfg st0 ls)
  = Some ([7; 8], Some ([1; 1; 2; 2], [[]; [[49]; [49]]; [[49]; [49]]; [[49]; [49]]]), Some [1; 1; 2; 2; 3; 3]).
Proof. vm_compute. reflexivity. Qed.

(* ---------------------------------------------------------------------------------------
   Several calls per attempt (Model/C17Calls.v): the selection input of EVERY call is the
   request's selected set, whatever the attempt number; the BeginCall functions are regenerated
   from subchannel.go / channel.go / peer.go / retry.go (Gen/GenC17Calls.v).                  *)
From Verif Require Import Base.C17CallSem Gen.GenC17Calls Model.C17Calls Proofs.C17CallsP Proofs.C17CallsTieP.

(* The mirrors ARE the code: RequestState.PrevSelectedPeers / RetryCount, the whole of
   Peer.BeginCall (recording the peer in the RequestState is its first effect, before validateCall /
   GetConnection / beginCall can fail), SubChannel.BeginCall (Get is given PrevSelectedPeers of the
   RequestState of the call options, unconditionally), Channel.BeginCall, and the RequestState
   entry of the call options the thrift / json clients build inside their retried function -- for
   every behaviour of the rest of the system (the list's Get, the connection: parameters). *)
Theorem C17_calls_generated :
  (forall rs, c17PrevSelectedPeers rs = m_prev_selected rs) /\
  (forall rs, c17RetryCount rs = m_retry_count rs) /\
  (forall (K C : Type) validate (gc : K * Z) (cb : K -> c17co -> C * Z) (nc : C) p ctx sn mn co,
     c17PeerBeginCall validate gc cb nc p ctx sn mn co = m_peer_begin_call validate gc cb nc p co) /\
  (forall (P C : Type) (get : list (list Z) -> P * Z) (begin : P -> c17co -> C * Z) (nc : C) ctx mn co,
     c17SubChannelBeginCall get begin nc ctx mn co = m_sc_begin_call get begin nc co) /\
  (forall (P C : Type) (goa : list Z -> P) (begin : P -> c17co -> C * Z) ctx sn mn hp co,
     c17ChannelBeginCall goa begin ctx sn mn hp co = m_ch_begin_call goa begin hp co) /\
  (forall rs, c17ThriftCallRequestState rs = rs /\ c17JsonCallRequestState rs = rs).
Proof.
  exact (conj tie_prev_selected (conj tie_retry_count (conj tie_peer_begin_call
          (conj tie_sc_begin_call (conj tie_ch_begin_call tie_clients))))).
Qed.
Print Assumptions C17_calls_generated.

(* A run whose attempts make calls is a run of the private-state specification (C17_run_alone,
   C17_runs_private: numbering, budget, stop rule) on the labels start / enter / one LMark per peer
   a call recorded / exit; the lists keep their members. *)
Theorem C17_calls_run : forall lists acts s,
  Forall (fun l => exists ops, lrun pl_empty ops = Some l) lists ->
  c_exec sc_model (c_init lists) acts = Some s ->
  iso_exec None (cs_labels s) = Some (cs_run s) /\
  map pl_keys (cs_lists s) = map pl_keys lists.
Proof. exact calls_run_is_iso. Qed.
Print Assumptions C17_calls_run.

(* Sub-channel calls avoid the peers already tried while untried ones exist -- EVERY call: after
   any history of the run (any number of attempts, each with any number of direct calls,
   sub-channel calls on any of the lists, calls that carry no RequestState), while an attempt is
   running -- the first included --, a sub-channel call with the RequestState is handed exactly
   what the run's calls have recorded so far ([tried], see C17_tried_members) and goes to a member
   whose host:port is untried if any member's is, and whose host is untried too if any member has
   both untried; the peer is recorded in turn.  (An empty list: no peer, nothing recorded.) *)
Theorem C17_every_call_avoids : forall lists acts s j l ir,
  Forall (fun l => exists ops, lrun pl_empty ops = Some l) lists ->
  c_exec sc_model (c_init lists) acts = Some s ->
  cs_run s = Some ir -> ctl_can_mark (ir_ctl ir) = true ->
  nth_error (cs_lists s) j = Some l ->
  let tried := fold_left add_selected (cs_marks s) [] in
  ro_sel (ir_obj ir) = tried /\
  exists s' p, c_step sc_model s (ACall (CSub j 0)) = Some s' /\ cs_picks s' = cs_picks s ++ [p] /\
    ((pl_keys l = [] /\ p = [] /\ cs_marks s' = cs_marks s) \/
     (In p (pl_keys l) /\ cs_marks s' = cs_marks s ++ [p] /\
      ((exists q, In q (pl_keys l) /\ tier2 tried q = true) -> tier2 tried p = true) /\
      ((exists q, In q (pl_keys l) /\ tier1 tried q = true) -> tier1 tried p = true))).
Proof. exact every_call_avoids. Qed.
Print Assumptions C17_every_call_avoids.

(* the selected set holds exactly the host:ports the run's calls recorded, and their hosts *)
Theorem C17_tried_members : forall marks x,
  In x (fold_left add_selected marks []) <-> exists p, In p marks /\ (x = p \/ x = host_of p).
Proof. exact tried_members. Qed.
Print Assumptions C17_tried_members.

(* Non-vacuity, and the discipline is needed: peers A (score 0) and B (score 1), ONE attempt that
   makes two sub-channel calls with its RequestState.  The code goes to A, then to the untried B;
   a SubChannel.BeginCall that hands the selected set over on a retry only ("the first attempt has
   nothing to avoid") goes to A twice. *)
Theorem C17_first_attempt_second_call :
  ex_picks sc_model = Some [ex_A; ex_B] /\ ex_picks sc_retry_only = Some [ex_A; ex_A].
Proof. exact first_attempt_second_call. Qed.
Print Assumptions C17_first_attempt_second_call.
