(* Property C09 -- A relay accounts for every call exactly once and then forgets it.
   This file contains only statements, each closed by [exact].

   Model: Model/RelayItems.v, an interleaving transition system of relay.go /
   relay_timer_pool.go (one label = one lock-protected region / atomic operation / callback).
   The theorems quantify over ALL label lists [ls] accepted by [run_fresh]: every
   interleaving of any number of connections, calls, frames, timeouts, full send buffers,
   closes and connection losses, in which a caller never reuses a request id on a connection
   (the quantifier of the property; duplicate ids are C04's protocol-error case).
   [cblog st] is the ghost log of RelayCall callbacks, newest first; calls are numbered in the
   order RelayHost.Start returned them, 1 .. next_call st - 1. *)
From Coq Require Import ZArith List Bool.
From Verif Require Import Base.Wrap Gen.GenConsts Model.RelayItems Spec.RelayAccount
  Proofs.RelayAssocP Proofs.RelayInv9P Proofs.RelayTimerP Proofs.RelayThmP Proofs.RelaySilentP.
Import ListNotations.
Local Open Scope Z_scope.

(* End is reported at most once per call, in every reachable state. *)
Theorem C09_end_at_most_once : forall cf ls st, run_fresh cf init ls = Some st ->
  end_at_most_once cb_is_end (cblog st).
Proof. exact end_at_most_once_thm. Qed.
Print Assumptions C09_end_at_most_once.

(* ... and exactly once for every started call in every state in which no relay goroutine has
   anything left to do and no timeout timer is pending ([quiescent]): whichever of response,
   error frame, timeout, cancel, slow-connection drop, rejection or connection loss finished it. *)
Theorem C09_end_exactly_once : forall cf ls st, run_fresh cf init ls = Some st -> quiescent st ->
  forall c, 1 <= c < next_call st -> end_exactly_once cb_is_end c (cblog st).
Proof. exact end_exactly_once_thm. Qed.
Print Assumptions C09_end_exactly_once.

(* FULL STATEMENT (false on this tree): for every reachable state, [silent_after_end (cblog st)]:
   no callback of a call is reported after its End.  REFUTED: a non-final response frame is
   looked up (relay.nonCallReq.afterGet), the timeout of the originating item completes the
   call (Failed, End), the reader then reports CallResponse / ReceivedBytes on its item copy.
   Known finding relay:nonfinal-frame-vs-timer:report-after-End. *)
Theorem C09_silent_after_end_refuted :
  exists ls st, run_fresh wit_cf init ls = Some st /\ ~ silent_after_end cb_is_end (cblog st).
Proof. exact silent_after_end_refuted_lemma. Qed.
Print Assumptions C09_silent_after_end_refuted.

(* PROVED PART: silence after End holds for every "calm" schedule ([calm_run]): (a) when End of
   call c is reported no goroutine holds pending callbacks or a looked-up item copy of c, and
   (b) no frame finds a live item of a call whose End is already in the log.  These two windows
   are therefore the ONLY ways a callback can follow End (rejections, fail paths, timeouts,
   cancels, full buffers, connection loss and any other interleaving are covered).
   MISSING with respect to the full statement: exactly the schedules excluded by (a)/(b). *)
Theorem C09_silent_after_end_partial : forall cf ls st,
  run_fresh cf init ls = Some st -> calm_run cf init ls -> silent_after_end cb_is_end (cblog st).
Proof. exact silent_after_end_partial_lemma. Qed.
Print Assumptions C09_silent_after_end_partial.

(* Relayer.pending (a uint32) counts the live items of the connection plus the units held by
   goroutines between canHandleNewCall and addRelayItem or between Entomb/Delete and the decrement. *)
Theorem C09_pending_exact : forall cf ls st, run_fresh cf init ls = Some st -> forall k,
  c_pending (get_conn st k) = wrapU 32 (asum (live_i k) (items st) + tsum (hold_i k) (threads st)).
Proof. exact pending_exact_thm. Qed.
Print Assumptions C09_pending_exact.

(* Once nothing is left to run and the tombstone GC timers have fired the relay holds no item,
   no tombstone and no pending count on any connection ... *)
Theorem C09_forgotten : forall cf ls st, run_fresh cf init ls = Some st -> quiescent st -> gcs st = [] ->
  items st = [] /\ forall k, c_pending (get_conn st k) = 0.
Proof. exact forgotten_thm. Qed.
Print Assumptions C09_forgotten.

(* ... so a connection that was asked to close gracefully completes the close. *)
Theorem C09_forgotten_can_close : forall cf ls st k, run_fresh cf init ls = Some st -> quiescent st -> gcs st = [] ->
  c_state (get_conn st k) = c_connectionStartClose ->
  exists st', step cf st (LDrained k) = Some st' /\ c_state (get_conn st' k) = c_connectionClosed.
Proof. exact forgotten_can_close. Qed.
Print Assumptions C09_forgotten_can_close.

(* The timer protocol: no reachable state is a Go panic of relay_timer_pool.go (a released timer
   used, an active timer released); a stopped timer never fires, a released timer is inactive
   and belongs to no item. *)
Theorem C09_timer_protocol : forall cf ls st, run_fresh cf init ls = Some st ->
  panicked st = 0 /\
  forall tm x, lookup Z.eqb tm (timers st) = Some x ->
    (tm_stopped x = true -> tm_armed x = false /\ tm_active x = false /\
       forall code, In (TT tm, code) (threads st) -> code <> [ITimerRun tm]) /\
    (tm_released x = true -> tm_active x = false /\ forall t it, In (t, it) (items st) -> it_tm it <> tm).
Proof. exact timer_protocol_thm. Qed.
Print Assumptions C09_timer_protocol.

(* Non-vacuity: a complete relayed call (request, two-frame response) is a fresh, calm run that
   ends quiescent with every table empty; its log has exactly one End, reported last. *)
Example C09_example :
  exists st, run_fresh wit_cf init calm_example = Some st /\
    calm_runb wit_cf init calm_example = true /\
    threads st = [] /\ items st = [] /\ next_call st = 2 /\
    cblog st = [(1, CbEnd); (1, CbRecv); (1, CbSucc); (1, CbRecv); (1, CbResp); (1, CbSent)].
Proof. eexists. vm_compute. repeat split; reflexivity. Qed.

(* the refuting run ends with CallResponse logged after End *)
Example C09_refuting_log :
  exists st, run_fresh wit_cf init wit_silent = Some st /\
    cblog st = [(1, CbResp); (1, CbEnd); (1, CbFailed 101); (1, CbSent)].
Proof. eexists. vm_compute. split; reflexivity. Qed.

(* ================================================================ strengthened statements (S09)

   ONE excluded class, shared with C10 (Model/RelayCalm.v, Proofs/RelayCalmP.v).  A goroutine of the relay (the
   reader of a connection handling one frame, or the OnTimer goroutine of a fired relay timer)
   ACTS ON call c when a relayItems operation it performs (Get / Entomb / Delete) hits a live item
   of c, or when it is created by the firing of the timer of a live item of c; from then until it
   has finished its frame it HOLDS c (it may hold a looked-up copy of c's item).
     [no_overlap cf ls]  no goroutine acts on a call that another goroutine holds: no timer of c
                         fires and no other reader touches c while a goroutine holds a looked-up
                         copy of c's item;
     [calm cf ls]        no_overlap, and no Get returns a live item of a call whose ORIGINATING
                         item is already completed (no frame is processed between the timeout of
                         the originating item and the timeout of the destination item).
   Both are decidable predicates on the schedule alone ([sched]).  The schedules they exclude are
   the schedule classes of the known finding relay:nonfinal-frame-vs-timer:report-after-End
   (two goroutines in flight on one call; a frame for the still-live destination item after the
   originating item timed out). *)
From Verif Require Import Model.RelayCalm Proofs.RelayCalmP Proofs.RelayPerCallP.

(* the hypothesis of C09_silent_after_end_partial follows from [calm] ... *)
Theorem C09_calm_implies_calm_run : forall cf ls st,
  run_fresh cf init ls = Some st -> calm cf ls -> calm_run cf init ls.
Proof. exact (fun cf ls st H Hc => calm_old cf ls init [] st Inv_init HInv_init Shape_init H Hc). Qed.
Print Assumptions C09_calm_implies_calm_run.

(* ... hence: nothing is reported for a call after its End in every fresh-id schedule without
   overlap in which no frame is processed for a call whose originating item is completed.
   MISSING with respect to the full statement: exactly the schedules that are not [calm]. *)
Theorem C09_silent_after_end_calm : forall cf ls st,
  run_fresh cf init ls = Some st -> calm cf ls -> silent_after_end cb_is_end (cblog st).
Proof. exact silent_after_end_calm. Qed.
Print Assumptions C09_silent_after_end_calm.

(* End exactly once PER CALL: a started call is [call_done] when no goroutine refers to it any
   more (no instruction carries it, none of the keys an instruction holds is the key of one of
   its items, no OnTimer run of one of its timers is pending) and none of its items has an armed
   timer -- whatever the rest of the relay is doing.  Such a call has been ended exactly once. *)
Theorem C09_end_exactly_once_call : forall cf ls st c, run_fresh cf init ls = Some st -> call_done st c ->
  1 <= c < next_call st -> end_exactly_once cb_is_end c (cblog st).
Proof. exact end_exactly_once_call. Qed.
Print Assumptions C09_end_exactly_once_call.

(* ... and forgotten per call: every item of a done call is a tombstone, and once the tomb GC
   timers of its items have fired the tables hold nothing for it. *)
Theorem C09_forgotten_call : forall cf ls st c, run_fresh cf init ls = Some st -> call_done st c ->
  (forall t it, In (t, it) (items st) -> it_call it = c -> it_tomb it = true) /\
  ((forall t it, In (t, it) (items st) -> it_call it = c -> ~ In t (gcs st)) ->
   forall t it, In (t, it) (items st) -> it_call it <> c).
Proof.
  exact (fun cf ls st c H Hd =>
    conj (call_done_tombs st c (proj1 (reach_both cf ls st H)) (proj2 (reach_both cf ls st H)) Hd)
         (forgotten_call cf ls st c H Hd)).
Qed.
Print Assumptions C09_forgotten_call.

(* the pending counter of a connection with no live item and no goroutine holding a unit is zero,
   so that connection can complete a graceful close (LDrained) while other connections are busy *)
Theorem C09_pending_zero_conn : forall cf ls st k, run_fresh cf init ls = Some st ->
  (forall t it, In (t, it) (items st) -> key_conn t = k -> it_tomb it = true) ->
  (forall th code j, In (th, code) (threads st) -> In j code -> hold_i k j = 0) ->
  c_pending (get_conn st k) = 0.
Proof. exact pending_zero_conn. Qed.
Print Assumptions C09_pending_zero_conn.

(* the globally quiescent statements above are the special case "every call is done" *)
Theorem C09_quiescent_call_done : forall st c, quiescent st -> call_done st c.
Proof. exact quiescent_call_done. Qed.
Print Assumptions C09_quiescent_call_done.

(* Non-vacuity: the complete relayed call is calm; the refuting run has an overlap. *)
Example C09_calm_example : sched wit_cf calm_chk init [] calm_example = true.
Proof. exact calm_example_calm. Qed.
Example C09_refuting_run_overlaps : sched wit_cf no_overlap_step init [] wit_silent = false.
Proof. exact wit_silent_overlap. Qed.

(* The admission decision (Relayer.canHandleNewCall, on the source and on the destination
   connection) and the close decision (Relayer.canClose) of the model ARE the definitions
   go2v regenerates from relay.go on every run (Gen/GenRelayFwd.v). *)
From Verif Require Import Gen.GenRelayFwd Proofs.RelayGenTieP.

Theorem C09_admission_decision_generated : forall cf st k f e c d room,
  exec cf st (ICanHandle k f e c) room =
    (let cn := get_conn st k in
     if relayCanHandleNewCall (c_state cn)
     then (put_conn st k {| c_state := c_state cn; c_pending := wrapU 32 (c_pending cn + 1); c_nextid := c_nextid cn |}, [IGetDest k f e c])
     else (st, [ICb c (CbFailed reason_client_inactive); ICb c CbEnd; ISendErr k (f_id f) c_ErrCodeDeclined])) /\
  exec cf st (IRemoteCan k f e c d) room =
    (let cn := get_conn st d in
     if relayCanHandleNewCall (c_state cn)
     then (put_conn st d {| c_state := c_state cn; c_pending := wrapU 32 (c_pending cn + 1); c_nextid := c_nextid cn |}, [IAddDest k f e c d])
     else (st, [ICb c (CbFailed reason_remote_inactive); ISendErr k (f_id f) c_ErrCodeDeclined; IDec k; ICb c CbEnd])).
Proof. exact (fun cf st k f e c d room => conj (can_handle_tie cf st k f e c room) (remote_can_handle_tie cf st k f e c d room)). Qed.
Print Assumptions C09_admission_decision_generated.

Theorem C09_close_decision_generated : forall cf st k, panicked st = 0 ->
  (c_state (get_conn st k) = c_connectionStartClose \/ c_state (get_conn st k) = c_connectionInboundClosed) ->
  (step cf st (LDrained k) <> None <-> relayCanClose false (c_pending (get_conn st k)) = true).
Proof. exact can_close_tie. Qed.
Print Assumptions C09_close_decision_generated.
