(* Property C09 -- A relay accounts for every call exactly once and then forgets it.
   This file contains only statements, each closed by [exact].

   Model: Model/RelayItems.v, an interleaving transition system of relay.go /
   relay_timer_pool.go (one label = one lock-protected region / atomic operation / callback).
   The theorems quantify over ALL label lists [ls] accepted by [run_fresh]: every
   interleaving of any number of connections, calls, frames, timeouts, full send buffers,
   closes and connection losses, in which a caller never reuses a request id on a connection
   (the quantifier of the property; duplicate ids are C04's protocol-error case).
   [cblog st] is the ghost log of RelayCall callbacks, newest first; calls are numbered in the
   order RelayHost.Start returned them, 1 .. next_call st - 1. *)
From Coq Require Import ZArith List Bool.
From Verif Require Import Base.Wrap Gen.GenConsts Model.RelayItems Spec.RelayAccount
  Proofs.RelayAssocP Proofs.RelayInv9P Proofs.RelayTimerP Proofs.RelayThmP Proofs.RelaySilentP.
Import ListNotations.
Local Open Scope Z_scope.

(* End is reported at most once per call, in every reachable state. *)
Theorem C09_end_at_most_once : forall cf ls st, run_fresh cf init ls = Some st ->
  end_at_most_once cb_is_end (cblog st).
Proof. exact end_at_most_once_thm. Qed.
Print Assumptions C09_end_at_most_once.

(* ... and exactly once for every started call in every state in which no relay goroutine has
   anything left to do and no timeout timer is pending ([quiescent]): whichever of response,
   error frame, timeout, cancel, slow-connection drop, rejection or connection loss finished it. *)
Theorem C09_end_exactly_once : forall cf ls st, run_fresh cf init ls = Some st -> quiescent st ->
  forall c, 1 <= c < next_call st -> end_exactly_once cb_is_end c (cblog st).
Proof. exact end_exactly_once_thm. Qed.
Print Assumptions C09_end_exactly_once.

(* FULL STATEMENT (false on this tree): for every reachable state, [silent_after_end (cblog st)]:
   no callback of a call is reported after its End.  REFUTED: a non-final response frame is
   looked up (relay.nonCallReq.afterGet), the timeout of the originating item completes the
   call (Failed, End), the reader then reports CallResponse / ReceivedBytes on its item copy.
   Known finding relay:nonfinal-frame-vs-timer:report-after-End. *)
Theorem C09_silent_after_end_refuted :
  exists ls st, run_fresh wit_cf init ls = Some st /\ ~ silent_after_end cb_is_end (cblog st).
Proof. exact silent_after_end_refuted_lemma. Qed.
Print Assumptions C09_silent_after_end_refuted.

(* PROVED PART: silence after End holds for every "calm" schedule ([calm_run]): (a) when End of
   call c is reported no goroutine holds pending callbacks or a looked-up item copy of c, and
   (b) no frame finds a live item of a call whose End is already in the log.  These two windows
   are therefore the ONLY ways a callback can follow End (rejections, fail paths, timeouts,
   cancels, full buffers, connection loss and any other interleaving are covered).
   MISSING with respect to the full statement: exactly the schedules excluded by (a)/(b). *)
Theorem C09_silent_after_end_partial : forall cf ls st,
  run_fresh cf init ls = Some st -> calm_run cf init ls -> silent_after_end cb_is_end (cblog st).
Proof. exact silent_after_end_partial_lemma. Qed.
Print Assumptions C09_silent_after_end_partial.

(* Relayer.pending (a uint32) counts the live items of the connection plus the units held by
   goroutines between canHandleNewCall and addRelayItem or between Entomb/Delete and the decrement. *)
Theorem C09_pending_exact : forall cf ls st, run_fresh cf init ls = Some st -> forall k,
  c_pending (get_conn st k) = wrapU 32 (asum (live_i k) (items st) + tsum (hold_i k) (threads st)).
Proof. exact pending_exact_thm. Qed.
Print Assumptions C09_pending_exact.

(* Once nothing is left to run and the tombstone GC timers have fired the relay holds no item,
   no tombstone and no pending count on any connection ... *)
Theorem C09_forgotten : forall cf ls st, run_fresh cf init ls = Some st -> quiescent st -> gcs st = [] ->
  items st = [] /\ forall k, c_pending (get_conn st k) = 0.
Proof. exact forgotten_thm. Qed.
Print Assumptions C09_forgotten.

(* ... so a connection that was asked to close gracefully completes the close. *)
Theorem C09_forgotten_can_close : forall cf ls st k, run_fresh cf init ls = Some st -> quiescent st -> gcs st = [] ->
  c_state (get_conn st k) = c_connectionStartClose ->
  exists st', step cf st (LDrained k) = Some st' /\ c_state (get_conn st' k) = c_connectionClosed.
Proof. exact forgotten_can_close. Qed.
Print Assumptions C09_forgotten_can_close.

(* The timer protocol: no reachable state is a Go panic of relay_timer_pool.go (a released timer
   used, an active timer released); a stopped timer never fires, a released timer is inactive
   and belongs to no item. *)
Theorem C09_timer_protocol : forall cf ls st, run_fresh cf init ls = Some st ->
  panicked st = 0 /\
  forall tm x, lookup Z.eqb tm (timers st) = Some x ->
    (tm_stopped x = true -> tm_armed x = false /\ tm_active x = false /\
       forall code, In (TT tm, code) (threads st) -> code <> [ITimerRun tm]) /\
    (tm_released x = true -> tm_active x = false /\ forall t it, In (t, it) (items st) -> it_tm it <> tm).
Proof. exact timer_protocol_thm. Qed.
Print Assumptions C09_timer_protocol.

(* Non-vacuity: a complete relayed call (request, two-frame response) is a fresh, calm run that
   ends quiescent with every table empty; its log has exactly one End, reported last. *)
Example C09_example :
  exists st, run_fresh wit_cf init calm_example = Some st /\
    calm_runb wit_cf init calm_example = true /\
    threads st = [] /\ items st = [] /\ next_call st = 2 /\
    cblog st = [(1, CbEnd); (1, CbRecv); (1, CbSucc); (1, CbRecv); (1, CbResp); (1, CbSent)].
Proof. eexists. vm_compute. repeat split; reflexivity. Qed.

(* the refuting run ends with CallResponse logged after End *)
Example C09_refuting_log :
  exists st, run_fresh wit_cf init wit_silent = Some st /\
    cblog st = [(1, CbResp); (1, CbEnd); (1, CbFailed 101); (1, CbSent)].
Proof. eexists. vm_compute. split; reflexivity. Qed.

(* ================================================================ strengthened statements (S09)

   ONE excluded class, shared with C10 (Model/RelayCalm.v, Proofs/RelayCalmP.v).  A goroutine of the relay (the
   reader of a connection handling one frame, or the OnTimer goroutine of a fired relay timer)
   ACTS ON call c when a relayItems operation it performs (Get / Entomb / Delete) hits a live item
   of c, or when it is created by the firing of the timer of a live item of c; from then until it
   has finished its frame it HOLDS c (it may hold a looked-up copy of c's item).
     [no_overlap cf ls]  no goroutine acts on a call that another goroutine holds: no timer of c
                         fires and no other reader touches c while a goroutine holds a looked-up
                         copy of c's item;
     [calm cf ls]        no_overlap, and no Get returns a live item of a call whose ORIGINATING
                         item is already completed (no frame is processed between the timeout of
                         the originating item and the timeout of the destination item).
   Both are decidable predicates on the schedule alone ([sched]).  The schedules they exclude are
   the schedule classes of the known finding relay:nonfinal-frame-vs-timer:report-after-End
   (two goroutines in flight on one call; a frame for the still-live destination item after the
   originating item timed out). *)
From Verif Require Import Model.RelayCalm Proofs.RelayCalmP Proofs.RelayPerCallP.

(* the hypothesis of C09_silent_after_end_partial follows from [calm] ... *)
Theorem C09_calm_implies_calm_run : forall cf ls st,
  run_fresh cf init ls = Some st -> calm cf ls -> calm_run cf init ls.
Proof. exact (fun cf ls st H Hc => calm_old cf ls init [] st Inv_init HInv_init Shape_init H Hc). Qed.
Print Assumptions C09_calm_implies_calm_run.

(* ... hence: nothing is reported for a call after its End in every fresh-id schedule without
   overlap in which no frame is processed for a call whose originating item is completed.
   MISSING with respect to the full statement: exactly the schedules that are not [calm]. *)
Theorem C09_silent_after_end_calm : forall cf ls st,
  run_fresh cf init ls = Some st -> calm cf ls -> silent_after_end cb_is_end (cblog st).
Proof. exact silent_after_end_calm. Qed.
Print Assumptions C09_silent_after_end_calm.

(* End exactly once PER CALL: a started call is [call_done] when no goroutine refers to it any
   more (no instruction carries it, none of the keys an instruction holds is the key of one of
   its items, no OnTimer run of one of its timers is pending) and none of its items has an armed
   timer -- whatever the rest of the relay is doing.  Such a call has been ended exactly once. *)
Theorem C09_end_exactly_once_call : forall cf ls st c, run_fresh cf init ls = Some st -> call_done st c ->
  1 <= c < next_call st -> end_exactly_once cb_is_end c (cblog st).
Proof. exact end_exactly_once_call. Qed.
Print Assumptions C09_end_exactly_once_call.

(* ... and forgotten per call: every item of a done call is a tombstone, and once the tomb GC
   timers of its items have fired the tables hold nothing for it. *)
Theorem C09_forgotten_call : forall cf ls st c, run_fresh cf init ls = Some st -> call_done st c ->
  (forall t it, In (t, it) (items st) -> it_call it = c -> it_tomb it = true) /\
  ((forall t it, In (t, it) (items st) -> it_call it = c -> ~ In t (gcs st)) ->
   forall t it, In (t, it) (items st) -> it_call it <> c).
Proof.
  exact (fun cf ls st c H Hd =>
    conj (call_done_tombs st c (proj1 (reach_both cf ls st H)) (proj2 (reach_both cf ls st H)) Hd)
         (forgotten_call cf ls st c H Hd)).
Qed.
Print Assumptions C09_forgotten_call.

(* the pending counter of a connection with no live item and no goroutine holding a unit is zero,
   so that connection can complete a graceful close (LDrained) while other connections are busy *)
Theorem C09_pending_zero_conn : forall cf ls st k, run_fresh cf init ls = Some st ->
  (forall t it, In (t, it) (items st) -> key_conn t = k -> it_tomb it = true) ->
  (forall th code j, In (th, code) (threads st) -> In j code -> hold_i k j = 0) ->
  c_pending (get_conn st k) = 0.
Proof. exact pending_zero_conn. Qed.
Print Assumptions C09_pending_zero_conn.

(* the globally quiescent statements above are the special case "every call is done" *)
Theorem C09_quiescent_call_done : forall st c, quiescent st -> call_done st c.
Proof. exact quiescent_call_done. Qed.
Print Assumptions C09_quiescent_call_done.

(* Non-vacuity: the complete relayed call is calm; the refuting run has an overlap. *)
Example C09_calm_example : sched wit_cf calm_chk init [] calm_example = true.
Proof. exact calm_example_calm. Qed.
Example C09_refuting_run_overlaps : sched wit_cf no_overlap_step init [] wit_silent = false.
Proof. exact wit_silent_overlap. Qed.

(* The admission decision (Relayer.canHandleNewCall, on the source and on the destination
   connection) and the close decision (Relayer.canClose) of the model ARE the definitions
   go2v regenerates from relay.go on every run (Gen/GenRelayFwd.v). *)
From Verif Require Import Gen.GenRelayFwd Proofs.RelayGenTieP.

Theorem C09_admission_decision_generated : forall cf st k f e c d room,
  exec cf st (ICanHandle k f e c) room =
    (let cn := get_conn st k in
     if relayCanHandleNewCall (c_state cn)
     then (put_conn st k {| c_state := c_state cn; c_pending := wrapU 32 (c_pending cn + 1); c_nextid := c_nextid cn |}, [IGetDest k f e c])
     else (st, [ICb c (CbFailed reason_client_inactive); ICb c CbEnd; ISendErr k (f_id f) c_ErrCodeDeclined])) /\
  exec cf st (IRemoteCan k f e c d) room =
    (let cn := get_conn st d in
     if relayCanHandleNewCall (c_state cn)
     then (put_conn st d {| c_state := c_state cn; c_pending := wrapU 32 (c_pending cn + 1); c_nextid := c_nextid cn |}, [IAddDest k f e c d])
     else (st, [ICb c (CbFailed reason_remote_inactive); ISendErr k (f_id f) c_ErrCodeDeclined; IDec k; ICb c CbEnd])).
Proof. exact (fun cf st k f e c d room => conj (can_handle_tie cf st k f e c room) (remote_can_handle_tie cf st k f e c d room)). Qed.
Print Assumptions C09_admission_decision_generated.

Theorem C09_close_decision_generated : forall cf st k, panicked st = 0 ->
  (c_state (get_conn st k) = c_connectionStartClose \/ c_state (get_conn st k) = c_connectionInboundClosed) ->
  (step cf st (LDrained k) <> None <-> relayCanClose false (c_pending (get_conn st k)) = true).
Proof. exact can_close_tie. Qed.
Print Assumptions C09_close_decision_generated.

(* ================================================================ strengthened statements (T09)

   (A) the duplicate-id lookup never touches the timer of the call in flight under that id;
   (B) every decrement of Relayer.pending is followed by the close check of the same goroutine, so
       a connection whose counter reaches 0 while it is closing completes its close from EVERY
       state;
   (C) the theorems of the fresh-id quantifier hold for schedules with re-used ids that meet an
       item (duplicate call req against a live item or a tombstone);
   the model's tombstone collection (label LGc) is relayItems.deleteTomb: it deletes a tombstone
   only and leaves a live item alone. *)
From Verif Require Import Gen.GenFrame Gen.GenRelaySites Model.RelaySites Proofs.RelaySitesP Proofs.RelayCloseP
  Proofs.RelayAdmitP Proofs.RelayReuseP Proofs.RelayReuse9P.

(* ---- (A) relayItems.Get sites ---- *)

(* The table of every relayItems.Get call with its stopTimeout argument, and of every
   relayTimer.Stop call, regenerated from relay.go on every run, ARE the model's; read as the
   boolean the model passes to items_get: getDestination false, handleNonCallReq and Receive
   finishesCall(frame), failRelayItem true; relayTimer.Stop is called by relayItems.Get only. *)
Theorem C09_get_sites_generated :
  relay_get_sites = rs_get_rows /\ relay_stop_sites = rs_stop_rows /\
  forall fin,
    site_stop relay_get_sites fn_getDestination fin = Some false /\
    site_stop relay_get_sites fn_handleNonCallReq fin = Some fin /\
    site_stop relay_get_sites fn_Receive fin = Some fin /\
    site_stop relay_get_sites fn_failRelayItem fin = Some true.
Proof. exact (conj gen_get_sites (conj gen_stop_sites get_sites_flags)). Qed.
Print Assumptions C09_get_sites_generated.

(* relayItems.Get and relayItems.deleteTomb themselves, statement by statement as regenerated, and
   the only scheduled collection of relay.go (Entomb schedules deleteTomb), ARE what the model's
   items_get / items_delete_tomb / LGc describe: Get touches no timer unless the item is found
   AND stopTimeout is set; the collection deletes a tombstone only *)
Theorem C09_get_and_collection_generated :
  relay_get_body = rs_getbody_rows /\ relay_deletetomb_body = rs_tombbody_rows /\ relay_gc_sites = rs_gc_rows /\
  (forall (st : state) (t : key) (stop : bool),
     match lookup key_eqb t (items st) with
     | None => items_get st t stop = (st, None)
     | Some it =>
         if stop then items_get st t stop = (fst (timer_stop st (it_tm it)), Some (it, snd (timer_stop st (it_tm it))))
         else items_get st t stop = (st, Some (it, false))
     end) /\
  (forall st t,
     match lookup key_eqb t (items st) with
     | None => items_delete_tomb st t = st
     | Some it =>
         if it_tomb it then items_delete_tomb st t = timer_release (set_items st (remove key_eqb t (items st))) (it_tm it)
         else items_delete_tomb st t = st
     end).
Proof. exact (conj gen_get_body (conj gen_deletetomb_body (conj gen_gc_sites (conj items_get_cases items_delete_tomb_cases)))). Qed.
Print Assumptions C09_get_and_collection_generated.

(* ... and each lookup instruction of the model is items_get with the flag of its generated row *)
Theorem C09_get_sites_model : forall cf st room,
  (forall k f e c b, site_stop relay_get_sites fn_getDestination (fin_of f) = Some b ->
     exec cf st (IGetDest k f e c) room = getdest_via k f e c (items_get st (k, 0, f_id f) b)) /\
  (forall k f ft b, site_stop relay_get_sites fn_handleNonCallReq (fin_of f) = Some b ->
     frameTypeFor (f_mt f) = Some ft ->
     exec cf st (INcGet k f) room =
       (let own := (k, (if ft =? c_responseFrame then 1 else 0), f_id f) in
        let '(st', g) := items_get st own b in (st', [INcChk k f ft own g]))) /\
  (forall r b, site_stop relay_get_sites fn_Receive (fin_of (r_f r)) = Some b ->
     exec cf st (IRcvGet r) room =
       (let rk := (r_d r, (if r_ft r =? c_requestFrame then 1 else 0), f_id (r_f r)) in
        let '(st', g) := items_get st rk b in (st', [IRcvChk r rk g]))) /\
  (forall t reason b fin, site_stop relay_get_sites fn_failRelayItem fin = Some b ->
     exec cf st (IFailGet t reason) room =
       (let '(st', g) := items_get st t b in
        match g with Some (_, true) => (st', [IEntomb t (FromFail reason)]) | _ => (st', []) end)).
Proof. exact get_sites_tie. Qed.
Print Assumptions C09_get_sites_model.

(* a call req whose id has an item -- the call in flight under that id, or its tombstone -- is
   rejected and the step changes NOTHING: the item, its timer (an armed timeout stays armed) and
   every counter are as before; what remains is Failed(duplicate), the decrement of the unit
   canHandleNewCall took (followed by the close check) and End for the NEW call *)
Theorem C09_duplicate_touches_nothing : forall cf st k f e c room it,
  lookup key_eqb (k, 0, f_id f) (items st) = Some it ->
  exec cf st (IGetDest k f e c) room = (st, [ICb c (CbFailed reason_duplicate); IDec k; ICb c CbEnd]).
Proof. exact duplicate_touches_nothing. Qed.
Print Assumptions C09_duplicate_touches_nothing.

(* ---- (B) Relayer.pending and the close check ---- *)

(* The table of every use of the field Relayer.pending, the body of decrementPending and the
   table of its callers, regenerated on every run, ARE the model's: Inc in canHandleNewCall
   (under the state read lock, guarded by canHandle), Load in countPending, Dec in
   decrementPending and NOWHERE else; decrementPending = the decrement, then
   conn.checkExchanges(); called by handleCallReq's rejection branch, timeoutRelayItem,
   failRelayItem, finishRelayItem; checkExchanges is called (inside relay.go) from there only. *)
Theorem C09_pending_sites_generated :
  relay_pending_sites = rs_pending_rows /\ relay_decpending_body = rs_decbody_rows /\
  relay_decpending_calls = rs_deccall_rows /\ relay_checkex_sites = rs_checkex_rows /\
  pending_discipline relay_pending_sites = true /\ decbody_ok relay_decpending_body = true.
Proof. exact (conj gen_pending_sites (conj gen_decbody (conj gen_deccalls (conj gen_checkex (conj pending_discipline_gen decbody_gen))))). Qed.
Print Assumptions C09_pending_sites_generated.

(* hence: whichever row of the generated table writes the counter (anything but Inc / Load), it
   is inside decrementPending, whose generated body is the decrement followed by the close check *)
Theorem C09_every_decrement_checks : forall fn op grd,
  In (fn, op, grd) relay_pending_sites -> pending_mutates op = true ->
  fn = fn_decrementPending /\ relay_decpending_body = rs_decbody_rows.
Proof. exact every_decrement_checks. Qed.
Print Assumptions C09_every_decrement_checks.

(* the model's decrementPending: the decrement pushes the close check for the same goroutine;
   its callers push exactly one decrement of the connection each (rejections of getDestination
   and of the remote admission, a completed Entomb, a completed Delete) *)
Theorem C09_decrement_model : forall cf st room,
  (forall k, exec cf st (IDec k) room =
     (put_conn st k {| c_state := c_state (get_conn st k); c_pending := wrapU 32 (c_pending (get_conn st k) - 1);
                       c_nextid := c_nextid (get_conn st k) |}, [ICheck k])) /\
  (forall k f e c, snd (exec cf st (IGetDest k f e c) room) = [IRemoteCan k f e c (e_dest e)] \/
                   count_dec k (snd (exec cf st (IGetDest k f e c) room)) = 1) /\
  (forall k f e c d, snd (exec cf st (IRemoteCan k f e c d) room) = [IAddDest k f e c d] \/
                     count_dec k (snd (exec cf st (IRemoteCan k f e c d) room)) = 1) /\
  (forall t s, match snd (items_entomb cf st t) with
               | Some (_, true) => count_dec (key_conn t) (snd (exec cf st (IEntomb t s) room)) = 1
               | _ => snd (exec cf st (IEntomb t s) room) = []
               end) /\
  (forall t lk, match snd (items_delete_call st t lk) with
             | Some (_, true) => count_dec (key_conn t) (snd (exec cf st (IDelete t lk) room)) = 1
             | _ => snd (exec cf st (IDelete t lk) room) = []
             end).
Proof. exact (fun cf st room => conj (fun k => dec_then_check cf st k room) (dec_sites_model cf st room)). Qed.
Print Assumptions C09_decrement_model.

(* ONE STEP FROM ANY STATE (no reachability or quiescence hypothesis): the counter of a
   connection changes only by an increment on an ACTIVE connection, or by the decrement of
   decrementPending -- and then the very next action of the decrementing goroutine is the close
   check of that connection. *)
Theorem C09_pending_step : forall cf st l st' k, step cf st l = Some st' ->
  c_pending (get_conn st' k) = c_pending (get_conn st k) \/
  (c_state (get_conn st k) = c_connectionActive /\ c_state (get_conn st' k) = c_connectionActive /\
   c_pending (get_conn st' k) = wrapU 32 (c_pending (get_conn st k) + 1)) \/
  (c_state (get_conn st' k) = c_state (get_conn st k) /\
   c_pending (get_conn st' k) = wrapU 32 (c_pending (get_conn st k) - 1) /\
   exists t room rest, l = LStep t room /\ lookup tid_eqb t (threads st') = Some (ICheck k :: rest)).
Proof. exact pending_step. Qed.
Print Assumptions C09_pending_step.

(* a connection that has left connectionActive never returns to it (so its counter never grows) *)
Theorem C09_inactive_stays : forall cf st l st' k, step cf st l = Some st' ->
  c_state (get_conn st k) <> c_connectionActive -> c_state (get_conn st' k) <> c_connectionActive.
Proof. exact inactive_stays. Qed.
Print Assumptions C09_inactive_stays.

(* C09_forgotten_can_close FROM EVERY STATE: whenever a step brings the counter of a connection
   that is in connectionStartClose (or InboundClosed) from non-zero to 0 -- whatever the rest of
   the relay is doing, whichever of rejection, timeout, failure or final frame released the last
   unit --, that step is the decrement of some goroutine t, t's next action is the close check,
   and that action moves the connection to connectionClosed. *)
Theorem C09_drop_to_zero_closes : forall cf st l st' k, step cf st l = Some st' ->
  c_pending (get_conn st k) <> 0 -> c_pending (get_conn st' k) = 0 ->
  closing (c_state (get_conn st' k)) = true ->
  exists t room rest, l = LStep t room /\ lookup tid_eqb t (threads st') = Some (ICheck k :: rest) /\
    forall room', exists st'', step cf st' (LStep t room') = Some st'' /\
                               c_state (get_conn st'' k) = c_connectionClosed /\ c_pending (get_conn st'' k) = 0.
Proof. exact drop_to_zero_closes. Qed.
Print Assumptions C09_drop_to_zero_closes.

(* ---- the tombstone collection is relayItems.deleteTomb ---- *)

(* a scheduled collection that meets a live item consumes the pending collection and nothing else *)
Theorem C09_collection_leaves_live_item : forall cf st t it,
  panicked st = 0 -> mem_key t (gcs st) = true ->
  lookup key_eqb t (items st) = Some it -> it_tomb it = false ->
  step cf st (LGc t) = Some (set_gcs st (remove_one t (gcs st))).
Proof. exact gc_of_live_item_noop. Qed.
Print Assumptions C09_collection_leaves_live_item.

(* ---- finishRelayItem deletes only the item of the call the frame path looked up (A09) ----

   Fix "the relay finishes (deletes) a relay item only if it still belongs to the call the frame
   path looked up": finishRelayItem(items, id, lookedUp) -> relayItems.deleteCall.  Model: IDelete t lk
   and IRcvEnq r rk lk carry lk = (destination relayer, destination-side id) of the looked-up item,
   [items_delete_call] compares it with the item found. *)

(* the statements of relayItems.deleteCall, the two callers of finishRelayItem with the argument
   they pass (the item they looked up) and the callers of the three delete operations, regenerated
   on every run, ARE the model's; and the model's deleteCall case by case *)
Theorem C09_finish_sites_generated :
  relay_deletecall_body = rs_dcbody_rows /\ relay_finish_sites = rs_finish_rows /\ relay_delete_sites = rs_delete_rows /\
  (forall (st : state) (t : key) (lk : Z * Z),
     match lookup key_eqb t (items st) with
     | None => items_delete_call st t lk = (st, None)
     | Some it =>
         if (it_dest it =? fst lk) && (it_remap it =? snd lk)
         then items_delete_call st t lk =
                (timer_release (set_items st (remove key_eqb t (items st))) (it_tm it), Some (it, negb (it_tomb it)))
         else items_delete_call st t lk = (st, None)
     end).
Proof. exact (conj gen_deletecall_body (conj gen_finish_sites (conj gen_delete_sites items_delete_call_rows))). Qed.
Print Assumptions C09_finish_sites_generated.

(* where the model's two finishes take the identity from: Receive's from the item copy it holds
   after its lookup, handleNonCallReq's from the caller's own item *)
Theorem C09_finish_identity_model : forall cf st room,
  (forall r rk it s, it_tomb it || (fin_of (r_f r) && negb s) = false ->
     exists cbs, snd (exec cf st (IRcvChk r rk (Some (it, s))) room) = cbs ++ [IRcvEnq r rk (it_dest it, it_remap it)]) /\
  (forall r rk lk, fin_of (r_f r) = true ->
     snd (exec cf st (IRcvEnq r rk lk) true) = IDelete rk lk :: after_sent r) /\
  (forall r, fin_of (r_f r) = true -> exists tl, after_sent r = IDelete (r_own r) (r_d r, f_id (r_f r)) :: tl) /\
  (forall k f ft own it s, it_tomb it || (fin_of f && negb s) = false ->
     exists cbs r, snd (exec cf st (INcChk k f ft own (Some (it, s))) room) = cbs ++ [IRcvGet r] /\
       r_own r = own /\ (r_d r, f_id (r_f r)) = (it_dest it, it_remap it)).
Proof. exact finish_identity_model. Qed.
Print Assumptions C09_finish_identity_model.

(* in every fresh-id schedule a finish that is about to run passes the check: finishRelayItem is
   the Delete it was before the fix (so every theorem above speaks about the code as it is) *)
Theorem C09_finish_is_delete : forall cf ls st th t lk rest, run_fresh cf init ls = Some st ->
  lookup tid_eqb th (threads st) = Some (IDelete t lk :: rest) ->
  items_delete_call st t lk = items_delete st t.
Proof. exact finish_is_delete. Qed.
Print Assumptions C09_finish_is_delete.

(* ... and an item of ANOTHER call found under the id (the id was re-used) is left alone: the
   step changes nothing -- not the item, not its armed timer, not the counters *)
Theorem C09_finish_leaves_other_call : forall cf st t lk it room,
  lookup key_eqb t (items st) = Some it -> (it_dest it =? fst lk) && (it_remap it =? snd lk) = false ->
  exec cf st (IDelete t lk) room = (st, []).
Proof. exact finish_leaves_other_call. Qed.
Print Assumptions C09_finish_leaves_other_call.

(* ---- (C) schedules with re-used ids ----

   [run_reuse] (Proofs/RelayReuseP.v) accepts every interleaving of any number of connections,
   calls, frames, timeouts, full send buffers, closes, losses AND re-used ids in which a call req
   that re-uses an id finds, at its getDestination step, an item for that id: the earlier call is
   IN FLIGHT (a duplicate call req against a live item), timed out or failed (tombstone period).
   [run_fresh] schedules are [run_reuse] schedules (C03_fresh_schedules_included). *)

Theorem C09_end_at_most_once_reuse : forall cf ls st, run_reuse cf init ls = Some st ->
  end_at_most_once cb_is_end (cblog st).
Proof. exact reuse_end_at_most_once. Qed.
Print Assumptions C09_end_at_most_once_reuse.

(* the call in flight under a duplicated id is still ended exactly once (e.g. by its timeout
   when the backend stays silent), and so is the rejected duplicate *)
Theorem C09_end_exactly_once_reuse : forall cf ls st, run_reuse cf init ls = Some st -> quiescent st ->
  forall c, 1 <= c < next_call st -> end_exactly_once cb_is_end c (cblog st).
Proof. exact reuse_end_exactly_once. Qed.
Print Assumptions C09_end_exactly_once_reuse.

Theorem C09_forgotten_reuse : forall cf ls st, run_reuse cf init ls = Some st -> quiescent st -> gcs st = [] ->
  items st = [] /\ forall k, c_pending (get_conn st k) = 0.
Proof. exact reuse_forgotten. Qed.
Print Assumptions C09_forgotten_reuse.

(* C09_timer_protocol, strengthened from fresh-id schedules to re-use schedules *)
Theorem C09_timer_protocol_reuse : forall cf ls st, run_reuse cf init ls = Some st ->
  panicked st = 0 /\
  forall tm x, lookup Z.eqb tm (timers st) = Some x ->
    (tm_stopped x = true -> tm_armed x = false /\ tm_active x = false /\
       forall code, In (TT tm, code) (threads st) -> code <> [ITimerRun tm]) /\
    (tm_released x = true -> tm_active x = false /\ forall t it, In (t, it) (items st) -> it_tm it <> tm).
Proof. exact reuse_timer_protocol. Qed.
Print Assumptions C09_timer_protocol_reuse.

(* The guard on re-use schedules CANNOT be dropped entirely.
   (1) The schedule that needed it before relayItems.deleteTomb (finishRelayItem deletes a
   tombstone whose collection is pending, the id is re-used and admitted, the stale collection
   fires) is harmless: the live item and its armed timer survive the stale collection.
   (2) The schedule that needed it before relayItems.deleteCall (the reader of the destination
   connection has looked the originating item up for the final call res, the caller cancels and
   re-uses the id at once, the first reader's finishRelayItem runs with its stale copy --
   reproduced on the implementation, [c09:stale-finish-deletes-live-item], fixed) is harmless:
   deleteCall compares the destination relayer and the destination-side id of the item it finds
   with the looked-up one and leaves the new call's item alone.
   (3) What remains: failRelayItem's Get and Entomb are two lock regions and Entomb works BY ID;
   with more than RelayMaxTombs tombstones it deletes by id at once.  A reader that is between
   the two while the caller cancels the call and re-uses the id deletes the LIVE item of the new
   call and releases its active timer: the model reaches the Go panic "only stopped or completed
   timers can be released" ([ex_stale_fail], RelayMaxTombs = 1; not reproduced on the
   implementation: there is no schedule point between the two regions).  A caller that re-uses the
   id of a call whose response it has not seen: outside the quantifier of C09. *)
Theorem C09_stale_collection_harmless :
  exists st it x, run ex_cf init ex_early_delete = Some st /\ panicked st = 0 /\ gcs st = [(1, 1, 1)] /\
    lookup key_eqb (0, 0, 7) (items st) = Some it /\ it_tomb it = false /\
    lookup Z.eqb (it_tm it) (timers st) = Some x /\ tm_armed x = true.
Proof. exact stale_collection_harmless. Qed.
Theorem C09_stale_finish_harmless :
  exists st it x, run cn_cf init ex_stale_finish = Some st /\ panicked st = 0 /\
    lookup key_eqb (0, 0, 7) (items st) = Some it /\ it_tomb it = false /\ it_call it = 2 /\
    lookup Z.eqb (it_tm it) (timers st) = Some x /\ tm_armed x = true /\ c_pending (get_conn st 0) = 1.
Proof. exact stale_finish_harmless. Qed.
Theorem C09_timer_protocol_unguarded_refuted :
  exists ls st, run tt_cf init ls = Some st /\ panicked st = panic_release_active.
Proof. exact reuse_unguarded_refuted. Qed.
Print Assumptions C09_timer_protocol_unguarded_refuted.

(* Non-vacuity.  A duplicate call req against the call in flight, then silence from the backend:
   a re-use schedule that is not a fresh-id schedule; the duplicate (call 2) is ended at once, the
   call in flight (call 1) by its timeout; after the collections nothing is left. *)
Example C09_example_duplicate_vs_live :
  run_fresh dup_cf init dup_live_run = None /\
  exists st, run_reuse dup_cf init dup_live_run = Some st /\
    threads st = [] /\ items st = [] /\ gcs st = [] /\ c_pending (get_conn st 0) = 0 /\ c_pending (get_conn st 1) = 0 /\
    cblog st = [(1, CbEnd); (1, CbFailed reason_timeout); (2, CbEnd); (2, CbFailed reason_duplicate); (1, CbSent)].
Proof. split; [vm_compute; reflexivity|]. eexists. vm_compute. repeat split; reflexivity. Qed.

(* a rejection that races with a graceful close: the connection is closed by the close check
   that follows the rejection's decrement *)
Example C09_example_close_vs_rejection :
  exists st, run_fresh dup_cf init close_vs_reject_run = Some st /\ threads st = [] /\
    c_state (get_conn st 0) = c_connectionClosed /\ c_pending (get_conn st 0) = 0 /\
    cblog st = [(1, CbEnd); (1, CbFailed reason_bad_host)].
Proof. eexists. vm_compute. repeat split; reflexivity. Qed.
