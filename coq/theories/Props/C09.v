(* Property C09 -- placeholder while the proofs are being built. *)
From Coq Require Import ZArith List Bool.
From Verif Require Import Model.RelayItems.
Import ListNotations.
Local Open Scope Z_scope.

Theorem C09_placeholder : forall cf, run cf init [] = Some init.
Proof. exact (fun cf => eq_refl). Qed.
Print Assumptions C09_placeholder.
