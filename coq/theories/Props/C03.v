(* Property C03 -- No bytes sent by a peer can crash or wedge the process.
   What is proved is that the modelled crash sites of the per-frame path are unreachable for
   ALL inputs; liveness of goroutines under the real scheduler (clause c) is exercised by the
   peerinput engine against a child process and is not a theorem. *)
From Coq Require Import ZArith List Bool.
From Verif Require Import Base.Wrap Base.Bytes Gen.GenConsts Gen.GenFrame Model.TypedBuf Model.Messages
  Model.Crc Model.Frag Model.FragWire Model.Codecs Proofs.CodecP Proofs.FrameP Proofs.CodecsP Proofs.PeerInputP.
Import ListNotations.
Local Open Scope Z_scope.

(* for every payload a peer can send in a call req / call res / continuation frame: if the
   fragment parser accepts it, the checksum type is a known one, so the checksum pool lookup
   (an array index by the peer's byte) cannot go out of range *)
Theorem C03_checksum_type_safe : forall mt payload f, bytes_ok payload = true ->
  parse_frag_payload mt payload = (0, f) -> 0 <= f_ctype f < c_checksumCount /\ ck_new (f_ctype f) <> None.
Proof. exact parsed_ctype_known. Qed.

(* ... and handing that fragment to the argument reader never panics: accepted, checksum
   mismatch, or "fragment has no chunks" *)
Theorem C03_fragment_no_panic : forall mt payload f, bytes_ok payload = true ->
  parse_frag_payload mt payload = (0, f) ->
  exists c st, r_recv (r_init [f]) = Some (c, st) /\ (c = 0 \/ c = 8 \/ c = 13).
Proof. exact parsed_fragment_no_panic. Qed.

(* relay connections, all 256 type bytes: the relayer (whose frameTypeFor panics on unknown
   types) only ever sees the types frameTypeFor knows *)
Theorem C03_relay_dispatch_safe : forall mt pc, 0 <= mt < 256 -> relayRoute mt pc = 1 -> frameTypeFor mt <> None.
Proof. exact relay_route_safe. Qed.

(* all 65536 values of the frame size field are classified without wrap-around surprises *)
Theorem C03_size_field : forall size, 0 <= size < 65536 ->
  (PayloadSize size >? c_MaxFramePayloadSize) = (size <? 16) /\ (16 <= size -> PayloadSize size = size - 16).
Proof. exact payload_size_classify. Qed.

(* bounds-checked buffer: ReadBytes with ANY Go int (negative included) returns, never slices
   out of range *)
Theorem C03_readbytes_total : forall n r, r_bytes_go n r <> None.
Proof. exact r_bytes_go_total. Qed.

Print Assumptions C03_checksum_type_safe.
Print Assumptions C03_fragment_no_panic.
Print Assumptions C03_relay_dispatch_safe.

(* non-vacuity: the two payloads that crashed the pinned tree are now ordinary errors *)
Example C03_example_unknown_checksum_type :
  fst (parse_frag_payload c_messageTypeCallReqContinue [0; 7; 0; 0]) = 14.
Proof. vm_compute. reflexivity. Qed.
Example C03_example_no_chunks :
  match parse_frag_payload c_messageTypeCallReqContinue [0; 0] with
  | (0, f) => match r_recv (r_init [f]) with Some (c, _) => c | None => -1 end
  | _ => -2
  end = 13.
Proof. vm_compute. reflexivity. Qed.
