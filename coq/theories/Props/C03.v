(* Property C03 -- No bytes sent by a peer can crash or wedge the process.
   What is proved is that the modelled crash sites of the per-frame path are unreachable for
   ALL inputs; liveness of goroutines under the real scheduler (clause c) is exercised by the
   peerinput engine against a child process and is not a theorem. *)
From Coq Require Import ZArith List Bool.
From Verif Require Import Base.Wrap Base.Bytes Gen.GenConsts Gen.GenFrame Model.TypedBuf Model.Messages
  Model.Crc Model.Frag Model.FragWire Model.Codecs Proofs.CodecP Proofs.FrameP Proofs.CodecsP Proofs.PeerInputP.
Import ListNotations.
Local Open Scope Z_scope.

(* for every payload a peer can send in a call req / call res / continuation frame: if the
   fragment parser accepts it, the checksum type is a known one, so the checksum pool lookup
   (an array index by the peer's byte) cannot go out of range *)
Theorem C03_checksum_type_safe : forall mt payload f, bytes_ok payload = true ->
  parse_frag_payload mt payload = (0, f) -> 0 <= f_ctype f < c_checksumCount /\ ck_new (f_ctype f) <> None.
Proof. exact parsed_ctype_known. Qed.

(* ... and handing that fragment to the argument reader never panics: accepted, checksum
   mismatch, or "fragment has no chunks" *)
Theorem C03_fragment_no_panic : forall mt payload f, bytes_ok payload = true ->
  parse_frag_payload mt payload = (0, f) ->
  exists c st, r_recv (r_init [f]) = Some (c, st) /\ (c = 0 \/ c = 8 \/ c = 13).
Proof. exact parsed_fragment_no_panic. Qed.

(* relay connections, all 256 type bytes: the relayer (whose frameTypeFor panics on unknown
   types) only ever sees the types frameTypeFor knows *)
Theorem C03_relay_dispatch_safe : forall mt pc, 0 <= mt < 256 -> relayRoute mt pc = 1 -> frameTypeFor mt <> None.
Proof. exact relay_route_safe. Qed.

(* all 65536 values of the frame size field are classified without wrap-around surprises *)
Theorem C03_size_field : forall size, 0 <= size < 65536 ->
  (PayloadSize size >? c_MaxFramePayloadSize) = (size <? 16) /\ (16 <= size -> PayloadSize size = size - 16).
Proof. exact payload_size_classify. Qed.

(* bounds-checked buffer: ReadBytes with ANY Go int (negative included) returns, never slices
   out of range *)
Theorem C03_readbytes_total : forall n r, r_bytes_go n r <> None.
Proof. exact r_bytes_go_total. Qed.

Print Assumptions C03_checksum_type_safe.
Print Assumptions C03_fragment_no_panic.
Print Assumptions C03_relay_dispatch_safe.

(* non-vacuity: the two payloads that crashed the pinned tree are now ordinary errors *)
Example C03_example_unknown_checksum_type :
  fst (parse_frag_payload c_messageTypeCallReqContinue [0; 7; 0; 0]) = 14.
Proof. vm_compute. reflexivity. Qed.
Example C03_example_no_chunks :
  match parse_frag_payload c_messageTypeCallReqContinue [0; 0] with
  | (0, f) => match r_recv (r_init [f]) with Some (c, _) => c | None => -1 end
  | _ => -2
  end = 13.
Proof. vm_compute. reflexivity. Qed.

(* ======================================================================================
   Per-frame dispatch of a (non-relay) connection after the handshake: Model/PeerInput.v,
   [handle_frame st hdr body] = one iteration of Connection.readFrames (ReadBody, dispatch by
   message type, the handlers up to the point where they hand over to another goroutine).
   ====================================================================================== *)
From Verif Require Import Model.PeerInput Proofs.PeerFxP.

(* for every connection state (any close state, any in-flight exchanges in any condition, any
   send-queue occupancy, any resolution of a blocking forward) and ALL header / stream bytes:
   none of the three panic sites of the per-frame path is reached, and the state stays sane *)
Theorem C03_no_panic : forall st hdr body, state_ok st -> bytes_ok body = true ->
  forall e, In e (snd (handle_frame st hdr body)) -> is_panic e = false.
Proof. exact handle_frame_no_panic. Qed.

Theorem C03_state_ok_preserved : forall st hdr body, state_ok st -> bytes_ok body = true ->
  state_ok (fst (handle_frame st hdr body)).
Proof. exact handle_frame_state_ok. Qed.

(* ... hence for a whole byte stream handled frame after frame (the reader loop) *)
Theorem C03_no_panic_stream : forall fuel st stream, state_ok st -> bytes_ok stream = true ->
  forall es e, In es (snd (read_frames fuel st stream)) -> In e es -> is_panic e = false.
Proof. exact read_frames_no_panic. Qed.

(* a frame that is NOT (readable, well-formed and legal in the current state) has only the
   three allowed effects -- dropped, at most one error frame, this connection shut down --,
   no exchange is added or removed, and unless the connection is shut down nothing but the
   send queue changes *)
Theorem C03_effects : forall st hdr body st' es, state_ok st -> bytes_ok body = true ->
  frame_wf_legal st hdr body = false -> handle_frame st hdr body = (st', es) ->
  forallb allowed_effect es = true /\ (length (filter is_send es) <= 1)%nat /\
  mx_keys (cs_in st') = mx_keys (cs_in st) /\ mx_keys (cs_out st') = mx_keys (cs_out st) /\
  (existsb is_close es = false ->
     cs_in st' = cs_in st /\ cs_out st' = cs_out st /\ cs_state st' = cs_state st /\ cs_stopped st' = cs_stopped st).
Proof. exact handle_frame_effects. Qed.

(* ... and that error frame carries the offending frame's id and code declined or protocol error *)
Theorem C03_error_frame : forall st hdr body st' es, state_ok st -> bytes_ok body = true ->
  frame_wf_legal st hdr body = false -> handle_frame st hdr body = (st', es) ->
  forall mt i c, In (SendFrame mt i c) es ->
    mt = c_messageTypeError /\ i = fh_id (fst (r_fheader (rb hdr))) /\ (c = c_ErrCodeDeclined \/ c = c_ErrCodeProtocol).
Proof. exact handle_frame_error_frame_id. Qed.

(* ANY frame, legal or not: an exchange whose id is not the frame's is left exactly as it
   was, except that a shutdown of the connection sets its error latch *)
Theorem C03_frame_local : forall st hdr body st' es code h payload rest, state_ok st -> bytes_ok body = true ->
  handle_frame st hdr body = (st', es) -> frame_read_body hdr body = (code, h, payload, rest) ->
  forall id', id' <> fh_id h ->
    (mx_lookup id' (cs_in st') = mx_lookup id' (cs_in st) \/
     (existsb is_close es = true /\ mx_lookup id' (cs_in st') = option_map mx_set_err (mx_lookup id' (cs_in st)))) /\
    (mx_lookup id' (cs_out st') = mx_lookup id' (cs_out st) \/
     (existsb is_close es = true /\ mx_lookup id' (cs_out st') = option_map mx_set_err (mx_lookup id' (cs_out st)))).
Proof. exact handle_frame_local_unfolded. Qed.

(* a call is dispatched only for a readable call req frame whose payload parseInboundFragment
   accepts (flags, call req header, known checksum type, checksum), with an id that is not in
   flight, on an Active connection whose exchanges have not been stopped; and then it is the
   only effect.  (The argument chunks are parsed by the dispatched goroutine:
   C03_fragment_no_panic above.) *)
Theorem C03_dispatch_only_wellformed : forall st hdr body st' es i, state_ok st -> bytes_ok body = true ->
  handle_frame st hdr body = (st', es) -> In (Dispatch i) es ->
  exists h payload rest f, frame_read_body hdr body = (0, h, payload, rest) /\ fh_type h = c_messageTypeCallReq /\ fh_id h = i /\
    parse_inbound_fragment payload = (0, f) /\
    cs_state st = c_connectionActive /\ cs_stopped st = false /\ mx_lookup i (cs_in st) = None /\ es = [Dispatch i].
Proof. exact handle_frame_dispatch. Qed.

(* the reader goroutine never looks at the body of cancel and ping frames (so for these types
   well-formedness is a matter of the header alone in [frame_legal]) *)
Theorem C03_cancel_ping_body_ignored : forall st mt id p1 p2,
  mt = c_messageTypeCancel \/ mt = c_messageTypePingReq \/ mt = c_messageTypePingRes ->
  handle_frame_no_relay st mt id p1 = handle_frame_no_relay st mt id p2.
Proof. exact cancel_ping_body_ignored. Qed.

(* ---- ping requests (repaired code: a draining connection answers pings) ----
   TIE: whether a ping req is answered is decided by the state test that go2v regenerates from
   the `if state := c.readState(); state == connectionClosed {` statement of
   Connection.handlePingReq on every run (Gen/GenClose2.v pingReqAnswer: 1 = the ping res is
   sent, 0 = protocolError) -- both in the model's step and in the specification [frame_legal] *)
From Verif Require Import Gen.GenClose2.
Theorem C03_ping_state_test_generated : forall st id,
  handle_ping_req st id =
  (if pingReqAnswer (cs_state st) =? 1
   then (if cs_sendroom st >? 0 then (set_room (cs_sendroom st - 1) st, [SendFrame c_messageTypePingRes id 0])
         else connection_error st)
   else protocol_error st id).
Proof. exact ping_state_test_generated. Qed.

Theorem C03_ping_legal_generated : forall st id payload,
  frame_legal st c_messageTypePingReq id payload = (pingReqAnswer (cs_state st) =? 1).
Proof. exact ping_legal_generated. Qed.

(* of the four connection states only Closed refuses a ping *)
Theorem C03_ping_refused_only_closed :
  pingReqAnswer c_connectionActive = 1 /\ pingReqAnswer c_connectionStartClose = 1 /\
  pingReqAnswer c_connectionInboundClosed = 1 /\ pingReqAnswer c_connectionClosed = 0.
Proof. exact ping_refused_only_closed. Qed.

(* a ping req on a connection that is not Closed (Active, or draining after Close with whatever
   calls in flight) and with room in the send queue has exactly one effect, the ping res with
   the request's id, and changes nothing but the send queue: no exchange is failed, the close
   state stays -- the peer's health check no longer tears a draining connection down *)
Theorem C03_ping_answered_unless_closed : forall st id payload, cs_state st <> c_connectionClosed -> cs_sendroom st > 0 ->
  handle_frame_no_relay st c_messageTypePingReq id payload
  = (set_room (cs_sendroom st - 1) st, [SendFrame c_messageTypePingRes id 0]).
Proof. exact ping_answered_unless_closed. Qed.

(* a Closed connection refuses it: illegal frame, nothing sent, exchanges stopped *)
Theorem C03_ping_refused_closed : forall st id payload, cs_state st = c_connectionClosed ->
  snd (handle_frame_no_relay st c_messageTypePingReq id payload) = [CloseConn] /\
  frame_legal st c_messageTypePingReq id payload = false.
Proof. exact ping_refused_closed. Qed.

Print Assumptions C03_no_panic.
Print Assumptions C03_ping_state_test_generated.
Print Assumptions C03_ping_answered_unless_closed.
Print Assumptions C03_no_panic_stream.
Print Assumptions C03_effects.
Print Assumptions C03_error_frame.
Print Assumptions C03_frame_local.
Print Assumptions C03_dispatch_only_wellformed.

(* non-vacuity: concrete frames on concrete states *)
Definition ex_hdr (size mt id : Z) : list Z := be 2 size ++ [mt; 0] ++ be 4 id ++ repeat 0 8.
Definition ex_callreq : list Z :=   (* flags ttl:4 tracing:25 service~1 nh csumtype (len:2 chunk)* *)
  [0; 0; 0; 39; 16] ++ repeat 0 25 ++ [1; 115; 0; 0; 0; 1; 109; 0; 0; 0; 0].
Definition ex_active (ins : exmap) : cstate := mkCS c_connectionActive ins [] false 8 false.

(* a valid call req with a fresh id is dispatched ... *)
Example C03_example_dispatch :
  snd (handle_frame (ex_active []) (ex_hdr (16 + zlen ex_callreq) 3 7) ex_callreq) = [Dispatch 7].
Proof. vm_compute. reflexivity. Qed.
(* ... the same frame while id 7 is in flight is a protocol error: error frame 0xff, connection shut down *)
Example C03_example_duplicate :
  snd (handle_frame (ex_active [(7, mx_new)]) (ex_hdr (16 + zlen ex_callreq) 3 7) ex_callreq)
  = [SendFrame c_messageTypeError 7 c_ErrCodeProtocol; CloseConn]
  /\ frame_wf_legal (ex_active [(7, mx_new)]) (ex_hdr (16 + zlen ex_callreq) 3 7) ex_callreq = false.
Proof. vm_compute. split; reflexivity. Qed.
(* ... on a closing connection it is declined with an error frame *)
Example C03_example_declined :
  snd (handle_frame (mkCS c_connectionStartClose [(5, mx_new)] [] false 8 false) (ex_hdr (16 + zlen ex_callreq) 3 7) ex_callreq)
  = [SendFrame c_messageTypeError 7 c_ErrCodeDeclined].
Proof. vm_compute. reflexivity. Qed.
(* ... cut inside the call req header it is dropped; an unknown message type is dropped; a size field below the header size closes *)
Example C03_example_dropped :
  snd (handle_frame (ex_active []) (ex_hdr (16 + 33) 3 7) (firstn 33 ex_callreq)) = [Drop]
  /\ snd (handle_frame (ex_active []) (ex_hdr 18 0x77 7) [1; 2]) = [Drop]
  /\ snd (handle_frame (ex_active []) (ex_hdr 15 3 7) ex_callreq) = [CloseConn].
Proof. vm_compute. repeat split; reflexivity. Qed.

(* ... a ping req while the connection drains after Close (call 5 in flight) is a legal frame
   and is answered with a ping res; the state is untouched apart from the send queue ... *)
Example C03_example_ping_draining :
  handle_frame (mkCS c_connectionStartClose [(5, mx_new)] [] false 8 false) (ex_hdr 16 0xd0 9) []
  = (mkCS c_connectionStartClose [(5, mx_new)] [] false 7 false, [SendFrame c_messageTypePingRes 9 0])
  /\ frame_wf_legal (mkCS c_connectionStartClose [(5, mx_new)] [] false 8 false) (ex_hdr 16 0xd0 9) [] = true
  /\ frame_wf_legal (mkCS c_connectionInboundClosed [] [(6, mx_new)] false 8 false) (ex_hdr 16 0xd0 9) [] = true.
Proof. vm_compute. repeat split; reflexivity. Qed.
(* ... on a Closed connection it is illegal and only shuts the (already closed) connection down *)
Example C03_example_ping_closed :
  snd (handle_frame (mkCS c_connectionClosed [] [] false 8 false) (ex_hdr 16 0xd0 9) []) = [CloseConn]
  /\ frame_wf_legal (mkCS c_connectionClosed [] [] false 8 false) (ex_hdr 16 0xd0 9) [] = false.
Proof. vm_compute. split; reflexivity. Qed.

(* ======================================================================================
   Relay connections, ids re-used over time ("frames for ... duplicate ids" of the quantifier).
   A relay keeps an item per call id of a connection and, after a timeout or failure, a
   tombstone whose collection timer deletes BY ID (relay.go relayItems.Entomb).  Model: the
   relay transition system of C09/C10 (Model/RelayItems.v: one label per lock-protected region;
   [panicked st] <> 0 = one of the Go panics of relay_timer_pool.go was reached).
   ====================================================================================== *)
From Verif Require Import Gen.GenRelayAdmit Model.RelayItems Proofs.RelayAssocP Proofs.RelayAdmitP Proofs.RelayReuseP.

(* TIE: the model's getDestination step IS the pair of decision functions go2v regenerates from
   Relayer.getDestination on every run (Gen/GenRelayAdmit.v; found/tomb = what r.outbound.Get
   returns for the id, dest_ok = RelayCall.Destination(), conn_ok = getConnectionRelay):
   proceed to the destination / duplicate (no error frame) / bad relay host / connection failed *)
Theorem C03_relay_admission_generated : forall cf st k f e c room,
  exec cf st (IGetDest k f e c) room =
  (let found := match lookup key_eqb (k, 0, f_id f) (items st) with Some _ => true | None => false end in
   let tomb := match lookup key_eqb (k, 0, f_id f) (items st) with Some it => it_tomb it | None => false end in
   let dest_ok := negb (e_dest e =? -1) in
   let conn_ok := 0 <=? e_dest e in
   if relayGetDestOk found tomb dest_ok conn_ok then (st, [IRemoteCan k f e c (e_dest e)])
   else if relayGetDestErr found tomb dest_ok conn_ok =? 1 then
     (st, [ICb c (CbFailed reason_duplicate); IDec k; ICb c CbEnd])
   else if relayGetDestErr found tomb dest_ok conn_ok =? 2 then
     (st, [ICb c (CbFailed reason_bad_host); ISendErr k (f_id f) c_ErrCodeDeclined; IDec k; ICb c CbEnd])
   else (st, [ICb c (CbFailed reason_conn_failed); ISendErr k (f_id f) c_ErrCodeNetwork; IDec k; ICb c CbEnd])).
Proof. exact getdest_tie. Qed.

(* the regenerated decision admits a call req only if the table holds NO item for its id, and
   ANY item -- live or tombstone -- gives the duplicate refusal, whatever the destination *)
Theorem C03_duplicate_check_covers_tombstones : forall found tomb dest_ok conn_ok,
  (relayGetDestOk found tomb dest_ok conn_ok = true -> found = false) /\
  (found = true -> relayGetDestOk found tomb dest_ok conn_ok = false /\ relayGetDestErr found tomb dest_ok conn_ok = 1).
Proof.
  exact (fun found tomb dest_ok conn_ok =>
    conj (admit_needs_no_item found tomb dest_ok conn_ok)
         (fun H => eq_ind_r (fun b => relayGetDestOk b tomb dest_ok conn_ok = false /\ relayGetDestErr b tomb dest_ok conn_ok = 1)
                            (present_is_duplicate tomb dest_ok conn_ok) H)).
Qed.

(* ... so a call req whose id has an item is dropped and the step changes nothing in the state *)
Theorem C03_reused_id_dropped : forall cf st k f e c room it,
  lookup key_eqb (k, 0, f_id f) (items st) = Some it ->
  exec cf st (IGetDest k f e c) room = (st, [ICb c (CbFailed reason_duplicate); IDec k; ICb c CbEnd]).
Proof. exact reuse_dropped. Qed.

(* the scheduled tombstone collection (relayItems.deleteTomb, model step LGc -- the code after
   the fix "the relay's tombstone collection deletes only the tombstone it was scheduled for")
   that meets a LIVE item leaves the item, its active timer and everything else alone; only the
   pending collection is consumed.  (Before the fix the collection was Delete-by-id: the release
   of the live item's active timer was the Go panic "only stopped or completed timers can be
   released" on a timer goroutine.) *)
Theorem C03_collection_leaves_live_item : forall cf st t it,
  panicked st = 0 -> mem_key t (gcs st) = true ->
  lookup key_eqb t (items st) = Some it -> it_tomb it = false ->
  step cf st (LGc t) = Some (set_gcs st (remove_one t (gcs st))).
Proof. exact gc_of_live_item_noop. Qed.

(* NO PANIC for id re-use schedules.  [run_reuse] accepts every interleaving of any number of
   connections, calls, frames, timeouts, full send buffers, closes, connection losses AND re-used
   ids, in which a re-using call req finds, at its getDestination step, an item for the id (the
   earlier call is in flight, timed out or failed: re-use within the tombstone period).  Every
   such schedule has exactly the connections, items, timers and pending collections of some
   fresh-id schedule (the re-using call reqs replaced by call reqs with never-used ids that the
   RelayHost gives no destination) ... *)
Theorem C03_relay_reuse_simulated : forall cf ls st, run_reuse cf init ls = Some st ->
  exists ls0 st0, run_fresh cf init ls0 = Some st0 /\
    conns st = conns st0 /\ items st = items st0 /\ timers st = timers st0 /\ gcs st = gcs st0 /\
    panicked st = panicked st0.
Proof. exact reuse_simulated. Qed.

(* ... hence, by the timer protocol of fresh-id schedules (C09_timer_protocol), no reachable
   state of a re-use schedule is a Go panic of the relay timer pool / tombstone collection *)
Theorem C03_relay_reuse_no_panic : forall cf ls st, run_reuse cf init ls = Some st -> panicked st = 0.
Proof. exact reuse_no_panic. Qed.

(* ... and in these schedules a pending tombstone collection only ever meets a tombstone or
   nothing (there relayItems.deleteTomb and the Delete-by-id it replaced do the same) *)
Theorem C03_collection_meets_only_tombstones : forall cf ls st t it, run_reuse cf init ls = Some st ->
  In t (gcs st) -> lookup key_eqb t (items st) = Some it -> it_tomb it = true.
Proof. exact reuse_gc_tombs. Qed.

(* The schedule that REFUTED "no schedule with re-used ids panics" on the pinned tree
   ([ex_early_delete]: a race of two reader goroutines on one call after which finishRelayItem
   deletes a tombstone whose collection is still pending; the id is re-used and admitted; the
   stale collection fires -- reproduced on the implementation by engine peerinput, case race0,
   verdict [c03:tombstone-collection-deletes-live-item], repaired by the fix) is harmless for
   the code as it is: the stale collection leaves the live item and its armed timer alone. *)
Theorem C03_stale_collection_harmless :
  exists st it x, run ex_cf init ex_early_delete = Some st /\ panicked st = 0 /\ gcs st = [(1, 1, 1)] /\
    lookup key_eqb (0, 0, 7) (items st) = Some it /\ it_tomb it = false /\
    lookup Z.eqb (it_tm it) (timers st) = Some x /\ tm_armed x = true.
Proof. exact stale_collection_harmless. Qed.

(* The schedule that refuted the unguarded statement before the fix "the relay finishes (deletes)
   a relay item only if it still belongs to the call the frame path looked up" ([ex_stale_finish]:
   the reader of the destination connection has looked the originating item up for the final call
   res -- relay.Receive.afterGet --, the caller's cancel is relayed, the id re-used at once and
   admitted, the first reader goes on: finishRelayItem; reproduced on the implementation by C09's
   engine relaystale, verdict [c09:stale-finish-deletes-live-item]) is harmless for the code as it
   is: relayItems.deleteCall finds an item of another call and leaves it alone; the re-using call
   (call 2) keeps its item, its armed timer and its pending count. *)
Theorem C03_stale_finish_harmless :
  exists st it x, run cn_cf init ex_stale_finish = Some st /\ panicked st = 0 /\
    lookup key_eqb (0, 0, 7) (items st) = Some it /\ it_tomb it = false /\ it_call it = 2 /\
    lookup Z.eqb (it_tm it) (timers st) = Some x /\ tm_armed x = true /\ c_pending (get_conn st 0) = 1.
Proof. exact stale_finish_harmless. Qed.

(* The guard of [run_reuse] is STILL NECESSARY: the unrestricted statement "no schedule with
   re-used ids panics" is REFUTED for the code as it is by [ex_stale_fail] (RelayMaxTombs = 1 and
   two tombstones of earlier calls): failRelayItem looks the item up (Get: timer stopped) and
   entombs BY ID in a second lock region; the reader of the destination connection, failing the
   call because the caller's send queue is full, is between the two; the caller's cancel is
   relayed (both items deleted, End) and the id re-used at once (no item: admitted, live item,
   armed timer); Entomb then finds more than RelayMaxTombs tombstones and deletes by id at once:
   the LIVE item of the new call, whose active timer it releases: panic "only stopped or completed
   timers can be released".  (Model witness only: relay.go has no schedule point between the Get
   and the Entomb of failRelayItem; the re-using call req met no item, so the schedule is outside
   [run_reuse].) *)
Theorem C03_relay_reuse_unguarded_refuted :
  exists ls st, run tt_cf init ls = Some st /\ panicked st = panic_release_active.
Proof. exact reuse_unguarded_refuted. Qed.

(* the fresh-id schedules of C09/C10 are re-use schedules (the guard speaks about re-used ids only) *)
Theorem C03_fresh_schedules_included : forall cf ls st, run_fresh cf init ls = Some st -> run_reuse cf init ls = Some st.
Proof. exact (fun cf ls st => run_fresh_is_reuse cf ls init st (NoDup_nil _)). Qed.

Print Assumptions C03_relay_admission_generated.
Print Assumptions C03_duplicate_check_covers_tombstones.
Print Assumptions C03_collection_leaves_live_item.
Print Assumptions C03_stale_collection_harmless.
Print Assumptions C03_stale_finish_harmless.
Print Assumptions C03_relay_reuse_simulated.
Print Assumptions C03_relay_reuse_no_panic.
Print Assumptions C03_fresh_schedules_included.
Print Assumptions C03_collection_meets_only_tombstones.
Print Assumptions C03_relay_reuse_unguarded_refuted.

(* non-vacuity: call req 7 is relayed and times out (tombstone, collection pending); id 7 is
   re-used while the tombstone exists: the model DROPS the frame -- nothing is forwarded to the
   destination connection 1, the call is reported Failed(duplicate)/End, tables and timers are
   untouched --; the collection then removes the tombstone without a panic.  The schedule is a
   re-use schedule and NOT a fresh-id schedule (outside the quantifier of C09). *)
Example C03_example_reuse_while_tomb :
  match run_reuse ex_cf init ex_timed_out,
        run_reuse ex_cf init (ex_timed_out ++ ex_reuse),
        run_reuse ex_cf init (ex_timed_out ++ ex_reuse ++ ex_collect) with
  | Some s1, Some s2, Some s3 =>
      option_map it_tomb (lookup key_eqb (0, 0, 7) (items s1)) = Some true /\ gcs s1 = [(0, 0, 7)] /\
      items s2 = items s1 /\ timers s2 = timers s1 /\ gcs s2 = gcs s1 /\ sent s2 = sent s1 /\ threads s2 = [] /\
      cblog s2 = (2, CbEnd) :: (2, CbFailed reason_duplicate) :: cblog s1 /\
      lookup key_eqb (0, 0, 7) (items s3) = None /\ gcs s3 = [] /\ panicked s3 = 0
  | _, _, _ => False
  end /\ run_fresh ex_cf init (ex_timed_out ++ ex_reuse) = None.
Proof. vm_compute. repeat split; reflexivity. Qed.

(* ======================================================================================
   Pooled objects (strengthening U03): "malformed input costs only that frame or connection"
   across sync.Pool.  An object that one peer's malformed input drove into a failed state goes
   back into a process-wide pool and is drawn by a later user that may serve ANY other
   connection.  Table of all pools with their reset statements: Gen/GenPoolReset.v (regenerated
   from the source by go2v/poolreset.go); discipline: Model/PoolReset.v; the pooled typed.Reader
   (thrift application headers) and typed.Writer as executable models: Model/PoolReader.v.
   ====================================================================================== *)
From Verif Require Import Spec.PoolSpec Gen.GenPoolReset Model.PoolReset Model.PoolReader Model.TypedBuf Model.Messages
  Proofs.PoolResetP Proofs.PoolReaderP.

(* the code as it is, every sync.Pool of the library (typed.Reader, typed.intBuffer, the thrift
   protocol pool, the argument-reader scratch, request states, relay timers, checksums, metric
   buffers; frames are delegated): every field of a pooled struct that some function reads before
   writing it is a constant of the object, or assigned by EVERY Get path directly after the Get to a
   value that does not depend on the previous user, or zeroed by every Put path, or a reviewed
   exception pinned to today's readers and writers of the field *)
Theorem C03_pool_reset_discipline_generated : pr_failures pool_reset_table = [].
Proof. exact pool_table_disciplined. Qed.
Theorem C03_pool_table_complete : pr_missing_pools pool_reset_table = [].
Proof. exact pool_table_complete. Qed.
Theorem C03_pool_exceptions_current : pr_stale_exceptions pool_reset_table = [].
Proof. exact pool_exceptions_current. Qed.

(* what the discipline buys, for ANY pooled object type: if every field that is live on entry of a
   user is overwritten on the Get path with values computed from the user's own arguments, and a
   user's run reads no other field before writing it, then the results of a whole history of users
   do not depend on which objects the pool handed out nor on what it held at the start *)
Theorem C03_pool_discipline_isolates_users : forall (F V A B : Type) (reset : A -> F -> option V) (L : F -> Prop)
    (use : obj F V -> A -> obj F V * B),
  disciplined reset L -> respects L use ->
  forall args choice choice' pool pool',
    run_users reset use choice pool args = run_users reset use choice' pool' args.
Proof. exact (fun F V A B reset L use Hd Hr => clean_users reset L use Hd Hr). Qed.

(* the model of the pooled Reader is the code's: NewReader assigns exactly r.reader (its parameter)
   and r.err (nil), Release is a plain Put, the struct has the three fields of the model *)
Theorem C03_reader_get_path_generated :
  pr_get_resets_of pool_reset_table pr_k_readerPool pr_k_NewReader = [tr_new_resets] /\
  pr_put_resets_of pool_reset_table pr_k_readerPool pr_k_Release = [tr_release_resets] /\
  pr_fields_of pool_reset_table pr_k_readerPool = tr_fields /\
  (forall pooled s, tr_new pooled s = tr_get tr_new_resets pooled s).
Proof. exact (conj reader_get_resets_generated (conj reader_put_resets_generated (conj reader_fields_generated tr_new_is_get))). Qed.

(* thrift.ReadHeaders through a pooled Reader in ANY state (any sticky error, any scratch bytes, any
   stale underlying reader) on a header block [bytes] that ends with the error [fin] of the argument
   reader: no panic; the error is nil exactly when the specification of the block (decoder over the
   bytes alone) accepts it, and then the headers are the specified ones *)
Theorem C03_pooled_reader_headers_spec : forall pooled bytes fin,
  tr_ok pooled -> bytes_ok bytes = true -> fin <> 0 ->
  exists h e r', tr_ReadHeaders pooled (mkPS bytes fin) = Some (h, e, r') /\ tr_ok r' /\
    (e = 0 <-> rerr (snd (r_theaders (rb bytes))) = false) /\
    (e = 0 -> h = fst (r_theaders (rb bytes))).
Proof. exact pooled_headers_spec. Qed.

(* ... and a whole history: one pooled Reader serving any sequence of blocks -- malformed ones of a
   hostile peer, well-formed ones of other connections, in any order -- gives on every block the
   result (headers AND error) that a brand-new Reader gives on that block alone *)
Theorem C03_pooled_reader_history : forall inputs pooled, tr_ok pooled ->
  Forall (fun s => bytes_ok (ps_bytes s) = true) inputs ->
  tr_serve pooled inputs = map tr_alone inputs.
Proof. exact pooled_reader_history. Qed.

(* both reset statements of the Get path are NECESSARY.  Without r.err = nil: the malformed block
   00 01 00 05 'a' leaves a Reader that fails the next, well-formed block with the stale
   io.ErrUnexpectedEOF (code 2) *)
Theorem C03_reader_err_reset_necessary :
  exists hostile good, bytes_ok hostile = true /\ bytes_ok good = true /\
    rerr (snd (r_theaders (rb good))) = false /\
    match tr_ReadHeaders_with tr_resets_no_err tr_fresh (mkPS hostile 1) with
    | Some (_, _, released) =>
        match tr_ReadHeaders_with tr_resets_no_err released (mkPS good 1) with
        | Some (_, e, _) => e = 2
        | None => False
        end
    | None => False
    end.
Proof. exact reader_err_reset_necessary. Qed.
(* without r.reader = reader: the next user decodes the previous user's stream *)
Theorem C03_reader_reader_reset_necessary :
  exists first good, bytes_ok first = true /\ bytes_ok good = true /\
    match tr_ReadHeaders_with tr_resets_no_reader (mkTR (mkPS first 1) 0 (repeat 0 32)) (mkPS good 1) with
    | Some (h, e, _) => e = 0 /\ h <> fst (r_theaders (rb good))
    | None => False
    end.
Proof. exact reader_reader_reset_necessary. Qed.

(* typed.Writer: whatever the pooled 8-byte scratch of WriteUint16 holds, the bytes written and the
   final error state are the same (relay: arg2 re-written with appended headers) *)
Theorem C03_pooled_intbuf_clean : forall ops ib1 ib2 w, length ib1 = 8%nat -> length ib2 = 8%nat ->
  pwr_run_ops ops ib1 w = pwr_run_ops ops ib2 w.
Proof. exact pooled_intbuf_clean. Qed.

Print Assumptions C03_pool_reset_discipline_generated.
Print Assumptions C03_pool_table_complete.
Print Assumptions C03_pool_exceptions_current.
Print Assumptions C03_pool_discipline_isolates_users.
Print Assumptions C03_reader_get_path_generated.
Print Assumptions C03_pooled_reader_headers_spec.
Print Assumptions C03_pooled_reader_history.
Print Assumptions C03_reader_err_reset_necessary.
Print Assumptions C03_reader_reader_reset_necessary.
Print Assumptions C03_pooled_intbuf_clean.

(* non-vacuity: the harness' poisoned pool object (error set, scratch full of 0xAA, a dead underlying
   reader) serves the hostile block, then a well-formed one: the first fails with
   io.ErrUnexpectedEOF, the second decodes its one pair *)
Example C03_example_poisoned_reader :
  tr_ok tr_poison /\
  tr_serve tr_poison [mkPS [0; 1; 0; 5; 97] 1; mkPS [0; 1; 0; 1; 107; 0; 2; 118; 119] 1] =
    [Some (Some [([], [])], 2); Some (Some [([107], [118; 119])], 0)].
Proof. vm_compute. split; reflexivity. Qed.
